import CrabProofs.Lemmas.XDomCong2

/-!
  `congruence_domain` (model `Crab.GDom`): `to_congruence(expr)`, the solver
  (`refine`, `compute_residual`, `propagate`, `solve_system`, constructor, `run`) and `+=`.
-/
namespace Crab
namespace GDom
open XDom Lin Cong

local notation "GL" => congLattice

namespace Env

def Inv (e : Env) : Prop := XDom.Env.Inv GL e
def γ (e : Env) (σ : State) : Prop := XDom.Env.γ GL Cong.mem e σ

theorem inv_bot : (bot : Env).Inv := XDom.Env.inv_bot
theorem inv_top : (top : Env).Inv := XDom.Env.inv_top
theorem not_γ_of_bot {e : Env} (h : e.isBot = true) (σ : State) : ¬ e.γ σ := XDom.Env.not_γ_of_bot h σ
theorem get_mem {e : Env} {σ : State} (hg : e.γ σ) (x : Var) : Cong.mem (σ x) (e.get x) := hg.2 x
theorem get_wf {e : Env} (he : e.Inv) (x : Var) : WF (e.get x) := XDom.Env.get_good congLaws he x

theorem set_inv {e : Env} (he : e.Inv) {x : Var} (hx : x < 2 ^ 64) {v : Cong} (hv : WF v) : (e.set x v).Inv :=
  XDom.Env.set_inv congLaws he hx hv
theorem set_sound {e : Env} (he : e.Inv) {σ : State} (hg : e.γ σ) {x : Var} (hx : x < 2 ^ 64)
    {v : Cong} (hv : WF v) {n : Int} (hn : Cong.mem n v) : (e.set x v).γ (upd σ x n) :=
  XDom.Env.set_sound congLaws he hg hx hv hn
theorem set_sound_same {e : Env} (he : e.Inv) {σ : State} (hg : e.γ σ) {x : Var} (hx : x < 2 ^ 64)
    {v : Cong} (hv : WF v) (hn : Cong.mem (σ x) v) : (e.set x v).γ σ :=
  XDom.Env.set_sound_same congLaws he hg hx hv hn

/-! ### `to_congruence(expr)` -/

theorem evalFold_sound {e : Env} {σ : State} (hg : e.γ σ) : ∀ (ts : List (Var × Int)) (r : Cong) (acc : Int),
    Cong.mem acc r → Cong.mem (acc + Expr.evalTerms σ ts)
      (ts.foldl (fun r p => Cong.add r (Cong.mul (Cong.ofInt p.2) (e.get p.1))) r) := by
  intro ts
  induction ts with
  | nil => intro r acc h; simpa [Expr.evalTerms] using h
  | cons p rest ih =>
    intro r acc h
    obtain ⟨v, c⟩ := p
    simp only [List.foldl_cons, Expr.evalTerms]
    have h1 : Cong.mem (acc + c * σ v) (Cong.add r (Cong.mul (Cong.ofInt c) (e.get v))) :=
      Cong.add_sound h (Cong.mul_sound ((Cong.mem_ofInt c c).2 rfl) (get_mem hg v))
    have := ih _ _ h1
    have e1 : acc + (c * σ v + Expr.evalTerms σ rest) = acc + c * σ v + Expr.evalTerms σ rest := by omega
    rw [e1]; exact this

/-- `to_congruence(expr)` contains the value of the expression -/
theorem eval_sound {e : Env} {σ : State} (hg : e.γ σ) (ex : Expr) : Cong.mem (ex.eval σ) (e.eval ex) := by
  have := evalFold_sound hg ex.terms (Cong.ofInt ex.cst) ex.cst ((Cong.mem_ofInt _ _).2 rfl)
  unfold Expr.eval eval
  have e1 : Expr.evalTerms σ ex.terms + ex.cst = ex.cst + Expr.evalTerms σ ex.terms := by omega
  rw [e1]; exact this

theorem wf_fold {f : Cong → Var × Int → Cong} (hf : ∀ r p, WF r → WF (f r p)) :
    ∀ (ts : List (Var × Int)) (r : Cong), WF r → WF (ts.foldl f r) := by
  intro ts
  induction ts with
  | nil => intro r h; exact h
  | cons p rest ih => intro r h; exact ih _ (hf r p h)

theorem wf_eval (e : Env) (ex : Expr) : WF (e.eval ex) :=
  wf_fold (fun _ _ _ => wf_add _ _) _ _ (wf_ofInt _)

end Env

/-! ### the solver -/

theorem wf_computeResidual (c : Lin.Cst) (pivot : Var) (env : Env) : WF (computeResidual c pivot env) :=
  Env.wf_fold (fun r p h => by
    show WF (if p.1 = pivot then r else Cong.sub r (Cong.mul (Cong.ofInt p.2) (env.get p.1)))
    split
    · exact h
    · exact wf_sub _ _) _ _ (wf_ofInt _)

theorem computeResidual_sound {env : Env} {σ : State} (hg : env.γ σ) (c : Lin.Cst) (pivot : Var) :
    Cong.mem (c.constant - IDom.restSum σ pivot c.expr.terms) (computeResidual c pivot env) := by
  have key : ∀ (ts : List (Var × Int)) (r : Cong) (acc : Int), Cong.mem acc r →
      Cong.mem (acc - IDom.restSum σ pivot ts)
        (ts.foldl (fun r p => if p.1 = pivot then r else Cong.sub r (Cong.mul (Cong.ofInt p.2) (env.get p.1))) r) := by
    intro ts
    induction ts with
    | nil => intro r acc h; simpa [IDom.restSum] using h
    | cons p rest ih =>
      intro r acc h
      obtain ⟨v, k⟩ := p
      simp only [List.foldl_cons, IDom.restSum]
      by_cases hv : v = pivot
      · simp only [hv, if_true]; exact ih r acc h
      · simp only [hv, if_false]
        have h1 : Cong.mem (acc - k * σ v) (Cong.sub r (Cong.mul (Cong.ofInt k) (env.get v))) :=
          Cong.sub_sound h (Cong.mul_sound ((Cong.mem_ofInt k k).2 rfl) (Env.get_mem hg v))
        have := ih _ _ h1
        have e1 : acc - (k * σ v + IDom.restSum σ pivot rest) = acc - k * σ v - IDom.restSum σ pivot rest := by omega
        rw [e1]; exact this
  exact key _ _ _ ((Cong.mem_ofInt _ _).2 rfl)

/-- invariant of the solver state -/
def StInv (st : SolverSt) : Prop := st.env.Inv

theorem refine_inv {st : SolverSt} (hi : StInv st) {v : Var} (hv : v < 2 ^ 64) {i : Cong} (hw : WF i) :
    StInv (refine st v i).2 := by
  unfold refine
  simp only
  split
  · exact hi
  · split
    · exact Env.set_inv hi hv (wf_meet (Env.get_wf hi v) hw)
    · exact hi

/-- `refine(v, i, env)` with a value that contains the current value of `v` -/
theorem refine_sound {st : SolverSt} (hi : StInv st) {σ : State} (hg : st.env.γ σ) {v : Var} (hv : v < 2 ^ 64)
    {i : Cong} (hw : WF i) (hm : Cong.mem (σ v) i) :
    (refine st v i).1 = false ∧ (refine st v i).2.env.γ σ := by
  have hmm : Cong.mem (σ v) (Cong.meet (st.env.get v) i) := Cong.meet_sound (Env.get_mem hg v) hm
  unfold refine
  simp only
  split
  · rename_i hb
    exact absurd hmm (Cong.not_mem_of_isBot hb)
  · split
    · exact ⟨rfl, Env.set_sound_same hi hg hv (wf_meet (Env.get_wf hi v) hw) hmm⟩
    · exact ⟨rfl, hg⟩

theorem propagateLoop_inv {c : Lin.Cst} (hc : CstOk c) : ∀ (ts : List (Var × Int)),
    (∀ p ∈ ts, p ∈ c.expr.terms) → ∀ st : SolverSt, StInv st → StInv (propagateLoop c ts st).2 := by
  intro ts
  induction ts with
  | nil => intro _ st hi; exact hi
  | cons p rest ih =>
    intro hsub st hi
    obtain ⟨pivot, coef⟩ := p
    have hrest : ∀ q ∈ rest, q ∈ c.expr.terms := fun q hq => hsub q (List.mem_cons_of_mem _ hq)
    have hlt : pivot < 2 ^ 64 := hc.2 _ (hsub _ List.mem_cons_self)
    simp only [propagateLoop]
    split
    · have hr := refine_inv hi hlt (i := Cong.div (computeResidual c pivot st.env) (Cong.ofInt coef))
        (wf_div (wf_computeResidual _ _ _) _)
      split
      · rename_i st' heq; rw [heq] at hr; exact hr
      · rename_i st' heq; rw [heq] at hr; exact ih hrest st' hr
    · exact ih hrest st hi

/-- `propagate(cst, env)` on a state that satisfies the constraint: no contradiction is found
    and the state is kept -/
theorem propagateLoop_sound {c : Lin.Cst} (hc : CstOk c) {σ : State} (hsat : c.sat σ) :
    ∀ (ts : List (Var × Int)), (∀ p ∈ ts, p ∈ c.expr.terms) → ∀ st : SolverSt, StInv st → st.env.γ σ →
      (propagateLoop c ts st).1 = false ∧ (propagateLoop c ts st).2.env.γ σ := by
  intro ts
  induction ts with
  | nil => intro _ st _ hg; exact ⟨rfl, hg⟩
  | cons p rest ih =>
    intro hsub st hi hg
    obtain ⟨pivot, coef⟩ := p
    have hrest : ∀ q ∈ rest, q ∈ c.expr.terms := fun q hq => hsub q (List.mem_cons_of_mem _ hq)
    have hm : (pivot, coef) ∈ c.expr.terms := hsub _ List.mem_cons_self
    have hlt : pivot < 2 ^ 64 := hc.2 _ hm
    have hne : coef ≠ 0 := hc.1.2 _ hm
    simp only [propagateLoop]
    split
    · rename_i hk
      have hr := computeResidual_sound hg c pivot
      have hpv : c.constant - IDom.restSum σ pivot c.expr.terms = coef * σ pivot := by
        have h0 : c.expr.eval σ = 0 := by simpa [Lin.Cst.sat, hk] using hsat
        unfold Expr.eval at h0
        rw [IDom.evalTerms_split σ hc.1.1 hm] at h0
        simp only [Lin.Cst.constant, Expr.constant]
        omega
      rw [hpv] at hr
      have hd := Cong.div_sound hr ((Cong.mem_ofInt coef coef).2 rfl) hne
      rw [IDom.tdiv_mul_cancel hne] at hd
      have hw : WF (Cong.div (computeResidual c pivot st.env) (Cong.ofInt coef)) :=
        wf_div (wf_computeResidual _ _ _) _
      obtain ⟨r1, r2⟩ := refine_sound hi hg hlt hw hd
      have ri := refine_inv hi hlt hw
      split
      · rename_i st' heq; rw [heq] at r1; cases r1
      · rename_i st' heq
        rw [heq] at r2 ri
        exact ih hrest st' ri r2
    · exact ih hrest st hi hg

theorem propagateAll_spec {σ : State} : ∀ (tbl : List Lin.Cst), (∀ c ∈ tbl, CstOk c) → ∀ st : SolverSt, StInv st →
    StInv (propagateAll tbl st).2 ∧
    ((∀ c ∈ tbl, c.sat σ) → st.env.γ σ → (propagateAll tbl st).1 = false ∧ (propagateAll tbl st).2.env.γ σ) := by
  intro tbl
  induction tbl with
  | nil => intro _ st hi; exact ⟨hi, fun _ hg => ⟨rfl, hg⟩⟩
  | cons c rest ih =>
    intro hok st hi
    have hc := hok c List.mem_cons_self
    have hrest : ∀ c' ∈ rest, CstOk c' := fun c' h => hok c' (List.mem_cons_of_mem _ h)
    have pi := propagateLoop_inv hc c.expr.terms (fun _ h => h) st hi
    simp only [propagateAll, propagate]
    split
    · rename_i st' heq
      rw [heq] at pi
      refine ⟨pi, fun hs hg => ?_⟩
      have := (propagateLoop_sound hc (hs c List.mem_cons_self) c.expr.terms (fun _ h => h) st hi hg).1
      rw [heq] at this; cases this
    · rename_i st' heq
      rw [heq] at pi
      obtain ⟨i2, s2⟩ := ih hrest st' pi
      refine ⟨i2, fun hs hg => ?_⟩
      have := (propagateLoop_sound hc (hs c List.mem_cons_self) c.expr.terms (fun _ h => h) st hi hg).2
      rw [heq] at this
      exact s2 (fun c' h => hs c' (List.mem_cons_of_mem _ h)) this

theorem solveLoop_spec {σ : State} {tbl : List Lin.Cst} (hok : ∀ c ∈ tbl, CstOk c) :
    ∀ (fuel : Nat) (env : Env), env.Inv →
      (solveLoop tbl fuel env).2.Inv ∧
      ((∀ c ∈ tbl, c.sat σ) → env.γ σ → (solveLoop tbl fuel env).1 = false ∧ (solveLoop tbl fuel env).2.γ σ) := by
  intro fuel
  induction fuel with
  | zero =>
    intro env hi
    obtain ⟨i1, s1⟩ := propagateAll_spec (σ := σ) tbl hok ⟨env, false⟩ hi
    unfold solveLoop
    split
    · rename_i st' heq
      rw [heq] at i1 s1
      exact ⟨i1, fun hs hg => by have := (s1 hs hg).1; cases this⟩
    · rename_i st' heq
      rw [heq] at i1 s1
      exact ⟨i1, fun hs hg => ⟨rfl, (s1 hs hg).2⟩⟩
  | succ n ih =>
    intro env hi
    obtain ⟨i1, s1⟩ := propagateAll_spec (σ := σ) tbl hok ⟨env, false⟩ hi
    unfold solveLoop
    split
    · rename_i st' heq
      rw [heq] at i1 s1
      exact ⟨i1, fun hs hg => by have := (s1 hs hg).1; cases this⟩
    · rename_i st' heq
      rw [heq] at i1 s1
      simp only
      split
      · obtain ⟨i2, s2⟩ := ih st'.env i1
        exact ⟨i2, fun hs hg => s2 hs (s1 hs hg).2⟩
      · exact ⟨i1, fun hs hg => ⟨rfl, (s1 hs hg).2⟩⟩

theorem prepLoop_spec {σ : State} : ∀ (csts tbl : List Lin.Cst),
    (∀ c ∈ csts, CstOk c) → (∀ c ∈ tbl, CstOk c) →
    match prepLoop csts tbl with
    | none => ¬ Sys.sat csts σ
    | some t => (∀ c ∈ t, CstOk c) ∧ ((∀ c ∈ tbl, c.sat σ) → Sys.sat csts σ → ∀ c ∈ t, c.sat σ) := by
  intro csts
  induction csts with
  | nil => intro tbl _ ht; simp only [prepLoop]; exact ⟨ht, fun h _ => h⟩
  | cons c rest ih =>
    intro tbl hok ht
    have hrest : ∀ c' ∈ rest, CstOk c' := fun c' h => hok c' (List.mem_cons_of_mem _ h)
    by_cases hcon : c.isContradiction = true
    · simp only [prepLoop, hcon, if_true]
      intro hs
      exact Lin.Cst.not_sat_of_isContradiction hcon σ (hs c List.mem_cons_self)
    · by_cases htau : c.isTautology = true
      · simp only [prepLoop, hcon, htau, if_true, if_false]
        have := ih tbl hrest ht
        cases heq : prepLoop rest tbl with
        | none =>
          rw [heq] at this; simp only at this ⊢
          intro hs; exact this (fun c' h => hs c' (List.mem_cons_of_mem _ h))
        | some t =>
          rw [heq] at this; simp only at this ⊢
          exact ⟨this.1, fun h1 hs => this.2 h1 (fun c' h => hs c' (List.mem_cons_of_mem _ h))⟩
      · simp only [prepLoop, hcon, htau, if_false]
        have ht' : ∀ c' ∈ tbl ++ [c], CstOk c' := by
          intro c' h
          rcases List.mem_append.mp h with h | h
          · exact ht c' h
          · simp only [List.mem_cons, List.not_mem_nil, or_false] at h; subst h; exact hok _ List.mem_cons_self
        have := ih (tbl ++ [c]) hrest ht'
        cases heq : prepLoop rest (tbl ++ [c]) with
        | none =>
          rw [heq] at this; simp only at this ⊢
          intro hs; exact this (fun c' h => hs c' (List.mem_cons_of_mem _ h))
        | some t =>
          rw [heq] at this; simp only at this ⊢
          refine ⟨this.1, fun h1 hs => this.2 ?_ (fun c' h => hs c' (List.mem_cons_of_mem _ h))⟩
          intro c' h
          rcases List.mem_append.mp h with h | h
          · exact h1 c' h
          · simp only [List.mem_cons, List.not_mem_nil, or_false] at h; subst h; exact hs _ List.mem_cons_self

theorem solverRun_spec {csts : Sys} (hok : ∀ c ∈ csts, CstOk c) (maxCycles : Nat) {env : Env} (hi : env.Inv) :
    (solverRun csts maxCycles env).Inv ∧
    ∀ σ : State, Sys.sat csts σ → env.γ σ → (solverRun csts maxCycles env).γ σ := by
  unfold solverRun
  split
  · rename_i heq
    refine ⟨Env.inv_bot, fun σ hs _ => ?_⟩
    have := prepLoop_spec (σ := σ) csts [] hok (by simp)
    rw [heq] at this
    exact absurd hs this
  · rename_i tbl heq
    have hp : ∀ σ : State, (∀ c ∈ tbl, CstOk c) ∧ (Sys.sat csts σ → ∀ c ∈ tbl, c.sat σ) := by
      intro σ
      have := prepLoop_spec (σ := σ) csts [] hok (by simp)
      rw [heq] at this
      exact ⟨this.1, fun hs => this.2 (by simp) hs⟩
    have hokt := (hp (fun _ => 0)).1
    simp only
    split
    · rename_i hb
      refine ⟨Env.inv_bot, fun σ hs hg => ?_⟩
      have := (solveLoop_spec (σ := σ) hokt maxCycles env hi).2 ((hp σ).2 hs) hg
      rw [this.1] at hb; cases hb
    · exact ⟨(solveLoop_spec (σ := fun _ => 0) hokt maxCycles env hi).1,
        fun σ hs hg => ((solveLoop_spec (σ := σ) hokt maxCycles env hi).2 ((hp σ).2 hs) hg).2⟩

namespace Env

theorem add_inv {e : Env} (he : e.Inv) {csts : Sys} (hok : ∀ c ∈ csts, CstOk c) : (e.add csts).Inv := by
  unfold add
  split
  · exact he
  · exact (solverRun_spec hok _ he).1

/-- `operator+=(csts)`: every state of `γ` that satisfies the system is kept -/
theorem add_sound {e : Env} (he : e.Inv) {σ : State} (hg : e.γ σ) {csts : Sys} (hok : ∀ c ∈ csts, CstOk c)
    (hsat : Sys.sat csts σ) : (e.add csts).γ σ := by
  unfold add
  simp only [hg.1, Bool.false_eq_true, if_false]
  exact (solverRun_spec hok _ he).2 σ hsat hg

theorem single_ok {c : Lin.Cst} (h : CstOk c) : ∀ c' ∈ [c], CstOk c' := by
  intro c' hc'
  simp only [List.mem_cons, List.not_mem_nil, or_false] at hc'
  subst hc'; exact h

end Env
end GDom
end Crab
