import CrabProofs.Lemmas.FunctorFlatBoolOps2

/-!
Soundness of the numerical operations, `+=`, `-=`, the casts and the lattice operations of the
model of `flat_boolean_numerical_domain`.
-/
set_option linter.unusedSectionVars false
set_option linter.unusedSimpArgs false

namespace Crab
namespace Dom
namespace Fct

variable {V : Type} [DecidableEq V] {K : CSig V}

namespace FEnv
/-- `-= v` keeps every state that differs at most in the Boolean `v` -/
theorem forget1_sound' {e : FEnv V} {s s' : CSt V} (h : γ e s) (v : V)
    (hs : ∀ k, k ≠ v → s'.bool k = s.bool k) : γ (e.forget1 v) s' := by
  cases e with
  | bot => exact h.elim
  | env m =>
    intro y c hy
    simp only [AL.get_del] at hy
    by_cases hyv : y = v
    · simp [hyv] at hy
    · simp only [hyv, if_false] at hy
      rw [hs y hyv]; exact h y c hy
end FEnv

namespace FBN
variable {N : BNDom V K}

theorem setN_bool (s : CSt V) (x : V) (k : Int) : (s.setN x k).bool = s.bool := rfl

/-! ### numerical statements -/

theorem numDef_sound (m : Prod2.Meth) {f2 : N.B → N.B} {x : V} {r : CSt V → CSt V → Prop}
    (hf2 : N.TSound f2 r) (hd : DefinesNum x r) {a : FBN N} {s s' : CSt V} (hg : γ a s) (hr : r s s') :
    γ (numDef m f2 x a) s' := by
  have h1 : (FB V).TSound id r := by
    intro e t t' he hr'
    obtain ⟨k, rfl⟩ := hd t t' hr'
    exact FEnv.γ_congr he rfl
  have hp0 := Prod2.op_sound m h1 hf2 hg.1 hr
  obtain ⟨k, rfl⟩ := hd s s' hr
  obtain ⟨hp, hlb, hbb, hub, hL, hB⟩ := hg
  exact ⟨hp0, hlb, hbb, by show (a.unch.remove x).isBot = false; rw [DSet.isBot_remove]; exact hub,
    hL.setN hub x k, hB.setN x k⟩

theorem castOther_sound {f2 : N.B → N.B} {dst : V} {r : CSt V → CSt V → Prop}
    (hf2 : N.TSound f2 r) (hd : DefinesNum dst r) {a : FBN N} {s s' : CSt V} (hg : γ a s) (hr : r s s') :
    γ (castOther f2 dst a) s' := by
  have h1 : (FB V).TSound (fun e => FEnv.forget1 e dst) r := by
    intro e t t' he hr'
    obtain ⟨k, rfl⟩ := hd t t' hr'
    exact FEnv.forget1_sound' he dst (fun _ _ => rfl)
  have hp0 := Prod2.op_sound .cast h1 hf2 hg.1 hr
  obtain ⟨k, rfl⟩ := hd s s' hr
  obtain ⟨hp, hlb, hbb, hub, hL, hB⟩ := hg
  exact ⟨hp0, hlb, hbb, by show (a.unch.remove dst).isBot = false; rw [DSet.isBot_remove]; exact hub,
    hL.setN hub dst k, hB.setN dst k⟩

/-- the loop of `+=` over the Boolean literals -/
theorem foldl_assume_sound {s : CSt V} (lits : List (V × Bool)) :
    ∀ (p : Prod2 (FB V) N.toLDom), p.γ s → (∀ l ∈ lits, s.bool l.1 = !l.2) →
      (lits.foldl (fun p l => Prod2.onFirst (fun (e : FEnv V) => e.assumeBool l.1 l.2) p) p).γ s := by
  induction lits with
  | nil => exact fun p hp _ => hp
  | cons l r ih =>
    intro p hp hl
    simp only [List.foldl_cons]
    apply ih _ _ (fun l' hl' => hl l' (List.mem_cons_of_mem _ hl'))
    exact Prod2.onFirst_γ hp (FEnv.assumeBool_sound hp.2.1 l.1 l.2 (hl l List.mem_cons_self)) hp.2.2

theorem addCsts_sound (isTrue allNonBool : Bool) {lits : List (V × Bool)} {f2 : N.B → N.B}
    {r : CSt V → CSt V → Prop} (hf2 : N.TSound f2 r) (hd : Filters r)
    (hl : ∀ s s', r s s' → ∀ l ∈ lits, s.bool l.1 = !l.2) {a : FBN N} {s s' : CSt V} (hg : γ a s)
    (hr : r s s') : γ (addCsts isTrue allNonBool lits f2 a) s' := by
  have e := hd s s' hr
  subst e
  unfold addCsts
  apply γ_ite (fun _ => hg)
  intro _
  apply γ_ite
  · intro _
    exact ⟨Prod2.onSecond_γ hg.1 hg.1.2.1 (hf2 _ _ _ hg.1.2.2 hr), hg.2⟩
  · intro _
    have hp1 := foldl_assume_sound lits a.prod hg.1 (hl _ _ hr)
    exact ⟨Prod2.onSecond_γ hp1 hp1.2.1 (hf2 _ _ _ hp1.2.2 hr), hg.2⟩

/-! ### `operator-=` -/

theorem BoolInvOf.mono {bs bs' : SEnv V V} {s : CSt V} (h : BoolInvOf bs s)
    (hm : ∀ k k', (bs'.look k).mem k' = true → (bs.look k).mem k' = true) : BoolInvOf bs' s :=
  fun k k' hk hs => h k k' (hm k k' hk) hs

theorem forget1_sound (isBool : V → Bool) {f2 : N.B → N.B} {v : V}
    (hf2 : N.TSound f2 (relForget1 isBool v)) {a : FBN N} {s s' : CSt V} (hg : γ a s)
    (hr : relForget1 isBool v s s') : γ (forget1 isBool f2 v a) s' := by
  have h1 : (FB V).TSound (fun e => FEnv.forget1 e v) (relForget1 isBool v) := by
    intro e t t' he hr'
    apply FEnv.forget1_sound' he v
    intro k hk
    unfold relForget1 at hr'
    split at hr'
    · obtain ⟨b, rfl⟩ := hr'; simp [CSt.setB, hk]
    · obtain ⟨b, rfl⟩ := hr'; rfl
  have hp0 := Prod2.op_sound .forget1 h1 hf2 hg.1 hr
  obtain ⟨hp, hlb, hbb, hub, hL, hB⟩ := hg
  unfold relForget1 at hr
  unfold forget1
  cases hv : isBool v with
  | true =>
    simp only [hv, if_true] at hr ⊢
    obtain ⟨b, rfl⟩ := hr
    exact ⟨hp0, by show (a.lin.del v).isBot = false; rw [SEnv.isBot_del]; exact hlb,
      by show (forgetImpliedBool v (a.bools.del v)).isBot = false
         rw [isBot_forgetImpliedBool, SEnv.isBot_del]; exact hbb,
      hub, hL.setB_del hlb v b, hB.setB_del' hbb v b⟩
  | false =>
    simp only [hv, Bool.false_eq_true, if_false] at hr ⊢
    obtain ⟨k, rfl⟩ := hr
    refine ⟨hp0, hlb, by show (forgetImpliedBool v a.bools).isBot = false
                         rw [isBot_forgetImpliedBool]; exact hbb,
      by show (a.unch.remove v).isBot = false; rw [DSet.isBot_remove]; exact hub, hL.setN hub v k, ?_⟩
    apply BoolInvOf.mono (hB.setN v k)
    intro k1 k2 hk
    exact ((mem_forgetImpliedBool hbb v k1 k2).1 hk).2

/-! ### casts -/

theorem castTrunc_sound {dst src : V} (hN : IgnoresBool N dst) {a : FBN N} {s s' : CSt V} (hg : γ a s)
    (hr : relTrunc dst src s s') : γ (castTrunc dst src a) s' := by
  obtain ⟨b, rfl, rfl⟩ := hr
  obtain ⟨hp, hlb, hbb, hub, hL, hB⟩ := hg
  unfold castTrunc
  have hcan : a.prod.canonicalize = a.prod := Prod2.canonicalize_of_γ hp
  simp only [hcan]
  refine ⟨?_, by show (a.lin.del dst).isBot = false; rw [SEnv.isBot_del]; exact hlb,
    by show (forgetImpliedBool dst (a.bools.del dst)).isBot = false
       rw [isBot_forgetImpliedBool, SEnv.isBot_del]; exact hbb,
    hub, hL.setB_del hlb dst _, hB.setB_del' hbb dst _⟩
  apply Prod2.onFirst_γ hp _ (hN _ _ _ hp.2.2)
  apply FEnv.set_sound hp.2.1
  split
  · rename_i hz
    have := N.isZero_sound _ _ _ hz hp.2.2
    simp [BVal.γ, this]
  · split
    · rename_i hz
      have := N.nonZero_sound _ _ _ hz hp.2.2
      simp [BVal.γ, this]
    · trivial

theorem castExt_sound {funk : N.B → N.B} {dst src : V} (hf : N.TSound funk (relExt dst src))
    {a : FBN N} {s s' : CSt V} (hg : γ a s) (hr : relExt dst src s s') : γ (castExt funk dst src a) s' := by
  obtain ⟨hp, hlb, hbb, hub, hL, hB⟩ := hg
  have hr' := hr
  unfold relExt at hr
  subst hr
  unfold castExt
  have hcan : a.prod.canonicalize = a.prod := Prod2.canonicalize_of_γ hp
  simp only [hcan]
  have hsrc := FEnv.get_sound hp.2.1 src
  have h1 : (FB V).γ a.prod.fst (s.setN dst (if s.bool src = true then 1 else 0)) := FEnv.γ_congr hp.2.1 rfl
  refine ⟨?_, hlb, hbb, by show (a.unch.remove dst).isBot = false; rw [DSet.isBot_remove]; exact hub,
    hL.setN hub dst _, hB.setN dst _⟩
  show (match a.prod.fst.get src with
        | .tt => _ | .ff => _ | _ => _ : Prod2 (FB V) N.toLDom).γ _
  split
  · rename_i ht
    have : s.bool src = true := BVal.eq_tt hsrc ht
    apply Prod2.onSecond_γ hp h1
    simp only [this, if_true]
    exact N.assignK_sound _ dst 1 s hp.2.2
  · rename_i ht
    have : s.bool src = false := BVal.eq_ff hsrc ht
    apply Prod2.onSecond_γ hp h1
    simp only [this, Bool.false_eq_true, if_false]
    exact N.assignK_sound _ dst 0 s hp.2.2
  · exact Prod2.onSecond_γ hp h1 (hf _ _ _ hp.2.2 hr')

end FBN

end Fct
end Dom
end Crab
