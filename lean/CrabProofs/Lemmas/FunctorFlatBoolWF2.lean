import CrabProofs.Lemmas.FunctorFlatBoolWF

/-!
`FBN.WF` is preserved by the numerical operations, `+=`, `-=`, `forget`, `project`, the casts, the
weak assignments and the lattice operations of the model of `flat_boolean_numerical_domain`.
-/
set_option linter.unusedSectionVars false
set_option linter.unusedSimpArgs false

namespace Crab
namespace Dom
namespace Fct

variable {V : Type} [DecidableEq V] {K : CSig V}

namespace FBN
variable {N : BNDom V K}

/-- operations that do not test `is_bottom()` first: the flat part stays bottom if it was -/
theorem wf_of_fst {a b : FBN N} (h : a.WF) (hp : b.prod.WF) (hu : b.unch.isBot = a.unch.isBot)
    (hf : a.prod.fst = FEnv.bot → b.prod.fst = FEnv.bot) : b.WF :=
  ⟨hp, fun hb => hf (h.2 (by rw [← hu]; exact hb))⟩

/-- transformers of the product followed by a change of `m_unchanged_vars` that keeps its bottomness -/
theorem wf_opLike (m : Prod2.Meth) {f1 : FEnv V → FEnv V} (hf1 : f1 .bot = .bot) {f2 : N.B → N.B}
    (h2 : N.Strict f2) {a : FBN N} (h : a.WF) (l : SEnv V K.C) (bs : SEnv V V) (u : DSet V)
    (hu : u.isBot = a.unch.isBot) : (⟨Prod2.op m f1 f2 a.prod, l, bs, u⟩ : FBN N).WF := by
  have hs : (FB V).Strict f1 := fb_strict hf1
  have hp : (Prod2.op m f1 f2 a.prod).WF := Prod2.wf_op m hs h2 h.1
  refine ⟨hp, fun hb => ?_⟩
  have hb' : u.isBot = true := hb
  rw [hu] at hb'
  exact Prod2.fst_op m hf1 (h.2 hb')

theorem wf_numDef (m : Prod2.Meth) {f2 : N.B → N.B} (h2 : N.Strict f2) (x : V) {a : FBN N} (h : a.WF) :
    (numDef m f2 x a).WF :=
  wf_opLike m (f1 := id) rfl h2 h _ _ _ (DSet.isBot_remove _ _)

theorem wf_castOther {f2 : N.B → N.B} (h2 : N.Strict f2) (dst : V) {a : FBN N} (h : a.WF) :
    (castOther f2 dst a).WF :=
  wf_opLike .cast (f1 := fun e => FEnv.forget1 e dst) rfl h2 h _ _ _ (DSet.isBot_remove _ _)

theorem wf_foldl_assume (lits : List (V × Bool)) :
    ∀ (p : Prod2 (FB V) N.toLDom), p.WF →
      (lits.foldl (fun p l => Prod2.onFirst (fun (e : FEnv V) => e.assumeBool l.1 l.2) p) p).WF ∧
      (p.fst = FEnv.bot →
        (lits.foldl (fun p l => Prod2.onFirst (fun (e : FEnv V) => e.assumeBool l.1 l.2) p) p).fst = FEnv.bot) := by
  induction lits with
  | nil => exact fun p h => ⟨h, id⟩
  | cons l r ih =>
    intro p h
    simp only [List.foldl_cons]
    obtain ⟨h1, h2⟩ := ih _ (Prod2.wf_onFirst (f := fun (e : FEnv V) => e.assumeBool l.1 l.2) (fb_strict rfl) h)
    exact ⟨h1, fun hf => h2 (Prod2.fst_onFirst (f := fun (e : FEnv V) => e.assumeBool l.1 l.2) rfl hf)⟩

theorem wf_addCsts (isTrue allNonBool : Bool) (lits : List (V × Bool)) {f2 : N.B → N.B} (h2 : N.Strict f2)
    {a : FBN N} (h : a.WF) : (addCsts isTrue allNonBool lits f2 a).WF := by
  unfold addCsts
  apply wf_ite (fun _ => h)
  intro _
  apply wf_ite
  · intro _
    exact wf_of_fst h (Prod2.wf_onSecond h2 h.1) rfl (fun hf => Prod2.fst_onSecond hf)
  · intro _
    obtain ⟨h1, h3⟩ := wf_foldl_assume lits a.prod h.1
    exact wf_of_fst h (Prod2.wf_onSecond h2 h1) rfl (fun hf => Prod2.fst_onSecond (h3 hf))

theorem wf_forget1 (isBool : V → Bool) {f2 : N.B → N.B} (h2 : N.Strict f2) (v : V) {a : FBN N} (h : a.WF) :
    (forget1 isBool f2 v a).WF := by
  unfold forget1
  cases isBool v
  · exact wf_opLike .forget1 (f1 := fun e => FEnv.forget1 e v) rfl h2 h _ _ _ (DSet.isBot_remove _ _)
  · exact wf_opLike .forget1 (f1 := fun e => FEnv.forget1 e v) rfl h2 h _ _ _ rfl

theorem forgetMaps_prod_unch (isBool : V → Bool) (vs : List V) :
    ∀ (a : FBN N), (forgetMaps isBool vs a).prod = a.prod ∧
      (forgetMaps isBool vs a).unch.isBot = a.unch.isBot := by
  induction vs with
  | nil => exact fun a => ⟨rfl, rfl⟩
  | cons v r ih =>
    intro a
    unfold forgetMaps
    cases isBool v
    · simp only [Bool.false_eq_true, if_false]
      obtain ⟨h1, h2⟩ := ih ({ a with unch := a.unch.remove v })
      exact ⟨h1, by rw [h2]; exact DSet.isBot_remove _ _⟩
    · simp only [if_true]
      exact ih ({ a with lin := a.lin.del v, bools := a.bools.del v })

theorem FEnv.forget_bot (vs : List V) : FEnv.forget (.bot : FEnv V) vs = .bot := by
  simp [FEnv.forget, FEnv.isBot]

theorem FEnv.project_bot (vs : List V) : FEnv.project (.bot : FEnv V) vs = .bot := by
  simp [FEnv.project, FEnv.isBot]

theorem wf_forget (isBool : V → Bool) {f2 : N.B → N.B} (h2 : N.Strict f2) (vs : List V) {a : FBN N}
    (h : a.WF) : (forget isBool f2 vs a).WF := by
  unfold forget
  apply wf_ite (fun _ => h)
  intro hb
  have hu := unch_of_not_isBottom (a := a) h (by simpa [isBottom] using hb)
  obtain ⟨e1, e2⟩ := forgetMaps_prod_unch isBool vs
    ({ a with prod := Prod2.op .forget (fun e => FEnv.forget e vs) f2 a.prod } : FBN N)
  have hs : (FB V).Strict (fun e => FEnv.forget e vs) := fb_strict (FEnv.forget_bot vs)
  have hp : (Prod2.op .forget (fun e => FEnv.forget e vs) f2 a.prod).WF := Prod2.wf_op .forget hs h2 h.1
  have key : ∀ (a1 : FBN N) (bs : SEnv V V), a1.prod.WF → a1.unch.isBot = false →
      ({ a1 with bools := bs } : FBN N).WF := fun a1 bs h1 h2 => wf_of_unch h1 h2
  exact key _ _ (by rw [e1]; exact hp) (by rw [e2]; exact hu)

theorem wf_project {f2 : N.B → N.B} (h2 : N.Strict f2) (vs : List V) {a : FBN N} (h : a.WF) :
    (project f2 vs a).WF := by
  unfold project
  apply wf_ite (fun _ => h)
  intro _
  apply wf_ite (fun _ => wf_top)
  intro _
  have hs : (FB V).Strict (fun e => FEnv.project e vs) := fb_strict (FEnv.project_bot vs)
  have hp : (Prod2.op .project (fun e => FEnv.project e vs) f2 a.prod).WF := Prod2.wf_op .project hs h2 h.1
  exact wf_of_unch hp rfl

theorem wf_castTrunc (dst src : V) {a : FBN N} (h : a.WF) : (castTrunc dst src a).WF := by
  unfold castTrunc
  simp only
  exact wf_of_fst h (Prod2.wf_onFirst (fb_strict rfl) (Prod2.wf_canonicalize h.1)) rfl
    (fun hf => Prod2.fst_onFirst rfl (Prod2.fst_canonicalize hf))

theorem wf_castExt (hN : StrictRed N) {funk : N.B → N.B} (hk : N.Strict funk) (dst src : V) {a : FBN N}
    (h : a.WF) : (castExt funk dst src a).WF := by
  have hq := Prod2.wf_canonicalize h.1
  have hfq : a.prod.fst = FEnv.bot → a.prod.canonicalize.fst = FEnv.bot := Prod2.fst_canonicalize
  unfold castExt
  simp only
  apply wf_of_fst h _ (DSet.isBot_remove _ _)
  · intro hf
    show (match a.prod.canonicalize.fst.get src with
      | .tt => _ | .ff => _ | _ => _ : Prod2 (FB V) N.toLDom).fst = FEnv.bot
    split <;> exact Prod2.fst_onSecond (hfq hf)
  · show (match a.prod.canonicalize.fst.get src with
      | .tt => _ | .ff => _ | _ => _ : Prod2 (FB V) N.toLDom).WF
    split
    · exact Prod2.wf_onSecond (hN.2 dst 1) hq
    · exact Prod2.wf_onSecond (hN.2 dst 0) hq
    · exact Prod2.wf_onSecond hk hq

/-! ### lattice operations -/

/-- the result of a binary operation whose flat part is bottom as soon as both operands' are -/
theorem wf_binary {a b : FBN N} {p : Prod2 (FB V) N.toLDom} (ha : a.WF) (hb : b.WF) (hp : p.WF)
    (hf : a.prod.fst = FEnv.bot → b.prod.fst = FEnv.bot → p.fst = FEnv.bot)
    (l : SEnv V K.C) (bs : SEnv V V) : (⟨p, l, bs, a.unch.join b.unch⟩ : FBN N).WF := by
  refine ⟨hp, fun hu => ?_⟩
  have : (a.unch.join b.unch).isBot = true := hu
  rw [DSet.isBot_join, Bool.and_eq_true] at this
  exact hf (ha.2 this.1) (hb.2 this.2)

theorem wf_join {a b : FBN N} (ha : a.WF) (hb : b.WF) : (join a b).WF := by
  apply wf_binary ha hb (Prod2.wf_join ha.1 hb.1)
  intro h1 h2
  unfold Prod2.join
  rw [Prod2.isBottom_of_fst_bot h1]; exact h2

theorem wf_joinEq {a b : FBN N} (ha : a.WF) (hb : b.WF) : (joinEq a b).WF := by
  apply wf_binary ha hb (Prod2.wf_joinEq ha.1 hb.1)
  intro h1 h2
  unfold Prod2.joinEq
  rw [Prod2.isBottom_of_fst_bot h1]; exact h2

theorem wf_widenWith (w2 : N.B → N.B → N.B) {a b : FBN N} (ha : a.WF) (hb : b.WF) : (widenWith w2 a b).WF := by
  apply wf_binary ha hb (Prod2.wf_widenWith _ _ _ _)
  intro h1 h2
  show FEnv.join a.prod.fst b.prod.fst = FEnv.bot
  rw [h1, h2]; rfl

theorem wf_meet {a b : FBN N} (ha : a.WF) (hb : b.WF) : (meet a b).WF := by
  apply wf_binary ha hb (Prod2.wf_meet ha.1 hb.1)
  intro h1 _
  unfold Prod2.meet
  rw [Prod2.isBottom_of_fst_bot h1]; exact h1

theorem wf_meetEq {a b : FBN N} (ha : a.WF) (hb : b.WF) : (meetEq a b).WF := by
  apply wf_binary ha hb (Prod2.wf_meetEq ha.1 hb.1)
  intro h1 _
  unfold Prod2.meetEq
  rw [Prod2.isBottom_of_fst_bot h1]; exact h1

theorem wf_narrow {a b : FBN N} (ha : a.WF) (hb : b.WF) : (narrow a b).WF := by
  apply wf_binary ha hb (Prod2.wf_narrow ha.1 hb.1)
  intro h1 _
  unfold Prod2.narrow
  rw [Prod2.isBottom_of_fst_bot h1]; exact h1

theorem wf_weakAssignBoolCst {f2 : N.B → N.B} (h2 : N.Strict f2) (x : V) (c : K.C) {a : FBN N} (h : a.WF) :
    (weakAssignBoolCst f2 x c a).WF := by
  unfold weakAssignBoolCst
  exact wf_ite (fun _ => wf_joinEq h (wf_assignBoolCst h2 x c h)) (fun _ => h)

theorem wf_weakAssignBoolVar {f2 : N.B → N.B} (h2 : N.Strict f2) (x y : V) (neg : Bool) {a : FBN N}
    (h : a.WF) : (weakAssignBoolVar f2 x y neg a).WF := by
  unfold weakAssignBoolVar
  exact wf_ite (fun _ => wf_joinEq h (wf_assignBoolVar h2 x y neg h)) (fun _ => h)

/-- `is_top()` is right on every well-formed value -/
theorem γ_of_isTop_wf (t2 : N.TopSound) {a : FBN N} (hw : a.WF) (h : a.isTop = true) (s : CSt V) : γ a s := by
  apply γ_of_isTop t2 hw.1 _ h s
  cases hu : a.unch.isBot
  · rfl
  · have hf := hw.2 hu
    unfold isTop at h
    simp only [Bool.and_eq_true] at h
    have : (FB V).isTop a.prod.fst = true := by
      have := h.1.1; unfold Prod2.isTop at this
      simp only [Bool.and_eq_true] at this; exact this.1
    rw [hf] at this; cases this

/-- what `FBN.WF` asks of the base functions of an operation: empty values go to empty values -/
def Op.BaseStrict : Op N → Prop
  | .bcst _ f2 _ _ => N.Strict f2
  | .bvar _ f2 _ _ _ => N.Strict f2
  | .bbin _ f2 _ _ _ _ => N.Strict f2
  | .bassume _ f2 _ _ => N.Strict f2
  | .bsel _ f2 f2' _ _ _ _ => N.Strict f2 ∧ N.Strict f2'
  | .numDef _ _ f2 _ _ => N.Strict f2
  | .addCsts _ _ _ _ f2 _ => N.Strict f2
  | .forget1 _ f2 _ => N.Strict f2
  | .forget _ f2 _ => N.Strict f2
  | .project _ f2 _ => N.Strict f2
  | .wbcst _ f2 _ _ => N.Strict f2
  | .wbvar _ f2 _ _ _ => N.Strict f2
  | .ext _ funk _ _ => N.Strict funk
  | .castOther _ f2 _ _ => N.Strict f2
  | _ => True

end FBN

end Fct
end Dom
end Crab
