import CrabModel.Transform.Simplify
import CrabProofs.Lemmas.TIRSem

/-!
  Folding a block `b` into its unique predecessor `a` (which has `b` as unique successor)
  preserves executions.  `MergeRel P T a b` describes the result `T` through its lookups only;
  `Lemmas/TIRSimplify.lean` shows that the fold step of `merge_blocks_rec` produces such a `T`.
-/
namespace Crab
namespace TIR

structure MergeRel (P T : Prog) (a b : Label) : Prop where
  hab : a ≠ b
  outs : T.outputs = P.outputs
  stmts_a : T.stmtsOf a = P.stmtsOf a ++ P.stmtsOf b
  stmts_o : ∀ l, l ≠ a → l ≠ b → T.stmtsOf l = P.stmtsOf l
  succ_a : T.succsOf a = P.succsOf b
  succ_o : ∀ l, l ≠ a → l ≠ b → T.succsOf l = P.succsOf l
  succP_a : P.succsOf a = [b]
  pred_b : ∀ l, b ∈ P.succsOf l → l = a
  exitP_a : P.isExit a = false
  exit_a : T.isExit a = P.isExit b
  exit_o : ∀ l, l ≠ a → l ≠ b → T.isExit l = P.isExit l

/-- the configuration of `T` that corresponds to a configuration of `P` -/
def mergeCfg (P : Prog) (a b : Label) (stmts : List Stmt) (l : Label) : List Stmt × Label :=
  if l = a then (stmts ++ P.stmtsOf b, a) else if l = b then (stmts, a) else (stmts, l)

theorem mergeCfg_cons (P : Prog) (a b : Label) (s : Stmt) (rest : List Stmt) (l : Label) :
    mergeCfg P a b (s :: rest) l = (s :: (mergeCfg P a b rest l).1, (mergeCfg P a b rest l).2) := by
  unfold mergeCfg
  split
  · rfl
  · split <;> rfl

theorem mergeCfg_block (P T : Prog) (a b : Label) (h : MergeRel P T a b) (l : Label) (hl : l ≠ b) :
    mergeCfg P a b (P.stmtsOf l) l = (T.stmtsOf l, l) := by
  unfold mergeCfg
  by_cases hla : l = a
  · subst hla; simp [h.stmts_a]
  · simp [hla, hl, h.stmts_o l hla hl]

theorem merge_forward (P T : Prog) (a b : Label) (h : MergeRel P T a b)
    {stmts : List Stmt} {l : Label} {σ : State} {t : List Event} {o : Outcome}
    (he : Exec P stmts l σ t o) :
    Exec T (mergeCfg P a b stmts l).1 (mergeCfg P a b stmts l).2 σ t o := by
  induction he with
  | @exit l σ hex =>
    have hla : l ≠ a := by intro hc; subst hc; rw [h.exitP_a] at hex; cases hex
    rw [← h.outs]
    by_cases hlb : l = b
    · subst hlb
      simp only [mergeCfg, hla, if_false, if_true]
      exact Exec.exit (by rw [h.exit_a]; exact hex)
    · simp only [mergeCfg, hla, hlb, if_false]
      exact Exec.exit (by rw [h.exit_o l hla hlb]; exact hex)
  | @goto l l' σ t o hex hmem _ ih =>
    by_cases hla : l = a
    · subst hla
      rw [h.succP_a] at hmem
      simp only [List.mem_singleton] at hmem
      subst hmem
      have e1 : mergeCfg P l l' [] l = (P.stmtsOf l', l) := by simp [mergeCfg]
      have e2 : mergeCfg P l l' (P.stmtsOf l') l' = (P.stmtsOf l', l) := by
        simp [mergeCfg, h.hab.symm]
      rw [e1]; rw [e2] at ih; exact ih
    · have hl'b : l' ≠ b := by intro hc; subst hc; exact hla (h.pred_b l hmem)
      rw [mergeCfg_block P T a b h l' hl'b] at ih
      by_cases hlb : l = b
      · subst hlb
        have e1 : mergeCfg P a l [] l = ([], a) := by simp [mergeCfg, hla]
        rw [e1]
        refine Exec.goto ?_ ?_ ih
        · rw [h.exit_a]; exact hex
        · rw [h.succ_a]; exact hmem
      · have e1 : mergeCfg P a b [] l = ([], l) := by simp [mergeCfg, hla, hlb]
        rw [e1]
        refine Exec.goto ?_ ?_ ih
        · rw [h.exit_o l hla hlb]; exact hex
        · rw [h.succ_o l hla hlb]; exact hmem
  | @stuck l σ hex hs =>
    have hla : l ≠ a := by intro hc; subst hc; rw [h.succP_a] at hs; cases hs
    by_cases hlb : l = b
    · subst hlb
      simp only [mergeCfg, hla, if_false, if_true]
      exact Exec.stuck (by rw [h.exit_a]; exact hex) (by rw [h.succ_a]; exact hs)
    · simp only [mergeCfg, hla, hlb, if_false]
      exact Exec.stuck (by rw [h.exit_o l hla hlb]; exact hex) (by rw [h.succ_o l hla hlb]; exact hs)
  | @cont s rest l σ σ' ev t o hv hstep _ ih =>
    rw [mergeCfg_cons]
    exact Exec.cont hv hstep ih
  | @stop s rest l σ ev o hv hstep =>
    rw [mergeCfg_cons]
    exact Exec.stop hv hstep

theorem merge_backward (P T : Prog) (a b : Label) (h : MergeRel P T a b)
    {ss : List Stmt} {lt : Label} {σ : State} {t : List Event} {o : Outcome}
    (he : Exec T ss lt σ t o) :
    ∀ (stmts : List Stmt) (l : Label), mergeCfg P a b stmts l = (ss, lt) → Exec P stmts l σ t o := by
  induction he with
  | @exit lt σ hex =>
    -- main case: not ([], a)
    have main : ∀ stmts l, mergeCfg P a b stmts l = ([], lt) → ¬ (l = a ∧ stmts = []) →
        Exec P stmts l σ [] (.exit (T.outputs.map σ)) := by
      intro stmts l hc hn
      rw [h.outs]
      by_cases hla : l = a
      · subst hla
        simp only [mergeCfg, if_true, Prod.mk.injEq, List.append_eq_nil_iff] at hc
        exact absurd ⟨rfl, hc.1.1⟩ hn
      · by_cases hlb : l = b
        · subst hlb
          simp only [mergeCfg, hla, if_false, if_true, Prod.mk.injEq] at hc
          obtain ⟨rfl, rfl⟩ := hc
          exact Exec.exit (by rw [← h.exit_a]; exact hex)
        · simp only [mergeCfg, hla, hlb, if_false, Prod.mk.injEq] at hc
          obtain ⟨rfl, rfl⟩ := hc
          exact Exec.exit (by rw [← h.exit_o l hla hlb]; exact hex)
    intro stmts l hc
    by_cases hn : l = a ∧ stmts = []
    · obtain ⟨rfl, rfl⟩ := hn
      have hc' : mergeCfg P l b (P.stmtsOf b) b = ([], lt) := by
        simp only [mergeCfg, if_true, List.nil_append] at hc
        simp [mergeCfg, h.hab.symm]
        exact ⟨(Prod.mk.inj hc).1, (Prod.mk.inj hc).2⟩
      exact Exec.goto h.exitP_a (by rw [h.succP_a]; simp) (main _ _ hc' (by intro hx; exact h.hab hx.1.symm))
    · exact main stmts l hc hn
  | @goto lt lt' σ t o hex hmem hrest ih =>
    have main : ∀ stmts l, mergeCfg P a b stmts l = ([], lt) → ¬ (l = a ∧ stmts = []) →
        Exec P stmts l σ t o := by
      intro stmts l hc hn
      by_cases hla : l = a
      · subst hla
        simp only [mergeCfg, if_true, Prod.mk.injEq, List.append_eq_nil_iff] at hc
        exact absurd ⟨rfl, hc.1.1⟩ hn
      · by_cases hlb : l = b
        · subst hlb
          simp only [mergeCfg, hla, if_false, if_true, Prod.mk.injEq] at hc
          obtain ⟨rfl, rfl⟩ := hc
          rw [h.succ_a] at hmem
          rw [h.exit_a] at hex
          have hl'b : lt' ≠ l := by intro hx; subst hx; exact hla (h.pred_b lt' hmem)
          exact Exec.goto hex hmem (ih _ _ (by rw [mergeCfg_block P T a l h lt' hl'b]))
        · simp only [mergeCfg, hla, hlb, if_false, Prod.mk.injEq] at hc
          obtain ⟨rfl, rfl⟩ := hc
          rw [h.succ_o l hla hlb] at hmem
          rw [h.exit_o l hla hlb] at hex
          have hl'b : lt' ≠ b := by intro hx; subst hx; exact hla (h.pred_b l hmem)
          exact Exec.goto hex hmem (ih _ _ (by rw [mergeCfg_block P T a b h lt' hl'b]))
    intro stmts l hc
    by_cases hn : l = a ∧ stmts = []
    · obtain ⟨rfl, rfl⟩ := hn
      have hc' : mergeCfg P l b (P.stmtsOf b) b = ([], lt) := by
        simp only [mergeCfg, if_true, List.nil_append] at hc
        simp [mergeCfg, h.hab.symm]
        exact ⟨(Prod.mk.inj hc).1, (Prod.mk.inj hc).2⟩
      exact Exec.goto h.exitP_a (by rw [h.succP_a]; simp) (main _ _ hc' (by intro hx; exact h.hab hx.1.symm))
    · exact main stmts l hc hn
  | @stuck lt σ hex hs =>
    have main : ∀ stmts l, mergeCfg P a b stmts l = ([], lt) → ¬ (l = a ∧ stmts = []) →
        Exec P stmts l σ [] .blocked := by
      intro stmts l hc hn
      by_cases hla : l = a
      · subst hla
        simp only [mergeCfg, if_true, Prod.mk.injEq, List.append_eq_nil_iff] at hc
        exact absurd ⟨rfl, hc.1.1⟩ hn
      · by_cases hlb : l = b
        · subst hlb
          simp only [mergeCfg, hla, if_false, if_true, Prod.mk.injEq] at hc
          obtain ⟨rfl, rfl⟩ := hc
          exact Exec.stuck (by rw [← h.exit_a]; exact hex) (by rw [← h.succ_a]; exact hs)
        · simp only [mergeCfg, hla, hlb, if_false, Prod.mk.injEq] at hc
          obtain ⟨rfl, rfl⟩ := hc
          exact Exec.stuck (by rw [← h.exit_o l hla hlb]; exact hex) (by rw [← h.succ_o l hla hlb]; exact hs)
    intro stmts l hc
    by_cases hn : l = a ∧ stmts = []
    · obtain ⟨rfl, rfl⟩ := hn
      have hc' : mergeCfg P l b (P.stmtsOf b) b = ([], lt) := by
        simp only [mergeCfg, if_true, List.nil_append] at hc
        simp [mergeCfg, h.hab.symm]
        exact ⟨(Prod.mk.inj hc).1, (Prod.mk.inj hc).2⟩
      exact Exec.goto h.exitP_a (by rw [h.succP_a]; simp) (main _ _ hc' (by intro hx; exact h.hab hx.1.symm))
    · exact main stmts l hc hn
  | @cont s' rest' lt σ σ' ev t o hv hstep hrest ih =>
    have main : ∀ stmts l, mergeCfg P a b stmts l = (s' :: rest', lt) → ¬ (l = a ∧ stmts = []) →
        Exec P stmts l σ (evs ev ++ t) o := by
      intro stmts l hc hn
      cases stmts with
      | nil =>
        exfalso
        by_cases hla : l = a
        · exact hn ⟨hla, rfl⟩
        · by_cases hlb : l = b
          · subst hlb; simp [mergeCfg, hla] at hc
          · simp [mergeCfg, hla, hlb] at hc
      | cons s rest =>
        rw [mergeCfg_cons] at hc
        simp only [Prod.mk.injEq, List.cons.injEq] at hc
        obtain ⟨⟨rfl, h1⟩, h2⟩ := hc
        exact Exec.cont hv hstep (ih rest l (by rw [← h1, ← h2]))
    intro stmts l hc
    by_cases hn : l = a ∧ stmts = []
    · obtain ⟨rfl, rfl⟩ := hn
      have hc' : mergeCfg P l b (P.stmtsOf b) b = (s' :: rest', lt) := by
        simp only [mergeCfg, if_true, List.nil_append] at hc
        simp [mergeCfg, h.hab.symm]
        exact ⟨(Prod.mk.inj hc).1, (Prod.mk.inj hc).2⟩
      exact Exec.goto h.exitP_a (by rw [h.succP_a]; simp) (main _ _ hc' (by intro hx; exact h.hab hx.1.symm))
    · exact main stmts l hc hn
  | @stop s' rest' lt σ ev o hv hstep =>
    have main : ∀ stmts l, mergeCfg P a b stmts l = (s' :: rest', lt) → ¬ (l = a ∧ stmts = []) →
        Exec P stmts l σ (evs ev) o := by
      intro stmts l hc hn
      cases stmts with
      | nil =>
        exfalso
        by_cases hla : l = a
        · exact hn ⟨hla, rfl⟩
        · by_cases hlb : l = b
          · subst hlb; simp [mergeCfg, hla] at hc
          · simp [mergeCfg, hla, hlb] at hc
      | cons s rest =>
        rw [mergeCfg_cons] at hc
        simp only [Prod.mk.injEq, List.cons.injEq] at hc
        obtain ⟨⟨rfl, _⟩, _⟩ := hc
        exact Exec.stop hv hstep
    intro stmts l hc
    by_cases hn : l = a ∧ stmts = []
    · obtain ⟨rfl, rfl⟩ := hn
      have hc' : mergeCfg P l b (P.stmtsOf b) b = (s' :: rest', lt) := by
        simp only [mergeCfg, if_true, List.nil_append] at hc
        simp [mergeCfg, h.hab.symm]
        exact ⟨(Prod.mk.inj hc).1, (Prod.mk.inj hc).2⟩
      exact Exec.goto h.exitP_a (by rw [h.succP_a]; simp) (main _ _ hc' (by intro hx; exact h.hab hx.1.symm))
    · exact main stmts l hc hn

/-- behaviours from an entry block other than `b` coincide -/
theorem merge_beh (P T : Prog) (a b : Label) (h : MergeRel P T a b) (hentry : T.entry = P.entry)
    (hb : P.entry ≠ b) (σ : State) (t : List Event) (o : Outcome) : Beh P σ t o ↔ Beh T σ t o := by
  unfold Beh
  rw [hentry]
  constructor
  · intro he
    have := merge_forward P T a b h he
    rw [mergeCfg_block P T a b h P.entry hb] at this
    exact this
  · intro he
    exact merge_backward P T a b h he _ _ (mergeCfg_block P T a b h P.entry hb)

end TIR
end Crab
