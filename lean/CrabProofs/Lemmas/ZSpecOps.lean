import CrabModel.Num.ZNumExtra
import CrabProofs.Lemmas.ZSpecBits

/-! `z_number`: 64-bit import/export paths, truncating division, shifts, `fill_ones`. -/
namespace Crab.ZNum.Spec
open Crab.ZNum.X

/-! ### int64 / uint64 -/

/-- `operator int64_t`: the value itself exactly when it fits, CRAB_ERROR otherwise
    (the sign-magnitude export path of the second branch is exact, also for `-2^63`) -/
theorem toInt64?_eq (x : Int) : toInt64? x = if fitsInt64 x then some x else none := by
  unfold toInt64? fitsSInt fitsInt64 int64Min int64Max
  by_cases h1 : (-(2 ^ 31) ≤ x && x ≤ 2 ^ 31 - 1) = true
  · have h1' := h1
    simp only [Bool.and_eq_true, decide_eq_true_eq] at h1'
    have : (-(2 ^ 63) ≤ x && x ≤ 2 ^ 63 - 1) = true := by
      simp only [Bool.and_eq_true, decide_eq_true_eq]; omega
    rw [if_pos h1, if_pos this]
  · rw [if_neg h1]
    by_cases h2 : (-(2 ^ 63) ≤ x && x ≤ 2 ^ 63 - 1) = true
    · rw [if_pos h2, if_pos h2]
      simp only [Bool.and_eq_true, decide_eq_true_eq] at h2
      simp only [Option.some.injEq]
      split <;> split <;> split <;> omega
    · rw [if_neg h2, if_neg h2]

theorem fitsInt64_iff (x : Int) : fitsInt64 x = true ↔ (-(2 ^ 63) ≤ x ∧ x ≤ 2 ^ 63 - 1) := by
  unfold fitsInt64 int64Min int64Max
  rw [Bool.and_eq_true]
  exact ⟨fun h => ⟨of_decide_eq_true h.1, of_decide_eq_true h.2⟩,
    fun h => ⟨decide_eq_true h.1, decide_eq_true h.2⟩⟩

/-- `z_number(int64_t)` as compiled on LP64 keeps the value -/
theorem ofInt64'_eq (n : Int) (h1 : -(2 ^ 63) ≤ n) (h2 : n ≤ 2 ^ 63 - 1) : ofInt64' n = n := by
  unfold ofInt64' longBits ofInt64Si
  rw [if_pos ⟨by simpa using h1, by simpa using h2⟩]

/-- the `mpz_import` branch keeps non-negative values ... -/
theorem ofInt64Import_nonneg (n : Int) (h1 : 0 ≤ n) (h2 : n ≤ 2 ^ 63 - 1) : ofInt64Import n = n := by
  unfold ofInt64Import
  have : ¬ n < 0 := by omega
  simp only [this, if_false]
  omega

/-- ... and turns a negative `n` into `-(2^64 + n)` (dead code where `long` is 64 bits wide) -/
theorem ofInt64Import_neg (n : Int) (h1 : -(2 ^ 63) ≤ n) (h2 : n < 0) :
    ofInt64Import n = -(2 ^ 64 + n) := by
  unfold ofInt64Import
  simp only [h2, if_true]
  omega

theorem ofUInt64_eq (n : Nat) (h : n < 2 ^ 64) : ofUInt64 n = (n : Int) := by
  unfold ofUInt64 longBits
  rw [if_pos (by omega)]

/-! ### truncating division -/

/-- `/` and `%` are characterised by `a = b*q + r`, `|r| < |b|`, `r` has the sign of `a` -/
theorem div_rem_spec (a b q r : Int) (hb : b ≠ 0) :
    (div? a b = some q ∧ rem? a b = some r) ↔
      (a = b * q + r ∧ r.natAbs < b.natAbs ∧ (0 ≤ a → 0 ≤ r) ∧ (a ≤ 0 → r ≤ 0)) := by
  simp only [div?, rem?, hb, if_false, Option.some.injEq]
  constructor
  · rintro ⟨hq, hr⟩
    subst hq hr
    have hbpos : 0 < b.natAbs := Int.natAbs_pos.2 hb
    refine ⟨(Int.mul_tdiv_add_tmod a b).symm, ?_, fun ha => Int.tmod_nonneg b ha, fun ha => ?_⟩
    · rw [Int.natAbs_tmod]; exact Nat.mod_lt _ hbpos
    · have h1 := Int.tmod_nonneg b (show 0 ≤ -a by omega)
      rw [Int.neg_tmod] at h1
      omega
  · rintro ⟨h1, h2, h3, h4⟩
    by_cases ha : 0 ≤ a
    · have := h3 ha
      exact (Int.tdiv_tmod_unique ha hb).2 ⟨by omega, this, by omega⟩
    · have ha' : a ≤ 0 := by omega
      have := h4 ha'
      exact (Int.tdiv_tmod_unique' ha' hb).2 ⟨by omega, by omega, this⟩

theorem div?_none_iff (a b : Int) : div? a b = none ↔ b = 0 := by
  unfold div?; split <;> simp_all
theorem rem?_none_iff (a b : Int) : rem? a b = none ↔ b = 0 := by
  unfold rem?; split <;> simp_all

/-! ### shifts -/

theorem getUi_of_range {k : Int} (h1 : 0 ≤ k) (h2 : k < 2 ^ 64) : getUi k = k.toNat := by
  unfold getUi
  have : k.natAbs = k.toNat := by omega
  rw [this]
  apply Nat.mod_eq_of_lt
  omega

theorem ediv_of_abs_lt {a p : Int} (hp : 0 < p) (h : (a.natAbs : Int) < p) :
    a / p = if a < 0 then -1 else 0 := by
  split
  · next hneg =>
    have := (Int.ediv_emod_unique (a := a) (q := -1) (r := a + p) hp).2 ⟨by omega, by omega, by omega⟩
    exact this.1
  · next hnn =>
    exact Int.ediv_eq_zero_of_lt (by omega) (by omega)

/-- `operator>>` is the floor quotient by `2^s`, `s` the amount read by `mpz_get_ui` -/
theorem shr_eq (a k : Int) : shr a k = a / 2 ^ (getUi k) := by
  unfold shr
  simp only
  split
  · next h =>
    have hp : (0 : Int) < 2 ^ getUi k := Int.pow_pos (by decide)
    have h1 : a.natAbs < 2 ^ (a.natAbs.log2 + 1) := Nat.lt_log2_self
    have h2 : 2 ^ (a.natAbs.log2 + 1) ≤ 2 ^ getUi k := Nat.pow_le_pow_right (by decide) (by omega)
    have h3 : (a.natAbs : Int) < ((2 ^ getUi k : Nat) : Int) := by
      have : a.natAbs < 2 ^ getUi k := Nat.lt_of_lt_of_le h1 h2
      exact_mod_cast this
    rw [Int.natCast_pow] at h3
    exact (ediv_of_abs_lt hp h3).symm
  · rfl

theorem shr_floor (a k : Int) (h1 : 0 ≤ k) (h2 : k < 2 ^ 64) : shr a k = a / 2 ^ k.toNat := by
  rw [shr_eq, getUi_of_range h1 h2]

theorem shl_eq (a k : Int) (h1 : 0 ≤ k) (h2 : k < 2 ^ 64) : shl a k = a * 2 ^ k.toNat := by
  unfold shl; rw [getUi_of_range h1 h2]

/-- a shift amount of `2^64` is read as `0` -/
theorem shr_one_two_pow_64 : shr 1 (2 ^ 64) = 1 := by decide

theorem one_lt_two_pow_int (n : Nat) (h : n ≠ 0) : (1 : Int) < 2 ^ n := by
  have := Nat.one_lt_two_pow h
  have h2 : ((1 : Nat) : Int) < ((2 ^ n : Nat) : Int) := by exact_mod_cast this
  rw [Int.natCast_pow] at h2
  exact h2

theorem one_div_two_pow (n : Nat) (h : n ≠ 0) : (1 : Int) / 2 ^ n = 0 :=
  Int.ediv_eq_zero_of_lt (by decide) (one_lt_two_pow_int n h)

/-! ### fill_ones -/

theorem fillOnesLoop_spec (x : Int) (fuel j : Nat) (hj : 1 ≤ j)
    (hprev : j = 1 ∨ (2 : Int) ^ (j - 1) - 1 < x)
    (hfuel : x ≤ 2 ^ (j + fuel) - 1) :
    ∃ j', j ≤ j' ∧ fillOnesLoop fuel (2 ^ j - 1) x = 2 ^ j' - 1 ∧ x ≤ 2 ^ j' - 1 ∧
      (j' = 1 ∨ (2 : Int) ^ (j' - 1) - 1 < x) := by
  induction fuel generalizing j with
  | zero => exact ⟨j, Nat.le_refl _, rfl, by simpa using hfuel, hprev⟩
  | succ f ih =>
    simp only [fillOnesLoop]
    split
    · next hlt =>
      have e : (2 : Int) * (2 ^ j - 1) + 1 = 2 ^ (j + 1) - 1 := by
        rw [Int.pow_succ]; omega
      rw [e]
      obtain ⟨j', h1, h2, h3, h4⟩ := ih (j + 1) (by omega) (Or.inr (by simpa using hlt))
        (by rw [show j + 1 + f = j + (f + 1) by omega]; exact hfuel)
      exact ⟨j', by omega, h2, h3, h4⟩
    · next hge => exact ⟨j, Nat.le_refl _, rfl, by omega, hprev⟩

/-- `fill_ones` of `x ≥ 0` is the least number of the form `2^j - 1` that is `≥ x` -/
theorem fillOnes_spec (x : Int) (hx : 0 ≤ x) :
    ∃ j : Nat, fillOnes x = 2 ^ j - 1 ∧ x ≤ fillOnes x ∧
      ∀ k : Nat, x ≤ 2 ^ k - 1 → fillOnes x ≤ 2 ^ k - 1 := by
  unfold fillOnes
  split
  · next h0 => subst h0; exact ⟨0, by simp, by simp, fun k _ => by
      have : (0 : Int) < 2 ^ k := Int.pow_pos (by decide)
      omega⟩
  · next hne =>
    have hx1 : 1 ≤ x := by omega
    have hfuel : x ≤ 2 ^ (1 + (x.toNat.log2 + 2)) - 1 := by
      have h1 : x.toNat < 2 ^ (x.toNat.log2 + 1) := Nat.lt_log2_self
      have h2 : 2 ^ (x.toNat.log2 + 1) ≤ 2 ^ (1 + (x.toNat.log2 + 2)) :=
        Nat.pow_le_pow_right (by decide) (by omega)
      have h3 : ((x.toNat : Nat) : Int) < ((2 ^ (1 + (x.toNat.log2 + 2)) : Nat) : Int) := by
        exact_mod_cast Nat.lt_of_lt_of_le h1 h2
      rw [Int.natCast_pow] at h3
      have : ((x.toNat : Nat) : Int) = x := Int.toNat_of_nonneg hx
      simp at h3
      omega
    obtain ⟨j', h1, h2, h3, h4⟩ := fillOnesLoop_spec x (x.toNat.log2 + 2) 1 (Nat.le_refl _)
      (Or.inl rfl) hfuel
    have e : ((2 : Int) ^ 1 - 1) = 1 := by decide
    rw [e] at h2
    refine ⟨j', h2, by rw [h2]; exact h3, ?_⟩
    intro k hk
    rw [h2]
    rcases h4 with h4 | h4
    · subst h4
      have : (2 : Int) ^ 1 - 1 = 1 := by decide
      omega
    · -- 2^(j'-1) - 1 < x ≤ 2^k - 1, hence j' ≤ k
      have hlt : (2 : Int) ^ (j' - 1) < 2 ^ k := by omega
      have hjk : j' - 1 < k := by
        by_cases hc : j' - 1 < k
        · exact hc
        · have := two_pow_le (show k ≤ j' - 1 by omega)
          omega
      have := two_pow_le (show j' ≤ k by omega)
      omega

end Crab.ZNum.Spec
