import CrabProofs.Lemmas.FunctorPackingBin2

/-!
`join_or_widening`, `meet_or_narrowing` and the four lattice operators of the packing domain:
they keep the invariant and are upper / lower bounds w.r.t. `γc` whenever they return a value
(`none` = CRAB_ERROR).
-/
namespace Crab
namespace Dom
namespace Fct

variable {V : Type} [DecidableEq V]

namespace PK
variable {N : NDom V}

/-- the join loop never answers bottom -/
theorem combineLoop_join_packs (g : N.B → N.B → N.B) (Q : List (Pack N)) : ∀ (Rs left : List (Pack N)) (res : PK N),
    combineLoop g false false Q Rs left = some res → ∃ Z, res = .packs Z
  | [], left, res, h => by
    simp only [combineLoop, Option.some.injEq] at h; exact ⟨left, h.symm⟩
  | R :: Rs, left, res, h => by
    simp only [combineLoop] at h
    split at h
    · simp at h
    · split at h
      · simp at h
      · split at h
        · simp at h
        · simp only [Bool.false_and, Bool.false_eq_true, if_false] at h
          exact combineLoop_join_packs g Q Rs _ res h

/-- everything `ufJoin` establishes about its intermediate partitions -/
theorem ufJoin_setup {g : N.B → N.B → N.B} {a b : List (Pack N)} (ha : WFl a) (hb : WFl b) {res : PK N}
    (h : ufJoin g a b = some res) :
    ∃ b2 Z, mergeAll (fun _ => N.top) (restrictTo a b) (restrictTo b a) = some b2 ∧
      combineLoop g false false b2 (restrictTo b a) (restrictTo a b) = some (.packs Z) ∧ res = .packs Z ∧
      WFl b2 ∧ Coarser b2 (restrictTo b a) ∧ Coarser b2 (restrictTo a b) ∧ WFl Z ∧ Coarser Z b2 := by
  unfold ufJoin at h
  simp only at h
  split at h
  · simp at h
  · rename_i b2 hb2
    obtain ⟨Z, rfl⟩ := combineLoop_join_packs g b2 _ _ res h
    have ha' := restrictTo_wfl b ha
    have hb' := restrictTo_wfl a hb
    obtain ⟨m1, m2, m3⟩ := mergeAll_struct _ _ _ _ hb2
    obtain ⟨c1, c2, c3⟩ := combineLoop_struct g false false b2 _ _ Z h
    have hZ := c1 ha'
    exact ⟨b2, Z, hb2, h, rfl, m1 hb', m2, m3, hZ, mergeAll_finest _ hZ _ _ _ hb2 c3 c2⟩

theorem ufJoin_wf {g : N.B → N.B → N.B} {a b : List (Pack N)} (ha : WFl a) (hb : WFl b) {res : PK N}
    (h : ufJoin g a b = some res) : WF res := by
  obtain ⟨b2, Z, _, _, rfl, _, _, _, hZ, _⟩ := ufJoin_setup ha hb h
  exact hZ

theorem ufJoin_sound_left {g : N.B → N.B → N.B} (hg : N.USound g) {a b : List (Pack N)} (ha : WFl a) (hb : WFl b)
    {res : PK N} (h : ufJoin g a b = some res) {s : St V} (hs : ∀ p ∈ a, Pack.γc p s) : γc res s := by
  obtain ⟨b2, Z, _, hcl, rfl, hb2, hco_b, hco_a, hZ, hal⟩ := ufJoin_setup ha hb h
  have ha's := restrictTo_γc b hs
  obtain ⟨Z', hZ', hgood⟩ := combineLoop_good g false false hb2 (s := s) (by simp)
    (fun a' q _ t _ hat => hg a' q.val t (Or.inl hat)) _ _ _ hco_b (restrictTo_wfl b ha)
    (fun p hp => goodQ_of_γc (ha's p hp) (hco_a p hp)) hcl
  simp only [PK.packs.injEq] at hZ'
  subst hZ'
  exact fun p hp => γc_of_good hZ hal hp (hgood p hp)

theorem ufJoin_sound_right {g : N.B → N.B → N.B} (hg : N.USound g) {a b : List (Pack N)} (ha : WFl a) (hb : WFl b)
    {res : PK N} (h : ufJoin g a b = some res) {s : St V} (hs : ∀ p ∈ b, Pack.γc p s) : γc res s := by
  obtain ⟨b2, Z, hma, hcl, rfl, hb2, hco_b, hco_a, hZ, hal⟩ := ufJoin_setup ha hb h
  have hb's := restrictTo_γc a hs
  have hb2s := mergeAll_γc _ _ _ _ hma hb's (fun _ _ t _ => N.top_sound t)
  have hr := combineLoop_right g hb2 hb2s (fun a' b' t hbt => hg a' b' t (Or.inr hbt)) _ _ Z hco_b
    (restrictTo_wfl b ha) hco_a hcl
  intro p hp
  rcases hr p hp with hgd | ⟨hmem, hun⟩
  · exact γc_of_good hZ hal hp hgd
  · -- an untouched class of the left operand would have a variable that the right operand lacks
    exfalso
    obtain ⟨v, hv⟩ := List.exists_mem_of_ne_nil _ ((restrictTo_wfl b ha).2 p hmem)
    obtain ⟨hcb, pa, hpa, hvpa⟩ := restrictTo_vars hmem hv
    obtain ⟨pb, hpb, hvpb⟩ := containsV_iff.1 hcb
    obtain ⟨R, hR, hvR⟩ := restrictTo_keeps (other := a) hpb hvpb (containsV_iff.2 ⟨pa, hpa, hvpa⟩)
    exact hun R hR v hvR hv

theorem ufMeet_wf {g : N.B → N.B → N.B} {a b : List (Pack N)} (ha : WFl a) {res : PK N}
    (h : ufMeet g a b = some res) : WF res := by
  unfold ufMeet at h
  split at h
  · simp only [Option.some.injEq] at h; subst h; trivial
  · rename_i b2 hb2
    cases res with
    | bot => trivial
    | packs Z => exact (combineLoop_struct g true true b2 _ _ Z h).1 ha

theorem ufMeet_sound {g : N.B → N.B → N.B} (hg : ∀ x y t, N.γ x t → N.γ y t → N.γ (g x y) t) {a b : List (Pack N)}
    (ha : WFl a) (hb : WFl b) {res : PK N} (h : ufMeet g a b = some res) {s : St V}
    (hsa : ∀ p ∈ a, Pack.γc p s) (hsb : ∀ p ∈ b, Pack.γc p s) : γc res s := by
  unfold ufMeet at h
  obtain ⟨b2, hb2⟩ := mergeAll_isSome (fun c : Pack N => c.val) (s := s) a b
    (fun c hc => ⟨ha.2 c hc, Pack.γ_of_γc (hsa c hc)⟩) (fun p hp => Pack.γ_of_γc (hsb p hp))
  rw [hb2] at h
  simp only at h
  obtain ⟨m1, m2, m3⟩ := mergeAll_struct _ _ _ _ hb2
  have hwb2 := m1 hb
  have hb2s := mergeAll_γc _ _ _ _ hb2 hsb (fun c hc t ht => hsa c hc t ht)
  obtain ⟨Z, rfl, hgood⟩ := combineLoop_good g true true hwb2 (s := s)
    (fun _ q hq t ht => hb2s q hq t ht)
    (fun x q hq t ht hxt => hg x q.val t hxt (hb2s q hq t ht)) _ _ _ m2 ha
    (fun p hp => goodQ_of_γc (hsa p hp) (m3 p hp)) h
  obtain ⟨c1, c2, c3⟩ := combineLoop_struct g true true b2 _ _ Z h
  have hZ := c1 ha
  have hal := mergeAll_finest _ hZ _ _ _ hb2 c3 c2
  exact fun p hp => γc_of_good hZ hal hp (hgood p hp)

/-! ### the operators of `numerical_packing_domain` -/

theorem joinWith_wf {g : N.B → N.B → N.B} {a b : PK N} (ha : WF a) (hb : WF b) {res : PK N}
    (h : joinWith g a b = some res) : WF res := by
  unfold joinWith at h
  split at h
  · simp only [Option.some.injEq] at h; subst h; exact hb
  · split at h
    · simp only [Option.some.injEq] at h; subst h; exact ha
    · split at h
      · exact ufJoin_wf ha hb h
      · simp at h

theorem joinWith_sound (t : N.TopSound) {g : N.B → N.B → N.B} (hg : N.USound g) {a b : PK N} (ha : WF a) (hb : WF b)
    {res : PK N} (h : joinWith g a b = some res) {s : St V} (hs : γc a s ∨ γc b s) : γc res s := by
  unfold joinWith at h
  split at h
  · rename_i hc
    simp only [Option.some.injEq] at h; subst h
    rcases hs with hs | hs
    · rcases Bool.or_eq_true _ _ ▸ hc with hc | hc
      · exact absurd hs (not_γc_of_isBottom hc s)
      · exact γc_of_isTop t hc s
    · exact hs
  · split at h
    · rename_i hc
      simp only [Option.some.injEq] at h; subst h
      rcases hs with hs | hs
      · exact hs
      · rcases Bool.or_eq_true _ _ ▸ hc with hc | hc
        · exact absurd hs (not_γc_of_isBottom hc s)
        · exact γc_of_isTop t hc s
    · split at h
      · rcases hs with hs | hs
        · exact ufJoin_sound_left hg ha hb h hs
        · exact ufJoin_sound_right hg ha hb h hs
      · simp at h

theorem meetWith_wf {g : N.B → N.B → N.B} {a b : PK N} (ha : WF a) (hb : WF b) {res : PK N}
    (h : meetWith g a b = some res) : WF res := by
  unfold meetWith at h
  split at h
  · simp only [Option.some.injEq] at h; subst h; exact ha
  · split at h
    · simp only [Option.some.injEq] at h; subst h; exact hb
    · split at h
      · exact ufMeet_wf ha h
      · simp at h

theorem meetWith_sound {g : N.B → N.B → N.B} (hg : ∀ x y t, N.γ x t → N.γ y t → N.γ (g x y) t) {a b : PK N}
    (ha : WF a) (hb : WF b) {res : PK N} (h : meetWith g a b = some res) {s : St V} (hsa : γc a s) (hsb : γc b s) :
    γc res s := by
  unfold meetWith at h
  split at h
  · simp only [Option.some.injEq] at h; subst h; exact hsa
  · split at h
    · simp only [Option.some.injEq] at h; subst h; exact hsb
    · split at h
      · exact ufMeet_sound hg ha hb h hsa hsb
      · simp at h

end PK
end Fct
end Dom
end Crab
