import CrabModel.Dom.Functors.Product
import CrabProofs.Lemmas.IntervalArith
import CrabProofs.Lemmas.CongruenceOps

/-!
Lawful instances of `LDom Int` (one-variable domains: a concrete state is the value of the
variable) built from the exact scalar models, used for the non-vacuity examples and the explicit
counterexamples of `Props/C03Functors.lean`, `Props/C04Functors.lean`:

 * `itvDom`: `interval<z_number>` restricted to the intervals the code can build (`Itv.WF`: the
   lower bound is not `+oo`, the upper bound not `-oo`; `is_top()` of `[+oo,+oo]` would otherwise
   be a wrong yes);
 * `congDom`: `congruence<z_number>`.
-/
namespace Crab
namespace Dom
namespace Fct

open Crab.Bound

namespace ItvInst

theorem wf_mk' {l u : Bound} (h1 : l ≠ pinf) (h2 : u ≠ ninf) : (Itv.mk' l u).WF := by
  unfold Itv.mk'
  split
  · simp [Itv.WF, Itv.bot]
  · exact ⟨h1, h2⟩

theorem wf_bot : Itv.bot.WF := by simp [Itv.WF, Itv.bot]
theorem wf_top : Itv.top.WF := by simp [Itv.WF, Itv.top]

theorem min_ne_pinf {x y : Bound} (hx : x ≠ pinf) (hy : y ≠ pinf) : Bound.min x y ≠ pinf := by
  unfold Bound.min; split <;> assumption
theorem max_ne_ninf {x y : Bound} (hx : x ≠ ninf) (hy : y ≠ ninf) : Bound.max x y ≠ ninf := by
  unfold Bound.max; split <;> assumption
theorem max_ne_pinf {x y : Bound} (hx : x ≠ pinf) (hy : y ≠ pinf) : Bound.max x y ≠ pinf := by
  unfold Bound.max; split <;> assumption
theorem min_ne_ninf {x y : Bound} (hx : x ≠ ninf) (hy : y ≠ ninf) : Bound.min x y ≠ ninf := by
  unfold Bound.min; split <;> assumption

theorem wf_join {a b : Itv} (ha : a.WF) (hb : b.WF) : (Itv.join a b).WF := by
  unfold Itv.join
  split
  · exact hb
  · split
    · exact ha
    · exact wf_mk' (min_ne_pinf ha.1 hb.1) (max_ne_ninf ha.2 hb.2)

theorem wf_meet {a b : Itv} (ha : a.WF) (hb : b.WF) : (Itv.meet a b).WF := by
  unfold Itv.meet
  split
  · exact wf_bot
  · exact wf_mk' (max_ne_pinf ha.1 hb.1) (min_ne_ninf ha.2 hb.2)

theorem wf_widen {a b : Itv} (ha : a.WF) (hb : b.WF) : (Itv.widen a b).WF := by
  unfold Itv.widen
  split
  · exact hb
  · split
    · exact ha
    · apply wf_mk'
      · split
        · simp
        · exact ha.1
      · split
        · simp
        · exact ha.2

theorem wf_narrow {a b : Itv} (ha : a.WF) (hb : b.WF) : (Itv.narrow a b).WF := by
  unfold Itv.narrow
  split
  · exact wf_bot
  · apply wf_mk'
    · split
      · exact hb.1
      · exact ha.1
    · split
      · exact hb.2
      · exact ha.2

theorem mem_of_isTop {i : Itv} (hw : i.WF) (h : i.isTop = true) (k : Int) : Itv.mem k i := by
  obtain ⟨l, u⟩ := i
  unfold Itv.isTop at h
  simp only [Bool.and_eq_true] at h
  have h1 : l ≠ pinf := hw.1
  have h2 : u ≠ ninf := hw.2
  cases l <;> cases u <;> simp_all [Itv.mem, Bound.le, Bound.isInfinite]

end ItvInst

/-- well-formed intervals -/
abbrev WItv := { i : Itv // i.WF }

def WItv.mk (l u : Int) : WItv := ⟨⟨fin l, fin u⟩, by simp [Itv.WF]⟩

open ItvInst in
@[reducible] def itvDom : LDom Int where
  B := WItv
  γ := fun i k => Itv.mem k i.1
  top := ⟨Itv.top, wf_top⟩
  bot := ⟨Itv.bot, wf_bot⟩
  isBot := fun i => i.1.isBottom
  isTop := fun i => i.1.isTop
  leq := fun a b => Itv.leq a.1 b.1
  join := fun a b => ⟨Itv.join a.1 b.1, wf_join a.2 b.2⟩
  meet := fun a b => ⟨Itv.meet a.1 b.1, wf_meet a.2 b.2⟩
  widen := fun a b => ⟨Itv.widen a.1 b.1, wf_widen a.2 b.2⟩
  narrow := fun a b => ⟨Itv.narrow a.1 b.1, wf_narrow a.2 b.2⟩
  top_sound := Itv.mem_top
  bot_sound := Itv.not_mem_bot
  isBot_sound := fun _ _ h => Itv.not_mem_of_isBottom h
  leq_sound := fun _ _ _ h hk => Itv.leq_sound h hk
  join_l := fun _ _ _ h => Itv.join_upper_left h
  join_r := fun _ _ _ h => Itv.join_upper_right h
  widen_l := fun _ _ _ h => Itv.widen_upper_left h
  widen_r := fun _ _ _ h => Itv.widen_upper_right h
  meet_sound := fun _ _ _ ha hb => Itv.meet_sound ha hb
  narrow_sound := fun _ _ _ ha hb => Itv.narrow_sound ha hb

theorem itvDom_topSound : itvDom.TopSound := fun b s h => ItvInst.mem_of_isTop b.2 h s
theorem itvDom_leqRefl : itvDom.LeqRefl := fun a => Itv.leq_refl a.1
theorem itvDom_leqTop : itvDom.LeqTop := fun a => Itv.leq_top a.1
theorem itvDom_topIsTop : itvDom.TopIsTop := by unfold LDom.TopIsTop; decide
theorem itvDom_topNotBot : itvDom.TopNotBot := by unfold LDom.TopNotBot; decide
theorem itvDom_botIsBot : itvDom.BotIsBot := by unfold LDom.BotIsBot; decide
theorem itvDom_meetLower : itvDom.MeetLower := fun _ _ _ h => Itv.meet_exact h
theorem itvDom_narrowLower : itvDom.NarrowLower := fun a _ _ h => Itv.narrow_le_left a.2 h

@[reducible] def congDom : LDom Int where
  B := Cong
  γ := fun c k => Cong.mem k c
  top := Cong.top
  bot := Cong.bot
  isBot := Cong.isBottom
  isTop := Cong.isTop
  leq := Cong.leq
  join := Cong.join
  meet := Cong.meet
  widen := Cong.widen
  narrow := Cong.narrow
  top_sound := Cong.mem_top
  bot_sound := Cong.not_mem_bot
  isBot_sound := fun _ _ h => Cong.not_mem_of_isBot h
  leq_sound := fun _ _ _ h hk => Cong.leq_sound h hk
  join_l := fun _ _ _ h => Cong.join_upper_left h
  join_r := fun _ _ _ h => Cong.join_upper_right h
  widen_l := fun _ _ _ h => Cong.join_upper_left h
  widen_r := fun _ _ _ h => Cong.join_upper_right h
  meet_sound := fun _ _ _ ha hb => Cong.meet_sound ha hb
  narrow_sound := fun _ _ _ ha hb => Cong.narrow_sound ha hb

theorem congDom_leqRefl : congDom.LeqRefl := Cong.leq_refl
theorem congDom_leqTop : congDom.LeqTop := Cong.leq_top
theorem congDom_topNotBot : congDom.TopNotBot := by unfold LDom.TopNotBot; decide
theorem congDom_botIsBot : congDom.BotIsBot := by unfold LDom.BotIsBot; decide
theorem congDom_meetLower : congDom.MeetLower := fun _ _ _ h => Cong.meet_exact h

instance (i : Itv) : Decidable i.WF := by unfold Itv.WF; exact inferInstance

/-- a computed interval as an element of the carrier (top if it were malformed) -/
def WItv.ofItv (r : Itv) : WItv := if h : r.WF then ⟨r, h⟩ else ⟨Itv.top, ItvInst.wf_top⟩

theorem WItv.mem_ofItv {r : Itv} {k : Int} (h : Itv.mem k r) : Itv.mem k (WItv.ofItv r).1 := by
  unfold WItv.ofItv
  by_cases hw : r.WF
  · simp only [dif_pos hw]; exact h
  · simp only [dif_neg hw]; exact Itv.mem_top _

/-- `x := x + k` on one-variable states, as a transformer of the two instances (`interval::
    operator+`; top on the CRAB_ERROR path, which is not reachable) -/
def itvAddK (k : Int) (i : WItv) : WItv :=
  match Itv.add i.1 (Itv.single k) with
  | some r => WItv.ofItv r
  | none => ⟨Itv.top, ItvInst.wf_top⟩

theorem itvAddK_sound (k : Int) : itvDom.TSound (itvAddK k) (fun s s' => s' = s + k) := by
  intro a s s' hg hr
  subst hr
  have hg : Itv.mem s a.1 := hg
  show Itv.mem (s + k) (itvAddK k a).1
  unfold itvAddK
  split
  · rename_i r hr
    exact WItv.mem_ofItv (Itv.add_sound hg ((Itv.mem_single k k).2 rfl) hr)
  · exact Itv.mem_top _

def congAddK (k : Int) : congDom.B → congDom.B := fun c => Cong.add c (Cong.ofInt k)

theorem congAddK_sound (k : Int) : congDom.TSound (congAddK k) (fun s s' => s' = s + k) := by
  intro a s s' hg hr
  subst hr
  exact Cong.add_sound hg ((Cong.mem_ofInt k k).2 rfl)

/-- a reduction hook in the sense of `reduce_variable`: a singleton interval outside the
    congruence makes both components bottom -/
def redIC : Unit → itvDom.B → congDom.B → itvDom.B × congDom.B := fun _ a b =>
  match a.1.singleton? with
  | some k => if b.contains k then (a, b) else (itvDom.bot, congDom.bot)
  | none => (a, b)

theorem redIC_sound : ∀ v a b s, itvDom.γ a s → congDom.γ b s →
    itvDom.γ (redIC v a b).1 s ∧ congDom.γ (redIC v a b).2 s := by
  intro v a b s ha hb
  unfold redIC
  split
  · rename_i k hk
    have : s = k := Itv.mem_of_singleton? hk ha
    subst this
    have : b.contains s = true := (Cong.contains_iff b s).2 hb
    simp [this]; exact ⟨ha, hb⟩
  · exact ⟨ha, hb⟩

end Fct
end Dom
end Crab
