import CrabProofs.Lemmas.Interval

/-! Lattice operations of `Crab.Itv` versus concretisation. -/
namespace Crab
namespace Itv
open Bound

theorem leq_sound {a b : Itv} (h : leq a b = true) {k : Int} (hk : mem k a) : mem k b := by
  unfold leq at h
  have ha := isBottom_false_of_mem hk
  simp [ha] at h
  obtain ⟨_, h1, h2⟩ := h
  exact ⟨Bound.le_trans h1 hk.1, Bound.le_trans hk.2 h2⟩

theorem leq_refl (a : Itv) : leq a a = true := by
  unfold leq; split <;> simp_all [Bound.le_refl]

theorem bot_leq (b : Itv) : leq bot b = true := by simp [leq, isBottom_bot]

theorem leq_of_isBottom {a : Itv} (h : a.isBottom = true) (b : Itv) : leq a b = true := by simp [leq, h]

theorem leq_top (a : Itv) : leq a top = true := by
  unfold leq; split <;> simp_all [top, isBottom, Bound.gt]

theorem join_upper_left {a b : Itv} {k : Int} (hk : mem k a) : mem k (join a b) := by
  unfold join
  have ha := isBottom_false_of_mem hk
  simp [ha]
  split
  · exact hk
  · rw [mem_mk']
    exact ⟨Bound.le_trans (Bound.min_le_left _ _) hk.1, Bound.le_trans hk.2 (Bound.le_max_left _ _)⟩

theorem join_upper_right {a b : Itv} {k : Int} (hk : mem k b) : mem k (join a b) := by
  unfold join
  have hb := isBottom_false_of_mem hk
  split
  · exact hk
  · simp [hb]
    rw [mem_mk']
    exact ⟨Bound.le_trans (Bound.min_le_right _ _) hk.1, Bound.le_trans hk.2 (Bound.le_max_right _ _)⟩

/-- the join is the least upper bound w.r.t. `leq` -/
theorem join_least {a b c : Itv} (ha : leq a c = true) (hb : leq b c = true) : leq (join a b) c = true := by
  unfold join
  split
  · exact hb
  · split
    · exact ha
    · rename_i h1 h2
      unfold leq at ha hb ⊢
      simp [h1, h2] at ha hb
      obtain ⟨hc, ha1, ha2⟩ := ha
      obtain ⟨_, hb1, hb2⟩ := hb
      split
      · rfl
      · simp [hc]
        unfold mk'
        split
        · rename_i hh
          exfalso
          have h1' : Bound.le a.lb a.ub = true := by
            simp [isBottom, Bound.gt] at h1; exact h1
          have := Bound.le_trans (Bound.le_trans (Bound.min_le_left a.lb b.lb) h1') (Bound.le_max_left a.ub b.ub)
          simp [Bound.gt] at hh; simp [hh] at this
        · exact ⟨Bound.le_min ha1 hb1, Bound.max_le ha2 hb2⟩

theorem meet_sound {a b : Itv} {k : Int} (ha : mem k a) (hb : mem k b) : mem k (meet a b) := by
  unfold meet
  simp [isBottom_false_of_mem ha, isBottom_false_of_mem hb]
  rw [mem_mk']
  exact ⟨Bound.max_le ha.1 hb.1, Bound.le_min ha.2 hb.2⟩

/-- the meet is exact: it contains nothing else -/
theorem meet_exact {a b : Itv} {k : Int} (h : mem k (meet a b)) : mem k a ∧ mem k b := by
  unfold meet at h
  split at h
  · exact absurd h (not_mem_bot k)
  · rw [mem_mk'] at h
    exact ⟨⟨Bound.le_trans (Bound.le_max_left _ _) h.1, Bound.le_trans h.2 (Bound.min_le_left _ _)⟩,
           ⟨Bound.le_trans (Bound.le_max_right _ _) h.1, Bound.le_trans h.2 (Bound.min_le_right _ _)⟩⟩

theorem widen_upper_left {a b : Itv} {k : Int} (hk : mem k a) : mem k (widen a b) := by
  unfold widen
  have ha := isBottom_false_of_mem hk
  simp [ha]
  split
  · exact hk
  · rw [mem_mk']
    constructor
    · split
      · simp
      · exact hk.1
    · split
      · simp
      · exact hk.2

theorem widen_upper_right {a b : Itv} {k : Int} (hk : mem k b) : mem k (widen a b) := by
  unfold widen
  have hb := isBottom_false_of_mem hk
  split
  · exact hk
  · simp [hb]
    rw [mem_mk']
    constructor
    · split
      · simp
      · rename_i h; simp [Bound.lt, Bound.ge] at h; exact Bound.le_trans h hk.1
    · split
      · simp
      · rename_i h; simp [Bound.lt, Bound.ge] at h; exact Bound.le_trans hk.2 h

theorem narrow_sound {a b : Itv} {k : Int} (ha : mem k a) (hb : mem k b) : mem k (narrow a b) := by
  unfold narrow
  simp [isBottom_false_of_mem ha, isBottom_false_of_mem hb]
  rw [mem_mk']
  constructor
  · split
    · exact hb.1
    · exact ha.1
  · split
    · exact hb.2
    · exact ha.2

/-- narrowing never leaves the left operand (so a descending sequence stays below it) -/
theorem narrow_le_left {a b : Itv} {k : Int} (hw : a.WF) (h : mem k (narrow a b)) : mem k a := by
  obtain ⟨hw1, hw2⟩ := hw
  unfold narrow at h
  split at h
  · exact absurd h (not_mem_bot k)
  · rw [mem_mk'] at h
    obtain ⟨h1, h2⟩ := h
    constructor
    · split at h1
      · rename_i hc; simp at hc; cases hl : a.lb <;> simp_all [Bound.isInfinite]
      · exact h1
    · split at h2
      · rename_i hc; simp at hc; cases hl : a.ub <;> simp_all [Bound.isInfinite]
      · exact h2

end Itv
end Crab
