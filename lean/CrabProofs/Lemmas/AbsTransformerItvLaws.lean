import CrabProofs.Lemmas.AbsTransformerItv
import CrabModel.Analysis.Checker

/-!
  The method laws `NDom.Laws` and the lattice laws `LatLaws` for the interval domain
  `ItvN.dom`, from the soundness theorems of the exact model (`IDom.Stmt.exec_sound`,
  `Env.forget_sound`, `Env.join_upper_left`, …: the content of Props/C03Itv.lean).
-/
namespace Crab
namespace Analysis
namespace ItvN
open Crab.IDom

theorem forget_sound_int {a : SEnv} {σ : IR.State} (hg : dom.γ a σ) (x : Nat) (v : Int)
    (hx : x < σ.iv.size) : dom.γ (forget a (2 * x)) (σ.seti x v) := by
  show Env.γ (a.1.forget (2 * x)) (view (σ.seti x v))
  rw [view_seti σ x v hx]
  exact Env.forget_sound hg _ _

theorem forget_sound_bool {a : SEnv} {σ : IR.State} (hg : dom.γ a σ) (b : Nat) (v : Bool)
    (hb : b < σ.bv.size) : dom.γ (forget a (2 * b + 1)) (σ.setb b v) := by
  show Env.γ (a.1.forget (2 * b + 1)) (view (σ.setb b v))
  rw [view_setb σ b v hb]
  exact Env.forget_sound hg _ _

theorem select_cond (c : IR.Cst) (σ : IR.State) (u v : Int) :
    (if (cstLin c).sat (view σ) then u else v) = (if c.holds σ = true then u else v) := by
  by_cases h : c.holds σ = true
  · rw [if_pos ((cstLin_sat c σ).2 h), if_pos h]
  · rw [if_neg (fun h' => h ((cstLin_sat c σ).1 h')), if_neg h]

/-- every method of the interval domain the transformer calls is sound -/
theorem laws : dom.Laws where
  applyArithVar_sound := by
    intro a op x y z σ v hg hx hv
    show Env.γ ((IDom.Stmt.arithVar (arithOp op) (2 * x) (2 * y) (2 * z)).exec a.1) (view (σ.seti x v))
    rw [view_seti σ x v hx]
    refine IDom.Stmt.exec_sound (IDom.Stmt.arithVar (arithOp op) (2 * x) (2 * y) (2 * z)) trivial hg ⟨v, ?_, rfl⟩
    rw [view_int, view_int]
    exact arith_conc hv
  applyArithCst_sound := by
    intro a op x y k σ v hg hx hv
    show Env.γ ((IDom.Stmt.arithCst (arithOp op) (2 * x) (2 * y) k).exec a.1) (view (σ.seti x v))
    rw [view_seti σ x v hx]
    refine IDom.Stmt.exec_sound (IDom.Stmt.arithCst (arithOp op) (2 * x) (2 * y) k) trivial hg ⟨v, ?_, rfl⟩
    rw [view_int]
    exact arith_conc hv
  applyBitVar_sound := by
    intro a op x y z σ v hg hx hv
    show Env.γ ((IDom.Stmt.bitVar (bitOp op) (2 * x) (2 * y) (2 * z)).exec a.1) (view (σ.seti x v))
    rw [view_seti σ x v hx]
    refine IDom.Stmt.exec_sound (IDom.Stmt.bitVar (bitOp op) (2 * x) (2 * y) (2 * z)) trivial hg ⟨v, ?_, rfl⟩
    rw [view_int, view_int]
    exact bit_conc hv
  applyBitCst_sound := by
    intro a op x y k σ v hg hx hv
    show Env.γ ((IDom.Stmt.bitCst (bitOp op) (2 * x) (2 * y) k).exec a.1) (view (σ.seti x v))
    rw [view_seti σ x v hx]
    refine IDom.Stmt.exec_sound (IDom.Stmt.bitCst (bitOp op) (2 * x) (2 * y) k) trivial hg ⟨v, ?_, rfl⟩
    rw [view_int]
    exact bit_conc hv
  assign_sound := by
    intro a x e σ hg hx
    show Env.γ ((IDom.Stmt.assign (2 * x) (linExpr e)).exec a.1) (view (σ.seti x (e.eval σ)))
    rw [view_seti σ x _ hx, ← linExpr_eval]
    exact IDom.Stmt.exec_sound (IDom.Stmt.assign (2 * x) (linExpr e)) trivial hg rfl
  addCst_sound := by
    intro a c σ hg hc
    show Env.γ ((IDom.Stmt.assume [cstLin c]).exec a.1) (view σ)
    refine IDom.Stmt.exec_sound (IDom.Stmt.assume [cstLin c]) ?_ hg ⟨?_, rfl⟩
    · intro c' hc'; rw [List.mem_singleton.1 hc']; exact cstLin_canonical c
    · intro c' hc'; rw [List.mem_singleton.1 hc']; exact (cstLin_sat c σ).2 hc
  select_sound := by
    intro a x c e1 e2 σ hg hx
    show Env.γ ((IDom.Stmt.select (2 * x) (cstLin c) (linExpr e1) (linExpr e2)).exec a.1)
      (view (σ.seti x (if c.holds σ then e1.eval σ else e2.eval σ)))
    rw [view_seti σ x _ hx]
    refine IDom.Stmt.exec_sound (IDom.Stmt.select (2 * x) (cstLin c) (linExpr e1) (linExpr e2)) (cstLin_canonical c) hg ?_
    show _ = upd (view σ) (2 * x)
      (if (cstLin c).sat (view σ) then (linExpr e1).eval (view σ) else (linExpr e2).eval (view σ))
    rw [select_cond, linExpr_eval, linExpr_eval]
  forget_int_sound := fun a x σ v hg hx => forget_sound_int hg x v hx
  forget_bool_sound := fun a b σ v hg hb => forget_sound_bool hg b v hb
  forgetAll_sound := by
    intro a vs σ hg
    show Env.γ ((IDom.Stmt.havoc (vs.map enc)).exec a.1) (view σ)
    exact IDom.Stmt.exec_sound (IDom.Stmt.havoc (vs.map enc)) trivial hg (fun _ _ => rfl)
  assignBoolCst_sound := fun a b c σ hg hb => forget_sound_bool hg b _ hb
  assignBoolVar_sound := fun a b c neg σ hg hb => forget_sound_bool hg b _ hb
  applyBinaryBool_sound := fun a op b c d σ hg hb => forget_sound_bool hg b _ hb
  assumeBool_sound := fun a b neg σ hg _ => hg
  selectBool_sound := fun a b c d e σ hg hb => forget_sound_bool hg b _ hb

/-- `apply(int_conv_operation_t, dst, src)` of the interval domain (integer operands) -/
theorem intCast_sound (a : SEnv) (op : IntConvOp) (dst src bw : Nat) (σ : IR.State)
    (hg : dom.γ a σ) (hd : dst < σ.iv.size) (hz : op = .zext → σ.geti src ≤ 2 ^ bw - 1) :
    dom.γ (dom.intCast a op dst src bw) (σ.seti dst (σ.geti src)) := by
  show Env.γ ((IDom.Stmt.cast (decide (op = .zext)) bw (2 * dst) (2 * src)).exec a.1)
    (view (σ.seti dst (σ.geti src)))
  rw [view_seti σ dst _ hd]
  refine IDom.Stmt.exec_sound (IDom.Stmt.cast (decide (op = .zext)) bw (2 * dst) (2 * src)) trivial hg ⟨?_, ?_⟩
  · intro h
    rw [view_int]
    exact hz (by simpa using h)
  · rw [view_int]

/-- the lattice operations of the interval domain, as the iterator calls them -/
theorem latLaws : LatLaws SEnv.ops dom.γ where
  join_left := fun a b _ h => Env.join_upper_left a.2 b.1 h
  join_right := fun a _ _ h => Env.join_upper_right a.2 h
  widen_left := fun a b _ h => Env.widen_upper_left a.2 b.1 h
  widen_right := fun a _ _ h => Env.widen_upper_right a.2 h
  meet_sound := fun a _ _ h1 h2 => Env.meet_sound a.2 h1 h2
  narrow_sound := fun a _ _ h1 h2 => Env.narrow_sound a.2 h1 h2
  leq_sound := fun _ _ _ h hg => Env.leq_sound h hg

theorem isBottom_sound (a : SEnv) (σ : IR.State) (h : dom.isBottom a = true) : ¬ dom.γ a σ :=
  Env.not_γ_bottom h _

theorem γ_top (σ : IR.State) : dom.γ SEnv.top σ := Env.γ_top _

/-- what the assertion checker uses of the interval domain: `is_bottom`, `entails`
    (`Env.entails`, C04), `assume_bool` (no-op of `BOOL_OPERATIONS_NOT_IMPLEMENTED`) -/
def checkDom : CheckDom SEnv where
  γ := dom.γ
  isBottom := dom.isBottom
  entails := fun a c => a.1.entails (cstLin c)
  assumeBool := dom.assumeBool
  isBottom_sound := fun a σ h => isBottom_sound a σ h
  entails_sound := fun _ c σ h hg => (cstLin_sat c σ).1 (Env.entails_sound hg (cstLin_canonical c) h)
  assumeBool_sound := fun _ _ _ _ hg _ => hg

end ItvN
end Analysis
end Crab
