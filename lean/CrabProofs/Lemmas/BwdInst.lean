import CrabModel.Bwd.BwdInst
import CrabProofs.Lemmas.BwdGeneric
import CrabProofs.Lemmas.LinExpr
import CrabProofs.Lemmas.IDomOps

/-!
  Generic part of the instantiation of C11 on the exact domain models:
  * the `linear_expression` / `linear_constraint` objects of a `bwd` program mean the same and
    are canonical;
  * `freshFor` is fresh;
  * `withGenBwd_sound`: a record whose forward operations are sound and whose backward operations
    are `BackwardAssignOps` over them satisfies the whole contract `BDomSound` (the two backward
    fields by `genBwdAssign_sound'` / `genBwdApply_sound'`: the generic theorems, with the
    contract of `rename` weakened to what `BackwardAssignOps` uses — the target has just been
    forgotten);
  * `withForgetBwd_sound`: the same for "forget x, meet with the invariant".
-/
namespace Crab
namespace Bwd

/-! ### syntax -/

theorem evalTerms_pairs (ts : List (Int × Var)) (σ : State) :
    Crab.Lin.Expr.evalTerms σ (ts.map (fun t => (t.2, t.1))) = evalTerms ts σ := by
  induction ts with
  | nil => rfl
  | cons t ts ih =>
    obtain ⟨k, v⟩ := t
    simp only [List.map, Crab.Lin.Expr.evalTerms, evalTerms, ih]

theorem Lin.toExpr_eval (e : Lin) (σ : State) : e.toExpr.eval σ = e.eval σ := by
  unfold Lin.toExpr
  rw [Crab.Lin.Expr.eval_add]
  simp only [Crab.Lin.Expr.eval, Crab.Lin.Expr.const, Crab.Lin.Expr.evalTerms, Lin.pairs,
    evalTerms_pairs, Lin.eval]
  omega

theorem Lin.toExpr_canonical (e : Lin) : e.toExpr.Canonical :=
  ⟨Crab.Lin.Expr.sorted_add _ (Crab.Lin.Expr.sorted_const e.c),
   Crab.Lin.Expr.noZero_add _ (Crab.Lin.Expr.noZero_const e.c)⟩

theorem Cst.toLin_sat (c : Cst) (σ : State) : c.toLin.sat σ ↔ c.holds σ := by
  obtain ⟨k, e⟩ := c
  cases k <;> simp [Cst.toLin, CKind.toLin, Crab.Lin.Cst.sat, Cst.holds, Lin.toExpr_eval]

theorem Cst.toLin_canonical (c : Cst) : c.toLin.expr.Canonical := Lin.toExpr_canonical c.e

/-- the value `apply(op, x, y, z)` assigns, for the two linear operations -/
theorem binLin_eval {op : BinOp} {y : Var} {z : Operand} {e : Lin} (h : binLin op y z = some e)
    (σ : State) : binSem op (σ y) (z.eval σ) = some (e.eval σ) := by
  cases op <;> cases z <;> simp only [binLin, Option.some.injEq, reduceCtorEq] at h
  all_goals subst h
  all_goals simp only [binSem, Operand.eval, Lin.eval, evalTerms, Option.some.injEq]
  all_goals omega

theorem binLin_none {op : BinOp} {y : Var} {z : Operand} (h : binLin op y z = none) :
    op = .mul ∨ op = .sdiv := by
  cases op <;> cases z <;> simp [binLin] at h ⊢

/-! ### `freshFor` -/

theorem freshFor_ge_aux (vs : List Var) (b : Nat) :
    b ≤ vs.foldl (fun m v => max m (v + 1)) b ∧
    ∀ v ∈ vs, v < vs.foldl (fun m v => max m (v + 1)) b := by
  induction vs generalizing b with
  | nil => exact ⟨Nat.le_refl _, fun v hv => by cases hv⟩
  | cons w ws ih =>
    simp only [List.foldl_cons]
    obtain ⟨h1, h2⟩ := ih (max b (w + 1))
    refine ⟨by omega, fun v hv => ?_⟩
    rcases List.mem_cons.1 hv with rfl | hv
    · exact Nat.lt_of_lt_of_le (Nat.lt_of_lt_of_le (Nat.lt_succ_self v) (Nat.le_max_right b (v + 1))) h1
    · exact h2 v hv

theorem freshFor_ge (b : Nat) (vs : List Var) : b ≤ freshFor b vs := (freshFor_ge_aux vs b).1
theorem freshFor_ne (b : Nat) (vs : List Var) {v : Var} (h : v ∈ vs) : freshFor b vs ≠ v := by
  have := (freshFor_ge_aux vs b).2 v h
  intro he
  unfold freshFor at he
  rw [he] at this
  exact Nat.lt_irrefl _ this
theorem freshFor_not_mem (b : Nat) (vs ws : List Var) (h : ∀ v ∈ ws, v ∈ vs) : freshFor b vs ∉ ws :=
  fun hm => freshFor_ne b vs (h _ hm) rfl

/-! ### the two shapes of the backward operations -/

variable {A : Type} {D : BDom A} {γ : A → State → Prop}

/-- what `BackwardAssignOps::assign` needs of `rename({y}, {x})`: it is called right after
    `dom -= x` (the real `separate_domain::rename` is NOT a renaming when the target is bound and
    the source is not: the binding of the target survives) -/
def RenameAfterForget (D : BDom A) (γ : A → State → Prop) (rename : Var → Var → A → A) : Prop :=
  ∀ y x a τ w, y ≠ x → γ a τ → γ (rename y x (D.forget x a)) (upd (upd τ x (τ y)) y w)

/-- `genBwdAssign_sound` under the weaker contract of `rename` -/
theorem genBwdAssign_sound' (hD : BDomSound D γ) (rename : Var → Var → A → A)
    (hren : RenameAfterForget D γ rename) (fresh x : Var) (e : Lin) (post inv : A) (σ : State)
    (hfx : fresh ≠ x) (hfe : fresh ∉ e.vars)
    (hfp : ∀ τ v, γ post τ → γ post (upd τ fresh v))
    (hinv : γ inv σ) (hpost : γ post (upd σ x (e.eval σ))) :
    γ (genBwdAssign D rename fresh x e post inv) σ := by
  by_cases hx : x ∈ e.vars
  · unfold genBwdAssign
    split
    · rename_i hb; exact absurd hpost (hD.isBottom_sound _ _ hb)
    · let τ := upd (upd σ x (e.eval σ)) fresh (σ x)
      have h1 : γ post τ := hfp _ _ hpost
      have hc : (Cst.eqVar (e.rename x fresh) x).holds τ := by
        rw [Cst.eqVar_holds, Lin.rename_eval e σ x fresh (e.eval σ) hfe hfx]
        show e.eval σ = upd (upd σ x (e.eval σ)) fresh (σ x) x
        rw [upd_other _ fresh x _ (fun h => hfx h.symm), upd_same]
      have h2 := hD.assume_sound _ post τ h1 hc
      have h4 := hren fresh x _ τ (σ fresh) hfx h2
      have hρ : upd (upd τ x (τ fresh)) fresh (σ fresh) = σ := by
        funext y
        by_cases hyf : y = fresh
        · subst hyf; simp [upd]
        · by_cases hyx : y = x
          · subst hyx; simp [upd, hyf, τ]
          · simp [upd, hyf, hyx, τ]
      rw [hρ] at h4
      exact hD.meet_sound _ _ σ h4 hinv
  · -- the branch without `rename`: the generic theorem with any sound renaming
    have h := genBwdAssign_sound hD (fun y x a => D.forget y (D.forget x a))
      (fun y x a τ w hg => hD.forget_sound y _ _ w (hD.forget_sound x a τ (τ y) hg))
      fresh x e post inv σ hfx hfe hfp hinv hpost
    unfold genBwdAssign at h ⊢
    simp only [hx, if_false] at h ⊢
    exact h

/-- `genBwdApply_sound` under the weaker contract of `rename` -/
theorem genBwdApply_sound' (hD : BDomSound D γ) (rename : Var → Var → A → A)
    (hren : RenameAfterForget D γ rename) (fresh : Var) (op : BinOp) (x y : Var) (z : Operand)
    (post inv : A) (σ : State) (v : Int)
    (hfx : fresh ≠ x) (hfy : fresh ≠ y) (hfz : ∀ w, z = .var w → fresh ≠ w)
    (hfp : ∀ τ u, γ post τ → γ post (upd τ fresh u))
    (hinv : γ inv σ) (hv : binSem op (σ y) (z.eval σ) = some v) (hpost : γ post (upd σ x v)) :
    γ (genBwdApply D rename fresh op x y z post inv) σ := by
  -- every branch but `y ± z` ignores `rename`: the generic theorem with any sound renaming
  have h := genBwdApply_sound hD (fun y x a => D.forget y (D.forget x a))
    (fun y x a τ w hg => hD.forget_sound y _ _ w (hD.forget_sound x a τ (τ y) hg))
    fresh op x y z post inv σ v hfx hfy hfz hfp hinv hv hpost
  cases z with
  | const k => exact h
  | var w =>
    have hfw : fresh ≠ w := hfz w rfl
    simp only [Operand.eval] at hv
    cases op with
    | mul => exact h
    | sdiv => exact h
    | add =>
      unfold genBwdApply
      split
      · rename_i hb; exact absurd hpost (hD.isBottom_sound _ _ hb)
      · simp only [binSem, Option.some.injEq] at hv
        refine genBwdAssign_sound' hD rename hren fresh x ⟨0, [(1, y), (1, w)]⟩ post inv σ hfx ?_ hfp hinv ?_
        · simp [Lin.vars, hfy, hfw]
        · have : (⟨0, [(1, y), (1, w)]⟩ : Lin).eval σ = v := by
            simp only [Lin.eval, evalTerms]; omega
          rw [this]; exact hpost
    | sub =>
      unfold genBwdApply
      split
      · rename_i hb; exact absurd hpost (hD.isBottom_sound _ _ hb)
      · simp only [binSem, Option.some.injEq] at hv
        refine genBwdAssign_sound' hD rename hren fresh x ⟨0, [(1, y), (-1, w)]⟩ post inv σ hfx ?_ hfp hinv ?_
        · simp [Lin.vars, hfy, hfw]
        · have : (⟨0, [(1, y), (-1, w)]⟩ : Lin).eval σ = v := by
            simp only [Lin.eval, evalTerms]; omega
          rw [this]; exact hpost

/-- `bound a`: the value `a` constrains no variable from that index on -/
def BoundOk (γ : A → State → Prop) (bound : A → Nat) : Prop :=
  ∀ a f τ v, bound a ≤ f → γ a τ → γ a (upd τ f v)

/-- a domain whose backward operations are `BackwardAssignOps` over its own sound forward
    operations satisfies the contract of the backward analysis -/
theorem withGenBwd_sound (hD : BDomSound D γ) (rename : Var → Var → A → A)
    (hren : RenameAfterForget D γ rename) (bound : A → Nat) (hb : BoundOk γ bound) :
    BDomSound (withGenBwd D rename bound) γ where
  top_sound := hD.top_sound
  isBottom_sound := hD.isBottom_sound
  join_left := hD.join_left
  join_right := hD.join_right
  widen_left := hD.widen_left
  widen_right := hD.widen_right
  meet_sound := hD.meet_sound
  narrow_sound := hD.narrow_sound
  leq_sound := hD.leq_sound
  assume_sound := hD.assume_sound
  forget_sound := hD.forget_sound
  assign_sound := hD.assign_sound
  apply_sound := hD.apply_sound
  select_sound := hD.select_sound
  bwdAssign_sound := by
    intro x e post inv σ hinv hpost
    refine genBwdAssign_sound' hD rename hren _ x e post inv σ
      (freshFor_ne _ _ List.mem_cons_self)
      (freshFor_not_mem _ _ _ (fun v hv => List.mem_cons_of_mem _ hv))
      (fun τ v hτ => hb post _ τ v (freshFor_ge _ _) hτ) hinv hpost
  bwdApply_sound := by
    intro op x y z post inv σ v hinv hv hpost
    refine genBwdApply_sound' hD rename hren _ op x y z post inv σ v
      (freshFor_ne _ _ List.mem_cons_self)
      (freshFor_ne _ _ (List.mem_cons_of_mem _ List.mem_cons_self))
      (fun w hw => freshFor_ne _ _ (by subst hw; simp [Operand.vars]))
      (fun τ u hτ => hb post _ τ u (freshFor_ge _ _) hτ) hinv hv hpost

/-- "forget `x`, meet with the invariant" (`constant_domain`, `sign_domain`) satisfies it too -/
theorem withForgetBwd_sound (hD : BDomSound D γ) : BDomSound (withForgetBwd D) γ where
  top_sound := hD.top_sound
  isBottom_sound := hD.isBottom_sound
  join_left := hD.join_left
  join_right := hD.join_right
  widen_left := hD.widen_left
  widen_right := hD.widen_right
  meet_sound := hD.meet_sound
  narrow_sound := hD.narrow_sound
  leq_sound := hD.leq_sound
  assume_sound := hD.assume_sound
  forget_sound := hD.forget_sound
  assign_sound := hD.assign_sound
  apply_sound := hD.apply_sound
  select_sound := hD.select_sound
  bwdAssign_sound := by
    intro x e post inv σ hinv hpost
    have h := hD.forget_sound x post _ (σ x) hpost
    rw [upd_upd, upd_self] at h
    exact hD.meet_sound _ _ σ h hinv
  bwdApply_sound := by
    intro op x y z post inv σ v hinv _ hpost
    have h := hD.forget_sound x post _ (σ x) hpost
    rw [upd_upd, upd_self] at h
    exact hD.meet_sound _ _ σ h hinv

end Bwd
end Crab
