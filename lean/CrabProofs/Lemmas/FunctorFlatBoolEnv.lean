import CrabModel.Dom.Functors.FlatBool

/-!
Container lemmas for the model of `flat_boolean_numerical_domain` (`DSet`, `SEnv`: what `look`
returns after each update) and soundness of the operations of the flat Boolean domain `FB V`.
-/
set_option linter.unusedSectionVars false
set_option linter.unusedSimpArgs false

namespace Crab
namespace Dom
namespace Fct

/-! ### `DSet` -/
namespace DSet
variable {α : Type} [DecidableEq α]

theorem mem_join (a b : DSet α) (x : α) : (join a b).mem x = true ↔ a.mem x = true ∧ b.mem x = true := by
  cases a <;> cases b <;> simp [join, mem, List.contains_iff_mem]

theorem mem_meet (a b : DSet α) (x : α) : (meet a b).mem x = true ↔ a.mem x = true ∨ b.mem x = true := by
  cases a <;> cases b <;> simp [meet, mem, List.contains_iff_mem]
  rename_i l1 l2
  by_cases h : x ∈ l1 <;> simp [h]

theorem isBot_join (a b : DSet α) : (join a b).isBot = (a.isBot && b.isBot) := by
  cases a <;> cases b <;> simp [join, isBot]

theorem isBot_meet (a b : DSet α) : (meet a b).isBot = (a.isBot || b.isBot) := by
  cases a <;> cases b <;> simp [meet, isBot]

theorem mem_of_leq {a b : DSet α} (h : leq a b = true) (x : α) (hx : b.mem x = true) : a.mem x = true := by
  cases a with
  | all => rfl
  | fin l1 =>
    cases b with
    | all => simp [leq] at h
    | fin l2 =>
      simp only [leq, List.all_eq_true] at h
      simp only [mem, List.contains_iff_mem] at hx ⊢
      simpa [List.contains_iff_mem] using h x hx

theorem leq_fin_iff (u : DSet α) (l : List α) : leq u (.fin l) = true ↔ ∀ v ∈ l, u.mem v = true := by
  cases u with
  | all => simp [leq, mem]
  | fin l1 => simp [leq, mem, List.all_eq_true]

theorem mem_remove (u : DSet α) (h : u.isBot = false) (x v : α) :
    (u.remove x).mem v = true ↔ v ≠ x ∧ u.mem v = true := by
  cases u with
  | all => simp [isBot] at h
  | fin l =>
    simp only [remove, mem, List.contains_iff_mem, List.mem_filter, decide_eq_true_eq]
    exact ⟨fun ⟨a, b⟩ => ⟨b, a⟩, fun ⟨a, b⟩ => ⟨b, a⟩⟩

theorem isBot_remove (u : DSet α) (x : α) : (u.remove x).isBot = u.isBot := by
  cases u <;> rfl

theorem mem_insert (u : DSet α) (x v : α) : (u.insert x).mem v = true ↔ v = x ∨ u.mem v = true := by
  cases u with
  | all => simp [insert, mem]
  | fin l =>
    simp only [insert, mem, List.contains_iff_mem]
    split
    · rename_i h
      constructor
      · exact Or.inr
      · rintro (e | e)
        · subst e; exact h
        · exact e
    · simp

theorem isBot_insert (u : DSet α) (x : α) : (u.insert x).isBot = u.isBot := by
  cases u <;> rfl

theorem isBot_false_fin_of (u : DSet α) (h : u.isBot = false) : ∃ l, u = .fin l := by
  cases u with
  | all => simp [isBot] at h
  | fin l => exact ⟨l, rfl⟩
end DSet

/-! ### `SEnv` -/
namespace SEnv
variable {V α : Type} [DecidableEq V] [DecidableEq α]

theorem nz_getD (l : List α) : (nz l).getD [] = l := by
  unfold nz
  split
  · rename_i h; simp only [Option.getD_none]; exact (List.isEmpty_iff.1 h).symm
  · rfl

theorem exists_env {e : SEnv V α} (h : e.isBot = false) : ∃ m, e = env m := by
  cases e with
  | bot => simp [isBot] at h
  | env m => exact ⟨m, rfl⟩

theorem isBot_del (e : SEnv V α) (k : V) : (e.del k).isBot = e.isBot := by cases e <;> rfl

theorem isBot_set_fin {e : SEnv V α} (h : e.isBot = false) (k : V) (l : List α) :
    (e.set k (.fin l)).isBot = false := by
  obtain ⟨m, rfl⟩ := exists_env h
  simp only [set]; split <;> rfl

theorem isBot_transformIf (p : List α → Bool) (f : List α → List α) (e : SEnv V α) :
    (e.transformIf p f).isBot = e.isBot := by cases e <;> rfl

theorem isBot_join (a b : SEnv V α) : (join a b).isBot = (a.isBot && b.isBot) := by
  cases a <;> cases b <;> simp [join, isBot]

theorem isBot_meet (a b : SEnv V α) : (meet a b).isBot = (a.isBot || b.isBot) := by
  cases a <;> cases b <;> simp [meet, isBot]

theorem look_fin_of {e : SEnv V α} (h : e.isBot = false) (k : V) : ∃ l, e.look k = .fin l := by
  obtain ⟨m, rfl⟩ := exists_env h
  exact ⟨_, rfl⟩

theorem mem_look_set_fin {e : SEnv V α} (h : e.isBot = false) (k k' : V) (l : List α) (c : α) :
    ((e.set k (.fin l)).look k').mem c = true ↔ if k' = k then c ∈ l else (e.look k').mem c = true := by
  obtain ⟨m, rfl⟩ := exists_env h
  simp only [set]
  split
  · rename_i he
    have hl : l = [] := List.isEmpty_iff.1 he
    simp only [look, AL.get_del, DSet.mem]
    by_cases hk : k' = k <;> simp [hk, hl]
  · simp only [look, AL.get_put, DSet.mem]
    by_cases hk : k' = k <;> simp [hk, List.contains_iff_mem]

theorem mem_look_del {e : SEnv V α} (h : e.isBot = false) (k k' : V) (c : α) :
    ((e.del k).look k').mem c = true ↔ k' ≠ k ∧ (e.look k').mem c = true := by
  obtain ⟨m, rfl⟩ := exists_env h
  simp only [del, look, AL.get_del, DSet.mem]
  by_cases hk : k' = k <;> simp [hk]

theorem look_transformIf (p : List α → Bool) (f : List α → List α) (hp : p [] = false)
    (m : List (V × List α)) (k : V) :
    ((env m).transformIf p f).look k =
      .fin (if p ((AL.get m k).getD []) then f ((AL.get m k).getD []) else (AL.get m k).getD []) := by
  simp only [transformIf, look]
  rw [AL.get_build_of]
  · unfold transG
    cases hg : AL.get m k with
    | none => simp [hp]
    | some l => simp [nz_getD]
  · intro hne
    unfold transG at hne
    cases hg : AL.get m k with
    | none => simp [hg] at hne
    | some l => exact AL.mem_keys_of_get hg

theorem mem_look_transformIf (p : List α → Bool) (f : List α → List α) (hp : p [] = false)
    {e : SEnv V α} (h : e.isBot = false) (k : V) (c : α) :
    ((e.transformIf p f).look k).mem c = true ↔
      ∃ l, e.look k = .fin l ∧ c ∈ (if p l then f l else l) := by
  obtain ⟨m, rfl⟩ := exists_env h
  rw [look_transformIf p f hp]
  simp only [DSet.mem, List.contains_iff_mem, look]
  constructor
  · intro hc; exact ⟨_, rfl, hc⟩
  · rintro ⟨l, hl, hc⟩
    cases hl; exact hc

theorem look_join (a b : SEnv V α) (k : V) : (join a b).look k = DSet.join (a.look k) (b.look k) := by
  cases a with
  | bot => cases b <;> simp [join, look, DSet.join]
  | env ma =>
    cases b with
    | bot => simp [join, look, DSet.join]
    | env mb =>
      simp only [join, look, DSet.join]
      rw [AL.get_build_of]
      · unfold joinG
        cases h1 : AL.get ma k <;> cases h2 : AL.get mb k <;> simp [nz_getD]
      · intro hne
        unfold joinG at hne
        cases h1 : AL.get ma k with
        | none => simp [h1] at hne
        | some l => exact AL.mem_keys_of_get h1

theorem look_meet (a b : SEnv V α) (k : V) : (meet a b).look k = DSet.meet (a.look k) (b.look k) := by
  cases a with
  | bot => cases b <;> simp [meet, look, DSet.meet]
  | env ma =>
    cases b with
    | bot => simp [meet, look, DSet.meet]
    | env mb =>
      simp only [meet, look, DSet.meet]
      rw [AL.get_build_of]
      · unfold meetG; simp [nz_getD]
      · intro hne
        unfold meetG at hne
        simp only [List.mem_append]
        cases h1 : AL.get ma k with
        | some l => exact Or.inl (AL.mem_keys_of_get h1)
        | none =>
          cases h2 : AL.get mb k with
          | some l => exact Or.inr (AL.mem_keys_of_get h2)
          | none => simp [h1, h2, nz] at hne

theorem of_leq {a b : SEnv V α} (h : leq a b = true) (ha : a.isBot = false) :
    b.isBot = false ∧ ∀ k x, (b.look k).mem x = true → (a.look k).mem x = true := by
  obtain ⟨ma, rfl⟩ := exists_env ha
  cases b with
  | bot => simp [leq] at h
  | env mb =>
    refine ⟨rfl, ?_⟩
    intro k x hx
    simp only [leq, List.all_eq_true] at h
    simp only [look, DSet.mem, List.contains_iff_mem] at hx ⊢
    by_cases hk : k ∈ AL.keys mb
    · simpa [List.contains_iff_mem] using h k hk x hx
    · rw [AL.get_none_of_not_mem_keys mb k hk] at hx; simp at hx
end SEnv


/-! ### `boolean_value` and the flat Boolean domain -/
namespace BVal
theorem γ_ofBool (b : Bool) : γ (ofBool b) b := by cases b <;> simp [ofBool, γ]
theorem γ_top (b : Bool) : γ top b := trivial
theorem join_l {x : BVal} {b : Bool} (y : BVal) (h : γ x b) : γ (join x y) b := by
  cases x <;> cases y <;> cases b <;> simp_all [γ, join]
theorem join_r {y : BVal} {b : Bool} (x : BVal) (h : γ y b) : γ (join x y) b := by
  cases x <;> cases y <;> cases b <;> simp_all [γ, join]
theorem meet_sound {x y : BVal} {b : Bool} (hx : γ x b) (hy : γ y b) : γ (meet x y) b := by
  cases x <;> cases y <;> cases b <;> simp_all [γ, meet]
theorem neg_sound {x : BVal} {b : Bool} (h : γ x b) : γ (neg x) (!b) := by
  cases x <;> cases b <;> simp_all [γ, neg]
theorem abs_sound (op : BBin) {x y : BVal} {a b : Bool} (hx : γ x a) (hy : γ y b) :
    γ (op.abs x y) (op.eval a b) := by
  cases op <;> cases x <;> cases y <;> cases a <;> cases b <;>
    simp_all [γ, BBin.abs, BBin.eval, BVal.and, BVal.or, BVal.xor]
theorem eq_tt {x : BVal} {b : Bool} (h : γ x b) (hx : x = tt) : b = true := by subst hx; exact h
theorem eq_ff {x : BVal} {b : Bool} (h : γ x b) (hx : x = ff) : b = false := by subst hx; exact h
end BVal

namespace FEnv
variable {V : Type} [DecidableEq V]

theorem get_sound {e : FEnv V} {s : CSt V} (h : γ e s) (x : V) : BVal.γ (e.get x) (s.bool x) := by
  cases e with
  | bot => exact h.elim
  | env m =>
    simp only [get]
    cases hg : AL.get m x with
    | none => trivial
    | some b => rw [h x b hg]; exact BVal.γ_ofBool b

theorem γ_congr {e : FEnv V} {s s' : CSt V} (h : γ e s) (hb : s'.bool = s.bool) : γ e s' := by
  cases e with
  | bot => exact h.elim
  | env m => intro x b hx; rw [hb]; exact h x b hx

theorem set_sound {e : FEnv V} {s : CSt V} (h : γ e s) (x : V) {v : BVal} {b : Bool} (hv : BVal.γ v b) :
    γ (e.set x v) (s.setB x b) := by
  cases e with
  | bot => exact h.elim
  | env m =>
    cases v with
    | bot => exact hv.elim
    | top =>
      intro y c hy
      simp only [AL.get_del] at hy
      by_cases hyx : y = x
      · simp [hyx] at hy
      · simp only [hyx, if_false] at hy
        simp only [CSt.setB, hyx, if_false]; exact h y c hy
    | tt =>
      intro y c hy
      simp only [AL.get_put] at hy
      by_cases hyx : y = x
      · simp only [hyx, if_true, Option.some.injEq] at hy
        simp only [CSt.setB, hyx, if_true]; rw [← hy]; exact hv
      · simp only [hyx, if_false] at hy
        simp only [CSt.setB, hyx, if_false]; exact h y c hy
    | ff =>
      intro y c hy
      simp only [AL.get_put] at hy
      by_cases hyx : y = x
      · simp only [hyx, if_true, Option.some.injEq] at hy
        simp only [CSt.setB, hyx, if_true]; rw [← hy]; exact hv
      · simp only [hyx, if_false] at hy
        simp only [CSt.setB, hyx, if_false]; exact h y c hy

theorem setB_self (s : CSt V) (x : V) : s.setB x (s.bool x) = s := by
  cases s with
  | mk n b =>
    simp only [CSt.setB, CSt.mk.injEq, true_and]
    funext v; by_cases hv : v = x <;> simp [hv]

/-- a `set` with a value that describes the current value of `x` loses no state -/
theorem set_same_sound {e : FEnv V} {s : CSt V} (h : γ e s) (x : V) {v : BVal}
    (hv : BVal.γ v (s.bool x)) : γ (e.set x v) s := by
  have := set_sound h x hv
  rwa [setB_self] at this

theorem forget1_sound {e : FEnv V} {s : CSt V} (h : γ e s) (x : V) (b : Bool) :
    γ (e.forget1 x) (s.setB x b) := by
  have := set_sound h x (BVal.γ_top b)
  cases e <;> exact this

theorem assumeBool_sound {e : FEnv V} {s : CSt V} (h : γ e s) (x : V) (neg : Bool)
    (hx : s.bool x = !neg) : γ (e.assumeBool x neg) s := by
  apply set_same_sound h
  apply BVal.meet_sound (get_sound h x)
  cases neg <;> simp_all [BVal.γ]

theorem assignBoolVar_sound {e : FEnv V} {s : CSt V} (h : γ e s) (x y : V) (neg : Bool) :
    γ (e.assignBoolVar x y neg) (s.setB x (s.bool y != neg)) := by
  apply set_sound h
  cases neg
  · simpa using get_sound h y
  · simpa using BVal.neg_sound (get_sound h y)

theorem applyBinaryBool_sound {e : FEnv V} {s : CSt V} (h : γ e s) (op : BBin) (x y z : V) :
    γ (applyBinaryBool op e x y z) (s.setB x (op.eval (s.bool y) (s.bool z))) :=
  set_sound h x (BVal.abs_sound op (get_sound h y) (get_sound h z))

theorem isBot_false_of_γ {e : FEnv V} {s : CSt V} (h : γ e s) : e.isBot = false := by
  cases e with
  | bot => exact h.elim
  | env m => rfl

theorem not_γ_of_isBot {e : FEnv V} (h : e.isBot = true) (s : CSt V) : ¬ γ e s := by
  cases e with
  | bot => exact fun h => h
  | env m => simp [isBot] at h

theorem selectBool_sound {e : FEnv V} {s : CSt V} (h : γ e s) (lhs cond b1 b2 : V) :
    γ (e.selectBool lhs cond b1 b2) (s.setB lhs (if s.bool cond then s.bool b1 else s.bool b2)) := by
  unfold selectBool
  rw [isBot_false_of_γ h]
  simp only [Bool.not_false, if_true]
  split
  · rename_i hb; subst hb
    have := assignBoolVar_sound h lhs b1 false
    simpa using this
  · split
    · rename_i hb
      -- cond cannot be true
      have hc : s.bool cond = false := by
        cases hcv : s.bool cond
        · rfl
        · exact absurd (assumeBool_sound h cond false (by simpa using hcv)) (not_γ_of_isBot hb s)
      rw [hc]; exact set_sound h lhs (get_sound h b2)
    · split
      · rename_i hb
        have hc : s.bool cond = true := by
          cases hcv : s.bool cond
          · exact absurd (assumeBool_sound h cond true (by simpa using hcv)) (not_γ_of_isBot hb s)
          · rfl
        rw [hc]; exact set_sound h lhs (get_sound h b1)
      · apply set_sound h
        cases s.bool cond
        · exact BVal.join_r _ (get_sound h b2)
        · exact BVal.join_l _ (get_sound h b1)
end FEnv

end Fct
end Dom
end Crab
