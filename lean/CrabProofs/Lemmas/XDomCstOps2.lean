import CrabProofs.Lemmas.XDomCstOps
import CrabProofs.Lemmas.Interval

/-!
  `constant_domain` (model `Crab.CDom`): `apply`, `select`, casts, `entails`, `at`,
  `to_linear_constraint_system`.
-/
namespace Crab
namespace CDom
open XDom Lin

local notation "CL" => cstLattice

/-- the `switch` of `apply(arith_operation_t, …)` over-approximates the concrete operation -/
theorem arithEval_sound (op : ArithOp) {yc zc : Crab.Cst} {a b c : Int} (ha : Crab.Cst.mem a yc)
    (hb : Crab.Cst.mem b zc) (hc : op.conc a b = some c) : Crab.Cst.mem c (arithEval op yc zc) := by
  cases op <;> simp only [ArithOp.conc] at hc <;> simp only [arithEval]
  · cases hc; exact C08.cst_add_sound _ _ _ _ ha hb
  · cases hc; exact C08.cst_sub_sound _ _ _ _ ha hb
  · cases hc; exact C08.cst_mul_sound _ _ _ _ ha hb
  · split at hc
    · cases hc
    · rename_i h0; cases hc; exact C08.cst_sdiv_sound _ _ _ _ ha hb h0
  · split at hc
    · rename_i h0; cases hc; exact C08.cst_udiv_sound _ _ _ _ ha hb h0.2
    · cases hc
  · split at hc
    · cases hc
    · rename_i h0; cases hc; exact C08.cst_srem_sound _ _ _ _ ha hb h0
  · split at hc
    · rename_i h0; cases hc; exact C08.cst_urem_sound _ _ _ _ ha hb h0.2
    · cases hc

/-- the `switch` of `apply(bitwise_operation_t, …)` over-approximates the concrete operation -/
theorem bitEval_sound (op : BitOp) {yc zc : Crab.Cst} {a b c : Int} (ha : Crab.Cst.mem a yc)
    (hb : Crab.Cst.mem b zc) (hc : op.conc a b = some c) : Crab.Cst.mem c (bitEval op yc zc) := by
  cases op <;> simp only [BitOp.conc] at hc <;> simp only [bitEval]
  · cases hc; exact C08.cst_and_sound _ _ _ _ ha hb
  · cases hc; exact C08.cst_or_sound _ _ _ _ ha hb
  · cases hc; exact C08.cst_xor_sound _ _ _ _ ha hb
  · split at hc
    · rename_i h0; cases hc; exact C08.cst_shl_sound _ _ _ _ ha hb h0.1 h0.2
    · cases hc
  · split at hc
    · rename_i h0; cases hc; exact C08.cst_lshr_sound _ _ _ _ ha hb h0.2.1 h0.2.2
    · cases hc
  · split at hc
    · rename_i h0; cases hc; exact C08.cst_ashr_sound _ _ _ _ ha hb h0.1 h0.2
    · cases hc

namespace Env

theorem apply_inv {e : Env} (he : e.Inv) {x : Var} (hx : x < 2 ^ 64) (v : Crab.Cst) :
    (if e.isBot then e else e.set x v).Inv := by
  split
  · exact he
  · exact set_inv he hx v

theorem applyVar_sound {e : Env} (he : e.Inv) {σ : State} (hg : e.γ σ) (op : ArithOp) {x : Var}
    (hx : x < 2 ^ 64) (y z : Var) {c : Int} (hc : op.conc (σ y) (σ z) = some c) :
    (e.applyVar op x y z).γ (upd σ x c) := by
  unfold applyVar; simp only [hg.1, Bool.false_eq_true, if_false]
  exact set_sound he hg hx (arithEval_sound op (get_mem hg y) (get_mem hg z) hc)

theorem applyCst_sound {e : Env} (he : e.Inv) {σ : State} (hg : e.γ σ) (op : ArithOp) {x : Var}
    (hx : x < 2 ^ 64) (y : Var) (k : Int) {c : Int} (hc : op.conc (σ y) k = some c) :
    (e.applyCst op x y k).γ (upd σ x c) := by
  unfold applyCst; simp only [hg.1, Bool.false_eq_true, if_false]
  exact set_sound he hg hx (arithEval_sound op (get_mem hg y) rfl hc)

theorem applyBitVar_sound {e : Env} (he : e.Inv) {σ : State} (hg : e.γ σ) (op : BitOp) {x : Var}
    (hx : x < 2 ^ 64) (y z : Var) {c : Int} (hc : op.conc (σ y) (σ z) = some c) :
    (e.applyBitVar op x y z).γ (upd σ x c) := by
  unfold applyBitVar; simp only [hg.1, Bool.false_eq_true, if_false]
  exact set_sound he hg hx (bitEval_sound op (get_mem hg y) (get_mem hg z) hc)

theorem applyBitCst_sound {e : Env} (he : e.Inv) {σ : State} (hg : e.γ σ) (op : BitOp) {x : Var}
    (hx : x < 2 ^ 64) (y : Var) (k : Int) {c : Int} (hc : op.conc (σ y) k = some c) :
    (e.applyBitCst op x y k).γ (upd σ x c) := by
  unfold applyBitCst; simp only [hg.1, Bool.false_eq_true, if_false]
  exact set_sound he hg hx (bitEval_sound op (get_mem hg y) rfl hc)

/-! ### `select` -/

theorem select_inv {e : Env} (he : e.Inv) {lhs : Var} (hx : lhs < 2 ^ 64) (cond : Lin.Cst) (e1 e2 : Expr) :
    (e.select lhs cond e1 e2).Inv := by
  unfold select
  split
  · exact he
  · split
    · exact assign_inv he hx e2
    · split
      · exact assign_inv he hx e1
      · exact set_inv he hx _

/-- `select(lhs, cond, e1, e2)` -/
theorem select_sound {e : Env} (he : e.Inv) {σ : State} (hg : e.γ σ) {lhs : Var} (hx : lhs < 2 ^ 64)
    {cond : Lin.Cst} (hc : CstOk cond) (e1 e2 : Expr) :
    (e.select lhs cond e1 e2).γ (upd σ lhs (if cond.sat σ then e1.eval σ else e2.eval σ)) := by
  unfold select
  simp only [hg.1, Bool.false_eq_true, if_false]
  split
  · rename_i hb
    have hn : ¬ cond.sat σ := fun hs =>
      not_γ_of_bot hb σ (add_sound he hg (single_ok hc) (sat_single hs))
    simp only [hn, if_false]
    exact assign_sound he hg hx e2
  · split
    · rename_i hb
      have hs : cond.sat σ := by
        apply Classical.byContradiction
        intro hn
        exact not_γ_of_bot hb σ (add_sound he hg (single_ok (cstOk_negate hc))
          (sat_single ((Lin.Cst.sat_negate cond σ).2 hn)))
      simp only [hs, if_true]
      exact assign_sound he hg hx e1
    · apply set_sound he hg hx
      apply C08.cst_join_upper
      by_cases hs : cond.sat σ
      · simp only [hs, if_true]; exact Or.inl (eval_sound hg e1)
      · simp only [hs, if_false]; exact Or.inr (eval_sound hg e2)

/-! ### casts -/

theorem intCast_inv {e : Env} (he : e.Inv) (zext : Bool) (bw : Nat) {dst : Var} (hd : dst < 2 ^ 64) (src : Var) :
    (e.intCast zext bw dst src).Inv := by
  unfold intCast
  split
  · exact add_inv (assign_inv he hd _) (single_ok (cstOk_var_subNum hd _ _))
  · exact assign_inv he hd _

/-- integer casts between integer variables (`assign`, plus `dst <= 2^bw - 1` for `zext`) -/
theorem intCast_sound {e : Env} (he : e.Inv) {σ : State} (hg : e.γ σ) (zext : Bool) (bw : Nat) {dst : Var}
    (hd : dst < 2 ^ 64) (src : Var) (hz : zext = true → σ src ≤ 2 ^ bw - 1) :
    (e.intCast zext bw dst src).γ (upd σ dst (σ src)) := by
  unfold intCast
  have h1 : (e.assign dst (Expr.var src)).γ (upd σ dst (σ src)) := by
    have := assign_sound he hg hd (Expr.var src)
    rwa [eval_var] at this
  split
  · rename_i hzx
    apply add_sound (assign_inv he hd _) h1 (single_ok (cstOk_var_subNum hd _ _))
    apply sat_single
    have := hz hzx
    simp only [Lin.Cst.sat]
    rw [Expr.eval_subNum, eval_var, upd_same]
    omega
  · exact h1

/-! ### `entails`, `at`, `to_linear_constraint_system` -/

theorem entailFn_sound {e : Env} (he : e.Inv) {σ : State} (hg : e.γ σ) {c : Lin.Cst} (hc : CstOk c)
    (h : entailFn e c = true) : c.sat σ := by
  apply Classical.byContradiction
  intro hn
  exact not_γ_of_bot h σ (add_sound he hg (single_ok (cstOk_negate hc))
    (sat_single ((Lin.Cst.sat_negate c σ).2 hn)))

/-- `entails(cst)`: a yes answer holds in every state of `γ` -/
theorem entails_sound {e : Env} (he : e.Inv) {σ : State} (hg : e.γ σ) {c : Lin.Cst} (hc : CstOk c)
    (h : e.entails c = true) : c.sat σ := by
  unfold entails at h
  simp only [hg.1, Bool.false_eq_true, if_false] at h
  split at h
  · rename_i ht; exact Lin.Cst.sat_of_isTautology ht σ
  · split at h
    · cases h
    · split at h
      · rename_i hk
        rw [List.all_eq_true] at h
        obtain ⟨m1, m2⟩ := mem_eq_split c
        exact sat_of_eq_split hk (entailFn_sound he hg (cstOk_leq hc) (h _ m1))
          (entailFn_sound he hg (cstOk_scale_leq hc (-1)) (h _ m2))
      · exact entailFn_sound he hg hc h

/-- `at(v)` contains the value of `v` in every state of `γ` -/
theorem atItv_sound {e : Env} {σ : State} (hg : e.γ σ) (x : Var) : Itv.mem (σ x) (e.atItv x) := by
  unfold atItv
  simp only [hg.1, Bool.false_eq_true, if_false]
  have := get_mem hg x
  cases hv : e.get x with
  | bot => rw [hv] at this; exact absurd this (by simp [Crab.Cst.mem])
  | top => exact Itv.mem_top _
  | val n => rw [hv] at this; simp only [Crab.Cst.mem] at this; exact (Itv.mem_single _ _).2 this

theorem bindingCst_sound (k : Var) (v : Crab.Cst) (c : Lin.Cst) (h : bindingCst (k, v) = some c) (σ : State)
    (hm : Crab.Cst.mem (σ k) v) : c.sat σ := by
  unfold bindingCst at h
  cases v with
  | bot => simp at h
  | top => simp at h
  | val n =>
    simp only [Option.some.injEq] at h
    subst h
    simp only [Crab.Cst.mem] at hm
    simp only [Lin.Cst.sat]
    rw [Expr.eval_subNum, eval_var]
    omega

/-- `to_linear_constraint_system()` holds in every state of `γ` -/
theorem toCsts_sound {e : Env} (he : e.Inv) {σ : State} (hg : e.γ σ) : Sys.sat e.toCsts σ :=
  XDom.Env.exportCsts_sound bindingCst bindingCst_sound he hg

end Env
end CDom
end Crab
