import CrabModel.Transform.TIR

/-!
  Basic facts about the concrete semantics of `CrabModel/Transform/TIR.lean`:
  expressions only read their variables, a statement only reads its uses and only writes its
  defs, and the executable `run` only produces executions of the relation `Exec`.
-/
namespace Crab
namespace TIR

theorem State.set_same (σ : State) (x : Var) (v : Int) : (σ.set x v) x = v := by
  simp [State.set]

theorem State.set_other (σ : State) (x y : Var) (v : Int) (h : y ≠ x) : (σ.set x v) y = σ y := by
  simp [State.set, h]

theorem evalTerms_congr (ts : List (Int × Var)) (σ σ' : State)
    (h : ∀ y, y ∈ ts.map (·.2) → σ y = σ' y) : evalTerms ts σ = evalTerms ts σ' := by
  induction ts with
  | nil => rfl
  | cons t r ih =>
    obtain ⟨k, x⟩ := t
    simp only [evalTerms]
    rw [h x (by simp), ih (fun y hy => h y (by simp [hy]))]

theorem Lin.eval_congr (e : Lin) (σ σ' : State) (h : ∀ y, y ∈ e.vars → σ y = σ' y) :
    e.eval σ = e.eval σ' := by
  unfold Lin.eval
  rw [evalTerms_congr e.ts σ σ' h]

theorem Cst.holds_congr (c : Cst) (σ σ' : State) (h : ∀ y, y ∈ c.vars → σ y = σ' y) :
    c.holds σ = c.holds σ' := by
  unfold Cst.holds
  rw [Lin.eval_congr c.e σ σ' h]

theorem Opd.eval_congr (a : Opd) (σ σ' : State) (h : ∀ y, y ∈ a.vars → σ y = σ' y) :
    a.eval σ = a.eval σ' := by
  cases a with
  | var v => exact h v (by simp [Opd.vars])
  | const c => rfl

/-- two step results are related: same event, same final outcome, and the successor states
    agree wherever `R` holds -/
def StepRes.Rel (R : Var → Prop) : StepRes → StepRes → Prop
  | .cont a e, .cont b e' => e = e' ∧ ∀ y, R y → a y = b y
  | .stop e o, .stop e' o' => e = e' ∧ o = o'
  | _, _ => False

/-- a statement reads only its uses: from states that agree on the uses the results agree on
    the defs and on every variable on which the states agreed -/
theorem stepStmt_agree (s : Stmt) (σ σ' : State) (hv : Int)
    (h : ∀ y, y ∈ s.uses → σ y = σ' y) :
    StepRes.Rel (fun y => y ∈ s.defs ∨ σ y = σ' y) (stepStmt s σ hv) (stepStmt s σ' hv) := by
  cases s with
  | assign x e =>
    have he : e.eval σ = e.eval σ' := Lin.eval_congr e σ σ' (fun y hy => h y (by simpa [Stmt.uses] using hy))
    simp only [stepStmt, StepRes.Rel, true_and]
    intro y hy
    by_cases hyx : y = x
    · subst hyx; simp [State.set, he]
    · simp only [State.set, hyx, if_false]
      rcases hy with hy | hy
      · simp [Stmt.defs] at hy; exact absurd hy hyx
      · exact hy
  | bin op x a b =>
    have ha : a.eval σ = a.eval σ' := Opd.eval_congr a σ σ' (fun y hy => h y (by simp [Stmt.uses, hy]))
    have hb : b.eval σ = b.eval σ' := Opd.eval_congr b σ σ' (fun y hy => h y (by simp [Stmt.uses, hy]))
    simp only [stepStmt, ha, hb]
    cases hop : op.eval (a.eval σ') (b.eval σ') with
    | none => simp [StepRes.Rel]
    | some v =>
      simp only [StepRes.Rel, true_and]
      intro y hy
      by_cases hyx : y = x
      · subst hyx; simp [State.set]
      · simp only [State.set, hyx, if_false]
        rcases hy with hy | hy
        · simp [Stmt.defs] at hy; exact absurd hy hyx
        · exact hy
  | havoc x =>
    simp only [stepStmt, StepRes.Rel, true_and]
    intro y hy
    by_cases hyx : y = x
    · subst hyx; simp [State.set]
    · simp only [State.set, hyx, if_false]
      rcases hy with hy | hy
      · simp [Stmt.defs] at hy; exact absurd hy hyx
      · exact hy
  | assume c =>
    have hc : c.holds σ = c.holds σ' := Cst.holds_congr c σ σ' (fun y hy => h y (by simpa [Stmt.uses] using hy))
    simp only [stepStmt, hc]
    cases c.holds σ' with
    | true =>
      simp only [if_true, StepRes.Rel, true_and]
      intro y hy
      rcases hy with hy | hy
      · simp [Stmt.defs] at hy
      · exact hy
    | false => simp [StepRes.Rel]
  | assert c =>
    have hc : c.holds σ = c.holds σ' := Cst.holds_congr c σ σ' (fun y hy => h y (by simpa [Stmt.uses] using hy))
    simp only [stepStmt, hc]
    cases c.holds σ' with
    | true =>
      simp only [if_true, StepRes.Rel, true_and]
      intro y hy
      rcases hy with hy | hy
      · simp [Stmt.defs] at hy
      · exact hy
    | false => simp [StepRes.Rel]
  | select x c e1 e2 =>
    have hc : c.holds σ = c.holds σ' := Cst.holds_congr c σ σ' (fun y hy => h y (by simp [Stmt.uses, hy]))
    have h1 : e1.eval σ = e1.eval σ' := Lin.eval_congr e1 σ σ' (fun y hy => h y (by simp [Stmt.uses, hy]))
    have h2 : e2.eval σ = e2.eval σ' := Lin.eval_congr e2 σ σ' (fun y hy => h y (by simp [Stmt.uses, hy]))
    simp only [stepStmt, StepRes.Rel, true_and, hc, h1, h2]
    intro y hy
    by_cases hyx : y = x
    · subst hyx; simp [State.set]
    · simp only [State.set, hyx, if_false]
      rcases hy with hy | hy
      · simp [Stmt.defs] at hy; exact absurd hy hyx
      · exact hy
  | unreachable => simp [stepStmt, StepRes.Rel]

/-- a statement writes only its defs -/
theorem stepStmt_frame (s : Stmt) (σ σ' : State) (hv : Int) (ev : Option Event)
    (h : stepStmt s σ hv = .cont σ' ev) (y : Var) (hy : y ∉ s.defs) : σ' y = σ y := by
  cases s with
  | assign x e =>
    simp only [stepStmt, StepRes.cont.injEq] at h
    rw [← h.1]; simp [Stmt.defs] at hy; simp [State.set, hy]
  | bin op x a b =>
    simp only [stepStmt] at h
    cases hop : op.eval (a.eval σ) (b.eval σ) with
    | none => rw [hop] at h; cases h
    | some v =>
      rw [hop] at h
      simp only [StepRes.cont.injEq] at h
      rw [← h.1]; simp [Stmt.defs] at hy; simp [State.set, hy]
  | havoc x =>
    simp only [stepStmt, StepRes.cont.injEq] at h
    rw [← h.1]; simp [Stmt.defs] at hy; simp [State.set, hy]
  | assume c =>
    simp only [stepStmt] at h
    split at h
    · simp only [StepRes.cont.injEq] at h; rw [← h.1]
    · cases h
  | assert c =>
    simp only [stepStmt] at h
    split at h
    · simp only [StepRes.cont.injEq] at h; rw [← h.1]
    · cases h
  | select x c e1 e2 =>
    simp only [stepStmt, StepRes.cont.injEq] at h
    rw [← h.1]; simp [Stmt.defs] at hy; simp [State.set, hy]
  | unreachable => simp [stepStmt] at h

/-- a statement that defines a variable emits no event -/
theorem stepStmt_def_noevent (s : Stmt) (σ σ' : State) (hv : Int) (ev : Option Event)
    (h : stepStmt s σ hv = .cont σ' ev) (hd : s.defs ≠ []) : ev = none := by
  cases s with
  | assign x e => simp only [stepStmt, StepRes.cont.injEq] at h; exact h.2.symm
  | bin op x a b =>
    simp only [stepStmt] at h
    cases hop : op.eval (a.eval σ) (b.eval σ) with
    | none => rw [hop] at h; cases h
    | some v => rw [hop] at h; simp only [StepRes.cont.injEq] at h; exact h.2.symm
  | havoc x => simp only [stepStmt, StepRes.cont.injEq] at h; exact h.2.symm
  | assume c => simp [Stmt.defs] at hd
  | assert c => simp [Stmt.defs] at hd
  | select x c e1 e2 => simp only [stepStmt, StepRes.cont.injEq] at h; exact h.2.symm
  | unreachable => simp [Stmt.defs] at hd

/-- the only way a statement with a definition can stop is a division by zero -/
theorem stepStmt_def_stop (s : Stmt) (σ : State) (hv : Int) (ev : Option Event) (o : Outcome)
    (h : stepStmt s σ hv = .stop ev o) (hd : s.defs ≠ []) : ev = none ∧ o = .divzero := by
  cases s with
  | assign x e => simp [stepStmt] at h
  | bin op x a b =>
    simp only [stepStmt] at h
    cases hop : op.eval (a.eval σ) (b.eval σ) with
    | none => rw [hop] at h; simp only [StepRes.stop.injEq] at h; exact ⟨h.1.symm, h.2.symm⟩
    | some v => rw [hop] at h; cases h
  | havoc x => simp [stepStmt] at h
  | assume c => simp [Stmt.defs] at hd
  | assert c => simp [Stmt.defs] at hd
  | select x c e1 e2 => simp [stepStmt] at h
  | unreachable => simp [Stmt.defs] at hd

/-- statements whose execution can never stop (no division that may be by zero) -/
def Stmt.total : Stmt → Bool
  | .assign _ _ => true
  | .bin .sdiv _ _ (.const c) => c != 0
  | .bin .sdiv _ _ (.var _) => false
  | .bin _ _ _ _ => true
  | .havoc _ => true
  | .select _ _ _ _ => true
  | _ => false

theorem stepStmt_total (s : Stmt) (σ : State) (hv : Int) (h : s.total = true) :
    ∃ σ', stepStmt s σ hv = .cont σ' none := by
  cases s with
  | assign x e => exact ⟨_, rfl⟩
  | bin op x a b =>
    cases op with
    | add => exact ⟨_, rfl⟩
    | sub => exact ⟨_, rfl⟩
    | mul => exact ⟨_, rfl⟩
    | sdiv =>
      cases b with
      | var v => simp [Stmt.total] at h
      | const c =>
        simp [Stmt.total] at h
        refine ⟨σ.set x (Int.tdiv (a.eval σ) c), ?_⟩
        simp [stepStmt, BinOp.eval, Opd.eval, h]
  | havoc x => exact ⟨_, rfl⟩
  | assume c => simp [Stmt.total] at h
  | assert c => simp [Stmt.total] at h
  | select x c e1 e2 => exact ⟨_, rfl⟩
  | unreachable => simp [Stmt.total] at h

/-! ### the executable semantics only produces executions of `Exec` -/

theorem run_sound (P : Prog) (O : Oracle) (halt : Clk → Label → State → Bool) :
    ∀ (n : Nat) (k : Clk) (stmts : List Stmt) (l : Label) (σ : State) (t : List Event) (o : Outcome),
      run P O halt n k stmts l σ = .done t o → Exec P stmts l σ t o := by
  intro n
  induction n with
  | zero => intro k stmts l σ t o h; simp [run] at h
  | succ n ih =>
    intro k stmts l σ t o h
    cases stmts with
    | nil =>
      simp only [run] at h
      split at h
      · cases h
      · split at h
        · rename_i hex
          simp only [Res.done.injEq] at h
          rw [← h.1, ← h.2]
          exact Exec.exit hex
        · rename_i hex
          have hex' : P.isExit l = false := by simpa using hex
          split at h
          · rename_i hs
            simp only [Res.done.injEq] at h
            rw [← h.1, ← h.2]
            exact Exec.stuck hex' hs
          · split at h
            · rename_i hmem
              exact Exec.goto hex' (by simpa using hmem) (ih _ _ _ _ _ _ h)
            · cases h
    | cons s rest =>
      simp only [run] at h
      split at h
      · rename_i σ' ev hstep
        cases hr : run P O halt n _ rest l σ' with
        | done t' o' =>
          rw [hr] at h
          simp only [Res.prepend, Res.done.injEq] at h
          rw [← h.1, ← h.2]
          exact Exec.cont _ hstep (ih _ _ _ _ _ _ hr)
        | atEnd t' l' σ'' k' => rw [hr] at h; simp [Res.prepend] at h
        | fuel t' => rw [hr] at h; simp [Res.prepend] at h
      · rename_i ev o' hstep
        simp only [Res.done.injEq] at h
        rw [← h.1, ← h.2]
        exact Exec.stop _ hstep

theorem find_map_label (bs : List Block) (f : Block → Block) (hf : ∀ b, (f b).label = b.label) (l : Label) :
    (bs.map f).find? (fun b => b.label == l) = (bs.find? (fun b => b.label == l)).map f := by
  induction bs with
  | nil => rfl
  | cons b r ih =>
    simp only [List.map_cons, List.find?_cons, hf]
    cases b.label == l with
    | true => rfl
    | false => exact ih

theorem stepStmt_stop_not_exit {s : Stmt} {σ : State} {hv : Int} {ev : Option Event} {o : Outcome}
    (h : stepStmt s σ hv = .stop ev o) : ∀ outs, o ≠ .exit outs := by
  intro outs hc
  subst hc
  cases s with
  | assign x e => simp [stepStmt] at h
  | bin op x a b =>
    simp only [stepStmt] at h
    split at h <;> simp at h
  | havoc x => simp [stepStmt] at h
  | assume c => simp only [stepStmt] at h; split at h <;> simp at h
  | assert c => simp only [stepStmt] at h; split at h <;> simp at h
  | select x c e1 e2 => simp [stepStmt] at h
  | unreachable => simp [stepStmt] at h

/-! ### inversion of `Exec` -/

theorem Exec.cons_inv {P : Prog} {s : Stmt} {rest : List Stmt} {l : Label} {σ : State} {t : List Event} {o : Outcome}
    (h : Exec P (s :: rest) l σ t o) :
    ∃ hv, (∃ σ' ev t', stepStmt s σ hv = .cont σ' ev ∧ Exec P rest l σ' t' o ∧ t = evs ev ++ t') ∨
          (∃ ev, stepStmt s σ hv = .stop ev o ∧ t = evs ev) := by
  generalize hc : s :: rest = ss at h
  cases h with
  | exit _ => cases hc
  | goto _ _ _ => cases hc
  | stuck _ _ => cases hc
  | cont hv hstep hrest =>
    simp only [List.cons.injEq] at hc
    obtain ⟨rfl, rfl⟩ := hc
    exact ⟨hv, Or.inl ⟨_, _, _, hstep, hrest, rfl⟩⟩
  | stop hv hstep =>
    simp only [List.cons.injEq] at hc
    obtain ⟨rfl, rfl⟩ := hc
    exact ⟨hv, Or.inr ⟨_, hstep, rfl⟩⟩

theorem Exec.nil_inv {P : Prog} {l : Label} {σ : State} {t : List Event} {o : Outcome}
    (h : Exec P [] l σ t o) :
    (P.isExit l = true ∧ t = [] ∧ o = .exit (P.outputs.map σ)) ∨
    (P.isExit l = false ∧ ∃ l', l' ∈ P.succsOf l ∧ Exec P (P.stmtsOf l') l' σ t o) ∨
    (P.isExit l = false ∧ P.succsOf l = [] ∧ t = [] ∧ o = .blocked) := by
  generalize hc : ([] : List Stmt) = ss at h
  cases h with
  | exit hex => exact Or.inl ⟨hex, rfl, rfl⟩
  | goto hex hmem hrest => exact Or.inr (Or.inl ⟨hex, _, hmem, hrest⟩)
  | stuck hex hs => exact Or.inr (Or.inr ⟨hex, hs, rfl, rfl⟩)
  | cont _ _ _ => cases hc
  | stop _ _ => cases hc

end TIR
end Crab
