import CrabProofs.Lemmas.RelDomMat
import CrabProofs.Lemmas.ZonesExact

/-!
  The operations of `CrabModel/Dom/ZonesOps.lean` on the canonical zone model: every statement is
  the EXACT post-image (`Stmt.exec_exact`), hence sound; bottom / top tests; lifting to `ZVal`.
  Everything is derived from the C12 lemmas of `Lemmas/ZonesExact.lean` (closure, `forget_exact`,
  `assumeAll_exact`, `leq_iff`, `join_upper/least`, `meet_exact`).
-/
namespace Crab
namespace Zones
open Dbm

variable {n : Nat}

/-! ### bottom and top -/

theorem bot_not_γ (σ : State n) : ¬ γ (bot : Zone n) σ := by
  intro h
  have := ((Mat.addEdge_sat _ _ _ _ _).1 h).2
  simp at this

theorem isBottom_bot : isBottom (bot : Zone n) = true :=
  (bottom_iff_unsat _).2 (fun ⟨σ, h⟩ => bot_not_γ σ h)

theorem isTop_iff (z : Zone n) : isTop z = true ↔ ∀ σ, γ z σ := by
  unfold isTop
  rw [leq_iff]
  exact ⟨fun h σ => h σ (top_γ σ), fun h σ _ => h σ⟩

theorem isBottom_iff (z : Zone n) : isBottom z = true ↔ ∀ σ, ¬ γ z σ := by
  rw [bottom_iff_unsat]
  exact ⟨fun h σ hσ => h ⟨σ, hσ⟩, fun h ⟨σ, hσ⟩ => h σ hσ⟩

/-! ### forget of several variables, project -/

theorem updS_updS (σ : State n) (x : Fin n) (t s : Int) : updS (updS σ x t) x s = updS σ x s := by
  funext y; unfold updS; split <;> rfl

theorem updS_eq_of_agree {σ σ' : State n} {x : Fin n} (h : ∀ y, y ≠ x → σ' y = σ y) :
    updS σ' x (σ x) = σ := by
  funext y; unfold updS; split
  · rename_i e; rw [e]
  · rename_i e; exact h y e

/-- forgetting `x` describes every state that differs on `x` only -/
theorem forget_sound' (z : Zone n) (x : Fin n) (σ σ' : State n) (h : γ z σ)
    (hσ : ∀ y, y ≠ x → σ' y = σ y) : γ (forget z x) σ' := by
  apply forget_sound z x σ' (σ x)
  rw [updS_eq_of_agree hσ]; exact h

theorem forgetAll_cons (z : Zone n) (x : Fin n) (xs : List (Fin n)) :
    forgetAll z (x :: xs) = forgetAll (forget z x) xs := rfl

theorem forgetAll_sound (xs : List (Fin n)) (z : Zone n) (σ σ' : State n) (h : γ z σ)
    (hσ : ∀ y, y ∉ xs → σ' y = σ y) : γ (forgetAll z xs) σ' := by
  induction xs generalizing z σ with
  | nil =>
    have : σ' = σ := funext fun y => hσ y (by simp)
    rw [this]; exact h
  | cons x xs ih =>
    rw [forgetAll_cons]
    apply ih (forget z x) (updS σ x (σ' x))
      (forget_sound' z x σ _ h (fun y hy => by simp [updS, hy]))
    intro y hy
    unfold updS; split
    · rename_i e; rw [e]
    · rename_i e; exact hσ y (by simp [e, hy])

/-- `forget(vars)` is the exact projection -/
theorem forgetAll_exact (xs : List (Fin n)) (z : Zone n) (σ' : State n) :
    γ (forgetAll z xs) σ' ↔ ∃ σ, γ z σ ∧ ∀ y, y ∉ xs → σ' y = σ y := by
  constructor
  · intro h
    induction xs generalizing z with
    | nil => exact ⟨σ', h, fun _ _ => rfl⟩
    | cons x xs ih =>
      rw [forgetAll_cons] at h
      obtain ⟨σ1, h1, e1⟩ := ih (forget z x) h
      obtain ⟨t, ht⟩ := (forget_exact z x σ1).1 h1
      refine ⟨updS σ1 x t, ht, fun y hy => ?_⟩
      have hy' : y ≠ x ∧ y ∉ xs := by simpa using hy
      rw [e1 y hy'.2]; simp [updS, hy'.1]
  · rintro ⟨σ, h, hσ⟩
    exact forgetAll_sound xs z σ σ' h hσ

theorem not_mem_projList (keep : List (Fin n)) (y : Fin n) :
    y ∉ ((List.finRange n).filter fun x => !keep.contains x) ↔ y ∈ keep := by
  simp [List.mem_filter, List.mem_finRange]

/-- `project(vars)` is the exact projection on the kept variables -/
theorem project_exact (keep : List (Fin n)) (z : Zone n) (σ' : State n) :
    γ (project z keep) σ' ↔ ∃ σ, γ z σ ∧ ∀ y, y ∈ keep → σ' y = σ y := by
  unfold project
  rw [forgetAll_exact]
  constructor
  · rintro ⟨σ, h, e⟩
    exact ⟨σ, h, fun y hy => e y ((not_mem_projList keep y).2 hy)⟩
  · rintro ⟨σ, h, e⟩
    exact ⟨σ, h, fun y hy => e y ((not_mem_projList keep y).1 hy)⟩

/-! ### assignments -/

/-- `x := k` is the exact post-image -/
theorem assignCst_exact (z : Zone n) (x : Fin n) (k : Int) (σ' : State n) :
    γ (assignCst z x k) σ' ↔ ∃ σ, γ z σ ∧ σ' = updS σ x k := by
  unfold assignCst
  rw [assumeAll_exact, forget_exact]
  constructor
  · rintro ⟨⟨t, ht⟩, hc⟩
    have h1 := hc (.ub x k) (by simp)
    have h2 := hc (.lb x (-k)) (by simp)
    simp only [Cst.sat] at h1 h2
    refine ⟨updS σ' x t, ht, ?_⟩
    rw [updS_updS]
    funext y; unfold updS; split
    · rename_i e; rw [e]; omega
    · rfl
  · rintro ⟨σ, h, rfl⟩
    refine ⟨⟨σ x, ?_⟩, ?_⟩
    · rw [updS_updS, updS_self]; exact h
    · intro c hc
      simp only [List.mem_cons, List.not_mem_nil, or_false] at hc
      rcases hc with rfl | rfl <;> simp [Cst.sat, updS]

theorem ext_shiftVec (σ' : State n) (x : Fin n) (k : Int) :
    (fun i => ext σ' i - shiftVec x k i) = ext (updS σ' x (σ' x - k)) := by
  funext i
  refine Fin.cases ?_ (fun y => ?_) i
  · simp [shiftVec, Fin.succ_ne_zero x |>.symm]
  · by_cases e : y = x
    · subst e; simp [shiftVec, updS]
    · simp [shiftVec, updS, e]

/-- `x := y + k` (including `x := x + k`) is the exact post-image -/
theorem assignVar_exact (z : Zone n) (x y : Fin n) (k : Int) (σ' : State n) :
    γ (assignVar z x y k) σ' ↔ ∃ σ, γ z σ ∧ σ' = updS σ x (σ y + k) := by
  unfold assignVar
  split
  · rename_i e; subst e
    unfold γ
    rw [Mat.shiftBy_sat, ext_shiftVec]
    constructor
    · intro h
      refine ⟨_, h, ?_⟩
      rw [updS_updS]
      funext v; unfold updS; split
      · rename_i e; rw [e]; simp
      · rfl
    · rintro ⟨σ, h, rfl⟩
      have : updS (updS σ x (σ x + k)) x (updS σ x (σ x + k) x - k) = σ := by
        rw [updS_updS]
        funext v; unfold updS; split
        · rename_i e; rw [e]; simp
        · rfl
      rw [this]; exact h
  · rename_i hne
    have hyx : y ≠ x := fun e => hne e.symm
    rw [assumeAll_exact, forget_exact]
    constructor
    · rintro ⟨⟨t, ht⟩, hc⟩
      have h1 := hc (.diff x y k) (by simp)
      have h2 := hc (.diff y x (-k)) (by simp)
      simp only [Cst.sat] at h1 h2
      refine ⟨updS σ' x t, ht, ?_⟩
      rw [updS_updS]
      funext v
      by_cases e : v = x
      · rw [e]; simp [updS, hyx]; omega
      · simp [updS, e]
    · rintro ⟨σ, h, rfl⟩
      refine ⟨⟨σ x, ?_⟩, ?_⟩
      · rw [updS_updS, updS_self]; exact h
      · intro c hc
        simp only [List.mem_cons, List.not_mem_nil, or_false] at hc
        rcases hc with rfl | rfl <;> simp [Cst.sat, updS, hyx] <;> omega

/-! ### statements -/

/-- **every statement is the exact post-image** of its concrete relation (best transformer) -/
theorem Stmt.exec_exact (st : Stmt n) (z : Zone n) (σ' : State n) :
    γ (st.exec z) σ' ↔ ∃ σ, γ z σ ∧ st.rel σ σ' := by
  cases st with
  | assume cs =>
    simp only [Stmt.exec, Stmt.rel]
    rw [assumeAll_exact]
    constructor
    · rintro ⟨h, hc⟩; exact ⟨σ', h, rfl, hc⟩
    · rintro ⟨σ, h, rfl, hc⟩; exact ⟨h, hc⟩
  | assignCst x k => exact assignCst_exact z x k σ'
  | assignVar x y k => exact assignVar_exact z x y k σ'
  | havoc x =>
    simp only [Stmt.exec, Stmt.rel]
    rw [forget_exact]
    constructor
    · rintro ⟨t, ht⟩; exact ⟨_, ht, fun y hy => by simp [updS, hy]⟩
    · rintro ⟨σ, h, e⟩; exact ⟨σ x, by rw [updS_eq_of_agree e]; exact h⟩
  | forget xs => exact forgetAll_exact xs z σ'
  | project keep => exact project_exact keep z σ'

theorem Stmt.exec_sound (st : Stmt n) (z : Zone n) (σ σ' : State n) (h : γ z σ) (hr : st.rel σ σ') :
    γ (st.exec z) σ' := (Stmt.exec_exact st z σ').2 ⟨σ, h, hr⟩

/-! ### values with a bottom flag -/
namespace ZVal

theorem exec_exact (st : Stmt n) (v : ZVal n) (σ' : State n) :
    γv (exec st v) σ' ↔ ∃ σ, γv v σ ∧ st.rel σ σ' := by
  cases v with
  | none => simp [exec, γv]
  | some z => exact Stmt.exec_exact st z σ'

theorem isBottom_iff (v : ZVal n) : isBottom v = true ↔ ∀ σ, ¬ γv v σ := by
  cases v with
  | none => simp [isBottom, γv]
  | some z => exact Zones.isBottom_iff z

theorem isTop_iff (v : ZVal n) : isTop v = true ↔ ∀ σ, γv v σ := by
  cases v with
  | none => exact ⟨fun h => (by cases h), fun h => (h (fun _ => 0)).elim⟩
  | some z => exact Zones.isTop_iff z

theorem leq_iff (a b : ZVal n) : leq a b = true ↔ ∀ σ, γv a σ → γv b σ := by
  cases a with
  | none => simp [leq, γv]
  | some x =>
    cases b with
    | none => simp only [leq, γv]; rw [Zones.isBottom_iff]
    | some y => exact Zones.leq_iff x y

theorem join_upper (a b : ZVal n) (σ : State n) (h : γv a σ ∨ γv b σ) : γv (join a b) σ := by
  cases a with
  | none =>
    rcases h with h | h
    · exact h.elim
    · simpa [join] using h
  | some x =>
    cases b with
    | none =>
      rcases h with h | h
      · exact h
      · exact h.elim
    | some y => exact Zones.join_upper x y σ h

theorem join_least (a b c : ZVal n) (ha : ∀ σ, γv a σ → γv c σ) (hb : ∀ σ, γv b σ → γv c σ)
    (σ : State n) (h : γv (join a b) σ) : γv c σ := by
  cases a with
  | none => exact hb σ (by simpa [join] using h)
  | some x =>
    cases b with
    | none => exact ha σ h
    | some y =>
      cases c with
      | none =>
        have hx := (Zones.isBottom_iff x).2 (fun τ hτ => ha τ hτ)
        have : join (some x) (some y) = some y := by simp [join, Zones.join, hx]
        rw [this] at h; exact hb σ h
      | some w => exact Zones.join_least x y w ha hb σ h

theorem meet_exact (a b : ZVal n) (σ : State n) : γv (meet a b) σ ↔ (γv a σ ∧ γv b σ) := by
  cases a with
  | none => simp [meet, γv]
  | some x =>
    cases b with
    | none => simp [meet, γv]
    | some y => exact Zones.meet_exact x y σ

end ZVal

end Zones
end Crab
