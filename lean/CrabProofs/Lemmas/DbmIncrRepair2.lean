import CrabProofs.Lemmas.DbmIncrRepair

/-!
  The loop invariant of `repair_potential` and its preservation by `removeMin` + the relaxation of
  the successors (`repair_round`).
-/
namespace Crab
namespace DbmIncr
open Dbm Zones

variable {n : Nat}

section
variable (g : Zone n) (p : Fin (n + 1) → Int) (ii jj : Fin (n + 1)) (d0 : Int)

/-- loop invariant; `ex` = the vertex whose successors are being relaxed (none between rounds) -/
structure RInvX (ex : Fin (n + 1) → Prop) (st : RSt n) : Prop where
  hp : ∀ v, st.heap v = true → st.dists v < 0 ∧ st.alt v = p v
  nf : ∀ v, st.alt v = p v → st.heap v = true ∨ st.dists v = 0
  fin : ∀ v, st.alt v ≠ p v → st.alt v = p v + st.dists v ∧ st.dists v < 0 ∧ st.heap v = false
  mono : ∀ f v, st.alt f ≠ p f → st.alt v = p v → st.dists f ≤ st.dists v
  rel : ∀ f d k, st.alt f ≠ p f → ¬ ex f → edge g f d = some k → ¬ (f = ii ∧ d = jj) →
    st.dists d ≤ st.dists f + (p f + k - p d)
  dj : st.dists jj = d0
  jfirst : st.alt jj = p jj → ∀ v, v ≠ jj → st.heap v = false
  sound : ∀ v, st.dists v < 0 → ∀ x : Fin (n + 1) → Int, g.sat x →
    x v - x ii ≤ st.dists v + p v - p ii

/-- additional facts while the successors of `es` are relaxed -/
structure RIn (es : Fin (n + 1)) (st : RSt n) : Prop where
  inv : RInvX g p ii jj d0 (fun f => f = es) st
  jfin : st.alt jj ≠ p jj
  efin : st.alt es ≠ p es
  le_es : ∀ f, st.alt f ≠ p f → st.dists f ≤ st.dists es

/-- descent inside a round: `dists` only decreases, finalised vertices and `alt` are frozen -/
def RLe (st' st : RSt n) : Prop :=
  st'.alt = st.alt ∧ (∀ v, st'.dists v ≤ st.dists v) ∧ ∀ v, st.alt v ≠ p v → st'.dists v = st.dists v

/-- the edge `es → ed` is relaxed -/
def RPost (es ed : Fin (n + 1)) (st : RSt n) : Prop :=
  ∀ k, edge g es ed = some k → ¬ (es = ii ∧ ed = jj) → st.dists ed ≤ st.dists es + (p es + k - p ed)

end

variable {g : Zone n} {p : Fin (n + 1) → Int} {ii jj : Fin (n + 1)} {d0 : Int}

theorem RLe.refl (st : RSt n) : RLe p st st := ⟨rfl, fun _ => Int.le_refl _, fun _ _ => rfl⟩
theorem RLe.trans (a b c : RSt n) (h1 : RLe p a b) (h2 : RLe p b c) : RLe p a c := by
  refine ⟨h1.1.trans h2.1, fun v => Int.le_trans (h1.2.1 v) (h2.2.1 v), fun v hv => ?_⟩
  rw [h1.2.2 v (by rw [h2.1]; exact hv), h2.2.2 v hv]

theorem relaxSucc_step (hpv : ∀ s d k, edge g s d = some k → ¬ (s = ii ∧ d = jj) → 0 ≤ p s + k - p d)
    (es : Fin (n + 1)) (st : RSt n) (ed : Fin (n + 1)) (h : RIn g p ii jj d0 es st) :
    RIn g p ii jj d0 es (relaxSucc g p es st ed) ∧ RLe p (relaxSucc g p es st ed) st ∧
      RPost g p ii jj es ed (relaxSucc g p es st ed) := by
  unfold relaxSucc
  rcases hev : edge g es ed with _ | ev
  · exact ⟨h, RLe.refl _, fun k hk => by rw [hev] at hk; cases hk⟩
  simp only
  obtain ⟨hes1, hes2, _⟩ := h.inv.fin es h.efin
  by_cases hfin : st.alt ed = p ed
  · -- `ed` is not finalised
    simp only [hfin, if_true]
    have hedj : ed ≠ jj := fun e => h.jfin (e ▸ hfin)
    have hede : ed ≠ es := fun e => h.efin (e ▸ hfin)
    have hje : jj ≠ ed := fun e => hedj e.symm
    have hee : es ≠ ed := fun e => hede e.symm
    have hrc : 0 ≤ p es + ev - p ed := hpv es ed ev hev (fun e => hedj e.2)
    have hd_le0 : st.dists ed ≤ 0 := by
      rcases h.inv.nf ed hfin with hh | hh
      · have := (h.inv.hp ed hh).1; omega
      · omega
    by_cases hlt : st.alt es + ev - p ed < st.dists ed
    · simp only [hlt, if_true]
      have hg : st.alt es + ev - p ed = st.dists es + (p es + ev - p ed) := by rw [hes1]; omega
      refine ⟨⟨⟨?_, ?_, ?_, ?_, ?_, ?_, ?_, ?_⟩, h.jfin, h.efin, ?_⟩, ⟨rfl, ?_, ?_⟩, ?_⟩
      · intro v hv
        simp only [fupd] at hv ⊢
        by_cases hve : v = ed
        · subst hve; simp only [if_true]; exact ⟨by omega, hfin⟩
        · simp only [hve, if_false] at hv ⊢; exact h.inv.hp v hv
      · intro v hv
        simp only [fupd]
        by_cases hve : v = ed
        · subst hve; simp
        · simp only [hve, if_false]; exact h.inv.nf v hv
      · intro v hv
        have hve : v ≠ ed := fun e => hv (e ▸ hfin)
        simp only [fupd, hve, if_false]
        exact h.inv.fin v hv
      · intro f v hf hv
        have hfe : f ≠ ed := fun e => hf (e ▸ hfin)
        simp only [fupd, hfe, if_false]
        by_cases hve : v = ed
        · subst hve; simp only [if_true]
          have := h.le_es f hf; omega
        · simp only [hve, if_false]; exact h.inv.mono f v hf hv
      · intro f d k hf hx hk hne
        have hfe : f ≠ ed := fun e => hf (e ▸ hfin)
        simp only [fupd, hfe, if_false]
        have := h.inv.rel f d k hf hx hk hne
        by_cases hde : d = ed
        · subst hde; simp only [if_true]; omega
        · simp only [hde, if_false]; exact this
      · simp only [fupd, hje, if_false]; exact h.inv.dj
      · intro hj; exact absurd hj h.jfin
      · intro v hv x hx
        simp only [fupd] at hv ⊢
        by_cases hve : v = ed
        · subst hve
          simp only [if_true]
          have h1 := h.inv.sound es hes2 x hx
          have h2 := sat_edge hx hev
          omega
        · simp only [hve, if_false] at hv ⊢; exact h.inv.sound v hv x hx
      · intro f hf
        have hfe : f ≠ ed := fun e => hf (e ▸ hfin)
        simp only [fupd, hfe, if_false, hee]
        exact h.le_es f hf
      · intro v
        simp only [fupd]
        by_cases hve : v = ed
        · subst hve; simp only [if_true]; omega
        · simp only [hve, if_false]; exact Int.le_refl _
      · intro v hv
        have hve : v ≠ ed := fun e => hv (e ▸ hfin)
        simp only [fupd, hve, if_false]
      · intro k hk _
        rw [hev] at hk; cases hk
        simp only [fupd, if_true, hee, if_false]
        omega
    · simp only [hlt, if_false]
      refine ⟨h, RLe.refl _, ?_⟩
      intro k hk _
      rw [hev] at hk; cases hk
      rw [hes1] at hlt; omega
  · -- `ed` was finalised before: nothing to do
    simp only [hfin, if_false]
    refine ⟨h, RLe.refl _, ?_⟩
    intro k hk hne
    have := h.le_es ed hfin
    have := hpv es ed k hk hne
    omega

theorem RPost_stable (es ed : Fin (n + 1)) (s s' : RSt n) (hes : s.alt es ≠ p es)
    (h : RPost g p ii jj es ed s) (hle : RLe p s' s) : RPost g p ii jj es ed s' := by
  intro k hk hne
  have := h k hk hne
  have h1 := hle.2.1 ed
  have h2 := hle.2.2 es hes
  omega

end DbmIncr
end Crab
