import CrabProofs.Lemmas.ArraySmashItvInv2

/-!
  Preservation of `ND` (no dangling summary, no bound temporary) by every operation of the exact
  model of `array_smashing<interval_domain>`.
-/
namespace Crab
namespace Dom
namespace SmashItv
open Crab.Dom.Arr Crab.IDom

/-- the keys of the program integers -/
def IsProg (k : Crab.Lin.Var) : Prop := ∃ x, k = enc (.prog x)

theorem sm_not_prog (a : Nat) : ¬ IsProg (enc (.smashed a)) := fun ⟨x, h⟩ => sm_ne_prog a x h
theorem cp_not_prog (a : Nat) : ¬ IsProg (enc (.copy a)) := fun ⟨x, h⟩ => cp_ne_prog a x h

theorem mkExpr_vars (l : SLin) : ∀ p ∈ (mkExpr l).terms, IsProg p.1 := by
  unfold mkExpr
  have : ∀ (ts : List (Int × Nat)) (acc : Crab.Lin.Expr), (∀ p ∈ acc.terms, IsProg p.1) →
      ∀ p ∈ (ts.foldl (fun acc t => Crab.Lin.Expr.add acc (Crab.Lin.Expr.term t.1 (enc (.prog t.2)))) acc).terms,
        IsProg p.1 := by
    intro ts
    induction ts with
    | nil => intro acc h; exact h
    | cons t rest ih =>
      intro acc h
      apply ih
      intro p hp
      simp only [Crab.Lin.Expr.add, Crab.Lin.Expr.term] at hp
      split at hp
      · exact h p hp
      · simp only [List.foldl_cons, List.foldl_nil] at hp
        rcases Crab.Lin.Expr.mem_addTerm hp with h1 | h1
        · exact h p h1
        · exact ⟨t.2, h1.1⟩
  exact this _ _ (by simp [Crab.Lin.Expr.const])

theorem mkSys_in (cs : List XCst) : CstsIn IsProg (mkSys cs) := by
  intro c hc
  obtain ⟨c2, _, rfl⟩ := mem_mkSys hc
  exact mkExpr_vars _

theorem nd_top : ND St.top := fun _ => ⟨fun _ => Env.unbound_top _, Env.unbound_top _⟩

theorem nd_assign {st : St} (h : ND st) (x : Nat) (e : SLin) : ND (st.assign x e) := fun a =>
  ⟨fun hc => Env.unbound_assign_ne _ (sm_ne_prog a x) ((h a).1 hc), Env.unbound_assign_ne _ (cp_ne_prog a x) (h a).2⟩

theorem nd_forget {st : St} (h : ND st) (x : Nat) : ND (st.forget x) := fun a =>
  ⟨fun hc => Env.unbound_forget_ne (sm_ne_prog a x) ((h a).1 hc), Env.unbound_forget_ne (cp_ne_prog a x) (h a).2⟩

theorem nd_assume {st : St} (h : ND st) (cs : List XCst) : ND (st.assume cs) := fun a =>
  ⟨fun hc => Env.add_unbound IsProg _ _ (mkSys_in cs) _ (sm_not_prog a) ((h a).1 hc),
   Env.add_unbound IsProg _ _ (mkSys_in cs) _ (cp_not_prog a) (h a).2⟩

/-- the base environment is updated on the summary of `a` only, and `a` is recorded afterwards -/
theorem nd_update_summary {st : St} (_hI : Inv st) (h : ND st) (a : Nat) (sizes' : SzEnv) (base' : IDom.Env)
    (hs : ∀ b, b ≠ a → sizes'.constSize b = st.sizes.constSize b) (ha : sizes'.constSize a ≠ none)
    (hb : ∀ k, k ≠ enc (.smashed a) → st.base.Unbound k → base'.Unbound k) : ND ⟨sizes', base'⟩ := by
  intro b
  refine ⟨fun hc => ?_, hb _ (cp_ne_sm b a) (h b).2⟩
  by_cases hba : b = a
  · subst hba; exact absurd hc ha
  · exact hb _ (sm_ne_sm hba) ((h b).1 (by rw [← hs b hba]; exact hc))

theorem nd_arrayInit {st : St} (hI : Inv st) (h : ND st) (k a : Nat) (val : SLin) : ND (st.arrayInit k a val) := by
  apply nd_update_summary hI h a
  · intro b hb; rw [cs_set hI.1]; simp [hb]
  · rw [cs_set hI.1]; simp
  · intro k' hk hu; exact Env.unbound_assign_ne _ hk hu

theorem nd_arrayStore {st : St} (hI : Inv st) (h : ND st) (k a : Nat) (val : SLin) (strong : Bool) :
    ND (st.arrayStore k a val strong) := by
  unfold St.arrayStore
  cases strong with
  | true =>
    simp only [if_true]
    split
    · apply nd_update_summary hI h a
      · intro b hb; rw [cs_set hI.1]; simp [hb]
      · rw [cs_set hI.1]; simp
      · intro k' hk hu; exact Env.unbound_assign_ne _ hk hu
    · apply nd_update_summary hI h a
      · intro b hb; rw [cs_set hI.1]; simp [hb]
      · rw [cs_set hI.1]; simp
      · intro k' _ hu; exact hu
  | false =>
    simp only [Bool.false_eq_true, if_false]
    split
    · rename_i ht
      apply nd_update_summary hI h a
      · intro b _; rfl
      · rw [cs_of_equalSize hI.1 ht]; simp
      · intro k' hk hu; exact Env.unbound_weakAssign_ne _ hk hu
    · exact h

theorem nd_arrayStoreRange {st : St} (hI : Inv st) (h : ND st) (k a : Nat) (val : SLin) :
    ND (st.arrayStoreRange k a val) := by
  unfold St.arrayStoreRange
  split
  · rename_i ht
    apply nd_update_summary hI h a
    · intro b _; rfl
    · rw [cs_of_equalSize hI.1 ht]; simp
    · intro k' hk hu; exact Env.unbound_weakAssign_ne _ hk hu
  · exact h

theorem nd_arrayLoad {st : St} (h : ND st) (k x a : Nat) : ND (st.arrayLoad k x a) := by
  unfold St.arrayLoad
  split
  · intro b
    refine ⟨fun hc => ?_, ?_⟩
    · exact Env.unbound_forget_ne (sm_ne_cp b a) (Env.unbound_assign_ne _ (sm_ne_prog b x)
        (Env.unbound_expand_ne (sm_ne_cp b a) ((h b).1 hc)))
    · by_cases hba : b = a
      · subst hba; exact Env.unbound_forget_same _ _
      · exact Env.unbound_forget_ne (cp_ne_cp hba) (Env.unbound_assign_ne _ (cp_ne_prog b x)
          (Env.unbound_expand_ne (cp_ne_cp hba) (h b).2))
  · exact fun b => ⟨fun hc => Env.unbound_forget_ne (sm_ne_prog b x) ((h b).1 hc),
      Env.unbound_forget_ne (cp_ne_prog b x) (h b).2⟩

theorem nd_arrayAssign {st : St} (hI : Inv st) (h : ND st) (lhs rhs : Nat) : ND (st.arrayAssign lhs rhs) := by
  unfold St.arrayAssign
  split
  · exact h
  · split
    · apply nd_update_summary hI h lhs
      · intro b hb; rw [cs_set hI.1]; simp [hb]
      · rw [cs_set hI.1]; simp
      · intro k' hk hu; exact Env.unbound_expand_ne hk (Env.unbound_forget_ne hk hu)
    · split
      · intro b
        refine ⟨fun hc => ?_, Env.unbound_forget_ne (cp_ne_sm b lhs) (h b).2⟩
        by_cases hbl : b = lhs
        · subst hbl; exact Env.unbound_forget_same _ _
        · rw [cs_remove hI.1] at hc
          simp only [hbl, if_false] at hc
          exact Env.unbound_forget_ne (sm_ne_sm hbl) ((h b).1 hc)
      · exact h

theorem nd_upper (esz : Nat → Nat) (op : Itv → Itv → Itv) {a b : St} (ha : Inv a) (hb : Inv b)
    (s1 : SizesOk esz a) (s2 : SizesOk esz b)
    (h1 : ND a) (h2 : ND b) (na : a.base.bottom = false) (nb : b.base.bottom = false) :
    ND ⟨SzEnv.join a.sizes b.sizes, Env.upperWith op a.base b.base⟩ := by
  intro x
  refine ⟨fun hc => ?_, Env.unbound_upperWith op ha.2 na nb (Or.inl (h1 x).2)⟩
  apply Env.unbound_upperWith op ha.2 na nb
  rw [cs_join ha.1 hb.1] at hc
  cases e1 : a.sizes.constSize x with
  | none => exact Or.inl ((h1 x).1 e1)
  | some v1 =>
    cases e2 : b.sizes.constSize x with
    | none => exact Or.inr ((h2 x).1 e2)
    | some v2 =>
      have : v1 = v2 := by rw [s1 x v1 e1, s2 x v2 e2]
      subst this
      simp [e1, e2] at hc

theorem nd_join (esz : Nat → Nat) {a b : St} (ha : Inv a) (hb : Inv b) (s1 : SizesOk esz a) (s2 : SizesOk esz b)
    (h1 : ND a) (h2 : ND b) : ND (St.join a b) ∧ ND (St.widen a b) := by
  constructor
  · unfold St.join; split
    · exact h2
    · rename_i na; split
      · exact h1
      · rename_i nb
        exact nd_upper esz _ ha hb s1 s2 h1 h2 (by simpa [St.isBottom, Env.isBottom] using na)
          (by simpa [St.isBottom, Env.isBottom] using nb)
  · unfold St.widen; split
    · exact h2
    · rename_i na; split
      · exact h1
      · rename_i nb
        exact nd_upper esz _ ha hb s1 s2 h1 h2 (by simpa [St.isBottom, Env.isBottom] using na)
          (by simpa [St.isBottom, Env.isBottom] using nb)

theorem nd_meet (esz : Nat → Nat) {a b : St} (ha : Inv a) (hb : Inv b) (s1 : SizesOk esz a) (s2 : SizesOk esz b)
    (h1 : ND a) (h2 : ND b) : ND (St.meet a b) := by
  intro x
  refine ⟨fun hc => ?_, Env.unbound_lowerWith _ (h1 x).2 (h2 x).2⟩
  rw [cs_meet ha hb s1 s2] at hc
  cases e1 : a.sizes.constSize x with
  | some v => rw [e1] at hc; simp at hc
  | none =>
    rw [e1] at hc
    exact Env.unbound_lowerWith _ ((h1 x).1 e1) ((h2 x).1 hc)

end SmashItv
end Dom
end Crab
