import CrabProofs.Lemmas.IDomEnv

/-!
  Lattice operations of the interval domain: soundness of the pointwise merges of
  `separate_domain` (join, widenings: only common keys survive; meet, narrowing: all keys).
-/
namespace Crab
namespace IDom
open Lin

namespace Env

/-- an upper-bound merge contains its left argument -/
theorem upperWith_left {op : Itv → Itv → Itv} (hop : ∀ u w k, Itv.mem k u → Itv.mem k (op u w))
    {a : Env} (hs : a.m.Sorted) (b : Env) {σ : State} (hg : γ a σ) : γ (upperWith op a b) σ := by
  unfold upperWith
  simp only [hg.1, Bool.false_eq_true, if_false]
  split
  · exact hg
  · rw [γ_iff_of_not_bottom rfl]
    intro x v hv
    simp only [] at hv
    rw [Map.find_mergeAbs op hs] at hv
    split at hv
    · rename_i u w hu hw
      split at hv
      · simp at hv
      · simp only [Option.some.injEq] at hv; subst hv
        exact hop u w _ ((γ_iff_of_not_bottom hg.1 σ).1 hg x u hu)
    · simp at hv

/-- an upper-bound merge contains its right argument -/
theorem upperWith_right {op : Itv → Itv → Itv} (hop : ∀ u w k, Itv.mem k w → Itv.mem k (op u w))
    {a : Env} (hs : a.m.Sorted) {b : Env} {σ : State} (hg : γ b σ) : γ (upperWith op a b) σ := by
  unfold upperWith
  split
  · exact hg
  · simp only [hg.1, Bool.false_eq_true, if_false]
    rw [γ_iff_of_not_bottom rfl]
    intro x v hv
    simp only [] at hv
    rw [Map.find_mergeAbs op hs] at hv
    split at hv
    · rename_i u w hu hw
      split at hv
      · simp at hv
      · simp only [Option.some.injEq] at hv; subst hv
        exact hop u w _ ((γ_iff_of_not_bottom hg.1 σ).1 hg x w hw)
    · simp at hv

/-- a lower-bound merge contains the common states -/
theorem lowerWith_sound {op : Itv → Itv → Itv}
    (hop : ∀ u w k, Itv.mem k u → Itv.mem k w → Itv.mem k (op u w))
    {a b : Env} (hs : a.m.Sorted) {σ : State} (ha : γ a σ) (hb : γ b σ) : γ (lowerWith op a b) σ := by
  unfold lowerWith
  simp only [ha.1, hb.1, Bool.or_self, Bool.false_eq_true, if_false]
  have hnb : Map.mergeBot op a.m b.m = false := by
    unfold Map.mergeBot
    rw [List.any_eq_false]
    intro p hp
    cases hf : Map.find b.m p.1 with
    | none => simp
    | some w =>
      simp only []
      have hu := (Map.mem_iff_find hs p.1 p.2).1 hp
      have := hop p.2 w _ ((γ_iff_of_not_bottom ha.1 σ).1 ha _ _ hu) ((γ_iff_of_not_bottom hb.1 σ).1 hb _ _ hf)
      simp [Itv.isBottom_false_of_mem this]
  simp only [hnb, Bool.false_eq_true, if_false]
  rw [γ_iff_of_not_bottom rfl]
  intro x v hv
  simp only [] at hv
  rw [Map.find_mergeKeep] at hv
  split at hv
  · rename_i u w hu hw
    simp only [Option.some.injEq] at hv; subst hv
    exact hop u w _ ((γ_iff_of_not_bottom ha.1 σ).1 ha _ _ hu) ((γ_iff_of_not_bottom hb.1 σ).1 hb _ _ hw)
  · rename_i u hu hw
    simp only [Option.some.injEq] at hv; subst hv
    exact (γ_iff_of_not_bottom ha.1 σ).1 ha _ _ hu
  · rename_i w hu hw
    simp only [Option.some.injEq] at hv; subst hv
    exact (γ_iff_of_not_bottom hb.1 σ).1 hb _ _ hw
  · simp at hv

/-- a lower-bound merge whose scalar operation is below both arguments describes only common
    states -/
theorem lowerWith_exact {op : Itv → Itv → Itv}
    (hop : ∀ u w k, Itv.mem k (op u w) → Itv.mem k u ∧ Itv.mem k w)
    {a b : Env} {σ : State} (hg : γ (lowerWith op a b) σ) : γ a σ ∧ γ b σ := by
  unfold lowerWith at hg
  cases hab : (a.bottom || b.bottom) with
  | true => simp only [hab, if_true] at hg; exact absurd hg (not_γ_bot σ)
  | false =>
    simp only [hab, Bool.false_eq_true, if_false] at hg
    cases hmb : Map.mergeBot op a.m b.m with
    | true => simp only [hmb, if_true] at hg; exact absurd hg (not_γ_bot σ)
    | false =>
      simp only [hmb, Bool.false_eq_true, if_false] at hg
      simp only [Bool.or_eq_false_iff] at hab
      have h := (γ_iff_of_not_bottom rfl σ).1 hg
      simp only [] at h
      constructor
      · rw [γ_iff_of_not_bottom hab.1]
        intro x u hu
        have := h x
        rw [Map.find_mergeKeep, hu] at this
        cases hw : Map.find b.m x with
        | none => rw [hw] at this; exact this u rfl
        | some w => rw [hw] at this; exact (hop u w _ (this _ rfl)).1
      · rw [γ_iff_of_not_bottom hab.2]
        intro x w hw
        have := h x
        rw [Map.find_mergeKeep, hw] at this
        cases hu : Map.find a.m x with
        | none => rw [hu] at this; exact this w rfl
        | some u => rw [hu] at this; exact (hop u w _ (this _ rfl)).2

theorem join_upper_left {a : Env} (hs : a.m.Sorted) (b : Env) {σ : State} (hg : γ a σ) : γ (join a b) σ :=
  upperWith_left (fun _ _ _ h => Itv.join_upper_left h) hs b hg
theorem join_upper_right {a : Env} (hs : a.m.Sorted) {b : Env} {σ : State} (hg : γ b σ) : γ (join a b) σ :=
  upperWith_right (fun _ _ _ h => Itv.join_upper_right h) hs hg
theorem widen_upper_left {a : Env} (hs : a.m.Sorted) (b : Env) {σ : State} (hg : γ a σ) : γ (widen a b) σ :=
  upperWith_left (fun _ _ _ h => Itv.widen_upper_left h) hs b hg
theorem widen_upper_right {a : Env} (hs : a.m.Sorted) {b : Env} {σ : State} (hg : γ b σ) : γ (widen a b) σ :=
  upperWith_right (fun _ _ _ h => Itv.widen_upper_right h) hs hg
theorem meet_sound {a b : Env} (hs : a.m.Sorted) {σ : State} (ha : γ a σ) (hb : γ b σ) : γ (meet a b) σ :=
  lowerWith_sound (fun _ _ _ h1 h2 => Itv.meet_sound h1 h2) hs ha hb
theorem meet_exact {a b : Env} {σ : State} (hg : γ (meet a b) σ) : γ a σ ∧ γ b σ :=
  lowerWith_exact (fun _ _ _ h => Itv.meet_exact h) hg
theorem narrow_sound {a b : Env} (hs : a.m.Sorted) {σ : State} (ha : γ a σ) (hb : γ b σ) : γ (narrow a b) σ :=
  lowerWith_sound (fun _ _ _ h1 h2 => Itv.narrow_sound h1 h2) hs ha hb

theorem leq_refl {a : Env} (hs : a.m.Sorted) : leq a a = true := by
  unfold leq
  cases h : a.bottom
  · simp only [Bool.false_eq_true, if_false]
    rw [Map.leq_iff]
    intro p hp
    exact ⟨p.2, (Map.mem_iff_find hs p.1 p.2).1 hp, Itv.leq_refl _⟩
  · simp

end Env

end IDom
end Crab
