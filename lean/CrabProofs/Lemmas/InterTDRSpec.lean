import CrabModel.Inter.TopDownRun
import CrabProofs.Lemmas.InterSolve

/-!
  C09, whole top-down analysis — semantic notions: reachable configurations of the call-stack
  machine, the *true* call relation `TrueCR` (the call records of reachable configurations), what it
  means for a (pre, post) pair to be a valid summary (`FactValid`), and the decomposition invariant
  of `InterSim.lean` for the true call relation (`inv_reach`).
-/
namespace Crab.Inter

variable {p : IProg}

/-- configurations of the executions from `main` -/
inductive Reach (p : IProg) (ch : Choices) : Config → Prop
  | init : Reach p ch (initConfig p ch)
  | step {c : Config} : Reach p ch c → c.status = .running → Reach p ch (step p ch c)

theorem Reach.runFrom {ch : Choices} : ∀ (fuel : Nat) (c : Config), Reach p ch c → Reach p ch (runFrom p ch fuel c)
  | 0, _, h => h
  | fuel + 1, c, h => by
    unfold Crab.Inter.runFrom
    split
    · rename_i hs
      exact Reach.runFrom fuel _ (Reach.step h hs)
    · exact h

theorem reach_run (ch : Choices) (fuel : Nat) : Reach p ch (run p ch fuel) :=
  Reach.runFrom fuel _ Reach.init

/-- the calls that happen: `(callee, inputs, outputs)` is a call record of an execution -/
def TrueCR (p : IProg) : CallRel :=
  fun h iv ov => ∃ ch c, Reach p ch c ∧ (⟨h, iv, ov⟩ : CallRec) ∈ c.tr.calls

/-- every frame of `h` created with the input values `iv` is described by `pre` -/
def EntryIn (D : IDom) (p : IProg) (h : Nat) (pre : D.A) (iv : List Int) : Prop :=
  ∀ env : Env, env.size = p.nv → MatchVals (p.fn h).ins iv (toSt env) → EnvIn D.toAbsDom pre env

/-- every frame with the input values `iv` and the output values `ov` is described by `post` -/
def ExitIn (D : IDom) (p : IProg) (h : Nat) (post : D.A) (iv ov : List Int) : Prop :=
  ∀ env : Env, env.size = p.nv → MatchVals (p.fn h).ins iv (toSt env) →
    MatchVals (p.fn h).outs ov (toSt env) → EnvIn D.toAbsDom post env

/-- `(pre, post)` is a valid summary of `h` -/
def FactValid (D : IDom) (p : IProg) (h : Nat) (pre post : D.A) : Prop :=
  ∀ iv ov, TrueCR p h iv ov → iv.length = (p.fn h).ins.length → ov.length = (p.fn h).outs.length →
    EntryIn D p h pre iv → ExitIn D p h post iv ov

/-- the decomposition for the true call relation: every function, entered with any frame -/
def trueSpec (p : IProg) : SimSpec where
  Cov := fun _ => True
  E := fun _ env => env.size = p.nv
  CR := fun _ => TrueCR p

theorem true_entryOK : EntryOK p (trueSpec p) := by
  intro g h b k env lhs args env' _ _ _ _ _ _ hsz _
  exact hsz

/-- the record of a return is in the trace of the next configuration -/
theorem retRec_mem_step {ch : Choices} {c : Config} {S : SimSpec} (hc : Inv p S c)
    {hfr gfr : Frame} {rest : List Frame} (hst : c.stack = hfr :: gfr :: rest)
    (hpc : ¬ hfr.pc < ((p.fn hfr.fn).blk hfr.blk).stmts.size) (hex : hfr.blk = (p.fn hfr.fn).exit) :
    retRec p hfr ∈ (step p ch c).tr.calls := by
  have hch := hc.chain
  rw [hst] at hch
  obtain ⟨lhs, args, hs, _, _⟩ := hch.1
  rw [step_ret hst hpc hex hs]
  exact Array.mem_push_self

/-- the invariant of the decomposition, along the executions from `main`, for any spec whose call
    relation is the true one and whose entry predicate is established by `hentry` -/
theorem inv_reach_gen (hP : ProgOK p) {S : SimSpec} (hCR : ∀ g, S.CR g = TrueCR p) (hentry : EntryOK p S)
    (ch : Choices) (h0 : Inv p S (initConfig p ch)) : ∀ c, Reach p ch c → Inv p S c := by
  intro c hr
  induction hr with
  | init => exact h0
  | step hr hs ih =>
    apply Inv.step hP hentry ch ih
    intro hfr gfr rest hst hpc hex _
    rw [hCR]
    exact ⟨ch, _, Reach.step hr hs, retRec_mem_step ih hst hpc hex⟩

theorem inv_reach (hP : ProgOK p) (hmain : p.main < p.funs.size) (ch : Choices) :
    ∀ c, Reach p ch c → Inv p (trueSpec p) c := by
  apply inv_reach_gen hP (fun _ => rfl) true_entryOK ch
  rw [initConfig_eq]
  exact Inv.start hP ch p.main [] hmain (Or.inr rfl) (fun _ => mkFrame_env_size p ch 0 p.main [])

/-! ### the local semantics from one entry frame -/

theorem LPre.mono {CR : CallRel} {f : IFun} {E E' : Env → Prop} (hE : ∀ x, E x → E' x) {n : Nat} {s : Env}
    (h : LPre CR f E n s) : LPre CR f E' n s := by
  induction h with
  | init hs => exact .init (hE _ hs)
  | flow _ hp hn ih => exact .flow ih hp hn

theorem LPre.split {CR : CallRel} {f : IFun} {E : Env → Prop} {n : Nat} {s : Env}
    (h : LPre CR f E n s) : ∃ s0, E s0 ∧ LPre CR f (fun x => x = s0) n s := by
  induction h with
  | init hs => exact ⟨_, hs, .init rfl⟩
  | flow _ hp hn ih =>
    obtain ⟨s0, h0, h1⟩ := ih
    exact ⟨s0, h0, .flow h1 hp hn⟩

theorem LocalAt.mono {CR : CallRel} {f : IFun} {E E' : Env → Prop} (hE : ∀ x, E x → E' x) {b k : Nat} {env : Env}
    (h : LocalAt CR f E b k env) : LocalAt CR f E' b k env := by
  obtain ⟨s0, h1, h2⟩ := h
  exact ⟨s0, h1.mono hE, h2⟩

theorem LocalAt.split {CR : CallRel} {f : IFun} {E : Env → Prop} {b k : Nat} {env : Env}
    (h : LocalAt CR f E b k env) : ∃ s0, E s0 ∧ LocalAt CR f (fun x => x = s0) b k env := by
  obtain ⟨sb, h1, h2⟩ := h
  obtain ⟨s0, h0, h3⟩ := h1.split
  exact ⟨s0, h0, sb, h3, h2⟩

/-- a statement that does not define an input parameter keeps the input parameters -/
theorem LStep.keep {CR : CallRel} {s : IStmt} {e e' : Env} (h : LStep CR s e e') (ins : List Var)
    (hd : ∀ v, v ∈ s.defs → v ∉ ins) : ∀ v, v ∈ ins → e'.getD v 0 = e.getD v 0 := by
  intro v hv
  cases s with
  | assign x l =>
    have hx : v ≠ x := fun e => hd x (by simp [IStmt.defs]) (e ▸ hv)
    rw [show e' = _ from h]; exact getD_set_other _ _ _ _ hx
  | bin op x y z =>
    have hx : v ≠ x := fun e => hd x (by simp [IStmt.defs]) (e ▸ hv)
    rw [show e' = _ from h]; exact getD_set_other _ _ _ _ hx
  | havoc x =>
    have hx : v ≠ x := fun e => hd x (by simp [IStmt.defs]) (e ▸ hv)
    obtain ⟨w, hw⟩ := h
    rw [hw]; exact getD_set_other _ _ _ _ hx
  | assume c => rw [h.2]
  | assert i c => rw [h.2]
  | call c l a =>
    obtain ⟨o, _, ho⟩ := h
    rw [ho]
    exact setMany_other _ _ _ _ (fun hl => hd v (by simpa [IStmt.defs] using hl) hv)

theorem Pref.keep {CR : CallRel} {f : IFun} (hF : FunOK p f) (b : Nat) :
    ∀ {k : Nat} {s e : Env}, Pref CR (f.blk b) k s e → ∀ v, v ∈ f.ins → e.getD v 0 = s.getD v 0 := by
  intro k s e h
  induction h with
  | nil s => intro v _; rfl
  | snoc _ hk hst ih =>
    intro v hv
    rw [LStep.keep hst f.ins (hF.stmts b _ hk).1 v hv, ih v hv]

theorem LPre.keep {CR : CallRel} {f : IFun} (hF : FunOK p f) {s0 : Env} :
    ∀ {n : Nat} {s : Env}, LPre CR f (fun x => x = s0) n s → ∀ v, v ∈ f.ins → s.getD v 0 = s0.getD v 0 := by
  intro n s h
  induction h with
  | init hs => intro v _; rw [hs]
  | flow _ hp _ ih => intro v hv; rw [Pref.keep hF _ hp v hv, ih v hv]

theorem LocalAt.keep {CR : CallRel} {f : IFun} (hF : FunOK p f) {s0 : Env} {b k : Nat} {env : Env}
    (h : LocalAt CR f (fun x => x = s0) b k env) : ∀ v, v ∈ f.ins → env.getD v 0 = s0.getD v 0 := by
  obtain ⟨sb, h1, h2⟩ := h
  intro v hv
  rw [Pref.keep hF _ h2 v hv, LPre.keep hF h1 v hv]

theorem Pref.size {CR : CallRel} {b : IBlock} : ∀ {k : Nat} {s e : Env}, Pref CR b k s e → e.size = s.size := by
  intro k s e h
  induction h with
  | nil s => rfl
  | snoc _ _ hst ih => rw [LStep.size hst, ih]

theorem LPre.size {CR : CallRel} {f : IFun} {s0 : Env} :
    ∀ {n : Nat} {s : Env}, LPre CR f (fun x => x = s0) n s → s.size = s0.size := by
  intro n s h
  induction h with
  | init hs => rw [hs]
  | flow _ hp _ ih => rw [Pref.size hp, ih]

/-! ### recorded runs -/

/-- the frames a recorded run was started with -/
def RunEntry (D : IDom) (p : IProg) (ρ : RunRec D) : Env → Prop :=
  fun s => s.size = p.nv ∧ EnvIn D.toAbsDom ρ.entry s

/-- the tables of a recorded run contain the local collecting semantics of its function, entered
    with the frames its entry value describes, the calls being the true ones -/
def RunSound (D : IDom) (p : IProg) (ρ : RunRec D) : Prop :=
  ∀ b k env, LocalAt (TrueCR p) (p.fn ρ.fn) (RunEntry D p ρ) b k env →
    (k = 0 → EnvIn D.toAbsDom (ρ.pre b) env) ∧
    (k = ((p.fn ρ.fn).blk b).stmts.size → EnvIn D.toAbsDom (ρ.post b) env)

/-- the summary read off a sound run is valid -/
theorem run_fact_valid (hP : ProgOK p) (hmain : p.main < p.funs.size) (D : IDom) (ρ : RunRec D)
    (hg : ρ.fn < p.funs.size) (hs : RunSound D p ρ) :
    FactValid D p ρ.fn ρ.entry
      (D.project (ρ.post (p.fn ρ.fn).exit) ((p.fn ρ.fn).ins ++ (p.fn ρ.fn).outs)) := by
  intro iv ov ⟨ch, c, hr, hmem⟩ hli hlo hentry env2 hsz2 hm2i hm2o σ hσ
  have hF := hP ρ.fn hg
  obtain ⟨_, _, hcov⟩ := (inv_reach hP hmain ch c hr).recs _ hmem
  obtain ⟨env, hat, hout, hmi, hsz⟩ := hcov trivial
  obtain ⟨s0, hs0, hat0⟩ := LocalAt.split hat
  have hkeep := LocalAt.keep hF hat0
  have hs0sz : s0.size = p.nv := hs0
  have hm0 : MatchVals (p.fn ρ.fn).ins iv (toSt s0) := MatchVals.of_getD_eq (fun v hv => (hkeep v hv).symm) hmi
  have he0 : EnvIn D.toAbsDom ρ.entry s0 := hentry s0 hs0sz hm0
  have hat1 : LocalAt (TrueCR p) (p.fn ρ.fn) (RunEntry D p ρ) (p.fn ρ.fn).exit
      ((p.fn ρ.fn).blk (p.fn ρ.fn).exit).stmts.size env :=
    LocalAt.mono (fun x hx => by rw [hx]; exact ⟨hs0sz, he0⟩) hat0
  have hpost := (hs _ _ _ hat1).2 rfl (toSt env) (Ext_toSt env)
  apply D.project_sound _ hpost
  intro v hv
  have hmo : MatchVals (p.fn ρ.fn).outs ov (toSt env) := by
    have : ov = (p.fn ρ.fn).outs.map (toSt env) := hout
    rw [this]; exact MatchVals_map _ _
  rcases List.mem_append.mp hv with hvi | hvo
  · rw [hσ v (by rw [hsz2]; exact hF.ins_lt v hvi)]
    exact MatchVals.agree hli.symm hmi hm2i v hvi
  · rw [hσ v (by rw [hsz2]; exact hF.outs_lt v hvo)]
    exact MatchVals.agree hlo.symm hmo hm2o v hvo

end Crab.Inter
