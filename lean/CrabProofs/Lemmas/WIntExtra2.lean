import CrabProofs.Lemmas.WIntExtra1

/-!
  More lemmas about `Crab.WInt` (part 2): the pieces of `signed_split`, `unsigned_split` and
  `signed_and_unsigned_split` cover the interval and do not cross the poles.
-/
namespace Crab
namespace WInt
open WrapInt

/-- members of a proper interval that crosses the south pole -/
theorem mem_ucross_iff {w : Nat} (hw : w ≤ 64) {s e v : Nat} (hs : s < 2 ^ w) (he : e < 2 ^ w)
    (hv : v < 2 ^ w) (hnt : (W w s e false).isTop = false) (hc : e < s) :
    mem w v (W w s e false) ↔ (s ≤ v ∨ v ≤ e) := by
  have hnt' := isTop_W_false hw hs he hnt
  rw [mem_W hw hs he]
  have s1 := D_spec (2 ^ w) s e; have s2 := D_spec (2 ^ w) s v
  generalize 2 ^ w = M at *
  omega

/-- members of a proper interval that crosses the north pole -/
theorem mem_scross_iff {w : Nat} (h1w : 1 ≤ w) (hw : w ≤ 64) {s e v : Nat} (hs : s < 2 ^ w)
    (he : e < 2 ^ w) (hv : v < 2 ^ w) (hnt : (W w s e false).isTop = false)
    (hc : sg (2 ^ w) e < sg (2 ^ w) s) :
    mem w v (W w s e false) ↔ (sg (2 ^ w) s ≤ sg (2 ^ w) v ∨ sg (2 ^ w) v ≤ sg (2 ^ w) e) := by
  have hnt' := isTop_W_false hw hs he hnt
  rw [mem_W hw hs he]
  have hM := pow_succ_pred h1w
  have s1 := D_spec (2 ^ w) s e; have s2 := D_spec (2 ^ w) s v
  have g1 := sg_spec (2 ^ w) s; have g2 := sg_spec (2 ^ w) e; have g3 := sg_spec (2 ^ w) v
  generalize 2 ^ w = M at *
  generalize 2 ^ (w - 1) = H at *
  omega

theorem usplit_nontop {w s e : Nat} {l : List WInt} (h : unsignedSplit? (W w s e false) = some l) :
    (W w s e false).isTop = false := by
  unfold unsignedSplit? at h
  simp only [Bool.false_eq_true, if_false] at h
  split at h
  · cases h
  · next b hb => exact (getBitwidth_W hb).2

theorem ssplit_nontop {w s e : Nat} {l : List WInt} (h : signedSplit? (W w s e false) = some l) :
    (W w s e false).isTop = false := by
  unfold signedSplit? at h
  simp only [Bool.false_eq_true, if_false] at h
  split at h
  · cases h
  · next b hb => exact (getBitwidth_W hb).2

/-- `unsigned_split`: the pieces do not cross the south pole, are parts of the interval and cover it -/
theorem usplit_cover {w : Nat} (h1w : 1 ≤ w) (hw : w ≤ 64) {s e : Nat} (hs : s < 2 ^ w) (he : e < 2 ^ w)
    {l : List WInt} (h : unsignedSplit? (W w s e false) = some l) :
    (∀ p ∈ l, ∃ a b, p = W w a b false ∧ a ≤ b ∧ b < 2 ^ w ∧
      ∀ v, a ≤ v → v ≤ b → mem w v (W w s e false)) ∧
    (∀ v, v < 2 ^ w → mem w v (W w s e false) → ∃ a b, W w a b false ∈ l ∧ a ≤ v ∧ v ≤ b) := by
  have hM : 2 ≤ 2 ^ w := two_le_pow h1w
  have hnt := usplit_nontop h
  rcases usplit_explicit h1w hw hs he h with ⟨rfl, hc⟩ | ⟨rfl, hc⟩
  · constructor
    · intro p hp
      simp only [List.mem_singleton] at hp
      subst hp
      exact ⟨s, e, rfl, hc, he, fun v h1 h2 => (mem_ord_iff hw hc he (by omega)).mpr ⟨h1, h2⟩⟩
    · intro v hv hm
      rw [mem_ord_iff hw hc he hv] at hm
      exact ⟨s, e, List.mem_singleton.mpr rfl, hm.1, hm.2⟩
  · constructor
    · intro p hp
      simp only [List.mem_cons, List.mem_nil_iff, or_false] at hp
      rcases hp with rfl | rfl
      · exact ⟨s, 2 ^ w - 1, rfl, by omega, by omega, fun v h1 h2 =>
          (mem_ucross_iff hw hs he (by omega) hnt hc).mpr (Or.inl h1)⟩
      · exact ⟨0, e, rfl, Nat.zero_le _, he, fun v h1 h2 =>
          (mem_ucross_iff hw hs he (by omega) hnt hc).mpr (Or.inr h2)⟩
    · intro v hv hm
      rw [mem_ucross_iff hw hs he hv hnt hc] at hm
      rcases hm with hm | hm
      · exact ⟨s, 2 ^ w - 1, List.mem_cons_self .., hm, by omega⟩
      · exact ⟨0, e, List.mem_cons_of_mem _ (List.mem_cons_self ..), Nat.zero_le _, hm⟩

/-- `signed_split`: the pieces do not cross the north pole, are parts of the interval and cover it -/
theorem ssplit_cover {w : Nat} (h1w : 1 ≤ w) (hw : w ≤ 64) {s e : Nat} (hs : s < 2 ^ w) (he : e < 2 ^ w)
    {l : List WInt} (h : signedSplit? (W w s e false) = some l) :
    (∀ p ∈ l, ∃ a b, p = W w a b false ∧ a < 2 ^ w ∧ b < 2 ^ w ∧ sg (2 ^ w) a ≤ sg (2 ^ w) b ∧
      ∀ v, v < 2 ^ w → sg (2 ^ w) a ≤ sg (2 ^ w) v → sg (2 ^ w) v ≤ sg (2 ^ w) b →
        mem w v (W w s e false)) ∧
    (∀ v, v < 2 ^ w → mem w v (W w s e false) →
      ∃ a b, W w a b false ∈ l ∧ sg (2 ^ w) a ≤ sg (2 ^ w) v ∧ sg (2 ^ w) v ≤ sg (2 ^ w) b) := by
  have hM := pow_succ_pred h1w
  have hH : 0 < 2 ^ (w - 1) := Nat.pow_pos (by decide)
  have hnt := ssplit_nontop h
  rcases ssplit_explicit h1w hw hs he h with ⟨rfl, hc⟩ | ⟨rfl, hc⟩
  · constructor
    · intro p hp
      simp only [List.mem_singleton] at hp
      subst hp
      exact ⟨s, e, rfl, hs, he, hc, fun v hv h1 h2 => (mem_sord_iff h1w hw hs he hv hc).mpr ⟨h1, h2⟩⟩
    · intro v hv hm
      rw [mem_sord_iff h1w hw hs he hv hc] at hm
      exact ⟨s, e, List.mem_singleton.mpr rfl, hm.1, hm.2⟩
  · have g1 := sg_spec (2 ^ w) s; have g2 := sg_spec (2 ^ w) e
    have g4 := sg_spec (2 ^ w) (2 ^ (w - 1) - 1); have g5 := sg_spec (2 ^ w) (2 ^ (w - 1))
    constructor
    · intro p hp
      simp only [List.mem_cons, List.mem_nil_iff, or_false] at hp
      rcases hp with rfl | rfl
      · refine ⟨s, 2 ^ (w - 1) - 1, rfl, hs, by omega, by omega, fun v hv h1 h2 =>
          (mem_scross_iff h1w hw hs he hv hnt hc).mpr (Or.inl h1)⟩
      · refine ⟨2 ^ (w - 1), e, rfl, by omega, he, by omega, fun v hv h1 h2 =>
          (mem_scross_iff h1w hw hs he hv hnt hc).mpr (Or.inr h2)⟩
    · intro v hv hm
      rw [mem_scross_iff h1w hw hs he hv hnt hc] at hm
      have g3 := sg_spec (2 ^ w) v
      rcases hm with hm | hm
      · exact ⟨s, 2 ^ (w - 1) - 1, List.mem_cons_self .., hm, by omega⟩
      · exact ⟨2 ^ (w - 1), e, List.mem_cons_of_mem _ (List.mem_cons_self ..), by omega, hm⟩

/-! ### `signed_and_unsigned_split` -/

theorem cut_bind {x : WInt} {l : List WInt} (h : cut? x = some l) :
    ∃ ss, signedSplit? x = some ss ∧
      ∃ parts, List.mapM unsignedSplit? ss = some parts ∧ l = parts.flatten := by
  unfold cut? at h
  cases hss : signedSplit? x with
  | none => rw [hss] at h; cases h
  | some ss =>
    rw [hss] at h
    cases hp : List.mapM unsignedSplit? ss with
    | none => simp [hp] at h
    | some parts =>
      simp [hp] at h
      exact ⟨ss, rfl, parts, hp, h.symm⟩

theorem mapM_one {f : WInt → Option (List WInt)} {a : WInt} {parts : List (List WInt)}
    (h : List.mapM f [a] = some parts) : ∃ l1, f a = some l1 ∧ parts = [l1] := by
  rw [List.mapM_cons, List.mapM_nil] at h
  cases h1 : f a with
  | none => simp [h1] at h
  | some l1 => simp [h1] at h; exact ⟨l1, rfl, h.symm⟩

theorem mapM_two {f : WInt → Option (List WInt)} {a b : WInt} {parts : List (List WInt)}
    (h : List.mapM f [a, b] = some parts) :
    ∃ l1 l2, f a = some l1 ∧ f b = some l2 ∧ parts = [l1, l2] := by
  rw [List.mapM_cons, List.mapM_cons, List.mapM_nil] at h
  cases h1 : f a with
  | none => simp [h1] at h
  | some l1 =>
    cases h2 : f b with
    | none => simp [h1, h2] at h
    | some l2 => simp [h1, h2] at h; exact ⟨l1, l2, rfl, rfl, h.symm⟩

/-- a piece inside one hemisphere that does not cross the south pole: `a ≤ b` and both end points on
    the same side of `2^(w-1)` -/
def Hemi (w a b : Nat) : Prop := a ≤ b ∧ b < 2 ^ w ∧ (b < 2 ^ (w - 1) ∨ 2 ^ (w - 1) ≤ a)

/-- `unsigned_split` of a piece `[a, b]` that does not cross the north pole -/
theorem usplit_of_sord {w : Nat} (h1w : 1 ≤ w) (hw : w ≤ 64) {a b : Nat} (ha : a < 2 ^ w) (hb : b < 2 ^ w)
    (hab : sg (2 ^ w) a ≤ sg (2 ^ w) b) {l : List WInt} (h : unsignedSplit? (W w a b false) = some l) :
    (∀ p ∈ l, ∃ c d, p = W w c d false ∧ Hemi w c d) ∧
    (∀ v, v < 2 ^ w → sg (2 ^ w) a ≤ sg (2 ^ w) v → sg (2 ^ w) v ≤ sg (2 ^ w) b →
      ∃ c d, W w c d false ∈ l ∧ c ≤ v ∧ v ≤ d) := by
  have hM := pow_succ_pred h1w
  have hH : 0 < 2 ^ (w - 1) := Nat.pow_pos (by decide)
  have g1 := sg_spec (2 ^ w) a; have g2 := sg_spec (2 ^ w) b
  unfold Hemi
  rcases usplit_explicit h1w hw ha hb h with ⟨rfl, hc⟩ | ⟨rfl, hc⟩
  · constructor
    · intro p hp
      simp only [List.mem_singleton] at hp
      subst hp
      exact ⟨a, b, rfl, hc, hb, by omega⟩
    · intro v hv h1 h2
      have g3 := sg_spec (2 ^ w) v
      exact ⟨a, b, List.mem_singleton.mpr rfl, by omega, by omega⟩
  · constructor
    · intro p hp
      simp only [List.mem_cons, List.mem_nil_iff, or_false] at hp
      rcases hp with rfl | rfl
      · exact ⟨a, 2 ^ w - 1, rfl, by omega, by omega, by omega⟩
      · exact ⟨0, b, rfl, by omega, hb, by omega⟩
    · intro v hv h1 h2
      have g3 := sg_spec (2 ^ w) v
      by_cases hav : a ≤ v
      · exact ⟨a, 2 ^ w - 1, List.mem_cons_self .., hav, by omega⟩
      · exact ⟨0, b, List.mem_cons_of_mem _ (List.mem_cons_self ..), Nat.zero_le _, by omega⟩

/-- `signed_and_unsigned_split`: every piece lies in one hemisphere without crossing the south pole,
    and the pieces cover the interval -/
theorem cut_spec {w : Nat} (h1w : 1 ≤ w) (hw : w ≤ 64) {s e : Nat} (hs : s < 2 ^ w) (he : e < 2 ^ w)
    {l : List WInt} (h : cut? (W w s e false) = some l) :
    (∀ p ∈ l, ∃ a b, p = W w a b false ∧ Hemi w a b) ∧
    (∀ v, v < 2 ^ w → mem w v (W w s e false) → ∃ a b, W w a b false ∈ l ∧ a ≤ v ∧ v ≤ b) := by
  obtain ⟨ss, hss, parts, hparts, rfl⟩ := cut_bind h
  obtain ⟨sord, scov⟩ := ssplit_cover h1w hw hs he hss
  rcases ssplit_explicit h1w hw hs he hss with ⟨rfl, _⟩ | ⟨rfl, _⟩
  · obtain ⟨l1, h1, rfl⟩ := mapM_one hparts
    obtain ⟨a, b, e1, ha, hb, hab, _⟩ := sord _ (List.mem_singleton.mpr rfl)
    have e1' := congrArg (fun p : WInt => (p.start.n, p.stop.n)) e1
    simp only [Prod.mk.injEq] at e1'
    obtain ⟨rfl, rfl⟩ := e1'
    obtain ⟨P1, C1⟩ := usplit_of_sord h1w hw ha hb hab h1
    simp only [List.flatten_cons, List.flatten_nil, List.append_nil]
    refine ⟨P1, ?_⟩
    intro v hv hm
    obtain ⟨a', b', hmem, x1, x2⟩ := scov v hv hm
    simp only [List.mem_singleton] at hmem
    have e2 := congrArg (fun p : WInt => (p.start.n, p.stop.n)) hmem
    simp only [Prod.mk.injEq] at e2
    obtain ⟨rfl, rfl⟩ := e2
    exact C1 v hv x1 x2
  · obtain ⟨l1, l2, h1, h2, rfl⟩ := mapM_two hparts
    obtain ⟨a1, b1, e1, ha1, hb1, hab1, _⟩ := sord _ (List.mem_cons_self ..)
    obtain ⟨a2, b2, e2, ha2, hb2, hab2, _⟩ := sord _ (List.mem_cons_of_mem _ (List.mem_cons_self ..))
    have e1' := congrArg (fun p : WInt => (p.start.n, p.stop.n)) e1
    have e2' := congrArg (fun p : WInt => (p.start.n, p.stop.n)) e2
    simp only [Prod.mk.injEq] at e1' e2'
    obtain ⟨rfl, hb1e⟩ := e1'
    obtain ⟨ha2e, rfl⟩ := e2'
    rw [hb1e] at h1; rw [ha2e] at h2
    obtain ⟨P1, C1⟩ := usplit_of_sord h1w hw ha1 hb1 hab1 h1
    obtain ⟨P2, C2⟩ := usplit_of_sord h1w hw ha2 hb2 hab2 h2
    simp only [List.flatten_cons, List.flatten_nil, List.append_nil]
    constructor
    · intro p hp
      rcases List.mem_append.mp hp with hp | hp
      · exact P1 p hp
      · exact P2 p hp
    · intro v hv hm
      obtain ⟨a', b', hmem, x1, x2⟩ := scov v hv hm
      simp only [List.mem_cons, List.mem_nil_iff, or_false] at hmem
      rcases hmem with hmem | hmem
      · have e3 := congrArg (fun p : WInt => (p.start.n, p.stop.n)) hmem
        simp only [Prod.mk.injEq] at e3
        obtain ⟨rfl, rfl⟩ := e3
        rw [← hb1e] at C1
        obtain ⟨c, d, hcd, y1, y2⟩ := C1 v hv x1 x2
        exact ⟨c, d, List.mem_append_left _ hcd, y1, y2⟩
      · have e3 := congrArg (fun p : WInt => (p.start.n, p.stop.n)) hmem
        simp only [Prod.mk.injEq] at e3
        obtain ⟨rfl, rfl⟩ := e3
        rw [← ha2e] at C2
        obtain ⟨c, d, hcd, y1, y2⟩ := C2 v hv x1 x2
        exact ⟨c, d, List.mem_append_right _ hcd, y1, y2⟩

end WInt
end Crab
