import CrabProofs.Lemmas.WtoMeasure3
import CrabProofs.Lemmas.WtoUnfold

/-! Total correctness of `visitLoop` / `component`: specifications and the `component` half. -/
namespace Crab
namespace Wto

/-- fuel consumed per nesting level -/
def levelCost (g : Graph) : Nat := 2 * totalWt g + 2

def VisitSpec (g : Graph) (L : Nat) : Prop :=
  ∀ (fuel : Nat) (K : Nat → Prop) (st0 : St) (part0 : List WtoC) (v : Nat) (gs : List GF)
    (ln : List Nat) (part : List WtoC) (st : St) (W : List WtoC),
    ClosedK g K st0 → st0.dfn.size = g.n → lvl K st0 ≤ L → Inv g K st0 part0 v gs ln part st W →
    phi g K (gs.map (·.f)) st + 1 + L * levelCost g ≤ fuel →
    ∃ st' W', visitLoop g fuel (gs.map (·.f)) ln part st = .done (W' ++ part0, st') ∧
      Placed g K st0 W' st' ∧ v ∈ flattenL W'

def CompSpec (g : Graph) (L : Nat) : Prop :=
  ∀ (succs : List Nat) (fuel : Nat) (K : Nat → Prop) (st0 : St) (part0 : List WtoC) (st : St)
    (Wc : List WtoC),
    ClosedK g K st0 → st0.dfn.size = g.n → lvl K st0 ≤ L → Placed g K st0 Wc st →
    (∀ s ∈ succs, K s ∨ getDfn st0.dfn s = .inf) →
    succs.length + 1 + totalWt g + L * levelCost g ≤ fuel →
    ∃ st' X, component g fuel succs (Wc ++ part0) st = .done (X ++ Wc ++ part0, st') ∧
      Placed g K st0 (X ++ Wc) st' ∧
      ∀ s ∈ succs, getDfn st.dfn s = .fin 0 → s ∈ flattenL (X ++ Wc)

theorem phi_init_le (g : Graph) {K : Nat → Prop} {st : St} {s : Nat} (hk : K s)
    (h0 : getDfn st.dfn s = .fin 0) (hsz : s < st.dfn.size) (hn : st.dfn.size = g.n) :
    phi g K ([GF.fresh g s (st.num + 1)].map (·.f)) (discover st s) + 1 ≤ totalWt g := by
  have h1 := wt_free_discover g hk h0 hsz
  have h2 := wt_free_le_total g K st hn
  simp only [phi, framesWt, GF.fresh, List.map_cons, List.map_nil, List.sum_cons, List.sum_nil]
  omega

theorem comp_of_visit (g : Graph) (L : Nat) (hv : VisitSpec g L) : CompSpec g L := by
  intro succs
  induction succs with
  | nil =>
    intro fuel K st0 part0 st Wc _ _ _ hP _ hf
    obtain ⟨f, rfl⟩ : ∃ f, fuel = f + 1 := ⟨fuel - 1, by omega⟩
    exact ⟨st, [], by rw [component_nil]; simp, by simpa using hP, by intro s hs; cases hs⟩
  | cons s rest ih =>
    intro fuel K st0 part0 st Wc hK hn hL hP hsucc hf
    obtain ⟨f, rfl⟩ : ∃ f, fuel = f + 1 := ⟨fuel - 1, by omega⟩
    simp only [List.length_cons] at hf
    have hrest : ∀ s' ∈ rest, K s' ∨ getDfn st0.dfn s' = .inf :=
      fun s' hs' => hsucc s' (List.mem_cons_of_mem _ hs')
    by_cases hd : getDfn st.dfn s = .fin 0
    · -- `visit(g, s, partition)`
      have hKs : K s := by
        rcases hsucc s (by simp) with hk | hk
        · exact hk
        · exfalso
          by_cases hw : s ∈ flattenL Wc
          · rw [hP.dfn_W s hw] at hd; cases hd
          · rw [hP.dfn_other s hw, hk] at hd; cases hd
      have hK' : ClosedK g K st := hK.placed hP
      have hn' : st.dfn.size = g.n := by rw [hP.size_eq]; exact hn
      have hL' : lvl K st ≤ L := Nat.le_trans (lvl_le_of_placed hP) hL
      have hsz : s < st.dfn.size := (hK' s hKs).1
      have hinv := Inv.init (g := g) (Wc ++ part0) hK' hKs hd
      have hphi := phi_init_le g hKs hd hsz hn'
      obtain ⟨st1, W1, hrun, hP1, hs1⟩ := hv f K st (Wc ++ part0) s _ _ _ _ _ hK' hn' hL' hinv (by omega)
      have hrun' : visitLoop g f [{ node := s, succs := g.succ s, min := st.num + 1 }] [] (Wc ++ part0)
          (discover st s) = .done (W1 ++ (Wc ++ part0), st1) := by
        simpa [GF.fresh] using hrun
      rw [component_visit g f (Wc ++ part0) st hd hrun']
      have hP01 : Placed g K st0 (W1 ++ Wc) st1 := hP.trans hP1
      obtain ⟨st', X, hc, hP', hall⟩ := ih f K st0 part0 st1 (W1 ++ Wc) hK hn hL hP01 hrest (by omega)
      refine ⟨st', X ++ W1, ?_, by simpa [List.append_assoc] using hP', ?_⟩
      · rw [← List.append_assoc W1 Wc part0, hc]; simp [List.append_assoc]
      · intro s' hs' h0
        have hsub : ∀ x ∈ flattenL W1, x ∈ flattenL (X ++ W1 ++ Wc) := by
          intro x hx
          simp only [flattenL_append, List.mem_append]
          exact Or.inl (Or.inr hx)
        rcases List.mem_cons.1 hs' with rfl | hs'
        · exact hsub _ hs1
        · by_cases hw : s' ∈ flattenL W1
          · exact hsub _ hw
          · have := hall s' hs' (by rw [hP1.dfn_other s' hw]; exact h0)
            simpa [List.append_assoc] using this
    · rw [component_skip g f (Wc ++ part0) st hd]
      obtain ⟨st', X, hc, hP', hall⟩ := ih f K st0 part0 st Wc hK hn hL hP hrest (by omega)
      refine ⟨st', X, hc, hP', ?_⟩
      intro s' hs' h0
      rcases List.mem_cons.1 hs' with rfl | hs'
      · exact absurd h0 hd
      · exact hall s' hs' h0

end Wto
end Crab
