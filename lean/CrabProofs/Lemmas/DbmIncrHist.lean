import CrabProofs.Lemmas.DbmIncrAdd

/-!
  `addCst` (one `operator+=` of an in-language constraint, `close_bounds_inline = false`) and
  `addAll` (a history from top) against the canonical model `Zones.assumeCst` / `Zones.assumeAll`.
-/
namespace Crab
namespace DbmIncr
open Dbm Zones

variable {n : Nat}

/-- a constraint on a valuation of the matrix indices -/
def cstV (c : Zones.Cst n) (v : Fin (n + 1) → Int) : Prop := v c.row - v c.col ≤ c.bound

theorem assumeCst_sat (z : Zone n) (c : Zones.Cst n) (v : Fin (n + 1) → Int) :
    (assumeCst z c).sat v ↔ (z.sat v ∧ cstV c v) := Mat.addEdge_sat z c.row c.col c.bound v

theorem Good.mid {s : SG n} (h : Good s) : Mid s := ⟨h.1.varNF, h.2⟩

/-- result of a step against the constraint `P`, in split normal form -/
def StepGood (P : (Fin (n + 1) → Int) → Prop) (s : SG n) (r : Option (SG n)) : Prop :=
  match r with
  | none => ∀ v, s.g.sat v → ¬ P v
  | some s' => Good s' ∧ ∀ v, s'.g.sat v ↔ (s.g.sat v ∧ P v)

theorem StepOK.finish (vs : List (Fin (n + 1))) (hvs : ∀ v, v ∈ vs)
    {P : (Fin (n + 1) → Int) → Prop} {s : SG n} {r : Option (SG n)} (h : StepOK P s r) :
    StepGood P s (r.map (closeBoundsEnd false vs)) := by
  cases r with
  | none => exact h
  | some s1 =>
    obtain ⟨hm, he⟩ := h
    obtain ⟨hg, he2⟩ := closeBoundsEnd_spec vs hvs s1 hm
    exact ⟨hg, fun v => by rw [he2, he]⟩

/-- a step that only adds consequences of `A`: the result lies between -/
def Btw (A : (Fin (n + 1) → Int) → Prop) (s : SG n) (r : Option (SG n)) : Prop :=
  match r with
  | none => ∀ v, s.g.sat v → ¬ A v
  | some s1 => Mid s1 ∧ (∀ v, s1.g.sat v → s.g.sat v) ∧ ∀ v, s.g.sat v → A v → s1.g.sat v

theorem addDerivedLb_spec (vs : List (Fin (n + 1))) (hvs : ∀ v, v ∈ vs) (s : SG n) (hm : Mid s)
    (lbx : W) (v : Fin (n + 1)) (hv : v ≠ 0) (k : Int) (A : (Fin (n + 1) → Int) → Prop)
    (himp : ∀ a, lbx = some a → ∀ x, s.g.sat x → A x → x 0 - x v ≤ k + a) :
    Btw A s (addDerivedLb false vs s lbx v k) := by
  unfold addDerivedLb
  rcases lbx with _ | a
  · exact ⟨hm, fun _ h => h, fun _ h _ => h⟩
  · simp only
    have sp := addLb_spec vs hvs s hm v hv (k + a)
    rcases hq : addLb false vs s v (k + a) with _ | s1
    · rw [hq] at sp
      exact fun x hx hc => sp x hx (himp a rfl x hx hc)
    · rw [hq] at sp
      exact ⟨sp.1, fun x h => ((sp.2 x).1 h).1, fun x hx hc => (sp.2 x).2 ⟨hx, himp a rfl x hx hc⟩⟩

theorem addDerivedUb_spec (vs : List (Fin (n + 1))) (hvs : ∀ v, v ∈ vs) (s : SG n) (hm : Mid s)
    (uby : W) (v : Fin (n + 1)) (hv : v ≠ 0) (k : Int) (A : (Fin (n + 1) → Int) → Prop)
    (himp : ∀ b, uby = some b → ∀ x, s.g.sat x → A x → x v - x 0 ≤ k + b) :
    Btw A s (addDerivedUb false vs s uby v k) := by
  unfold addDerivedUb
  rcases uby with _ | b
  · exact ⟨hm, fun _ h => h, fun _ h _ => h⟩
  · simp only
    have sp := addUb_spec vs hvs s hm v hv (k + b)
    rcases hq : addUb false vs s v (k + b) with _ | s1
    · rw [hq] at sp
      exact fun x hx hc => sp x hx (himp b rfl x hx hc)
    · rw [hq] at sp
      exact ⟨sp.1, fun x h => ((sp.2 x).1 h).1, fun x hx hc => (sp.2 x).2 ⟨hx, himp b rfl x hx hc⟩⟩

theorem addCst_spec (vs : List (Fin (n + 1))) (hvs : ∀ v, v ∈ vs) (hnd : vs.Nodup) (s : SG n)
    (hg : Good s) (c : Zones.Cst n) : StepGood (cstV c) s (addCst false vs s c) := by
  cases c with
  | ub x k =>
    exact (addUb_spec vs hvs s hg.mid x.succ (Fin.succ_ne_zero x) k).finish vs hvs
  | lb x k =>
    exact (addLb_spec vs hvs s hg.mid x.succ (Fin.succ_ne_zero x) k).finish vs hvs
  | diff x y k =>
    unfold addCst
    by_cases hxy : x = y
    · subst hxy
      simp only [if_true]
      by_cases hk : 0 ≤ k
      · simp only [hk, if_true, StepGood]
        refine ⟨hg, fun v => ⟨fun h => ⟨h, ?_⟩, fun h => h.1⟩⟩
        simp only [cstV, Cst.row, Cst.col, Cst.bound]; omega
      · simp only [hk, if_false, StepGood]
        intro v _ hP
        simp only [cstV, Cst.row, Cst.col, Cst.bound] at hP; omega
    simp only [hxy, if_false]
    have hx0 : x.succ ≠ 0 := Fin.succ_ne_zero x
    have hy0 : y.succ ≠ 0 := Fin.succ_ne_zero y
    have hne : y.succ ≠ x.succ := fun e => hxy (Fin.succ_inj.1 e).symm
    have hA : ∀ v, cstV (Cst.diff x y k) v ↔ v x.succ - v y.succ ≤ k := fun v => Iff.rfl
    -- first derived bound
    have h1 := addDerivedLb_spec vs hvs s hg.mid (edge s.g x.succ 0) y.succ hy0 k
      (fun v => v x.succ - v y.succ ≤ k) (by
        intro a ha v hv hc
        have := sat_edge hv ha
        omega)
    rcases hr1 : addDerivedLb false vs s (edge s.g x.succ 0) y.succ k with _ | s1
    · rw [hr1] at h1
      simp only [Option.bind, StepGood]
      exact fun v hv hc => h1 v hv ((hA v).1 hc)
    rw [hr1] at h1
    obtain ⟨hm1, hb1, hf1⟩ := h1
    simp only [Option.bind]
    -- second derived bound
    have h2 := addDerivedUb_spec vs hvs s1 hm1 (edge s.g 0 y.succ) x.succ hx0 k
      (fun v => s.g.sat v ∧ v x.succ - v y.succ ≤ k) (by
        intro b hb v _ hc
        have := sat_edge hc.1 hb
        omega)
    rcases hr2 : addDerivedUb false vs s1 (edge s.g 0 y.succ) x.succ k with _ | s2
    · rw [hr2] at h2
      simp only [StepGood]
      exact fun v hv hc => h2 v (hf1 v hv ((hA v).1 hc)) ⟨hv, (hA v).1 hc⟩
    rw [hr2] at h2
    obtain ⟨hm2, hb2, hf2⟩ := h2
    simp only
    -- the difference constraint itself
    have sp := (addDiffEdge_spec vs hvs hnd s2 hm2 y.succ x.succ hy0 hx0 hne k).finish vs hvs
    rcases hr3 : (addDiffEdge false vs s2 y.succ x.succ k).map (closeBoundsEnd false vs) with _ | s3
    · rw [hr3] at sp
      simp only [StepGood] at sp ⊢
      exact fun v hv hc => sp v (hf2 v (hf1 v hv ((hA v).1 hc)) ⟨hv, (hA v).1 hc⟩) ((hA v).1 hc)
    · rw [hr3] at sp
      simp only [StepGood] at sp ⊢
      refine ⟨sp.1, fun v => ?_⟩
      rw [sp.2 v]
      constructor
      · rintro ⟨h, hc⟩; exact ⟨hb1 v (hb2 v h), hc⟩
      · rintro ⟨h, hc⟩; exact ⟨hf2 v (hf1 v h ((hA v).1 hc)) ⟨h, (hA v).1 hc⟩, hc⟩

/-- top is in split normal form with the zero potential -/
theorem good_top : Good (SG.top : SG n) := by
  refine ⟨⟨fun i => by simp [SG.top], ?_⟩, fun i j k hk => by simp [SG.top] at hk⟩
  intro i j k _
  simp only [zdiag_get, SG.top, Mat.get_ofFn]
  by_cases hij : i = j
  · subst hij
    by_cases hik : i = k
    · subst hik; simp
    · have : ¬ (k = i) := fun e => hik e.symm
      simp [hik, this]
  · by_cases hik : i = k
    · subst hik; simp [hij]
    · simp [hij, hik]

/-- relation between the coded value and the canonical matrix after the same history -/
def HistRel (acc : Option (SG n)) (z : Zone n) : Prop :=
  match acc with
  | none => ∀ v, ¬ z.sat v
  | some s => Good s ∧ ∀ v, s.g.sat v ↔ z.sat v

theorem histRel_step (vs : List (Fin (n + 1))) (hvs : ∀ v, v ∈ vs) (hnd : vs.Nodup)
    (acc : Option (SG n)) (z : Zone n) (c : Zones.Cst n) (h : HistRel acc z) :
    HistRel (addStep false vs acc c) (assumeCst z c) := by
  cases acc with
  | none =>
    intro v hv
    exact h v ((assumeCst_sat z c v).1 hv).1
  | some s =>
    obtain ⟨hg, he⟩ := h
    have sp := addCst_spec vs hvs hnd s hg c
    show HistRel (addCst false vs s c) (assumeCst z c)
    rcases hq : addCst false vs s c with _ | s'
    · rw [hq] at sp
      intro v hv
      obtain ⟨h1, h2⟩ := (assumeCst_sat z c v).1 hv
      exact sp v ((he v).2 h1) h2
    · rw [hq] at sp
      refine ⟨sp.1, fun v => ?_⟩
      rw [sp.2 v, he v, assumeCst_sat]

/-- a history of constraints: the coded value against the canonical one -/
theorem addAll_spec (vs : List (Fin (n + 1))) (hvs : ∀ v, v ∈ vs) (hnd : vs.Nodup)
    (cs : List (Zones.Cst n)) : HistRel (addAll false vs cs) (assumeAll (Zones.top : Zone n) cs) := by
  have gen : ∀ (cs : List (Zones.Cst n)) (acc : Option (SG n)) (z : Zone n), HistRel acc z →
      HistRel (cs.foldl (addStep false vs) acc) (assumeAll z cs) := by
    intro cs
    induction cs with
    | nil => intro acc z h; exact h
    | cons c cs ih =>
      intro acc z h
      simp only [List.foldl_cons, assumeAll]
      exact ih _ _ (histRel_step vs hvs hnd acc z c h)
  apply gen cs (some SG.top) Zones.top
  exact ⟨good_top, fun v => ⟨fun _ => Mat.top_sat v, fun _ i j k hk => by simp [SG.top] at hk⟩⟩

end DbmIncr
end Crab
