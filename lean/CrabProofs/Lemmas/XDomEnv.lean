import CrabProofs.Lemmas.PatriciaSepDom
import CrabModel.Dom.NonRelEnv

/-!
  The environment shared by `constant_domain`, `sign_domain` and `congruence_domain`
  (`Crab.XDom.Env V` = `SepDom V`, CrabModel/Dom/NonRelEnv.lean) for an arbitrary value lattice
  that satisfies `Laws`: concretisation `γ`, invariant `Inv` (well-formed Patricia tree whose
  stored values are neither bottom nor top), and the soundness of every forwarded operation,
  obtained from the tree-level specifications of `CrabProofs/Lemmas/PatriciaSepDom.lean`.
-/
set_option linter.unusedSectionVars false

namespace Crab
namespace XDom
open Patricia Patricia.Tree Lin SepDom

variable {V : Type}

/-- the representation invariant of the values of the class `Value` (e.g. the standard form
    `0 ≤ b < a` of `congruence`); `True` for the classes that have none -/
class GoodVal (V : Type) where
  good : V → Prop

/-- values `separate_domain` stores: neither bottom nor top (and in standard form) -/
def Stored [GoodVal V] (L : Lattice V) (v : V) : Prop :=
  L.isBottom v = false ∧ L.isTop v = false ∧ GoodVal.good v

/-- what is needed of an upper-bound operation (join, widening) -/
structure UpperLaws [GoodVal V] (L : Lattice V) (mem : Int → V → Prop) (f : V → V → V) : Prop where
  upper : ∀ x y k, mem k x ∨ mem k y → mem k (f x y)
  idem : ∀ x, Stored L x → f x x = x
  nonbot : ∀ x y, Stored L x → Stored L y → L.isBottom (f x y) = false
  good : ∀ x y, Stored L x → Stored L y → GoodVal.good (f x y)

/-- what is needed of a lower-bound operation (meet, narrowing) -/
structure LowerLaws [GoodVal V] (L : Lattice V) (mem : Int → V → Prop) (g : V → V → V) : Prop where
  sound : ∀ x y k, mem k x → mem k y → mem k (g x y)
  idem : ∀ x, Stored L x → g x x = x
  nontop : ∀ x y, Stored L x → Stored L y → L.isBottom (g x y) = false → L.isTop (g x y) = false
  good : ∀ x y, Stored L x → Stored L y → GoodVal.good (g x y)

/-- laws of the value lattice w.r.t. its concretisation `mem k v` (`k ∈ γ(v)`) -/
structure Laws [GoodVal V] (L : Lattice V) (mem : Int → V → Prop) : Prop where
  isTop_top : L.isTop L.top = true
  isBottom_top : L.isBottom L.top = false
  isBottom_bottom : L.isBottom L.bottom = true
  good_top : GoodVal.good L.top
  good_bottom : GoodVal.good L.bottom
  mem_top : ∀ k, mem k L.top
  not_mem_bottom : ∀ v k, L.isBottom v = true → ¬ mem k v
  beq_sound : ∀ x y, L.beq x y = true → x = y
  leq_refl : ∀ x, Stored L x → L.leq x x = true
  leq_sound : ∀ x y k, L.leq x y = true → mem k x → mem k y
  nonbot_mem : ∀ v, L.isBottom v = false → ∃ k, mem k v
  nontop_out : ∀ v, Stored L v → ∃ k, ¬ mem k v
  join : UpperLaws L mem L.join
  widen : UpperLaws L mem L.widen
  meet : LowerLaws L mem L.meet
  narrow : LowerLaws L mem L.narrow

abbrev State := Var → Int

/-- `σ[x := n]` -/
def upd (σ : State) (x : Var) (n : Int) : State := fun y => if y = x then n else σ y

@[simp] theorem upd_same (σ : State) (x : Var) (n : Int) : upd σ x n x = n := by simp [upd]
theorem upd_other (σ : State) {x y : Var} (n : Int) (h : y ≠ x) : upd σ x n y = σ y := by simp [upd, h]
theorem upd_self (σ : State) (x : Var) : upd σ x (σ x) = σ := by
  funext y; unfold upd; split
  · rename_i h; rw [h]
  · rfl

namespace Env

/-- the invariant of `separate_domain`: well-formed tree (keys `< 2^64`), no stored bottom or
    top, empty tree when bottom -/
def Inv [GoodVal V] (L : Lattice V) (e : Env V) : Prop := SepDom.Inv (Stored L) e

/-- concretisation: the integer valuations described by the environment -/
def γ (L : Lattice V) (mem : Int → V → Prop) (e : Env V) (σ : State) : Prop :=
  e.isBot = false ∧ ∀ x, mem (σ x) (Env.get L e x)

variable [GoodVal V] {L : Lattice V} {mem : Int → V → Prop}

theorem ctx_sound (hL : Laws L mem) : (ctxOf L).SoundOn (Stored L) :=
  ⟨fun _ _ h => by simp [ctxOf] at h, fun x y _ h => hL.beq_sound x y h⟩

theorem inv_top : Inv L (top : Env V) := SepDom.inv_top
theorem inv_bot : Inv L (bot : Env V) := SepDom.inv_bottom

theorem get_eq (e : Env V) (k : Var) :
    get L e k = if e.isBot then L.bottom else (e.tree.lookup k).getD L.top := by
  unfold get atKey
  split
  · rfl
  · cases e.tree.lookup k <;> rfl

theorem get_of_bot {e : Env V} (h : e.isBot = true) (k : Var) : get L e k = L.bottom := by
  rw [get_eq, h]; rfl

/-- what `at` returns on a non-bottom environment: a stored value or top -/
theorem get_cases {e : Env V} (he : Inv L e) (ne : e.isBot = false) (k : Var) :
    (∃ x, e.tree.lookup k = some x ∧ get L e k = x ∧ Stored L x) ∨
    (e.tree.lookup k = none ∧ get L e k = L.top) := by
  rw [get_eq, ne]
  cases hl : e.tree.lookup k with
  | none => exact Or.inr ⟨rfl, rfl⟩
  | some x => exact Or.inl ⟨x, rfl, rfl, he.1.val_of_lookup hl⟩

theorem get_not_bottom (hL : Laws L mem) {e : Env V} (he : Inv L e) (ne : e.isBot = false) (k : Var) :
    L.isBottom (get L e k) = false := by
  rcases get_cases he ne k with ⟨x, _, e1, hx⟩ | ⟨_, e1⟩
  · rw [e1]; exact hx.1
  · rw [e1]; exact hL.isBottom_top

theorem get_good (hL : Laws L mem) {e : Env V} (he : Inv L e) (k : Var) : GoodVal.good (get L e k) := by
  cases ne : e.isBot
  · rcases get_cases he ne k with ⟨x, _, e1, hx⟩ | ⟨_, e1⟩
    · rw [e1]; exact hx.2.2
    · rw [e1]; exact hL.good_top
  · rw [get_of_bot ne]; exact hL.good_bottom

theorem γ_top (hL : Laws L mem) (σ : State) : γ L mem (top : Env V) σ := by
  refine ⟨rfl, fun x => ?_⟩
  rw [get_eq]; exact hL.mem_top _

theorem not_γ_of_bot {e : Env V} (h : e.isBot = true) (σ : State) : ¬ γ L mem e σ := by
  intro hg; rw [hg.1] at h; cases h

theorem not_γ_bot (σ : State) : ¬ γ L mem (bot : Env V) σ := not_γ_of_bot rfl σ

/-! ### `set`, `operator-=` -/

/-- `set(k, v)`: invariant, bottom flag and bindings of the result (a top value removes the
    binding) -/
theorem set_spec (hL : Laws L mem) {e : Env V} (he : Inv L e) {k : Var} (hk : k < 2 ^ 64) {v : V}
    (hgd : GoodVal.good v) :
    Inv L (set L e k v) ∧
    ((set L e k v).isBot = (e.isBot || L.isBottom v)) ∧
    ((set L e k v).isBot = false → ∀ k', get L (set L e k v) k' =
      if k' = k then (if L.isTop v then L.top else v) else get L e k') := by
  unfold set
  cases ne : e.isBot
  · cases hvb : L.isBottom v
    · cases hvt : L.isTop v
      · obtain ⟨hi, hb, hl⟩ := set_spec_stored (L := L) (ctx_sound hL) he ne hk (v := v) ⟨hvb, hvt, hgd⟩ hvb hvt
        refine ⟨hi, by simpa using hb, fun _ k' => ?_⟩
        rw [get_eq, get_eq, hb, ne, hl]
        by_cases e1 : k' = k <;> simp [e1]
      · obtain ⟨hi, hb, hl⟩ := set_spec_top (L := L) (ctx_sound hL) he ne hk hvb hvt
        refine ⟨hi, by simpa using hb, fun _ k' => ?_⟩
        rw [get_eq, get_eq, hb, ne, hl]
        by_cases e1 : k' = k <;> simp [e1]
    · rw [set_bottom_val (L := L) ne hvb]
      exact ⟨SepDom.inv_bottom, by simp [SepDom.bottom], fun h => by cases h⟩
  · rw [set_of_bottom ne]
    exact ⟨he, by simp [ne], fun h => by rw [ne] at h; cases h⟩

theorem set_inv (hL : Laws L mem) {e : Env V} (he : Inv L e) {k : Var} (hk : k < 2 ^ 64) {v : V}
    (hgd : GoodVal.good v) : Inv L (set L e k v) := (set_spec hL he hk hgd).1

/-- `x` receives any member of `v` -/
theorem set_sound (hL : Laws L mem) {e : Env V} (he : Inv L e) {σ : State} (hg : γ L mem e σ)
    {x : Var} (hx : x < 2 ^ 64) {v : V} (hgd : GoodVal.good v) {n : Int} (hn : mem n v) :
    γ L mem (set L e x v) (upd σ x n) := by
  obtain ⟨_, hb, hl⟩ := set_spec hL he hx hgd
  have hvb : L.isBottom v = false := by
    cases h : L.isBottom v
    · rfl
    · exact absurd hn (hL.not_mem_bottom v n h)
  have hb' : (set L e x v).isBot = false := by rw [hb, hg.1, hvb]; rfl
  refine ⟨hb', fun y => ?_⟩
  rw [hl hb']
  by_cases e1 : y = x
  · subst e1
    simp only [if_true, upd_same]
    split
    · exact hL.mem_top _
    · exact hn
  · simp only [e1, if_false]; rw [upd_other _ _ e1]; exact hg.2 y

/-- refinement of a variable by a value that contains its current concrete value -/
theorem set_sound_same (hL : Laws L mem) {e : Env V} (he : Inv L e) {σ : State} (hg : γ L mem e σ)
    {x : Var} (hx : x < 2 ^ 64) {v : V} (hgd : GoodVal.good v) (hn : mem (σ x) v) : γ L mem (set L e x v) σ := by
  have := set_sound hL he hg hx hgd hn
  rwa [upd_self] at this

theorem forget_spec' (hL : Laws L mem) {e : Env V} (he : Inv L e) {k : Var} (hk : k < 2 ^ 64) :
    Inv L (forget L e k) ∧ (forget L e k).isBot = e.isBot ∧
      (e.isBot = false → ∀ k', get L (forget L e k) k' = if k' = k then L.top else get L e k') := by
  unfold forget
  cases ne : e.isBot
  · simp only [Bool.false_eq_true, if_false]
    obtain ⟨hi, hb, hl⟩ := SepDom.forget_spec (ctx_sound hL) he hk
    refine ⟨hi, by rw [hb, ne], fun _ k' => ?_⟩
    rw [get_eq, get_eq, hb, ne, hl]
    by_cases e1 : k' = k <;> simp [e1]
  · simp only [if_true]
    exact ⟨he, ne, fun h => by cases h⟩

theorem forget_inv (hL : Laws L mem) {e : Env V} (he : Inv L e) {k : Var} (hk : k < 2 ^ 64) :
    Inv L (forget L e k) := (forget_spec' hL he hk).1

/-- `operator-=(x)`: `x` may take any value -/
theorem forget_sound (hL : Laws L mem) {e : Env V} (he : Inv L e) {σ : State} (hg : γ L mem e σ)
    {x : Var} (hx : x < 2 ^ 64) (n : Int) : γ L mem (forget L e x) (upd σ x n) := by
  obtain ⟨_, hb, hl⟩ := forget_spec' hL he hx
  refine ⟨by rw [hb]; exact hg.1, fun y => ?_⟩
  rw [hl hg.1]
  by_cases e1 : y = x
  · simp only [e1, if_true]; exact hL.mem_top _
  · simp only [e1, if_false]; rw [upd_other _ _ e1]; exact hg.2 y

end Env
end XDom
end Crab
