import CrabProofs.Lemmas.WtoInv

/-! Basic lemmas about the invariant of `WtoInv.lean`. -/
namespace Crab
namespace Wto

theorem stk_cons (p : GF) (gs : List GF) : stk (p :: gs) = p.seg ++ stk gs := by
  simp [stk]

theorem stk_nil : stk [] = [] := rfl

theorem mem_stk_of_mem {p : GF} {gs : List GF} {x : Nat} (hp : p ∈ gs) (hx : x ∈ p.seg) : x ∈ stk gs :=
  List.mem_flatMap.2 ⟨p, hp, hx⟩

theorem node_mem_seg (p : GF) : p.f.node ∈ p.seg := by simp [GF.seg]

theorem above_sub_seg {p : GF} {x : Nat} (h : x ∈ p.above) : x ∈ p.seg := by simp [GF.seg, h]

/-- the frame invariant only looks at the dfn of the nodes of `S`, and is monotone in the ghost
    sets -/
theorem FrameOK.mono {g : Graph} {num0 : Nat} {dnf dnf' : Nat → Nat} {ln ln' : List Nat}
    {D D' : Nat → Prop} {S S' : List Nat} {p : GF}
    (h : FrameOK g num0 dnf ln D S p)
    (hseg : ∀ x ∈ p.seg, x ∈ S)
    (hdn : ∀ y ∈ S, dnf' y = dnf y) (hln : ∀ z ∈ ln, z ∈ ln') (hD : ∀ y, D y → D' y)
    (hS : ∀ y ∈ S, y ∈ S') : FrameOK g num0 dnf' ln' D' S' p := by
  have hnode : dnf' p.f.node = dnf p.f.node := hdn _ (hseg _ (node_mem_seg p))
  refine ⟨h.succ_eq, h.min_gt, by rw [hnode]; exact h.min_le, ?_, ?_, ?_, ?_, ?_, ?_⟩
  · intro y hy
    rcases h.ex_node y hy with hd | ⟨hyS, hle⟩
    · exact Or.inl (hD y hd)
    · exact Or.inr ⟨hS y hyS, by rw [hdn y hyS]; exact hle⟩
  · intro x hx y hy
    rcases h.ex_above x hx y hy with hd | ⟨hyS, hle⟩
    · exact Or.inl (hD y hd)
    · exact Or.inr ⟨hS y hyS, by rw [hdn y hyS]; exact hle⟩
  · rcases h.min_wit with he | ⟨z, hz, hzS, hzd⟩
    · exact Or.inl (by rw [hnode]; exact he)
    · exact Or.inr ⟨z, hln z hz, hS z hzS, by rw [hdn z hzS]; exact hzd⟩
  · intro x hx
    obtain ⟨z, hz, hzS, h1, h2⟩ := h.above_wit x hx
    exact ⟨z, hln z hz, hS z hzS, by rw [hdn z hzS]; exact h1,
      by rw [hdn z hzS, hdn x (hseg x (above_sub_seg hx))]; exact h2⟩
  · intro hd
    rcases h.self_loop hd with h1 | h1
    · exact Or.inl (hln _ h1)
    · exact Or.inr (by rw [hnode]; exact h1)
  · intro x hx
    obtain ⟨q, hq, h1, h2⟩ := h.parent x hx
    exact ⟨q, hq, by rw [hdn q (hseg q hq), hdn x (hseg x (above_sub_seg hx))]; exact h1, h2⟩

/-- in a list sorted by decreasing dfn, the elements at least as large as `r` are `r` and the ones
    before it -/
theorem sorted_ge_mem {f : Nat → Nat} {a b : List Nat} {r : Nat}
    (h : (a ++ r :: b).Pairwise (fun x y => f x > f y)) {z : Nat} (hz : z ∈ a ++ r :: b)
    (hge : f r ≤ f z) : z ∈ a ++ [r] := by
  rw [List.pairwise_append] at h
  rcases List.mem_append.1 hz with hza | hzb
  · exact List.mem_append_left _ hza
  · rcases List.mem_cons.1 hzb with rfl | hzb
    · simp
    · have := (List.pairwise_cons.1 h.2.1).1 z hzb
      omega

theorem sorted_nodup {f : Nat → Nat} {l : List Nat} (h : l.Pairwise (fun x y => f x > f y)) : l.Nodup := by
  apply List.Pairwise.imp _ h
  intro a b hab e
  subst e
  omega

/-- elements before `r` have a larger dfn -/
theorem sorted_above_gt {f : Nat → Nat} {a b : List Nat} {r : Nat}
    (h : (a ++ r :: b).Pairwise (fun x y => f x > f y)) {x : Nat} (hx : x ∈ a) : f r < f x := by
  rw [List.pairwise_append] at h
  exact h.2.2 x hx r (by simp)

/-- elements after `r` have a smaller dfn -/
theorem sorted_below_lt {f : Nat → Nat} {a b : List Nat} {r : Nat}
    (h : (a ++ r :: b).Pairwise (fun x y => f x > f y)) {x : Nat} (hx : x ∈ b) : f x < f r := by
  rw [List.pairwise_append] at h
  exact (List.pairwise_cons.1 h.2.1).1 x hx

theorem dn_of_getDfn {t : Array Dfn} {x k : Nat} (h : getDfn t x = .fin k) : dn t x = k := by
  simp [dn, h]

theorem EdgeOK.mem_right {W : List WtoC} {x y : Nat} (h : EdgeOK W x y) : y ∈ flattenL W := by
  rcases h with ⟨l1, l2, l3, he⟩ | ⟨body, hs, _⟩
  · rw [he]; simp
  · exact flatten_of_sub' hs
where
  flatten_of_sub' {l : List WtoC} {y : Nat} {body : List WtoC} (hs : Sub (.cycle y body) l) :
      y ∈ flattenL l := by
    generalize hc : WtoC.cycle y body = c at hs
    induction hs with
    | here hm => subst hc; exact mem_flattenL.2 ⟨_, hm, by simp [flattenC]⟩
    | inside hm _ ih => exact mem_flattenL.2 ⟨_, hm, by simp [flattenC, ih]⟩

end Wto
end Crab
