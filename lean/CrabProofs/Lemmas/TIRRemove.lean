import CrabProofs.Lemmas.TIRWfp

/-!
  `cfg::remove(bb)` on a well-formed CFG: effect on the lookups (`RemoveSpec`) and preservation
  of well-formedness.
-/
namespace Crab
namespace TIR

theorem foldl_removeEdge_in (l : Label) : ∀ (ps : List Label) (P : Prog),
    (ps.foldl (fun Q p => Q.removeEdge p l) P).labels = P.labels ∧
    (ps.foldl (fun Q p => Q.removeEdge p l) P).entry = P.entry ∧
    (ps.foldl (fun Q p => Q.removeEdge p l) P).exit = P.exit ∧
    (ps.foldl (fun Q p => Q.removeEdge p l) P).outputs = P.outputs ∧
    (∀ l', (ps.foldl (fun Q p => Q.removeEdge p l) P).stmtsOf l' = P.stmtsOf l') ∧
    (∀ l', (ps.foldl (fun Q p => Q.removeEdge p l) P).succsOf l' =
        if l' ∈ ps then removeAdj (P.succsOf l') l else P.succsOf l') ∧
    (∀ l', l' ≠ l → (ps.foldl (fun Q p => Q.removeEdge p l) P).predsOf l' = P.predsOf l') := by
  intro ps
  induction ps with
  | nil => intro P; simp
  | cons p r ih =>
    intro P
    simp only [List.foldl_cons]
    obtain ⟨h1, h2, h3, h4, h5, h6, h7⟩ := ih (P.removeEdge p l)
    refine ⟨by rw [h1, labels_removeEdge], by rw [h2]; rfl, by rw [h3]; rfl, by rw [h4]; rfl, ?_, ?_, ?_⟩
    · intro l'; rw [h5, stmtsOf_removeEdge]
    · intro l'
      rw [h6, succsOf_removeEdge]
      by_cases hp : l' = p
      · subst hp
        simp only [if_true, List.mem_cons, true_or]
        split
        · simp [removeAdj, List.filter_filter]
        · rfl
      · simp only [hp, if_false, List.mem_cons, false_or]
    · intro l' hl'
      rw [h7 l' hl', predsOf_removeEdge]
      simp [hl']

theorem foldl_removeEdge_out (l : Label) : ∀ (ss : List Label) (P : Prog),
    (ss.foldl (fun Q s => Q.removeEdge l s) P).labels = P.labels ∧
    (ss.foldl (fun Q s => Q.removeEdge l s) P).entry = P.entry ∧
    (ss.foldl (fun Q s => Q.removeEdge l s) P).exit = P.exit ∧
    (ss.foldl (fun Q s => Q.removeEdge l s) P).outputs = P.outputs ∧
    (∀ l', (ss.foldl (fun Q s => Q.removeEdge l s) P).stmtsOf l' = P.stmtsOf l') ∧
    (∀ l', (ss.foldl (fun Q s => Q.removeEdge l s) P).predsOf l' =
        if l' ∈ ss then removeAdj (P.predsOf l') l else P.predsOf l') ∧
    (∀ l', l' ≠ l → (ss.foldl (fun Q s => Q.removeEdge l s) P).succsOf l' = P.succsOf l') := by
  intro ss
  induction ss with
  | nil => intro P; simp
  | cons p r ih =>
    intro P
    simp only [List.foldl_cons]
    obtain ⟨h1, h2, h3, h4, h5, h6, h7⟩ := ih (P.removeEdge l p)
    refine ⟨by rw [h1, labels_removeEdge], by rw [h2]; rfl, by rw [h3]; rfl, by rw [h4]; rfl, ?_, ?_, ?_⟩
    · intro l'; rw [h5, stmtsOf_removeEdge]
    · intro l'
      rw [h6, predsOf_removeEdge]
      by_cases hp : l' = p
      · subst hp
        simp only [if_true, List.mem_cons, true_or]
        split
        · simp [removeAdj, List.filter_filter]
        · rfl
      · simp only [hp, if_false, List.mem_cons, false_or]
    · intro l' hl'
      rw [h7 l' hl', succsOf_removeEdge]
      simp [hl']

structure RemoveSpec (P T : Prog) (l : Label) : Prop where
  labels : T.labels = P.labels.filter (fun x => x != l)
  entry : T.entry = P.entry
  exit : T.exit = P.exit
  outs : T.outputs = P.outputs
  ne_entry : l ≠ P.entry
  ne_exit : P.exit ≠ some l
  succ : ∀ l', T.succsOf l' = if l' = l then [] else removeAdj (P.succsOf l') l
  pred : ∀ l', T.predsOf l' = if l' = l then [] else removeAdj (P.predsOf l') l
  stmts : ∀ l', T.stmtsOf l' = if l' = l then [] else P.stmtsOf l'

theorem remove_spec {P T : Prog} {l : Label} (hwf : WFp P) (h : P.remove l = some T) : RemoveSpec P T l := by
  unfold Prog.remove at h
  split at h
  · cases h
  · rename_i hne
    split at h
    · cases h
    · rename_i hnx
      cases hb : P.block? l with
      | none => rw [hb] at h; cases h
      | some B =>
        rw [hb] at h
        simp only [Option.some.injEq] at h
        subst h
        have hBs : P.succsOf l = B.succ := by simp [Prog.succsOf, hb]
        have hBp : P.predsOf l = B.pred := by simp [Prog.predsOf, hb]
        obtain ⟨a1, a2, a3, a4, a5, a6, a7⟩ := foldl_removeEdge_in l (B.pred.filter (fun p => p != l)) P
        obtain ⟨b1, b2, b3, b4, b5, b6, b7⟩ := foldl_removeEdge_out l (B.succ.filter (fun s => s != l))
          ((B.pred.filter (fun p => p != l)).foldl (fun Q p => Q.removeEdge p l) P)
        refine ⟨?_, ?_, ?_, ?_, ?_, ?_, ?_, ?_, ?_⟩
        · rw [labels_eraseBlock, b1, a1]
        · show Prog.entry (List.foldl _ _ _) = _; rw [b2, a2]
        · show Prog.exit (List.foldl _ _ _) = _; rw [b3, a3]
        · show Prog.outputs (List.foldl _ _ _) = _; rw [b4, a4]
        · intro hc; exact hne (by simp [hc])
        · intro hc; exact hnx (by simp [hc])
        · intro l'
          rw [succsOf_eraseBlock]
          by_cases hl' : l' = l
          · simp [hl']
          · simp only [hl', if_false]
            rw [b7 l' hl', a6]
            split
            · rfl
            · rename_i hnm
              have : l ∉ P.succsOf l' := by
                intro hc
                have := (hwf.sym l' l).mp hc
                rw [hBp] at this
                exact hnm (List.mem_filter.mpr ⟨this, by simpa using hl'⟩)
              rw [removeAdj_of_not_mem this]
        · intro l'
          rw [predsOf_eraseBlock]
          by_cases hl' : l' = l
          · simp [hl']
          · simp only [hl', if_false]
            rw [b6, a7 l' hl']
            split
            · rfl
            · rename_i hnm
              have : l ∉ P.predsOf l' := by
                intro hc
                have := (hwf.sym l l').mpr hc
                rw [hBs] at this
                exact hnm (List.mem_filter.mpr ⟨this, by simpa using hl'⟩)
              rw [removeAdj_of_not_mem this]
        · intro l'
          rw [stmtsOf_eraseBlock, b5, a5]

theorem RemoveSpec.wfp {P T : Prog} {l : Label} (hwf : WFp P) (h : RemoveSpec P T l) : WFp T where
  nodup := by rw [h.labels]; exact hwf.nodup.filter _
  entry := by
    rw [h.labels, h.entry]
    exact List.mem_filter.mpr ⟨hwf.entry, by simpa using fun hc => h.ne_entry hc.symm⟩
  exit := by
    intro x hx
    rw [h.exit] at hx
    rw [h.labels]
    refine List.mem_filter.mpr ⟨hwf.exit x hx, ?_⟩
    have : x ≠ l := by intro hc; subst hc; exact h.ne_exit hx
    simpa using this
  sym := by
    intro l1 l2
    rw [h.succ, h.pred]
    by_cases h1 : l1 = l
    · subst h1
      simp only [if_true, List.not_mem_nil, false_iff]
      split
      · simp
      · intro hc; exact (mem_removeAdj.mp hc).2 rfl
    · by_cases h2 : l2 = l
      · subst h2
        simp only [h1, if_false, if_true, List.not_mem_nil, iff_false]
        intro hc; exact (mem_removeAdj.mp hc).2 rfl
      · simp only [h1, h2, if_false, mem_removeAdj]
        constructor
        · rintro ⟨a, _⟩; exact ⟨(hwf.sym l1 l2).mp a, h1⟩
        · rintro ⟨a, _⟩; exact ⟨(hwf.sym l1 l2).mpr a, h2⟩
  succ_lab := by
    intro l1 l2 hl
    rw [h.succ] at hl
    split at hl
    · simp at hl
    · obtain ⟨a, b⟩ := mem_removeAdj.mp hl
      rw [h.labels]
      exact List.mem_filter.mpr ⟨hwf.succ_lab l1 l2 a, by simpa using b⟩
  nd_succ := by
    intro l1
    rw [h.succ]
    split
    · simp
    · exact nodup_removeAdj _ (hwf.nd_succ l1)
  nd_pred := by
    intro l1
    rw [h.pred]
    split
    · simp
    · exact nodup_removeAdj _ (hwf.nd_pred l1)

end TIR
end Crab
