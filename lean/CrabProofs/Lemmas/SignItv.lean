import CrabProofs.Lemmas.SignCls
import CrabProofs.Lemmas.BoolTable
import CrabProofs.Lemmas.IntervalLattice

/-! `sign::to_interval` / `sign::from_interval` against the interval model. -/
namespace Crab
namespace Sign
open Bound

theorem clsInItv_sound {k : Int} {i : Itv} (h : clsInItv (Cls.of k) i = true) : Itv.mem k i := by
  rcases Cls.of_cases k with ⟨hk, e⟩ | ⟨hk, e⟩ | ⟨hk, e⟩ <;> rw [e] at h <;>
    simp only [clsInItv, Bool.and_eq_true, beq_iff_eq] at h
  · refine ⟨by rw [h.1]; rfl, Bound.le_trans (b := fin (-1)) (by simp [Bound.le]; omega) h.2⟩
  · subst hk; exact ⟨h.1, h.2⟩
  · refine ⟨Bound.le_trans (b := fin 1) h.2 (by simp [Bound.le]; omega), by rw [h.1]; cases i.lb <;> rfl⟩

theorem fromInterval_sound {k : Int} {i : Itv} (hk : Itv.mem k i) : mem k (fromInterval i) := by
  unfold fromInterval
  rw [Itv.isBottom_false_of_mem hk]
  simp only [Bool.false_eq_true, if_false]
  have cls : ∀ (s : Sign) (l u : Bound), Itv.leq i (Itv.mk' l u) = true →
      (∀ k : Int, Bound.le l (fin k) = true → Bound.le (fin k) u = true → s.has (Cls.of k) = true) →
      mem k s := by
    intro s l u hle hs
    have := (Itv.mem_mk' k l u).mp (Itv.leq_sound hle hk)
    exact hs k this.1 this.2
  split
  · show top.has (Cls.of k) = true; rfl
  · split
    · rename_i h; apply cls eqz _ _ h; intro k h1 h2
      have : k = 0 := by simp [Bound.le] at h1 h2; omega
      subst this; decide
    · split
      · rename_i h; apply cls ltz _ _ h; intro k _ h2
        have : k < 0 := by simp [Bound.le] at h2; omega
        rw [Cls.of_neg this]; rfl
      · split
        · rename_i h; apply cls lez _ _ h; intro k _ h2
          have : k ≤ 0 := by simp [Bound.le] at h2; omega
          rcases Cls.of_cases k with ⟨_, e⟩ | ⟨_, e⟩ | ⟨hp, _⟩
          · rw [e]; rfl
          · rw [e]; rfl
          · omega
        · split
          · rename_i h; apply cls gtz _ _ h; intro k h1 _
            have : 0 < k := by simp [Bound.le] at h1; omega
            rw [Cls.of_pos this]; rfl
          · split
            · rename_i h; apply cls gez _ _ h; intro k h1 _
              have : 0 ≤ k := by simp [Bound.le] at h1; omega
              rcases Cls.of_cases k with ⟨hn, _⟩ | ⟨_, e⟩ | ⟨_, e⟩
              · omega
              · rw [e]; rfl
              · rw [e]; rfl
            · show top.has (Cls.of k) = true; rfl

end Sign
end Crab
