import CrabProofs.Lemmas.FunctorPackingOps

/-!
The statements of the packing domain (`stmt`: assign, weak_assign, apply, select, expand;
`addCsts`: `+=`), `is_top`, `operator<=`: invariant and soundness w.r.t. `γc`.
-/
namespace Crab
namespace Dom
namespace Fct

variable {V : Type} [DecidableEq V]

namespace PK
variable {N : NDom V}

/-- `union_find_domain::forget(x)` alone never loses a state -/
theorem ufForget_extensive {l : List (Pack N)} {s : St V} (x : V) (hw : WFl l) (h : ∀ p ∈ l, Pack.γc p s) :
    ∀ q ∈ ufForget l x, Pack.γc q s := by
  intro q hq
  have := ufForget_γc x (s x) hw h q hq
  rwa [St.set_self] at this

/-- the merged class after the base transformer, and the untouched classes, accept the successor -/
theorem merged_sound {l : List (Pack N)} {vars : List V} {acc : Pack N} {rest : List (Pack N)}
    (hm : merge N.top l vars = some (acc, rest)) (hw : WFl l) {f : N.B → N.B} {r : St V → St V → Prop}
    (hf : N.TSound f r) (hloc : Local r vars) {s s' : St V} (h : ∀ p ∈ l, Pack.γc p s) (hr : r s s') :
    ∀ q ∈ (⟨acc.vars, f acc.val⟩ : Pack N) :: rest, Pack.γc q s' := by
  have sp := merge_spec hm
  have hw' := sp.wfl hw
  rw [wfl_cons] at hw'
  intro q hq
  rcases List.mem_cons.1 hq with rfl | hq
  · intro t' ht'
    simp only at ht'
    -- the state before, replayed on the variables outside the merged class as `t'` has them
    let t : St V := fun v => if v ∈ acc.vars then s v else t' v
    have hagree : agree acc.vars s t := fun v hv => by simp [t, hv]
    have hacc : N.γ acc.val t := by
      apply sp.val_sound t (N.top_sound t)
      intro p hp hsub
      exact h p hp t (fun v hv => hagree v (hsub v hv))
    have hrt := hloc.2 s s' hr t (fun v hv => hagree v (sp.vars_sub v hv))
    have heq : (fun v => if v ∈ vars then s' v else t v) = t' := by
      funext v
      by_cases hv : v ∈ vars
      · simp only [hv, if_true]; exact (ht' v (sp.vars_sub v hv)).symm
      · simp only [hv, if_false, t]
        by_cases ha : v ∈ acc.vars
        · simp only [ha, if_true]; rw [ht' v ha, hloc.1 s s' hr v hv]
        · simp only [ha, if_false]
    rw [heq] at hrt
    exact hf _ _ _ hacc hrt
  · have hq0 := h q (sp.rest_sub q hq)
    intro t ht
    apply hq0
    intro v hv
    rw [ht v hv]
    apply hloc.1 s s' hr
    intro hvv
    exact hw'.1 q hq v (sp.vars_sub v hvv) hv

theorem stmtOn_wf (vars : List V) (f : N.B → N.B) (nb en : Bool) {l : List (Pack N)} (h : WFl l) :
    ∀ b, stmtOn vars f nb en l = some b → WF b := by
  intro b hb
  unfold stmtOn at hb
  split at hb
  · split at hb
    · simp at hb
    · simp only [Option.some.injEq] at hb; subst hb; trivial
  · rename_i acc rest hm
    have hw2 := (merge_spec hm).wfl h
    simp only at hb
    split at hb
    · simp only [Option.some.injEq] at hb; subst hb; trivial
    · simp only [Option.some.injEq] at hb; subst hb
      rw [wfl_cons] at hw2
      show WFl _
      rw [wfl_cons]
      exact hw2

theorem stmt_wf (fx : Option V) (vars : List V) (f : N.B → N.B) (nb en : Bool) {a : PK N} (h : WF a) :
    ∀ b, stmt fx vars f nb en a = some b → WF b := by
  intro b hb
  cases a with
  | bot => simp only [stmt, Option.some.injEq] at hb; subst hb; trivial
  | packs l =>
    simp only [stmt] at hb
    cases fx with
    | none => exact stmtOn_wf vars f nb en h b hb
    | some x => exact stmtOn_wf vars f nb en (ufForget_wfl x h) b hb

theorem stmtOn_sound {vars : List V} (hv : vars ≠ []) {f : N.B → N.B} (nb en : Bool)
    {r : St V → St V → Prop} (hf : N.TSound f r) (hloc : Local r vars) {l : List (Pack N)} (hw : WFl l)
    {s s' : St V} (h : ∀ p ∈ l, Pack.γc p s) (hr : r s s') : ∃ b, stmtOn vars f nb en l = some b ∧ γc b s' := by
  obtain ⟨⟨acc, rest⟩, hm⟩ := merge_isSome (fresh := N.top) hv (N.top_sound s)
    (fun p hp => Pack.γ_of_γc (h p hp))
  unfold stmtOn
  rw [hm]
  simp only
  have hres := merged_sound hm hw hf hloc h hr
  have hnb : N.isBot (f acc.val) = false :=
    N.isBot_false_of_γ (Pack.γ_of_γc (hres _ List.mem_cons_self))
  simp only [hnb, Bool.and_false, Bool.false_eq_true, if_false]
  exact ⟨_, rfl, hres⟩

/-- **soundness of a statement**: it is defined (no CRAB_ERROR) on every value that has a state, and
    the result accepts every successor -/
theorem stmt_sound (fx : Option V) {vars : List V} (hv : vars ≠ []) {f : N.B → N.B} (nb en : Bool)
    {r : St V → St V → Prop} (hf : N.TSound f r) (hloc : Local r vars) {a : PK N} (hw : WF a)
    {s s' : St V} (h : γc a s) (hr : r s s') : ∃ b, stmt fx vars f nb en a = some b ∧ γc b s' := by
  cases a with
  | bot => exact absurd h id
  | packs l =>
    simp only [stmt]
    cases fx with
    | none => exact stmtOn_sound hv nb en hf hloc hw h hr
    | some x => exact stmtOn_sound hv nb en hf hloc (ufForget_wfl x hw) (ufForget_extensive x hw h) hr

/-! ### `operator+=` -/

theorem addCsts_wf : ∀ (cs : List (CstInfo N)) {a : PK N}, WF a → WF (addCsts cs a)
  | _, .bot, _ => by simp [addCsts, WF]
  | [], .packs l, h => by simpa [addCsts] using h
  | c :: cs, .packs l, h => by
    simp only [addCsts]
    split
    · trivial
    · split
      · exact addCsts_wf cs h
      · split
        · exact addCsts_wf cs h
        · split
          · trivial
          · rename_i acc rest hm
            split
            · trivial
            · apply addCsts_wf cs
              have := (merge_spec hm).wfl h
              rw [wfl_cons] at this
              show WFl _
              rw [wfl_cons]; exact this

theorem addCsts_sound : ∀ (cs : List (CstInfo N)), (∀ c ∈ cs, (c.contra = true → ∀ s, ¬ c.sat s) ∧
      N.TSound c.f (fun s s' => c.sat s ∧ s' = s) ∧ (∀ s t, agree c.vars s t → c.sat s → c.sat t)) →
    ∀ {a : PK N}, WF a → ∀ {s : St V}, γc a s → (∀ c ∈ cs, c.sat s) → γc (addCsts cs a) s
  | _, _, .bot, _, _, h, _ => absurd h id
  | [], _, .packs l, _, s, h, _ => by simpa [addCsts] using h
  | c :: cs, hcs, .packs l, hw, s, h, hsat => by
    have hc := hcs c List.mem_cons_self
    have hcs' := fun c' hc' => hcs c' (List.mem_cons_of_mem _ hc')
    have hsat' := fun c' hc' => hsat c' (List.mem_cons_of_mem _ hc')
    have hs := hsat c List.mem_cons_self
    simp only [addCsts]
    split
    · rename_i hcon; exact absurd hs (hc.1 hcon s)
    · split
      · exact addCsts_sound cs hcs' hw h hsat'
      · split
        · exact addCsts_sound cs hcs' hw h hsat'
        · rename_i hne
          have hne' : c.vars ≠ [] := by intro he; rw [he] at hne; simp at hne
          obtain ⟨⟨acc, rest⟩, hm⟩ := merge_isSome (fresh := N.top) hne' (N.top_sound s)
            (fun p hp => Pack.γ_of_γc (h p hp))
          rw [hm]
          simp only
          have hloc : Local (fun s s' => c.sat s ∧ s' = s) c.vars := by
            constructor
            · intro s1 s2 h12 v _; rw [h12.2]
            · intro s1 s2 h12 t ht
              refine ⟨hc.2.2 s1 t ht h12.1, ?_⟩
              funext v
              rw [h12.2]
              split
              · rename_i hv; exact (ht v hv).symm
              · rfl
          have hres := merged_sound hm hw hc.2.1 hloc h ⟨hs, rfl⟩
          have hnb : N.isBot (c.f acc.val) = false :=
            N.isBot_false_of_γ (Pack.γ_of_γc (hres _ List.mem_cons_self))
          simp only [hnb, Bool.false_eq_true, if_false]
          have hw2 : WF (.packs ((⟨acc.vars, c.f acc.val⟩ : Pack N) :: rest)) := by
            have := (merge_spec hm).wfl hw
            rw [wfl_cons] at this
            show WFl _
            rw [wfl_cons]; exact this
          exact addCsts_sound cs hcs' hw2 hres hsat'

/-! ### `is_bottom`, `is_top`, `operator<=` -/

theorem not_γc_of_isBottom {a : PK N} (h : isBottom a = true) (s : St V) : ¬ γc a s := by
  cases a with
  | bot => exact id
  | packs l => simp [isBottom] at h

theorem γc_of_isTop (t : N.TopSound) {a : PK N} (h : isTop a = true) (s : St V) : γc a s := by
  cases a with
  | bot => simp [isTop] at h
  | packs l =>
    intro p hp u _
    exact t _ u (List.all_eq_true.1 h p hp)

theorem γc_top (s : St V) : γc (top : PK N) s := by intro p hp; simp at hp

theorem ufLeq_sound {a b : List (Pack N)} (hb : WFl b) (h : ufLeq a b = true) {s : St V}
    (hg : ∀ p ∈ a, Pack.γc p s) : ∀ R ∈ b, Pack.γc R s := by
  intro R hR t ht
  have hall := List.all_eq_true.1 h R hR
  obtain ⟨v, hv⟩ := List.exists_mem_of_ne_nil _ (hb.2 R hR)
  have := List.all_eq_true.1 hall v hv
  split at this
  · simp at this
  · rename_i L hL
    simp only [Bool.and_eq_true] at this
    have hLm := packOf_some hL
    apply N.leq_sound _ _ t this.2
    apply hg L hLm.1
    intro u hu
    exact ht u (List.contains_iff_mem.1 (List.all_eq_true.1 this.1 u hu))

theorem leq_sound (t : N.TopSound) {a b : PK N} (hb : WF b) (h : leq a b = true) {s : St V} (hg : γc a s) :
    γc b s := by
  unfold leq at h
  split at h
  · rename_i hc
    rcases Bool.or_eq_true _ _ ▸ hc with hc | hc
    · exact absurd hg (not_γc_of_isBottom hc s)
    · exact γc_of_isTop t hc s
  · split at h
    · simp at h
    · split at h
      · rename_i la lb
        exact ufLeq_sound hb h hg
      · simp at h

theorem ufLeq_refl (hr : N.LeqRefl) {a : List (Pack N)} (hw : WFl a) : ufLeq a a = true := by
  unfold ufLeq
  apply List.all_eq_true.2
  intro R hR
  apply List.all_eq_true.2
  intro v hv
  rw [packOf_eq hw hR hv]
  simp only [Bool.and_eq_true]
  exact ⟨List.all_eq_true.2 (fun u hu => List.contains_iff_mem.2 hu), hr R.val⟩

theorem leq_refl (hr : N.LeqRefl) {a : PK N} (hw : WF a) : leq a a = true := by
  unfold leq
  cases hb : a.isBottom
  · cases ht : a.isTop
    · simp only [Bool.or_self, Bool.false_eq_true, if_false]
      cases a with
      | bot => simp [isBottom] at hb
      | packs l => exact ufLeq_refl hr hw
    · simp
  · simp

theorem leq_of_isBottom {a : PK N} (h : isBottom a = true) (b : PK N) : leq a b = true := by
  simp [leq, h]

theorem leq_top (a : PK N) : leq a top = true := by
  have : isTop (top : PK N) = true := by simp [isTop, top]
  simp [leq, this]

end PK
end Fct
end Dom
end Crab
