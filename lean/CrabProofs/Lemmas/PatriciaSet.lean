import CrabProofs.Lemmas.PatriciaSepDom
import CrabModel.Container.PSet

/-! `patricia_tree_set`: membership after union, intersection, insertion, removal; the subset
    test; iteration. -/
namespace Crab
open Patricia Patricia.Tree

namespace PSet

/-- every stored value of a set is `true` -/
def IsTrue (b : Bool) : Prop := b = true

/-- well-formed sets -/
def Inv (s : T) : Prop := WF IsTrue s

theorem ctx_sound (pe : T → T → Bool) (h : ∀ a b, pe a b = true → a = b) : (ctx pe).SoundOn IsTrue :=
  ⟨h, fun x y _ hxy => by simpa [ctx] using hxy⟩

theorem inv_empty : Inv empty := trivial

theorem member_iff {s : T} (hs : Inv s) {k : Nat} : member s k = true ↔ k ∈ s.keys := by
  unfold member
  rw [mem_keys_iff_lookup hs]
  cases hl : s.lookup k with
  | none => simp
  | some r =>
    have : r = true := hs.val_of_lookup hl
    simp [this]

theorem member_eq_isSome {s : T} (hs : Inv s) (k : Nat) : member s k = (s.lookup k).isSome := by
  unfold member
  cases hl : s.lookup k with
  | none => rfl
  | some r => have : r = true := hs.val_of_lookup hl; simp [this]

theorem add_spec {c : Ctx Bool} (hc : c.SoundOn IsTrue) {s : T} (hs : Inv s) {k : Nat} (hk : k < 2 ^ 64) :
    Inv (add c s k) ∧ ∀ k', member (add c s k) k' = (decide (k' = k) || member s k') := by
  obtain ⟨w, l⟩ := insertKV_spec hc hs hk (rfl : IsTrue true)
  refine ⟨w, fun k' => ?_⟩
  show member (insertKV c s k true) k' = _
  rw [member_eq_isSome w, member_eq_isSome hs, l]
  by_cases e : k' = k <;> simp [e]

theorem remove_spec' {c : Ctx Bool} (hc : c.SoundOn IsTrue) {s : T} (hs : Inv s) {k : Nat} (hk : k < 2 ^ 64) :
    Inv (remove c s k) ∧ ∀ k', member (remove c s k) k' = (!decide (k' = k) && member s k') := by
  obtain ⟨w, l⟩ := Patricia.remove_spec hc hk hs
  refine ⟨w, fun k' => ?_⟩
  show member (Patricia.remove c s k) k' = _
  rw [member_eq_isSome w, member_eq_isSome hs, l]
  by_cases e : k' = k <;> simp [e]

theorem unionOp_pres : unionOp.Pres IsTrue := by
  intro k x y z _ _ h; simp [unionOp] at h; exact (h : z = true)
theorem unionOp_idem : unionOp.Idem IsTrue := by
  intro k x hx; have : x = true := hx; simp [unionOp, this]
theorem interOp_pres : interOp.Pres IsTrue := by
  intro k x y z _ _ h; simp [interOp] at h; exact (h : z = true)
theorem interOp_idem : interOp.Idem IsTrue := by
  intro k x hx; have : x = true := hx; simp [interOp, this]

theorem union_spec {c : Ctx Bool} (hc : c.SoundOn IsTrue) {a b : T} (ha : Inv a) (hb : Inv b) :
    Inv (union c a b) ∧ ∀ k, member (union c a b) k = (member a k || member b k) := by
  have h := merge_ok hc unionOp_pres unionOp_idem true a b ha hb
  unfold union mergeWith
  cases hres : merge c unionOp true a b with
  | none =>
    rw [hres] at h
    obtain ⟨k, hk⟩ := h
    obtain ⟨x, y, _, _, hbot⟩ := pw_eq_none hk
    simp [app, unionOp] at hbot
  | some r =>
    rw [hres] at h
    refine ⟨h.1, fun k => ?_⟩
    rw [member_eq_isSome h.1, member_eq_isSome ha, member_eq_isSome hb]
    have := h.2 k
    cases h1 : a.lookup k <;> cases h2 : b.lookup k <;> rw [h1, h2] at this <;>
      simp [pw, unionOp, app] at this <;> simp [← this]

theorem inter_spec {c : Ctx Bool} (hc : c.SoundOn IsTrue) {a b : T} (ha : Inv a) (hb : Inv b) :
    Inv (inter c a b) ∧ ∀ k, member (inter c a b) k = (member a k && member b k) := by
  have h := merge_ok hc interOp_pres interOp_idem true a b ha hb
  unfold inter mergeWith
  cases hres : merge c interOp true a b with
  | none =>
    rw [hres] at h
    obtain ⟨k, hk⟩ := h
    obtain ⟨x, y, _, _, hbot⟩ := pw_eq_none hk
    simp [app, interOp] at hbot
  | some r =>
    rw [hres] at h
    refine ⟨h.1, fun k => ?_⟩
    rw [member_eq_isSome h.1, member_eq_isSome ha, member_eq_isSome hb]
    have := h.2 k
    cases h1 : a.lookup k <;> cases h2 : b.lookup k <;> rw [h1, h2] at this <;>
      simp [pw, interOp, app] at this <;> simp [← this]

/-- the subset test of the code as it is (the leaf/leaf defect of `compare` cannot be reached
    when the default is the bottom of the order) -/
theorem subset_spec (fxd : Bool) {c : Ctx Bool} (hc : c.SoundOn IsTrue) {a b : T} (ha : Inv a) (hb : Inv b) :
    subset fxd c a b = true ↔ ∀ k, member a k = true → member b k = true := by
  have e : subset fxd c a b = Patricia.compare true c subsetPO true a b := by
    unfold subset leqTree
    cases fxd
    · exact compare_eq_of_bot c subsetPO rfl a b
    · rfl
  rw [e, compare_fixed_iff hc subsetPO (fun _ _ => rfl) true a b ha hb]
  constructor
  · intro h k hk
    have := h k
    rw [member_eq_isSome ha] at hk
    rw [member_eq_isSome hb]
    cases h1 : a.lookup k <;> cases h2 : b.lookup k <;> rw [h1, h2] at this <;> simp_all [rel, leO, subsetPO]
  · intro h k
    have := h k
    rw [member_eq_isSome ha, member_eq_isSome hb] at this
    cases h1 : a.lookup k <;> cases h2 : b.lookup k <;> simp_all [rel, leO, subsetPO]

theorem eq_spec (fxd : Bool) {c : Ctx Bool} (hc : c.SoundOn IsTrue) {a b : T} (ha : Inv a) (hb : Inv b) :
    eq fxd c a b = true ↔ ∀ k, member a k = member b k := by
  unfold eq
  rw [Bool.and_eq_true, subset_spec fxd hc ha hb, subset_spec fxd hc hb ha]
  constructor
  · intro ⟨h1, h2⟩ k
    cases ha' : member a k <;> cases hb' : member b k
    · rfl
    · have := h2 k hb'; rw [ha'] at this; cases this
    · have := h1 k ha'; rw [hb'] at this; cases this
    · rfl
  · intro h
    exact ⟨fun k hk => by rw [← h k]; exact hk, fun k hk => by rw [h k]; exact hk⟩

/-- iteration lists every element exactly once, in increasing order -/
theorem elems_spec {s : T} (hs : Inv s) :
    (elems s).Pairwise (· < ·) ∧ (elems s).Nodup ∧ (∀ k, k ∈ elems s ↔ member s k = true) ∧
      (elems s).length = size s := by
  have e : elems s = s.keys := by
    simp [elems, elems?, iterate_eq_toList hs.ne, Tree.keys]
  rw [e]
  refine ⟨hs.keys_sorted, hs.keys_nodup, fun k => (member_iff hs).symm, ?_⟩
  simp [Tree.keys, size, size_eq_length]

theorem isEmpty_iff {s : T} (hs : Inv s) : isEmpty s = true ↔ ∀ k, member s k = false := by
  constructor
  · intro h k
    cases s <;> simp_all [isEmpty, Tree.isEmpty, member]
  · intro h
    cases hs' : s with
    | empty => rfl
    | leaf k v =>
      exfalso
      obtain ⟨k', hk'⟩ := WF.exists_key hs (by rw [hs']; simp)
      have := (member_iff hs).mpr hk'
      rw [h k'] at this; cases this
    | node p m l r =>
      exfalso
      obtain ⟨k', hk'⟩ := WF.exists_key hs (by rw [hs']; simp)
      have := (member_iff hs).mpr hk'
      rw [h k'] at this; cases this

end PSet

/-! ### `discrete_domain` -/
namespace DD

/-- invariant: a well-formed element set, empty when the top flag is set -/
def Inv (d : DD) : Prop := PSet.Inv d.set ∧ (d.isTop = true → d.set = .empty)

theorem inv_top : Inv top := ⟨trivial, fun _ => rfl⟩
theorem inv_bottom : Inv bottom := ⟨trivial, fun _ => rfl⟩

/-- `contain(e)`: everything when top, membership otherwise -/
theorem contain_eq {d : DD} (hd : Inv d) (k : Nat) : d.contain k = (d.isTop || PSet.member d.set k) := by
  unfold contain isBottom
  cases ht : d.isTop
  · simp only [Bool.not_false, Bool.true_and, Bool.false_or, Bool.false_eq_true, if_false]
    split
    · rename_i he
      exact ((PSet.isEmpty_iff hd.1).mp he k).symm
    · rfl
  · simp

theorem join_spec {c : Ctx Bool} (hc : c.SoundOn PSet.IsTrue) {a b : DD} (ha : Inv a) (hb : Inv b) :
    Inv (join c a b) ∧ ∀ k, (join c a b).contain k = (a.contain k || b.contain k) := by
  by_cases h : (a.isTop || b.isTop) = true
  · have e0 : join c a b = top := by unfold join; rw [if_pos h]
    rw [e0]
    refine ⟨inv_top, fun k => ?_⟩
    rw [contain_eq ha, contain_eq hb]
    simp only [contain, isBottom, top]
    cases h1 : a.isTop <;> cases h2 : b.isTop <;> simp_all
  · have e0 : join c a b = ⟨false, PSet.union c a.set b.set⟩ := by unfold join; rw [if_neg h]
    rw [e0]
    obtain ⟨w, l⟩ := PSet.union_spec hc ha.1 hb.1
    have hi : Inv ⟨false, PSet.union c a.set b.set⟩ := ⟨w, fun h => by cases h⟩
    refine ⟨hi, fun k => ?_⟩
    rw [contain_eq hi, contain_eq ha, contain_eq hb, l]
    cases h1 : a.isTop <;> cases h2 : b.isTop <;> simp_all

theorem meet_spec {c : Ctx Bool} (hc : c.SoundOn PSet.IsTrue) {a b : DD} (ha : Inv a) (hb : Inv b) :
    Inv (meet c a b) ∧ ∀ k, (meet c a b).contain k = (a.contain k && b.contain k) := by
  unfold meet
  by_cases h0 : (a.isBottom || b.isBottom) = true
  · rw [if_pos h0]
    refine ⟨inv_bottom, fun k => ?_⟩
    have : (a.contain k && b.contain k) = false := by
      rw [Bool.or_eq_true] at h0
      rcases h0 with h | h
      · simp [contain, h]
      · simp [contain, h]
    rw [this]; simp [contain, isBottom, bottom, Tree.isEmpty]
  · rw [if_neg h0]
    cases h1 : a.isTop
    · cases h2 : b.isTop
      · simp only [Bool.false_eq_true, if_false]
        obtain ⟨w, l⟩ := PSet.inter_spec hc ha.1 hb.1
        have hi : Inv ⟨false, PSet.inter c a.set b.set⟩ := ⟨w, fun h => by cases h⟩
        refine ⟨hi, fun k => ?_⟩
        rw [contain_eq hi, contain_eq ha, contain_eq hb, l, h1, h2]; simp
      · simp only [Bool.false_eq_true, if_false, if_true]
        refine ⟨ha, fun k => ?_⟩
        rw [contain_eq hb, h2]; simp
    · simp only [if_true]
      refine ⟨hb, fun k => ?_⟩
      rw [contain_eq ha, h1]; simp

/-- `operator<=` of the code as it is -/
theorem leq_spec (fxd : Bool) {c : Ctx Bool} (hc : c.SoundOn PSet.IsTrue) {a b : DD} (ha : Inv a) (hb : Inv b) :
    leq fxd c a b = true ↔ ∀ k, a.contain k = true → b.contain k = true := by
  unfold leq
  cases h2 : b.isTop
  · cases h1 : a.isTop
    · simp only [Bool.false_or, Bool.not_false, Bool.true_and]
      rw [PSet.subset_spec fxd hc ha.1 hb.1]
      constructor
      · intro h k hk
        rw [contain_eq ha, h1] at hk
        rw [contain_eq hb, h2]
        simpa using h k (by simpa using hk)
      · intro h k hk
        have := h k (by rw [contain_eq ha, h1]; simpa using hk)
        rw [contain_eq hb, h2] at this
        simpa using this
    · simp only [Bool.false_or, Bool.not_true, Bool.false_and, Bool.false_eq_true, false_iff]
      intro h
      -- 2^64 is not an index: it belongs to top only
      have := h (2 ^ 64) (by rw [contain_eq ha, h1]; rfl)
      rw [contain_eq hb, h2] at this
      simp only [Bool.false_or] at this
      have hk := (PSet.member_iff hb.1).mp this
      have := WF.key_lt hb.1 hk
      omega
  · simp only [Bool.true_or, true_iff]
    intro k _
    rw [contain_eq hb, h2]; rfl

end DD
end Crab
