import CrabProofs.Lemmas.IntervalMul
import CrabProofs.Lemmas.ZNumBits
import CrabProofs.Lemmas.ZSpecOps

/-! Soundness of the bitwise operations (`And`, `Or`, `Xor`), the shifts (`Shl`, `AShr`,
    `LShr`) and `trim_interval` of `Crab.Itv`. -/
namespace Crab
namespace Itv
open Bound

/-! ### number facts -/

theorem land_nonneg_bounds {a b : Int} (ha : 0 ≤ a) (hb : 0 ≤ b) :
    0 ≤ ZNum.land a b ∧ ZNum.land a b ≤ a ∧ ZNum.land a b ≤ b := by
  have e1 : a = (a.toNat : Int) := (Int.toNat_of_nonneg ha).symm
  have e2 : b = (b.toNat : Int) := (Int.toNat_of_nonneg hb).symm
  rw [e1, e2, ZNum.Spec.land_natCast]
  have h1 := @Nat.and_le_left a.toNat b.toNat
  have h2 := @Nat.and_le_right a.toNat b.toNat
  omega

theorem natCast_lt_two_pow {a : Int} {j : Nat} (ha : 0 ≤ a) (h : a < 2 ^ j) : a.toNat < 2 ^ j := by
  have e1 : a = (a.toNat : Int) := (Int.toNat_of_nonneg ha).symm
  rw [e1] at h
  have : ((a.toNat : Nat) : Int) < ((2 ^ j : Nat) : Int) := by rw [Int.natCast_pow]; exact h
  exact_mod_cast this

theorem lor_nonneg_bounds {a b : Int} {j : Nat} (ha : 0 ≤ a) (hb : 0 ≤ b)
    (ha2 : a < 2 ^ j) (hb2 : b < 2 ^ j) : 0 ≤ ZNum.lor a b ∧ ZNum.lor a b < 2 ^ j := by
  have h := Nat.or_lt_two_pow (natCast_lt_two_pow ha ha2) (natCast_lt_two_pow hb hb2)
  have e1 : a = (a.toNat : Int) := (Int.toNat_of_nonneg ha).symm
  have e2 : b = (b.toNat : Int) := (Int.toNat_of_nonneg hb).symm
  rw [e1, e2, ZNum.Spec.lor_natCast]
  refine ⟨Int.natCast_nonneg _, ?_⟩
  have : ((a.toNat ||| b.toNat : Nat) : Int) < ((2 ^ j : Nat) : Int) := by exact_mod_cast h
  rw [Int.natCast_pow] at this; exact this

theorem lxor_nonneg_bounds {a b : Int} {j : Nat} (ha : 0 ≤ a) (hb : 0 ≤ b)
    (ha2 : a < 2 ^ j) (hb2 : b < 2 ^ j) : 0 ≤ ZNum.lxor a b ∧ ZNum.lxor a b < 2 ^ j := by
  have h := Nat.xor_lt_two_pow (natCast_lt_two_pow ha ha2) (natCast_lt_two_pow hb hb2)
  have e1 : a = (a.toNat : Int) := (Int.toNat_of_nonneg ha).symm
  have e2 : b = (b.toNat : Int) := (Int.toNat_of_nonneg hb).symm
  rw [e1, e2, ZNum.Spec.lxor_natCast]
  refine ⟨Int.natCast_nonneg _, ?_⟩
  have : ((a.toNat ^^^ b.toNat : Nat) : Int) < ((2 ^ j : Nat) : Int) := by exact_mod_cast h
  rw [Int.natCast_pow] at this; exact this

/-- every non-negative number has some `2^j` above it -/
theorem exists_two_pow_gt {a : Int} (ha : 0 ≤ a) : ∃ j : Nat, a < 2 ^ j := by
  refine ⟨a.toNat, ?_⟩
  have : a.toNat < 2 ^ a.toNat := Nat.lt_two_pow_self
  have h2 : ((a.toNat : Nat) : Int) < ((2 ^ a.toNat : Nat) : Int) := by exact_mod_cast this
  rw [Int.natCast_pow, Int.toNat_of_nonneg ha] at h2; exact h2

/-! ### And -/

theorem and_sound {x y : Itv} {a b : Int} (ha : mem a x) (hb : mem b y) :
    mem (ZNum.land a b) (Itv.and x y) := by
  unfold Itv.and
  simp only [isBottom_false_of_mem ha, isBottom_false_of_mem hb, Bool.or_self,
    Bool.false_eq_true, if_false]
  split
  · rename_i l r h1 h2
    have e1 := mem_of_singleton? h1 ha
    have e2 := mem_of_singleton? h2 hb
    subst e1; subst e2
    exact (mem_single _ _).mpr rfl
  · split
    · rename_i hc
      simp [Bound.ge] at hc
      have ha0 : 0 ≤ a := by simpa using Bound.le_trans hc.1 ha.1
      have hb0 : 0 ≤ b := by simpa using Bound.le_trans hc.2 hb.1
      obtain ⟨h0, h1, h2⟩ := land_nonneg_bounds ha0 hb0
      rw [mem_mk']
      refine ⟨by simpa using h0, Bound.le_min ?_ ?_⟩
      · exact Bound.le_trans (by simpa using h1) ha.2
      · exact Bound.le_trans (by simpa using h2) hb.2
    · exact mem_top _

/-! ### Or / Xor : the shared non-singleton body -/

/-- the non-singleton branch of `Or` as a function -/
def orBody (a x : Itv) : Itv :=
  if Bound.ge a.lb (fin 0) && Bound.ge x.lb (fin 0) then
    match a.ub, x.ub with
    | fin lu, fin ru =>
      let m := if lu > ru then lu else ru
      mk' (fin 0) (fin (ZNum.fillOnes m))
    | _, _ => mk' (fin 0) pinf
  else top

theorem orBody_sound (f : Int → Int → Int)
    (hf : ∀ (a b : Int) (j : Nat), 0 ≤ a → 0 ≤ b → a < 2 ^ j → b < 2 ^ j →
      0 ≤ f a b ∧ f a b < 2 ^ j)
    {x y : Itv} {a b : Int} (ha : mem a x) (hb : mem b y) : mem (f a b) (orBody x y) := by
  unfold orBody
  split
  · rename_i hc
    simp [Bound.ge] at hc
    have ha0 : 0 ≤ a := by simpa using Bound.le_trans hc.1 ha.1
    have hb0 : 0 ≤ b := by simpa using Bound.le_trans hc.2 hb.1
    split
    · rename_i lu ru hlu hru
      have ha2 := ha.2; have hb2 := hb.2
      rw [hlu] at ha2; rw [hru] at hb2
      simp at ha2 hb2
      rw [mem_mk']
      generalize hm : (if lu > ru then lu else ru) = m
      have hma : a ≤ m := by subst hm; split <;> omega
      have hmb : b ≤ m := by subst hm; split <;> omega
      obtain ⟨j, hj, hge, _⟩ := ZNum.Spec.fillOnes_spec m (by omega)
      have := hf a b j ha0 hb0 (by omega) (by omega)
      simp; omega
    · obtain ⟨j1, hj1⟩ := exists_two_pow_gt ha0
      obtain ⟨j2, hj2⟩ := exists_two_pow_gt hb0
      have h1 := ZNum.Spec.two_pow_le (Nat.le_max_left j1 j2)
      have h2 := ZNum.Spec.two_pow_le (Nat.le_max_right j1 j2)
      have := hf a b (max j1 j2) ha0 hb0 (by omega) (by omega)
      rw [mem_mk']; simp; omega
  · exact mem_top _

theorem or_nonsing {x y : Itv} (hx : x.isBottom = false) (hy : y.isBottom = false)
    (hns : ∀ l r : Int, x.singleton? = some l → ¬ y.singleton? = some r) :
    Itv.or x y = orBody x y := by
  unfold Itv.or orBody
  simp only [hx, hy, Bool.or_self, Bool.false_eq_true, if_false]
  cases h1 : x.singleton? with
  | none => rfl
  | some l =>
    cases h2 : y.singleton? with
    | none => rfl
    | some r => exact absurd h2 (hns l r h1)

theorem or_sound {x y : Itv} {a b : Int} (ha : mem a x) (hb : mem b y) :
    mem (ZNum.lor a b) (Itv.or x y) := by
  unfold Itv.or
  simp only [isBottom_false_of_mem ha, isBottom_false_of_mem hb, Bool.or_self,
    Bool.false_eq_true, if_false]
  split
  · rename_i l r h1 h2
    have e1 := mem_of_singleton? h1 ha
    have e2 := mem_of_singleton? h2 hb
    subst e1; subst e2
    exact (mem_single _ _).mpr rfl
  · exact orBody_sound ZNum.lor (fun a b j h1 h2 h3 h4 => lor_nonneg_bounds h1 h2 h3 h4) ha hb

theorem xor_sound {x y : Itv} {a b : Int} (ha : mem a x) (hb : mem b y) :
    mem (ZNum.lxor a b) (Itv.xor x y) := by
  unfold Itv.xor
  simp only [isBottom_false_of_mem ha, isBottom_false_of_mem hb, Bool.or_self,
    Bool.false_eq_true, if_false]
  split
  · rename_i l r h1 h2
    have e1 := mem_of_singleton? h1 ha
    have e2 := mem_of_singleton? h2 hb
    subst e1; subst e2
    exact (mem_single _ _).mpr rfl
  · rename_i hns
    rw [or_nonsing (isBottom_false_of_mem ha) (isBottom_false_of_mem hb) hns]
    exact orBody_sound ZNum.lxor (fun a b j h1 h2 h3 h4 => lxor_nonneg_bounds h1 h2 h3 h4) ha hb

/-! ### shifts -/

theorem shl_sound {x y : Itv} {a k : Int} (ha : mem a x) (hk : mem k y) (_h0 : 0 ≤ k) :
    mem (a * 2 ^ k.toNat) (shl x y) := by
  unfold shl
  simp only [isBottom_false_of_mem ha, isBottom_false_of_mem hk, Bool.or_self,
    Bool.false_eq_true, if_false]
  split
  · rename_i c hc
    have e := mem_of_singleton? hc hk
    subst e
    split
    · exact mem_top _
    · split
      · exact mul_sound ha ((mem_single _ _).mpr rfl)
      · exact mem_top _
  · exact mem_top _

theorem shrBound_mono {l : Bound} {a k : Int} (h0 : 0 ≤ k) (h1 : k < 2 ^ 64)
    (h : Bound.le l (fin a) = true) : Bound.le (shrBound l k) (fin (a / 2 ^ k.toNat)) = true := by
  cases l with
  | ninf => simp [shrBound]
  | pinf => simp at h
  | fin v =>
    simp at h
    simp [shrBound, ZNum.shr_eq h0 h1]
    exact Int.ediv_le_ediv (ZNum.two_pow_pos _) h

theorem shrBound_mono' {u : Bound} {a k : Int} (h0 : 0 ≤ k) (h1 : k < 2 ^ 64)
    (h : Bound.le (fin a) u = true) : Bound.le (fin (a / 2 ^ k.toNat)) (shrBound u k) = true := by
  cases u with
  | pinf => simp [shrBound]
  | ninf => simp at h
  | fin v =>
    simp at h
    simp [shrBound, ZNum.shr_eq h0 h1]
    exact Int.ediv_le_ediv (ZNum.two_pow_pos _) h

theorem ashr_sound {x y : Itv} {a k : Int} (ha : mem a x) (hk : mem k y) (_h0 : 0 ≤ k) :
    mem (a / 2 ^ k.toNat) (ashr x y) := by
  unfold ashr
  simp only [isBottom_false_of_mem ha, isBottom_false_of_mem hk, Bool.or_self,
    Bool.false_eq_true, if_false]
  split
  · rename_i c hc
    have e := mem_of_singleton? hc hk
    subst e
    split
    · exact mem_top _
    · split
      · rename_i h1 h2
        have hlt : k < 2 ^ 64 := by
          have : (128 : Int) < 2 ^ 64 := by decide
          omega
        rw [mem_mk']
        exact ⟨shrBound_mono (by omega) hlt ha.1, shrBound_mono' (by omega) hlt ha.2⟩
      · exact mem_top _
  · exact mem_top _

/-- `LShr` for shift amounts that fit a machine word (see `lshr_big_shift` for the rest) -/
theorem lshr_sound {x y : Itv} {a k : Int} (ha : mem a x) (hk : mem k y) (_h0 : 0 ≤ k)
    (h64 : k < 2 ^ 64) : mem (a / 2 ^ k.toNat) (lshr x y) := by
  unfold lshr
  simp only [isBottom_false_of_mem ha, isBottom_false_of_mem hk, Bool.or_self,
    Bool.false_eq_true, if_false]
  split
  · rename_i c hc
    have e := mem_of_singleton? hc hk
    subst e
    split
    · exact mem_top _
    · split
      · split
        · rename_i l u hl hu
          have h1 := shrBound_mono (k := k) (by omega) h64 ha.1
          have h2 := shrBound_mono' (k := k) (by omega) h64 ha.2
          rw [hl] at h1; rw [hu] at h2
          rw [mem_mk']; exact ⟨h1, h2⟩
        · exact mem_top _
      · exact mem_top _
  · exact mem_top _

/-- shift amounts `≥ 2^64` are reduced modulo `2^64` by `mpz_get_ui`: `[1,1] LShr [2^64,2^64]`
    is `[1,1]`, which excludes `1 / 2^(2^64) = 0` -/
theorem lshr_big_shift :
    mem 1 (single 1) ∧ mem (2 ^ 64) (single (2 ^ 64)) ∧
    ¬ mem ((1 : Int) / 2 ^ ((2 : Int) ^ 64).toNat) (lshr (single 1) (single (2 ^ 64))) := by
  refine ⟨by decide, by decide, ?_⟩
  have e : lshr (single 1) (single (2 ^ 64)) = single 1 := by decide
  rw [e, ZNum.Spec.one_div_two_pow _ (by decide), mem_single]
  decide

/-! ### trim -/

theorem trim_sound {i j : Itv} {k : Int} (hk : mem k i) (hne : j.singleton? ≠ some k) :
    mem k (trim i j) := by
  unfold trim
  split
  · rename_i c hc
    have hkc : k ≠ c := by intro e; subst e; exact hne hc
    split
    · rename_i h1
      simp at h1
      rw [mem_mk']
      have := hk.1; rw [h1] at this; simp at this
      exact ⟨by simp; omega, hk.2⟩
    · split
      · rename_i _ h2
        simp at h2
        rw [mem_mk']
        have := hk.2; rw [h2] at this; simp at this
        exact ⟨hk.1, by simp; omega⟩
      · exact hk
  · exact hk

/-- `trim` never adds values -/
theorem trim_below {i j : Itv} {k : Int} (hk : mem k (trim i j)) : mem k i := by
  unfold trim at hk
  split at hk
  · rename_i c hc
    split at hk
    · rename_i h1
      simp at h1
      rw [mem_mk'] at hk
      refine ⟨?_, hk.2⟩
      rw [h1]; have := hk.1; simp at this ⊢; omega
    · split at hk
      · rename_i _ h2
        simp at h2
        rw [mem_mk'] at hk
        refine ⟨hk.1, ?_⟩
        rw [h2]; have := hk.2; simp at this ⊢; omega
      · exact hk
  · exact hk

end Itv
end Crab
