import CrabModel.Dom.Functors.Packing

/-!
A lawful base numerical domain for the non-vacuity examples of the packing functor: constants over
three variables (`none` = bottom; a map variable ↦ known constant otherwise), with `-=`, the meet
that detects conflicting constants, and three transformers (`x := k`, `x := y`, `assume x == k`).
-/
namespace Crab
namespace Dom
namespace Fct

abbrev V3 := Fin 3

def allV (f : V3 → Bool) : Bool := f 0 && f 1 && f 2

theorem allV_iff (f : V3 → Bool) : allV f = true ↔ ∀ v, f v = true := by
  unfold allV
  constructor
  · intro h v
    simp only [Bool.and_eq_true] at h
    match v with
    | 0 => exact h.1.1
    | 1 => exact h.1.2
    | 2 => exact h.2
  · intro h; simp [h 0, h 1, h 2]

abbrev CMap := V3 → Option Int

def CMap.γ (m : CMap) (s : St V3) : Prop := ∀ v k, m v = some k → s v = k

def cJoin : Option CMap → Option CMap → Option CMap
  | none, b => b
  | a, none => a
  | some m, some n => some (fun v => if m v = n v then m v else none)

def cCompat (m n : CMap) : Bool := allV (fun v => (m v).isNone || (n v).isNone || decide (m v = n v))

def cMeet : Option CMap → Option CMap → Option CMap
  | some m, some n => if cCompat m n then some (fun v => match m v with | some k => some k | none => n v) else none
  | _, _ => none

def cLeq : Option CMap → Option CMap → Bool
  | none, _ => true
  | some _, none => false
  | some m, some n => allV (fun v => (n v).isNone || decide (n v = m v))

def constDom : NDom V3 where
  B := Option CMap
  γ := fun b s => match b with | none => False | some m => m.γ s
  top := some (fun _ => none)
  bot := none
  isBot := fun b => b.isNone
  isTop := fun b => match b with | none => false | some m => allV (fun v => (m v).isNone)
  leq := cLeq
  join := cJoin
  meet := cMeet
  widen := cJoin
  narrow := cMeet
  forget := fun b x => b.map (fun m v => if v = x then none else m v)
  top_sound := by intro s v k h; simp at h
  bot_sound := fun _ h => h
  isBot_sound := by intro b s h; cases b <;> simp_all
  leq_sound := by
    intro a b s h hg
    match a, b with
    | none, _ => exact absurd hg id
    | some m, none => simp [cLeq] at h
    | some m, some n =>
      intro v k hk
      have h' : allV (fun v => (n v).isNone || decide (n v = m v)) = true := h
      have := (allV_iff _).1 h' v
      simp only [Bool.or_eq_true, Option.isNone_iff_eq_none, decide_eq_true_eq] at this
      rcases this with h1 | h1
      · rw [h1] at hk; simp at hk
      · exact hg v k (h1 ▸ hk)
  join_l := by
    intro a b s hg
    match a, b with
    | none, _ => exact absurd hg id
    | some m, none => exact hg
    | some m, some n =>
      intro v k hk
      simp only at hk
      split at hk
      · exact hg v k hk
      · simp at hk
  join_r := by
    intro a b s hg
    match a, b with
    | none, _ => exact hg
    | some m, none => exact absurd hg id
    | some m, some n =>
      intro v k hk
      simp only at hk
      split at hk
      · rename_i he; exact hg v k (he ▸ hk)
      · simp at hk
  widen_l := by
    intro a b s hg
    match a, b with
    | none, _ => exact absurd hg id
    | some m, none => exact hg
    | some m, some n =>
      intro v k hk
      simp only at hk
      split at hk
      · exact hg v k hk
      · simp at hk
  widen_r := by
    intro a b s hg
    match a, b with
    | none, _ => exact hg
    | some m, none => exact absurd hg id
    | some m, some n =>
      intro v k hk
      simp only at hk
      split at hk
      · rename_i he; exact hg v k (he ▸ hk)
      · simp at hk
  meet_sound := by
    intro a b s ha hb
    match a, b with
    | none, _ => exact absurd ha id
    | some m, none => exact absurd hb id
    | some m, some n =>
      have hc : cCompat m n = true := by
        apply (allV_iff _).2
        intro v
        cases hm : m v with
        | none => simp
        | some k1 =>
          cases hn : n v with
          | none => simp
          | some k2 =>
            have e1 := ha v k1 hm
            have e2 := hb v k2 hn
            simp [← e1, ← e2]
      simp only [cMeet, hc, if_true]
      intro v k hk
      simp only at hk
      split at hk
      · rename_i k1 hm
        simp only [Option.some.injEq] at hk
        exact hk ▸ ha v k1 hm
      · exact hb v k hk
  narrow_sound := by
    intro a b s ha hb
    match a, b with
    | none, _ => exact absurd ha id
    | some m, none => exact absurd hb id
    | some m, some n =>
      have hc : cCompat m n = true := by
        apply (allV_iff _).2
        intro v
        cases hm : m v with
        | none => simp
        | some k1 =>
          cases hn : n v with
          | none => simp
          | some k2 =>
            have e1 := ha v k1 hm
            have e2 := hb v k2 hn
            simp [← e1, ← e2]
      simp only [cMeet, hc, if_true]
      intro v k hk
      simp only at hk
      split at hk
      · rename_i k1 hm
        simp only [Option.some.injEq] at hk
        exact hk ▸ ha v k1 hm
      · exact hb v k hk
  forget_sound := by
    intro b x s k hg
    match b with
    | none => exact absurd hg id
    | some m =>
      intro v k' hk
      simp only at hk
      split at hk
      · simp at hk
      · rename_i hne
        simp only [St.set, hne, if_false]
        exact hg v k' hk

theorem constDom_topSound : constDom.TopSound := by
  intro b s h
  match b with
  | none => simp [constDom] at h
  | some m =>
    intro v k hk
    have h' : allV (fun v => (m v).isNone) = true := h
    have := (allV_iff _).1 h' v
    simp only [Option.isNone_iff_eq_none] at this
    rw [this] at hk; simp at hk

/-- `x := k` -/
def cAssignK (x : V3) (k : Int) : constDom.B → constDom.B := fun b => b.map (fun m v => if v = x then some k else m v)
/-- `x := y` -/
def cAssignV (x y : V3) : constDom.B → constDom.B := fun b => b.map (fun m v => if v = x then m y else m v)
/-- `assume x == k` -/
def cAssumeEq (x : V3) (k : Int) : constDom.B → constDom.B := fun b =>
  match b with
  | none => none
  | some m => match m x with
    | some k' => if k' = k then some m else none
    | none => some (fun v => if v = x then some k else m v)

theorem cAssignK_sound (x : V3) (k : Int) : constDom.TSound (cAssignK x k) (fun s s' => s' = s.set x k) := by
  intro a s s' hg hr
  subst hr
  match a with
  | none => exact absurd hg id
  | some m =>
    intro v k' hk
    simp only at hk
    unfold St.set
    split at hk
    · rename_i he; simp only [Option.some.injEq] at hk; simp [he, hk]
    · rename_i hne; simp only [hne, if_false]; exact hg v k' hk

theorem cAssignV_sound (x y : V3) : constDom.TSound (cAssignV x y) (fun s s' => s' = s.set x (s y)) := by
  intro a s s' hg hr
  subst hr
  match a with
  | none => exact absurd hg id
  | some m =>
    intro v k' hk
    simp only at hk
    unfold St.set
    split at hk
    · rename_i he; simp only [he, if_true]; exact hg y k' hk
    · rename_i hne; simp only [hne, if_false]; exact hg v k' hk

theorem cAssumeEq_sound (x : V3) (k : Int) :
    constDom.TSound (cAssumeEq x k) (fun s s' => s x = k ∧ s' = s) := by
  intro a s s' hg hr
  obtain ⟨hx, rfl⟩ := hr
  match a with
  | none => exact absurd hg id
  | some m =>
    unfold cAssumeEq
    simp only
    split
    · rename_i k' hm
      have := hg x k' hm
      have hk : k' = k := by rw [← this, hx]
      simp only [hk, if_true]
      exact hg
    · intro v k' hk'
      simp only at hk'
      split at hk'
      · rename_i he; simp only [Option.some.injEq] at hk'; rw [he, hx, hk']
      · exact hg v k' hk'

/-! ### the operations of the example histories of `Props/C03Functors.lean` -/
namespace PackEx
open PK

theorem local_assignK (x : V3) (k : Int) : Local (fun s s' => s' = s.set x k) [x] := by
  constructor
  · intro s s' h v hv; subst h
    have : v ≠ x := by simpa using hv
    simp [St.set, this]
  · intro s s' h t _; subst h
    funext v
    by_cases hv : v = x <;> simp [St.set, hv]

theorem local_assignV (x y : V3) : Local (fun s s' => s' = s.set x (s y)) [y, x] := by
  constructor
  · intro s s' h v hv; subst h
    have : v ≠ x := by intro he; apply hv; simp [he]
    simp [St.set, this]
  · intro s s' h t ht; subst h
    funext v
    by_cases hv : v = x
    · simp [St.set, hv, ht y (by simp)]
    · by_cases hy : v = y <;> simp [St.set, hv, hy, ht y (by simp)]

/-- `v0 := 5` (`assign` with a constant right-hand side: `forget(v0); merge({v0})`) -/
def op1 : Op constDom := .stmt 0 (some 0) [0] (cAssignK 0 5) true true (fun s s' => s' = s.set 0 5)
/-- `v1 := v0` (`forget(v1); merge({v0, v1})`: the two packs are merged) -/
def op2 : Op constDom := .stmt 0 (some 1) [0, 1] (cAssignV 1 0) true true (fun s s' => s' = s.set 1 (s 0))
/-- `v2 := 7` in its own pack -/
def op3 : Op constDom := .stmt 0 (some 2) [2] (cAssignK 2 7) true true (fun s s' => s' = s.set 2 7)
/-- `assume v1 == 6` -/
def op4 : Op constDom := .add 0 [⟨false, false, [1], cAssumeEq 1 6, fun s => s 1 = 6⟩]

theorem ops_baseSound : ∀ op ∈ [op1, op2, op3, Op.forget 0 [0], Op.copy 1 0, op4], op.BaseSound := by
  intro op hop
  simp only [List.mem_cons, List.mem_nil_iff, or_false] at hop
  rcases hop with rfl | rfl | rfl | rfl | rfl | rfl
  · exact ⟨cAssignK_sound 0 5, local_assignK 0 5, by simp⟩
  · exact ⟨cAssignV_sound 1 0, local_assignV 1 0, by simp⟩
  · exact ⟨cAssignK_sound 2 7, local_assignK 2 7, by simp⟩
  · trivial
  · trivial
  · intro c hc
    simp only [List.mem_cons, List.mem_nil_iff, or_false] at hc
    subst hc
    refine ⟨by simp, cAssumeEq_sound 1 6, ?_⟩
    intro s t ht hs
    simp only at hs ⊢
    rw [ht 1 (by simp)]; exact hs

end PackEx

end Fct
end Dom
end Crab
