import CrabProofs.Lemmas.PatriciaSetOps

/-! `discrete_domain`: iteration, `size()`, `is_bottom()`, `is_top()` -/
namespace Crab
open Patricia Patricia.Tree
namespace DD

theorem elems_spec {a : DD} (ha : Inv a) (hat : a.isTop = false) :
    ∃ l, a.elems = some l ∧ l.Pairwise (· < ·) ∧ l.Nodup ∧ (∀ k, k ∈ l ↔ a.contain k = true) ∧
      a.size = some l.length := by
  obtain ⟨h1, h2, h3, h4⟩ := PSet.elems_spec ha.1
  refine ⟨PSet.elems a.set, by simp [elems, hat], h1, h2, fun k => ?_, by simp [size, hat, h4, PSet.size]⟩
  rw [h3, contain_eq ha, hat]; simp

theorem elems_top {a : DD} (hat : a.isTop = true) : a.elems = none ∧ a.size = none := by
  simp [elems, size, hat]

theorem isBottom_iff {a : DD} (ha : Inv a) : a.isBottom = true ↔ ∀ k, a.contain k = false := by
  constructor
  · intro h k; simp [contain, h]
  · intro h
    cases hat : a.isTop
    · have : PSet.isEmpty a.set = true := (PSet.isEmpty_iff ha.1).mpr (fun k => by
        have := h k; rw [contain_eq ha, hat] at this; simpa using this)
      simp [isBottom, hat]; exact this
    · have := h 0
      rw [contain_eq ha, hat] at this; simp at this

theorem isTop_iff {a : DD} (ha : Inv a) : a.isTop = true → ∀ k, a.contain k = true := by
  intro h k; rw [contain_eq ha, h]; simp

end DD
end Crab
