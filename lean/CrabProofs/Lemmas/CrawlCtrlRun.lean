import CrabProofs.Lemmas.CrawlCtrlExec

/-!
  Executions, control part (run level): the blocks a run enters form a chain of edges whose
  blocks were executed completely (`run_chain`); an assertion that is executed has an entry at the
  start (`run_live`); chains and post-dominance (`chain_pdom`), chains that end in a block without
  successors (`sink_reach`).
-/
namespace Crab
namespace TIR

/-- what `isCtrlSol` says, as propositions, for one assertion -/
structure CtrlSolp (P : Prog) (g : Cdg) (F : Label → Facts) (a : AId) : Prop where
  gen : noUnreach ((P.stmtsOf a.1).take a.2) = true → (F a.1).has a = true
  flow : ∀ l l', l ∈ P.labels → noUnreach (P.stmtsOf l) = true → l' ∈ P.succsOf l → (F l').has a = true →
    (F l).has a = true
  ctrl : ∀ l d, l ∈ P.labels → d ∈ P.predsOf l → (F l).has a = true → ctrlCond g d l a = true →
    ∀ y, y ∈ guardVars P l → y ∈ (F l).get a

theorem isCtrlSol_spec {P : Prog} {g : Cdg} {F : Label → Facts} (h : isCtrlSol P g F = true) {a : AId} {c : Cst}
    (hm : (a, c) ∈ P.asserts) : CtrlSolp P g F a := by
  simp only [isCtrlSol, Bool.and_eq_true, List.all_eq_true, Bool.or_eq_true, Bool.not_eq_eq_eq_not,
    Bool.not_true] at h
  obtain ⟨⟨h1, h2⟩, h3⟩ := h
  constructor
  · intro hn
    rcases h1 (a, c) hm with h | h
    · simp only at h; rw [hn] at h; cases h
    · exact h
  · intro l l' hl hn hl' hh
    rcases h2 l hl with h | h
    · rw [hn] at h; cases h
    · rcases h l' hl' (a, c) hm with h | h
      · simp only at h; rw [hh] at h; cases h
      · exact h
  · intro l d hl hd hh hc
    rcases h3 l hl d hd (a, c) hm with h | h
    · simp only [hh, hc, Bool.and_self] at h; cases h
    · exact VarSet.subset_iff.mp h

theorem succ_label {P : Prog} {l s : Label} (h : s ∈ P.succsOf l) : l ∈ P.labels := by
  apply Classical.byContradiction
  intro hno
  have : P.block? l = none := block?_none_iff.mpr hno
  simp [Prog.succsOf, this] at h

/-! ### chains -/

/-- the blocks `π` entered after `l`: every edge exists, every block that was left was executed
    completely and is not the exit block -/
def Chain (P : Prog) : Label → List Label → Prop
  | _, [] => True
  | l, m :: r => m ∈ P.succsOf l ∧ noUnreach (P.stmtsOf l) = true ∧ P.isExit l = false ∧ Chain P m r

def lastOf : Label → List Label → Label
  | l, [] => l
  | _, m :: r => lastOf m r

theorem lastOf_cons (l m : Label) (r : List Label) : lastOf l (m :: r) = lastOf m r := rfl

theorem endOfStop_ne (t : List TEv) (o : Outcome) : endOfStop t o ≠ .exit ∧ endOfStop t o ≠ .sink := by
  cases o <;> simp [endOfStop]
  split <;> simp

/-- the run from the entry of block `l` -/
abbrev runB (P : Prog) (hv : Nat → Var → Int) (ch : Chooser) (f step : Nat) (cnt : Counts) (l : Label)
    (σ : State) (nh : Nat) : Trace :=
  runWith P hv ch f step cnt l 0 (P.stmtsOf l) σ nh

theorem run_chain (P : Prog) (hv : Nat → Var → Int) (ch : Chooser) :
    ∀ (f step : Nat) (cnt : Counts) (l : Label) (σ : State) (nh : Nat),
      Chain P l (runB P hv ch f step cnt l σ nh).path ∧
      ((runB P hv ch f step cnt l σ nh).fin = .exit → P.isExit (lastOf l (runB P hv ch f step cnt l σ nh).path) = true) ∧
      ((runB P hv ch f step cnt l σ nh).fin = .sink →
        P.succsOf (lastOf l (runB P hv ch f step cnt l σ nh).path) = [] ∧
        P.isExit (lastOf l (runB P hv ch f step cnt l σ nh).path) = false) := by
  intro f
  induction f with
  | zero => intro step cnt l σ nh; simp [runB, runWith, Chain]
  | succ f ih =>
    intro step cnt l σ nh
    unfold runB
    cases hr : runStmts hv l 0 (P.stmtsOf l) σ nh with
    | mk t b =>
      cases b with
      | stop o =>
        rw [runWith_stop hr]
        have := endOfStop_ne t o
        simp only [Chain, true_and]
        exact ⟨fun h => absurd h this.1, fun h => absurd h this.2⟩
      | fall σ1 n1 =>
        cases hn : nextOf P ch step cnt l σ1 with
        | halt e =>
          rw [runWith_halt hr hn]
          simp only [Chain, true_and, lastOf]
          refine ⟨fun h => ?_, fun h => ?_⟩
          · subst h; exact nextOf_halt_exit hn
          · subst h; exact ⟨(nextOf_halt_sink hn).2, (nextOf_halt_sink hn).1⟩
        | goto l' =>
          rw [runWith_goto hr hn]
          obtain ⟨hm, hex, _⟩ := nextOf_goto hn
          obtain ⟨h1, h2, h3⟩ := ih (step + 1) (cnt.bump l) l' σ1 n1
          simp only [lastOf_cons]
          exact ⟨⟨hm, runStmts_fall_noUnreach hv l _ _ _ _ _ _ _ hr, hex, h1⟩, h2, h3⟩

theorem chain_live {P : Prog} {g : Cdg} {F : Label → Facts} {a : AId} (hs : CtrlSolp P g F a) :
    ∀ (π : List Label) (l m : Label), Chain P l π → m ∈ π → (F m).has a = true → (F l).has a = true := by
  intro π
  induction π with
  | nil => intro l m _ h; cases h
  | cons m' r ih =>
    intro l m hc hm hh
    obtain ⟨h1, h2, _, h4⟩ := hc
    have : (F m').has a = true := by
      rcases List.mem_cons.mp hm with rfl | hm
      · exact hh
      · exact ih m' m h4 hm hh
    exact hs.flow l m' (succ_label h1) h2 h1 this

theorem isExit_iff {P : Prog} {l : Label} : P.isExit l = true ↔ P.exit = some l := by
  simp [Prog.isExit]

/-- a chain that ends in the exit block passes through every post-dominator of its start -/
theorem chain_pdom {P : Prog} {x u : Label} :
    ∀ (π : List Label) (l : Label), Chain P l π → lastOf l π = x → PDom P x u l → u ∈ l :: π := by
  intro π
  induction π with
  | nil =>
    intro l _ hl hp
    simp only [lastOf] at hl
    subst hl
    simp [PDom.of_exit hp]
  | cons m r ih =>
    intro l hc hl hp
    by_cases hul : u = l
    · subst hul; exact List.mem_cons_self
    · rw [lastOf_cons] at hl
      exact List.mem_cons_of_mem _ (ih m hc.2.2.2 hl (PDom.succ hp hul hc.1))

theorem two_le_of_mem_ne {α : Type} {L : List α} {a b : α} (ha : a ∈ L) (hb : b ∈ L) (hne : a ≠ b) : 2 ≤ L.length := by
  cases L with
  | nil => cases ha
  | cons x r =>
    cases r with
    | nil =>
      have h1 : a = x := by simpa using ha
      have h2 : b = x := by simpa using hb
      exact absurd (h1.trans h2.symm) hne
    | cons _ _ => simp

theorem gpath_first {next : Label → List Label} {a b : Label} (h : GPath next a b) (hne : a ≠ b) :
    ∃ t, t ∈ next a ∧ GPath next t b := by
  cases h with
  | refl _ => exact absurd rfl hne
  | step hm hp => exact ⟨_, hm, hp⟩

/-- a chain from a block of the region (it reaches the exit, is not the join `s`, and `s`
    post-dominates it) that ends in a block without successors: it passes through `s`, or it leaves
    the blocks that reach the exit at a block `w` of the region -/
theorem sink_reach {P : Prog} (hwf : WFp P) {x s s0 : Label} (hx : P.exit = some x) :
    ∀ (π : List Label) (b : Label), Chain P b π → P.succsOf (lastOf b π) = [] → P.isExit (lastOf b π) = false →
      GPath (succsAvoid P s) s0 b → CoReach P x b → b ≠ s → PDom P x s b →
      s ∈ π ∨ ∃ w w', GPath (succsAvoid P s) s0 w ∧ CoReach P x w ∧ w ≠ s ∧ PDom P x s w ∧
        2 ≤ (P.succsOf w).length ∧ w' ∈ P.succsOf w ∧ w' ∉ P.coExit := by
  intro π
  induction π with
  | nil =>
    intro b _ hsucc hex _ hco hbs _
    simp only [lastOf] at hsucc hex
    exfalso
    by_cases hbx : b = x
    · have : P.isExit b = true := isExit_iff.mpr (hbx ▸ hx)
      rw [this] at hex; cases hex
    · obtain ⟨t, ht, _⟩ := gpath_first hco hbx
      rw [hsucc] at ht; cases ht
  | cons m r ih =>
    intro b hc hsucc hex hp hco hbs hsb
    rw [lastOf_cons] at hsucc hex
    obtain ⟨hm, _, hbex, hcr⟩ := hc
    by_cases hms : m = s
    · left; rw [hms]; exact List.mem_cons_self
    · by_cases hcm : CoReach P x m
      · rcases ih m hcr hsucc hex (hp.snoc (mem_succsAvoid.mpr ⟨hm, hms⟩)) hcm hms
          (PDom.succ hsb (fun e => hbs e.symm) hm) with h | h
        · exact Or.inl (List.mem_cons_of_mem _ h)
        · exact Or.inr h
      · right
        have hbx : b ≠ x := by
          intro e
          have : P.isExit b = true := isExit_iff.mpr (e ▸ hx)
          rw [this] at hbex; cases hbex
        obtain ⟨t, ht, htp⟩ := gpath_first hco hbx
        have hne : t ≠ m := by intro e; subst e; exact hcm htp
        refine ⟨b, m, hp, hco, hbs, hsb, two_le_of_mem_ne ht hm hne, hm, ?_⟩
        intro hmem
        obtain ⟨x', hx', hco'⟩ := mem_coExit hwf hmem
        rw [hx] at hx'
        simp only [Option.some.injEq] at hx'
        subst hx'
        exact hcm hco'

/-! ### where the tracked assertion is executed -/

theorem runStmts_aSeq (a : AId) (hv : Nat → Var → Int) (l : Label) :
    ∀ (ss : List Stmt) (i : Nat) (σ : State) (nh : Nat), aSeq a (runStmts hv l i ss σ nh).1 ≠ [] →
      l = a.1 ∧ i ≤ a.2 ∧ noUnreach (ss.take (a.2 - i)) = true := by
  intro ss
  induction ss with
  | nil => intro i σ nh h; simp [runStmts, aSeq] at h
  | cons s r ih =>
    intro i σ nh h
    by_cases htr : tracked a l i s = true
    · cases s with
      | assert c =>
        simp only [tracked, Bool.and_eq_true, beq_iff_eq] at htr
        refine ⟨htr.1, by omega, ?_⟩
        have : a.2 - i = 0 := by omega
        rw [this]
        rfl
      | assign _ _ => simp [tracked] at htr
      | bin _ _ _ _ => simp [tracked] at htr
      | havoc _ => simp [tracked] at htr
      | assume _ => simp [tracked] at htr
      | select _ _ _ _ => simp [tracked] at htr
      | unreachable => simp [tracked] at htr
    · have htr' : tracked a l i s = false := by
        cases hh : tracked a l i s with
        | true => exact absurd hh htr
        | false => rfl
      have hu := aSeq_tagEv_untracked a l i s σ (hvVal hv nh s) htr'
      cases hs : stepStmt s σ (hvVal hv nh s) with
      | cont σ1 e1 =>
        rw [runStmts_cons_cont hs] at h
        simp only [aSeq_append, hu.1 σ1 e1 hs, List.nil_append] at h
        obtain ⟨h1, h2, h3⟩ := ih (i + 1) σ1 (hvNext nh s) h
        refine ⟨h1, by omega, ?_⟩
        have he : a.2 - i = (a.2 - (i + 1)) + 1 := by omega
        rw [he, List.take_succ_cons]
        apply (noUnreach_cons s _).mpr
        refine ⟨?_, h3⟩
        cases s <;> simp [Stmt.isUnreachable, stepStmt] at hs ⊢
      | stop e1 o1 =>
        rw [runStmts_cons_stop hs] at h
        exact absurd (hu.2 e1 o1 hs) h

theorem nextOf_halt_cases {P : Prog} {ch : Chooser} {step : Nat} {cnt : Counts} {l : Label} {σ : State} {e : End}
    (h : nextOf P ch step cnt l σ = .halt e) : e = .exit ∨ e = .fuel ∨ e = .sink := by
  unfold nextOf at h
  by_cases hex : P.isExit l = true
  · simp only [hex, if_true, Next.halt.injEq] at h; exact Or.inl h.symm
  · simp only [hex, Bool.false_eq_true, if_false] at h
    by_cases hh : hugeState P.nvars σ = true
    · simp only [hh, if_true, Next.halt.injEq] at h; exact Or.inr (Or.inl h.symm)
    · simp only [hh, Bool.false_eq_true, if_false] at h
      cases hsc : P.succsOf l with
      | nil => rw [hsc] at h; simp only [Next.halt.injEq] at h; exact Or.inr (Or.inr h.symm)
      | cons x xs =>
        rw [hsc] at h
        simp only at h
        split at h
        · cases h
        · simp only [Next.halt.injEq] at h; exact Or.inr (Or.inl h.symm)

/-- an executed assertion has an entry at the start of the run, and its block is reachable -/
theorem run_live {P : Prog} {g : Cdg} {F : Label → Facts} {a : AId} (hs : CtrlSolp P g F a)
    (hv : Nat → Var → Int) (ch : Chooser) :
    ∀ (f step : Nat) (cnt : Counts) (l : Label) (σ : State) (nh : Nat),
      aSeq a (runB P hv ch f step cnt l σ nh).evs ≠ [] → (F l).has a = true ∧ GPath P.succsOf l a.1 := by
  intro f
  induction f with
  | zero => intro step cnt l σ nh h; simp [runB, runWith, aSeq] at h
  | succ f ih =>
    intro step cnt l σ nh h
    unfold runB at h
    have hblock : aSeq a (runStmts hv l 0 (P.stmtsOf l) σ nh).1 ≠ [] → (F l).has a = true ∧ GPath P.succsOf l a.1 := by
      intro hne
      obtain ⟨h1, _, h3⟩ := runStmts_aSeq a hv l _ 0 σ nh hne
      simp only [Nat.sub_zero] at h3
      subst h1
      exact ⟨hs.gen h3, GPath.refl _⟩
    cases hr : runStmts hv l 0 (P.stmtsOf l) σ nh with
    | mk t b =>
      rw [hr] at hblock
      simp only at hblock
      cases b with
      | stop o => rw [runWith_stop hr] at h; exact hblock h
      | fall σ1 n1 =>
        cases hn : nextOf P ch step cnt l σ1 with
        | halt e => rw [runWith_halt hr hn] at h; exact hblock h
        | goto l' =>
          rw [runWith_goto hr hn] at h
          simp only [aSeq_append] at h
          by_cases ht : aSeq a t = []
          · rw [ht, List.nil_append] at h
            obtain ⟨h1, h2⟩ := ih (step + 1) (cnt.bump l) l' σ1 n1 h
            obtain ⟨hm, _, _⟩ := nextOf_goto hn
            exact ⟨hs.flow l l' (succ_label hm) (runStmts_fall_noUnreach hv l _ _ _ _ _ _ _ hr) hm h1,
              GPath.step hm h2⟩
          · exact hblock ht

/-- a run that ended because the tracked assertion failed executed it -/
theorem run_failed_aSeq (P : Prog) (a : AId) (hv : Nat → Var → Int) (ch : Chooser) :
    ∀ (f step : Nat) (cnt : Counts) (l : Label) (σ : State) (nh : Nat),
      (runB P hv ch f step cnt l σ nh).fin = .failed a.1 a.2 → aSeq a (runB P hv ch f step cnt l σ nh).evs ≠ [] := by
  intro f
  induction f with
  | zero => intro step cnt l σ nh h; simp [runB, runWith] at h
  | succ f ih =>
    intro step cnt l σ nh h
    unfold runB at h ⊢
    cases hr : runStmts hv l 0 (P.stmtsOf l) σ nh with
    | mk t b =>
      cases b with
      | stop o =>
        rw [runWith_stop hr] at h ⊢
        simp only at h ⊢
        cases o with
        | failed =>
          obtain ⟨t', k, c, ht⟩ := runStmts_stop_failed hv l _ _ _ _ _ hr
          subst ht
          simp only [endOfStop, List.getLast?_append, List.getLast?_singleton, Option.some_or,
            End.failed.injEq] at h
          simp [aSeq_append, aSeq, h.1, h.2]
        | exit _ => simp [endOfStop] at h
        | blocked => simp [endOfStop] at h
        | divzero => simp [endOfStop] at h
      | fall σ1 n1 =>
        cases hn : nextOf P ch step cnt l σ1 with
        | halt e =>
          rw [runWith_halt hr hn] at h
          simp only at h
          rcases nextOf_halt_cases hn with h' | h' | h' <;> rw [h'] at h <;> cases h
        | goto l' =>
          rw [runWith_goto hr hn] at h ⊢
          simp only [aSeq_append] at h ⊢
          have := ih (step + 1) (cnt.bump l) l' σ1 n1 h
          intro hc
          exact this (List.append_eq_nil_iff.mp hc).2

theorem kind_complete_cases (P : Prog) (a : AId) (hv : Nat → Var → Int) (ch : Chooser) (f step : Nat)
    (cnt : Counts) (l : Label) (σ : State) (nh : Nat)
    (h : (runB P hv ch f step cnt l σ nh).kind a = .complete) :
    (runB P hv ch f step cnt l σ nh).fin = .exit ∨ (runB P hv ch f step cnt l σ nh).fin = .sink ∨
      aSeq a (runB P hv ch f step cnt l σ nh).evs ≠ [] := by
  unfold Trace.kind at h
  cases hf : (runB P hv ch f step cnt l σ nh).fin with
  | exit => exact Or.inl rfl
  | sink => exact Or.inr (Or.inl rfl)
  | failed b i =>
    rw [hf] at h
    simp only at h
    split at h
    · rename_i hc
      simp only [Bool.and_eq_true, beq_iff_eq] at hc
      right; right
      apply run_failed_aSeq
      rw [hf, hc.1, hc.2]
    · cases h
  | infeasible => rw [hf] at h; cases h
  | divzero => rw [hf] at h; cases h
  | fuel => rw [hf] at h; cases h

/-! ### identifiers that are not assertions of the program are never executed -/

theorem runStmts_aSeq_assert (a : AId) (hv : Nat → Var → Int) (l : Label) :
    ∀ (ss : List Stmt) (i : Nat) (σ : State) (nh : Nat), aSeq a (runStmts hv l i ss σ nh).1 ≠ [] →
      l = a.1 ∧ i ≤ a.2 ∧ ∃ c, ss[a.2 - i]? = some (.assert c) := by
  intro ss
  induction ss with
  | nil => intro i σ nh h; simp [runStmts, aSeq] at h
  | cons s r ih =>
    intro i σ nh h
    by_cases htr : tracked a l i s = true
    · cases s with
      | assert c =>
        simp only [tracked, Bool.and_eq_true, beq_iff_eq] at htr
        refine ⟨htr.1, by omega, c, ?_⟩
        have : a.2 - i = 0 := by omega
        rw [this]
        rfl
      | assign _ _ => simp [tracked] at htr
      | bin _ _ _ _ => simp [tracked] at htr
      | havoc _ => simp [tracked] at htr
      | assume _ => simp [tracked] at htr
      | select _ _ _ _ => simp [tracked] at htr
      | unreachable => simp [tracked] at htr
    · have htr' : tracked a l i s = false := by
        cases hh : tracked a l i s with
        | true => exact absurd hh htr
        | false => rfl
      have hu := aSeq_tagEv_untracked a l i s σ (hvVal hv nh s) htr'
      cases hs : stepStmt s σ (hvVal hv nh s) with
      | cont σ1 e1 =>
        rw [runStmts_cons_cont hs] at h
        simp only [aSeq_append, hu.1 σ1 e1 hs, List.nil_append] at h
        obtain ⟨h1, h2, c, h3⟩ := ih (i + 1) σ1 (hvNext nh s) h
        refine ⟨h1, by omega, c, ?_⟩
        have he : a.2 - i = (a.2 - (i + 1)) + 1 := by omega
        rw [he, List.getElem?_cons_succ]
        exact h3
      | stop e1 o1 =>
        rw [runStmts_cons_stop hs] at h
        exact absurd (hu.2 e1 o1 hs) h

theorem run_assert (P : Prog) (a : AId) (hv : Nat → Var → Int) (ch : Chooser) :
    ∀ (f step : Nat) (cnt : Counts) (l : Label) (σ : State) (nh : Nat),
      aSeq a (runB P hv ch f step cnt l σ nh).evs ≠ [] → ∃ c, (a, c) ∈ P.asserts := by
  intro f
  induction f with
  | zero => intro step cnt l σ nh h; simp [runB, runWith, aSeq] at h
  | succ f ih =>
    intro step cnt l σ nh h
    unfold runB at h
    have hblock : aSeq a (runStmts hv l 0 (P.stmtsOf l) σ nh).1 ≠ [] → ∃ c, (a, c) ∈ P.asserts := by
      intro hne
      obtain ⟨h1, _, c, h3⟩ := runStmts_aSeq_assert a hv l _ 0 σ nh hne
      simp only [Nat.sub_zero] at h3
      refine ⟨c, ?_⟩
      have := mem_asserts h3
      rw [h1] at this
      exact this
    cases hr : runStmts hv l 0 (P.stmtsOf l) σ nh with
    | mk t b =>
      rw [hr] at hblock
      simp only at hblock
      cases b with
      | stop o => rw [runWith_stop hr] at h; exact hblock h
      | fall σ1 n1 =>
        cases hn : nextOf P ch step cnt l σ1 with
        | halt e => rw [runWith_halt hr hn] at h; exact hblock h
        | goto l' =>
          rw [runWith_goto hr hn] at h
          simp only [aSeq_append] at h
          by_cases ht : aSeq a t = []
          · rw [ht, List.nil_append] at h
            exact ih (step + 1) (cnt.bump l) l' σ1 n1 h
          · exact hblock ht

end TIR
end Crab
