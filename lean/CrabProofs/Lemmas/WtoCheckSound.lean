import CrabProofs.Lemmas.WtoNesting

/-!
  `checkWto` decides `WtoWF`: soundness for every graph, completeness for graphs whose edges stay
  inside `0..n-1`.
-/
namespace Crab
namespace Wto

theorem lookup_isSome_of_mem {p : Nat × List Nat} : ∀ {t : List (Nat × List Nat)}, p ∈ t →
    (List.lookup p.1 t).isSome = true
  | [], h => by cases h
  | q :: t, h => by
    simp only [List.lookup]
    by_cases hq : p.1 = q.1
    · have : (p.1 == q.1) = true := by simpa using hq
      simp [this]
    · have hb : (p.1 == q.1) = false := by simpa using hq
      simp only [hb]
      rcases List.mem_cons.1 h with rfl | h
      · exact absurd rfl hq
      · exact lookup_isSome_of_mem h

theorem checkNodes_sound {g : Graph} {e : Nat} {fl : List Nat} (h : checkNodes g e fl = true) :
    (∀ v, v ∈ fl ↔ Reach g e v) ∧ fl.Nodup := by
  simp only [checkNodes, Bool.and_eq_true, List.all_eq_true, decide_eq_true_eq,
    List.contains_iff_mem] at h
  obtain ⟨⟨⟨he, hcl⟩, hr⟩, hn⟩ := h
  refine ⟨fun v => ⟨fun hv => reachList_sound (hr v hv), fun hv => ?_⟩, hn⟩
  induction hv with
  | refl => exact he
  | step _ hs ih => exact hcl _ ih _ hs

theorem checkNodes_complete {g : Graph} (hg : g.WF) {e : Nat} (he : e < g.n) {fl : List Nat}
    (h1 : ∀ v, v ∈ fl ↔ Reach g e v) (h2 : fl.Nodup) : checkNodes g e fl = true := by
  simp only [checkNodes, Bool.and_eq_true, List.all_eq_true, decide_eq_true_eq,
    List.contains_iff_mem]
  refine ⟨⟨⟨(h1 e).2 Reach.refl, ?_⟩, ?_⟩, h2⟩
  · intro u hu v hv
    exact (h1 v).2 (Reach.step ((h1 u).1 hu) hv)
  · intro u hu
    exact reachList_complete hg he ((h1 u).1 hu)

theorem checkWto_sound' {g : Graph} {e : Nat} {w : List WtoC} {tbl : List (Nat × List Nat)}
    (h : checkWto g e w tbl = true) : WtoWF g e w (fun v => tbl.lookup v) := by
  simp only [checkWto, Bool.and_eq_true] at h
  obtain ⟨⟨hnodes, hedges⟩, hnest⟩ := h
  obtain ⟨hmem, hnd⟩ := checkNodes_sound hnodes
  simp only [checkEdges, List.all_eq_true] at hedges
  simp only [checkNest, Bool.and_eq_true, List.all_eq_true, beq_iff_eq, List.contains_iff_mem] at hnest
  refine ⟨hmem, hnd, ?_, ?_, ?_⟩
  · intro u v hu huv
    have hc := hedges u ((hmem u).2 hu) v huv
    simp only [checkEdge, Bool.or_eq_true, decide_eq_true_eq] at hc
    rcases hc with hc | hc
    · exact Or.inl (before_of_idxOf_lt hc ((hmem v).2 (Reach.step hu huv)))
    · exact Or.inr (headContainsL_sound v u w hc)
  · intro v hs he
    have hv := mem_flattenL_of_encl he
    rw [hnest.1 v hv, nesting_eq_nestFind, nestFindL_of_encl he [] hnd]
    simp
  · intro v hv
    cases hl : List.lookup v tbl with
    | none => rfl
    | some x =>
      exfalso
      -- a key of the table occurs in the ordering
      have : ∃ p ∈ tbl, p.1 = v := by
        clear hnest
        induction tbl with
        | nil => simp [List.lookup] at hl
        | cons q t ih =>
          simp only [List.lookup] at hl
          split at hl
          · rename_i hq
            exact ⟨q, by simp, by simpa using Eq.symm (by simpa using hq)⟩
          · obtain ⟨p, hp, hpv⟩ := ih hl
            exact ⟨p, List.mem_cons_of_mem _ hp, hpv⟩
      obtain ⟨p, hp, hpv⟩ := this
      exact hv (hpv ▸ hnest.2 p hp)

theorem checkWto_complete' {g : Graph} (hg : g.WF) {e : Nat} (he : e < g.n) {w : List WtoC}
    {tbl : List (Nat × List Nat)} (h : WtoWF g e w (fun v => tbl.lookup v)) :
    checkWto g e w tbl = true := by
  simp only [checkWto, Bool.and_eq_true]
  refine ⟨⟨checkNodes_complete hg he h.nodes h.nodup, ?_⟩, ?_⟩
  · simp only [checkEdges, List.all_eq_true]
    intro u hu v huv
    simp only [checkEdge, Bool.or_eq_true, decide_eq_true_eq]
    rcases h.edges u v ((h.nodes u).1 hu) huv with hb | ⟨body, hs, hm⟩
    · exact Or.inl (idxOf_lt_of_before h.nodup hb)
    · exact Or.inr (headContainsL_complete hs body rfl hm)
  · simp only [checkNest, Bool.and_eq_true, List.all_eq_true, beq_iff_eq, List.contains_iff_mem]
    constructor
    · intro v hv
      rw [nesting_eq_nestFind]
      cases hf : nestFindL [] v w with
      | none => exact absurd hv ((nestFindL_none [] v w).1 hf)
      | some x =>
        obtain ⟨hs, hx, henc⟩ := encl_of_nestFindL v w [] x hf
        rw [h.nest_some v hs henc, hx]
        simp
    · intro p hp
      apply Classical.byContradiction
      intro hn
      have h1 := h.nest_none p.1 hn
      have h2 := lookup_isSome_of_mem hp
      rw [h1] at h2
      cases h2

end Wto
end Crab
