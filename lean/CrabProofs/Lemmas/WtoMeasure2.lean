import CrabProofs.Lemmas.WtoMeasure

/-! How the measures of `WtoMeasure.lean` evolve along the steps of the invariant. -/
namespace Crab
namespace Wto

open Classical in
theorem freeList_congr {K : Nat → Prop} {st st' : St} (hsz : st'.dfn.size = st.dfn.size)
    (h : ∀ x, K x → (getDfn st'.dfn x = .fin 0 ↔ getDfn st.dfn x = .fin 0)) :
    freeList K st' = freeList K st := by
  unfold freeList
  rw [hsz]
  apply List.filter_congr
  intro x _
  by_cases hk : K x
  · simp [hk, h x hk]
  · simp [hk]

open Classical in
theorem mem_freeList {K : Nat → Prop} {st : St} {x : Nat} :
    x ∈ freeList K st ↔ x < st.dfn.size ∧ K x ∧ getDfn st.dfn x = .fin 0 := by
  simp [freeList]

theorem length_filter_mono (P Q : Nat → Bool) (l : List Nat) (himp : ∀ x ∈ l, Q x = true → P x = true) :
    (l.filter Q).length ≤ (l.filter P).length := by
  induction l with
  | nil => simp
  | cons a l ih =>
    have ih' := ih (fun x hx => himp x (List.mem_cons_of_mem _ hx))
    simp only [List.filter_cons]
    cases hQ : Q a
    · cases hP : P a
      · simpa using ih'
      · simp; omega
    · have hP : P a = true := himp a (by simp) hQ
      simp [hP]; omega

section
variable {g : Graph} {K : Nat → Prop} {st0 : St} {part0 : List WtoC} {v : Nat}
  {gs : List GF} {ln : List Nat} {part : List WtoC} {st : St} {W : List WtoC}

/-- the free nodes of the region, in terms of the ghost sets -/
theorem Inv.free_iff (h : Inv g K st0 part0 v gs ln part st W) (hK : ClosedK g K st0) {x : Nat} (hx : K x) :
    getDfn st.dfn x = .fin 0 ↔ (getDfn st0.dfn x = .fin 0 ∧ x ∉ flattenL W ∧ x ∉ stk gs) := by
  constructor
  · intro h0
    exact ((h.classify hK (Or.inl hx)).2.1 h0).2
  · rintro ⟨h0, hW, hS⟩
    rw [h.dfn_other x hW hS]; exact h0
end

open Classical in
/-- discovering a node removes it (and its weight) from the free nodes -/
theorem wt_free_discover (g : Graph) {K : Nat → Prop} {st : St} {child : Nat} (hk : K child)
    (h0 : getDfn st.dfn child = .fin 0) (hsz : child < st.dfn.size) :
    wt g (freeList K (discover st child)) + ((g.succ child).length + 2) ≤ wt g (freeList K st) := by
  unfold freeList
  have hsize : (discover st child).dfn.size = st.dfn.size := by simp [discover]
  rw [hsize]
  apply wt_filter_add_le
  · intro x _ hx
    simp only [decide_eq_true_eq] at hx ⊢
    refine ⟨hx.1, ?_⟩
    have := hx.2
    rw [getDfn_discover st child x hsz] at this
    split at this
    · cases this
    · exact this
  · exact List.mem_range.2 hsz
  · simp [hk, h0]
  · simp only [decide_eq_false_iff_not, not_and]
    intro _
    rw [getDfn_discover st child child hsz]; simp

open Classical in
theorem lvl_le_of_placed {g : Graph} {K : Nat → Prop} {st0 st : St} {W : List WtoC}
    (hP : Placed g K st0 W st) : lvl K st ≤ lvl K st0 := by
  unfold lvl freeList
  rw [hP.size_eq]
  apply length_filter_mono
  intro x _ hx
  simp only [decide_eq_true_eq] at hx ⊢
  refine ⟨hx.1, ?_⟩
  by_cases hw : x ∈ flattenL W
  · have := hP.dfn_W x hw
    rw [this] at hx; cases hx.2
  · rw [← hP.dfn_other x hw]; exact hx.2

theorem wt_free_le_total (g : Graph) (K : Nat → Prop) (st : St) (hsz : st.dfn.size = g.n) :
    wt g (freeList K st) ≤ totalWt g := by
  unfold freeList
  rw [hsz, ← wt_range g]
  exact wt_filter_le g _ _

open Classical in
theorem lvl_le_size (K : Nat → Prop) (st : St) : lvl K st ≤ st.dfn.size := by
  unfold lvl freeList
  have := List.length_filter_le (fun x => decide (K x ∧ getDfn st.dfn x = .fin 0)) (List.range st.dfn.size)
  simpa using this

end Wto
end Crab
