import CrabProofs.Lemmas.WIntExtra7

/-!
  More lemmas about `Crab.WInt` (part 8): `signed_div` on pieces that lie in one hemisphere.
-/
set_option linter.unusedSimpArgs false

namespace Crab
namespace WInt
open WrapInt

/-- signed division of two points of the circle of `2^w` points (`MIN / -1` wraps to `MIN`) -/
def sdivN (w p q : Nat) : Nat := ((BitVec.ofNat w p).sdiv (BitVec.ofNat w q)).toNat

theorem sdivN_bv {w : Nat} (a b : BitVec w) : (a.sdiv b).toNat = sdivN w a.toNat b.toNat := by
  unfold sdivN
  rw [BitVec.ofNat_toNat, BitVec.setWidth_eq, BitVec.ofNat_toNat, BitVec.setWidth_eq]

theorem sdivN_lt (w p q : Nat) : sdivN w p q < 2 ^ w := BitVec.isLt _

theorem wsdiv_val {w p q : Nat} (h1w : 1 ≤ w) (hw : w ≤ 64) (hp : p < 2 ^ w) (hq : q < 2 ^ w)
    (hq0 : q ≠ 0) : WrapInt.sdiv ⟨w, p⟩ ⟨w, q⟩ = some ⟨w, sdivN w p q⟩ := by
  have hne : BitVec.ofNatLT q hq ≠ 0 := by
    intro h
    have := congrArg BitVec.toNat h
    simp at this; exact hq0 this
  have := sdiv_ofBV h1w hw (BitVec.ofNatLT p hp) (BitVec.ofNatLT q hq) hne
  simp only [ofBV, BitVec.toNat_ofNatLT] at this
  rw [this, ofNatLT_eq_ofNat, ofNatLT_eq_ofNat]; rfl

/-- away from `MIN / -1` the signed reading of the quotient is the truncated quotient -/
theorem sg_sdivN {w p q : Nat} (h1w : 1 ≤ w) (hp : p < 2 ^ w) (hq : q < 2 ^ w)
    (hno : ¬ (p = 2 ^ (w - 1) ∧ q = 2 ^ w - 1)) :
    sg (2 ^ w) (sdivN w p q) = (sg (2 ^ w) p).tdiv (sg (2 ^ w) q) := by
  have hM := pow_succ_pred h1w
  have hH : 0 < 2 ^ (w - 1) := Nat.pow_pos (by decide)
  unfold sdivN
  rw [sg_toInt, BitVec.toInt_sdiv_of_ne_or_ne, ← sg_toInt, ← sg_toInt, BitVec.toNat_ofNat,
    BitVec.toNat_ofNat, Nat.mod_eq_of_lt hp, Nat.mod_eq_of_lt hq]
  by_cases h1 : p = 2 ^ (w - 1)
  · right
    intro h
    have := congrArg BitVec.toNat h
    rw [BitVec.neg_one_eq_allOnes, BitVec.toNat_allOnes, BitVec.toNat_ofNat, Nat.mod_eq_of_lt hq] at this
    exact hno ⟨h1, this⟩
  · left
    intro h
    have := congrArg BitVec.toNat h
    rw [BitVec.toNat_intMin, BitVec.toNat_ofNat, Nat.mod_eq_of_lt hp,
      Nat.mod_eq_of_lt (by omega : 2 ^ (w - 1) < 2 ^ w)] at this
    exact h1 this

/-! ### truncated division of signed numbers through natural numbers -/

theorem tdiv_pp (m n : Nat) : (m : Int).tdiv n = ((m / n : Nat) : Int) := (Int.ofNat_tdiv m n).symm
theorem tdiv_np (m n : Nat) : (-(m : Int)).tdiv n = -((m / n : Nat) : Int) := by
  rw [Int.neg_tdiv, tdiv_pp]
theorem tdiv_pn (m n : Nat) : (m : Int).tdiv (-(n : Int)) = -((m / n : Nat) : Int) := by
  rw [Int.tdiv_neg, tdiv_pp]
theorem tdiv_nn (m n : Nat) : (-(m : Int)).tdiv (-(n : Int)) = ((m / n : Nat) : Int) := by
  rw [Int.tdiv_neg, Int.neg_tdiv, tdiv_pp, Int.neg_neg]

/-- a point of the upper half of the circle is minus its distance to the top -/
theorem sg_neg {M p : Nat} (h : M ≤ 2 * p) (hp : p < M) : sg M p = -((M - p : Nat) : Int) := by
  rcases sg_spec M p with ⟨a, _⟩ | ⟨_, b⟩
  · omega
  · rw [b]; omega
theorem sg_pos {M p : Nat} (h : 2 * p < M) : sg M p = (p : Int) := by
  rcases sg_spec M p with ⟨_, b⟩ | ⟨a, _⟩
  · exact b
  · omega

/-! ### `signed_div` -/

theorem sdiv_width {a b r : WrapInt} (h : WrapInt.sdiv a b = some r) : r.width = a.width := by
  unfold WrapInt.sdiv at h
  split at h
  · split at h
    · cases h
    · split at h
      · split at h
        · injection h with h; subst h; rfl
        · split at h
          · next q hq =>
            unfold ofZ? at h
            split at h
            · split at h
              · split at h
                · cases h
                · injection h with h; subst h; rfl
              · cases h
            · cases h
          · cases h
      · cases h
  · cases h

/-- `signed_div` answers `top()` or an interval of width `w` -/
theorem signedDiv_good {w : Nat} (hw : w ≤ 64) {a b c d : Nat} {q : WInt}
    (h : signedDiv? (W w a b false) (W w c d false) = some q) : Good w q := by
  have mk : ∀ (p1 p2 p3 p4 : Nat) (q : WInt),
      (match WrapInt.sdiv ⟨w, p1⟩ ⟨w, p2⟩, WrapInt.sdiv ⟨w, p3⟩ ⟨w, p4⟩ with
        | some a, some c => some (mk2 a c)
        | _, _ => none) = some q → Good w q := by
    intro p1 p2 p3 p4 q hq
    split at hq
    · next r1 r2 e1 e2 =>
      injection hq with hq; subst hq
      right
      exact shape_mk2 (sdiv_width e1) (sdiv_width e2)
        (by have := sdiv_reduced (a := ⟨w, p1⟩) hw e1; rw [Reduced, sdiv_width e1] at this; exact this)
        (by have := sdiv_reduced (a := ⟨w, p3⟩) hw e2; rw [Reduced, sdiv_width e2] at this; exact this)
    · cases hq
  have tp : Good w top := Or.inl rfl
  unfold signedDiv? at h
  dsimp only at h
  split at h
  · split at h
    · split at h
      · exact mk _ _ _ _ _ h
      · injection h with h; subst h; exact tp
    · split at h
      · exact mk _ _ _ _ _ h
      · injection h with h; subst h; exact tp
  · split at h
    · split at h
      · exact mk _ _ _ _ _ h
      · injection h with h; subst h; exact tp
    · split at h
      · exact mk _ _ _ _ _ h
      · injection h with h; subst h; exact tp

theorem m1_val {w : Nat} (h1w : 1 ≤ w) (hw : w ≤ 64) : (ofNatT (2 ^ 64 - 1) w).n = 2 ^ w - 1 := by
  unfold ofNatT
  simp only
  split
  · next h =>
    have h1 : 2 ^ 64 = 2 ^ w * 2 ^ (64 - w) := pow64_split hw
    have hpos : 0 < 2 ^ (64 - w) := Nat.pow_pos (by decide)
    have hM : 0 < 2 ^ w := Nat.pow_pos (by decide)
    obtain ⟨K, hK⟩ : ∃ K, 2 ^ (64 - w) = K + 1 := ⟨2 ^ (64 - w) - 1, by omega⟩
    have : 2 ^ 64 - 1 = (2 ^ w - 1) + 2 ^ w * K := by
      rw [h1, hK, Nat.mul_succ]; omega
    rw [this, Nat.add_mul_mod_self_left]
    exact Nat.mod_eq_of_lt (by omega)
  · next h =>
    have : w = 64 := by omega
    subst this; rfl

/-- the quotients of a box of signed numbers by a box of signed numbers without zero, in the four
    sign combinations, all on magnitudes -/
theorem div_box {a b c d u v : Nat} (hau : a ≤ u) (hub : u ≤ b) (hc : 1 ≤ c) (hcv : c ≤ v)
    (hvd : v ≤ d) : a / d ≤ u / v ∧ u / v ≤ b / c :=
  ⟨Nat.div_le_div hau hvd (by omega), Nat.div_le_div hub hcv (by omega)⟩

/-- `signed_div` of a piece by a piece that does not contain zero, each inside one hemisphere -/
theorem signedDiv_sound {w : Nat} (h1w : 1 ≤ w) (hw : w ≤ 64) {a b c d u v : Nat}
    (h1 : Hemi w a b) (h2 : Hemi w c d) (hc1 : 1 ≤ c)
    (hau : a ≤ u) (hub : u ≤ b) (hcv : c ≤ v) (hvd : v ≤ d) :
    ∃ q, signedDiv? (W w a b false) (W w c d false) = some q ∧ mem w (sdivN w u v) q := by
  obtain ⟨hab, hb, hh1⟩ := h1
  obtain ⟨hcd, hd, hh2⟩ := h2
  have hM := pow_succ_pred h1w
  have hH : 0 < 2 ^ (w - 1) := Nat.pow_pos (by decide)
  have ha : a < 2 ^ w := by omega
  have hc : c < 2 ^ w := by omega
  have hu : u < 2 ^ w := by omega
  have hv : v < 2 ^ w := by omega
  unfold signedDiv?
  simp only [msb_val h1w hw ha, msb_val h1w hw hc, m1_val h1w hw, sminT,
    wsdiv_val h1w hw ha hc (by omega), wsdiv_val h1w hw ha hd (by omega),
    wsdiv_val h1w hw hb hc (by omega), wsdiv_val h1w hw hb hd (by omega)]
  rcases hh1 with hx | hx <;> rcases hh2 with hy | hy
  · -- both non-negative
    have f1 : ¬ 2 ^ (w - 1) ≤ a := by omega
    have f3 : ¬ 2 ^ (w - 1) ≤ c := by omega
    have n1 : ¬ a = 2 ^ (w - 1) := by omega
    have n2 : ¬ b = 2 ^ (w - 1) := by omega
    simp only [f1, f3, decide_false, BEq.rfl, if_true, Bool.false_eq_true, if_false, beq_iff_eq, n1, n2,
      false_and, or_self, Bool.not_false, decide_false, Bool.false_and, Bool.or_self]
    rw [if_pos (by simp [n1, n2])]
    refine ⟨_, rfl, ?_⟩
    show mem w (sdivN w u v) (W w (sdivN w a d) (sdivN w b c) false)
    have bx := div_box hau hub hc1 hcv hvd
    have e1 := sg_sdivN h1w ha hd (by omega); have e2 := sg_sdivN h1w hb hc (by omega)
    have e3 := sg_sdivN h1w hu hv (by omega)
    have sa := sg_pos (M := 2 ^ w) (p := a) (by omega); have sb := sg_pos (M := 2 ^ w) (p := b) (by omega)
    have sc := sg_pos (M := 2 ^ w) (p := c) (by omega); have sd := sg_pos (M := 2 ^ w) (p := d) (by omega)
    have su := sg_pos (M := 2 ^ w) (p := u) (by omega); have sv := sg_pos (M := 2 ^ w) (p := v) (by omega)
    rw [sa, sd, tdiv_pp] at e1; rw [sb, sc, tdiv_pp] at e2; rw [su, sv, tdiv_pp] at e3
    rw [mem_sord_iff h1w hw (sdivN_lt _ _ _) (sdivN_lt _ _ _) (sdivN_lt _ _ _) (by rw [e1, e2]; omega),
      e1, e2, e3]
    omega
  · -- dividend non-negative, divisor negative
    have f1 : ¬ 2 ^ (w - 1) ≤ a := by omega
    have f3 : 2 ^ (w - 1) ≤ c := by omega
    have n1 : ¬ a = 2 ^ (w - 1) := by omega
    have n2 : ¬ b = 2 ^ (w - 1) := by omega
    simp only [f1, f3, decide_false, decide_true, fbt, Bool.false_eq_true, if_false, beq_iff_eq, n1, n2,
      false_and, or_self, Bool.not_false, decide_false, Bool.false_and, Bool.or_self, if_true]
    rw [if_pos (by simp [n1, n2])]
    refine ⟨_, rfl, ?_⟩
    show mem w (sdivN w u v) (W w (sdivN w b d) (sdivN w a c) false)
    have bx := div_box (a := a) (b := b) (c := 2 ^ w - d) (d := 2 ^ w - c) (u := u) (v := 2 ^ w - v)
      hau hub (by omega) (by omega) (by omega)
    have e1 := sg_sdivN h1w hb hd (by omega); have e2 := sg_sdivN h1w ha hc (by omega)
    have e3 := sg_sdivN h1w hu hv (by omega)
    have sa := sg_pos (M := 2 ^ w) (p := a) (by omega); have sb := sg_pos (M := 2 ^ w) (p := b) (by omega)
    have sc := sg_neg (M := 2 ^ w) (p := c) (by omega) hc; have sd := sg_neg (M := 2 ^ w) (p := d) (by omega) hd
    have su := sg_pos (M := 2 ^ w) (p := u) (by omega); have sv := sg_neg (M := 2 ^ w) (p := v) (by omega) hv
    rw [sb, sd, tdiv_pn] at e1; rw [sa, sc, tdiv_pn] at e2; rw [su, sv, tdiv_pn] at e3
    rw [mem_sord_iff h1w hw (sdivN_lt _ _ _) (sdivN_lt _ _ _) (sdivN_lt _ _ _) (by rw [e1, e2]; omega),
      e1, e2, e3]
    omega
  · -- dividend negative, divisor non-negative
    have f1 : 2 ^ (w - 1) ≤ a := by omega
    have f3 : ¬ 2 ^ (w - 1) ≤ c := by omega
    have n1 : ¬ c = 2 ^ w - 1 := by omega
    have n2 : ¬ d = 2 ^ w - 1 := by omega
    simp only [f1, f3, decide_false, decide_true, tbf, Bool.false_eq_true, if_false, beq_iff_eq, n1, n2,
      and_false, or_self, Bool.not_false, decide_false, Bool.and_false, Bool.or_self, if_true]
    rw [if_pos (by simp [n1, n2])]
    refine ⟨_, rfl, ?_⟩
    show mem w (sdivN w u v) (W w (sdivN w a c) (sdivN w b d) false)
    have bx := div_box (a := 2 ^ w - b) (b := 2 ^ w - a) (c := c) (d := d) (u := 2 ^ w - u) (v := v)
      (by omega) (by omega) hc1 hcv hvd
    have e1 := sg_sdivN h1w ha hc (by omega); have e2 := sg_sdivN h1w hb hd (by omega)
    have e3 := sg_sdivN h1w hu hv (by omega)
    have sa := sg_neg (M := 2 ^ w) (p := a) (by omega) ha; have sb := sg_neg (M := 2 ^ w) (p := b) (by omega) hb
    have sc := sg_pos (M := 2 ^ w) (p := c) (by omega); have sd := sg_pos (M := 2 ^ w) (p := d) (by omega)
    have su := sg_neg (M := 2 ^ w) (p := u) (by omega) hu; have sv := sg_pos (M := 2 ^ w) (p := v) (by omega)
    rw [sa, sc, tdiv_np] at e1; rw [sb, sd, tdiv_np] at e2; rw [su, sv, tdiv_np] at e3
    rw [mem_sord_iff h1w hw (sdivN_lt _ _ _) (sdivN_lt _ _ _) (sdivN_lt _ _ _) (by rw [e1, e2]; omega),
      e1, e2, e3]
    omega
  · -- both negative
    have f1 : 2 ^ (w - 1) ≤ a := by omega
    have f3 : 2 ^ (w - 1) ≤ c := by omega
    simp only [f1, f3, decide_true, BEq.rfl, if_true, beq_iff_eq]
    split
    · next hov =>
      have hov' : (¬ b = 2 ^ (w - 1) ∨ ¬ c = 2 ^ w - 1) ∧ (¬ a = 2 ^ (w - 1) ∨ ¬ d = 2 ^ w - 1) := by
        simpa using hov
      refine ⟨_, rfl, ?_⟩
      show mem w (sdivN w u v) (W w (sdivN w b c) (sdivN w a d) false)
      have bx := div_box (a := 2 ^ w - b) (b := 2 ^ w - a) (c := 2 ^ w - d) (d := 2 ^ w - c)
        (u := 2 ^ w - u) (v := 2 ^ w - v) (by omega) (by omega) (by omega) (by omega) (by omega)
      have e1 := sg_sdivN h1w hb hc (by omega); have e2 := sg_sdivN h1w ha hd (by omega)
      have e3 := sg_sdivN h1w hu hv (by omega)
      have sa := sg_neg (M := 2 ^ w) (p := a) (by omega) ha; have sb := sg_neg (M := 2 ^ w) (p := b) (by omega) hb
      have sc := sg_neg (M := 2 ^ w) (p := c) (by omega) hc; have sd := sg_neg (M := 2 ^ w) (p := d) (by omega) hd
      have su := sg_neg (M := 2 ^ w) (p := u) (by omega) hu; have sv := sg_neg (M := 2 ^ w) (p := v) (by omega) hv
      rw [sb, sc, tdiv_nn] at e1; rw [sa, sd, tdiv_nn] at e2; rw [su, sv, tdiv_nn] at e3
      rw [mem_sord_iff h1w hw (sdivN_lt _ _ _) (sdivN_lt _ _ _) (sdivN_lt _ _ _) (by rw [e1, e2]; omega),
        e1, e2, e3]
      omega
    · exact ⟨top, rfl, mem_top _ _⟩

end WInt
end Crab
