import CrabProofs.Lemmas.XDomCongInst
import CrabProofs.Lemmas.IDomInst
import CrabProofs.Lemmas.IDomThresholds
import CrabProofs.Lemmas.IntervalCongruence
import CrabModel.Dom.RicDomain

/-!
  The "ric" domain (model `Crab.RDom`): concretisation, invariant, the lazily canonicalised
  product (`canon`, `both`, `reduceP`) and the per-variable reduction `reduce_variable`.
-/
namespace Crab
namespace RDom
open XDom Lin

/-! ### the reduction of `interval_congruence` -/

theorem ic_not_isBottom {k : Int} {p : IC} (h : IC.mem k p) : p.isBottom = false := by
  unfold IC.isBottom
  rw [Itv.isBottom_false_of_mem h.1]
  have : p.c.isBot = false := h.2.1
  simp [Cong.isBottom, this]

/-- the constructor of `interval_congruence` keeps the common members -/
theorem icReduce_sound {i : Itv} {c : Cong} {k : Int} (hi : Itv.mem k i) (hc : Cong.mem k c) :
    IC.mem k (icReduce i c) := by
  unfold icReduce
  cases h : IC.reduce ⟨i, c⟩ with
  | none => exact ⟨hi, hc⟩
  | some q => exact IC.reduce_sound (p := ⟨i, c⟩) ⟨hi, hc⟩ h

/-- the congruence of a reduced pair is bottom, the given one, or a constant -/
theorem reduce_c_cases {p q : IC} (h : IC.reduce p = some q) :
    q.c = Cong.bot ∨ q.c = p.c ∨ ∃ n, q.c = Cong.ofInt n := by
  unfold IC.reduce at h
  simp only at h
  repeat' split at h
  all_goals
    cases h <;> first
      | exact Or.inl rfl
      | exact Or.inr (Or.inl rfl)
      | exact Or.inr (Or.inr ⟨_, rfl⟩)

/-- the congruence of the reduced pair is in standard form -/
theorem icReduce_wf (i : Itv) {c : Cong} (hw : Cong.WF c) : Cong.WF (icReduce i c).c := by
  unfold icReduce
  cases h : IC.reduce ⟨i, c⟩ with
  | none => exact hw
  | some q =>
    simp only [Option.getD_some]
    rcases reduce_c_cases h with e | e | ⟨n, e⟩
    · rw [e]; exact GDom.wf_bot
    · rw [e]; exact hw
    · rw [e]; exact GDom.wf_ofInt n

namespace Env

/-- concretisation: the states described by both components -/
def γ (e : Env) (σ : State) : Prop := e.isBot = false ∧ IDom.Env.γ e.f σ ∧ GDom.Env.γ e.s σ

/-- invariant: the map invariants of the two components, and a raised flag means bottom
    components -/
def Inv (e : Env) : Prop := e.f.Sorted ∧ GDom.Env.Inv e.s ∧ (e.isBot = true → e.f.bottom = true)

theorem inv_bot : bot.Inv := ⟨IDom.Env.sorted_bot, GDom.Env.inv_bot, fun _ => rfl⟩
theorem inv_top : top.Inv := ⟨IDom.Env.sorted_top, GDom.Env.inv_top, fun h => by cases h⟩

theorem γ_top (σ : State) : top.γ σ := ⟨rfl, IDom.Env.γ_top σ, XDom.Env.γ_top GDom.congLaws σ⟩

theorem isBottom_false {e : Env} {σ : State} (hg : e.γ σ) : e.isBottom = false := by
  unfold isBottom
  have h2 : e.f.bottom = false := hg.2.1.1
  have h3 : e.s.isBot = false := hg.2.2.1
  simp [hg.1, h2, h3]

/-- `is_bottom()` answers yes only on values that describe no state -/
theorem not_γ_of_isBottom {e : Env} (h : e.isBottom = true) (σ : State) : ¬ e.γ σ := by
  intro hg; rw [isBottom_false hg] at h; cases h

theorem not_γ_bot (σ : State) : ¬ bot.γ σ := not_γ_of_isBottom rfl σ

theorem isBot_of_not_isBottom {e : Env} (h : e.isBottom = false) :
    e.isBot = false ∧ e.f.bottom = false ∧ e.s.isBot = false := by
  unfold isBottom at h
  cases hb : e.isBot
  · simp only [hb, Bool.false_eq_true, if_false, Bool.or_eq_false_iff] at h
    exact ⟨rfl, h.1, h.2⟩
  · simp [hb] at h

/-- `canonicalize()` does nothing on a value that describes a state -/
theorem canon_of_γ {e : Env} {σ : State} (hg : e.γ σ) : canon e = e := by
  unfold canon
  have h2 : e.f.bottom = false := hg.2.1.1
  have h3 : e.s.isBot = false := hg.2.2.1
  simp [hg.1, h2, h3]

theorem canon_inv {e : Env} (h : e.Inv) : (canon e).Inv := by
  unfold canon
  split
  · split
    · exact inv_bot
    · exact h
  · exact h

theorem canon_flag {e : Env} (h : e.Inv) : (canon e).isBot = true → (canon e).f.bottom = true := (canon_inv h).2.2

/-- `m_product.first().g1(…); m_product.second().g2(…)` with sound `g1`, `g2` -/
theorem both_sound {g1 : IDom.Env → IDom.Env} {g2 : GDom.Env → GDom.Env} {e : Env} {σ σ' : State}
    (hg : e.γ σ) (h1 : IDom.Env.γ (g1 e.f) σ') (h2 : GDom.Env.γ (g2 e.s) σ') : (both g1 g2 e).γ σ' := by
  unfold both
  rw [canon_of_γ hg]
  have hc : canon ⟨e.isBot, g1 e.f, e.s⟩ = ⟨e.isBot, g1 e.f, e.s⟩ := by
    unfold canon
    have a1 : (g1 e.f).bottom = false := h1.1
    have a2 : e.s.isBot = false := hg.2.2.1
    simp [hg.1, a1, a2]
  simp only [hc]
  exact ⟨hg.1, h1, h2⟩

theorem both_inv {g1 : IDom.Env → IDom.Env} {g2 : GDom.Env → GDom.Env} {e : Env} (he : e.Inv)
    (h1 : ∀ f : IDom.Env, f.Sorted → (g1 f).Sorted) (h1b : ∀ f : IDom.Env, f.bottom = true → (g1 f).bottom = true)
    (h2 : ∀ s : GDom.Env, s.Inv → (g2 s).Inv) : (both g1 g2 e).Inv := by
  unfold both
  have c1 := canon_inv he
  have i2 : (⟨(canon e).isBot, g1 (canon e).f, (canon e).s⟩ : Env).Inv :=
    ⟨h1 _ c1.1, c1.2.1, fun h => h1b _ (c1.2.2 h)⟩
  have c2 := canon_inv i2
  exact ⟨c2.1, h2 _ c2.2.1, c2.2.2⟩

theorem reduceP_sound {e : Env} {σ : State} (hg : e.γ σ) : (reduceP e).γ σ := by
  unfold reduceP
  rw [canon_of_γ hg]
  have h2 : e.f.bottom = false := hg.2.1.1
  have h3 : e.s.isBot = false := hg.2.2.1
  simp only [h2, Bool.false_eq_true, if_false, canon_of_γ hg, h3]
  exact hg

theorem reduceP_inv {e : Env} (he : e.Inv) : (reduceP e).Inv := by
  unfold reduceP
  simp only
  split
  · exact inv_bot
  · split
    · exact inv_bot
    · exact canon_inv (canon_inv he)

/-! ### `reduce_variable` -/

theorem reduceVar_inv {e : Env} (he : e.Inv) {v : Var} (hv : v < 2 ^ 64) : (e.reduceVar v).Inv := by
  unfold reduceVar
  split
  · exact he
  · simp only
    split
    · exact inv_bot
    · have c2 := canon_inv (canon_inv he)
      have hw : Cong.WF (icReduce ((canon e).f.get v) ((canon (canon e)).s.get v)).c :=
        icReduce_wf _ (GDom.Env.get_wf c2.2.1 v)
      -- the state after the update of the first component
      have i3 : (if firstChanged (icReduce ((canon e).f.get v) ((canon (canon e)).s.get v)).i ((canon e).f.get v) = true then
          (⟨(canon (canon (canon e))).isBot, (canon (canon (canon e))).f.set v
            (icReduce ((canon e).f.get v) ((canon (canon e)).s.get v)).i, (canon (canon (canon e))).s⟩ : Env)
          else canon (canon e)).Inv := by
        split
        · have c3 := canon_inv c2
          refine ⟨IDom.Env.set_sorted _ _ _ c3.1, c3.2.1, fun h => ?_⟩
          have := c3.2.2 h
          simp [IDom.Env.set, this]
        · exact c2
      split
      · have c4 := canon_inv i3
        exact ⟨c4.1, GDom.Env.set_inv c4.2.1 hv hw, c4.2.2⟩
      · exact i3

/-- `reduce_variable(v)` keeps every state (whatever the two comparisons answer) -/
theorem reduceVar_sound {e : Env} (he : e.Inv) {σ : State} (hg : e.γ σ) {v : Var} (hv : v < 2 ^ 64) :
    (e.reduceVar v).γ σ := by
  unfold reduceVar
  simp only [isBottom_false hg, Bool.false_eq_true, if_false, canon_of_γ hg]
  have hm := icReduce_sound (hg.2.1.2 v) (GDom.Env.get_mem hg.2.2 v)
  have hw : Cong.WF (icReduce (e.f.get v) (e.s.get v)).c := icReduce_wf _ (GDom.Env.get_wf he.2.1 v)
  simp only [ic_not_isBottom hm, Bool.false_eq_true, if_false]
  -- first component
  have g3 : (if firstChanged (icReduce (e.f.get v) (e.s.get v)).i (e.f.get v) = true then
      (⟨e.isBot, e.f.set v (icReduce (e.f.get v) (e.s.get v)).i, e.s⟩ : Env) else e).γ σ ∧
      (if firstChanged (icReduce (e.f.get v) (e.s.get v)).i (e.f.get v) = true then
      (⟨e.isBot, e.f.set v (icReduce (e.f.get v) (e.s.get v)).i, e.s⟩ : Env) else e).s = e.s := by
    split
    · exact ⟨⟨hg.1, IDom.Env.set_sound_same hg.2.1 hm.1, hg.2.2⟩, rfl⟩
    · exact ⟨hg, rfl⟩
  obtain ⟨g3a, g3b⟩ := g3
  split
  · rw [canon_of_γ g3a]
    refine ⟨g3a.1, g3a.2.1, ?_⟩
    rw [g3b]
    exact GDom.Env.set_sound_same he.2.1 hg.2.2 hv hw hm.2
  · exact g3a

end Env
end RDom
end Crab
