import CrabProofs.Lemmas.FunctorFlatBoolOps3
import CrabProofs.Lemmas.FunctorProductLat

/-!
Lattice operations of the model of `flat_boolean_numerical_domain`: `|`, `|=`, `||`, `<=`,
`is_bottom`, `is_top`, `make_top`, `make_bottom`, and `&`, `&=`, `&&` (as fixed by repo commit ef2ddd6).
-/
set_option linter.unusedSectionVars false
set_option linter.unusedSimpArgs false

namespace Crab
namespace Dom
namespace Fct

variable {V : Type} [DecidableEq V] {K : CSig V}

namespace FBN
variable {N : BNDom V K}

/-- the auxiliary components of `a | b`, `a |= b`, `a || b` keep the invariant of either operand -/
theorem inv_join_l {a b : FBN N} {s : CSt V} (h : Inv a s) :
    Inv (⟨a.prod, a.lin.join b.lin, a.bools.join b.bools, a.unch.join b.unch⟩ : FBN N) s := by
  obtain ⟨hlb, hbb, hub, hL, hB⟩ := h
  refine ⟨by simp [SEnv.isBot_join, hlb], by simp [SEnv.isBot_join, hbb], by simp [DSet.isBot_join, hub], ?_, ?_⟩
  · intro k c hc hu
    simp only [SEnv.look_join, DSet.mem_join] at hc
    apply hL k c hc.1
    rw [unchanged_iff] at hu ⊢
    exact fun v hv => ((DSet.mem_join _ _ v).1 (hu v hv)).1
  · intro k k' hk
    simp only [SEnv.look_join, DSet.mem_join] at hk
    exact hB k k' hk.1

theorem inv_join_r {a b : FBN N} {s : CSt V} (h : Inv b s) :
    Inv (⟨a.prod, a.lin.join b.lin, a.bools.join b.bools, a.unch.join b.unch⟩ : FBN N) s := by
  obtain ⟨hlb, hbb, hub, hL, hB⟩ := h
  refine ⟨by simp [SEnv.isBot_join, hlb], by simp [SEnv.isBot_join, hbb], by simp [DSet.isBot_join, hub], ?_, ?_⟩
  · intro k c hc hu
    simp only [SEnv.look_join, DSet.mem_join] at hc
    apply hL k c hc.2
    rw [unchanged_iff] at hu ⊢
    exact fun v hv => ((DSet.mem_join _ _ v).1 (hu v hv)).2
  · intro k k' hk
    simp only [SEnv.look_join, DSet.mem_join] at hk
    exact hB k k' hk.2

theorem inv_join {a b : FBN N} {s : CSt V} (h : γ a s ∨ γ b s) (p : Prod2 (FB V) N.toLDom) :
    Inv (⟨p, a.lin.join b.lin, a.bools.join b.bools, a.unch.join b.unch⟩ : FBN N) s :=
  h.elim (fun h => inv_join_l (b := b) h.2) (fun h => inv_join_r (a := a) h.2)

theorem join_sound {a b : FBN N} {s : CSt V} (h : γ a s ∨ γ b s) : γ (join a b) s :=
  ⟨Prod2.join_sound (h.imp And.left And.left), inv_join h _⟩

theorem joinEq_sound {a b : FBN N} {s : CSt V} (h : γ a s ∨ γ b s) : γ (joinEq a b) s :=
  ⟨Prod2.joinEq_sound (h.imp And.left And.left), inv_join h _⟩

theorem widenWith_sound {w2 : N.B → N.B → N.B} (hw : N.USound w2) {a b : FBN N} {s : CSt V}
    (h : γ a s ∨ γ b s) : γ (widenWith w2 a b) s :=
  ⟨Prod2.widenWith_sound (D1 := FB V) (fun x y s h => h.elim (FEnv.join_l x y s) (FEnv.join_r x y s)) hw
      (h.imp And.left And.left), inv_join h _⟩

/-! ### `operator<=`, `is_bottom`, `is_top` -/

theorem not_γ_of_isBottom {a : FBN N} (h : a.isBottom = true) (s : CSt V) : ¬ γ a s :=
  fun hg => Prod2.not_γ_of_isBottom h s hg.1

theorem DSet.isBot_of_leq {α : Type} [DecidableEq α] {a b : DSet α} (h : DSet.leq a b = true)
    (ha : a.isBot = false) : b.isBot = false := by
  cases a with
  | all => simp [DSet.isBot] at ha
  | fin l => cases b with
    | all => simp [DSet.leq] at h
    | fin l' => rfl

theorem leq_sound {a b : FBN N} {s : CSt V} (h : leq a b = true) (hg : γ a s) : γ b s := by
  obtain ⟨hp, hlb, hbb, hub, hL, hB⟩ := hg
  unfold leq at h
  simp only [isBottom, Prod2.isBottom_false_of_γ hp, Bool.false_eq_true, if_false] at h
  cases hbb' : b.prod.isBottom
  case true => simp [hbb'] at h
  case false =>
    simp only [hbb', Bool.false_eq_true, if_false, Bool.and_eq_true] at h
    obtain ⟨⟨⟨h1, h2⟩, h3⟩, h4⟩ := h
    obtain ⟨l1, l2⟩ := SEnv.of_leq h2 hlb
    obtain ⟨b1, b2⟩ := SEnv.of_leq h3 hbb
    refine ⟨Prod2.leq_sound h1 hp, l1, b1, DSet.isBot_of_leq h4 hub, ?_, ?_⟩
    · intro k c hc hu
      apply hL k c (l2 k c hc)
      rw [unchanged_iff] at hu ⊢
      exact fun v hv => DSet.mem_of_leq h4 v (hu v hv)
    · exact fun k k' hk => hB k k' (b2 k k' hk)

theorem look_of_isTop {α : Type} [DecidableEq α] {e : SEnv V α} (h : e.isTop = true) (k : V) (c : α) :
    (e.look k).mem c = false := by
  cases e with
  | bot => simp [SEnv.isTop] at h
  | env m =>
    have : m = [] := List.isEmpty_iff.1 h
    subst this; rfl

theorem isBot_of_isTop {α : Type} [DecidableEq α] {e : SEnv V α} (h : e.isTop = true) : e.isBot = false := by
  cases e with
  | bot => simp [SEnv.isTop] at h
  | env m => rfl

theorem fb_topSound : (FB V).TopSound := by
  intro e s h
  cases e with
  | bot => simp [FB, FEnv.isTop] at h
  | env m =>
    have : m = [] := List.isEmpty_iff.1 h
    subst this
    intro x b hx; simp [AL.get] at hx

/-- `is_top()`: right on values whose product is well formed and whose `m_unchanged_vars` is not
    the bottom of its lattice (both hold for every value with a non-empty concretisation) -/
theorem γ_of_isTop (t2 : N.TopSound) {a : FBN N} (hw : a.prod.WF) (hu : a.unch.isBot = false)
    (h : a.isTop = true) (s : CSt V) : γ a s := by
  unfold isTop at h
  simp only [Bool.and_eq_true] at h
  obtain ⟨⟨h1, h2⟩, h3⟩ := h
  refine ⟨Prod2.γ_of_isTop fb_topSound t2 hw h1 s, isBot_of_isTop h2, isBot_of_isTop h3, hu, ?_, ?_⟩
  · intro k c hc; rw [look_of_isTop h2] at hc; cases hc
  · intro k k' hk; rw [look_of_isTop h3] at hk; cases hk

theorem γ_top (s : CSt V) : γ (top : FBN N) s := by
  refine ⟨Prod2.γ_setTop Prod2.top s, rfl, rfl, rfl, ?_, ?_⟩
  · intro k c hc; cases hc
  · intro k k' hk; cases hk

theorem not_γ_bottom (s : CSt V) : ¬ γ (bottom : FBN N) s := fun h => Prod2.not_γ_setBottom Prod2.top s h.1

/-! ### `&`, `&=`, `&&` -/

theorem mem_iff_of_sameUnch {a b : FBN N} (h : sameUnch a b = true) (v : V) :
    a.unch.mem v = true ↔ b.unch.mem v = true := by
  unfold sameUnch at h
  simp only [Bool.and_eq_true] at h
  exact ⟨DSet.mem_of_leq h.2 v, DSet.mem_of_leq h.1 v⟩

/-- the auxiliary components of `a & b` (after ef2ddd6: united maps, intersected marks) describe
    every state of both operands: a usable constraint is usable in the operand it comes from -/
theorem inv_meet {a b : FBN N} {s : CSt V} (ha : Inv a s) (hb : Inv b s) (p : Prod2 (FB V) N.toLDom) :
    Inv (⟨p, a.lin.meet b.lin, a.bools.meet b.bools, a.unch.join b.unch⟩ : FBN N) s := by
  obtain ⟨hlb, hbb, hub, hL, hB⟩ := ha
  obtain ⟨hlb', hbb', hub', hL', hB'⟩ := hb
  refine ⟨by simp [SEnv.isBot_meet, hlb, hlb'], by simp [SEnv.isBot_meet, hbb, hbb'],
    by simp [DSet.isBot_join, hub], ?_, ?_⟩
  · intro k c hc hu
    simp only [SEnv.look_meet, DSet.mem_meet] at hc
    rw [unchanged_iff] at hu
    rcases hc with hc | hc
    · exact hL k c hc ((unchanged_iff _ _).2 (fun v hv => ((DSet.mem_join _ _ v).1 (hu v hv)).1))
    · exact hL' k c hc ((unchanged_iff _ _).2 (fun v hv => ((DSet.mem_join _ _ v).1 (hu v hv)).2))
  · intro k k' hk
    simp only [SEnv.look_meet, DSet.mem_meet] at hk
    rcases hk with hk | hk
    · exact hB k k' hk
    · exact hB' k k' hk

theorem meet_sound {a b : FBN N} {s : CSt V} (ha : γ a s) (hb : γ b s) : γ (meet a b) s :=
  ⟨Prod2.meet_sound ha.1 hb.1, inv_meet ha.2 hb.2 _⟩
theorem meetEq_sound {a b : FBN N} {s : CSt V} (ha : γ a s) (hb : γ b s) : γ (meetEq a b) s :=
  ⟨Prod2.meetEq_sound ha.1 hb.1, inv_meet ha.2 hb.2 _⟩
theorem narrow_sound {a b : FBN N} {s : CSt V} (ha : γ a s) (hb : γ b s) : γ (narrow a b) s :=
  ⟨Prod2.narrow_sound ha.1 hb.1, inv_meet ha.2 hb.2 _⟩

end FBN

end Fct
end Dom
end Crab
