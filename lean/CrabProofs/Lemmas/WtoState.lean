import CrabProofs.Lemmas.WtoLocal

/-!
  Basic facts about the builder state of `CrabModel/Graph/Wto.lean`: dfn table updates and the
  pop loop.
-/
namespace Crab
namespace Wto

@[simp] theorem size_setDfn (t : Array Dfn) (v : Nat) (d : Dfn) : (setDfn t v d).size = t.size := by
  simp [setDfn]

theorem getDfn_setDfn (t : Array Dfn) (v : Nat) (d : Dfn) (x : Nat) (hv : v < t.size) :
    getDfn (setDfn t v d) x = if x = v then d else getDfn t x := by
  unfold getDfn setDfn
  rw [Array.getD_eq_getD_getElem?, Array.getD_eq_getD_getElem?]
  by_cases hx : x = v
  · subst hx
    simp [Array.getElem?_setIfInBounds_self_of_lt hv]
  · rw [Array.getElem?_setIfInBounds_ne (fun h : v = x => hx h.symm)]
    simp [hx]

theorem getDfn_setDfn_ne (t : Array Dfn) (v : Nat) (d : Dfn) (x : Nat) (hx : x ≠ v) :
    getDfn (setDfn t v d) x = getDfn t x := by
  unfold getDfn setDfn
  rw [Array.getD_eq_getD_getElem?, Array.getD_eq_getD_getElem?,
    Array.getElem?_setIfInBounds_ne (fun h : v = x => hx h.symm)]

/-- reset to 0 the dfn of every node of a list (what the pop loop does to the popped elements) -/
def resetL : List Nat → Array Dfn → Array Dfn
  | [], t => t
  | a :: as, t => resetL as (setDfn t a (.fin 0))

@[simp] theorem size_resetL : ∀ (l : List Nat) (t : Array Dfn), (resetL l t).size = t.size
  | [], t => rfl
  | a :: as, t => by simp [resetL, size_resetL as]

theorem getDfn_resetL_not_mem : ∀ (l : List Nat) (t : Array Dfn) (x : Nat), x ∉ l →
    getDfn (resetL l t) x = getDfn t x
  | [], _, _, _ => rfl
  | a :: as, t, x, hx => by
    simp only [List.mem_cons, not_or] at hx
    rw [resetL, getDfn_resetL_not_mem as _ x hx.2, getDfn_setDfn_ne _ _ _ _ hx.1]

theorem getDfn_resetL_mem : ∀ (l : List Nat) (t : Array Dfn) (x : Nat), x ∈ l → (∀ y ∈ l, y < t.size) →
    getDfn (resetL l t) x = .fin 0
  | [], _, _, hx, _ => by cases hx
  | a :: as, t, x, hx, hs => by
    rw [resetL]
    by_cases hxa : x ∈ as
    · exact getDfn_resetL_mem as _ x hxa (by intro y hy; simpa using hs y (List.mem_cons_of_mem _ hy))
    · have : x = a := by
        rcases List.mem_cons.1 hx with h | h
        · exact h
        · exact absurd h hxa
      subst this
      rw [getDfn_resetL_not_mem as _ x hxa, getDfn_setDfn _ _ _ _ (hs x (by simp))]
      simp

/-- the pop loop removes the segment above `r` (and `r`), resetting the nodes above `r` -/
theorem popLoop_spec (r : Nat) : ∀ (above : List Nat) (el : Nat) (stk rest : List Nat) (t : Array Dfn),
    el :: stk = above ++ r :: rest → r ∉ above → popLoop r el stk t = some (rest, resetL above t)
  | [], el, stk, rest, t, h, _ => by
    simp only [List.nil_append, List.cons.injEq] at h
    obtain ⟨rfl, rfl⟩ := h
    cases stk <;> simp [popLoop, resetL]
  | a :: as, el, stk, rest, t, h, hr => by
    simp only [List.cons_append, List.cons.injEq] at h
    obtain ⟨rfl, rfl⟩ := h
    simp only [List.mem_cons, not_or] at hr
    have hne : ¬ el = r := fun e => hr.1 e.symm
    cases hs : as ++ r :: rest with
    | nil => simp at hs
    | cons top rest' =>
      rw [popLoop.eq_def]
      simp only [hne, if_false]
      rw [popLoop_spec r as top rest' rest _ hs.symm hr.2, resetL]

end Wto
end Crab
