import CrabProofs.Lemmas.InterEnv

/-!
  The call-stack semantics (`ISemantics.step`) decomposed function by function: every frame of a
  *covered* function stays inside the local collecting semantics `LocalAt` of that function, as
  long as (i) frames created by calls from covered callers satisfy the entry predicate of the
  callee and (ii) the values returned to covered callers are allowed by their call relation.
  No abstract domain occurs here.  Used twice by C10: bottom-up (entry = any frame, calls
  described by the summary table) and top-down (entry = the joined calling context).
-/
namespace Crab.Inter

structure SimSpec where
  Cov : Nat → Prop
  E : Nat → Env → Prop
  CR : Nat → CallRel

def StmtOK (p : IProg) (f : IFun) (s : IStmt) : Prop :=
  (∀ v, v ∈ s.defs → v ∉ f.ins) ∧ (∀ v, v ∈ s.vars → v < p.nv) ∧
  (match s with
   | .call c lhs args => c < p.funs.size ∧ lhs.Nodup ∧ lhs.length = (p.fn c).outs.length ∧
                          args.length = (p.fn c).ins.length
   | _ => True)

structure FunOK (p : IProg) (f : IFun) : Prop where
  ins_nodup : f.ins.Nodup
  outs_nodup : f.outs.Nodup
  disj : ∀ v, v ∈ f.ins → v ∉ f.outs
  ins_lt : ∀ v, v ∈ f.ins → v < p.nv
  outs_lt : ∀ v, v ∈ f.outs → v < p.nv
  stmts : ∀ b k, k < (f.blk b).stmts.size → StmtOK p f ((f.blk b).stmts.getD k default)

/-- what the proofs use of `IProg.wf` and `IProg.scoped` -/
def ProgOK (p : IProg) : Prop := ∀ g, g < p.funs.size → FunOK p (p.fn g)

def SimSpec.At (S : SimSpec) (p : IProg) (g b k : Nat) (env : Env) : Prop :=
  LocalAt (S.CR g) (p.fn g) (S.E g) b k env

def FrameOK (p : IProg) (fr : Frame) : Prop :=
  fr.fn < p.funs.size ∧ fr.env.size = p.nv ∧ MatchVals (p.fn fr.fn).ins fr.inVals (toSt fr.env) ∧
  (fr.inVals.length = (p.fn fr.fn).ins.length ∨ fr.fn = p.main)

/-- the caller waits at the call site that created the callee's frame -/
def Link (p : IProg) (calleeFn : Nat) (calleeIn : List Int) (caller : Frame) : Prop :=
  ∃ lhs args, ((p.fn caller.fn).blk caller.blk).stmts.getD caller.pc default = .call calleeFn lhs args ∧
    caller.pc < ((p.fn caller.fn).blk caller.blk).stmts.size ∧
    calleeIn = args.map (fun a => caller.env.getD a 0)

def Chain (p : IProg) : List Frame → Prop
  | callee :: caller :: rest => Link p callee.fn callee.inVals caller ∧ Chain p (caller :: rest)
  | _ => True

def EvOK (p : IProg) (S : SimSpec) (e : Event) : Prop :=
  e.fn < p.funs.size ∧ (S.Cov e.fn → S.At p e.fn e.blk (if e.atExit then ((p.fn e.fn).blk e.blk).stmts.size else 0) e.env)

def RecOK (p : IProg) (S : SimSpec) (r : CallRec) : Prop :=
  r.fn < p.funs.size ∧ (r.ins.length = (p.fn r.fn).ins.length ∨ r.fn = p.main) ∧
  (S.Cov r.fn → ∃ env : Env,
     S.At p r.fn (p.fn r.fn).exit ((p.fn r.fn).blk (p.fn r.fn).exit).stmts.size env ∧
     r.outs = (p.fn r.fn).outs.map (fun o => env.getD o 0) ∧
     MatchVals (p.fn r.fn).ins r.ins (toSt env) ∧ env.size = p.nv)

structure Inv (p : IProg) (S : SimSpec) (c : Config) : Prop where
  frames : ∀ fr, fr ∈ c.stack → FrameOK p fr
  chain : Chain p c.stack
  loc : ∀ fr, fr ∈ c.stack → S.Cov fr.fn → S.At p fr.fn fr.blk fr.pc fr.env
  evs : ∀ e, e ∈ c.tr.events → EvOK p S e
  recs : ∀ r, r ∈ c.tr.calls → RecOK p S r

/-- frames created by a call satisfy the entry predicate of a covered callee (when the caller is
    covered, its frame at the call site is known to be locally reachable) -/
def EntryOK (p : IProg) (S : SimSpec) : Prop :=
  ∀ g h b k env lhs args env', g < p.funs.size → S.Cov h → (S.Cov g → S.At p g b k env) →
    k < ((p.fn g).blk b).stmts.size → ((p.fn g).blk b).stmts.getD k default = .call h lhs args →
    env.size = p.nv → env'.size = p.nv →
    MatchVals (p.fn h).ins (args.map (fun a => env.getD a 0)) (toSt env') → S.E h env'

/-- if the next step is a return to a covered caller, the returned values are allowed by the
    caller's call relation -/
def RetOK (p : IProg) (S : SimSpec) (c : Config) : Prop :=
  ∀ hfr gfr rest, c.stack = hfr :: gfr :: rest →
    ¬ hfr.pc < ((p.fn hfr.fn).blk hfr.blk).stmts.size → hfr.blk = (p.fn hfr.fn).exit → S.Cov gfr.fn →
    S.CR gfr.fn hfr.fn hfr.inVals ((p.fn hfr.fn).outs.map (fun o => hfr.env.getD o 0))

theorem Pref.le_size {CR : CallRel} {b : IBlock} {k : Nat} {s e : Env} (h : Pref CR b k s e) :
    k ≤ b.stmts.size := by
  cases h with
  | nil => exact Nat.zero_le _
  | snoc _ hk _ => exact hk

theorem LocalAt.entry {CR : CallRel} {f : IFun} {E : Env → Prop} {env : Env} (h : E env) :
    LocalAt CR f E 0 0 env := ⟨env, .init h, .nil env⟩

theorem LocalAt.next {CR : CallRel} {f : IFun} {E : Env → Prop} {b k : Nat} {e e' : Env}
    (h : LocalAt CR f E b k e) (hk : k < (f.blk b).stmts.size)
    (hs : LStep CR ((f.blk b).stmts.getD k default) e e') : LocalAt CR f E b (k + 1) e' := by
  obtain ⟨s0, h1, h2⟩ := h
  exact ⟨s0, h1, .snoc h2 hk hs⟩

theorem LocalAt.goto {CR : CallRel} {f : IFun} {E : Env → Prop} {b n : Nat} {e : Env}
    (h : LocalAt CR f E b (f.blk b).stmts.size e) (hn : n ∈ (f.blk b).succs.toList) :
    LocalAt CR f E n 0 e := by
  obtain ⟨s0, h1, h2⟩ := h
  exact ⟨e, .flow h1 h2 hn, .nil e⟩

theorem Chain.tail {p : IProg} {fr : Frame} {rest : List Frame} (h : Chain p (fr :: rest)) :
    Chain p rest := by
  cases rest with
  | nil => trivial
  | cons _ _ => exact h.2

/-- replacing the top frame by one of the same function with the same recorded inputs -/
theorem Chain.replaceTop {p : IProg} {fr fr' : Frame} {rest : List Frame}
    (h : Chain p (fr :: rest)) (h1 : fr'.fn = fr.fn) (h2 : fr'.inVals = fr.inVals) :
    Chain p (fr' :: rest) := by
  cases rest with
  | nil => trivial
  | cons c r => exact ⟨by rw [h1, h2]; exact h.1, h.2⟩

/-! ### `ProgOK` from the Boolean well-formedness checks -/

theorem getD_mem_of_lt {α : Type} (a : Array α) (i : Nat) (d : α) (h : i < a.size) : a.getD i d ∈ a := by
  rw [Array.getD_eq_getD_getElem?, Array.getElem?_eq_getElem h]
  simp

theorem blk_stmts_lt {f : IFun} {b k : Nat} (h : k < (f.blk b).stmts.size) : b < f.blocks.size := by
  by_cases hb : b < f.blocks.size
  · exact hb
  · exfalso
    have : f.blk b = default := by
      simp [IFun.blk, Array.getD_eq_getD_getElem?, Array.getElem?_eq_none (Nat.le_of_not_lt hb)]
    rw [this] at h
    have h0 : (default : IBlock).stmts.size = 0 := rfl
    rw [h0] at h
    exact Nat.not_lt_zero _ h

theorem progOK_of_wf {p : IProg} (hwf : p.wf = true) (hsc : p.scoped = true) : ProgOK p := by
  intro g hg
  have hmem : p.fn g ∈ p.funs := getD_mem_of_lt _ _ _ hg
  simp only [IProg.wf, Bool.and_eq_true, Array.all_eq_true_iff_forall_mem] at hwf
  have hf := hwf.2 _ hmem
  simp only [IProg.scoped, Array.all_eq_true_iff_forall_mem] at hsc
  have hs := hsc _ hmem
  simp only [IFun.wf, Bool.and_eq_true, decide_eq_true_eq, List.all_eq_true, Array.all_eq_true_iff_forall_mem, Bool.not_eq_true', List.contains_eq_mem, decide_eq_false_iff_not] at hf
  simp only [IFun.scoped, Bool.and_eq_true, decide_eq_true_eq, List.all_eq_true, Array.all_eq_true_iff_forall_mem] at hs
  obtain ⟨⟨⟨⟨_, h1⟩, h2⟩, h3⟩, h4⟩ := hf
  refine ⟨h1, h2, h3, hs.1.1, hs.1.2, ?_⟩
  intro b k hk
  have hb : (p.fn g).blk b ∈ (p.fn g).blocks := getD_mem_of_lt _ _ _ (blk_stmts_lt hk)
  have hsm : ((p.fn g).blk b).stmts.getD k default ∈ ((p.fn g).blk b).stmts := getD_mem_of_lt _ _ _ hk
  have h5 := (h4 _ hb).2 _ hsm
  refine ⟨h5.1, hs.2 _ hb _ hsm, ?_⟩
  have h6 := h5.2
  cases hst : ((p.fn g).blk b).stmts.getD k default with
  | call c lhs args =>
    rw [hst] at h6
    simp only at h6
    by_cases hc : c < p.funs.size
    · have : p.funs[c]? = some (p.fn c) := by
        simp [IProg.fn, Array.getD_eq_getD_getElem?, Array.getElem?_eq_getElem hc]
      rw [this] at h6
      simp only [Bool.and_eq_true, decide_eq_true_eq, beq_iff_eq] at h6
      exact ⟨hc, h6.1.1, h6.1.2, h6.2⟩
    · have : p.funs[c]? = none := Array.getElem?_eq_none (Nat.le_of_not_lt hc)
      rw [this] at h6
      simp at h6
  | _ => trivial

/-! ### the cases of `step` as equations -/
section StepEq
variable {p : IProg} {ch : Choices} {c : Config} {fr : Frame} {rest : List Frame}

theorem step_nil (hst : c.stack = []) : step p ch c = { c with status := .done } := by
  unfold step; rw [hst]

theorem step_assign {x : Var} {e : ILin}
    (hst : c.stack = fr :: rest) (hpc : fr.pc < ((p.fn fr.fn).blk fr.blk).stmts.size)
    (hs : ((p.fn fr.fn).blk fr.blk).stmts.getD fr.pc default = .assign x e) :
    step p ch c = { c with stack := { fr with env := fr.env.setIfInBounds x (e.eval fr.env), pc := fr.pc + 1 } :: rest } := by
  unfold step; rw [hst]; simp only [hpc, if_true, hs]

theorem step_bin {op : IOp} {x y : Var} {z : IArg}
    (hst : c.stack = fr :: rest) (hpc : fr.pc < ((p.fn fr.fn).blk fr.blk).stmts.size)
    (hs : ((p.fn fr.fn).blk fr.blk).stmts.getD fr.pc default = .bin op x y z) :
    step p ch c = { c with stack :=
      { fr with env := fr.env.setIfInBounds x (op.eval (fr.env.getD y 0) (z.eval fr.env)), pc := fr.pc + 1 } :: rest } := by
  unfold step; rw [hst]; simp only [hpc, if_true, hs]

theorem step_havoc {x : Var}
    (hst : c.stack = fr :: rest) (hpc : fr.pc < ((p.fn fr.fn).blk fr.blk).stmts.size)
    (hs : ((p.fn fr.fn).blk fr.blk).stmts.getD fr.pc default = .havoc x) :
    step p ch c = { c with stack := { fr with env := fr.env.setIfInBounds x (ch c.ci), pc := fr.pc + 1 } :: rest,
                           ci := c.ci + 1 } := by
  unfold step; rw [hst]; simp only [hpc, if_true, hs]

theorem step_assume {cst : ICst}
    (hst : c.stack = fr :: rest) (hpc : fr.pc < ((p.fn fr.fn).blk fr.blk).stmts.size)
    (hs : ((p.fn fr.fn).blk fr.blk).stmts.getD fr.pc default = .assume cst) :
    step p ch c = if cst.sat fr.env then { c with stack := { fr with pc := fr.pc + 1 } :: rest }
                  else { c with status := .blocked } := by
  unfold step; rw [hst]; simp only [hpc, if_true, hs]

theorem step_assert {id : Nat} {cst : ICst}
    (hst : c.stack = fr :: rest) (hpc : fr.pc < ((p.fn fr.fn).blk fr.blk).stmts.size)
    (hs : ((p.fn fr.fn).blk fr.blk).stmts.getD fr.pc default = .assert id cst) :
    step p ch c =
      if cst.sat fr.env then
        { c with stack := { fr with pc := fr.pc + 1 } :: rest,
                 tr := { c.tr with asserts := c.tr.asserts.push (id, cst.sat fr.env) } }
      else { c with tr := { c.tr with asserts := c.tr.asserts.push (id, cst.sat fr.env) }, status := .failed id } := by
  unfold step; rw [hst]; simp only [hpc, if_true, hs]

theorem step_call {h : Nat} {lhs args : List Var}
    (hst : c.stack = fr :: rest) (hpc : fr.pc < ((p.fn fr.fn).blk fr.blk).stmts.size)
    (hs : ((p.fn fr.fn).blk fr.blk).stmts.getD fr.pc default = .call h lhs args) (hh : h < p.funs.size) :
    step p ch c =
      { c with stack := mkFrame p ch c.ci h (args.map (fun a => fr.env.getD a 0)) :: fr :: rest, ci := c.ci + p.nv,
               tr := c.tr.event (mkFrame p ch c.ci h (args.map (fun a => fr.env.getD a 0))) false } := by
  unfold step; rw [hst]; simp only [hpc, if_true, hs, hh]

theorem step_call_stuck {h : Nat} {lhs args : List Var}
    (hst : c.stack = fr :: rest) (hpc : fr.pc < ((p.fn fr.fn).blk fr.blk).stmts.size)
    (hs : ((p.fn fr.fn).blk fr.blk).stmts.getD fr.pc default = .call h lhs args) (hh : ¬ h < p.funs.size) :
    step p ch c = { c with status := .stuck } := by
  unfold step; rw [hst]; simp only [hpc, if_true, hs, hh, if_false]

/-- the record pushed when the top frame returns -/
def retRec (p : IProg) (fr : Frame) : CallRec :=
  ⟨fr.fn, fr.inVals, (p.fn fr.fn).outs.map (fun o => fr.env.getD o 0)⟩

def retTrace (p : IProg) (c : Config) (fr : Frame) : Trace :=
  { c.tr.event fr true with calls := (c.tr.event fr true).calls.push (retRec p fr) }

theorem step_ret_last (hst : c.stack = [fr]) (hpc : ¬ fr.pc < ((p.fn fr.fn).blk fr.blk).stmts.size)
    (hex : fr.blk = (p.fn fr.fn).exit) :
    step p ch c = { c with stack := [], tr := retTrace p c fr, status := .done } := by
  have hb : (fr.blk == (p.fn fr.fn).exit) = true := by simp [hex]
  unfold step; rw [hst]; simp only [hpc, if_false, hb, if_true]; rfl

theorem step_ret {caller : Frame} {h : Nat} {lhs args : List Var}
    (hst : c.stack = fr :: caller :: rest) (hpc : ¬ fr.pc < ((p.fn fr.fn).blk fr.blk).stmts.size)
    (hex : fr.blk = (p.fn fr.fn).exit)
    (hs : ((p.fn caller.fn).blk caller.blk).stmts.getD caller.pc default = .call h lhs args) :
    step p ch c =
      { c with stack := { caller with env := setMany caller.env lhs ((p.fn fr.fn).outs.map (fun o => fr.env.getD o 0)),
                                      pc := caller.pc + 1 } :: rest,
               tr := retTrace p c fr } := by
  have hb : (fr.blk == (p.fn fr.fn).exit) = true := by simp [hex]
  unfold step; rw [hst]; simp only [hpc, if_false, hb, if_true, hs]; rfl

theorem step_dead (hst : c.stack = fr :: rest) (hpc : ¬ fr.pc < ((p.fn fr.fn).blk fr.blk).stmts.size)
    (hex : fr.blk ≠ (p.fn fr.fn).exit) (hsz : ((p.fn fr.fn).blk fr.blk).succs.size = 0) :
    step p ch c = { c with tr := c.tr.event fr true, status := .blocked } := by
  have : (fr.blk == (p.fn fr.fn).exit) = false := by simpa using hex
  unfold step; rw [hst]; simp only [hpc, if_false, this, hsz, beq_self_eq_true, if_true]; rfl

/-- the top frame moved to the chosen successor -/
def gotoFrame (p : IProg) (ch : Choices) (c : Config) (fr : Frame) : Frame :=
  let b := (p.fn fr.fn).blk fr.blk
  { fr with blk := b.succs.getD ((ch c.ci).natAbs % b.succs.size) 0, pc := 0 }

theorem step_goto (hst : c.stack = fr :: rest) (hpc : ¬ fr.pc < ((p.fn fr.fn).blk fr.blk).stmts.size)
    (hex : fr.blk ≠ (p.fn fr.fn).exit) (hsz : ((p.fn fr.fn).blk fr.blk).succs.size ≠ 0) :
    step p ch c =
      { c with stack := gotoFrame p ch c fr :: rest, ci := c.ci + 1,
               tr := (c.tr.event fr true).event (gotoFrame p ch c fr) false } := by
  have : (fr.blk == (p.fn fr.fn).exit) = false := by simpa using hex
  have h2 : (((p.fn fr.fn).blk fr.blk).succs.size == 0) = false := by simpa using hsz
  unfold step; rw [hst]; simp only [hpc, if_false, this, h2]; rfl

end StepEq
end Crab.Inter
