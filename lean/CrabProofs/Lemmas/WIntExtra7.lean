import CrabProofs.Lemmas.WIntExtra6

/-!
  More lemmas about `Crab.WInt` (part 7): `exact_meet`, `reduced_signed_unsigned_mul`, the loops of
  `operator*`, soundness of the multiplication.
-/
namespace Crab
namespace WInt
open WrapInt

theorem top_isTop : top.isTop = true := by decide

theorem join_top_right (x : WInt) : x.join top = top := by
  have : x.leq top = true := by simp [leq, top_isTop]
  simp [join, this]

theorem good_cases {w : Nat} {x : WInt} (hx : Good w x) (hb : x.isBottom = false) (ht : x.isTop = false) :
    ∃ s e, s < 2 ^ w ∧ e < 2 ^ w ∧ x = W w s e false := by
  rcases hx with rfl | hx
  · rw [top_isTop] at ht; cases ht
  · exact shape_cases hx hb

/-- joining a good value into a good accumulator -/
theorem join_good2 {w : Nat} (hw : w ≤ 64) {res q : WInt} (hr : Good w res) (hq : Good w q) :
    Good w (res.join q) ∧ LeW w res (res.join q) ∧ LeW w q (res.join q) := by
  rcases hq with rfl | hq
  · rw [join_top_right]
    exact ⟨Or.inl rfl, fun v _ _ => mem_top w v, fun _ _ h => h⟩
  · exact ⟨join_good hr hq, LeW_join_left hw hr hq, LeW_join_right hw hr hq⟩

/-! ### `exact_meet` -/

/-- two intervals each containing both end points of the other: the common members are in
    `[start₁, end₂]` or in `[start₂, end₁]` -/
theorem exact4_core (M s1 e1 s2 e2 v : Nat) (h1 : s1 < M) (h2 : e1 < M) (h3 : s2 < M) (h4 : e2 < M)
    (hv : v < M)
    (_a1 : D M s2 s1 ≤ D M s2 e2) (_a2 : D M s2 e1 ≤ D M s2 e2)
    (a3 : D M s1 s2 ≤ D M s1 e1) (a4 : D M s1 e2 ≤ D M s1 e1)
    (m1 : D M s1 v ≤ D M s1 e1) (m2 : D M s2 v ≤ D M s2 e2) :
    D M s1 v ≤ D M s1 e2 ∨ D M s2 v ≤ D M s2 e1 := by
  have b1 := D_spec M s2 s1; have b2 := D_spec M s2 e2; have b3 := D_spec M s2 e1
  have b4 := D_spec M s1 s2; have b5 := D_spec M s1 e1; have b6 := D_spec M s1 e2
  have b7 := D_spec M s1 v; have b8 := D_spec M s2 v
  omega

theorem at_iff_mem' {w : Nat} (hw : w ≤ 64) {s e p : Nat} (hs : s < 2 ^ w) (he : e < 2 ^ w)
    (hp : p < 2 ^ w) : (W w s e false).at ⟨w, p⟩ = true ↔ mem w p (W w s e false) := by
  rw [at_W_iff hw hs he hp, mem_W hw hs he]; rfl

/-- `exact_meet` keeps the common members, provided the first operand contains the end points of
    the second (which is how `reduced_signed_unsigned_mul` calls it) -/
theorem exactMeet_sound {w : Nat} (hw : w ≤ 64) {x y : WInt} (hx : Good w x) (hy : Good w y) {v : Nat}
    (hv : v < 2 ^ w) (hvx : mem w v x) (hvy : mem w v y)
    (hends : y.isTop = false → ∀ s e, y = W w s e false → mem w s x ∧ mem w e x) :
    ∃ r ∈ exactMeet x y, mem w v r := by
  unfold exactMeet
  simp only [hvx.1, hvy.1, Bool.or_self, Bool.false_eq_true, if_false]
  split
  · exact ⟨y, List.mem_singleton.mpr rfl, hvy⟩
  · next n1 =>
    split
    · exact ⟨x, List.mem_singleton.mpr rfl, hvx⟩
    · next n2 =>
      have hxt : x.isTop = false := by
        cases h : x.isTop
        · rfl
        · simp [h] at n1
      have hyt : y.isTop = false := by simpa using n2
      obtain ⟨s1, e1, h1, h2, rfl⟩ := good_cases hx hvx.1 hxt
      obtain ⟨s2, e2, h3, h4, rfl⟩ := good_cases hy hvy.1 hyt
      obtain ⟨me1, me2⟩ := hends hyt s2 e2 rfl
      have c1 := (at_iff_mem' hw h1 h2 h3).mpr me1
      have c2 := (at_iff_mem' hw h1 h2 h4).mpr me2
      split
      · next c4 =>
        simp only [Bool.and_eq_true] at c4
        obtain ⟨⟨⟨d1, d2⟩, _⟩, _⟩ := c4
        have q1 := mem_nontop hw h3 h4 hyt ((at_iff_mem' hw h3 h4 h1).mp d1)
        have q2 := mem_nontop hw h3 h4 hyt ((at_iff_mem' hw h3 h4 h2).mp d2)
        have q3 := mem_nontop hw h1 h2 hxt me1
        have q4 := mem_nontop hw h1 h2 hxt me2
        have q5 := mem_nontop hw h1 h2 hxt hvx
        have q6 := mem_nontop hw h3 h4 hyt hvy
        rcases exact4_core _ s1 e1 s2 e2 v h1 h2 h3 h4 hv q1 q2 q3 q4 q5 q6 with r | r
        · refine ⟨W w s1 e2 false, List.mem_cons_self .., ?_⟩
          rw [mem_W hw h1 h4]; exact Or.inr r
        · refine ⟨W w s2 e1 false, List.mem_cons_of_mem _ (List.mem_cons_self ..), ?_⟩
          rw [mem_W hw h3 h2]; exact Or.inr r
      · split
        · exact ⟨_, List.mem_singleton.mpr rfl, hvx⟩
        · split
          · exact ⟨_, List.mem_singleton.mpr rfl, hvy⟩
          · next n6 =>
            exfalso; apply n6
            show ((W w s1 e1 false).at ⟨w, s2⟩ && (W w s1 e1 false).at ⟨w, e2⟩) = true
            rw [c1, c2]; rfl

/-- every element of `exact_meet` is `top()` or of width `w` -/
theorem exactMeet_good {w : Nat} {x y : WInt} (hx : Good w x) (hy : Good w y) :
    ∀ r ∈ exactMeet x y, Good w r := by
  intro r hr
  unfold exactMeet at hr
  split at hr
  · cases hr
  · next nb =>
    have hxb : x.isBottom = false := by
      cases h : x.isBottom
      · rfl
      · simp [h] at nb
    have hyb : y.isBottom = false := by
      cases h : y.isBottom
      · rfl
      · simp [h] at nb
    split at hr
    · rw [List.mem_singleton.mp hr]; exact hy
    · next n1 =>
      split at hr
      · rw [List.mem_singleton.mp hr]; exact hx
      · next n2 =>
        have hxt : x.isTop = false := by
          cases h : x.isTop
          · rfl
          · simp [h] at n1
        have hyt : y.isTop = false := by simpa using n2
        obtain ⟨s1, e1, h1, h2, rfl⟩ := good_cases hx hxb hxt
        obtain ⟨s2, e2, h3, h4, rfl⟩ := good_cases hy hyb hyt
        have g1 : Good w (W w s1 e2 false) := Or.inr (shape_W h1 h4)
        have g2 : Good w (W w s2 e1 false) := Or.inr (shape_W h3 h2)
        split at hr
        · simp only [List.mem_cons, List.mem_nil_iff, or_false] at hr
          rcases hr with rfl | rfl
          · exact g1
          · exact g2
        · split at hr
          · rw [List.mem_singleton.mp hr]; exact hx
          · split at hr
            · rw [List.mem_singleton.mp hr]; exact hy
            · split at hr
              · rw [List.mem_singleton.mp hr]; exact g1
              · split at hr
                · rw [List.mem_singleton.mp hr]; exact g2
                · cases hr

/-! ### `reduced_signed_unsigned_mul` -/

theorem reducedMul_good {w : Nat} (hw : w ≤ 64) (a b c d : Nat) :
    ∀ q ∈ reducedMul (W w a b false) (W w c d false), Good w q := by
  intro q hq
  unfold reducedMul at hq
  simp only [Bool.or_self, Bool.false_eq_true, if_false] at hq
  exact exactMeet_good (signedMul_good hw a b c d) (unsignedMul_good hw a b c d) q hq

theorem reducedMul_sound {w : Nat} (h1w : 1 ≤ w) (hw : w ≤ 64) {a b c d u v : Nat}
    (h1 : Hemi w a b) (h2 : Hemi w c d)
    (hau : a ≤ u) (hub : u ≤ b) (hcv : c ≤ v) (hvd : v ≤ d) :
    ∃ q ∈ reducedMul (W w a b false) (W w c d false), mem w ((u * v) % 2 ^ w) q := by
  have hM : 0 < 2 ^ w := Nat.pow_pos (by decide)
  unfold reducedMul
  simp only [Bool.or_self, Bool.false_eq_true, if_false]
  apply exactMeet_sound hw (signedMul_good hw a b c d) (unsignedMul_good hw a b c d) (Nat.mod_lt _ hM)
    (signedMul_sound h1w hw h1 h2 hau hub hcv hvd) (unsignedMul_sound hw hau hub hcv hvd)
  intro hnt s e hse
  -- the end points of the unsigned answer are products of end points
  unfold unsignedMul at hse hnt
  dsimp only at hse hnt
  split at hse
  · simp only [mulT_val hw] at hse
    obtain ⟨rfl, rfl⟩ := W_inj hse.symm
    exact ⟨signedMul_sound h1w hw h1 h2 (Nat.le_refl a) h1.1 (Nat.le_refl c) h2.1,
      signedMul_sound h1w hw h1 h2 h1.1 (Nat.le_refl b) h2.1 (Nat.le_refl d)⟩
  · next hc =>
    rw [if_neg hc, top_isTop] at hnt; cases hnt

/-! ### the loops of `operator*` -/

def mulInner (q res : WInt) : Option (ForInStep WInt) := pure (ForInStep.yield (res.join q))
def mulMid (ci cj res : WInt) : Option (ForInStep WInt) :=
  (forIn (ci.reducedMul cj) res mulInner).bind fun r => pure (ForInStep.yield r)
def mulOuter (ycuts : List WInt) (ci res : WInt) : Option (ForInStep WInt) :=
  (forIn ycuts res (mulMid ci)).bind fun r => pure (ForInStep.yield r)

theorem mul_unfold {x y : WInt} (hb : (x.isBottom || y.isBottom) = false)
    (ht : (x.isTop || y.isTop) = false) :
    x.mul y = (x.cut?).bind fun cuts => (y.cut?).bind fun ycuts =>
      forIn cuts bottom (mulOuter ycuts) := by
  unfold mul
  simp only [hb, ht, Bool.false_eq_true, if_false]
  cases x.cut? with
  | none => rfl
  | some cuts =>
    cases y.cut? with
    | none => rfl
    | some ycuts =>
      simp only [Option.bind_eq_bind, Option.bind_some, bind_pure]
      rfl

/-- a loop that joins a list of good values into the accumulator -/
theorem joinLoop_spec {w : Nat} (hw : w ≤ 64) (l : List WInt) (hl : ∀ q ∈ l, Good w q)
    {r0 r : WInt} (hg : Good w r0) (h : forIn l r0 mulInner = some r) :
    Good w r ∧ LeW w r0 r ∧ ∀ q ∈ l, LeW w q r := by
  refine forIn_join_spec (w := w) mulInner (fun q r => LeW w q r)
    (fun q r r' h1 h2 => LeW_trans h1 h2) l r0 r ?_ hg h
  intro q hq r1 s hg1 hs
  unfold mulInner at hs
  injection hs with hs
  obtain ⟨g, l1, l2⟩ := join_good2 hw hg1 (hl q hq)
  exact ⟨_, hs.symm, g, l1, l2⟩

/-- all pieces are intervals `W w a b false` -/
def AllPieces (w : Nat) (l : List WInt) : Prop := ∀ p ∈ l, ∃ a b, p = W w a b false

theorem mulMid_spec {w : Nat} (hw : w ≤ 64) {ci : WInt} (hci : ∃ a b, ci = W w a b false)
    (ycuts : List WInt) (hy : AllPieces w ycuts) {r0 r : WInt} (hg : Good w r0)
    (h : forIn ycuts r0 (mulMid ci) = some r) :
    Good w r ∧ LeW w r0 r ∧ ∀ cj ∈ ycuts, ∀ q ∈ ci.reducedMul cj, LeW w q r := by
  obtain ⟨a, b, rfl⟩ := hci
  refine forIn_join_spec (w := w) (mulMid (W w a b false))
    (fun cj r => ∀ q ∈ (W w a b false).reducedMul cj, LeW w q r)
    (fun cj r r' h1 h2 q hq => LeW_trans (h1 q hq) h2) ycuts r0 r ?_ hg h
  intro cj hcj r1 s hg1 hs
  obtain ⟨c, d, rfl⟩ := hy cj hcj
  unfold mulMid at hs
  cases hin : forIn ((W w a b false).reducedMul (W w c d false)) r1 mulInner with
  | none => rw [hin] at hs; cases hs
  | some r2 =>
    rw [hin] at hs
    simp only [Option.bind_some] at hs
    injection hs with hs
    obtain ⟨g, l1, l2⟩ := joinLoop_spec hw _ (reducedMul_good hw a b c d) hg1 hin
    exact ⟨r2, hs.symm, g, l1, l2⟩

theorem mulOuter_spec {w : Nat} (hw : w ≤ 64) (cuts ycuts : List WInt) (hx : AllPieces w cuts)
    (hy : AllPieces w ycuts) {r0 r : WInt} (hg : Good w r0)
    (h : forIn cuts r0 (mulOuter ycuts) = some r) :
    Good w r ∧ LeW w r0 r ∧ ∀ ci ∈ cuts, ∀ cj ∈ ycuts, ∀ q ∈ ci.reducedMul cj, LeW w q r := by
  refine forIn_join_spec (w := w) (mulOuter ycuts)
    (fun ci r => ∀ cj ∈ ycuts, ∀ q ∈ ci.reducedMul cj, LeW w q r)
    (fun ci r r' h1 h2 cj hcj q hq => LeW_trans (h1 cj hcj q hq) h2) cuts r0 r ?_ hg h
  intro ci hci r1 s hg1 hs
  unfold mulOuter at hs
  cases hin : forIn ycuts r1 (mulMid ci) with
  | none => rw [hin] at hs; cases hs
  | some r2 =>
    rw [hin] at hs
    simp only [Option.bind_some] at hs
    injection hs with hs
    obtain ⟨g, l1, l2⟩ := mulMid_spec hw (hx ci hci) ycuts hy hg1 hin
    exact ⟨r2, hs.symm, g, l1, l2⟩

/-- `operator*` contains the product modulo `2^w` of every pair of members -/
theorem mul_sound {w : Nat} (h1w : 1 ≤ w) (hw : w ≤ 64) {x y r : WInt} (hx : Shape w x) (hy : Shape w y)
    (h : x.mul y = some r) {u v : Nat} (hu : u < 2 ^ w) (hv : v < 2 ^ w) (hmu : mem w u x)
    (hmv : mem w v y) : mem w ((u * v) % 2 ^ w) r := by
  obtain ⟨s1, e1, h1, h2, rfl⟩ := shape_cases hx hmu.1
  obtain ⟨s2, e2, h3, h4, rfl⟩ := shape_cases hy hmv.1
  have hM : 0 < 2 ^ w := Nat.pow_pos (by decide)
  by_cases ht : ((W w s1 e1 false).isTop || (W w s2 e2 false).isTop) = true
  · have : (W w s1 e1 false).mul (W w s2 e2 false) = some top := by simp [mul, ht]
    rw [this] at h; injection h with h; subst h; exact mem_top _ _
  · have ht' : ((W w s1 e1 false).isTop || (W w s2 e2 false).isTop) = false := by simpa using ht
    rw [mul_unfold rfl ht'] at h
    cases hc1 : (W w s1 e1 false).cut? with
    | none => rw [hc1] at h; cases h
    | some cuts =>
      cases hc2 : (W w s2 e2 false).cut? with
      | none => rw [hc1, hc2] at h; cases h
      | some ycuts =>
        rw [hc1, hc2] at h
        simp only [Option.bind_some] at h
        obtain ⟨p1, cov1⟩ := cut_spec h1w hw h1 h2 hc1
        obtain ⟨p2, cov2⟩ := cut_spec h1w hw h3 h4 hc2
        have ax : AllPieces w cuts := fun p hp => by
          obtain ⟨a, b, e, _⟩ := p1 p hp; exact ⟨a, b, e⟩
        have ay : AllPieces w ycuts := fun p hp => by
          obtain ⟨a, b, e, _⟩ := p2 p hp; exact ⟨a, b, e⟩
        obtain ⟨_, _, each⟩ := mulOuter_spec hw cuts ycuts ax ay (good_bottom w) h
        obtain ⟨a, b, hci, hau, hub⟩ := cov1 u hu hmu
        obtain ⟨c, d, hcj, hcv, hvd⟩ := cov2 v hv hmv
        obtain ⟨a', b', e1', hemi1⟩ := p1 _ hci
        obtain ⟨rfl, rfl⟩ := W_inj e1'
        obtain ⟨c', d', e2', hemi2⟩ := p2 _ hcj
        obtain ⟨rfl, rfl⟩ := W_inj e2'
        obtain ⟨q, hq, hmq⟩ := reducedMul_sound h1w hw hemi1 hemi2 hau hub hcv hvd
        exact each _ hci _ hcj q hq _ (Nat.mod_lt _ hM) hmq

end WInt
end Crab
