import CrabProofs.Lemmas.IntervalMul

/-! Soundness and definedness of interval division (`z_interval::operator/`) and of the
    remainder operations (`SRem`, `URem`, `UDiv`) of `Crab.Itv`. -/
namespace Crab

/-! ### truncating division of integers: monotonicity -/
namespace TDiv

theorem nn {a b : Int} (ha : 0 ≤ a) (hb : 0 < b) :
    Int.tdiv a b = ((a.natAbs / b.natAbs : Nat) : Int) := by
  have h1 : a = (a.natAbs : Int) := by omega
  have h2 : b = (b.natAbs : Int) := by omega
  conv => lhs; rw [h1, h2]
  exact (Int.ofNat_tdiv _ _).symm

theorem nonneg_pp {a b : Int} (ha : 0 ≤ a) (hb : 0 < b) : 0 ≤ Int.tdiv a b := by
  rw [nn ha hb]; exact Int.natCast_nonneg _

/-- monotone in the dividend, non-negative dividends, positive divisor -/
theorem mono_nn {a a' b : Int} (ha : 0 ≤ a) (h : a ≤ a') (hb : 0 < b) :
    Int.tdiv a b ≤ Int.tdiv a' b := by
  rw [nn ha hb, nn (by omega) hb]
  have : a.natAbs ≤ a'.natAbs := by omega
  have := Nat.div_le_div_right (c := b.natAbs) this
  omega

/-- monotone in the dividend for a positive divisor -/
theorem mono_pos {a a' b : Int} (h : a ≤ a') (hb : 0 < b) : Int.tdiv a b ≤ Int.tdiv a' b := by
  by_cases ha : 0 ≤ a
  · exact mono_nn ha h hb
  · have e1 : Int.tdiv a b = -Int.tdiv (-a) b := by rw [Int.neg_tdiv]; omega
    by_cases ha' : 0 ≤ a'
    · have := nonneg_pp (a := -a) (by omega) hb
      have := nonneg_pp ha' hb
      omega
    · have e2 : Int.tdiv a' b = -Int.tdiv (-a') b := by rw [Int.neg_tdiv]; omega
      have := mono_nn (a := -a') (a' := -a) (by omega) (by omega) hb
      omega

/-- antitone in the dividend for a negative divisor -/
theorem anti_neg {a a' b : Int} (h : a ≤ a') (hb : b < 0) : Int.tdiv a' b ≤ Int.tdiv a b := by
  have e1 : Int.tdiv a b = -Int.tdiv a (-b) := by rw [Int.tdiv_neg]; omega
  have e2 : Int.tdiv a' b = -Int.tdiv a' (-b) := by rw [Int.tdiv_neg]; omega
  have := mono_pos h (b := -b) (by omega)
  omega

/-- non-negative dividend, positive divisors: antitone in the divisor -/
theorem anti_divisor_nn {A b b' : Int} (hA : 0 ≤ A) (hb : 0 < b) (h : b ≤ b') :
    Int.tdiv A b' ≤ Int.tdiv A b := by
  rw [nn hA hb, nn hA (by omega)]
  have h1 : b.natAbs ≤ b'.natAbs := by omega
  have h2 : 0 < b.natAbs := by omega
  have := Nat.div_le_div_left (a := A.natAbs) h1 h2
  omega

/-- the four sign cases: for divisors `b ≤ b'` on the same side of 0, the quotient moves
    down when the dividend is non-negative and up when it is non-positive -/
theorem divisor_nn {A b b' : Int} (hA : 0 ≤ A) (h : b ≤ b') (hs : 0 < b ∨ b' < 0) :
    Int.tdiv A b' ≤ Int.tdiv A b := by
  rcases hs with hs | hs
  · exact anti_divisor_nn hA hs h
  · have e1 : Int.tdiv A b = -Int.tdiv A (-b) := by rw [Int.tdiv_neg]; omega
    have e2 : Int.tdiv A b' = -Int.tdiv A (-b') := by rw [Int.tdiv_neg]; omega
    have := anti_divisor_nn hA (b := -b') (b' := -b) (by omega) (by omega)
    omega

theorem divisor_np {A b b' : Int} (hA : A ≤ 0) (h : b ≤ b') (hs : 0 < b ∨ b' < 0) :
    Int.tdiv A b ≤ Int.tdiv A b' := by
  have e1 : Int.tdiv A b = -Int.tdiv (-A) b := by rw [Int.neg_tdiv]; omega
  have e2 : Int.tdiv A b' = -Int.tdiv (-A) b' := by rw [Int.neg_tdiv]; omega
  have := divisor_nn (A := -A) (by omega) h hs
  omega

/-- sign of the quotient -/
theorem sign_pp {A b : Int} (hA : 0 ≤ A) (hb : 0 < b) : 0 ≤ Int.tdiv A b := nonneg_pp hA hb
theorem sign_np {A b : Int} (hA : A ≤ 0) (hb : 0 < b) : Int.tdiv A b ≤ 0 := by
  have e1 : Int.tdiv A b = -Int.tdiv (-A) b := by rw [Int.neg_tdiv]; omega
  have := nonneg_pp (a := -A) (by omega) hb
  omega
theorem sign_pn {A b : Int} (hA : 0 ≤ A) (hb : b < 0) : Int.tdiv A b ≤ 0 := by
  have e1 : Int.tdiv A b = -Int.tdiv A (-b) := by rw [Int.tdiv_neg]; omega
  have := nonneg_pp hA (b := -b) (by omega)
  omega
theorem sign_nn {A b : Int} (hA : A ≤ 0) (hb : b < 0) : 0 ≤ Int.tdiv A b := by
  have e1 : Int.tdiv A b = -Int.tdiv A (-b) := by rw [Int.tdiv_neg]; omega
  have := sign_np hA (b := -b) (by omega)
  omega

end TDiv

namespace Bound

/-- `bound::operator/` without its zero check -/
def divT : Bound → Bound → Bound
  | fin x, fin y => fin (Int.tdiv x y)
  | fin _, _ => fin 0
  | x, fin y => if y > 0 then x else neg x
  | x, y => mkRaw true (x.n * y.n)

theorem div_eq_divT (a b : Bound) (h : b.n ≠ 0) : Bound.div a b = some (divT a b) := by
  unfold Bound.div divT
  simp [h]
  cases a <;> cases b <;> simp <;> split <;> rfl

theorem div_isSome_iff (a b : Bound) : (Bound.div a b).isSome = true ↔ b ≠ fin 0 := by
  cases b <;> simp [Bound.div, Bound.n]
  · cases a <;> simp
  · rename_i k
    by_cases hk : k = 0
    · simp [hk]
    · simp [hk]; cases a <;> simp <;> split <;> simp
  · cases a <;> simp

/-- Claim 1 (positive divisor): for `l ≤ a ≤ u`, `l / b ≤ a / b ≤ u / b`. -/
theorem divT_between_pos {l u : Bound} {a : Int} {b : Int} (hb : 0 < b)
    (h1 : le l (fin a) = true) (h2 : le (fin a) u = true) :
    le (divT l (fin b)) (fin (Int.tdiv a b)) = true ∧
    le (fin (Int.tdiv a b)) (divT u (fin b)) = true := by
  constructor
  · cases l with
    | pinf => simp at h1
    | ninf => simp [divT, hb]
    | fin v => simp at h1; simp [divT]; exact TDiv.mono_pos h1 hb
  · cases u with
    | ninf => simp at h2
    | pinf => simp [divT, hb]
    | fin v => simp at h2; simp [divT]; exact TDiv.mono_pos h2 hb

/-- Claim 1 (negative divisor): for `l ≤ a ≤ u`, `u / b ≤ a / b ≤ l / b`. -/
theorem divT_between_neg {l u : Bound} {a : Int} {b : Int} (hb : b < 0)
    (h1 : le l (fin a) = true) (h2 : le (fin a) u = true) :
    le (divT u (fin b)) (fin (Int.tdiv a b)) = true ∧
    le (fin (Int.tdiv a b)) (divT l (fin b)) = true := by
  have hnb : ¬ (0 < b) := by omega
  constructor
  · cases u with
    | ninf => simp at h2
    | pinf => simp [divT, hnb, Bound.neg]
    | fin v => simp at h2; simp [divT]; exact TDiv.anti_neg h2 hb
  · cases l with
    | pinf => simp at h1
    | ninf => simp [divT, hnb, Bound.neg]
    | fin v => simp at h1; simp [divT]; exact TDiv.anti_neg h1 hb

/-- Claim 1: for `l ≤ a ≤ u` and `b ≠ 0`, `a / b` lies between `l / b` and `u / b`. -/
theorem divT_between {l u : Bound} {a : Int} (b : Int) (hb : b ≠ 0)
    (h1 : le l (fin a) = true) (h2 : le (fin a) u = true) :
    le (min (divT l (fin b)) (divT u (fin b))) (fin (Int.tdiv a b)) = true ∧
    le (fin (Int.tdiv a b)) (max (divT l (fin b)) (divT u (fin b))) = true := by
  rcases Int.lt_or_gt_of_ne hb with hb | hb
  · have := divT_between_neg hb h1 h2
    exact ⟨le_trans (min_le_right _ _) this.1, le_trans this.2 (le_max_left _ _)⟩
  · have := divT_between_pos hb h1 h2
    exact ⟨le_trans (min_le_left _ _) this.1, le_trans this.2 (le_max_right _ _)⟩

/-- Claim 2: for `l2 ≤ b ≤ u2` with `0` outside `[l2,u2]`, `L / b` lies between `L / l2` and
    `L / u2` (finite / infinite = 0). -/
theorem divT_divisor_between (L : Bound) {l2 u2 : Bound} {b : Int}
    (h1 : le l2 (fin b) = true) (h2 : le (fin b) u2 = true)
    (hz : lt (fin 0) l2 = true ∨ lt u2 (fin 0) = true) :
    le (min (divT L l2) (divT L u2)) (divT L (fin b)) = true ∧
    le (divT L (fin b)) (max (divT L l2) (divT L u2)) = true := by
  rcases hz with hz | hz
  · -- 0 < l2 ≤ b
    cases l2 with
    | ninf => simp [lt, ge] at hz
    | pinf => simp at h1
    | fin v =>
      simp [lt, ge] at hz
      simp at h1
      have hbpos : 0 < b := by omega
      cases L with
      | pinf =>
        simp [divT, hz, hbpos]
        refine le_trans ?_ (le_max_left _ _); simp
      | ninf => simp [divT, hz, hbpos, min]
      | fin A =>
        by_cases hA : 0 ≤ A
        · constructor
          · refine le_trans (min_le_right _ _) ?_
            cases u2 with
            | ninf => simp at h2
            | pinf => simp [divT]; exact TDiv.sign_pp hA hbpos
            | fin w => simp at h2; simp [divT]; exact TDiv.divisor_nn hA h2 (Or.inl hbpos)
          · refine le_trans ?_ (le_max_left _ _)
            simp [divT]; exact TDiv.divisor_nn hA h1 (Or.inl hz)
        · constructor
          · refine le_trans (min_le_left _ _) ?_
            simp [divT]; exact TDiv.divisor_np (by omega) h1 (Or.inl hz)
          · refine le_trans ?_ (le_max_right _ _)
            cases u2 with
            | ninf => simp at h2
            | pinf => simp [divT]; exact TDiv.sign_np (by omega) hbpos
            | fin w => simp at h2; simp [divT]; exact TDiv.divisor_np (by omega) h2 (Or.inl hbpos)
  · -- b ≤ u2 < 0
    cases u2 with
    | pinf => simp [lt, ge] at hz
    | ninf => simp at h2
    | fin w =>
      simp [lt, ge] at hz
      simp at h2
      have hbneg : b < 0 := by omega
      have hnb : ¬ (0 < b) := by omega
      have hnw : ¬ (0 < w) := by omega
      cases L with
      | pinf =>
        simp [divT, hnw, hnb, Bound.neg]
        refine le_trans (min_le_right _ _) ?_; simp
      | ninf =>
        simp [divT, hnw, hnb, Bound.neg]
        refine le_trans ?_ (le_max_right _ _); simp
      | fin A =>
        by_cases hA : 0 ≤ A
        · constructor
          · refine le_trans (min_le_right _ _) ?_
            simp [divT]; exact TDiv.divisor_nn hA h2 (Or.inr hz)
          · refine le_trans ?_ (le_max_left _ _)
            cases l2 with
            | pinf => simp at h1
            | ninf => simp [divT]; exact TDiv.sign_pn hA hbneg
            | fin v => simp at h1; simp [divT]; exact TDiv.divisor_nn hA h1 (Or.inr hbneg)
        · constructor
          · refine le_trans (min_le_left _ _) ?_
            cases l2 with
            | pinf => simp at h1
            | ninf => simp [divT]; exact TDiv.sign_nn (by omega) hbneg
            | fin v => simp at h1; simp [divT]; exact TDiv.divisor_np (by omega) h1 (Or.inr hbneg)
          · refine le_trans ?_ (le_max_right _ _)
            simp [divT]; exact TDiv.divisor_np (by omega) h2 (Or.inr hz)

theorem min4_le_minmin (a b c d : Bound) : le (min4 a b c d) (min (min a b) (min c d)) = true := by
  unfold min4
  refine le_min (le_min (min_le_left _ _) ?_) (le_min ?_ ?_)
  · exact le_trans (min_le_right _ _) (min_le_left _ _)
  · exact le_trans (min_le_right _ _) (le_trans (min_le_right _ _) (min_le_left _ _))
  · exact le_trans (min_le_right _ _) (le_trans (min_le_right _ _) (min_le_right _ _))

theorem maxmax_le_max4 (a b c d : Bound) : le (max (max a b) (max c d)) (max4 a b c d) = true := by
  unfold max4
  refine max_le (max_le (le_max_left _ _) ?_) (max_le ?_ ?_)
  · exact le_trans (le_max_left _ _) (le_max_right _ _)
  · exact le_trans (le_trans (le_max_left _ _) (le_max_right _ _)) (le_max_right _ _)
  · exact le_trans (le_trans (le_max_right _ _) (le_max_right _ _)) (le_max_right _ _)

end Bound

namespace Itv
open Bound

/-! ### division -/

theorem nz_of_not_mem0 {x : Itv} (hb : x.isBottom = false) (h0 : ¬ mem 0 x) :
    x.lb.n ≠ 0 ∧ x.ub.n ≠ 0 := by
  cases hl : x.lb <;> cases hu : x.ub <;>
    simp_all [mem, isBottom, Bound.gt, Bound.n] <;> omega

theorem side_of_not_mem0 {x : Itv} (h0 : ¬ mem 0 x) :
    Bound.lt (fin 0) x.lb = true ∨ Bound.lt x.ub (fin 0) = true := by
  simp only [mem] at h0
  simp only [Bound.lt, Bound.ge]
  cases h1 : Bound.le x.lb (fin 0) <;> cases h2 : Bound.le (fin 0) x.ub <;> simp_all

theorem divCorners_eq (a x : Itv) (h1 : x.lb.n ≠ 0) (h2 : x.ub.n ≠ 0) :
    divCorners a x = some (mk'
      (min4 (divT a.lb x.lb) (divT a.lb x.ub) (divT a.ub x.lb) (divT a.ub x.ub))
      (max4 (divT a.lb x.lb) (divT a.lb x.ub) (divT a.ub x.lb) (divT a.ub x.ub))) := by
  simp [divCorners, div_eq_divT _ _ h1, div_eq_divT _ _ h2]

/-- the four-corner quotient is sound whenever the divisor interval excludes 0 -/
theorem divCorners_sound {x y r : Itv} {a b : Int} (ha : mem a x) (hb : mem b y)
    (h0 : ¬ mem 0 y) (h : divCorners x y = some r) : mem (Int.tdiv a b) r := by
  obtain ⟨n1, n2⟩ := nz_of_not_mem0 (isBottom_false_of_mem hb) h0
  rw [divCorners_eq _ _ n1 n2] at h
  simp at h; subst h
  have hb0 : b ≠ 0 := by intro e; subst e; exact h0 hb
  rw [mem_mk']
  have c1 := Bound.divT_between b hb0 ha.1 ha.2
  have hz := side_of_not_mem0 h0
  have cl := Bound.divT_divisor_between x.lb hb.1 hb.2 hz
  have cu := Bound.divT_divisor_between x.ub hb.1 hb.2 hz
  constructor
  · refine Bound.le_trans ?_ c1.1
    refine Bound.le_trans ?_ (Bound.min_mono cl.1 cu.1)
    exact Bound.min4_le_minmin _ _ _ _
  · refine Bound.le_trans c1.2 ?_
    refine Bound.le_trans (Bound.max_mono cl.2 cu.2) ?_
    exact Bound.maxmax_le_max4 _ _ _ _

theorem divCorners_defined {x y : Itv} (hb : y.isBottom = false) (h0 : ¬ mem 0 y) :
    (divCorners x y).isSome = true := by
  obtain ⟨n1, n2⟩ := nz_of_not_mem0 hb h0
  rw [divCorners_eq _ _ n1 n2]; rfl

/-- the singleton-divisor shortcut -/
theorem divSing_sound {x y r : Itv} {a b : Int} (ha : mem a x) (hb : mem b y) (hb0 : b ≠ 0)
    {o : Option Itv} (h : (y.singleton?).bind (divSingleton x) = some o) (hr : o = some r) :
    mem (Int.tdiv a b) r := by
  cases hs : y.singleton? with
  | none => simp [hs] at h
  | some c =>
    have hbc := mem_of_singleton? hs hb
    subst hbc
    simp [hs] at h
    unfold divSingleton at h
    have hn : (fin b).n ≠ 0 := by simpa [Bound.n] using hb0
    split at h
    · rename_i h1; simp at h; subst h; simp at hr; subst hr; subst h1; simpa using ha
    · split at h
      · rename_i hpos
        simp [div_eq_divT _ _ hn] at h
        subst h; simp at hr; subst hr
        rw [mem_mk']
        exact Bound.divT_between_pos hpos ha.1 ha.2
      · split at h
        · rename_i hneg
          simp [div_eq_divT _ _ hn] at h
          subst h; simp at hr; subst hr
          rw [mem_mk']
          exact Bound.divT_between_neg hneg ha.1 ha.2
        · simp at h

theorem divSing_defined {x y : Itv} {o : Option Itv}
    (h : (y.singleton?).bind (divSingleton x) = some o) : o.isSome = true := by
  cases hs : y.singleton? with
  | none => simp [hs] at h
  | some c =>
    simp [hs] at h
    unfold divSingleton at h
    split at h
    · simp at h; subst h; rfl
    · split at h
      · rename_i hpos
        have hn : (fin c).n ≠ 0 := by simp [Bound.n]; omega
        simp [div_eq_divT _ _ hn] at h
        subst h; rfl
      · split at h
        · rename_i hneg
          have hn : (fin c).n ≠ 0 := by simp [Bound.n]; omega
          simp [div_eq_divT _ _ hn] at h
          subst h; rfl
        · simp at h

theorem divLeaf_sound {x y r : Itv} {a b : Int} (ha : mem a x) (hb : mem b y)
    (h0 : ¬ mem 0 y) (h : divNZ.divLeaf true x y = some r) : mem (Int.tdiv a b) r := by
  have hb0 : b ≠ 0 := by intro e; subst e; exact h0 hb
  unfold divNZ.divLeaf at h
  simp [isBottom_false_of_mem ha, isBottom_false_of_mem hb] at h
  split at h
  · rename_i o ho; exact divSing_sound ha hb hb0 ho h
  · simp [divNoZero] at h
    exact divCorners_sound ha hb h0 h

theorem divLeaf_defined {x y : Itv} (h0 : ¬ mem 0 y) :
    (divNZ.divLeaf true x y).isSome = true := by
  unfold divNZ.divLeaf
  split
  · rfl
  · rename_i hbot
    simp at hbot
    split
    · rename_i o ho; exact divSing_defined ho
    · simp [divNoZero]
      exact divCorners_defined hbot.2 h0

theorem mem_lower_piece {x : Itv} {a : Int} (ha : mem a x) (hneg : a < 0) :
    mem a (mk' x.lb (fin (-1))) := by
  rw [mem_mk']; refine ⟨ha.1, ?_⟩; simp; omega

theorem mem_upper_piece {x : Itv} {a : Int} (ha : mem a x) (hpos : 0 < a) :
    mem a (mk' (fin 1) x.ub) := by
  rw [mem_mk']; refine ⟨?_, ha.2⟩; simp; omega

theorem not_mem0_lower (l : Bound) : ¬ mem 0 (mk' l (fin (-1))) := by
  rw [mem_mk']; simp

theorem not_mem0_upper (u : Bound) : ¬ mem 0 (mk' (fin 1) u) := by
  rw [mem_mk']; simp

theorem divNZ_sound {x y r : Itv} {a b : Int} (ha : mem a x) (hb : mem b y)
    (h0 : ¬ mem 0 y) (h : divNZ true x y = some r) : mem (Int.tdiv a b) r := by
  have hb0 : b ≠ 0 := by intro e; subst e; exact h0 hb
  unfold divNZ at h
  split at h
  · rename_i o ho; exact divSing_sound ha hb hb0 ho h
  · split at h
    · -- the dividend contains 0 : split
      cases hl : divNZ.divLeaf true (mk' x.lb (fin (-1))) y with
      | none => simp [hl] at h
      | some ql =>
        cases hu : divNZ.divLeaf true (mk' (fin 1) x.ub) y with
        | none => simp [hl, hu] at h
        | some qu =>
          simp [hl, hu] at h
          subst h
          rcases Int.lt_trichotomy a 0 with hlt | heq | hgt
          · exact join_upper_left (join_upper_left
              (divLeaf_sound (mem_lower_piece ha hlt) hb h0 hl))
          · subst heq
            apply join_upper_right
            rw [Int.zero_tdiv]; exact (mem_single 0 0).mpr rfl
          · exact join_upper_left (join_upper_right
              (divLeaf_sound (mem_upper_piece ha hgt) hb h0 hu))
    · simp [divNoZero] at h
      exact divCorners_sound ha hb h0 h

theorem divNZ_defined {x y : Itv} (hy : y.isBottom = false) (h0 : ¬ mem 0 y) :
    (divNZ true x y).isSome = true := by
  unfold divNZ
  split
  · rename_i o ho; exact divSing_defined ho
  · split
    · have h1 := divLeaf_defined (x := mk' x.lb (fin (-1))) h0
      have h2 := divLeaf_defined (x := mk' (fin 1) x.ub) h0
      cases hl : divNZ.divLeaf true (mk' x.lb (fin (-1))) y <;> simp [hl] at h1
      cases hu : divNZ.divLeaf true (mk' (fin 1) x.ub) y <;> simp [hu] at h2
      simp [hl, hu]
    · simp [divNoZero]
      exact divCorners_defined hy h0

/-- `z_interval::operator/` over-approximates the truncating division -/
theorem div_sound {x y r : Itv} {a b : Int} (ha : mem a x) (hb : mem b y) (hb0 : b ≠ 0)
    (h : div x y = some r) : mem (Int.tdiv a b) r := by
  unfold div divGen at h
  simp only [isBottom_false_of_mem ha, isBottom_false_of_mem hb, Bool.or_self] at h
  simp only [Bool.false_eq_true, if_false] at h
  split at h
  · rename_i o ho; exact divSing_sound ha hb hb0 ho h
  · split at h
    · -- the divisor contains 0 : split
      have hql : ∀ ql, (if (mk' y.lb (fin (-1))).isBottom = true then some bot
            else divNZ true x (mk' y.lb (fin (-1)))) = some ql → b < 0 →
          mem (Int.tdiv a b) ql := by
        intro ql hq hlt
        have hm := mem_lower_piece hb hlt
        simp [isBottom_false_of_mem hm] at hq
        exact divNZ_sound ha hm (not_mem0_lower _) hq
      have hqu : ∀ qu, (if (mk' (fin 1) y.ub).isBottom = true then some bot
            else divNZ true x (mk' (fin 1) y.ub)) = some qu → 0 < b →
          mem (Int.tdiv a b) qu := by
        intro qu hq hgt
        have hm := mem_upper_piece hb hgt
        simp [isBottom_false_of_mem hm] at hq
        exact divNZ_sound ha hm (not_mem0_upper _) hq
      generalize (if (mk' y.lb (fin (-1))).isBottom = true then some bot
            else divNZ true x (mk' y.lb (fin (-1)))) = L at h hql
      generalize (if (mk' (fin 1) y.ub).isBottom = true then some bot
            else divNZ true x (mk' (fin 1) y.ub)) = U at h hqu
      cases L with
      | none => simp at h
      | some ql =>
        cases U with
        | none => simp at h
        | some qu =>
          simp at h; subst h
          rcases Int.lt_or_gt_of_ne hb0 with hlt | hgt
          · exact join_upper_left (hql ql rfl hlt)
          · exact join_upper_right (hqu qu rfl hgt)
    · rename_i hc
      have h0 : ¬ mem 0 y := by rw [← contains_iff]; exact hc
      exact divNZ_sound ha hb h0 h

/-- `z_interval::operator/` never raises CRAB_ERROR (no hypothesis on the operands) -/
theorem div_defined (x y : Itv) : (div x y).isSome = true := by
  unfold div divGen
  split
  · rfl
  · rename_i hbot
    simp at hbot
    split
    · rename_i o ho; exact divSing_defined ho
    · split
      · have h1 : (if (mk' y.lb (fin (-1))).isBottom = true then some bot
            else divNZ true x (mk' y.lb (fin (-1)))).isSome = true := by
          split
          · rfl
          · rename_i hb; exact divNZ_defined (by simpa using hb) (not_mem0_lower _)
        have h2 : (if (mk' (fin 1) y.ub).isBottom = true then some bot
            else divNZ true x (mk' (fin 1) y.ub)).isSome = true := by
          split
          · rfl
          · rename_i hb; exact divNZ_defined (by simpa using hb) (not_mem0_upper _)
        dsimp only
        generalize (if (mk' y.lb (fin (-1))).isBottom = true then some bot
            else divNZ true x (mk' y.lb (fin (-1)))) = L at h1 ⊢
        generalize (if (mk' (fin 1) y.ub).isBottom = true then some bot
            else divNZ true x (mk' (fin 1) y.ub)) = U at h2 ⊢
        cases L <;> simp at h1
        cases U <;> simp at h2
        simp
      · rename_i hc
        have h0 : ¬ mem 0 y := by rw [← contains_iff]; exact hc
        exact divNZ_defined hbot.2 h0

/-! ### remainders -/

theorem tmod_bounds_pos (a : Int) {b : Int} (hb : 0 < b) :
    (0 ≤ a → 0 ≤ Int.tmod a b ∧ Int.tmod a b < b) ∧
    (a ≤ 0 → -b < Int.tmod a b ∧ Int.tmod a b ≤ 0) := by
  constructor
  · intro ha; exact ⟨Int.tmod_nonneg b ha, Int.tmod_lt_of_pos a hb⟩
  · intro ha
    have e : Int.tmod a b = -Int.tmod (-a) b := by rw [Int.neg_tmod]; omega
    have h1 := Int.tmod_nonneg (a := -a) b (by omega)
    have h2 := Int.tmod_lt_of_pos (-a) hb
    omega

theorem tmod_bounds (a : Int) {b : Int} (hb : b ≠ 0) :
    (0 ≤ a → 0 ≤ Int.tmod a b ∧ Int.tmod a b < iabs b) ∧
    (a ≤ 0 → -(iabs b) < Int.tmod a b ∧ Int.tmod a b ≤ 0) := by
  unfold iabs
  split
  · rename_i hneg
    have := tmod_bounds_pos a (b := -b) (by omega)
    rw [Int.tmod_neg] at this
    exact this
  · exact tmod_bounds_pos a (by omega)

theorem srem_sound {x y : Itv} {a b : Int} (ha : mem a x) (hb : mem b y) (hb0 : b ≠ 0) :
    mem (Int.tmod a b) (srem x y) := by
  unfold srem
  simp only [isBottom_false_of_mem ha, isBottom_false_of_mem hb, Bool.or_self,
    Bool.false_eq_true, if_false]
  split
  · rename_i dividend divisor h1 h2
    have e1 := mem_of_singleton? h1 ha
    have e2 := mem_of_singleton? h2 hb
    subst e1; subst e2
    simp [hb0]; exact (mem_single _ _).mpr rfl
  · split
    · rename_i xl xu hl hu
      have hb1 := hb.1; have hb2 := hb.2
      rw [hl] at hb1; rw [hu] at hb2
      simp at hb1 hb2
      have hT := tmod_bounds a hb0
      have hm : iabs b ≤ imax (iabs xl) (iabs xu) := by
        unfold imax iabs; split <;> split <;> split <;> omega
      have hbpos : 0 < iabs b := by unfold iabs; split <;> omega
      split
      · omega
      · split
        · split
          · rw [mem_mk']; simp
            rcases Int.le_total 0 a with h | h
            · have := hT.1 h; omega
            · have := hT.2 h; omega
          · rename_i hlt hgt
            rw [mem_mk']; simp
            have ha2 := ha.2
            have : a ≤ 0 := by
              cases hxu : x.ub <;> simp_all [Bound.gt] <;> omega
            have := hT.2 this; omega
        · rename_i hlt
          rw [mem_mk']; simp
          have ha1 := ha.1
          have : 0 ≤ a := by
            cases hxl : x.lb <;> simp_all [Bound.lt, Bound.ge] <;> omega
          have := hT.1 this; omega
    · exact mem_top _

theorem urem_sound {x y : Itv} {a b : Int} (ha : mem a x) (hb : mem b y) (ha0 : 0 ≤ a)
    (hb0 : 0 < b) : mem (a % b) (urem x y) := by
  unfold urem
  simp only [isBottom_false_of_mem ha, isBottom_false_of_mem hb, Bool.or_self,
    Bool.false_eq_true, if_false]
  split
  · rename_i dividend divisor h1 h2
    have e1 := mem_of_singleton? h1 ha
    have e2 := mem_of_singleton? h2 hb
    subst e1; subst e2
    have n1 : ¬ b < 0 := by omega
    have n2 : ¬ b = 0 := by omega
    have n3 : ¬ a < 0 := by omega
    simp only [n1, n2, n3, if_false]
    rw [Int.tmod_eq_emod_of_nonneg ha0]
    exact (mem_single _ _).mpr rfl
  · split
    · rename_i xl xu hl hu
      have hb2 := hb.2
      rw [hu] at hb2
      simp at hb2
      split
      · exact mem_top _
      · split
        · omega
        · rw [mem_mk']; simp
          have := Int.emod_nonneg a (show b ≠ 0 by omega)
          have := Int.emod_lt_of_pos a hb0
          omega
    · exact mem_top _

theorem udiv_sound {x y : Itv} {a b : Int} (ha : mem a x) (hb : mem b y) (k : Int) :
    mem k (udiv x y) := by
  unfold udiv
  simp [isBottom_false_of_mem ha, isBottom_false_of_mem hb, mem_top]

end Itv
end Crab
