import CrabModel.Dom.Functors.Uf

/-!
`uf_domain` (`CrabModel/Dom/Functors/Uf.lean`): concretisation, well-formedness (every term
variable of the map is below `m_free_var`), and the statement transformers (`x := e`, `-=`,
`forget`, `project`, `rename`, `expand`).
-/
namespace Crab
namespace Dom
namespace Fct
namespace Uf
set_option linter.unusedSectionVars false

variable {V F : Type} [DecidableEq V] [DecidableEq F]

/-- `ρ'` agrees with `ρ` below `n` -/
def Ext (n : Nat) (ρ ρ' : Nat → Int) : Prop := ∀ m, m < n → ρ' m = ρ m

theorem Ext.refl (n : Nat) (ρ : Nat → Int) : Ext n ρ ρ := fun _ _ => rfl
theorem Ext.trans {n n' : Nat} {ρ ρ' ρ'' : Nat → Int} (h1 : Ext n ρ ρ') (h2 : Ext n' ρ' ρ'') (hn : n ≤ n') :
    Ext n ρ ρ'' := fun m hm => by rw [h2 m (Nat.lt_of_lt_of_le hm hn), h1 m hm]
theorem Ext.mono {n n' : Nat} {ρ ρ' : Nat → Int} (h : Ext n' ρ ρ') (hn : n ≤ n') : Ext n ρ ρ' :=
  fun m hm => h m (Nat.lt_of_lt_of_le hm hn)

/-- `ρ` with the value `k` at index `n` -/
def upd (ρ : Nat → Int) (n : Nat) (k : Int) : Nat → Int := fun m => if m = n then k else ρ m

theorem upd_ext (ρ : Nat → Int) (n : Nat) (k : Int) : Ext n ρ (upd ρ n k) := by
  intro m hm; simp [upd, Nat.ne_of_lt hm]

theorem upd_self (ρ : Nat → Int) (n : Nat) (k : Int) : upd ρ n k n = k := by simp [upd]

namespace Term
variable (I : F → List Int → Int)

mutual
theorem eval_ext {ρ ρ' : Nat → Int} {n : Nat} (h : Ext n ρ ρ') :
    (t : Term F) → bounded n t = true → eval I ρ' t = eval I ρ t
  | .var m, hb => by simp [bounded] at hb; simp [eval, h m hb]
  | .const k, _ => by simp [eval]
  | .app f args, hb => by simp [bounded] at hb; simp [eval, evalL_ext h args hb]
theorem evalL_ext {ρ ρ' : Nat → Int} {n : Nat} (h : Ext n ρ ρ') :
    (ts : List (Term F)) → boundedL n ts = true → evalL I ρ' ts = evalL I ρ ts
  | [], _ => rfl
  | t :: ts, hb => by
    simp [boundedL] at hb
    simp [evalL, eval_ext h t hb.1, evalL_ext h ts hb.2]
end

mutual
theorem bounded_mono {n n' : Nat} (hn : n ≤ n') : (t : Term F) → bounded n t = true → bounded n' t = true
  | .var m, hb => by simp [bounded] at hb ⊢; omega
  | .const k, _ => by simp [bounded]
  | .app f args, hb => by simp [bounded] at hb ⊢; exact boundedL_mono hn args hb
theorem boundedL_mono {n n' : Nat} (hn : n ≤ n') : (ts : List (Term F)) → boundedL n ts = true → boundedL n' ts = true
  | [], _ => rfl
  | t :: ts, hb => by
    simp [boundedL] at hb ⊢
    exact ⟨bounded_mono hn t hb.1, boundedL_mono hn ts hb.2⟩
end

theorem evalL_length (ρ : Nat → Int) : (ts : List (Term F)) → (evalL I ρ ts).length = ts.length
  | [] => rfl
  | t :: ts => by simp [evalL, evalL_length ρ ts]

end Term

theorem look_mem {K A : Type} [DecidableEq K] {m : List (K × A)} {k : K} {v : A} (h : look m k = some v) :
    (k, v) ∈ m := by
  induction m with
  | nil => simp [look] at h
  | cons p r ih =>
    obtain ⟨k', v'⟩ := p
    simp only [look] at h
    split at h
    · rename_i he; cases h; subst he; exact List.mem_cons_self
    · exact List.mem_cons_of_mem _ (ih h)

theorem look_none {K A : Type} [DecidableEq K] {m : List (K × A)} {k : K} (h : look m k = none) :
    ∀ p ∈ m, p.1 ≠ k := by
  induction m with
  | nil => intro p hp; simp at hp
  | cons q r ih =>
    obtain ⟨k', v'⟩ := q
    simp only [look] at h
    split at h
    · cases h
    · rename_i hne
      intro p hp
      rcases List.mem_cons.1 hp with rfl | hp
      · exact hne
      · exact ih h p hp

theorem look_cons_ne {K A : Type} [DecidableEq K] (m : List (K × A)) {k k' : K} (v : A) (h : k' ≠ k) :
    look ((k', v) :: m) k = look m k := by simp [look, h]

theorem look_cons_self {K A : Type} [DecidableEq K] (m : List (K × A)) (k : K) (v : A) :
    look ((k, v) :: m) k = some v := by simp [look]

/-! ### concretisation -/

/-- `ρ` explains the state `s`: every tracked variable has the value of its term -/
def Mod (I : F → List Int → Int) (ρ : Nat → Int) (m : List (V × Term F)) (s : St V) : Prop :=
  ∀ p ∈ m, s p.1 = p.2.eval I ρ

/-- every term of the map only uses term variables below `n` -/
def MapB (n : Nat) (m : List (V × Term F)) : Prop := ∀ p ∈ m, p.2.bounded n = true

def UVal.WF (u : UVal V F) : Prop := MapB u.next u.map

def UF.WF : UF V F → Prop
  | .bot => True
  | .val u => u.WF

def UF.γ (I : F → List Int → Int) : UF V F → St V → Prop
  | .bot, _ => False
  | .val u, s => ∃ ρ, Mod I ρ u.map s

theorem mod_ext {I : F → List Int → Int} {ρ ρ' : Nat → Int} {n : Nat} {m : List (V × Term F)} {s : St V}
    (h : Ext n ρ ρ') (hb : MapB n m) (hm : Mod I ρ m s) : Mod I ρ' m s :=
  fun p hp => by rw [Term.eval_ext I h p.2 (hb p hp)]; exact hm p hp

theorem mapB_mono {n n' : Nat} (hn : n ≤ n') {m : List (V × Term F)} (h : MapB n m) : MapB n' m :=
  fun p hp => Term.bounded_mono hn p.2 (h p hp)

theorem mem_erase {m : List (V × Term F)} {x : V} {p : V × Term F} (h : p ∈ UVal.erase m x) :
    p ∈ m ∧ p.1 ≠ x := by
  simp only [UVal.erase, List.mem_filter, decide_eq_true_eq] at h
  exact h

theorem mapB_erase {n : Nat} {m : List (V × Term F)} (x : V) (h : MapB n m) : MapB n (UVal.erase m x) :=
  fun p hp => h p (mem_erase hp).1

/-! ### `term_of_var`, `build_term` -/

theorem termOfVar_next (u : UVal V F) (v : V) : u.next ≤ (u.termOfVar v).2.next := by
  unfold UVal.termOfVar; split <;> simp

theorem termOfVar_wf {u : UVal V F} (v : V) (h : u.WF) :
    (u.termOfVar v).2.WF ∧ (u.termOfVar v).1.bounded (u.termOfVar v).2.next = true := by
  unfold UVal.termOfVar
  split
  · rename_i t ht
    exact ⟨h, h _ (look_mem ht)⟩
  · refine ⟨?_, by simp [Term.bounded]⟩
    intro p hp
    rcases List.mem_cons.1 hp with rfl | hp
    · simp [Term.bounded]
    · exact Term.bounded_mono (Nat.le_succ _) p.2 (h p hp)

theorem termOfVar_spec (I : F → List Int → Int) {u : UVal V F} (v : V) (h : u.WF) {ρ : Nat → Int} {s : St V}
    (hm : Mod I ρ u.map s) :
    ∃ ρ', Ext u.next ρ ρ' ∧ Mod I ρ' (u.termOfVar v).2.map s ∧ (u.termOfVar v).1.eval I ρ' = s v := by
  unfold UVal.termOfVar
  split
  · rename_i t ht
    exact ⟨ρ, Ext.refl _ _, hm, (hm _ (look_mem ht)).symm⟩
  · refine ⟨upd ρ u.next (s v), upd_ext _ _ _, ?_, by simp [Term.eval, upd_self]⟩
    intro p hp
    rcases List.mem_cons.1 hp with rfl | hp
    · simp [Term.eval, upd_self]
    · exact mod_ext (upd_ext _ _ _) h hm p hp

mutual
theorem build_wf : (e : Exp V F) → {u : UVal V F} → u.WF →
    (e.build u).2.WF ∧ (e.build u).1.bounded (e.build u).2.next = true ∧ u.next ≤ (e.build u).2.next
  | .var v, u, h => by
    simp only [Exp.build]
    exact ⟨(termOfVar_wf v h).1, (termOfVar_wf v h).2, termOfVar_next u v⟩
  | .const k, u, h => by simp only [Exp.build]; exact ⟨h, by simp [Term.bounded], Nat.le_refl _⟩
  | .app f args, u, h => by
    simp only [Exp.build]
    have := buildL_wf args h
    exact ⟨this.1, by simp only [Term.bounded]; exact this.2.1, this.2.2⟩
theorem buildL_wf : (es : List (Exp V F)) → {u : UVal V F} → u.WF →
    (Exp.buildL es u).2.WF ∧ Term.boundedL (Exp.buildL es u).2.next (Exp.buildL es u).1 = true ∧
      u.next ≤ (Exp.buildL es u).2.next
  | [], u, h => by simp only [Exp.buildL]; exact ⟨h, rfl, Nat.le_refl _⟩
  | e :: es, u, h => by
    simp only [Exp.buildL]
    have h1 := build_wf e h
    have h2 := buildL_wf es h1.1
    refine ⟨h2.1, ?_, Nat.le_trans h1.2.2 h2.2.2⟩
    simp only [Term.boundedL, Bool.and_eq_true]
    exact ⟨Term.bounded_mono h2.2.2 _ h1.2.1, h2.2.1⟩
end

mutual
theorem build_spec (I : F → List Int → Int) : (e : Exp V F) → {u : UVal V F} → u.WF → {ρ : Nat → Int} →
    {s : St V} → Mod I ρ u.map s →
    ∃ ρ', Ext u.next ρ ρ' ∧ Mod I ρ' (e.build u).2.map s ∧ (e.build u).1.eval I ρ' = e.eval I s
  | .var v, u, h, ρ, s, hm => by
    simp only [Exp.build, Exp.eval]; exact termOfVar_spec I v h hm
  | .const k, u, h, ρ, s, hm => by
    simp only [Exp.build, Exp.eval, Term.eval]; exact ⟨ρ, Ext.refl _ _, hm, trivial⟩
  | .app f args, u, h, ρ, s, hm => by
    simp only [Exp.build, Exp.eval, Term.eval]
    obtain ⟨ρ', h1, h2, h3⟩ := buildL_spec I args h hm
    exact ⟨ρ', h1, h2, by rw [h3]⟩
theorem buildL_spec (I : F → List Int → Int) : (es : List (Exp V F)) → {u : UVal V F} → u.WF →
    {ρ : Nat → Int} → {s : St V} → Mod I ρ u.map s →
    ∃ ρ', Ext u.next ρ ρ' ∧ Mod I ρ' (Exp.buildL es u).2.map s ∧
      Term.evalL I ρ' (Exp.buildL es u).1 = Exp.evalL I s es
  | [], u, h, ρ, s, hm => by simp only [Exp.buildL, Exp.evalL, Term.evalL]; exact ⟨ρ, Ext.refl _ _, hm, trivial⟩
  | e :: es, u, h, ρ, s, hm => by
    simp only [Exp.buildL, Exp.evalL, Term.evalL]
    obtain ⟨ρ1, a1, a2, a3⟩ := build_spec I e h hm
    have w1 := build_wf e h
    obtain ⟨ρ2, b1, b2, b3⟩ := buildL_spec I es w1.1 a2
    refine ⟨ρ2, Ext.trans a1 b1 w1.2.2, b2, ?_⟩
    rw [b3, Term.eval_ext I b1 _ w1.2.1, a3]
end

end Uf
end Fct
end Dom
end Crab
