import CrabProofs.Lemmas.WtoStepD

/-! Facts that hold when the node of the top frame is the root of a component
    (`_min == dfn(node)` and all its successors examined). -/
namespace Crab
namespace Wto

section
variable {g : Graph} {K : Nat → Prop} {st0 : St} {part0 : List WtoC} {v : Nat}
  {p : GF} {gs : List GF} {ln : List Nat} {part : List WtoC} {st : St} {W : List WtoC}

theorem Inv.sorted_top (h : Inv g K st0 part0 v (p :: gs) ln part st W) :
    (p.above ++ p.f.node :: stk gs).Pairwise (fun a b => dn st.dfn a > dn st.dfn b) := by
  have := h.sorted
  simpa [stk_cons, GF.seg, List.append_assoc] using this

theorem Inv.mem_stk_top (_h : Inv g K st0 part0 v (p :: gs) ln part st W) {y : Nat}
    (hy : y ∈ stk (p :: gs)) : y ∈ p.above ++ p.f.node :: stk gs := by
  simpa [stk_cons, GF.seg, List.append_assoc] using hy

/-- Tarjan's key fact: no edge leaves the segment of a root except to placed nodes -/
theorem Inv.root_closed (h : Inv g K st0 part0 v (p :: gs) ln part st W) (hs : p.f.succs = [])
    (hroot : p.f.min = dn st.dfn p.f.node) :
    ∀ x ∈ p.seg, ∀ y ∈ g.succ x, DoneNow st0 W y ∨ y ∈ p.seg := by
  have hp := h.top_frame
  have key : ∀ y, y ∈ stk (p :: gs) → p.f.min ≤ dn st.dfn y → y ∈ p.seg := by
    intro y hy hle
    exact sorted_ge_mem h.sorted_top (h.mem_stk_top hy) (by omega)
  intro x hx y hy
  simp only [GF.seg, List.mem_append, List.mem_singleton] at hx
  rcases hx with hx | hx
  · rcases hp.ex_above x hx y hy with hd | ⟨hyS, hle⟩
    · exact Or.inl hd
    · exact Or.inr (key y hyS hle)
  · subst hx
    rw [hp.succ_eq, hs, List.append_nil] at hy
    rcases hp.ex_node y hy with hd | ⟨hyS, hle⟩
    · exact Or.inl hd
    · exact Or.inr (key y hyS hle)

/-- a root that is not in `loop_nodes` is alone in its segment and has no self loop -/
theorem Inv.root_not_loop (h : Inv g K st0 part0 v (p :: gs) ln part st W) (hs : p.f.succs = [])
    (hroot : p.f.min = dn st.dfn p.f.node) (hln : p.f.node ∉ ln) :
    p.above = [] ∧ ∀ y ∈ g.succ p.f.node, DoneNow st0 W y := by
  have hp := h.top_frame
  have habove : p.above = [] := by
    rcases List.eq_nil_or_concat p.above with h0 | ⟨init, x, hx⟩
    · exact h0
    · exfalso
      rw [List.concat_eq_append] at hx
      obtain ⟨z, hz, hzS, h1, h2⟩ := hp.above_wit x (by rw [hx]; simp)
      have hsorted := h.sorted_top
      have hzseg : z ∈ p.above ++ [p.f.node] := sorted_ge_mem hsorted (h.mem_stk_top hzS) (by omega)
      rw [hx] at hzseg hsorted
      simp only [List.mem_append, List.mem_singleton] at hzseg
      rcases hzseg with (hz1 | hz1) | hz1
      · have hs' : (init ++ x :: (p.f.node :: stk gs)).Pairwise (fun a b => dn st.dfn a > dn st.dfn b) := by
          simpa [List.append_assoc] using hsorted
        have := sorted_above_gt hs' hz1
        omega
      · subst hz1; omega
      · subst hz1; exact hln hz
  refine ⟨habove, ?_⟩
  intro y hy
  rcases h.root_closed hs hroot _ (node_mem_seg p) y hy with hd | hyseg
  · exact hd
  · exfalso
    simp only [GF.seg, habove, List.nil_append, List.mem_singleton] at hyseg
    subst hyseg
    rw [hp.succ_eq, hs, List.append_nil] at hy
    rcases hp.self_loop hy with h1 | h1
    · exact hln h1
    · omega
end

end Wto
end Crab
