import CrabModel.Dom.DbmWiden
import CrabProofs.Lemmas.Dbm

/-!
  Facts about the zones widening model (`CrabModel/Dom/DbmWiden.lean`):
  * `widenBy` only drops edges (`widenBy_sat_left`, `edges_widenBy_le`) and every edge it keeps is
    implied by the reading of the right operand (`widenBy_sat_right`);
  * the inclusion test fails iff the widening drops an edge (`leqBy_iff`,
    `edges_widenBy_lt`, `widenBy_eq_self`);
  * the readings of split_dbm / sparse_dbm are implied by the right operand (`splitEw_sound`,
    `sparseEw_sound`);
  * the closures of the matrices of the two-counter example, computed symbolically.
-/
namespace Crab
namespace Dbm

namespace W

theorem le_some_iff {a : W} {k : Int} : le a (some k) = true ↔ ∃ x, a = some x ∧ x ≤ k := by
  rw [le_iff]; exact LE_some

theorem le_none (a : W) : le a none = true := by cases a <;> rfl

end W

namespace Mat

theorem ext_get {N : Nat} {a b : Mat N} (h : ∀ i j, a.get i j = b.get i j) : a = b := by
  cases a with | mk ra => cases b with | mk rb =>
  congr 1
  apply Vector.ext
  intro i hi
  apply Vector.ext
  intro j hj
  exact h ⟨i, hi⟩ ⟨j, hj⟩

end Mat
end Dbm

namespace Zones
open Dbm

/-! ### counting -/

theorem countP_lt_of_imp {α : Type} (p q : α → Bool) (l : List α) (himp : ∀ x, p x = true → q x = true)
    (a : α) (ha : a ∈ l) (hq : q a = true) (hp : p a = false) : l.countP p < l.countP q := by
  induction l with
  | nil => cases ha
  | cons b t ih =>
    have hle : t.countP p ≤ t.countP q := List.countP_mono_left (fun x _ => himp x)
    rcases List.mem_cons.1 ha with rfl | hat
    · rw [List.countP_cons_of_neg (by simp [hp]), List.countP_cons_of_pos hq]
      omega
    · have := ih hat
      rw [List.countP_cons, List.countP_cons]
      cases hpb : p b
      · simp; split <;> omega
      · simp [himp b hpb]; omega

theorem mem_allPairs {N : Nat} (i j : Fin N) : (i, j) ∈ allPairs N := by
  unfold allPairs
  rw [List.mem_flatMap]
  exact ⟨i, List.mem_finRange i, List.mem_map.2 ⟨j, List.mem_finRange j, rfl⟩⟩

variable {n : Nat}

/-! ### `widenBy` -/

@[simp] theorem get_widenBy (ew : Fin (n + 1) → Fin (n + 1) → W) (l : Zone n) (i j : Fin (n + 1)) :
    (widenBy ew l).get i j = if i ≠ j ∧ W.le (ew i j) (l.get i j) = true then l.get i j else none := by
  simp [widenBy]

/-- a kept edge is an edge of the left operand, off the diagonal, covered by the reading -/
theorem widenBy_some {ew : Fin (n + 1) → Fin (n + 1) → W} {l : Zone n} {i j : Fin (n + 1)} {k : Int}
    (h : (widenBy ew l).get i j = some k) :
    i ≠ j ∧ l.get i j = some k ∧ ∃ k', ew i j = some k' ∧ k' ≤ k := by
  rw [get_widenBy] at h
  split at h
  · rename_i hc
    rw [h] at hc
    exact ⟨hc.1, h, W.le_some_iff.1 hc.2⟩
  · cases h

/-- the result contains the left operand (it only drops edges) -/
theorem widenBy_sat_left (ew : Fin (n + 1) → Fin (n + 1) → W) (l : Zone n) (v : Fin (n + 1) → Int)
    (h : l.sat v) : (widenBy ew l).sat v := by
  intro i j k hk
  exact h i j k (widenBy_some hk).2.1

/-- the result contains every valuation that satisfies the reading of the right operand -/
theorem widenBy_sat_right (ew : Fin (n + 1) → Fin (n + 1) → W) (l : Zone n) (v : Fin (n + 1) → Int)
    (h : ∀ i j k, ew i j = some k → v i - v j ≤ k) : (widenBy ew l).sat v := by
  intro i j k hk
  obtain ⟨_, _, k', h1, h2⟩ := widenBy_some hk
  have := h i j k' h1
  omega

theorem widenBy_noSelfLoop (ew : Fin (n + 1) → Fin (n + 1) → W) (l : Zone n) :
    NoSelfLoop (widenBy ew l) := by
  intro i; simp

/-! ### `leqBy` -/

theorem leqBy_iff (ew : Fin (n + 1) → Fin (n + 1) → W) (x : Zone n) :
    leqBy ew x = true ↔ ∀ i j, i ≠ j → W.le (ew i j) (x.get i j) = true := by
  simp only [leqBy, List.all_eq_true, List.mem_finRange, forall_const, Bool.or_eq_true,
    decide_eq_true_eq]
  constructor
  · intro h i j hij
    rcases h i j with h1 | h1
    · exact absurd h1 hij
    · exact h1
  · intro h i j
    by_cases hij : i = j
    · exact Or.inl hij
    · exact Or.inr (h i j hij)

/-- a failing inclusion test exhibits an edge of `x` that the reading does not cover -/
theorem leqBy_false {ew : Fin (n + 1) → Fin (n + 1) → W} {x : Zone n} (h : leqBy ew x = false) :
    ∃ i j k, i ≠ j ∧ x.get i j = some k ∧ W.le (ew i j) (some k) = false := by
  apply Classical.byContradiction
  intro hne
  have : leqBy ew x = true := by
    rw [leqBy_iff]
    intro i j hij
    cases hx : x.get i j with
    | none => exact W.le_none _
    | some k =>
      cases hl : W.le (ew i j) (some k)
      · exact absurd ⟨i, j, k, hij, hx, hl⟩ hne
      · rfl
  rw [this] at h; cases h

/-- the stationarity test is exact: it succeeds iff the widening keeps every edge -/
theorem widenBy_eq_self {ew : Fin (n + 1) → Fin (n + 1) → W} {x : Zone n} (hx : NoSelfLoop x)
    (h : leqBy ew x = true) : widenBy ew x = x := by
  apply Mat.ext_get
  intro i j
  rw [get_widenBy]
  by_cases hij : i = j
  · subst hij; simp [hx i]
  · simp [hij, (leqBy_iff ew x).1 h i j hij]

/-- the inclusion test is sound: when it succeeds, every valuation satisfying the reading
    satisfies `x` -/
theorem leqBy_sat {ew : Fin (n + 1) → Fin (n + 1) → W} {x : Zone n} (hx : NoSelfLoop x)
    (h : leqBy ew x = true) (v : Fin (n + 1) → Int)
    (hv : ∀ i j k, ew i j = some k → v i - v j ≤ k) : x.sat v := by
  intro i j k hk
  by_cases hij : i = j
  · subst hij; rw [hx i] at hk; cases hk
  · have := (leqBy_iff ew x).1 h i j hij
    rw [hk] at this
    obtain ⟨k', h1, h2⟩ := W.le_some_iff.1 this
    have := hv i j k' h1
    omega

/-! ### the number of edges -/

theorem edges_widenBy_le (ew : Fin (n + 1) → Fin (n + 1) → W) (l : Zone n) :
    edges (widenBy ew l) ≤ edges l := by
  unfold edges
  apply List.countP_mono_left
  intro p _ hp
  cases hg : (widenBy ew l).get p.1 p.2 with
  | none => rw [hg] at hp; cases hp
  | some k => rw [(widenBy_some hg).2.1]; rfl

/-- a failing inclusion test makes the widening drop an edge -/
theorem edges_widenBy_lt {ew : Fin (n + 1) → Fin (n + 1) → W} {x : Zone n}
    (h : leqBy ew x = false) : edges (widenBy ew x) < edges x := by
  obtain ⟨i, j, k, hij, hx, hl⟩ := leqBy_false h
  unfold edges
  apply countP_lt_of_imp _ _ _ _ (i, j) (mem_allPairs i j)
  · simp [hx]
  · simp [hx, hl]
  · intro p hp
    cases hg : (widenBy ew x).get p.1 p.2 with
    | none => rw [hg] at hp; cases hp
    | some k => rw [(widenBy_some hg).2.1]; rfl

/-! ### the readings are implied by the right operand -/

theorem close_sat (r : Zone n) (v : Fin (n + 1) → Int) : (close r).sat v ↔ r.sat v := Mat.fw_sat r v

theorem splitW_sound {c : Zone n} {v : Fin (n + 1) → Int} (h : c.sat v) {i j : Fin (n + 1)} {k : Int}
    (hk : splitW c i j = some k) : v i - v j ≤ k := by
  unfold splitW at hk
  split at hk
  · exact h i j k hk
  · rcases W.min_eq_or (c.get i j) (W.add (c.get i 0) (c.get 0 j)) with he | he
    · rw [he] at hk; exact h i j k hk
    · rw [he] at hk
      obtain ⟨a, b, ha, hb, rfl⟩ := W.add_some_iff.1 hk
      have h1 := h i 0 a ha
      have h2 := h 0 j b hb
      omega

theorem splitEw_sound {r : Zone n} {v : Fin (n + 1) → Int} (h : r.sat v) (i j : Fin (n + 1)) (k : Int)
    (hk : splitEw r i j = some k) : v i - v j ≤ k :=
  splitW_sound ((close_sat r v).2 h) hk

theorem sparseEw_sound {r : Zone n} {v : Fin (n + 1) → Int} (h : r.sat v) (i j : Fin (n + 1)) (k : Int)
    (hk : sparseEw r i j = some k) : v i - v j ≤ k :=
  (close_sat r v).2 h i j k hk

/-- a reading is *sound* when the right operand implies it -/
def SoundEw (ew : Zone n → Fin (n + 1) → Fin (n + 1) → W) : Prop :=
  ∀ r v, r.sat v → ∀ i j k, ew r i j = some k → v i - v j ≤ k

theorem splitEw_soundEw : SoundEw (n := n) splitEw := fun _ _ h i j k hk => splitEw_sound h i j k hk
theorem sparseEw_soundEw : SoundEw (n := n) sparseEw := fun _ _ h i j k hk => sparseEw_sound h i j k hk

/-! ### values -/

theorem γv_map_close (x : ZVal n) (σ : State n) : γv (x.map close) σ ↔ γv x σ := by
  cases x with
  | none => exact Iff.rfl
  | some z => exact close_sat z (ext σ)

theorem widenE_upper {ew : Zone n → Fin (n + 1) → Fin (n + 1) → W} (hew : SoundEw ew)
    (x y : ZVal n) (σ : State n) : (γv x σ → γv (widenE ew x y) σ) ∧ (γv y σ → γv (widenE ew x y) σ) := by
  cases x with
  | none => exact ⟨fun h => h.elim, fun h => h⟩
  | some l =>
    cases y with
    | none => exact ⟨fun h => h, fun h => h.elim⟩
    | some r =>
      exact ⟨fun h => widenBy_sat_left _ _ _ h, fun h => widenBy_sat_right _ _ _ (hew r _ h)⟩

theorem zmeas_widenE_lt (ew : Zone n → Fin (n + 1) → Fin (n + 1) → W) (x y : ZVal n)
    (h : leqE ew y x = false) :
    Prod.Lex (· < ·) (· < ·) (zmeas (widenE ew x y)) (zmeas x) := by
  cases x with
  | none =>
    cases y with
    | none => simp [leqE] at h
    | some r => exact Prod.Lex.left _ _ (by decide)
  | some l =>
    cases y with
    | none => simp [leqE] at h
    | some r => exact Prod.Lex.right _ (edges_widenBy_lt h)

/-- an infinite chain of strict steps refutes well-foundedness -/
theorem not_wf_of_chain {A : Type} (r : A → A → Prop) (f : Nat → A) (h : ∀ k, r (f (k + 1)) (f k)) :
    ¬ WellFounded r := by
  intro wf
  have : ∀ a, Acc r a → ∀ k, f k ≠ a := by
    intro a ha
    induction ha with
    | intro a _ ih =>
      intro k hk
      exact ih (f (k + 1)) (hk ▸ h k) (k + 1) rfl
  exact this (f 0) (wf.apply _) 0 rfl


/-- position of the first covered value along `xₖ₊₁ = xₖ ∇ yₖ` when the measure decreases on the
    strict steps from values satisfying an invariant `P` of the widening -/
theorem chain_first_stationary_on {A B : Type} (P : A → Prop) (leq : B → A → Bool) (widen : A → B → A)
    (μ : A → Nat) (hP : ∀ x y, P x → P (widen x y))
    (hdec : ∀ x y, P x → leq y x = false → μ (widen x y) < μ x)
    (xs : Nat → A) (ys : Nat → B) (h0 : P (xs 0)) (hstep : ∀ k, xs (k + 1) = widen (xs k) (ys k)) :
    ∃ k, k ≤ μ (xs 0) ∧ leq (ys k) (xs k) = true := by
  have hPk : ∀ k, P (xs k) := by
    intro k
    induction k with
    | zero => exact h0
    | succ k ih => rw [hstep]; exact hP _ _ ih
  suffices h : ∀ b m, μ (xs m) ≤ b → ∃ k, m ≤ k ∧ k ≤ m + μ (xs m) ∧ leq (ys k) (xs k) = true by
    obtain ⟨k, _, h2, h3⟩ := h (μ (xs 0)) 0 (Nat.le_refl _)
    exact ⟨k, by omega, h3⟩
  intro b
  induction b with
  | zero =>
    intro m hm
    cases hl : leq (ys m) (xs m)
    · have := hdec (xs m) (ys m) (hPk m) hl
      omega
    · exact ⟨m, Nat.le_refl _, by omega, hl⟩
  | succ b ih =>
    intro m hm
    cases hl : leq (ys m) (xs m)
    · have hlt := hdec (xs m) (ys m) (hPk m) hl
      rw [← hstep m] at hlt
      obtain ⟨k, h1, h2, h3⟩ := ih (m + 1) (by omega)
      exact ⟨k, by omega, by omega, h3⟩
    · exact ⟨m, Nat.le_refl _, by omega, hl⟩

theorem sum_map_const {α : Type} (l : List α) (c : Nat) : (l.map fun _ => c).sum = l.length * c := by
  induction l with
  | nil => simp
  | cons a t ih => simp [ih, Nat.succ_mul, Nat.add_comm]

theorem length_allPairs (N : Nat) : (allPairs N).length = N * N := by
  simp [allPairs, List.length_flatMap, sum_map_const]

theorem edges_le {N : Nat} (m : Mat N) : edges m ≤ N * N := by
  unfold edges
  rw [← length_allPairs]
  exact List.countP_le_length

/-! ### the two-counter example -/
namespace TwoCounter

theorem fin3_cases {P : Fin 3 → Prop} (h0 : P 0) (h1 : P 1) (h2 : P 2) : ∀ i, P i := by
  intro i
  match i with
  | 0 => exact h0
  | 1 => exact h1
  | 2 => exact h2

theorem ext3 {a b : Mat 3}
    (h00 : a.get 0 0 = b.get 0 0) (h01 : a.get 0 1 = b.get 0 1) (h02 : a.get 0 2 = b.get 0 2)
    (h10 : a.get 1 0 = b.get 1 0) (h11 : a.get 1 1 = b.get 1 1) (h12 : a.get 1 2 = b.get 1 2)
    (h20 : a.get 2 0 = b.get 2 0) (h21 : a.get 2 1 = b.get 2 1) (h22 : a.get 2 2 = b.get 2 2) :
    a = b := by
  apply Mat.ext_get
  apply fin3_cases <;> apply fin3_cases <;> assumption

/-- the closure of `{0 ≤ y ≤ x ≤ y+1, x ≤ a, y ≤ b}` when `1 ≤ a`, `b ≤ a ≤ b+1` -/
def closedF (a b : Int) : Zone 2 :=
  m3 (some 0) (some 0) (some 0)
     (some a) (some 0) (some 1)
     (some b) (some 0) (some 0)

/-- closed relational part + `x ≤ a`, as a widening leaves it (no diagonal) -/
def formX (a : Int) : Zone 2 :=
  m3 none (some 0) (some 0)
     (some a) none (some 1)
     none (some 0) none

/-- closed relational part + `y ≤ b` -/
def formY (b : Int) : Zone 2 :=
  m3 none (some 0) (some 0)
     none none (some 1)
     (some b) (some 0) none

/-- `{0 ≤ y ≤ x ≤ y+1, y ≤ b}`, nothing derived -/
def rawY (b : Int) : Zone 2 :=
  m3 none none (some 0)
     none none (some 1)
     (some b) (some 0) none

/-- `{0 ≤ y ≤ x ≤ y+1}`, nothing derived -/
def rel : Zone 2 :=
  m3 none none (some 0)
     none none (some 1)
     none (some 0) none

theorem finRange3 : List.finRange 3 = [0, 1, 2] := by decide

set_option maxRecDepth 4000 in
theorem close_raw (a b : Int) (h1 : 1 ≤ a) (h2 : b ≤ a) (h3 : a ≤ b + 1) :
    close (raw a b) = closedF a b := by
  unfold close Mat.fw
  rw [finRange3]
  simp only [List.foldl]
  apply ext3 <;> simp [Mat.fwStep, Mat.diag0, raw, closedF, m3, W.min, W.add] <;>
    (repeat' split) <;> omega

set_option maxRecDepth 4000 in
theorem close_formX (a : Int) (h1 : 1 ≤ a) : close (formX a) = closedF a a := by
  unfold close Mat.fw
  rw [finRange3]
  simp only [List.foldl]
  apply ext3 <;> simp [Mat.fwStep, Mat.diag0, formX, closedF, m3, W.min, W.add] <;>
    (repeat' split) <;> omega

set_option maxRecDepth 4000 in
theorem close_formY (b : Int) (h1 : 0 ≤ b) : close (formY b) = closedF (b + 1) b := by
  unfold close Mat.fw
  rw [finRange3]
  simp only [List.foldl]
  apply ext3 <;> simp [Mat.fwStep, Mat.diag0, formY, closedF, m3, W.min, W.add] <;>
    (repeat' split) <;> omega

/-- the reading of the right operands of the example is the closed matrix (off the diagonal):
    true of both `splitEw` and `sparseEw` -/
def ReadsClosed (ew : Zone 2 → Fin 3 → Fin 3 → W) : Prop :=
  ∀ a b : Int, 1 ≤ a → b ≤ a → a ≤ b + 1 → ∀ i j, i ≠ j → ew (raw a b) i j = (closedF a b).get i j

theorem sparseEw_readsClosed : ReadsClosed sparseEw := by
  intro a b h1 h2 h3 i j _
  unfold sparseEw
  rw [close_raw a b h1 h2 h3]

theorem splitEw_readsClosed : ReadsClosed splitEw := by
  intro a b h1 h2 h3
  unfold splitEw
  rw [close_raw a b h1 h2 h3]
  apply fin3_cases <;> apply fin3_cases <;> intro hij <;>
    simp [splitW, closedF, m3, W.min, W.add] at hij ⊢ <;> omega

/-- closed left operand, the bound of `x` grew: `x ≤ A` is dropped, `y ≤ B` is kept -/
theorem widenBy_closedF_dropX {e : Fin 3 → Fin 3 → W} {a b A B : Int}
    (he : ∀ i j, i ≠ j → e i j = (closedF a b).get i j) (h1 : A < a) (h2 : b ≤ B) :
    widenBy e (closedF A B) = formY B := by
  apply ext3 <;> rw [get_widenBy] <;> (try rw [he _ _ (by decide)]) <;>
    simp [closedF, formY, m3, W.le] <;> omega

/-- closed left operand, the bound of `y` grew: `y ≤ B` is dropped, `x ≤ A` is kept -/
theorem widenBy_closedF_dropY {e : Fin 3 → Fin 3 → W} {a b A B : Int}
    (he : ∀ i j, i ≠ j → e i j = (closedF a b).get i j) (h1 : a ≤ A) (h2 : B < b) :
    widenBy e (closedF A B) = formX A := by
  apply ext3 <;> rw [get_widenBy] <;> (try rw [he _ _ (by decide)]) <;>
    simp [closedF, formX, m3, W.le] <;> omega

/-- left operand as it is, the bound of `x` grew: only `x ≤ A` is dropped -/
theorem widenBy_raw_dropX {e : Fin 3 → Fin 3 → W} {a b A B : Int}
    (he : ∀ i j, i ≠ j → e i j = (closedF a b).get i j) (h1 : A < a) (h2 : b ≤ B) :
    widenBy e (raw A B) = rawY B := by
  apply ext3 <;> rw [get_widenBy] <;> (try rw [he _ _ (by decide)]) <;>
    simp [closedF, raw, rawY, m3, W.le] <;> omega

/-- left operand as it is, the bound of `y` grew: `y ≤ B` is dropped and nothing is left to grow -/
theorem widenBy_rawY_dropY {e : Fin 3 → Fin 3 → W} {a b B : Int}
    (he : ∀ i j, i ≠ j → e i j = (closedF a b).get i j) (h2 : B < b) :
    widenBy e (rawY B) = rel := by
  apply ext3 <;> rw [get_widenBy] <;> (try rw [he _ _ (by decide)]) <;>
    simp [closedF, rel, rawY, m3, W.le] <;> omega

/-- the relational part covers every further value -/
theorem leqBy_rel {e : Fin 3 → Fin 3 → W} {a b : Int}
    (he : ∀ i j, i ≠ j → e i j = (closedF a b).get i j) : leqBy e rel = true := by
  rw [leqBy_iff]
  apply fin3_cases <;> apply fin3_cases <;> intro hij <;> (try rw [he _ _ hij]) <;>
    simp [closedF, rel, m3, W.le] at hij ⊢

theorem fin3_forall {P : Fin 3 → Prop} : (∀ i, P i) ↔ P 0 ∧ P 1 ∧ P 2 :=
  ⟨fun h => ⟨h 0, h 1, h 2⟩, fun h => fin3_cases h.1 h.2.1 h.2.2⟩

/-- `d ≤ w` for a weight -/
def wle (d : Int) (w : W) : Prop := ∀ k, w = some k → d ≤ k

@[simp] theorem wle_none (d : Int) : wle d none ↔ True := by simp [wle]
@[simp] theorem wle_some (d k : Int) : wle d (some k) ↔ d ≤ k := by simp [wle]

theorem sat_m3 (a00 a01 a02 a10 a11 a12 a20 a21 a22 : W) (v : Fin 3 → Int) :
    (m3 a00 a01 a02 a10 a11 a12 a20 a21 a22).sat v ↔
      wle (v 0 - v 0) a00 ∧ wle (v 0 - v 1) a01 ∧ wle (v 0 - v 2) a02 ∧
      wle (v 1 - v 0) a10 ∧ wle (v 1 - v 1) a11 ∧ wle (v 1 - v 2) a12 ∧
      wle (v 2 - v 0) a20 ∧ wle (v 2 - v 1) a21 ∧ wle (v 2 - v 2) a22 := by
  unfold Mat.sat
  rw [fin3_forall]
  simp only [fin3_forall (P := fun j => ∀ k, Mat.get _ _ j = some k → _)]
  simp [m3, wle, and_assoc]

theorem ext_st (p q : Int) : ext (st p q) 0 = 0 ∧ ext (st p q) 1 = p ∧ ext (st p q) 2 = q :=
  ⟨rfl, rfl, rfl⟩

/-- membership of the state `x = p, y = q` -/
theorem γ_m3_st (a00 a01 a02 a10 a11 a12 a20 a21 a22 : W) (p q : Int) :
    γ (m3 a00 a01 a02 a10 a11 a12 a20 a21 a22) (st p q) ↔
      wle 0 a00 ∧ wle (0 - p) a01 ∧ wle (0 - q) a02 ∧
      wle (p - 0) a10 ∧ wle 0 a11 ∧ wle (p - q) a12 ∧
      wle (q - 0) a20 ∧ wle (q - p) a21 ∧ wle 0 a22 := by
  unfold γ
  rw [sat_m3, (ext_st p q).1, (ext_st p q).2.1, (ext_st p q).2.2]
  simp

theorem noSelfLoop_rel : NoSelfLoop rel := by
  apply fin3_cases <;> simp [rel, m3]

/-! #### the two chains in closed form -/

variable {ew : Zone 2 → Fin 3 → Fin 3 → W}

theorem ys_even (m : Nat) : ys (2 * m) = some (raw ((m : Int) + 2) ((m : Int) + 1)) := by
  unfold ys
  have e1 : (((2 * m / 2 : Nat) : Int) + 2) = (m : Int) + 2 := by omega
  have e2 : ((((2 * m + 1) / 2 : Nat) : Int) + 1) = (m : Int) + 1 := by omega
  rw [e1, e2]

theorem ys_odd (m : Nat) : ys (2 * m + 1) = some (raw ((m : Int) + 2) ((m : Int) + 2)) := by
  unfold ys
  have e1 : ((((2 * m + 1) / 2 : Nat) : Int) + 2) = (m : Int) + 2 := by omega
  have e2 : ((((2 * m + 1 + 1) / 2 : Nat) : Int) + 1) = (m : Int) + 2 := by omega
  rw [e1, e2]

theorem bad_step_even (hr : ReadsClosed ew) (m : Nat) (z : Zone 2)
    (hz : badChain ew (2 * m) = some z) (hc : close z = closedF ((m : Int) + 1) ((m : Int) + 1)) :
    badChain ew (2 * m + 1) = some (formY ((m : Int) + 1)) := by
  show widenClosedLeft ew (badChain ew (2 * m)) (ys (2 * m)) = _
  rw [hz, ys_even]
  show some (widenBy (ew (raw ((m : Int) + 2) ((m : Int) + 1))) (close z)) = _
  rw [hc]
  congr 1
  exact widenBy_closedF_dropX (hr _ _ (by omega) (by omega) (by omega)) (by omega) (by omega)

theorem bad_step_odd (hr : ReadsClosed ew) (m : Nat)
    (h : badChain ew (2 * m + 1) = some (formY ((m : Int) + 1))) :
    badChain ew (2 * m + 2) = some (formX ((m : Int) + 2)) := by
  show widenClosedLeft ew (badChain ew (2 * m + 1)) (ys (2 * m + 1)) = _
  rw [h, ys_odd]
  show some (widenBy (ew (raw ((m : Int) + 2) ((m : Int) + 2))) (close (formY ((m : Int) + 1)))) = _
  rw [close_formY _ (by omega)]
  have e : (m : Int) + 1 + 1 = (m : Int) + 2 := by omega
  rw [e]
  congr 1
  exact widenBy_closedF_dropY (hr _ _ (by omega) (by omega) (by omega)) (by omega) (by omega)

/-- the values of the defective chain in closed form -/
theorem bad_forms (hr : ReadsClosed ew) (m : Nat) :
    badChain ew (2 * m + 1) = some (formY ((m : Int) + 1)) ∧
    badChain ew (2 * m + 2) = some (formX ((m : Int) + 2)) := by
  induction m with
  | zero =>
    have h1 : badChain ew (2 * 0 + 1) = some (formY (((0 : Nat) : Int) + 1)) :=
      bad_step_even hr 0 (raw 1 1) rfl (by
        have := close_raw 1 1 (by omega) (by omega) (by omega)
        simpa using this)
    exact ⟨h1, bad_step_odd hr 0 h1⟩
  | succ m ih =>
    have e : (((m + 1 : Nat) : Int) + 1) = (m : Int) + 2 := by omega
    have h1 : badChain ew (2 * (m + 1) + 1) = some (formY (((m + 1 : Nat) : Int) + 1)) :=
      bad_step_even hr (m + 1) (formX ((m : Int) + 2)) ih.2 (by
        rw [e]; exact close_formX _ (by omega))
    exact ⟨h1, bad_step_odd hr (m + 1) h1⟩

/-- the defective widening is still an upper bound of its left operand -/
theorem bad_incl (hew : SoundEw ew) (k : Nat) (σ : State 2) (h : γv (badChain ew k) σ) :
    γv (badChain ew (k + 1)) σ := by
  show γv (widenE ew ((badChain ew k).map close) (ys k)) σ
  exact (widenE_upper hew _ _ σ).1 ((γv_map_close _ σ).2 h)

/-- each step adds a state, and its right operand is not covered by the left one -/
theorem bad_strict (hr : ReadsClosed ew) (k : Nat) :
    (∃ σ, γv (badChain ew (k + 1)) σ ∧ ¬ γv (badChain ew k) σ) ∧
    leqE ew (ys k) (badChain ew k) = false := by
  obtain ⟨m, rfl | rfl⟩ : ∃ m, k = 2 * m ∨ k = 2 * m + 1 := ⟨k / 2, by omega⟩
  · cases m with
    | zero =>
      have h1 := (bad_forms hr 0).1
      have h0 : badChain ew (2 * 0) = some (raw 1 1) := rfl
      refine ⟨⟨st 2 1, ?_, ?_⟩, ?_⟩
      · rw [h1]; simp [γv, formY, γ_m3_st]
      · rw [h0]; simp [γv, raw, γ_m3_st]
      · rw [h0, ys_even]
        cases hq : leqE ew (some (raw (((0 : Nat) : Int) + 2) (((0 : Nat) : Int) + 1))) (some (raw 1 1))
        · rfl
        · have := (leqBy_iff _ _).1 hq 1 0 (by decide)
          rw [hr _ _ (by omega) (by omega) (by omega) 1 0 (by decide)] at this
          simp [closedF, raw, m3, W.le] at this
    | succ m =>
      have h2 : badChain ew (2 * (m + 1)) = some (formX ((m : Int) + 2)) := (bad_forms hr m).2
      have h3 := (bad_forms hr (m + 1)).1
      refine ⟨⟨st ((m : Int) + 3) ((m : Int) + 2), ?_, ?_⟩, ?_⟩
      · rw [h3]; simp [γv, formY, γ_m3_st] <;> omega
      · rw [h2]; simp [γv, formX, γ_m3_st] <;> omega
      · rw [h2, ys_even]
        cases hq : leqE ew (some (raw (((m + 1 : Nat) : Int) + 2) (((m + 1 : Nat) : Int) + 1)))
            (some (formX ((m : Int) + 2)))
        · rfl
        · have := (leqBy_iff _ _).1 hq 1 0 (by decide)
          rw [hr _ _ (by omega) (by omega) (by omega) 1 0 (by decide)] at this
          simp [closedF, formX, m3, W.le] at this <;> omega
  · have h1 := (bad_forms hr m).1
    have h2 : badChain ew (2 * m + 1 + 1) = some (formX ((m : Int) + 2)) := (bad_forms hr m).2
    refine ⟨⟨st ((m : Int) + 2) ((m : Int) + 2), ?_, ?_⟩, ?_⟩
    · rw [h2]; simp [γv, formX, γ_m3_st] <;> omega
    · rw [h1]; simp [γv, formY, γ_m3_st]
    · rw [h1, ys_odd]
      cases hq : leqE ew (some (raw ((m : Int) + 2) ((m : Int) + 2))) (some (formY ((m : Int) + 1)))
      · rfl
      · have := (leqBy_iff _ _).1 hq 2 0 (by decide)
        rw [hr _ _ (by omega) (by omega) (by omega) 2 0 (by decide)] at this
        simp [closedF, formY, m3, W.le] at this <;> omega

/-- the chain of the code on the same inputs -/
theorem good_forms (hr : ReadsClosed ew) (k : Nat) (hk : 2 ≤ k) :
    goodChain ew k = some rel ∧ leqE ew (ys k) (goodChain ew k) = true := by
  have hrk : ∀ k : Nat, ∀ i j, i ≠ j →
      ew (raw (((k / 2 : Nat) : Int) + 2) ((((k + 1) / 2 : Nat) : Int) + 1)) i j =
        (closedF (((k / 2 : Nat) : Int) + 2) ((((k + 1) / 2 : Nat) : Int) + 1)).get i j :=
    fun k => hr _ _ (by omega) (by omega) (by omega)
  have h1 : goodChain ew 1 = some (rawY 1) := by
    show some (widenBy (ew (raw (((0 / 2 : Nat) : Int) + 2) ((((0 + 1) / 2 : Nat) : Int) + 1))) (raw 1 1)) = _
    congr 1
    exact widenBy_raw_dropX (hrk 0) (by omega) (by omega)
  have h2 : goodChain ew 2 = some rel := by
    show widenE ew (goodChain ew 1) (ys 1) = _
    rw [h1]
    show some (widenBy (ew (raw (((1 / 2 : Nat) : Int) + 2) ((((1 + 1) / 2 : Nat) : Int) + 1))) (rawY 1)) = _
    congr 1
    exact widenBy_rawY_dropY (hrk 1) (by omega)
  have hall : ∀ j, goodChain ew (2 + j) = some rel := by
    intro j
    induction j with
    | zero => exact h2
    | succ j ih =>
      show widenE ew (goodChain ew (2 + j)) (ys (2 + j)) = _
      rw [ih]
      show some (widenBy (ew _) rel) = _
      rw [widenBy_eq_self noSelfLoop_rel (leqBy_rel (hrk (2 + j)))]
  obtain ⟨j, rfl⟩ : ∃ j, k = 2 + j := ⟨k - 2, by omega⟩
  rw [hall j]
  exact ⟨rfl, leqBy_rel (hrk (2 + j))⟩


end TwoCounter

end Zones
end Crab
