import CrabProofs.Lemmas.DbmIncrExact

/-!
  `GraphOps::close_after_assign_fwd`: when the graph without `v` is closed, the two-hop search
  computes, for EVERY expansion order, values `D x` with

  * `cafFwd_low`: `D x` is the weight of a path `v → x` or `v → d → x`;
  * `cafFwd_up1`, `cafFwd_up2`: `D x ≤ (v → x)` and `D x ≤ (v → d) + (d → x)` for every `d`.
-/
namespace Crab
namespace DbmIncr
open Dbm Zones

variable {n : Nat}

/-! ### `apply_delta` -/

theorem edge_applyDelta (δ : List (Fin (n + 1) × Fin (n + 1) × Int)) (g : Zone n)
    (a b : Fin (n + 1)) (k : Int)
    (hk : ∀ e ∈ δ, e.1 = a → e.2.1 = b → e.2.2 = k) :
    edge (applyDelta g δ) a b =
      if (∃ e ∈ δ, e.1 = a ∧ e.2.1 = b) then some k else edge g a b := by
  induction δ generalizing g with
  | nil => simp [applyDelta]
  | cons e δ ih =>
    have ih' := ih (setEdge g e.1 e.2.2 e.2.1) (fun e' he' => hk e' (List.mem_cons_of_mem _ he'))
    simp only [applyDelta, List.foldl_cons] at ih' ⊢
    rw [ih']
    by_cases hm : e.1 = a ∧ e.2.1 = b
    · have h1 : ∃ e' ∈ e :: δ, e'.1 = a ∧ e'.2.1 = b := ⟨e, List.mem_cons_self .., hm⟩
      have hw : e.2.2 = k := hk e (List.mem_cons_self ..) hm.1 hm.2
      simp only [h1, if_true]
      split
      · rfl
      · rw [edge_setEdge]; simp [hm, hw]
    · have hiff : (∃ e' ∈ e :: δ, e'.1 = a ∧ e'.2.1 = b) ↔ (∃ e' ∈ δ, e'.1 = a ∧ e'.2.1 = b) := by
        constructor
        · rintro ⟨e', he', h'⟩
          rcases List.mem_cons.1 he' with rfl | he'
          · exact absurd h' hm
          · exact ⟨e', he', h'⟩
        · rintro ⟨e', he', h'⟩; exact ⟨e', List.mem_cons_of_mem _ he', h'⟩
      simp only [hiff]
      split
      · rfl
      · rw [edge_setEdge]
        have : ¬ (a = e.1 ∧ b = e.2.1) := fun h => hm ⟨h.1.symm, h.2.symm⟩
        simp [this]

/-! ### the forward search -/

section
variable (succ : Fin (n + 1) → Fin (n + 1) → W) (v : Fin (n + 1))

/-- `k` is at least the weight of a path `v → x` or `v → d → x` -/
def Low (x : Fin (n + 1)) (k : Int) : Prop :=
  (∃ a, succ v x = some a ∧ a ≤ k) ∨
    ∃ d a b, d ≠ v ∧ succ v d = some a ∧ succ d x = some b ∧ a + b ≤ k

/-- hypotheses: the graph without `v` is closed, has no negative 2-cycle, no self loop -/
structure ClosedWithout : Prop where
  tri : ∀ a k b, a ≠ v → k ≠ v → b ≠ v → a ≠ b → W.LE (succ a b) (W.add (succ a k) (succ k b))
  cyc : ∀ a b x y, a ≠ v → b ≠ v → succ a b = some x → succ b a = some y → 0 ≤ x + y
  noLoop : ∀ a, succ a a = none

/-- invariant of the marks / distances -/
structure CafInv (ds : Fin (n + 1) → W) : Prop where
  low : ∀ x k, x ≠ v → ds x = some k → Low succ v x k
  up1 : ∀ x, x ≠ v → W.LE (ds x) (succ v x)

def LeF (ds' ds : Fin (n + 1) → W) : Prop := ∀ x, W.LE (ds' x) (ds x)
end

variable {succ : Fin (n + 1) → Fin (n + 1) → W} {v : Fin (n + 1)}

theorem LeF.refl (ds : Fin (n + 1) → W) : LeF ds ds := fun _ => W.LE_refl _
theorem LeF.trans (a b c : Fin (n + 1) → W) (h1 : LeF a b) (h2 : LeF b c) : LeF a c :=
  fun x => W.LE_trans (h1 x) (h2 x)

theorem cafInner_eq (d : Fin (n + 1)) (dwt : Int) (ds : Fin (n + 1) → W) (e u : Fin (n + 1)) :
    cafInner succ d dwt ds e u =
      if u = e then W.min (ds e) (W.add (some dwt) (succ d e)) else ds u := by
  unfold cafInner
  rcases hs : succ d e with _ | ev
  · simp only [W.add_none_right, W.min_none_right]
    split
    · rename_i h; rw [h]
    · rfl
  · simp only
    rcases hd : ds e with _ | old
    · simp
    · simp only [W.add_some_some, W.min_some_some]
      by_cases hu : u = e
      · simp only [hu, if_true]; congr 1; omega
      · simp [hu]

theorem cafInner_step (hc : ClosedWithout succ v) {d : Fin (n + 1)} {dwt : Int} (hd : d ≠ v)
    (hlow : Low succ v d dwt) (ds : Fin (n + 1) → W) (e : Fin (n + 1)) (h : CafInv succ v ds) :
    CafInv succ v (cafInner succ d dwt ds e) ∧ LeF (cafInner succ d dwt ds e) ds ∧
      W.LE (cafInner succ d dwt ds e e) (W.add (some dwt) (succ d e)) := by
  have hle : LeF (cafInner succ d dwt ds e) ds := by
    intro x; rw [cafInner_eq]
    split
    · rename_i hx; rw [hx]; exact W.min_LE_left _ _
    · exact W.LE_refl _
  refine ⟨⟨?_, fun x hx => W.LE_trans (hle x) (h.up1 x hx)⟩, hle, ?_⟩
  · intro x k hx hk
    rw [cafInner_eq] at hk
    by_cases hxe : x = e
    · subst hxe
      simp only [if_true] at hk
      rcases W.min_eq_or (ds x) (W.add (some dwt) (succ d x)) with he | he
      · rw [he] at hk; exact h.low x k hx hk
      · rw [he] at hk
        rcases hev : succ d x with _ | ev
        · rw [hev] at hk; simp at hk
        rw [hev] at hk; simp at hk; subst hk
        rcases hlow with ⟨a, ha, hak⟩ | ⟨d', a, b, hd', ha, hb, hab⟩
        · exact Or.inr ⟨d, a, ev, hd, ha, hev, by omega⟩
        · by_cases hdx : d' = x
          · subst hdx
            have := hc.cyc d' d b ev hd' hd hb hev
            exact Or.inl ⟨a, ha, by omega⟩
          · have t := hc.tri d' d x hd' hd hx hdx
            rw [hb, hev] at t
            rcases hz : succ d' x with _ | z
            · rw [hz] at t; simp at t
            · rw [hz] at t; simp at t
              exact Or.inr ⟨d', a, z, hd', ha, hz, by omega⟩
    · simp only [hxe, if_false] at hk
      exact h.low x k hx hk
  · rw [cafInner_eq]; simp only [if_true]; exact W.min_LE_right _ _

theorem cafOuter_step (hc : ClosedWithout succ v) (vs : List (Fin (n + 1))) (hvs : ∀ x, x ∈ vs)
    (ds : Fin (n + 1) → W) (d : Fin (n + 1)) (hd : d ≠ v) (h : CafInv succ v ds) :
    CafInv succ v (cafOuter succ vs v ds d) ∧ LeF (cafOuter succ vs v ds d) ds ∧
      ∀ e, W.LE (cafOuter succ vs v ds d e) (W.add (succ v d) (succ d e)) := by
  unfold cafOuter
  rcases hsd : succ v d with _ | a
  · exact ⟨h, LeF.refl _, fun e => by simp⟩
  simp only
  rcases hdd : ds d with _ | dwt
  · have := h.up1 d hd; rw [hdd, hsd] at this; simp at this
  simp only
  have hlow := h.low d dwt hd hdd
  have hup : dwt ≤ a := by have := h.up1 d hd; rw [hdd, hsd] at this; simpa using this
  obtain ⟨i1, l1, p1⟩ := foldl_post (cafInner succ d dwt) (CafInv succ v) LeF
    (fun e ds' => W.LE (ds' e) (W.add (some dwt) (succ d e))) LeF.refl LeF.trans
    (fun s e hs => cafInner_step hc hd hlow s e hs)
    (fun e s s' hp hle => W.LE_trans (hle e) hp) vs ds h
  refine ⟨i1, l1, fun e => ?_⟩
  refine W.LE_trans (p1 e (hvs e)) ?_
  rcases succ d e with _ | ev
  · simp
  · simp; omega

/-- specification of `close_after_assign_fwd` -/
theorem cafFwd_spec (hc : ClosedWithout succ v) (adj vs : List (Fin (n + 1)))
    (hadj : ∀ x, x ∈ adj) (hvs : ∀ x, x ∈ vs) :
    let D := cafFwd succ adj vs v
    (∀ x k, x ≠ v → D x = some k → Low succ v x k) ∧
    (∀ x, x ≠ v → W.LE (D x) (succ v x)) ∧
    (∀ d e, d ≠ v → W.LE (D e) (W.add (succ v d) (succ d e))) := by
  intro D
  have i0 : CafInv succ v (fun u => if u = v then some 0 else succ v u) := by
    constructor
    · intro x k hx hk
      simp only [hx, if_false] at hk
      exact Or.inl ⟨k, hk, Int.le_refl _⟩
    · intro x hx
      simp only [hx, if_false]; exact W.LE_refl _
  -- vertices equal to `v` in `adj` are skipped by `cafOuter` (no self loop)
  have hstep : ∀ s d, CafInv succ v s →
      CafInv succ v (cafOuter succ vs v s d) ∧ LeF (cafOuter succ vs v s d) s ∧
        (d ≠ v → ∀ e, W.LE (cafOuter succ vs v s d e) (W.add (succ v d) (succ d e))) := by
    intro s d hs
    by_cases hd : d = v
    · subst hd
      have : cafOuter succ vs d s d = s := by
        unfold cafOuter; rw [hc.noLoop d]
      rw [this]
      exact ⟨hs, LeF.refl _, fun h => absurd rfl h⟩
    · obtain ⟨a, b, c⟩ := cafOuter_step hc vs hvs s d hd hs
      exact ⟨a, b, fun _ => c⟩
  obtain ⟨i1, _, p1⟩ := foldl_post (cafOuter succ vs v) (CafInv succ v) LeF
    (fun d ds' => d ≠ v → ∀ e, W.LE (ds' e) (W.add (succ v d) (succ d e))) LeF.refl LeF.trans
    hstep (fun d s s' hp hle hd e => W.LE_trans (hle e) (hp hd e)) adj _ i0
  exact ⟨i1.low, i1.up1, fun d e hd => p1 d (hadj d) hd e⟩

end DbmIncr
end Crab
