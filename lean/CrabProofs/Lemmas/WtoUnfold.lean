import CrabModel.Graph.Wto

/-! One-step unfolding equations of `visitLoop` / `component` (one per branch of the C++ code). -/
namespace Crab
namespace Wto

variable (g : Graph) (f : Nat) (fr : Frame) (vs : List Frame) (ln : List Nat) (part : List WtoC) (st : St)

theorem visitLoop_nil : visitLoop g (f + 1) [] ln part st = .done (part, st) := by
  rw [visitLoop]

theorem visitLoop_inf {child : Nat} {rest : List Nat} (hs : fr.succs = child :: rest)
    (hd : getDfn st.dfn child = .inf) :
    visitLoop g (f + 1) (fr :: vs) ln part st =
      visitLoop g f ({ fr with succs := rest } :: vs) ln part st := by
  rw [visitLoop]; simp only [hs, hd]

theorem visitLoop_discover {child : Nat} {rest : List Nat} (hs : fr.succs = child :: rest)
    (hd : getDfn st.dfn child = .fin 0) :
    visitLoop g (f + 1) (fr :: vs) ln part st =
      visitLoop g f ({ node := child, succs := g.succ child, min := st.num + 1 } ::
        { fr with succs := rest } :: vs) ln part (discover st child) := by
  rw [visitLoop]; simp only [hs, hd, if_true]; rfl

theorem visitLoop_lower {child : Nat} {rest : List Nat} {k : Nat} (hs : fr.succs = child :: rest)
    (hd : getDfn st.dfn child = .fin k) (hk0 : k ≠ 0) (hk : k ≤ fr.min) :
    visitLoop g (f + 1) (fr :: vs) ln part st =
      visitLoop g f ({ fr with succs := rest, min := k } :: vs) (child :: ln) part st := by
  rw [visitLoop]; simp only [hs, hd, hk0, hk, if_true, if_false]

theorem visitLoop_skip {child : Nat} {rest : List Nat} {k : Nat} (hs : fr.succs = child :: rest)
    (hd : getDfn st.dfn child = .fin k) (hk0 : k ≠ 0) (hk : ¬ k ≤ fr.min) :
    visitLoop g (f + 1) (fr :: vs) ln part st =
      visitLoop g f ({ fr with succs := rest } :: vs) ln part st := by
  rw [visitLoop]; simp only [hs, hd, hk0, hk, if_false]

theorem visitLoop_nonroot (hs : fr.succs = []) (hr : ¬ getDfn st.dfn fr.node = .fin fr.min) :
    visitLoop g (f + 1) (fr :: vs) ln part st = visitLoop g f (propagate vs fr.min) ln part st := by
  rw [visitLoop]; simp only [hs, hr, if_false]

theorem visitLoop_vertex {el : Nat} {stack1 : List Nat} (hs : fr.succs = [])
    (hr : getDfn st.dfn fr.node = .fin fr.min) (hst : st.stack = el :: stack1)
    (hl : ln.contains fr.node = false) :
    visitLoop g (f + 1) (fr :: vs) ln part st =
      visitLoop g f (propagate vs fr.min) ln (.vertex fr.node :: part)
        { st with dfn := setDfn st.dfn fr.node .inf, stack := stack1 } := by
  rw [visitLoop]; simp only [hs, hr, hst, hl, if_true]; simp

theorem visitLoop_cycle {el : Nat} {stack1 stack2 : List Nat} {dfn2 : Array Dfn} {body : List WtoC}
    {st3 : St} (hs : fr.succs = [])
    (hr : getDfn st.dfn fr.node = .fin fr.min) (hst : st.stack = el :: stack1)
    (hl : ln.contains fr.node = true)
    (hp : popLoop fr.node el stack1 (setDfn st.dfn fr.node .inf) = some (stack2, dfn2))
    (hc : component g f (g.succ fr.node) [] { st with dfn := dfn2, stack := stack2 } = .done (body, st3)) :
    visitLoop g (f + 1) (fr :: vs) ln part st =
      visitLoop g f (propagate vs fr.min) ln (.cycle fr.node body :: part) st3 := by
  rw [visitLoop]; simp only [hs, hr, hst, hl, if_true, hp, hc]

theorem component_nil : component g (f + 1) [] part st = .done (part, st) := by
  rw [component]

theorem component_skip {s : Nat} {rest : List Nat} (hd : ¬ getDfn st.dfn s = .fin 0) :
    component g (f + 1) (s :: rest) part st = component g f rest part st := by
  rw [component]; simp only [hd, if_false]

theorem component_visit {s : Nat} {rest : List Nat} {part' : List WtoC} {st'' : St}
    (hd : getDfn st.dfn s = .fin 0)
    (hv : visitLoop g f [{ node := s, succs := g.succ s, min := st.num + 1 }] [] part (discover st s)
      = .done (part', st'')) :
    component g (f + 1) (s :: rest) part st = component g f rest part' st'' := by
  rw [component]
  simp only [hd, if_true]
  have : (discover st s).num = st.num + 1 := rfl
  rw [this, hv]

end Wto
end Crab
