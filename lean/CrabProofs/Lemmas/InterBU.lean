import CrabProofs.Lemmas.InterSolve

/-!
  Phase 1 of C10: every summary stored by `buPhase` is *justified* (it is `top`, or the projection
  of the exit invariant of a solver run whose call transformer read a sub-table of the final
  table) — by induction over the order in which the functions are processed — and a justified
  table describes every returned call of the call-stack semantics.
-/
namespace Crab.Inter
open Crab.Fix

variable {p : IProg}

theorem optInsert_keep {α : Type} (T : Nat → Option α) (g : Nat) (v : α) {h : Nat} {s : α}
    (hs : T h = some s) : optInsert T g v h = some s := by
  unfold optInsert
  by_cases hg : h = g
  · subst hg; simp [hs]
  · simp [hg, hs]

theorem optInsert_cases {α : Type} (T : Nat → Option α) (g : Nat) (v : α) {h : Nat} {s : α}
    (hs : optInsert T g v h = some s) : T h = some s ∨ (h = g ∧ T g = none ∧ s = v) := by
  unfold optInsert at hs
  by_cases hg : h = g
  · subst hg
    simp only [if_true] at hs
    cases hT : T h with
    | none => rw [hT] at hs; simp at hs; exact Or.inr ⟨rfl, rfl, hs.symm⟩
    | some x => rw [hT] at hs; exact Or.inl hs
  · simp only [hg, if_false] at hs; exact Or.inl hs

/-- the hypothesis on the orderings: well formed for the contexts the solver builds -/
def WtoHyp (D : IDom) (p : IProg) (cfg : FixCfg) : Prop :=
  ∀ (g : Nat), g < p.funs.size → ∀ (analyze : Nat → D.A → D.A) (init : D.A),
    WtoWF (mkCtx D cfg g (p.fn g) analyze init) (cfg.wto g)

structure Justified (D : IDom) (p : IProg) (cfg : FixCfg) (T : SumTable D) (Tg : Nat → SumTable D) : Prop where
  sub : ∀ g h s, Tg g h = some s → T h = some s
  decl : TableDecl p T
  notMain : T p.main = none
  just : ∀ g s, T g = some s → (∀ σ, D.γ s.sum σ) ∨
    ∃ st, solve D cfg g (p.fn g) (buCall D p.nv (Tg g)) D.top = some st ∧
      s.sum = D.project (st.post (p.fn g).exit) ((p.fn g).ins ++ (p.fn g).outs)

theorem Justified.empty (D : IDom) (p : IProg) (cfg : FixCfg) :
    Justified D p cfg (fun _ => none) (fun _ _ => none) :=
  ⟨(fun _ _ _ h => nomatch h), (fun _ _ h => nomatch h), rfl, (fun _ _ h => nomatch h)⟩

/-- inserting a justified summary (computed with the current table) -/
theorem Justified.insert {D : IDom} {cfg : FixCfg} {T : SumTable D} {Tg : Nat → SumTable D}
    (hJ : Justified D p cfg T Tg) (g : Nat) (s : Summary D) (hg : g ≠ p.main)
    (hd : s.ins = (p.fn g).ins ∧ s.outs = (p.fn g).outs)
    (hj : (∀ σ, D.γ s.sum σ) ∨
      ∃ st, solve D cfg g (p.fn g) (buCall D p.nv T) D.top = some st ∧
        s.sum = D.project (st.post (p.fn g).exit) ((p.fn g).ins ++ (p.fn g).outs)) :
    ∃ Tg', Justified D p cfg (optInsert T g s) Tg' := by
  refine ⟨fun i => if i = g ∧ T g = none then T else Tg i, ?_, ?_, ?_, ?_⟩
  · intro i h s' hs'
    by_cases hi : i = g ∧ T g = none
    · simp only [hi, and_self, if_true] at hs'
      exact optInsert_keep T g s hs'
    · simp only [hi, if_false] at hs'
      exact optInsert_keep T g s (hJ.sub i h s' hs')
  · intro h s' hs'
    rcases optInsert_cases T g s hs' with h1 | ⟨rfl, _, rfl⟩
    · exact hJ.decl h s' h1
    · exact hd
  · unfold optInsert
    have : ¬ p.main = g := fun e => hg e.symm
    simp only [this, if_false]
    exact hJ.notMain
  · intro i s' hs'
    rcases optInsert_cases T g s hs' with h1 | ⟨rfl, hn, rfl⟩
    · have hne : ¬ (i = g ∧ T g = none) := by
        rintro ⟨rfl, hn⟩
        rw [hn] at h1; cases h1
      simp only [hne, if_false]
      exact hJ.just i s' h1
    · simp only [hn, and_self, if_true]
      exact hj

theorem Justified.step {D : IDom} {cfg : FixCfg} {T T' : SumTable D} {Tg : Nat → SumTable D}
    (hJ : Justified D p cfg T Tg) (g : Nat) (h : buStep D p cfg T g = some T') :
    ∃ Tg', Justified D p cfg T' Tg' := by
  unfold buStep at h
  by_cases hm : g = p.main
  · simp only [hm, if_true, Option.some.injEq] at h
    subst h; exact ⟨Tg, hJ⟩
  · simp only [hm, if_false] at h
    by_cases ho : (p.fn g).outs.isEmpty = true
    · simp only [ho, if_true, Option.some.injEq] at h
      subst h
      exact hJ.insert g _ hm ⟨rfl, rfl⟩ (Or.inl (fun σ => D.top_sound σ))
    · have ho' : (p.fn g).outs.isEmpty = false := by simpa using ho
      rw [ho'] at h
      simp only [Bool.false_eq_true, if_false] at h
      cases hs : solve D cfg g (p.fn g) (buCall D p.nv T) D.top with
      | none => rw [hs] at h; cases h
      | some st =>
        rw [hs] at h
        simp only [Option.some.injEq] at h
        subst h
        exact hJ.insert g _ hm ⟨rfl, rfl⟩ (Or.inr ⟨st, hs, rfl⟩)

/-- induction over the order of the bottom-up phase -/
theorem Justified.phase {D : IDom} {cfg : FixCfg} :
    ∀ (order : List Nat) (T T' : SumTable D) (Tg : Nat → SumTable D), Justified D p cfg T Tg →
      buPhase D p cfg order T = some T' → ∃ Tg', Justified D p cfg T' Tg'
  | [], T, T', Tg, hJ, h => by
    simp only [buPhase, Option.some.injEq] at h
    subst h; exact ⟨Tg, hJ⟩
  | g :: gs, T, T', Tg, hJ, h => by
    simp only [buPhase] at h
    cases hs : buStep D p cfg T g with
    | none => rw [hs] at h; cases h
    | some T1 =>
      rw [hs] at h
      obtain ⟨Tg1, hJ1⟩ := hJ.step g hs
      exact Justified.phase gs T1 T' Tg1 hJ1 h

/-! ### a justified table describes the returned calls -/

/-- the decomposition used for phase 1: covered = has a summary; entered with any frame;
    the calls of `g` are described by the table its summary was computed with -/
def buSpec (p : IProg) {D : IDom} (T : SumTable D) (Tg : Nat → SumTable D) : SimSpec where
  Cov := fun g => ∃ s, T g = some s
  E := fun _ env => env.size = p.nv
  CR := fun g => tableCR (Tg g)

/-- a frame at the end of the exit block of a summarised function is described by its summary -/
theorem sum_holds_of_at (hP : ProgOK p) {D : IDom} (hren : D.toAbsDom.RenameSound) {cfg : FixCfg}
    (hw : WtoHyp D p cfg) {T : SumTable D} {Tg : Nat → SumTable D} (hJ : Justified D p cfg T Tg)
    {g : Nat} {s : Summary D} (hs : T g = some s) (hg : g < p.funs.size) {env : Env}
    (hat : (buSpec p T Tg).At p g (p.fn g).exit ((p.fn g).blk (p.fn g).exit).stmts.size env)
    (iv : List Int) (hm : MatchVals (p.fn g).ins iv (toSt env)) :
    SumHolds s iv ((p.fn g).outs.map (fun o => env.getD o 0)) := by
  obtain ⟨hi, ho⟩ := hJ.decl g s hs
  refine ⟨toSt env, by rw [hi]; exact hm, by rw [ho]; exact MatchVals_map _ (toSt env), by simp [ho], ?_⟩
  intro ρ hρ
  rcases hJ.just g s hs with htop | ⟨st, hrun, hsum⟩
  · exact htop ρ
  · have hdecl : TableDecl p (Tg g) := fun h s' hs' => hJ.decl h s' (hJ.sub g h s' hs')
    have hcs := buCall_sound hP D hren (Tg g) hdecl
    have := solve_sound D cfg g (hP g hg) hcs D.top (fun env => env.size = p.nv)
      (fun s hs => ⟨hs, fun σ _ => D.top_sound σ⟩) (hw g hg _ _) st hrun _ _ env hat
    have hpost := this.2.2 rfl (toSt env) (Ext_toSt env)
    rw [hsum]
    apply D.project_sound _ hpost
    intro v hv
    rw [hi, ho] at hρ
    exact hρ v hv

theorem bu_entryOK {D : IDom} (T : SumTable D) (Tg : Nat → SumTable D) : EntryOK p (buSpec p T Tg) := by
  intro g h b k env lhs args env' _ _ _ _ _ _ hsz _
  exact hsz

theorem bu_retOK (hP : ProgOK p) {D : IDom} (hren : D.toAbsDom.RenameSound) {cfg : FixCfg}
    (hw : WtoHyp D p cfg) {T : SumTable D} {Tg : Nat → SumTable D} (hJ : Justified D p cfg T Tg)
    (c : Config) (hc : Inv p (buSpec p T Tg) c) :
    ∀ hfr rest, c.stack = hfr :: rest → ¬ hfr.pc < ((p.fn hfr.fn).blk hfr.blk).stmts.size →
      hfr.blk = (p.fn hfr.fn).exit →
      tableCR T hfr.fn hfr.inVals ((p.fn hfr.fn).outs.map (fun o => hfr.env.getD o 0)) := by
  intro hfr rest hst hpc hex s hs
  have hm : hfr ∈ c.stack := by rw [hst]; exact List.mem_cons_self ..
  have hok := hc.frames hfr hm
  have hat := at_end (hc.loc hfr hm ⟨s, hs⟩) hpc
  rw [hex] at hat
  exact sum_holds_of_at hP hren hw hJ hs hok.1 hat hfr.inVals hok.2.2.1

theorem bu_inv_run (hP : ProgOK p) {D : IDom} (hren : D.toAbsDom.RenameSound) {cfg : FixCfg}
    (hw : WtoHyp D p cfg) {T : SumTable D} {Tg : Nat → SumTable D} (hJ : Justified D p cfg T Tg)
    (ch : Choices) (fuel : Nat) (c : Config) (hc : Inv p (buSpec p T Tg) c) :
    Inv p (buSpec p T Tg) (runFrom p ch fuel c) := by
  apply Inv.runFrom hP (bu_entryOK T Tg) ch _ fuel c hc
  intro c hc hfr gfr rest hst hpc hex _ s hs
  exact bu_retOK hP hren hw hJ c hc hfr (gfr :: rest) hst hpc hex s (hJ.sub _ _ s hs)

/-- every call record of a configuration satisfying the invariant is described by the table -/
theorem bu_recs (hP : ProgOK p) {D : IDom} (hren : D.toAbsDom.RenameSound) {cfg : FixCfg}
    (hw : WtoHyp D p cfg) {T : SumTable D} {Tg : Nat → SumTable D} (hJ : Justified D p cfg T Tg)
    (c : Config) (hc : Inv p (buSpec p T Tg) c) (r : CallRec) (hr : r ∈ c.tr.calls) (s : Summary D)
    (hs : T r.fn = some s) :
    SumHolds s r.ins r.outs ∧ r.ins.length = s.ins.length := by
  obtain ⟨hlt, hlen, hcov⟩ := hc.recs r hr
  obtain ⟨env, hat, hout, hm, _⟩ := hcov ⟨s, hs⟩
  have hl : r.ins.length = s.ins.length := by
    rcases hlen with h | h
    · rw [(hJ.decl _ _ hs).1]; exact h
    · rw [h, hJ.notMain] at hs; cases hs
  rw [hout]
  exact ⟨sum_holds_of_at hP hren hw hJ hs hlt hat r.ins hm, hl⟩

end Crab.Inter
