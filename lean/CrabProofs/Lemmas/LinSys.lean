import CrabModel.Lin.System
import CrabProofs.Lemmas.LinCst

/-! Lemmas on the model of `ikos::linear_constraint_system`: `operator+=` keeps the solutions,
    `normalize()` preserves the solution set. -/
namespace Crab.Lin.Sys
open Crab.Lin.Expr Crab.Lin.Cst

theorem mem_addCst {s : Sys} {c c' : Cst} : c' ∈ addCst s c ↔ c' ∈ s ∨ c' = c := by
  unfold addCst
  split
  · next h =>
    obtain ⟨c1, h1, h2⟩ := List.any_eq_true.1 h
    have : c1 = c := (Cst.equal_iff c1 c).1 h2
    subst this
    constructor
    · exact Or.inl
    · rintro (h | h)
      · exact h
      · subst h; exact h1
  · simp

theorem sat_addCst (s : Sys) (c : Cst) (σ : Var → Int) :
    sat (addCst s c) σ ↔ (sat s σ ∧ c.sat σ) := by
  unfold sat
  constructor
  · intro h
    exact ⟨fun c' hc' => h c' (mem_addCst.2 (Or.inl hc')), h c (mem_addCst.2 (Or.inr rfl))⟩
  · rintro ⟨h1, h2⟩ c' hc'
    rcases mem_addCst.1 hc' with h | h
    · exact h1 c' h
    · subst h; exact h2

theorem mem_addSys {s t : Sys} {c : Cst} : c ∈ addSys s t ↔ c ∈ s ∨ c ∈ t := by
  unfold addSys
  induction t generalizing s with
  | nil => simp
  | cons d rest ih =>
    simp only [List.foldl_cons, ih, mem_addCst, List.mem_cons]
    constructor
    · rintro ((h | h) | h)
      · exact Or.inl h
      · exact Or.inr (Or.inl h)
      · exact Or.inr (Or.inr h)
    · rintro (h | h | h)
      · exact Or.inl (Or.inl h)
      · exact Or.inl (Or.inr h)
      · exact Or.inr h

theorem sat_addSys (s t : Sys) (σ : Var → Int) : sat (addSys s t) σ ↔ (sat s σ ∧ sat t σ) := by
  unfold sat
  constructor
  · intro h
    exact ⟨fun c hc => h c (mem_addSys.2 (Or.inl hc)), fun c hc => h c (mem_addSys.2 (Or.inr hc))⟩
  · rintro ⟨h1, h2⟩ c hc
    rcases mem_addSys.1 hc with h | h
    · exact h1 c h
    · exact h2 c h

theorem sat_union (a b : Sys) (σ : Var → Int) : sat (union a b) σ ↔ (sat a σ ∧ sat b σ) := by
  unfold union
  rw [sat_addSys, sat_addSys]
  constructor
  · rintro ⟨⟨_, h2⟩, h3⟩; exact ⟨h3, h2⟩
  · rintro ⟨h1, h2⟩; exact ⟨⟨by intro c hc; simp at hc, h2⟩, h1⟩

theorem lookup_some {seen : List (Expr × Nat)} {e : Expr} {j : Nat}
    (h : lookup seen e = some j) : (e, j) ∈ seen := by
  induction seen with
  | nil => simp [lookup] at h
  | cons p rest ih =>
    obtain ⟨k, i⟩ := p
    simp only [lookup] at h
    split at h
    · next hk =>
      have : k = e := (Expr.equal_iff k e).1 hk
      simp only [Option.some.injEq] at h
      subst this h
      exact List.mem_cons_self ..
    · exact List.mem_cons_of_mem _ (ih h)

/-- what the first loop of `normalize()` maintains -/
structure Inv (S : Sys) (st : NormState) : Prop where
  seen : ∀ p ∈ st.seen, S[p.2]? = some ⟨p.1, .leq⟩
  out : ∀ c ∈ st.out, ∀ σ, sat S σ → c.sat σ
  rem : ∀ k ∈ st.removed, ∃ c, S[k]? = some c ∧ ∀ σ, sat st.out σ → c.sat σ

theorem sat_getElem {S : Sys} {σ : Var → Int} (h : sat S σ) {i : Nat} {c : Cst}
    (hi : S[i]? = some c) : c.sat σ := h c (List.mem_of_getElem? hi)

theorem sat_pairEquality (e : Expr) (σ : Var → Int) : (pairEquality e).sat σ ↔ e.eval σ = 0 := by
  unfold pairEquality
  split <;> simp only [Cst.sat, eval_neg] <;> omega

theorem inv_normStep {S : Sys} {st : NormState} (hinv : Inv S st) {i : Nat} {c : Cst}
    (hi : S[i]? = some c) : Inv S (normStep st i c) := by
  unfold normStep
  split
  · next hk =>
    have hc : c = ⟨c.expr, .leq⟩ := by cases c; simp_all
    split
    · -- `-exp` not seen
      split
      · refine ⟨?_, hinv.out, hinv.rem⟩
        intro p hp
        rcases List.mem_append.1 hp with hp | hp
        · exact hinv.seen p hp
        · simp only [List.mem_singleton] at hp
          subst hp
          simpa [← hc] using hi
      · exact hinv
    · next j hj =>
      -- pair found: S[j] is `-exp <= 0`
      have hj' := hinv.seen _ (lookup_some hj)
      simp only at hj'
      have key : ∀ σ, sat S σ → c.expr.eval σ = 0 := by
        intro σ hσ
        have h1 : c.sat σ := sat_getElem hσ hi
        have h2 : (⟨c.expr.neg, .leq⟩ : Cst).sat σ := sat_getElem hσ hj'
        rw [hc] at h1
        simp only [Cst.sat, eval_neg] at h1 h2
        omega
      refine ⟨hinv.seen, ?_, ?_⟩
      · intro d hd σ hσ
        rcases mem_addCst.1 hd with hd | hd
        · exact hinv.out d hd σ hσ
        · subst hd
          exact (sat_pairEquality _ σ).2 (key σ hσ)
      · intro k hk'
        simp only [List.mem_cons] at hk'
        have hout : ∀ σ, sat (addCst st.out (pairEquality c.expr)) σ → c.expr.eval σ = 0 :=
          fun σ hσ => (sat_pairEquality _ σ).1 ((sat_addCst _ _ σ).1 hσ).2
        rcases hk' with hk' | hk' | hk'
        · subst hk'
          refine ⟨c, hi, fun σ hσ => ?_⟩
          have := hout σ hσ
          rw [hc]; simp only [Cst.sat]; omega
        · subst hk'
          refine ⟨_, hj', fun σ hσ => ?_⟩
          have := hout σ hσ
          simp only [Cst.sat, eval_neg]; omega
        · obtain ⟨d, hd1, hd2⟩ := hinv.rem k hk'
          exact ⟨d, hd1, fun σ hσ => hd2 σ ((sat_addCst _ _ σ).1 hσ).1⟩
  · exact hinv

theorem inv_normLoop {S : Sys} (l : List Cst) (st : NormState) (i : Nat) (hinv : Inv S st)
    (hl : ∀ k c, l[k]? = some c → S[i + k]? = some c) : Inv S (normLoop st i l) := by
  induction l generalizing st i with
  | nil => exact hinv
  | cons c rest ih =>
    simp only [normLoop]
    apply ih
    · exact inv_normStep hinv (by simpa using hl 0 c (by simp))
    · intro k d hk
      have := hl (k + 1) d (by simpa using hk)
      rw [show i + 1 + k = i + (k + 1) by omega]
      exact this

theorem mem_keepLoop {removed : List Nat} {l : List Cst} {out : Sys} {i : Nat} {c : Cst} :
    c ∈ keepLoop removed out i l ↔
      c ∈ out ∨ ∃ k, l[k]? = some c ∧ (i + k) ∉ removed := by
  induction l generalizing out i with
  | nil => simp [keepLoop]
  | cons d rest ih =>
    simp only [keepLoop, ih]
    constructor
    · rintro (h | ⟨k, hk1, hk2⟩)
      · split at h
        · exact Or.inl h
        · next hr =>
          rcases mem_addCst.1 h with h | h
          · exact Or.inl h
          · subst h
            refine Or.inr ⟨0, by simp, ?_⟩
            simpa using hr
      · refine Or.inr ⟨k + 1, by simpa using hk1, ?_⟩
        rw [show i + (k + 1) = i + 1 + k by omega]; exact hk2
    · rintro (h | ⟨k, hk1, hk2⟩)
      · left
        split
        · exact h
        · exact mem_addCst.2 (Or.inl h)
      · cases k with
        | zero =>
          left
          have hd : d = c := by simpa using hk1
          subst hd
          have : removed.contains i = false := by simpa using hk2
          simp only [this]
          exact mem_addCst.2 (Or.inr rfl)
        | succ k =>
          right
          refine ⟨k, by simpa using hk1, ?_⟩
          rw [show i + 1 + k = i + (k + 1) by omega]; exact hk2

/-- `normalize()` preserves the solution set -/
theorem sat_normalize (S : Sys) (σ : Var → Int) : sat (normalize S) σ ↔ sat S σ := by
  have hinv : Inv S (normLoop ⟨[], [], []⟩ 0 S) := by
    apply inv_normLoop
    · exact ⟨by simp, by simp, by simp⟩
    · intro k c hk; simpa using hk
  unfold normalize
  simp only
  generalize normLoop ⟨[], [], []⟩ 0 S = st at hinv
  constructor
  · intro h c hc
    obtain ⟨k, hk⟩ := List.getElem?_of_mem hc
    have hout : sat st.out σ := fun d hd => h d (mem_keepLoop.2 (Or.inl hd))
    by_cases hr : k ∈ st.removed
    · obtain ⟨d, hd1, hd2⟩ := hinv.rem k hr
      rw [hk] at hd1
      simp only [Option.some.injEq] at hd1
      subst hd1
      exact hd2 σ hout
    · exact h c (mem_keepLoop.2 (Or.inr ⟨k, hk, by simpa using hr⟩))
  · intro h c hc
    rcases mem_keepLoop.1 hc with hc | ⟨k, hk, _⟩
    · exact hinv.out c hc σ h
    · exact h c (List.mem_of_getElem? hk)

end Crab.Lin.Sys
