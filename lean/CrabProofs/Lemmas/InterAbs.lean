import CrabProofs.Lemmas.InterRename
import CrabProofs.Lemmas.InterSimStep

/-!
  Abstract side of the C10 proofs: the transformers of `CrabModel/Inter/BottomUp.lean` on the
  frame concretisation `EnvIn` (every total state extending the frame is described).
-/
namespace Crab.Inter

/-- `C10.summary_instantiate_sound` with the two support hypotheses replaced by what the
    frame concretisation gives: *every* state that agrees with `σ` outside the internal names
    is in the caller's value, every state that agrees with `ρ` on the formals is in the summary. -/
theorem instantiate_sound_univ (D : AbsDom) (hren : D.RenameSound)
    (ins outs rin rout lhs args : List Var) (caller sum : D.A) (σ ρ σ' : St)
    (hl_in : ins.length = rin.length) (hl_out : outs.length = rout.length)
    (hl_args : rin.length = args.length) (hl_lhs : lhs.length = rout.length)
    (hnd : (rin ++ rout).Nodup) (hlhs : lhs.Nodup)
    (hfresh : ∀ v, v ∈ rin ++ rout → v ∉ args ∧ v ∉ lhs ∧ v ∉ ins ++ outs)
    (hσ : ∀ σ2, (∀ v, v ∉ rin ++ rout → σ2 v = σ v) → D.γ caller σ2)
    (hρ : ∀ ρ2, (∀ v, v ∈ ins ++ outs → ρ2 v = ρ v) → D.γ sum ρ2)
    (hin : AllPairs (fun f a => ρ f = σ a) ins args)
    (hout : AllPairs (fun l o => σ' l = ρ o) lhs outs)
    (hfr : ∀ v, v ∉ lhs → σ' v = σ v) :
    D.γ (instantiate D ins outs rin rout lhs args caller sum) σ' := by
  let old : Var → Var := assocLookup (rin ++ rout) (ins ++ outs)
  let σ2 : St := fun v => if v ∈ rin ++ rout then ρ (old v) else σ v
  have hpairs : AllPairs (fun x k => old k = x) (ins ++ outs) (rin ++ rout) := assocLookup_pairs _ _ hnd
  have hp_in : AllPairs (fun x k => old k = x) ins rin := AllPairs.of_append_left hl_in hpairs
  have hp_out : AllPairs (fun x k => old k = x) outs rout := AllPairs.of_append_right hl_in hpairs
  have hrin_nd : rin.Nodup := (List.nodup_append.mp hnd).1
  let σh : St := fun v => if v ∈ rout then σ2 v else σ v
  have hσh : D.γ caller σh := hσ σh (by
    intro v hv
    have : v ∉ rout := fun e => hv (List.mem_append.mpr (Or.inr e))
    simp only [σh, this, if_false])
  have hseq : SeqOK rin args :=
    SeqOK.of_disjoint rin args (fun x hx => (hfresh x (List.mem_append.mpr (Or.inl hx))).1)
  have heq : seqAssign σh rin args = σ2 := by
    funext v
    by_cases hv : v ∈ rin
    · have hP : AllPairs (fun l r => r ∈ args ∧ seqAssign σh rin args l = σh r) rin args :=
        AllPairs.imp_mem (seqAssign_pairs rin args σh hrin_nd hseq) (fun _ _ _ hy hp => ⟨hy, hp⟩)
      have hR : AllPairs (fun l o => l ∈ rin ∧ old l = o) rin ins :=
        AllPairs.imp_mem (AllPairs.swap hp_in) (fun _ _ hx _ hp => ⟨hx, hp⟩)
      refine AllPairs.three (S := fun l => seqAssign σh rin args l = σ2 l) hl_args (hl_in.symm)
        hP hin hR ?_ v hv
      intro l r o hp hq hr
      have hl : l ∈ rin ++ rout := List.mem_append.mpr (Or.inl hr.1)
      have hr' : r ∉ rout := fun e => (hfresh r (List.mem_append.mpr (Or.inr e))).1 hp.1
      show seqAssign σh rin args l = σ2 l
      rw [hp.2]
      simp only [σh, hr', if_false, σ2, hl, if_true]
      rw [hr.2, hq]
    · rw [seqAssign_other rin args σh v hv]
      by_cases hvo : v ∈ rout
      · simp only [σh, hvo, if_true]
      · have : v ∉ rin ++ rout := fun e => (List.mem_append.mp e).elim hv hvo
        simp only [σh, hvo, if_false, σ2, this]
  have h1 : D.γ (unifySeq D caller rin args) σ2 := by
    have := unifySeq_sound D rin args caller σh hσh
    rwa [heq] at this
  let ρ2 : St := fun v => if v ∈ ins ++ outs then ρ v else σ2 v
  have hρ2 : D.γ sum ρ2 := hρ ρ2 (by intro v hv; simp only [ρ2, hv, if_true])
  have hrs : D.γ (D.rename sum (ins ++ outs) (rin ++ rout)) σ2 := by
    apply hren sum ρ2 σ2 _ _ hρ2
    · refine AllPairs.imp_mem hpairs ?_
      intro x y hx hy hp
      show σ2 y = ρ2 x
      simp only [σ2, ρ2, hx, hy, if_true]
      rw [hp]
    · intro v hv1 _
      show σ2 v = ρ2 v
      simp only [ρ2, hv1, if_false]
  have hseq2 : SeqOK lhs rout :=
    SeqOK.of_disjoint lhs rout (fun x hx hr => (hfresh x (List.mem_append.mpr (Or.inr hr))).2.1 hx)
  have h3 := assignSeq_sound D lhs rout _ σ2 (D.meet_sound h1 hrs)
  unfold instantiate
  apply D.forget_sound _ h3
  intro v hv
  have hvf : v ∉ rin ++ rout := by
    intro hm
    apply hv
    have hfr' := hfresh v hm
    have hc : (args ++ lhs).contains v = false := by
      cases hcv : (args ++ lhs).contains v with
      | false => rfl
      | true =>
        exfalso
        rcases List.mem_append.mp (List.contains_iff_mem.mp hcv) with h | h
        · exact hfr'.1 h
        · exact hfr'.2.1 h
    simp only [List.mem_filter, hm, hc, Bool.not_false, and_self]
  by_cases hvl : v ∈ lhs
  · have hP : AllPairs (fun l r => r ∈ rout ∧ seqAssign σ2 lhs rout l = σ2 r) lhs rout :=
      AllPairs.imp_mem (seqAssign_pairs lhs rout σ2 hlhs hseq2) (fun _ _ _ hy hp => ⟨hy, hp⟩)
    refine AllPairs.three (S := fun l => σ' l = seqAssign σ2 lhs rout l) hl_lhs (by omega)
      hP hp_out hout ?_ v hvl
    intro l r o hp hq hr
    have hrm : r ∈ rin ++ rout := List.mem_append.mpr (Or.inr hp.1)
    show σ' l = seqAssign σ2 lhs rout l
    rw [hp.2, hr]
    simp only [σ2, hrm, if_true]
    rw [hq]
  · rw [seqAssign_other lhs rout σ2 v hvl]
    simp only [σ2, hvf, if_false]
    exact hfr v hvl

/-! ### lists -/

theorem nodup_map_add (nv k : Nat) : ((List.range k).map (fun i => nv + i)).Nodup := by
  rw [List.Nodup, List.pairwise_map]
  exact (List.nodup_range (n := k)).imp (fun h e => h (by omega))

theorem mem_map_add {nv k v : Nat} (h : v ∈ (List.range k).map (fun i => nv + i)) : nv ≤ v ∧ v < nv + k := by
  obtain ⟨i, hi, rfl⟩ := List.mem_map.mp h
  have := List.mem_range.mp hi
  omega

theorem foldl_take_succ {α β : Type} (f : β → α → β) (l : List α) (k : Nat) (a : β) (d : α) (h : k < l.length) :
    (l.take (k+1)).foldl f a = f ((l.take k).foldl f a) (l.getD k d) := by
  rw [List.take_add_one, List.foldl_append]
  simp [List.getD, List.getElem?_eq_getElem h]

theorem nodup_rin_rout {D : IDom} (nv : Nat) (s : Summary D) : (s.rin nv ++ s.rout nv).Nodup := by
  rw [List.nodup_append]
  refine ⟨nodup_map_add _ _, nodup_map_add _ _, ?_⟩
  intro a ha b hb
  have h1 := mem_map_add ha
  have h2 := mem_map_add hb
  intro e
  rw [e] at h1
  omega

theorem rin_rout_ge {D : IDom} (nv : Nat) (s : Summary D) {v : Var} (h : v ∈ s.rin nv ++ s.rout nv) : nv ≤ v := by
  rcases List.mem_append.mp h with h | h
  · exact (mem_map_add h).1
  · have := (mem_map_add h).1; omega

/-- positional pairs from two value matches -/
theorem AllPairs.of_match_map {ρ σ : St} {g : Var → Int} :
    ∀ {xs ys : List Var}, MatchVals xs (ys.map g) ρ → (∀ y, y ∈ ys → σ y = g y) →
      AllPairs (fun x y => ρ x = σ y) xs ys
  | [], _, _, _ => by cases ‹List Var› <;> trivial
  | _ :: _, [], _, _ => trivial
  | x :: xs, y :: ys, hm, hσ => by
    refine ⟨by show ρ x = σ y; rw [hσ y (List.mem_cons_self ..)]; exact hm.1, ?_⟩
    exact AllPairs.of_match_map hm.2 (fun y' hy' => hσ y' (List.mem_cons_of_mem _ hy'))

theorem AllPairs.of_two_matches {ρ σ : St} :
    ∀ {ls os : List Var} {vs : List Int}, ls.length ≤ vs.length → MatchVals ls vs σ → MatchVals os vs ρ →
      AllPairs (fun l o => σ l = ρ o) ls os
  | [], _, _, _, _, _ => by cases ‹List Var› <;> trivial
  | _ :: _, [], _, _, _, _ => trivial
  | _ :: _, _ :: _, [], hl, _, _ => by simp at hl
  | l :: ls, o :: os, v :: vs, hl, h1, h2 => by
    refine ⟨by show σ l = ρ o; rw [h1.1, h2.1], ?_⟩
    exact AllPairs.of_two_matches (by simpa using hl) h1.2 h2.2

/-! ### statements on frames -/

/-- summary `s` describes the call with input values `iv` and output values `ov` -/
def SumHolds {D : IDom} (s : Summary D) (iv ov : List Int) : Prop :=
  ∃ ρ0 : St, MatchVals s.ins iv ρ0 ∧ MatchVals s.outs ov ρ0 ∧
    ov.length = s.outs.length ∧ ∀ ρ, (∀ v, v ∈ s.ins ++ s.outs → ρ v = ρ0 v) → D.γ s.sum ρ

/-- the calls described by a summary table (no constraint for a callee without summary) -/
def tableCR {D : IDom} (T : SumTable D) : CallRel :=
  fun h iv ov => ∀ s, T h = some s → SumHolds s iv ov

theorem IArg.evalSt_eq (z : IArg) (env : Env) (σ : St) (h : Ext env σ)
    (hv : ∀ v, z = .var v → v < env.size) : z.evalSt σ = z.eval env := by
  cases z with
  | var v => exact h v (hv v rfl)
  | cst k => rfl

theorem LStep.size {CR : CallRel} {s : IStmt} {e e' : Env} (h : LStep CR s e e') : e'.size = e.size := by
  cases s with
  | assign x l => rw [show e' = _ from h, Array.size_setIfInBounds]
  | bin op x y z => rw [show e' = _ from h, Array.size_setIfInBounds]
  | havoc x => obtain ⟨v, hv⟩ := h; rw [hv, Array.size_setIfInBounds]
  | assume c => rw [h.2]
  | assert i c => rw [h.2]
  | call c l a => obtain ⟨o, _, ho⟩ := h; rw [ho, setMany_size]

/-- a non-call statement on frames -/
theorem EnvIn.stmt (D : IDom) {a : D.A} {env env' : Env} {s : IStmt} (CR : CallRel)
    (h : EnvIn D.toAbsDom a env) (hv : ∀ v, v ∈ s.vars → v < env.size)
    (hnc : ∀ c l r, s ≠ .call c l r) (hs : LStep CR s env env') :
    EnvIn D.toAbsDom (D.stmt a s) env' := by
  intro σ' hext
  cases s with
  | assign x e =>
    have hx : x < env.size := hv x (by simp [IStmt.vars])
    have he : env' = env.setIfInBounds x (e.eval env) := hs
    subst he
    obtain ⟨hσ, heq⟩ := Ext_unset hx hext
    apply D.stmt_sound (.assign x e) (h _ hσ)
    show σ' = _
    rw [ILin.evalSt_eq e env _ hσ (fun v hvm => hv v (by simp [IStmt.vars, hvm]))]
    exact heq
  | bin op x y z =>
    have hx : x < env.size := hv x (by simp [IStmt.vars])
    have hy : y < env.size := hv y (by simp [IStmt.vars])
    have he : env' = env.setIfInBounds x (op.eval (env.getD y 0) (z.eval env)) := hs
    subst he
    obtain ⟨hσ, heq⟩ := Ext_unset hx hext
    apply D.stmt_sound (.bin op x y z) (h _ hσ)
    show σ' = _
    rw [IArg.evalSt_eq z env _ hσ (fun v hz => hv v (by simp [IStmt.vars, hz])), hσ y hy]
    exact heq
  | havoc x =>
    have hx : x < env.size := hv x (by simp [IStmt.vars])
    obtain ⟨v, he⟩ := hs
    subst he
    obtain ⟨hσ, heq⟩ := Ext_unset hx hext
    exact D.stmt_sound (.havoc x) (h _ hσ) ⟨v, heq⟩
  | assume c =>
    obtain ⟨hsat, he⟩ := hs
    subst he
    refine D.stmt_sound (.assume c) (h _ hext) ⟨?_, rfl⟩
    rw [ICst.satSt_eq c env' σ' hext (fun v hvm => hv v (by simp [IStmt.vars, hvm]))]
    exact hsat
  | assert i c =>
    obtain ⟨hsat, he⟩ := hs
    subst he
    refine D.stmt_sound (.assert i c) (h _ hext) ⟨?_, rfl⟩
    rw [ICst.satSt_eq c env' σ' hext (fun v hvm => hv v (by simp [IStmt.vars, hvm]))]
    exact hsat
  | call c l r => exact absurd rfl (hnc c l r)

theorem havocList_sound (D : IDom) : ∀ (lhs : List Var) (a : D.A) (σ σ' : St), D.γ a σ →
    (∀ v, v ∉ lhs → σ' v = σ v) → D.γ (havocList D a lhs) σ'
  | [], a, σ, σ', h, heq => by
    have : σ' = σ := funext (fun v => heq v (by simp))
    rw [this]; exact h
  | x :: xs, a, σ, σ', h, heq => by
    simp only [havocList, List.foldl_cons]
    apply havocList_sound D xs (D.forget a [x]) (σ.upd x (σ' x)) σ'
    · apply D.forget_sound [x] h
      intro v hv
      have : v ≠ x := by simpa using hv
      exact St.upd_other _ _ this
    · intro v hv
      by_cases hvx : v = x
      · subst hvx; rw [St.upd_same]
      · rw [St.upd_other _ _ hvx]
        exact heq v (by simp [hvx, hv])

/-- the state that agrees with the frame `env` on `lhs` and with `σ'` elsewhere -/
def resetOn (lhs : List Var) (env : Env) (σ' : St) : St := fun v => if v ∈ lhs then env.getD v 0 else σ' v

theorem Ext_resetOn {lhs : List Var} {vs : List Int} {env : Env} {σ' : St}
    (h : Ext (setMany env lhs vs) σ') : Ext env (resetOn lhs env σ') := by
  intro v hv
  by_cases hl : v ∈ lhs
  · simp [resetOn, hl]
  · have := h v (by rw [setMany_size]; exact hv)
    rw [setMany_other lhs vs env v hl] at this
    simp [resetOn, hl, this]

theorem EnvIn.havoc (D : IDom) {a : D.A} {env : Env} (lhs : List Var) (vs : List Int)
    (h : EnvIn D.toAbsDom a env) : EnvIn D.toAbsDom (havocList D a lhs) (setMany env lhs vs) := by
  intro σ' hext
  apply havocList_sound D lhs a (resetOn lhs env σ') σ' (h _ (Ext_resetOn hext))
  intro v hv
  simp [resetOn, hv]

/-- `reuse_summary` on frames: the caller's frame `env` is described by `caller`, the summary
    describes the call with the argument values of `env` and the outputs `ov`; then the frame
    after `lhs := ov` is described by the result -/
theorem reuse_sound (D : IDom) (hren : D.toAbsDom.RenameSound) (nv : Nat) (s : Summary D)
    (lhs args : List Var) (caller : D.A) (env : Env) (ov : List Int)
    (hsz : env.size = nv)
    (hins : ∀ v : Nat, v ∈ s.ins → v < nv) (houts : ∀ v : Nat, v ∈ s.outs → v < nv)
    (hargs : ∀ v : Nat, v ∈ args → v < nv) (hlhs : ∀ v : Nat, v ∈ lhs → v < nv) (hnd : lhs.Nodup)
    (hla : args.length = s.ins.length) (hll : lhs.length = s.outs.length)
    (hc : EnvIn D.toAbsDom caller env)
    (hs : SumHolds s (args.map (fun a => env.getD a 0)) ov) :
    EnvIn D.toAbsDom (reuseSummary D nv s lhs args caller) (setMany env lhs ov) := by
  intro σ' hext
  obtain ⟨ρ0, hm1, hm2, hlo, hρ⟩ := hs
  have hσext := Ext_resetOn hext
  have hge : ∀ v, v ∈ s.rin nv ++ s.rout nv → nv ≤ v := fun v hv => rin_rout_ge nv s hv
  unfold reuseSummary
  apply instantiate_sound_univ D.toAbsDom hren s.ins s.outs (s.rin nv) (s.rout nv) lhs args caller s.sum
    (resetOn lhs env σ') ρ0 σ'
  · simp [Summary.rin]
  · simp [Summary.rout]
  · simp [Summary.rin, hla]
  · simp [Summary.rout, hll]
  · exact nodup_rin_rout nv s
  · exact hnd
  · intro v hv
    have := hge v hv
    refine ⟨fun h => ?_, fun h => ?_, fun h => ?_⟩
    · have := hargs v h; omega
    · have := hlhs v h; omega
    · rcases List.mem_append.mp h with h | h
      · have := hins v h; omega
      · have := houts v h; omega
  · intro σ2 h2
    apply hc
    intro v hv
    have hv' : v ∉ s.rin nv ++ s.rout nv := fun e => by have := hge v e; omega
    rw [h2 v hv', hσext v hv]
  · exact hρ
  · apply AllPairs.of_match_map hm1
    intro y hy
    exact hσext y (by rw [hsz]; exact hargs y hy)
  · have hm : MatchVals lhs ov σ' := by
      have := setMany_match lhs ov env hnd (fun x hx => by rw [hsz]; exact hlhs x hx)
      refine MatchVals.congr ?_ this
      intro x hx
      exact hext x (by rw [setMany_size, hsz]; exact hlhs x hx)
    exact AllPairs.of_two_matches (by omega) hm hm2
  · intro v hv
    simp [resetOn, hv]

end Crab.Inter
