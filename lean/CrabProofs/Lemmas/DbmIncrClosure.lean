import CrabProofs.Lemmas.DbmPotential
import CrabProofs.Lemmas.DbmWiden

/-!
  Generic facts on closed matrices used by the proofs about the incremental closure:

  * `Mat.closed_unique`: a closed matrix is determined by its set of solutions (both directions of
    tightness), hence two closed matrices with the same solutions are equal entrywise;
  * `Mat.fw_eq_of_closed`: a closed matrix with the solutions of `m` IS the Floyd–Warshall closure
    of `m`;
  * `Mat.addClose`: the textbook one-edge closure `T(a,b) = min(m(a,b), m(a,i) + c + m(j,b))` of a
    closed matrix is closed when the new edge closes no negative cycle, and it is `fw (addEdge ..)`.
-/
namespace Crab
namespace Dbm

namespace W

@[simp] theorem add_some_some (a b : Int) : add (some a) (some b) = some (a + b) := rfl
@[simp] theorem add_none_left (b : W) : add none b = none := by cases b <;> rfl
@[simp] theorem add_none_right (a : W) : add a none = none := by cases a <;> rfl
@[simp] theorem min_some_some (a b : Int) : min (some a) (some b) = some (Min.min a b) := by
  simp only [min, Int.min_def]
@[simp] theorem min_none_left (b : W) : min none b = b := rfl
@[simp] theorem min_none_right (a : W) : min a none = a := by cases a <;> rfl
@[simp] theorem LE_some_some' (a b : Int) : LE (some a) (some b) ↔ a ≤ b := LE_some_some
@[simp] theorem LE_none' (a : W) : LE a none ↔ True := ⟨fun _ => trivial, fun _ => LE_none a⟩
@[simp] theorem LE_none_some (b : Int) : LE none (some b) ↔ False := by simp [LE]

theorem LE_antisymm {a b : W} (h1 : LE a b) (h2 : LE b a) : a = b := by
  cases a <;> cases b <;> simp_all
  omega

theorem min_comm (a b : W) : min a b = min b a := by
  cases a <;> cases b <;> simp
  omega

end W

namespace Mat
variable {N : Nat}

/-- the entries of a closed matrix are below every bound valid on its solutions -/
theorem closed_LE_of_sat {a b : Mat N} (ha : Closed a) (h : ∀ v, a.sat v → b.sat v) (i j : Fin N) :
    W.LE (a.get i j) (b.get i j) := by
  intro e he
  cases hae : a.get i j with
  | some d =>
    obtain ⟨v, hv, hvd⟩ := (closed_is_tight ha i j).1 d hae
    have := h v hv i j e he
    exact ⟨d, rfl, by omega⟩
  | none =>
    exfalso
    obtain ⟨v, hv, hB⟩ := (closed_is_tight ha i j).2 hae e
    have := h v hv i j e he
    omega

/-- a closed matrix is determined by its solutions -/
theorem closed_unique {a b : Mat N} (ha : Closed a) (hb : Closed b) (h : ∀ v, a.sat v ↔ b.sat v)
    (i j : Fin N) : a.get i j = b.get i j :=
  W.LE_antisymm (closed_LE_of_sat ha (fun v hv => (h v).1 hv) i j)
    (closed_LE_of_sat hb (fun v hv => (h v).2 hv) i j)

/-- a closed matrix with the solutions of `m` is the Floyd–Warshall closure of `m` -/
theorem fw_eq_of_closed {a m : Mat N} (ha : Closed a) (h : ∀ v, a.sat v ↔ m.sat v) :
    hasNegDiag (fw m) = false ∧ ∀ i j, (fw m).get i j = a.get i j := by
  obtain ⟨v, hv⟩ := closed_sat ha
  have hm : (fw m).sat v := (fw_sat m v).2 ((h v).1 hv)
  have hnd : hasNegDiag (fw m) = false := by
    cases hq : hasNegDiag (fw m) with
    | false => rfl
    | true => exact absurd hm (not_sat_of_hasNegDiag hq v)
  refine ⟨hnd, fun i j => ?_⟩
  exact closed_unique (fw_closed hnd) ha (fun v => by rw [fw_sat, h]) i j

/-! ### one-edge closure -/

/-- closure of a closed matrix after adding the constraint `v i - v j ≤ c` -/
def addClose (m : Mat N) (i j : Fin N) (c : Int) : Mat N :=
  ofFn fun a b => W.min (m.get a b) (W.add (W.add (m.get a i) (some c)) (m.get j b))

theorem addClose_LE (m : Mat N) (i j : Fin N) (c : Int) : LE (addClose m i j c) m := by
  intro a b
  simp only [addClose, get_ofFn]
  exact W.min_LE_left _ _

theorem addClose_sat {m : Mat N} (hc : Closed m) (i j : Fin N) (c : Int) (v : Fin N → Int) :
    (addClose m i j c).sat v ↔ (m.sat v ∧ v i - v j ≤ c) := by
  constructor
  · intro h
    refine ⟨sat_of_LE (addClose_LE m i j c) h, ?_⟩
    have h2 := (sat_iff _ _).1 h i j
    simp only [addClose, get_ofFn, hc.diag] at h2
    have h3 := W.LE_trans h2 (W.min_LE_right _ _)
    simpa using h3
  · rintro ⟨h1, h2⟩
    rw [sat_iff]
    intro a b
    simp only [addClose, get_ofFn]
    refine W.LE_min ((sat_iff _ _).1 h1 a b) ?_
    have ha := (sat_iff _ _).1 h1 a i
    have hb := (sat_iff _ _).1 h1 j b
    rcases hx : m.get a i with _ | x <;> rcases hy : m.get j b with _ | y <;> simp
    rw [hx] at ha; rw [hy] at hb
    simp at ha hb
    omega

/-- the one-edge closure is closed when the new edge closes no negative cycle -/
theorem addClose_closed {m : Mat N} (hc : Closed m) (i j : Fin N) (c : Int)
    (hn : ∀ x, m.get j i = some x → 0 ≤ c + x) : Closed (addClose m i j c) := by
  constructor
  · intro a
    simp only [addClose, get_ofFn, hc.diag]
    have t := hc.tri j i a
    rcases hx : m.get a i with _ | x <;> rcases hy : m.get j a with _ | y <;> simp
    rw [hx, hy] at t
    rcases hz : m.get j i with _ | z
    · rw [hz] at t; simp at t
    · rw [hz] at t; simp at t
      have := hn z hz
      omega
  · intro a b k
    simp only [addClose, get_ofFn]
    have t1 := hc.tri a b k
    have t2 := hc.tri a i k
    have t3 := hc.tri j b k
    have t4 := hc.tri j i k
    rcases h1 : m.get a b with _ | x1 <;> rcases h2 : m.get a k with _ | x2 <;>
    rcases h3 : m.get k b with _ | x3 <;> rcases h4 : m.get a i with _ | x4 <;>
    rcases h5 : m.get j b with _ | x5 <;> rcases h6 : m.get k i with _ | x6 <;>
    rcases h7 : m.get j k with _ | x7 <;>
    simp only [h1, h2, h3, h4, h5, h6, h7] at t1 t2 t3 t4 ⊢ <;> simp at t1 t2 t3 t4 ⊢ <;>
    (try omega) <;>
    (rcases h8 : m.get j i with _ | x8 <;> simp only [h8] at t4 <;> simp at t4 <;>
      (try have := hn _ h8) <;> omega)

/-- the one-edge closure is the Floyd–Warshall closure of the matrix with the new edge -/
theorem addClose_eq_fw {m : Mat N} (hc : Closed m) (i j : Fin N) (c : Int)
    (hn : ∀ x, m.get j i = some x → 0 ≤ c + x) :
    hasNegDiag (fw (m.addEdge i j c)) = false ∧
    ∀ a b, (fw (m.addEdge i j c)).get a b = (addClose m i j c).get a b :=
  fw_eq_of_closed (addClose_closed hc i j c hn) (fun v => by rw [addClose_sat hc, addEdge_sat])

end Mat
end Dbm
end Crab
