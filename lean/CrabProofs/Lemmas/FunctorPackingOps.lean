import CrabProofs.Lemmas.FunctorPackingUF

/-!
`merge` as a whole, `union_find_domain::forget`, and the transformers of the packing domain
(`stmt`, `addCsts`, `forget1`): they keep the invariant `WF` and are sound w.r.t. `γc`.
-/
namespace Crab
namespace Dom
namespace Fct

variable {V : Type} [DecidableEq V]

theorem St.set_self (s : St V) (x : V) : s.set x (s x) = s := by
  funext y; unfold St.set; split
  · rename_i h; rw [h]
  · rfl

theorem St.set_set (s : St V) (x : V) (a b : Int) : (s.set x a).set x b = s.set x b := by
  funext y; unfold St.set; split <;> rfl

namespace PK
variable {N : NDom V}

theorem agree_refl (vs : List V) (s : St V) : agree vs s s := fun _ _ => rfl

theorem Pack.γ_of_γc {p : Pack N} {s : St V} (h : Pack.γc p s) : N.γ p.val s := h s (agree_refl _ _)

/-- `γc` is stronger than the plain intersection -/
theorem γ_of_γc {a : PK N} {s : St V} (h : γc a s) : γ a s := by
  cases a with
  | bot => exact h
  | packs l => exact fun p hp => Pack.γ_of_γc (h p hp)

/-- everything a successful `merge` guarantees -/
structure MergeSpec (fresh : N.B) (l : List (Pack N)) (vars : List V) (acc : Pack N) (r : List (Pack N)) : Prop where
  wfl : WFl l → WFl (acc :: r)
  rest_sub : ∀ q ∈ r, q ∈ l
  vars_sub : ∀ v ∈ vars, v ∈ acc.vars
  coarsens : ∀ p ∈ l, p ∈ r ∨ (∀ w ∈ p.vars, w ∈ acc.vars)
  origin : ∀ u ∈ acc.vars, u ∈ vars ∨ ∃ p ∈ l, u ∈ p.vars ∧ (∀ w ∈ p.vars, w ∈ acc.vars) ∧ ∃ v ∈ vars, v ∈ p.vars
  val_sound : ∀ t, N.γ fresh t → (∀ p ∈ l, (∀ w ∈ p.vars, w ∈ acc.vars) → N.γ p.val t) → N.γ acc.val t

theorem merge_spec {fresh : N.B} {l : List (Pack N)} {vars : List V} {acc : Pack N} {r : List (Pack N)}
    (h : merge fresh l vars = some (acc, r)) : MergeSpec fresh l vars acc r := by
  cases vars with
  | nil => simp [merge] at h
  | cons v vs =>
    simp only [merge] at h
    split at h
    · rename_i p r0 ht
      have hp := takePack_some ht
      have hm := mergeGo_some h
      have hmem : ∀ q, q ∈ l ↔ q = p ∨ q ∈ r0 := fun q => by rw [← hp.1.mem_iff, List.mem_cons]
      refine ⟨fun hw => hm.wfl (wfl_perm hp.1.symm hw), ?_, ?_, ?_, ?_, ?_⟩
      · exact fun q hq => (hmem q).2 (Or.inr (hm.rest_sub q hq))
      · intro w hw
        rcases List.mem_cons.1 hw with rfl | hw
        · exact hm.acc_grows.1 _ hp.2
        · exact hm.acc_grows.2 w hw
      · intro q hq
        rcases (hmem q).1 hq with rfl | hq
        · exact Or.inr hm.acc_grows.1
        · exact hm.coarsens q hq
      · intro u hu
        rcases hm.origin u hu with h1 | h1 | ⟨q, hq, h1, h2, w, hw, h3⟩
        · exact Or.inr ⟨p, (hmem p).2 (Or.inl rfl), h1, hm.acc_grows.1, v, List.mem_cons_self, hp.2⟩
        · exact Or.inl (List.mem_cons_of_mem _ h1)
        · exact Or.inr ⟨q, (hmem q).2 (Or.inr hq), h1, h2, w, List.mem_cons_of_mem _ hw, h3⟩
      · intro t hf hr
        exact hm.val_sound t hf (hr p ((hmem p).2 (Or.inl rfl)) hm.acc_grows.1)
          (fun q hq hsub => hr q ((hmem q).2 (Or.inr hq)) hsub)
    · rename_i ht
      split at h
      · simp at h
      · have hm := mergeGo_some h
        refine ⟨?_, hm.rest_sub, ?_, hm.coarsens, ?_, ?_⟩
        · intro hw
          apply hm.wfl
          rw [wfl_cons]
          refine ⟨?_, by simp, hw⟩
          intro q hq u hu
          simp only [List.mem_singleton] at hu; subst hu
          exact takePack_none ht q hq
        · intro w hw
          rcases List.mem_cons.1 hw with rfl | hw
          · exact hm.acc_grows.1 _ (by simp)
          · exact hm.acc_grows.2 w hw
        · intro u hu
          rcases hm.origin u hu with h1 | h1 | ⟨q, hq, h1, h2, w, hw, h3⟩
          · simp only [List.mem_singleton] at h1; subst h1; exact Or.inl List.mem_cons_self
          · exact Or.inl (List.mem_cons_of_mem _ h1)
          · exact Or.inr ⟨q, hq, h1, h2, w, List.mem_cons_of_mem _ hw, h3⟩
        · intro t hf hr
          exact hm.val_sound t hf hf hr

/-- `merge` succeeds as soon as one state is accepted by every value involved -/
theorem merge_isSome {fresh : N.B} {l : List (Pack N)} {vars : List V} (hv : vars ≠ []) {t : St V}
    (hf : N.γ fresh t) (hl : ∀ p ∈ l, N.γ p.val t) : ∃ res, merge fresh l vars = some res := by
  cases vars with
  | nil => exact absurd rfl hv
  | cons v vs =>
    simp only [merge]
    split
    · rename_i p r0 ht
      have hp := takePack_some ht
      exact mergeGo_isSome hf vs p r0 (hl p ((hp.1.mem_iff).1 List.mem_cons_self))
        (fun q hq => hl q ((hp.1.mem_iff).1 (List.mem_cons_of_mem _ hq)))
    · simp only [N.isBot_false_of_γ hf, Bool.false_eq_true, if_false]
      exact mergeGo_isSome hf vs _ l hf hl

/-! ### `union_find_domain::forget` -/

theorem Pack.γc_set_of_not_mem {p : Pack N} {s : St V} {x : V} (k : Int) (hx : x ∉ p.vars) (h : Pack.γc p s) :
    Pack.γc p (s.set x k) := by
  intro t ht
  apply h
  intro v hv
  rw [ht v hv]
  unfold St.set
  split
  · rename_i he; subst he; exact absurd hv hx
  · rfl

/-- the value of the class of `x` after `-= x`, on the class without `x` or with it -/
theorem Pack.γc_forget {p : Pack N} {s : St V} {x : V} (k : Int) (h : Pack.γc p s) (vs : List V)
    (hvs : ∀ v ∈ p.vars, v = x ∨ v ∈ vs) : Pack.γc (⟨vs, N.forget p.val x⟩ : Pack N) (s.set x k) := by
  intro t ht
  have h0 : N.γ p.val (t.set x (s x)) := by
    apply h
    intro v hv
    unfold St.set
    split
    · rename_i he; rw [he]
    · rename_i hne
      rcases hvs v hv with he | hm
      · exact absurd he hne
      · have := ht v hm
        rw [this]; unfold St.set; simp [hne]
  have := N.forget_sound p.val x _ (t x) h0
  rwa [St.set_set, St.set_self] at this

/-- a class after `forget(x)` is a part of a class before -/
theorem ufForget_sub : ∀ {l : List (Pack N)} {x : V} {q : Pack N}, q ∈ ufForget l x →
    ∃ p ∈ l, ∀ v ∈ q.vars, v ∈ p.vars
  | [], _, q, h => by simp [ufForget] at h
  | a :: l, x, q, h => by
    unfold ufForget at h
    split at h
    · simp only at h
      split at h
      · exact ⟨q, List.mem_cons_of_mem _ h, fun v hv => hv⟩
      · rcases List.mem_cons.1 h with rfl | h
        · exact ⟨a, List.mem_cons_self, fun v hv => (List.mem_filter.1 hv).1⟩
        · exact ⟨q, List.mem_cons_of_mem _ h, fun v hv => hv⟩
    · rcases List.mem_cons.1 h with rfl | h
      · exact ⟨q, List.mem_cons_self, fun v hv => hv⟩
      · obtain ⟨p, hp, hs⟩ := ufForget_sub h
        exact ⟨p, List.mem_cons_of_mem _ hp, hs⟩

theorem ufForget_wfl : ∀ {l : List (Pack N)} (x : V), WFl l → WFl (ufForget l x)
  | [], _, h => by simpa [ufForget] using h
  | a :: l, x, h => by
    rw [wfl_cons] at h
    unfold ufForget
    split
    · simp only
      split
      · exact h.2.2
      · rename_i hne
        rw [wfl_cons]
        refine ⟨fun q hq v hv => h.1 q hq v (List.mem_filter.1 hv).1, ?_, h.2.2⟩
        intro he; apply hne; simp only at he; rw [he]; rfl
    · rw [wfl_cons]
      refine ⟨?_, h.2.1, ufForget_wfl x h.2.2⟩
      intro q hq v hv hvq
      obtain ⟨p, hp, hs⟩ := ufForget_sub hq
      exact h.1 p hp v hv (hs v hvq)

/-- `union_find_domain::forget(x)` is sound for "x becomes anything" -/
theorem ufForget_γc : ∀ {l : List (Pack N)} {s : St V} (x : V) (k : Int), WFl l → (∀ p ∈ l, Pack.γc p s) →
    ∀ q ∈ ufForget l x, Pack.γc q (s.set x k)
  | [], _, _, _, _, _, q, hq => by simp [ufForget] at hq
  | a :: l, s, x, k, hw, h, q, hq => by
    rw [wfl_cons] at hw
    unfold ufForget at hq
    split at hq
    · rename_i hc
      have hxa : x ∈ a.vars := List.contains_iff_mem.1 hc
      have hrest : ∀ q ∈ l, Pack.γc q (s.set x k) := fun q hq =>
        Pack.γc_set_of_not_mem k (hw.1 q hq x hxa) (h q (List.mem_cons_of_mem _ hq))
      simp only at hq
      split at hq
      · exact hrest q hq
      · rcases List.mem_cons.1 hq with rfl | hq
        · apply Pack.γc_forget k (h a List.mem_cons_self)
          intro v hv
          by_cases he : v = x
          · exact Or.inl he
          · exact Or.inr (List.mem_filter.2 ⟨hv, by simpa using he⟩)
        · exact hrest q hq
    · rename_i hc
      rcases List.mem_cons.1 hq with rfl | hq
      · exact Pack.γc_set_of_not_mem k (fun hx => hc (List.contains_iff_mem.2 hx)) (h q List.mem_cons_self)
      · exact ufForget_γc x k hw.2.2 (fun p hp => h p (List.mem_cons_of_mem _ hp)) q hq

theorem onPackOf_vars (g : N.B → N.B) : ∀ {l : List (Pack N)} {x : V} {q : Pack N}, q ∈ onPackOf g l x →
    ∃ p ∈ l, q.vars = p.vars
  | [], _, q, h => by simp [onPackOf] at h
  | a :: l, x, q, h => by
    unfold onPackOf at h
    split at h
    · rcases List.mem_cons.1 h with rfl | h
      · exact ⟨a, List.mem_cons_self, rfl⟩
      · exact ⟨q, List.mem_cons_of_mem _ h, rfl⟩
    · rcases List.mem_cons.1 h with rfl | h
      · exact ⟨q, List.mem_cons_self, rfl⟩
      · obtain ⟨p, hp, he⟩ := onPackOf_vars g h
        exact ⟨p, List.mem_cons_of_mem _ hp, he⟩

theorem onPackOf_wfl (g : N.B → N.B) : ∀ {l : List (Pack N)} (x : V), WFl l → WFl (onPackOf g l x)
  | [], _, h => by simpa [onPackOf] using h
  | a :: l, x, h => by
    rw [wfl_cons] at h
    unfold onPackOf
    split
    · rw [wfl_cons]; exact ⟨h.1, h.2.1, h.2.2⟩
    · rw [wfl_cons]
      refine ⟨?_, h.2.1, onPackOf_wfl g x h.2.2⟩
      intro q hq v hv hvq
      obtain ⟨p, hp, he⟩ := onPackOf_vars g hq
      exact h.1 p hp v hv (he ▸ hvq)

/-- `pack(x).val -= x` is sound for "x becomes anything" -/
theorem onPackOf_forget_γc : ∀ {l : List (Pack N)} {s : St V} (x : V) (k : Int), WFl l →
    (∀ p ∈ l, Pack.γc p s) → ∀ q ∈ onPackOf (fun b => N.forget b x) l x, Pack.γc q (s.set x k)
  | [], _, _, _, _, _, q, hq => by simp [onPackOf] at hq
  | a :: l, s, x, k, hw, h, q, hq => by
    rw [wfl_cons] at hw
    unfold onPackOf at hq
    split at hq
    · rename_i hc
      have hxa : x ∈ a.vars := List.contains_iff_mem.1 hc
      rcases List.mem_cons.1 hq with rfl | hq
      · exact Pack.γc_forget k (h a List.mem_cons_self) a.vars (fun v hv => Or.inr hv)
      · exact Pack.γc_set_of_not_mem k (hw.1 q hq x hxa) (h q (List.mem_cons_of_mem _ hq))
    · rename_i hc
      rcases List.mem_cons.1 hq with rfl | hq
      · exact Pack.γc_set_of_not_mem k (fun hx => hc (List.contains_iff_mem.2 hx)) (h q List.mem_cons_self)
      · exact onPackOf_forget_γc x k hw.2.2 (fun p hp => h p (List.mem_cons_of_mem _ hp)) q hq

/-! ### `operator-=`, `forget` -/

theorem forget1_wf (x : V) {a : PK N} (h : WF a) : WF (forget1 x a) := by
  cases a with
  | bot => trivial
  | packs l => exact ufForget_wfl x (onPackOf_wfl _ x h)

theorem forget1_sound (x : V) (k : Int) {a : PK N} (hw : WF a) {s : St V} (h : γc a s) :
    γc (forget1 x a) (s.set x k) := by
  cases a with
  | bot => exact h
  | packs l =>
    have h1 := onPackOf_forget_γc x k hw h
    have h2 := ufForget_γc x k (onPackOf_wfl _ x hw) h1
    intro q hq
    have := h2 q hq
    rwa [St.set_set] at this

theorem forgetAll_wf : ∀ (xs : List V) {a : PK N}, WF a → WF (forgetAll xs a)
  | [], _, h => h
  | x :: xs, a, h => by
    unfold forgetAll; simp only [List.foldl_cons]
    exact forgetAll_wf xs (forget1_wf x h)

theorem forgetAll_sound : ∀ (xs : List V) {a : PK N}, WF a → ∀ {s s' : St V}, γc a s → forgetRel xs s s' →
    γc (forgetAll xs a) s'
  | [], a, _, s, s', h, hr => by
    simp only [forgetRel] at hr; subst hr; exact h
  | x :: xs, a, hw, s, s', h, hr => by
    obtain ⟨k, hr⟩ := hr
    unfold forgetAll; simp only [List.foldl_cons]
    exact forgetAll_sound xs (forget1_wf x hw) (forget1_sound x k hw h) hr

end PK
end Fct
end Dom
end Crab
