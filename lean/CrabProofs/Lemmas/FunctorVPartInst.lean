import CrabProofs.Lemmas.FunctorVPartSep
import CrabProofs.Lemmas.FunctorInst
import CrabProofs.Lemmas.FunctorInstPack

/-!
Lawful bases for the examples of `Props/C03Functors2.lean`, `Props/C04Functors2.lean`:
 * `itvVDom`: the interval instance `itvDom` (one variable, the partitioning variable itself);
 * `constVDom`: the constants over three variables `constDom` (`dom[x]` is a singleton or top),
   used for the counterexamples, which need a second and a third variable;
and the values of the counterexample scenario (replayed on the real code: request line in the
final report of the component and in the header of `Props/C03Functors2.lean`).
-/
namespace Crab
namespace Dom
namespace Fct

open Crab.Bound

/-- `interval_domain` on the single variable `()` -/
@[reducible] def itvVDom : VDom Unit Int where
  toLDom := itvDom
  itvOf := fun b _ => b.1
  itvOf_bot := fun _ _ _ h => Itv.not_mem_of_isBottom h

/-- `dom[x]` of the constant domain -/
def cItvOf (b : Option CMap) (x : V3) : Itv :=
  match b with
  | none => Itv.bot
  | some m => match m x with
    | some k => Itv.single k
    | none => Itv.top

@[reducible] def constVDom : VDom V3 (St V3) where
  toLDom := constDom.toLDom
  itvOf := cItvOf
  itvOf_bot := by
    intro b x s h hg
    match b with
    | none => exact hg
    | some m =>
      unfold cItvOf at h
      simp only at h
      split at h
      · simp [Itv.isBottom, Itv.single, Bound.gt, Bound.le] at h
      · simp [Itv.isBottom, Itv.top, Bound.gt, Bound.le] at h

namespace VPartEx

/-- decidable membership in a partitioned interval value -/
def iMem (a : VP itvVDom) (k : Int) : Bool := a.parts.any (fun p => decide (Itv.mem k p.val.1))

theorem γ_of_iMem {a : VP itvVDom} {k : Int} (h : iMem a k = true) : VP.γ a k := by
  unfold iMem at h
  obtain ⟨p, hp, hm⟩ := List.any_eq_true.1 h
  exact ⟨p, hp, of_decide_eq_true hm⟩

/-- a constant map `x ↦ a, y ↦ b, f ↦ c` (`none` = unknown) -/
def cm (a b c : Option Int) : Option CMap :=
  some (fun v => match v with | 0 => a | 1 => b | 2 => c)

/-- the state `(x, y, f)` -/
def st (a b c : Int) : St V3 := fun v => match v with | 0 => a | 1 => b | 2 => c

/-- decidable membership in a constant value -/
def cMem (b : Option CMap) (s : St V3) : Bool :=
  match b with
  | none => false
  | some m => allV (fun v => match m v with | some k => decide (s v = k) | none => true)

theorem γ_of_cMem {b : Option CMap} {s : St V3} (h : cMem b s = true) : constDom.γ b s := by
  match b with
  | none => simp [cMem] at h
  | some m =>
    intro v k hk
    have h' : allV (fun v => match m v with | some k => decide (s v = k) | none => true) = true := h
    have := (allV_iff _).1 h' v
    rw [hk] at this
    simpa using this

/-- decidable membership in a partitioned value -/
def vMem (a : VP constVDom) (s : St V3) : Bool := a.parts.any (fun p => cMem p.val s)

theorem γ_of_vMem {a : VP constVDom} {s : St V3} (h : vMem a s = true) : VP.γ a s := by
  unfold vMem at h
  obtain ⟨p, hp, hm⟩ := List.any_eq_true.1 h
  exact ⟨p, hp, γ_of_cMem hm⟩

/-- three partitions on `x` with separated intervals: `x=0 → f=0`, `x=1 → y=1, f=0`, `x=2 → y=5, f=1` -/
def W0 : VP constVDom :=
  ⟨some 0, [⟨Itv.single 0, cm (some 0) none (some 0)⟩, ⟨Itv.single 1, cm (some 1) (some 1) (some 0)⟩,
            ⟨Itv.single 2, cm (some 2) (some 5) (some 1)⟩]⟩
/-- the same with the flag `f` exchanged -/
def Z0 : VP constVDom :=
  ⟨some 0, [⟨Itv.single 0, cm (some 0) none (some 1)⟩, ⟨Itv.single 1, cm (some 1) (some 1) (some 1)⟩,
            ⟨Itv.single 2, cm (some 2) (some 5) (some 0)⟩]⟩

/-- `x := y` (code after 8f4c9c7) -/
def xy : VP constVDom → VP constVDom := VP.assignOp 0 (cAssignV 0 1)

/-- `x := y` as the pinned tree computed it: per partition, then the OLD `update_partitions()` -/
def xyOld (a : VP constVDom) : VP constVDom := VP.updatePartsOld (VP.mapParts (cAssignV 0 1) a)

theorem inv_xyOld_W0 : (xyOld W0).Inv :=
  VP.inv_of_some (x := 0) (by rfl) (fun h => by have := congrArg List.length h; revert this; decide)
theorem inv_xyOld_Z0 : (xyOld Z0).Inv :=
  VP.inv_of_some (x := 0) (by rfl) (fun h => by have := congrArg List.length h; revert this; decide)

def keys (a : VP constVDom) : List Itv := a.parts.map (·.key)

/-- the value of `v` in partition `i` (`none` = unknown or no such partition) -/
def valAt (a : VP constVDom) (i : Nat) (v : V3) : Option Int :=
  match a.parts[i]? with
  | some p => (match p.val with | some m => m v | none => none)
  | none => none

end VPartEx

namespace VPartEx

/-- slots 0, 1: the two values the pinned tree reached by `x := y` (overlapping intervals) -/
def pool0 : Pool (VP constVDom) := fun i => if i = 0 then xyOld W0 else if i = 1 then xyOld Z0 else VP.top

/-- both slots hold `(5,5,0)` -/
def cpool0 : CPool (St V3) := fun i s => (i = 0 ∨ i = 1) ∧ s = st 5 5 0

end VPartEx

/-! ### the interval history of the non-vacuity examples of `Props/C03Functors2.lean` -/
namespace C03VPartEx
open VPartEx

def keys (a : VP itvVDom) : List Itv := a.parts.map (·.key)

def vals (a : VP itvVDom) : List Itv := a.parts.map (·.val.1)


/-- slot 0: `x = 0`, slot 1: `x ∈ [5,6]`, no partitioning yet -/
def pool : Pool (VP itvVDom) := fun i =>
  if i = 0 then ⟨none, [⟨Itv.top, WItv.mk 0 0⟩]⟩ else if i = 1 then ⟨none, [⟨Itv.top, WItv.mk 5 6⟩]⟩ else VP.top


def cpool : CPool Int := fun i s => (i = 0 ∧ s = 0) ∨ (i = 1 ∧ s = 5)


/-- partition start on both, `|`, `x := x + 6` -/
def ops : List (VP.Op itvVDom) :=
  [.vpStart 0 (), .vpStart 1 (), .join 2 0 1, .assign 2 () (itvAddK 6) (fun s s' => s' = s + 6)]


/-- afterwards: partition end on a copy, `&` of the copy with the partitioned value, `&` of the
    partitioned value with itself (element-wise: the guard `histOk` fires) -/
def ops2 : List (VP.Op itvVDom) := ops ++ [.copy 3 2, .vpEnd 3 (), .meet 3 3 2]


theorem ops_baseSound : ∀ op ∈ ops, op.BaseSound := by
  intro op hop
  simp only [ops, List.mem_cons, List.mem_nil_iff, or_false] at hop
  rcases hop with rfl | rfl | rfl | rfl
  · trivial
  · trivial
  · trivial
  · exact itvAddK_sound 6


theorem pool_inv : ∀ i, (pool i).Inv := by
  intro i; unfold pool
  split
  · exact VP.inv_single _ _
  · split <;> exact VP.inv_single _ _


theorem pool_sound : ∀ i s, cpool i s → VP.γ (pool i) s := by
  intro i s hc
  rcases hc with ⟨rfl, rfl⟩ | ⟨rfl, rfl⟩
  · exact γ_of_iMem (by decide)
  · exact γ_of_iMem (by decide)


end C03VPartEx

end Fct
end Dom
end Crab
