import CrabProofs.Lemmas.IntervalArith

/-! Soundness of interval multiplication (`interval::operator*`): the product of any two
    members lies between the minimum and the maximum of the four corner products, where
    corner products follow `bound::operator*` (0 * oo = 0). -/
namespace Crab
namespace Bound

/-- `B ⊗ b` : a bound scaled by a concrete integer -/
def scale (B : Bound) (b : Int) : Bound := Bound.mul B (fin b)

theorem mul_comm (a b : Bound) : Bound.mul a b = Bound.mul b a := by
  cases a <;> cases b <;> simp [Bound.mul, Bound.n, Bound.isInfinite, Bound.mkRaw, Int.mul_comm] <;>
    (try split) <;> (try split) <;> simp_all <;> omega

/-- Claim 1: for `l ≤ a ≤ u`, `a*b` lies between `l ⊗ b` and `u ⊗ b`. -/
theorem scale_between {l u : Bound} {a : Int} (b : Int)
    (h1 : le l (fin a) = true) (h2 : le (fin a) u = true) :
    le (min (scale l b) (scale u b)) (fin (a * b)) = true ∧
    le (fin (a * b)) (max (scale l b) (scale u b)) = true := by
  rcases Int.lt_trichotomy b 0 with hb | hb | hb
  · -- b < 0 : a*b ≥ u*b, a*b ≤ l*b
    constructor
    · refine le_trans (min_le_right _ _) ?_
      cases u with
      | ninf => simp at h2
      | pinf => simp [scale, Bound.mul, Bound.n, Bound.isInfinite, Bound.mkRaw]; split <;> (try split) <;> simp_all <;> omega
      | fin v =>
        simp at h2
        have := Int.mul_le_mul_of_nonpos_right h2 (Int.le_of_lt hb)
        simp [scale, Bound.mul, Bound.n, Bound.isInfinite, Bound.mkRaw]
        split
        · omega
        · split <;> simp_all <;> omega
    · refine le_trans ?_ (le_max_left _ _)
      cases l with
      | pinf => simp at h1
      | ninf => simp [scale, Bound.mul, Bound.n, Bound.isInfinite, Bound.mkRaw]; split <;> (try split) <;> simp_all <;> omega
      | fin v =>
        simp at h1
        have := Int.mul_le_mul_of_nonpos_right h1 (Int.le_of_lt hb)
        simp [scale, Bound.mul, Bound.n, Bound.isInfinite, Bound.mkRaw]
        split
        · omega
        · split <;> simp_all <;> omega
  · subst hb
    have e : ∀ B : Bound, scale B 0 = fin 0 := by
      intro B; simp [scale, Bound.mul, Bound.n]
    simp [e, min, max]
  · constructor
    · refine le_trans (min_le_left _ _) ?_
      cases l with
      | pinf => simp at h1
      | ninf => simp [scale, Bound.mul, Bound.n, Bound.isInfinite, Bound.mkRaw]; split <;> (try split) <;> simp_all <;> omega
      | fin v =>
        simp at h1
        have := Int.mul_le_mul_of_nonneg_right h1 (Int.le_of_lt hb)
        simp [scale, Bound.mul, Bound.n, Bound.isInfinite, Bound.mkRaw]
        split
        · omega
        · split <;> simp_all <;> omega
    · refine le_trans ?_ (le_max_right _ _)
      cases u with
      | ninf => simp at h2
      | pinf => simp [scale, Bound.mul, Bound.n, Bound.isInfinite, Bound.mkRaw]; split <;> (try split) <;> simp_all <;> omega
      | fin v =>
        simp at h2
        have := Int.mul_le_mul_of_nonneg_right h2 (Int.le_of_lt hb)
        simp [scale, Bound.mul, Bound.n, Bound.isInfinite, Bound.mkRaw]
        split
        · omega
        · split <;> simp_all <;> omega

theorem scale_fin (c b : Int) : scale (fin c) b = fin (c * b) := by
  simp [scale, Bound.mul, Bound.n, Bound.isInfinite, Bound.mkRaw]
  split
  · simp_all
  · split <;> simp_all

/-- Claim 2: for `l2 ≤ b ≤ u2`, `L ⊗ b` lies between `L * l2` and `L * u2`. -/
theorem mul_between (L : Bound) {l2 u2 : Bound} {b : Int}
    (h1 : le l2 (fin b) = true) (h2 : le (fin b) u2 = true) :
    le (min (Bound.mul L l2) (Bound.mul L u2)) (scale L b) = true ∧
    le (scale L b) (max (Bound.mul L l2) (Bound.mul L u2)) = true := by
  cases L with
  | fin c =>
    rw [mul_comm (fin c) l2, mul_comm (fin c) u2, scale_fin, Int.mul_comm c b]
    exact scale_between c h1 h2
  | pinf =>
    constructor
    · refine le_trans (min_le_left _ _) ?_
      cases l2 <;> simp_all [scale, Bound.mul, Bound.n, Bound.isInfinite, Bound.mkRaw] <;>
        (repeat' split) <;> simp_all <;> omega
    · refine le_trans ?_ (le_max_right _ _)
      cases u2 <;> simp_all [scale, Bound.mul, Bound.n, Bound.isInfinite, Bound.mkRaw] <;>
        (repeat' split) <;> simp_all <;> omega
  | ninf =>
    constructor
    · refine le_trans (min_le_right _ _) ?_
      cases u2 <;> simp_all [scale, Bound.mul, Bound.n, Bound.isInfinite, Bound.mkRaw] <;>
        (repeat' split) <;> simp_all <;> omega
    · refine le_trans ?_ (le_max_left _ _)
      cases l2 <;> simp_all [scale, Bound.mul, Bound.n, Bound.isInfinite, Bound.mkRaw] <;>
        (repeat' split) <;> simp_all <;> omega

theorem min_mono {a b c d : Bound} (h1 : le a c = true) (h2 : le b d = true) :
    le (min a b) (min c d) = true :=
  le_min (le_trans (min_le_left _ _) h1) (le_trans (min_le_right _ _) h2)

theorem max_mono {a b c d : Bound} (h1 : le a c = true) (h2 : le b d = true) :
    le (max a b) (max c d) = true :=
  max_le (le_trans h1 (le_max_left _ _)) (le_trans h2 (le_max_right _ _))

end Bound

namespace Itv
open Bound

theorem mul_sound {x y : Itv} {a b : Int} (ha : mem a x) (hb : mem b y) : mem (a * b) (mul x y) := by
  unfold mul
  simp [isBottom_false_of_mem ha, isBottom_false_of_mem hb]
  rw [mem_mk']
  obtain ⟨ha1, ha2⟩ := ha
  obtain ⟨hb1, hb2⟩ := hb
  have c1 := Bound.scale_between b ha1 ha2
  have cl := Bound.mul_between x.lb hb1 hb2
  have cu := Bound.mul_between x.ub hb1 hb2
  constructor
  · refine Bound.le_trans ?_ c1.1
    -- min4 ll lu ul uu = min ll (min lu (min ul uu)) ≤ min (min ll lu) (min ul uu)
    refine Bound.le_trans ?_ (Bound.min_mono cl.1 cu.1)
    unfold min4
    refine Bound.le_min (Bound.le_min (Bound.min_le_left _ _) ?_) (Bound.le_min ?_ ?_)
    · exact Bound.le_trans (Bound.min_le_right _ _) (Bound.min_le_left _ _)
    · exact Bound.le_trans (Bound.min_le_right _ _) (Bound.le_trans (Bound.min_le_right _ _) (Bound.min_le_left _ _))
    · exact Bound.le_trans (Bound.min_le_right _ _) (Bound.le_trans (Bound.min_le_right _ _) (Bound.min_le_right _ _))
  · refine Bound.le_trans c1.2 ?_
    refine Bound.le_trans (Bound.max_mono cl.2 cu.2) ?_
    unfold max4
    refine Bound.max_le (Bound.max_le (Bound.le_max_left _ _) ?_) (Bound.max_le ?_ ?_)
    · exact Bound.le_trans (Bound.le_max_left _ _) (Bound.le_max_right _ _)
    · exact Bound.le_trans (Bound.le_trans (Bound.le_max_left _ _) (Bound.le_max_right _ _)) (Bound.le_max_right _ _)
    · exact Bound.le_trans (Bound.le_trans (Bound.le_max_right _ _) (Bound.le_max_right _ _)) (Bound.le_max_right _ _)

end Itv
end Crab
