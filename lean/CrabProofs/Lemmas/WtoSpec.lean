import CrabModel.Graph.WtoCheck

/-!
# Declarative specification of a well-formed weak topological ordering (property C07)

`WtoWF g e w nest` : `w` is a weak topological ordering of the part of `g` reachable from `e`
and `nest` is its nesting function.  Everything here is a definition; the lemmas are in
`CrabProofs/Lemmas/Wto*.lean`, the property theorems in `CrabProofs/Props/C07.lean`.
-/
namespace Crab
namespace Wto

/-- `v` is reachable from `e` (reflexive transitive closure of the edge relation) -/
inductive Reach (g : Graph) (e : Nat) : Nat → Prop
  | refl : Reach g e e
  | step {u v : Nat} : Reach g e u → v ∈ g.succ u → Reach g e v

/-- `c` is a component of the ordering `l`, at any depth -/
inductive Sub : WtoC → List WtoC → Prop
  | here {c : WtoC} {l : List WtoC} : c ∈ l → Sub c l
  | inside {c : WtoC} {h : Nat} {body l : List WtoC} : WtoC.cycle h body ∈ l → Sub c body → Sub c l

/-- `u` occurs (strictly) before `v` in `l` -/
def Before (u v : Nat) (l : List Nat) : Prop := ∃ l1 l2 l3, l = l1 ++ u :: (l2 ++ v :: l3)

/-- `Encl l v hs` : `v` occurs in `l` and `hs` lists the heads of the cycles that strictly
    enclose that occurrence, outermost first (a head is not enclosed by its own cycle) -/
inductive Encl : List WtoC → Nat → List Nat → Prop
  | vertex {l : List WtoC} {v : Nat} : WtoC.vertex v ∈ l → Encl l v []
  | head {l : List WtoC} {v : Nat} {body : List WtoC} : WtoC.cycle v body ∈ l → Encl l v []
  | inner {l : List WtoC} {h : Nat} {body : List WtoC} {v : Nat} {hs : List Nat} :
      WtoC.cycle h body ∈ l → Encl body v hs → Encl l v (h :: hs)

/-- well-formed weak topological ordering of `g` from entry `e`, with nesting function `nest` -/
structure WtoWF (g : Graph) (e : Nat) (w : List WtoC) (nest : Nat → Option (List Nat)) : Prop where
  /-- the ordering lists exactly the nodes reachable from the entry -/
  nodes : ∀ v, v ∈ flattenL w ↔ Reach g e v
  /-- each of them exactly once -/
  nodup : (flattenL w).Nodup
  /-- every edge between reachable nodes goes forward in the ordering, or goes to the head of a
      component (cycle) that contains its source (a head belongs to its own component) -/
  edges : ∀ u v, Reach g e u → v ∈ g.succ u →
    Before u v (flattenL w) ∨ ∃ body, Sub (.cycle v body) w ∧ u ∈ flattenC (.cycle v body)
  /-- the nesting of a node = heads of the components strictly enclosing it, outermost first -/
  nest_some : ∀ v hs, Encl w v hs → nest v = some hs
  /-- no nesting for nodes outside the ordering -/
  nest_none : ∀ v, v ∉ flattenL w → nest v = none

end Wto
end Crab
