import CrabModel.Dom.Zones
import CrabProofs.Lemmas.DbmPotential
import CrabProofs.Lemmas.Interval

/-!
  Exactness of the canonical zone model on its constraint language (property C12): closure keeps
  γ, closed entries are tight, hence `isBottom`, `bounds`, `entails`, `join`, `meet`, `forget`, `leq`
  are exact.  For ALL `n` and ALL matrices.
-/
namespace Crab
namespace Zones
open Dbm

variable {n : Nat}

def updS (σ : State n) (x : Fin n) (t : Int) : State n := fun y => if y = x then t else σ y

/-! ### states and valuations -/

@[simp] theorem ext_zero (σ : State n) : ext σ 0 = 0 := rfl
@[simp] theorem ext_succ (σ : State n) (x : Fin n) : ext σ x.succ = σ x := rfl

theorem ext_stateOf (v : Fin (n + 1) → Int) (i : Fin (n + 1)) : ext (stateOf v) i = v i - v 0 := by
  refine Fin.cases ?_ (fun x => ?_) i
  · simp
  · simp [stateOf]

theorem sat_shift (m : Mat (n + 1)) (v : Fin (n + 1) → Int) (t : Int) :
    m.sat (fun i => v i - t) ↔ m.sat v := by
  constructor <;> intro h i j k hk <;> have := h i j k hk <;> simp only at * <;> omega

theorem sat_stateOf (m : Mat (n + 1)) (v : Fin (n + 1) → Int) : m.sat (ext (stateOf v)) ↔ m.sat v := by
  have : ext (stateOf v) = fun i => v i - v 0 := funext (ext_stateOf v)
  rw [this, sat_shift]

theorem Cst.sat_iff_entry (c : Cst n) (σ : State n) :
    c.sat σ ↔ ext σ c.row - ext σ c.col ≤ c.bound := by
  cases c <;> simp [Cst.sat, Cst.row, Cst.col, Cst.bound]

theorem ext_updS_of_ne (σ : State n) (x : Fin n) (t : Int) (i : Fin (n + 1)) (h : i ≠ x.succ) :
    ext (updS σ x t) i = ext σ i := by
  revert h
  refine Fin.cases ?_ (fun y => ?_) i
  · intro _; rfl
  · intro h
    have : y ≠ x := fun e => h (by rw [e])
    simp [updS, this]

theorem ext_updS_self (σ : State n) (x : Fin n) (t : Int) : ext (updS σ x t) x.succ = t := by
  simp [updS]

theorem updS_self (σ : State n) (x : Fin n) : updS σ x (σ x) = σ := by
  funext y; unfold updS; split
  · rename_i h; rw [h]
  · rfl

/-! ### closure -/

theorem close_preserves_γ (z : Zone n) (σ : State n) : γ (close z) σ ↔ γ z σ := Mat.fw_sat z (ext σ)

theorem close_LE (z : Zone n) : Mat.LE (close z) z := Mat.fw_LE z

theorem close_closed {z : Zone n} (h : isBottom z = false) : Mat.Closed (close z) := Mat.fw_closed h

theorem top_γ (σ : State n) : γ (top : Zone n) σ := Mat.top_sat _

theorem assumeCst_exact (z : Zone n) (c : Cst n) (σ : State n) :
    γ (assumeCst z c) σ ↔ (γ z σ ∧ c.sat σ) := by
  unfold γ assumeCst
  rw [Mat.addEdge_sat, Cst.sat_iff_entry]

theorem assumeAll_exact (z : Zone n) (cs : List (Cst n)) (σ : State n) :
    γ (assumeAll z cs) σ ↔ (γ z σ ∧ ∀ c ∈ cs, c.sat σ) := by
  unfold assumeAll
  induction cs generalizing z with
  | nil => simp
  | cons c cs ih =>
    rw [List.foldl_cons, ih, assumeCst_exact]
    simp only [List.mem_cons, forall_eq_or_imp]
    exact and_assoc

/-! ### bottom -/

theorem bottom_sound {z : Zone n} (h : isBottom z = true) (σ : State n) : ¬ γ z σ := by
  intro hσ
  exact Mat.not_sat_of_hasNegDiag h (ext σ) ((close_preserves_γ z σ).2 hσ)

/-- the witness state of row `i`: a state of `γ z` that attains the closed entries of row `i` -/
theorem witnessEdge_spec (z : Zone n) (hb : isBottom z = false) (i : Fin (n + 1)) (B : Int) :
    γ z (witnessEdge z i B) ∧
    ∀ j, (∀ d, (close z).get i j = some d → ext (witnessEdge z i B) i - ext (witnessEdge z i B) j = d) ∧
         ((close z).get i j = none → B < ext (witnessEdge z i B) i - ext (witnessEdge z i B) j) := by
  have hc := close_closed hb
  have hE := Mat.absSum_nonneg (close z)
  obtain ⟨A, hA1, hA2, hAe⟩ : ∃ A : Int, B ≤ A ∧ 0 ≤ A ∧ A = (if B < 0 then -B else B) :=
    ⟨_, by split <;> omega, by split <;> omega, rfl⟩
  have hw : witnessEdge z i B = stateOf ((close z).witness i (2 * (close z).absSum + A + 1)) := by
    simp only [witnessEdge, hAe]
  rw [hw]
  refine ⟨?_, fun j => ⟨?_, ?_⟩⟩
  · rw [← close_preserves_γ]
    unfold γ
    rw [sat_stateOf]
    exact Mat.witness_sat hc i _
  · intro d hd
    rw [ext_stateOf, ext_stateOf]
    have := Mat.witness_finite hc i j (L := 2 * (close z).absSum + A + 1) (by omega) hd
    omega
  · intro hd
    rw [ext_stateOf, ext_stateOf]
    have := Mat.witness_infinite hc i j (L := 2 * (close z).absSum + A + 1) (by omega) hd
    omega

theorem bottom_iff_unsat (z : Zone n) : isBottom z = true ↔ ¬ ∃ σ, γ z σ := by
  constructor
  · rintro h ⟨σ, hσ⟩
    exact bottom_sound h σ hσ
  · intro h
    cases hb : isBottom z
    · exact absurd ⟨_, (witnessEdge_spec z hb 0 0).1⟩ h
    · rfl

theorem isBottom_false_of_γ {z : Zone n} {σ : State n} (h : γ z σ) : isBottom z = false := by
  cases hb : isBottom z
  · rfl
  · exact absurd h (bottom_sound hb σ)

/-! ### tightness of the closed entries -/

/-- **closed_is_tight** on states: for a non-bottom `z`, each finite closed entry is attained by a
    state of `γ z`, and an infinite closed entry is unbounded over `γ z` -/
theorem closed_is_tight (z : Zone n) (hb : isBottom z = false) (i j : Fin (n + 1)) :
    (∀ σ, γ z σ → ∀ d, (close z).get i j = some d → ext σ i - ext σ j ≤ d) ∧
    (∀ d, (close z).get i j = some d → ∃ σ, γ z σ ∧ ext σ i - ext σ j = d) ∧
    ((close z).get i j = none → ∀ B : Int, ∃ σ, γ z σ ∧ B < ext σ i - ext σ j) := by
  refine ⟨?_, ?_, ?_⟩
  · intro σ hσ d hd
    exact (close_preserves_γ z σ).2 hσ i j d hd
  · intro d hd
    have := witnessEdge_spec z hb i 0
    exact ⟨_, this.1, (this.2 j).1 d hd⟩
  · intro hd B
    have := witnessEdge_spec z hb i B
    exact ⟨_, this.1, (this.2 j).2 hd⟩

/-- an in-language consequence of `z` is bounded by the closed entry -/
theorem entry_LE_of_implied (z : Zone n) (hb : isBottom z = false) (i j : Fin (n + 1)) (k : Int)
    (h : ∀ σ, γ z σ → ext σ i - ext σ j ≤ k) : W.LE ((close z).get i j) (some k) := by
  obtain ⟨_, h2, h3⟩ := closed_is_tight z hb i j
  cases hd : (close z).get i j with
  | none =>
    obtain ⟨σ, hσ, hlt⟩ := h3 hd k
    have := h σ hσ
    omega
  | some d =>
    obtain ⟨σ, hσ, he⟩ := h2 d hd
    have := h σ hσ
    exact W.LE_some_some.2 (by omega)

theorem entry_implied (z : Zone n) (i j : Fin (n + 1)) (k : Int)
    (h : W.LE ((close z).get i j) (some k)) (σ : State n) (hσ : γ z σ) : ext σ i - ext σ j ≤ k := by
  obtain ⟨d, hd, hdk⟩ := W.LE_some.1 h
  have := (close_preserves_γ z σ).2 hσ i j d hd
  omega

/-! ### entailment -/

theorem entails_iff_implied (z : Zone n) (c : Cst n) :
    entails z c = true ↔ ∀ σ, γ z σ → c.sat σ := by
  unfold entails entailsC
  rw [show isBottomC (close z) = isBottom z from rfl, Bool.or_eq_true, W.le_iff]
  constructor
  · rintro (h | h) σ hσ
    · exact absurd hσ (bottom_sound h σ)
    · exact (Cst.sat_iff_entry c σ).2 (entry_implied z _ _ _ h σ hσ)
  · intro h
    cases hb : isBottom z
    · right
      exact entry_LE_of_implied z hb _ _ _ (fun σ hσ => (Cst.sat_iff_entry c σ).1 (h σ hσ))
    · left; rfl

/-! ### bounds -/

theorem bounds_of_not_bottom {z : Zone n} (hb : isBottom z = false) (x : Fin n) :
    bounds z x = ⟨toLb ((close z).get 0 x.succ), toUb ((close z).get x.succ 0)⟩ := by
  unfold bounds boundsC
  rw [show isBottomC (close z) = isBottom z from rfl, hb]
  simp

theorem bounds_sound (z : Zone n) (σ : State n) (h : γ z σ) (x : Fin n) : Itv.mem (σ x) (bounds z x) := by
  have hb := isBottom_false_of_γ h
  rw [bounds_of_not_bottom hb]
  have hc := (close_preserves_γ z σ).2 h
  constructor
  · cases hd : (close z).get 0 x.succ with
    | none => simp [toLb, Bound.le]
    | some d =>
      have := hc 0 x.succ d hd
      simp only [ext_zero, ext_succ] at this
      simp only [toLb, Bound.le, decide_eq_true_eq]
      omega
  · cases hd : (close z).get x.succ 0 with
    | none => simp [toUb, Bound.le]
    | some d =>
      have := hc x.succ 0 d hd
      simp only [ext_zero, ext_succ] at this
      simp only [toUb, Bound.le, decide_eq_true_eq]
      omega

theorem bounds_tight_ub (z : Zone n) (hb : isBottom z = false) (x : Fin n) (k : Int)
    (h : (bounds z x).ub = .fin k) : ∃ σ, γ z σ ∧ σ x = k := by
  rw [bounds_of_not_bottom hb] at h
  cases hd : (close z).get x.succ 0 with
  | none => simp [hd, toUb] at h
  | some d =>
    simp only [hd, toUb, Bound.fin.injEq] at h
    obtain ⟨σ, hσ, he⟩ := (closed_is_tight z hb x.succ 0).2.1 d hd
    simp only [ext_zero, ext_succ] at he
    exact ⟨σ, hσ, by omega⟩

theorem bounds_tight_lb (z : Zone n) (hb : isBottom z = false) (x : Fin n) (k : Int)
    (h : (bounds z x).lb = .fin k) : ∃ σ, γ z σ ∧ σ x = k := by
  rw [bounds_of_not_bottom hb] at h
  cases hd : (close z).get 0 x.succ with
  | none => simp [hd, toLb] at h
  | some d =>
    simp only [hd, toLb, Bound.fin.injEq] at h
    obtain ⟨σ, hσ, he⟩ := (closed_is_tight z hb 0 x.succ).2.1 d hd
    simp only [ext_zero, ext_succ] at he
    exact ⟨σ, hσ, by omega⟩

theorem bounds_unbounded_ub (z : Zone n) (hb : isBottom z = false) (x : Fin n)
    (h : (bounds z x).ub = .pinf) (B : Int) : ∃ σ, γ z σ ∧ B < σ x := by
  rw [bounds_of_not_bottom hb] at h
  cases hd : (close z).get x.succ 0 with
  | some d => simp [hd, toUb] at h
  | none =>
    obtain ⟨σ, hσ, he⟩ := (closed_is_tight z hb x.succ 0).2.2 hd B
    simp only [ext_zero, ext_succ] at he
    exact ⟨σ, hσ, by omega⟩

theorem bounds_unbounded_lb (z : Zone n) (hb : isBottom z = false) (x : Fin n)
    (h : (bounds z x).lb = .ninf) (B : Int) : ∃ σ, γ z σ ∧ σ x < B := by
  rw [bounds_of_not_bottom hb] at h
  cases hd : (close z).get 0 x.succ with
  | some d => simp [hd, toLb] at h
  | none =>
    obtain ⟨σ, hσ, he⟩ := (closed_is_tight z hb 0 x.succ).2.2 hd (-B)
    simp only [ext_zero, ext_succ] at he
    exact ⟨σ, hσ, by omega⟩

theorem bounds_bottom {z : Zone n} (hb : isBottom z = true) (x : Fin n) : bounds z x = Itv.bot := by
  unfold bounds boundsC
  rw [show isBottomC (close z) = isBottom z from rfl, hb]
  simp

/-! ### meet -/

theorem pmin_sat (a b : Mat (n + 1)) (v : Fin (n + 1) → Int) : (Mat.pmin a b).sat v ↔ (a.sat v ∧ b.sat v) := by
  constructor
  · intro h
    constructor
    · refine Mat.sat_of_LE (a := Mat.pmin a b) (fun i j => ?_) h
      simp only [Mat.pmin, Mat.get_ofFn]; exact W.min_LE_left _ _
    · refine Mat.sat_of_LE (a := Mat.pmin a b) (fun i j => ?_) h
      simp only [Mat.pmin, Mat.get_ofFn]; exact W.min_LE_right _ _
  · rintro ⟨ha, hb⟩
    rw [Mat.sat_iff]
    intro i j
    simp only [Mat.pmin, Mat.get_ofFn]
    exact W.LE_min ((Mat.sat_iff _ _).1 ha i j) ((Mat.sat_iff _ _).1 hb i j)

theorem meet_exact (a b : Zone n) (σ : State n) : γ (meet a b) σ ↔ (γ a σ ∧ γ b σ) := pmin_sat a b _

/-! ### join -/

theorem join_upper (a b : Zone n) (σ : State n) (h : γ a σ ∨ γ b σ) : γ (join a b) σ := by
  unfold join
  cases ha : isBottom a
  · cases hb : isBottom b
    · simp only [Bool.false_eq_true, if_false]
      unfold γ
      rw [Mat.sat_iff]
      intro i j
      simp only [Mat.pmax, Mat.get_ofFn]
      rcases h with h | h
      · exact W.LE_trans ((Mat.sat_iff _ _).1 ((close_preserves_γ a σ).2 h) i j) (W.LE_max_left _ _)
      · exact W.LE_trans ((Mat.sat_iff _ _).1 ((close_preserves_γ b σ).2 h) i j) (W.LE_max_right _ _)
    · simp only [Bool.false_eq_true, if_false, if_true]
      rcases h with h | h
      · exact h
      · exact absurd h (bottom_sound hb σ)
  · simp only [if_true]
    rcases h with h | h
    · exact absurd h (bottom_sound ha σ)
    · exact h

/-- the join is below every zone that contains both arguments -/
theorem join_least (a b c : Zone n) (ha : ∀ σ, γ a σ → γ c σ) (hb : ∀ σ, γ b σ → γ c σ)
    (σ : State n) (h : γ (join a b) σ) : γ c σ := by
  unfold join at h
  cases hba : isBottom a
  · cases hbb : isBottom b
    · simp only [hba, hbb, Bool.false_eq_true, if_false] at h
      intro i j k hk
      have h1 := entry_LE_of_implied a hba i j k (fun τ hτ => ha τ hτ i j k hk)
      have h2 := entry_LE_of_implied b hbb i j k (fun τ hτ => hb τ hτ i j k hk)
      have h3 : W.LE ((Mat.pmax (close a) (close b)).get i j) (some k) := by
        simp only [Mat.pmax, Mat.get_ofFn]
        exact W.max_LE_iff.2 ⟨h1, h2⟩
      obtain ⟨d, hd, hdk⟩ := W.LE_some.1 h3
      have := h i j d hd
      omega
    · simp only [hba, hbb, Bool.false_eq_true, if_false, if_true] at h
      exact ha σ h
  · simp only [hba, if_true] at h
    exact hb σ h

/-! ### inclusion -/

theorem leq_iff (a b : Zone n) : leq a b = true ↔ ∀ σ, γ a σ → γ b σ := by
  unfold leq
  rw [Bool.or_eq_true]
  constructor
  · rintro (h | h) σ hσ
    · exact absurd hσ (bottom_sound h σ)
    · intro i j k hk
      simp only [List.all_eq_true] at h
      have := h i (List.mem_finRange i) j (List.mem_finRange j)
      rw [W.le_iff, hk] at this
      exact entry_implied a i j k this σ hσ
  · intro h
    cases hb : isBottom a
    · right
      simp only [List.all_eq_true]
      intro i _ j _
      rw [W.le_iff]
      intro k hk
      exact entry_LE_of_implied a hb i j k (fun σ hσ => h σ hσ i j k hk) k rfl
    · left; rfl

/-! ### forget (projection) -/

theorem forget_sound (z : Zone n) (x : Fin n) (σ : State n) (t : Int) (h : γ z (updS σ x t)) :
    γ (forget z x) σ := by
  have hb := isBottom_false_of_γ h
  unfold forget
  simp only [hb, Bool.false_eq_true, if_false]
  have hc := (close_preserves_γ z _).2 h
  intro i j k hk
  simp only [Mat.dropIdx, Mat.get_ofFn] at hk
  split at hk
  · cases hk
  · rename_i hne
    simp only [Bool.or_eq_true, decide_eq_true_eq, not_or] at hne
    have := hc i j k hk
    rw [ext_updS_of_ne _ _ _ _ hne.1, ext_updS_of_ne _ _ _ _ hne.2] at this
    exact this

/-- a value for the forgotten variable compatible with all its closed constraints -/
theorem forget_complete (z : Zone n) (hb : isBottom z = false) (x : Fin n) (σ : State n)
    (h : γ (forget z x) σ) : ∃ t, γ z (updS σ x t) := by
  have hc := close_closed hb
  unfold forget at h
  simp only [hb, Bool.false_eq_true, if_false] at h
  -- constraints between the other indices
  have hrest : ∀ i j k, i ≠ x.succ → j ≠ x.succ → (close z).get i j = some k → ext σ i - ext σ j ≤ k := by
    intro i j k hi hj hk
    apply h i j k
    simp only [Mat.dropIdx, Mat.get_ofFn, hi, hj, decide_false, Bool.or_false, Bool.false_eq_true, if_false]
    exact hk
  let X := x.succ
  -- upper constraints  t ≤ c X j + v j, lower constraints  -t ≤ c i X - v i
  let up : Fin (n + 1) → W := fun j => if j = X then none else W.add ((close z).get X j) (some (ext σ j))
  let lo : Fin (n + 1) → W := fun i => if i = X then none else W.add ((close z).get i X) (some (-ext σ i))
  -- the choice of t
  have key : ∃ t : Int, (∀ j b, up j = some b → t ≤ b) ∧ (∀ i a, lo i = some a → -t ≤ a) := by
    rcases Mat.minOver_eq up with hB | ⟨j0, hB⟩
    · -- no upper constraint
      have hnoup : ∀ j b, up j = some b → False := by
        intro j b hj
        have := Mat.minOver_LE up j
        rw [hB, hj] at this
        obtain ⟨_, hx, _⟩ := this b rfl
        cases hx
      rcases Mat.minOver_eq lo with hA | ⟨i0, hA⟩
      · refine ⟨0, fun j b hj => (hnoup j b hj).elim, ?_⟩
        intro i a hi
        have := Mat.minOver_LE lo i
        rw [hA, hi] at this
        obtain ⟨_, hx, _⟩ := this a rfl
        cases hx
      · cases hlo : lo i0 with
        | none =>
          refine ⟨0, fun j b hj => (hnoup j b hj).elim, ?_⟩
          intro i a hi
          have := Mat.minOver_LE lo i
          rw [hA, hlo, hi] at this
          obtain ⟨_, hx, _⟩ := this a rfl
          cases hx
        | some a0 =>
          refine ⟨-a0, fun j b hj => (hnoup j b hj).elim, ?_⟩
          intro i a hi
          have := Mat.minOver_LE lo i
          rw [hA, hlo, hi] at this
          have := W.LE_some_some.1 this
          omega
    · cases hup : up j0 with
      | none =>
        -- the minimum is +∞: no upper constraints
        have hnoup : ∀ j b, up j = some b → False := by
          intro j b hj
          have := Mat.minOver_LE up j
          rw [hB, hup, hj] at this
          obtain ⟨_, hx, _⟩ := this b rfl
          cases hx
        rcases Mat.minOver_eq lo with hA | ⟨i0, hA⟩
        · refine ⟨0, fun j b hj => (hnoup j b hj).elim, ?_⟩
          intro i a hi
          have := Mat.minOver_LE lo i
          rw [hA, hi] at this
          obtain ⟨_, hx, _⟩ := this a rfl
          cases hx
        · cases hlo : lo i0 with
          | none =>
            refine ⟨0, fun j b hj => (hnoup j b hj).elim, ?_⟩
            intro i a hi
            have := Mat.minOver_LE lo i
            rw [hA, hlo, hi] at this
            obtain ⟨_, hx, _⟩ := this a rfl
            cases hx
          | some a0 =>
            refine ⟨-a0, fun j b hj => (hnoup j b hj).elim, ?_⟩
            intro i a hi
            have := Mat.minOver_LE lo i
            rw [hA, hlo, hi] at this
            have := W.LE_some_some.1 this
            omega
      | some b0 =>
        refine ⟨b0, ?_, ?_⟩
        · intro j b hj
          have := Mat.minOver_LE up j
          rw [hB, hup, hj] at this
          exact W.LE_some_some.1 this
        · intro i a hi
          -- unfold the two attained constraints
          have hj0 : j0 ≠ X := by
            intro e; simp only [up, e, if_true] at hup; cases hup
          have hi0 : i ≠ X := by
            intro e; simp only [lo, e, if_true] at hi; cases hi
          simp only [up, hj0, if_false] at hup
          simp only [lo, hi0, if_false] at hi
          obtain ⟨p, q, hp, hq, rfl⟩ := W.add_some_iff.1 hup
          obtain ⟨r, s, hr, hs, rfl⟩ := W.add_some_iff.1 hi
          cases hq; cases hs
          -- triangle: c i j0 ≤ c i X + c X j0
          have htri := hc.tri i j0 X
          rw [hr, hp] at htri
          obtain ⟨w, hw, hwl⟩ := htri _ rfl
          have := hrest i j0 w hi0 hj0 hw
          omega
  obtain ⟨t, hup, hlo⟩ := key
  refine ⟨t, ?_⟩
  rw [← close_preserves_γ]
  intro i j k hk
  by_cases hi : i = X
  · by_cases hj : j = X
    · subst hi; subst hj
      rw [hc.diag] at hk; cases hk; omega
    · subst hi
      rw [ext_updS_self, ext_updS_of_ne _ _ _ _ hj]
      have := hup j (k + ext σ j) (by simp only [up, hj, if_false, hk, W.add])
      omega
  · by_cases hj : j = X
    · subst hj
      rw [ext_updS_self, ext_updS_of_ne _ _ _ _ hi]
      have := hlo i (k + -ext σ i) (by simp only [lo, hi, if_false, hk, W.add])
      omega
    · rw [ext_updS_of_ne _ _ _ _ hi, ext_updS_of_ne _ _ _ _ hj]
      exact hrest i j k hi hj hk

theorem forget_exact (z : Zone n) (x : Fin n) (σ : State n) :
    γ (forget z x) σ ↔ ∃ t, γ z (updS σ x t) := by
  constructor
  · intro h
    cases hb : isBottom z
    · exact forget_complete z hb x σ h
    · unfold forget at h
      simp only [hb, if_true] at h
      exact absurd h (bottom_sound hb σ)
  · rintro ⟨t, h⟩
    exact forget_sound z x σ t h

end Zones
end Crab
