import CrabProofs.Lemmas.BwdSound

/-!
  The executable reachability test `reachesExitB` is sound for `ReachesExit`; hence the decidable
  hypothesis `assertsReachExitB` ("every block that contains an assertion can reach the exit
  block") under which the backward analysis accounts for every assertion.
-/
namespace Crab
namespace Bwd

theorem getD_map_range (n : Nat) (f : Nat → Bool) (i : Nat)
    (h : ((List.range n).map f).getD i false = true) : f i = true := by
  by_cases hi : i < n
  · simpa [List.getD_eq_getElem?_getD, List.getElem?_map, List.getElem?_range hi] using h
  · have : (List.range n)[i]? = none := by
      apply List.getElem?_eq_none; simp; omega
    simp [List.getD_eq_getElem?_getD, List.getElem?_map, this] at h

/-- every `true` entry of `reachSet` is a block from which a goal block is reachable -/
theorem reachSet_sound (p : Prog) (goal : Nat → Bool) (R : Nat → Prop)
    (hgoal : ∀ i, goal i = true → R i)
    (hedge : ∀ n m, m ∈ (p.block n).succs → R m → R n) (fuel : Nat) :
    ∀ i, (reachSet p goal fuel).getD i false = true → R i := by
  unfold reachSet
  induction fuel with
  | zero =>
    intro i h
    simp only [List.range_zero, List.foldl_nil] at h
    exact hgoal i (getD_map_range _ _ i h)
  | succ k ih =>
    intro i h
    rw [List.range_succ, List.foldl_append] at h
    simp only [List.foldl_cons, List.foldl_nil] at h
    have h' := getD_map_range _ _ i h
    simp only [Bool.or_eq_true, List.any_eq_true] at h'
    rcases h' with h' | ⟨m, hm, h'⟩
    · exact ih i h'
    · exact hedge i m hm (ih m h')

theorem reachesExitB_sound (p : Prog) (n : Nat) (h : reachesExitB p n = true) : ReachesExit p n := by
  unfold reachesExitB at h
  refine reachSet_sound p (fun i => i == p.exit) (ReachesExit p) ?_ ?_ _ n h
  · intro i hi
    have : i = p.exit := by simpa using hi
    subst this; exact ReachesExit.here
  · intro n m hm hr; exact ReachesExit.edge n m hm hr

/-- decidable form of "every block containing an assertion can reach the exit block" -/
def assertsReachExitB (p : Prog) : Bool :=
  (List.range p.blocks.length).all (fun n =>
    !((p.block n).stmts.any Stmt.isAssert) || reachesExitB p n)

theorem assertsReachExitB_sound (p : Prog) (h : assertsReachExitB p = true) :
    ∀ n, (∃ s ∈ (p.block n).stmts, s.isAssert = true) → ReachesExit p n := by
  intro n ⟨s, hs, ha⟩
  by_cases hn : n < p.blocks.length
  · unfold assertsReachExitB at h
    rw [List.all_eq_true] at h
    have hn' := h n (by simp [hn])
    simp only [Bool.or_eq_true, Bool.not_eq_true'] at hn'
    rcases hn' with hno | hr
    · have : (p.block n).stmts.any Stmt.isAssert = true := List.any_eq_true.2 ⟨s, hs, ha⟩
      rw [this] at hno; cases hno
    · exact reachesExitB_sound p n hr
  · -- outside the program: the default block has no statements
    have : p.block n = ⟨[], []⟩ := by
      unfold Prog.block
      rw [List.getD_eq_getElem?_getD, List.getElem?_eq_none (by omega)]
      rfl
    rw [this] at hs
    cases hs

end Bwd
end Crab
