import CrabModel.Scalar.Interval

/-! Helper lemmas about `Crab.Bound` (order, min/max, arithmetic on finite bounds). -/
namespace Crab
namespace Bound

@[simp] theorem le_fin_fin (a b : Int) : le (fin a) (fin b) = decide (a ≤ b) := rfl
@[simp] theorem le_ninf (b : Bound) : le ninf b = true := by cases b <;> rfl
@[simp] theorem le_pinf (b : Bound) : le b pinf = true := by cases b <;> rfl
@[simp] theorem le_fin_ninf (a : Int) : le (fin a) ninf = false := rfl
@[simp] theorem le_pinf_fin (a : Int) : le pinf (fin a) = false := rfl
@[simp] theorem le_pinf_ninf : le pinf ninf = false := rfl

theorem le_refl (a : Bound) : le a a = true := by cases a <;> simp

theorem le_trans {a b c : Bound} (h1 : le a b = true) (h2 : le b c = true) : le a c = true := by
  cases a <;> cases b <;> cases c <;> simp_all <;> omega

theorem le_total (a b : Bound) : le a b = true ∨ le b a = true := by
  cases a <;> cases b <;> simp <;> omega

theorem le_antisymm {a b : Bound} (h1 : le a b = true) (h2 : le b a = true) : a = b := by
  cases a <;> cases b <;> simp_all <;> omega

theorem not_le {a b : Bound} (h : le a b = false) : le b a = true := by
  cases a <;> cases b <;> simp_all <;> omega

theorem gt_iff (a b : Bound) : gt a b = true ↔ le a b = false := by simp [gt]
theorem lt_iff (a b : Bound) : lt a b = true ↔ le b a = false := by simp [lt, ge]

theorem min_le_left (a b : Bound) : le (min a b) a = true := by
  unfold min; split
  · exact le_refl a
  · rename_i h; exact not_le (Bool.eq_false_iff.mpr h)

theorem min_le_right (a b : Bound) : le (min a b) b = true := by
  unfold min; split
  · assumption
  · exact le_refl b

theorem le_min {a b c : Bound} (h1 : le c a = true) (h2 : le c b = true) : le c (min a b) = true := by
  unfold min; split <;> assumption

theorem le_max_left (a b : Bound) : le a (max a b) = true := by
  unfold max; split
  · assumption
  · exact le_refl a

theorem le_max_right (a b : Bound) : le b (max a b) = true := by
  unfold max; split
  · exact le_refl b
  · rename_i h; exact not_le (Bool.eq_false_iff.mpr h)

theorem max_le {a b c : Bound} (h1 : le a c = true) (h2 : le b c = true) : le (max a b) c = true := by
  unfold max; split <;> assumption

theorem min_eq_or (a b : Bound) : min a b = a ∨ min a b = b := by unfold min; split <;> simp
theorem max_eq_or (a b : Bound) : max a b = a ∨ max a b = b := by unfold max; split <;> simp

end Bound
end Crab
