import CrabModel.Dom.Functors.Powerset

/-!
Soundness of the lattice part of `powerset_domain` (`Crab.Dom.Fct.PSet`) w.r.t. `γ` = union of the
disjuncts, from the laws of `LDom` and `TopSound` (a yes of the base `is_top` means every state:
the early returns of `|`, `|=`, `<=` trust it).
-/
namespace Crab
namespace Dom
namespace Fct

variable {S : Type}

namespace PSet
variable {D : LDom S}

theorem not_γ_of_isBottom {ps : PSet D} (h : isBottom ps = true) (s : S) : ¬ γ ps s := by
  rintro ⟨d, hd, hg⟩
  exact D.isBot_sound d s (List.all_eq_true.1 h d hd) hg

theorem isBottom_false_of_γ {ps : PSet D} {s : S} (h : γ ps s) : isBottom ps = false := by
  cases hb : isBottom ps
  · rfl
  · exact absurd h (not_γ_of_isBottom hb s)

theorem γ_of_isTop (t : D.TopSound) {ps : PSet D} (h : isTop ps = true) (s : S) : γ ps s := by
  obtain ⟨d, hd, ht⟩ := List.any_eq_true.1 h
  exact ⟨d, hd, t d s ht⟩

theorem γ_top (s : S) : γ (top : PSet D) s := ⟨D.top, by simp [top], D.top_sound s⟩

theorem not_γ_bottom (s : S) : ¬ γ (bottom : PSet D) s := by
  rintro ⟨d, hd, hg⟩
  simp only [bottom, List.mem_singleton] at hd
  subst hd
  exact D.bot_sound s hg

theorem not_γ_nil (s : S) : ¬ γ ([] : PSet D) s := by rintro ⟨d, hd, _⟩; simp at hd

theorem γ_singleton (d : D.B) (s : S) : γ ([d] : PSet D) s ↔ D.γ d s := by
  constructor
  · rintro ⟨x, hx, hg⟩; simp only [List.mem_singleton] at hx; subst hx; exact hg
  · intro h; exact ⟨d, by simp, h⟩

theorem γ_append (a b : List D.B) (s : S) : γ (a ++ b : PSet D) s ↔ γ (a : PSet D) s ∨ γ (b : PSet D) s := by
  constructor
  · rintro ⟨d, hd, hg⟩
    rcases List.mem_append.1 hd with h | h
    · exact Or.inl ⟨d, h, hg⟩
    · exact Or.inr ⟨d, h, hg⟩
  · rintro (⟨d, hd, hg⟩ | ⟨d, hd, hg⟩)
    · exact ⟨d, List.mem_append_left _ hd, hg⟩
    · exact ⟨d, List.mem_append_right _ hd, hg⟩

theorem γ_cons (d : D.B) (ds : List D.B) (s : S) : γ (d :: ds : PSet D) s ↔ D.γ d s ∨ γ (ds : PSet D) s := by
  have := γ_append [d] ds s
  simp only [List.singleton_append] at this
  rw [this, γ_singleton]

theorem normalizeIfTop_sound {ps : PSet D} {s : S} (h : γ ps s) : γ (normalizeIfTop ps) s := by
  unfold normalizeIfTop; split
  · exact γ_top s
  · exact h

theorem normalizeIfTop_lower (t : D.TopSound) {ps : PSet D} {s : S} (h : γ (normalizeIfTop ps) s) : γ ps s := by
  unfold normalizeIfTop at h; split at h
  · rename_i ht; exact γ_of_isTop t ht s
  · exact h

theorem foldl_join_sound (ds : List D.B) (d : D.B) (s : S) (h : D.γ d s ∨ γ (ds : PSet D) s) :
    D.γ (ds.foldl D.join d) s := by
  induction ds generalizing d with
  | nil => exact h.elim id (fun h => absurd h (not_γ_nil s))
  | cons x xs ih =>
    simp only [List.foldl_cons]
    apply ih
    rcases h with h | h
    · exact Or.inl (D.join_l _ _ s h)
    · rcases (γ_cons x xs s).1 h with h | h
      · exact Or.inl (D.join_r _ _ s h)
      · exact Or.inr h

/-- the smashed value contains every disjunct -/
theorem smash_sound {ps : PSet D} {s : S} (h : γ ps s) : D.γ (smash ps) s := by
  unfold smash
  rw [isBottom_false_of_γ h]
  simp only [Bool.false_eq_true, if_false]
  split
  · exact D.top_sound s
  · cases ps with
    | nil => exact absurd h (not_γ_nil s)
    | cons d ds => exact foldl_join_sound ds d s ((γ_cons d ds s).1 h)

theorem smashInPlace_sound {ps : PSet D} {s : S} (h : γ ps s) : γ (smashInPlace ps) s := by
  unfold smashInPlace
  rw [isBottom_false_of_γ h]
  simp only [Bool.false_eq_true, if_false]
  by_cases ht : isTop ps = true
  · simp only [ht, if_true, top, List.foldl_nil]
    exact (γ_singleton _ s).2 (D.top_sound s)
  · simp only [ht]
    cases ps with
    | nil => exact absurd h (not_γ_nil s)
    | cons d ds =>
      simp only [Bool.false_eq_true, if_false]
      rw [γ_singleton]
      exact foldl_join_sound ds d s ((γ_cons d ds s).1 h)

theorem ofVec_sound (P : PParams) {ps : PSet D} {s : S} (h : γ ps s) : γ (ofVec P ps) s := by
  unfold ofVec
  simp only
  split
  · exact smashInPlace_sound (normalizeIfTop_sound h)
  · exact normalizeIfTop_sound h

theorem ofDom_sound {d : D.B} {s : S} (h : D.γ d s) : γ (ofDom d) s :=
  normalizeIfTop_sound ((γ_singleton d s).2 h)

theorem insert_sound {vec : PSet D} {d : D.B} {s : S} (h : γ vec s ∨ D.γ d s) : γ (insert vec d) s := by
  unfold insert
  split
  · rename_i hin
    rcases h with h | h
    · exact h
    · obtain ⟨v, hv, hl⟩ := List.any_eq_true.1 hin
      exact ⟨v, hv, D.leq_sound _ _ s hl h⟩
  · rw [γ_append, γ_singleton]; exact h

theorem append_sound (v2 : List D.B) {v1 : PSet D} {s : S} (h : γ v1 s ∨ γ (v2 : PSet D) s) : γ (append v1 v2) s := by
  unfold append
  induction v2 generalizing v1 with
  | nil => exact h.elim id (fun h => absurd h (not_γ_nil s))
  | cons x xs ih =>
    simp only [List.foldl_cons]
    apply ih
    rcases h with h | h
    · exact Or.inl (insert_sound (Or.inl h))
    · rcases (γ_cons x xs s).1 h with h | h
      · exact Or.inl (insert_sound (Or.inr h))
      · exact Or.inr h

/-! ### upper bounds -/

theorem join_sound (t : D.TopSound) (P : PParams) {a b : PSet D} {s : S} (h : γ a s ∨ γ b s) : γ (join P a b) s := by
  unfold join
  split
  · rename_i hc
    rcases h with h | h
    · rcases Bool.or_eq_true _ _ ▸ hc with hc | hc
      · exact absurd h (not_γ_of_isBottom hc s)
      · exact γ_of_isTop t hc s
    · exact h
  · split
    · rename_i hc
      rcases h with h | h
      · exact h
      · rcases Bool.or_eq_true _ _ ▸ hc with hc | hc
        · exact absurd h (not_γ_of_isBottom hc s)
        · exact γ_of_isTop t hc s
    · exact ofVec_sound P (append_sound b h)

theorem joinEq_sound (t : D.TopSound) (P : PParams) {a b : PSet D} {s : S} (h : γ a s ∨ γ b s) :
    γ (joinEq P a b) s := by
  unfold joinEq
  split
  · rename_i hc
    rcases h with h | h
    · exact h
    · rcases Bool.or_eq_true _ _ ▸ hc with hc | hc
      · exact γ_of_isTop t hc s
      · exact absurd h (not_γ_of_isBottom hc s)
  · split
    · rename_i hc
      exact h.elim (fun h => absurd h (not_γ_of_isBottom hc s)) id
    · split
      · exact γ_top s
      · simp only
        split
        · exact smashInPlace_sound (append_sound b h)
        · exact append_sound b h

theorem widenWith_sound {w : D.B → D.B → D.B} (hw : D.USound w) {a b : PSet D} {s : S} (h : γ a s ∨ γ b s) :
    γ (widenWith w a b) s := by
  unfold widenWith
  apply ofDom_sound
  rcases h with h | h
  · exact hw _ _ s (Or.inl (smash_sound h))
  · exact hw _ _ s (Or.inr (smash_sound h))

/-! ### lower bounds -/

theorem meetPairs_sound {a b : PSet D} {s : S} (ha : γ a s) (hb : γ b s) : γ (meetPairs a b) s := by
  obtain ⟨x, hx, gx⟩ := ha
  obtain ⟨y, hy, gy⟩ := hb
  have gm := D.meet_sound x y s gx gy
  refine ⟨D.meet x y, ?_, gm⟩
  unfold meetPairs
  rw [List.mem_flatMap]
  refine ⟨x, hx, ?_⟩
  rw [List.mem_filter]
  exact ⟨List.mem_map.2 ⟨y, hy, rfl⟩, by simp [D.isBot_false_of_γ gm]⟩

theorem meet_sound (P : PParams) {a b : PSet D} {s : S} (ha : γ a s) (hb : γ b s) : γ (meet P a b) s := by
  unfold meet
  split
  · unfold meetWith
    rw [isBottom_false_of_γ ha, isBottom_false_of_γ hb]
    simp only [Bool.or_self, Bool.false_eq_true, if_false]
    split
    · exact hb
    · split
      · exact ha
      · exact ofVec_sound P (meetPairs_sound ha hb)
  · exact ofDom_sound (D.meet_sound _ _ s (smash_sound ha) (smash_sound hb))

theorem narrow_sound {a b : PSet D} {s : S} (ha : γ a s) (hb : γ b s) : γ (narrow a b) s :=
  ofDom_sound (D.narrow_sound _ _ s (smash_sound ha) (smash_sound hb))

/-! ### `operator<=` -/

theorem leq_sound (t : D.TopSound) {a b : PSet D} {s : S} (h : leq a b = true) (hg : γ a s) : γ b s := by
  unfold leq at h
  split at h
  · rename_i hc
    rcases Bool.or_eq_true _ _ ▸ hc with hc | hc
    · exact absurd hg (not_γ_of_isBottom hc s)
    · exact γ_of_isTop t hc s
  · obtain ⟨x, hx, gx⟩ := hg
    have := List.all_eq_true.1 h x hx
    simp only [Bool.or_eq_true] at this
    rcases this with hb | hb
    · exact absurd gx (D.isBot_sound x s hb)
    · obtain ⟨y, hy, hl⟩ := List.any_eq_true.1 hb
      exact ⟨y, hy, D.leq_sound x y s hl gx⟩

theorem leq_of_isBottom {a : PSet D} (h : isBottom a = true) (b : PSet D) : leq a b = true := by
  simp [leq, h]

theorem leq_refl (hr : D.LeqRefl) (a : PSet D) : leq a a = true := by
  unfold leq
  split
  · rfl
  · apply List.all_eq_true.2
    intro x hx
    simp only [Bool.or_eq_true]
    exact Or.inr (List.any_eq_true.2 ⟨x, hx, hr x⟩)

theorem leq_top (ht : D.TopIsTop) (a : PSet D) : leq a top = true := by
  have : isTop (top : PSet D) = true := by
    have h' : D.isTop D.top = true := ht
    simp [isTop, top, h']
  simp [leq, this]

end PSet
end Fct
end Dom
end Crab
