import CrabProofs.Lemmas.WtoTotal

/-! Total correctness of `visitLoop`, given `component` at smaller levels. -/
namespace Crab
namespace Wto

theorem propagate_merged (q p : GF) (vs : List Frame) :
    propagate (q.f :: vs) p.f.min = (q.merged p).f :: vs := by
  simp only [propagate, GF.merged]
  split <;> rfl

theorem Inv.propagate_root {g : Graph} {K : Nat → Prop} {st0 : St} {part0 : List WtoC} {v : Nat}
    {p : GF} {gs : List GF} {ln : List Nat} {part : List WtoC} {st : St} {W : List WtoC}
    (h : Inv g K st0 part0 v (p :: gs) ln part st W) (hroot : p.f.min = dn st.dfn p.f.node) :
    propagate (gs.map (·.f)) p.f.min = gs.map (·.f) := by
  cases gs with
  | nil => rfl
  | cons q gs' =>
    have hq := h.frames q (by simp)
    have hlt : dn st.dfn q.f.node < dn st.dfn p.f.node := by
      have hs := h.sorted_top
      simp only [stk_cons, GF.seg] at hs
      exact sorted_below_lt hs (by simp)
    have : ¬ q.f.min > p.f.min := by
      have := hq.min_le; omega
    simp [propagate, this]

theorem framesWt_cons (f : Frame) (vs : List Frame) : framesWt (f :: vs) = f.succs.length + 1 + framesWt vs := by
  simp [framesWt]

theorem visit_of_comp (g : Graph) (L : Nat) (hc : ∀ L', L' < L → CompSpec g L') : VisitSpec g L := by
  intro fuel
  induction fuel with
  | zero => intro K st0 part0 v gs ln part st W _ _ _ _ hf; omega
  | succ f ih =>
    intro K st0 part0 v gs ln part st W hK hn hL hI hf
    cases gs with
    | nil =>
      obtain ⟨hp, hP, hv⟩ := hI.final
      exact ⟨st, W, by simp only [List.map_nil]; rw [visitLoop_nil, hp], hP, hv⟩
    | cons p gs =>
      simp only [List.map_cons] at hf ⊢
      have hphi : phi g K (p.f :: gs.map (·.f)) st =
          p.f.succs.length + 1 + framesWt (gs.map (·.f)) + wt g (freeList K st) := by
        simp [phi, framesWt_cons]
      cases hs : p.f.succs with
      | cons child rest =>
        rw [hphi, hs] at hf
        simp only [List.length_cons] at hf
        -- the frame after the successor has been consumed
        have hphi' : ∀ m st', phi g K ((p.examined child rest m).f :: gs.map (·.f)) st' =
            rest.length + 1 + framesWt (gs.map (·.f)) + wt g (freeList K st') := by
          intro m st'; simp [phi, framesWt_cons, GF.examined]
        cases hd : getDfn st.dfn child with
        | inf =>
          rw [visitLoop_inf g f p.f _ ln part st hs hd]
          have hI' := hI.step_skip hK hs (Or.inl hd)
          exact ih K st0 part0 v _ ln part st W hK hn hL hI' (by
            simp only [List.map_cons]; rw [hphi']; omega)
        | fin k =>
          by_cases hk0 : k = 0
          · subst hk0
            rw [visitLoop_discover g f p.f _ ln part st hs hd]
            have hI' := hI.step_discover hK hs hd
            obtain ⟨hKc, _, _, _⟩ := (hI.classify hK (hI.child_region hK hs)).2.1 hd
            have hsz : child < st.dfn.size := by rw [hI.size_eq]; exact (hK child hKc).1
            have hw := wt_free_discover g hKc hd hsz
            exact ih K st0 part0 v _ ln part (discover st child) W hK hn hL hI' (by
              simp only [List.map_cons, phi, framesWt_cons, GF.fresh, GF.examined]
              omega)
          · by_cases hkm : k ≤ p.f.min
            · rw [visitLoop_lower g f p.f _ ln part st hs hd hk0 hkm]
              have hI' := hI.step_lower hK hs hd hk0 hkm
              exact ih K st0 part0 v _ (child :: ln) part st W hK hn hL hI' (by
                simp only [List.map_cons]; rw [hphi']; omega)
            · rw [visitLoop_skip g f p.f _ ln part st hs hd hk0 hkm]
              have hI' := hI.step_skip hK hs (Or.inr ⟨k, hd, hk0, hkm⟩)
              exact ih K st0 part0 v _ ln part st W hK hn hL hI' (by
                simp only [List.map_cons]; rw [hphi']; omega)
      | nil =>
        rw [hphi, hs] at hf
        simp only [List.length_nil] at hf
        have hnd := hI.node_dfn
        by_cases hroot : getDfn st.dfn p.f.node = .fin p.f.min
        · -- root of a component
          have hroot' : p.f.min = dn st.dfn p.f.node := by rw [dn_of_getDfn hroot]
          have hprop := hI.propagate_root hroot'
          -- the vertex stack is not empty
          obtain ⟨el, stack1, hst⟩ : ∃ el stack1, st.stack = el :: stack1 := by
            have := hI.stack_eq
            rw [stk_cons, GF.seg] at this
            cases hst : st.stack with
            | nil => rw [hst] at this; simp at this
            | cons a b => exact ⟨a, b, rfl⟩
          cases hl : ln.contains p.f.node with
          | false =>
            have hln : p.f.node ∉ ln := by simpa using hl
            rw [visitLoop_vertex g f p.f _ ln part st hs hroot hst hl, hprop]
            have hI' := hI.step_vertex hK hs hroot' hln hst
            have hfl := hI.freeList_pop hI' hK (hI.vertex_flatten_mem hs hroot' hln)
            exact ih K st0 part0 v gs ln _ _ _ hK hn hL hI' (by
              simp only [phi]; rw [hfl]; omega)
          | true =>
            have hpop := hI.popLoop_root hst (setDfn st.dfn p.f.node .inf)
            -- `component(g, node)` at a smaller level
            have hlt := hI.lvl_root_lt hK (stk gs ++ st0.stack)
            obtain ⟨hK', hsuccs⟩ := hI.closed_root hK hs hroot' (stk gs ++ st0.stack)
            have hn' : (rootState st p (stk gs ++ st0.stack)).dfn.size = g.n := by
              simp [rootState, hI.size_eq, hn]
            have hdeg : (g.succ p.f.node).length + 2 ≤ totalWt g := by
              rw [← wt_range g]
              apply le_wt_of_mem
              apply List.mem_range.2
              rw [← hn, ← hI.size_eq]; exact hI.node_lt_size hK
            have hLL : (lvl (fun x => x ∈ p.above) (rootState st p (stk gs ++ st0.stack)) + 1) * levelCost g
                ≤ L * levelCost g := Nat.mul_le_mul_right _ (by omega)
            obtain ⟨st3, X, hcomp, hP, hall⟩ := hc _ (Nat.lt_of_lt_of_le hlt hL) (g.succ p.f.node) f
              (fun x => x ∈ p.above) (rootState st p (stk gs ++ st0.stack)) [] _ []
              hK' hn' (Nat.le_refl _) (Placed.refl _ _ _) hsuccs (by
                have hC : levelCost g = 2 * totalWt g + 2 := rfl
                rw [Nat.succ_mul] at hLL
                omega)
            simp only [List.append_nil] at hcomp hP hall
            rw [visitLoop_cycle g f p.f _ ln part st hs hroot hst hl hpop hcomp, hprop]
            have hI' := hI.step_cycle hK hs hroot' hP hall
            have hfl := hI.freeList_pop hI' hK (hI.cycle_flatten_mem hK hP hall)
            exact ih K st0 part0 v gs ln _ _ _ hK hn hL hI' (by
              simp only [phi]; rw [hfl]; omega)
        · -- not a root: hand the segment over to the parent frame
          have hlt : p.f.min < dn st.dfn p.f.node := by
            have h1 := hI.top_frame.min_le
            have h2 : p.f.min ≠ dn st.dfn p.f.node := by
              intro e; apply hroot; rw [hnd, e]
            omega
          obtain ⟨q, gs', rfl⟩ := hI.nonroot_has_parent hlt
          rw [visitLoop_nonroot g f p.f _ ln part st hs hroot]
          simp only [List.map_cons]
          rw [propagate_merged]
          have hI' := hI.step_merge hs hlt
          exact ih K st0 part0 v (q.merged p :: gs') ln part st W hK hn hL hI' (by
            simp only [List.map_cons, phi, framesWt_cons, GF.merged] at hf ⊢
            omega)

end Wto
end Crab
