import CrabProofs.Lemmas.FunctorFlatBoolOps

/-!
Soundness of `assume_bool` (the reduction from the Booleans to the numerical value) and of
`select_bool` for the model of `flat_boolean_numerical_domain`.
-/
set_option linter.unusedSectionVars false
set_option linter.unusedSimpArgs false

namespace Crab
namespace Dom
namespace Fct

variable {V : Type} [DecidableEq V] {K : CSig V}

namespace FBN
variable {N : BNDom V K}

theorem γ_ite {c : Prop} [Decidable c] {A B : FBN N} {s : CSt V} (hA : c → γ A s) (hB : ¬ c → γ B s) :
    γ (if c then A else B) s := by
  split
  · exact hA ‹_›
  · exact hB ‹_›

/-! ### `assume_bool` -/

theorem addIfUnchanged_sound {c : K.C} {a : FBN N} {s : CSt V} (hg : γ a s)
    (hc : unchanged a.unch c = true → K.holds c s.num) : γ (addIfUnchanged c a) s := by
  unfold addIfUnchanged
  split
  · rename_i hu
    exact ⟨Prod2.onSecond_γ hg.1 hg.1.2.1 (N.addCst_sound _ _ _ hg.1.2.2 (hc hu)), hg.2⟩
  · exact hg

theorem addIfUnchanged_unch (c : K.C) (a : FBN N) : (addIfUnchanged c a).unch = a.unch := by
  unfold addIfUnchanged; split <;> rfl

theorem foldl_addIfUnchanged_sound {s : CSt V} (l : List K.C) :
    ∀ (a : FBN N), γ a s → (∀ c ∈ l, unchanged a.unch c = true → K.holds c s.num) →
      γ (l.foldl (fun a c => addIfUnchanged c a) a) s := by
  induction l with
  | nil => exact fun a hg _ => hg
  | cons c r ih =>
    intro a hg hl
    simp only [List.foldl_cons]
    apply ih _ (addIfUnchanged_sound hg (hl c List.mem_cons_self))
    intro c' hc' hu
    rw [addIfUnchanged_unch] at hu
    exact hl c' (List.mem_cons_of_mem _ hc') hu

/-- both polarities of `bwd_reduction_assume_bool` are sound (the negative one is not reached from
    `assume_bool`: `reduce_bool_to_csts` does nothing when `is_negated`) -/
theorem bwdReductionAssumeBool_sound (x : V) (neg : Bool) {a : FBN N} {s : CSt V} (hg : γ a s)
    (hx : s.bool x = !neg) : γ (bwdReductionAssumeBool x neg a) s := by
  have hL := hg.2.2.2.2.1
  unfold bwdReductionAssumeBool
  simp only
  split
  · exact hg
  · cases neg with
    | false =>
      simp only [Bool.not_false, if_true]
      apply foldl_addIfUnchanged_sound _ _ hg
      intro c hc hu
      exact (hL x c (DSet.mem_elems hc) hu).1 (by simpa using hx)
    | true =>
      simp only [Bool.not_true, Bool.false_eq_true, if_false]
      split
      · split
        · rename_i c t he
          apply addIfUnchanged_sound hg
          intro hu
          rw [unchanged_negate] at hu
          rw [K.negate_holds]
          intro hh
          have := (hL x c (DSet.mem_of_elems he) hu).2 hh
          rw [hx] at this; cases this
        · exact hg
      · exact hg

theorem reduceStep_sound (x v : V) {a : FBN N} {s : CSt V} (hg : γ a s) (hx : s.bool x = true)
    (hv : s.bool v = true) : γ (reduceStep x a v) s := by
  obtain ⟨hp, hlb, hbb, hub, hL, hB⟩ := hg
  have hvb : ((a.lin.look x).meet (a.lin.look v)).isBot = false := by
    rw [DSet.isBot_meet, SEnv.look_isBot hlb, SEnv.look_isBot hlb]; rfl
  refine ⟨?_, SEnv.isBot_set hlb x hvb, hbb, hub, ?_, hB⟩
  · exact Prod2.onFirst_γ hp (FEnv.assumeBool_sound hp.2.1 v false (by simpa using hv)) hp.2.2
  · have := hL.setB_set hlb x (s.bool x) hvb (by
      intro c hc hu
      rw [DSet.mem_meet] at hc
      rcases hc with hc | hc
      · exact hL x c hc hu
      · have h1 := hL v c hc hu
        rw [hv] at h1; rw [hx]; exact h1)
    rw [FEnv.setB_self] at this
    exact this

theorem foldl_reduceStep_sound (x : V) {s : CSt V} (hx : s.bool x = true) (l : List V) :
    ∀ (a : FBN N), γ a s → (∀ v ∈ l, s.bool v = true) → γ (l.foldl (reduceStep x) a) s := by
  induction l with
  | nil => exact fun a hg _ => hg
  | cons v r ih =>
    intro a hg hl
    simp only [List.foldl_cons]
    exact ih _ (reduceStep_sound x v hg hx (hl v List.mem_cons_self))
      (fun v' hv' => hl v' (List.mem_cons_of_mem _ hv'))

theorem reduceBoolToCsts_sound (x : V) (neg : Bool) {a : FBN N} {s : CSt V} (hg : γ a s)
    (hx : s.bool x = !neg) : γ (reduceBoolToCsts x neg a) s := by
  unfold reduceBoolToCsts
  cases neg with
  | true => exact hg
  | false =>
    simp only [Bool.not_false, if_true]
    have hx' : s.bool x = true := by simpa using hx
    apply bwdReductionAssumeBool_sound x false _ hx
    apply foldl_reduceStep_sound x hx' _ _ hg
    intro v hv
    exact hg.2.2.2.2.2 x v (DSet.mem_elems hv) hx'

theorem assumeBool_sound {f2 : N.B → N.B} {x : V} {neg : Bool} (hf2 : N.TSound f2 (relAssume x neg))
    {a : FBN N} {s s' : CSt V} (hg : γ a s) (hr : relAssume x neg s s') : γ (assumeBool f2 x neg a) s' := by
  have hp0 := Prod2.op_sound .boolOp (fb_assumeBool x neg) hf2 hg.1 hr
  obtain ⟨rfl, hx⟩ := hr
  unfold assumeBool
  simp only [isBottom, Prod2.isBottom_false_of_γ hg.1, Bool.false_eq_true, if_false]
  have hg1 : γ ({ a with prod := Prod2.op .boolOp (fun e => FEnv.assumeBool e x neg) f2 a.prod } : FBN N) s' :=
    ⟨hp0, hg.2⟩
  exact γ_ite (fun _ => hg1) (fun _ => reduceBoolToCsts_sound x neg hg1 hx)

/-! ### `select_bool` -/

/-- an entry is replaced by Booleans that hold whenever `x` holds; the state does not change -/
theorem BoolInvOf.set_same {bs : SEnv V V} {s : CSt V} (h : BoolInvOf bs s) (hb : bs.isBot = false)
    (x : V) {v : DSet V} (hv : v.isBot = false)
    (hx : ∀ k', v.mem k' = true → s.bool x = true → s.bool k' = true) : BoolInvOf (bs.set x v) s := by
  intro k k' hk hs
  rw [SEnv.mem_look_set hb _ _ hv] at hk
  by_cases hkx : k = x
  · simp only [hkx, if_true] at hk
    exact hx k' hk (by rw [← hkx]; exact hs)
  · simp only [hkx, if_false] at hk
    exact h k k' hk hs

theorem meet_single_isBot {bs : SEnv V V} (hb : bs.isBot = false) (y : V) :
    ((bs.look y).meet (.fin [y])).isBot = false := by
  rw [DSet.isBot_meet, SEnv.look_isBot hb]; rfl

/-- `fwd_reduction_select_bool`: `lhs` takes the entries of the operand it is known to be equal to -/
theorem fwdSelect_inv {lin : SEnv V K.C} {u : DSet V} {bs : SEnv V V} {s : CSt V} (hL : LinInvOf lin u s)
    (hB : BoolInvOf bs s) (hl : lin.isBot = false) (hb : bs.isBot = false) (lhs cond b1 b2 : V) (cv : BVal)
    (hcv : BVal.γ cv (s.bool cond)) :
    let b := if s.bool cond then s.bool b1 else s.bool b2
    let fw := fwdSelect lhs b1 b2 cv lin (forgetImpliedBool lhs bs)
    fw.1.isBot = false ∧ fw.2.isBot = false ∧ LinInvOf fw.1 u (s.setB lhs b) ∧ BoolInvOf fw.2 (s.setB lhs b) := by
  intro b fw
  have hb0 : (forgetImpliedBool lhs bs).isBot = false := by rw [isBot_forgetImpliedBool]; exact hb
  have key : ∀ (y : V), b = s.bool y →
      (lin.set lhs (lin.look y)).isBot = false ∧
      ((forgetImpliedBool lhs bs).set lhs (((forgetImpliedBool lhs bs).look y).meet (.fin [y]))).isBot = false ∧
      LinInvOf (lin.set lhs (lin.look y)) u (s.setB lhs b) ∧
      BoolInvOf ((forgetImpliedBool lhs bs).set lhs (((forgetImpliedBool lhs bs).look y).meet (.fin [y])))
        (s.setB lhs b) := by
    intro y hby
    refine ⟨SEnv.isBot_set hl lhs (SEnv.look_isBot hl y), SEnv.isBot_set hb0 lhs (meet_single_isBot hb0 y), ?_, ?_⟩
    · exact hL.setB_set hl lhs b (SEnv.look_isBot hl y) (fun c hc hu => by rw [hby]; exact hL y c hc hu)
    · apply hB.setB_set hb lhs b (meet_single_isBot hb0 y)
      intro k' hk hbt
      rw [DSet.mem_meet] at hk
      rcases hk with hk | hk
      · exact operand_members hB hb lhs y k' b hk (by rw [← hby]; exact hbt)
      · have : k' = y := by simpa [DSet.mem] using hk
        subst this
        exact setB_implies_operand s lhs k' b (fun h => by rw [← hby]; exact h) hbt
  cases cv with
  | tt =>
    have hc : s.bool cond = true := hcv
    exact key b1 (by simp [b, hc])
  | ff =>
    have hc : s.bool cond = false := hcv
    exact key b2 (by simp [b, hc])
  | top =>
    exact ⟨by show (lin.del lhs).isBot = false; rw [SEnv.isBot_del]; exact hl,
      by show ((forgetImpliedBool lhs bs).del lhs).isBot = false; rw [SEnv.isBot_del]; exact hb0,
      hL.setB_del hl lhs b, hB.setB_del hb lhs b⟩
  | bot => exact hcv.elim

theorem selectBool_sound {f2 f2' : N.B → N.B} {lhs cond b1 b2 : V}
    (hf2 : N.TSound f2 (relBsel lhs cond b1 b2)) (hf2' : b1 = b2 → N.TSound f2' (relBvar lhs b1 false))
    {a : FBN N} {s s' : CSt V} (hg : γ a s) (hr : relBsel lhs cond b1 b2 s s') :
    γ (selectBool f2 f2' lhs cond b1 b2 a) s' := by
  unfold selectBool
  simp only [isBottom, Prod2.isBottom_false_of_γ hg.1, Bool.not_false, if_true]
  by_cases h12 : b1 = b2
  · simp only [h12, if_true]
    subst h12
    apply assignBoolVar_sound (hf2' rfl) hg
    obtain ⟨b, rfl, rfl⟩ := hr
    exact ⟨_, by simp, rfl⟩
  · simp only [h12, if_false]
    obtain ⟨hp, hlb, hbb, hub, hL, hB⟩ := hg
    have hcan : a.prod.canonicalize = a.prod := Prod2.canonicalize_of_γ hp
    rw [hcan]
    have hp0 := Prod2.op_sound .boolOp (fb_selectBool lhs cond b1 b2) hf2 hp hr
    obtain ⟨b, rfl, rfl⟩ := hr
    have hcv := FEnv.get_sound hp.2.1 cond
    have hv1 := FEnv.get_sound hp.2.1 b1
    have hv2 := FEnv.get_sound hp.2.1 b2
    obtain ⟨f1, f2b, f3, f4⟩ := fwdSelect_inv hL hB hlb hbb lhs cond b1 b2 _ hcv
    refine ⟨hp0, f1, ?_, hub, f3, ?_⟩
    · show (if _ then _ else if _ then _ else _ : SEnv V V).isBot = false
      split
      · apply SEnv.isBot_set f2b
        rw [DSet.isBot_meet, DSet.isBot_meet, DSet.isBot_meet, SEnv.look_isBot f2b, SEnv.look_isBot f2b]; rfl
      · split
        · exact SEnv.isBot_set f2b lhs (meet_single_isBot f2b b2)
        · exact f2b
    · show BoolInvOf (if _ then _ else if _ then _ else _) _
      split
      · rename_i h2
        have hs2 : s.bool b2 = false := BVal.eq_ff hv2 h2
        apply f4.set_same f2b lhs (by
          rw [DSet.isBot_meet, DSet.isBot_meet, DSet.isBot_meet, SEnv.look_isBot f2b, SEnv.look_isBot f2b]; rfl)
        intro k' hk hbt
        rw [setB_bool_self] at hbt
        have hc : s.bool cond = true := by
          cases hcc : s.bool cond
          · rw [hcc] at hbt; simp [hs2] at hbt
          · rfl
        have h1 : s.bool b1 = true := by rw [hc] at hbt; simpa using hbt
        have hbt' : (if s.bool cond = true then s.bool b1 else s.bool b2) = true := by rw [hc]; simpa using h1
        have e1 := setB_implies_operand s lhs b1 _ (fun _ => h1) hbt'
        have ec := setB_implies_operand s lhs cond _ (fun _ => hc) hbt'
        simp only [DSet.mem_meet] at hk
        rcases hk with ((hk | hk) | hk) | hk
        · exact f4 b1 k' hk e1
        · exact f4 cond k' hk ec
        · have : k' = b1 := by simpa [DSet.mem] using hk
          rw [this]; exact e1
        · have : k' = cond := by simpa [DSet.mem] using hk
          rw [this]; exact ec
      · split
        · rename_i h1
          have hs1 : s.bool b1 = false := BVal.eq_ff hv1 h1
          apply f4.set_same f2b lhs (meet_single_isBot f2b b2)
          intro k' hk hbt
          rw [setB_bool_self] at hbt
          have hc : s.bool cond = false := by
            cases hcc : s.bool cond
            · rfl
            · rw [hcc] at hbt; simp [hs1] at hbt
          have h2 : s.bool b2 = true := by rw [hc] at hbt; simpa using hbt
          have hbt' : (if s.bool cond = true then s.bool b1 else s.bool b2) = true := by rw [hc]; simpa using h2
          have e2 := setB_implies_operand s lhs b2 _ (fun _ => h2) hbt'
          rw [DSet.mem_meet] at hk
          rcases hk with hk | hk
          · exact f4 b2 k' hk e2
          · have : k' = b2 := by simpa [DSet.mem] using hk
            rw [this]; exact e2
        · exact f4

end FBN

end Fct
end Dom
end Crab
