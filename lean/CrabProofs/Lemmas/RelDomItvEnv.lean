import CrabModel.Dom.ItvEnvOps
import CrabProofs.Lemmas.ItvEnvExact
import CrabProofs.Lemmas.IntervalLattice
import CrabProofs.Lemmas.RelDomEngine

/-!
  The operations of `CrabModel/Dom/ItvEnvOps.lean` on the canonical interval-environment model:
  soundness for all environments, exactness for well-formed ones (`EnvWF`: no `[+oo, ..]` /
  `[.., -oo]` binding, an invariant of every operation), and the engine contract.
-/
namespace Crab

namespace Itv
open Bound

theorem WF_widen {a b : Itv} (ha : a.WF) (hb : b.WF) : (widen a b).WF := by
  unfold widen
  split
  · exact hb
  · split
    · exact ha
    · apply WF_mk'
      · split
        · simp
        · exact ha.1
      · split
        · simp
        · exact ha.2

end Itv

namespace ItvEnv
variable {n : Nat}

theorem forget_sound (e : Env n) (x : Fin n) (σ σ' : State n) (h : γ e σ)
    (hσ : ∀ y, y ≠ x → σ' y = σ y) : γ (forget e x) σ' := by
  unfold forget
  rw [isBottom_false_of_γ h]
  simp only [Bool.false_eq_true, if_false]
  rw [γ_upd]
  exact ⟨Itv.mem_top _, fun y hy => by rw [hσ y hy]; exact h y⟩

theorem updS_updS (σ : State n) (x : Fin n) (t s : Int) : updS (updS σ x t) x s = updS σ x s := by
  funext y; unfold updS; split <;> rfl

theorem assignCst_sound (e : Env n) (x : Fin n) (k : Int) (σ : State n) (h : γ e σ) :
    γ (assignCst e x k) (updS σ x k) := by
  unfold assignCst
  rw [assumeAll_exact]
  refine ⟨forget_sound e x σ _ h (fun y hy => updS_ne σ k hy), ?_⟩
  intro c hc
  simp only [List.mem_cons, List.not_mem_nil, or_false] at hc
  rcases hc with rfl | rfl <;> simp [Cst.sat, updS]

theorem assignCst_exact (e : Env n) (hw : EnvWF e) (x : Fin n) (k : Int) (σ' : State n) :
    γ (assignCst e x k) σ' ↔ ∃ σ, γ e σ ∧ σ' = updS σ x k := by
  constructor
  · unfold assignCst
    rw [assumeAll_exact, forget_exact e hw]
    rintro ⟨⟨t, ht⟩, hc⟩
    have h1 := hc (.ub x k) (by simp)
    have h2 := hc (.lb x (-k)) (by simp)
    simp only [Cst.sat] at h1 h2
    refine ⟨updS σ' x t, ht, ?_⟩
    rw [updS_updS]
    funext y; unfold updS; split
    · rename_i e; rw [e]; omega
    · rfl
  · rintro ⟨σ, h, rfl⟩; exact assignCst_sound e x k σ h

theorem Stmt.exec_sound (st : Stmt n) (e : Env n) (σ σ' : State n) (h : γ e σ) (hr : st.rel σ σ') :
    γ (st.exec e) σ' := by
  cases st with
  | assume cs =>
    obtain ⟨rfl, hc⟩ := hr
    exact (assumeAll_exact e cs _).2 ⟨h, hc⟩
  | assignCst x k => simp only [Stmt.rel] at hr; subst hr; exact assignCst_sound e x k σ h
  | havoc x => exact forget_sound e x σ σ' h hr

/-- on well-formed environments every statement is the exact post-image -/
theorem Stmt.exec_exact (st : Stmt n) (e : Env n) (hw : EnvWF e) (σ' : State n) :
    γ (st.exec e) σ' ↔ ∃ σ, γ e σ ∧ st.rel σ σ' := by
  constructor
  · cases st with
    | assume cs =>
      simp only [Stmt.exec, Stmt.rel]
      rw [assumeAll_exact]
      rintro ⟨h, hc⟩; exact ⟨σ', h, rfl, hc⟩
    | assignCst x k => exact (assignCst_exact e hw x k σ').1
    | havoc x =>
      simp only [Stmt.exec, Stmt.rel]
      rw [forget_exact e hw]
      rintro ⟨t, ht⟩; exact ⟨_, ht, fun y hy => (updS_ne σ' t hy).symm⟩
  · rintro ⟨σ, h, hr⟩; exact Stmt.exec_sound st e σ σ' h hr

theorem Stmt.exec_WF (st : Stmt n) (e : Env n) (hw : EnvWF e) : EnvWF (st.exec e) := by
  cases st with
  | assume cs => exact EnvWF_assumeAll hw cs
  | assignCst x k => exact EnvWF_assumeAll (EnvWF_forget hw x) _
  | havoc x => exact EnvWF_forget hw x

theorem EnvWF_widen {a b : Env n} (ha : EnvWF a) (hb : EnvWF b) : EnvWF (widen a b) := by
  unfold widen
  split
  · exact hb
  · split
    · exact ha
    · intro x; rw [get_ofFn]; exact Itv.WF_widen (ha x) (hb x)

theorem widen_upper (a b : Env n) (σ : State n) (h : γ a σ ∨ γ b σ) : γ (widen a b) σ := by
  unfold widen
  cases hba : isBottom a with
  | true =>
    simp only [if_true]
    rcases h with h | h
    · exact absurd h (not_γ_of_isBottom hba σ)
    · exact h
  | false =>
    cases hbb : isBottom b with
    | true =>
      simp only [Bool.false_eq_true, if_false, if_true]
      rcases h with h | h
      · exact h
      · exact absurd h (not_γ_of_isBottom hbb σ)
    | false =>
      simp only [Bool.false_eq_true, if_false]
      intro x
      rw [get_ofFn]
      rcases h with h | h
      · exact Itv.widen_upper_left (h x)
      · exact Itv.widen_upper_right (h x)

theorem leq_sound (a b : Env n) (h : leq a b = true) (σ : State n) (hσ : γ a σ) : γ b σ := by
  unfold leq at h
  rw [Bool.or_eq_true] at h
  rcases h with h | h
  · exact absurd hσ (not_γ_of_isBottom h σ)
  · intro x
    simp only [List.all_eq_true] at h
    exact Itv.leq_sound (h x (List.mem_finRange x)) (hσ x)

theorem leq_iff (a b : Env n) (hwa : EnvWF a) : leq a b = true ↔ ∀ σ, γ a σ → γ b σ := by
  constructor
  · exact fun h σ hσ => leq_sound a b h σ hσ
  · intro h
    unfold leq
    rw [Bool.or_eq_true]
    cases hb : isBottom a with
    | true => left; rfl
    | false =>
      right
      simp only [List.all_eq_true]
      intro x _
      exact leq_of_γ_subset hwa hb h x

theorem isTop_iff (e : Env n) : isTop e = true ↔ ∀ σ, γ e σ := by
  unfold isTop
  rw [leq_iff _ _ EnvWF_top]
  exact ⟨fun h σ => h σ (top_γ σ), fun h σ _ => h σ⟩

theorem isBottom_iff_empty (e : Env n) (hw : EnvWF e) : isBottom e = true ↔ ∀ σ, ¬ γ e σ := by
  rw [bottom_iff_unsat e hw]
  exact ⟨fun h σ hσ => h ⟨σ, hσ⟩, fun h ⟨σ, hσ⟩ => h σ hσ⟩

end ItvEnv

/-- interval environments as the engine sees them -/
def ItvEnv.eng (n : Nat) : RelDom.EngDom (ItvEnv.State n) where
  A := ItvEnv.Env n
  γ := ItvEnv.γ
  ops := ItvEnv.ops
  Stmt := ItvEnv.Stmt n
  rel := ItvEnv.Stmt.rel
  exec := ItvEnv.Stmt.exec
  exec_sound := fun st a s s' hg hr => ItvEnv.Stmt.exec_sound st a s s' hg hr
  join_left := fun a b s h => ItvEnv.join_upper a b s (Or.inl h)
  join_right := fun a b s h => ItvEnv.join_upper a b s (Or.inr h)
  widen_left := fun a b s h => ItvEnv.widen_upper a b s (Or.inl h)
  widen_right := fun a b s h => ItvEnv.widen_upper a b s (Or.inr h)
  meet_sound := fun a b s h1 h2 => (ItvEnv.meet_exact a b s).2 ⟨h1, h2⟩
  narrow_sound := fun a b s h1 h2 => (ItvEnv.meet_exact a b s).2 ⟨h1, h2⟩
  leq_sound := fun a b s h hg => ItvEnv.leq_sound a b h s hg

end Crab
