import CrabProofs.Lemmas.XDomEnv2

/-!
  `Crab.XDom.Env`: join / widening, meet / narrowing, `operator<=`, `is_bottom`, `is_top`.
-/
set_option linter.unusedSectionVars false

namespace Crab
namespace XDom
open Patricia Patricia.Tree Lin SepDom

variable {V : Type} [GoodVal V] {L : Lattice V} {mem : Int → V → Prop}

namespace Env

/-! ### upper bounds -/

theorem upper_inv (hL : Laws L mem) {f : V → V → V} (hf : UpperLaws L mem f) {a b : Env V}
    (ha : Inv L a) (hb : Inv L b) : Inv L (SepDom.upper (ctxOf L) L f a b) := by
  cases na : a.isBot
  · cases nb : b.isBot
    · exact (upper_spec (L := L) (f := f) (ctx_sound hL)
        (fun x y hx hy ht => ⟨hf.nonbot x y hx hy, ht, hf.good x y hx hy⟩) hf.idem (fun x hx => hx.2.1) ha hb na nb).1
    · unfold SepDom.upper; simp only [na, nb, Bool.false_eq_true, if_false, if_true]; exact ha
  · unfold SepDom.upper; simp only [na, if_true]; exact hb

/-- an upper-bound operation of the environment describes every state of either argument -/
theorem upper_sound (hL : Laws L mem) {f : V → V → V} (hf : UpperLaws L mem f) {a b : Env V}
    (ha : Inv L a) (hb : Inv L b) {σ : State} (h : γ L mem a σ ∨ γ L mem b σ) :
    γ L mem (SepDom.upper (ctxOf L) L f a b) σ := by
  cases na : a.isBot
  · cases nb : b.isBot
    · obtain ⟨_, hnb, hl⟩ := upper_spec (L := L) (f := f) (ctx_sound hL)
        (fun x y hx hy ht => ⟨hf.nonbot x y hx hy, ht, hf.good x y hx hy⟩) hf.idem (fun x hx => hx.2.1) ha hb na nb
      refine ⟨hnb, fun x => ?_⟩
      rw [get_eq, hnb, hl]
      simp only [Bool.false_eq_true, if_false]
      cases l1 : a.tree.lookup x with
      | none => exact hL.mem_top _
      | some u =>
        cases l2 : b.tree.lookup x with
        | none => exact hL.mem_top _
        | some w =>
          simp only
          split
          · exact hL.mem_top _
          · simp only [Option.getD_some]
            apply hf.upper
            rcases h with h | h
            · left; have := h.2 x; rwa [get_eq, na, l1] at this
            · right; have := h.2 x; rwa [get_eq, nb, l2] at this
    · have e0 : SepDom.upper (ctxOf L) L f a b = a := by unfold SepDom.upper; simp [na, nb]
      rw [e0]
      rcases h with h | h
      · exact h
      · exact absurd h (not_γ_of_bot nb σ)
  · have e0 : SepDom.upper (ctxOf L) L f a b = b := by unfold SepDom.upper; simp [na]
    rw [e0]
    rcases h with h | h
    · exact absurd h (not_γ_of_bot na σ)
    · exact h

/-! ### lower bounds -/

theorem lower_inv (hL : Laws L mem) {g : V → V → V} (hg : LowerLaws L mem g) {a b : Env V}
    (ha : Inv L a) (hb : Inv L b) : Inv L (SepDom.lower (ctxOf L) L g a b) := by
  by_cases nab : a.isBot = false ∧ b.isBot = false
  · exact (lower_spec (L := L) (g := g) (ctx_sound hL)
      (fun x y hx hy hbq => ⟨hbq, hg.nontop x y hx hy hbq, hg.good x y hx hy⟩) hg.idem (fun x hx => hx.1) ha hb nab.1 nab.2).1
  · have e0 : SepDom.lower (ctxOf L) L g a b = SepDom.bottom := by
      unfold SepDom.lower
      cases na : a.isBot <;> cases nb : b.isBot <;> simp_all
    rw [e0]; exact SepDom.inv_bottom

/-- a lower-bound operation of the environment describes every common state -/
theorem lower_sound (hL : Laws L mem) {g : V → V → V} (hg : LowerLaws L mem g) {a b : Env V}
    (ha : Inv L a) (hb : Inv L b) {σ : State} (h1 : γ L mem a σ) (h2 : γ L mem b σ) :
    γ L mem (SepDom.lower (ctxOf L) L g a b) σ := by
  obtain ⟨_, hiff, hl⟩ := lower_spec (L := L) (g := g) (ctx_sound hL)
    (fun x y hx hy hbq => ⟨hbq, hg.nontop x y hx hy hbq, hg.good x y hx hy⟩) hg.idem (fun x hx => hx.1) ha hb h1.1 h2.1
  have hnb : (SepDom.lower (ctxOf L) L g a b).isBot = false := by
    cases hq : (SepDom.lower (ctxOf L) L g a b).isBot
    · rfl
    · exfalso
      obtain ⟨k, x, y, l1, l2, hbot⟩ := hiff.mp hq
      have m1 := h1.2 k; rw [get_eq, h1.1, l1] at m1
      have m2 := h2.2 k; rw [get_eq, h2.1, l2] at m2
      exact hL.not_mem_bottom _ _ hbot (hg.sound x y _ m1 m2)
  refine ⟨hnb, fun x => ?_⟩
  rw [get_eq, hnb, hl hnb]
  simp only [Bool.false_eq_true, if_false]
  have m1 := h1.2 x; rw [get_eq, h1.1] at m1
  have m2 := h2.2 x; rw [get_eq, h2.1] at m2
  cases l1 : a.tree.lookup x <;> cases l2 : b.tree.lookup x <;> rw [l1] at m1 <;> rw [l2] at m2 <;> simp only
  · exact hL.mem_top _
  · exact m2
  · exact m1
  · exact hg.sound _ _ _ m1 m2

/-- a lower-bound operation whose scalar operation is below both arguments stays below both
    arguments (meet) -/
theorem lower_below (hL : Laws L mem) {g : V → V → V} (hg : LowerLaws L mem g)
    (hlow : ∀ x y k, mem k (g x y) → mem k x ∧ mem k y) {a b : Env V}
    (ha : Inv L a) (hb : Inv L b) {σ : State} (h : γ L mem (SepDom.lower (ctxOf L) L g a b) σ) :
    γ L mem a σ ∧ γ L mem b σ := by
  have hnb := h.1
  cases na : a.isBot
  · cases nb : b.isBot
    · obtain ⟨_, _, hl⟩ := lower_spec (L := L) (g := g) (ctx_sound hL)
        (fun x y hx hy hbq => ⟨hbq, hg.nontop x y hx hy hbq, hg.good x y hx hy⟩) hg.idem (fun x hx => hx.1) ha hb na nb
      have key : ∀ x, mem (σ x) (get L a x) ∧ mem (σ x) (get L b x) := by
        intro x
        have m := h.2 x
        rw [get_eq, hnb, hl hnb] at m
        rw [get_eq, get_eq, na, nb]
        simp only [Bool.false_eq_true, if_false] at m ⊢
        cases l1 : a.tree.lookup x <;> cases l2 : b.tree.lookup x <;> rw [l1, l2] at m <;> simp only at m ⊢
        · exact ⟨m, m⟩
        · exact ⟨hL.mem_top _, m⟩
        · exact ⟨m, hL.mem_top _⟩
        · exact hlow _ _ _ m
      exact ⟨⟨na, fun x => (key x).1⟩, ⟨nb, fun x => (key x).2⟩⟩
    · exfalso
      have : (SepDom.lower (ctxOf L) L g a b).isBot = true := by unfold SepDom.lower; simp [na, nb, SepDom.bottom]
      rw [this] at hnb; cases hnb
  · exfalso
    have : (SepDom.lower (ctxOf L) L g a b).isBot = true := by unfold SepDom.lower; simp [na, SepDom.bottom]
    rw [this] at hnb; cases hnb

/-! ### inclusion -/

theorem leq_eq (a b : Env V) : leq L a b = SepDom.leq true (ctxOf L) L a b := rfl

/-- a yes answer of `operator<=` is an inclusion of concretisations -/
theorem leq_sound (hL : Laws L mem) {a b : Env V} (ha : Inv L a) (hb : Inv L b) (h : leq L a b = true)
    {σ : State} (hg : γ L mem a σ) : γ L mem b σ := by
  rw [leq_eq] at h
  have na := hg.1
  cases nb : b.isBot
  · have hp := (leq_spec (ctx_sound hL) (fun x hx => hL.leq_refl x hx) ha hb na nb).mp h
    refine ⟨nb, fun x => ?_⟩
    have hx := hp x
    have m := hg.2 x
    rw [get_eq, na] at m
    rw [get_eq, nb]
    simp only [Bool.false_eq_true, if_false] at m ⊢
    cases l2 : b.tree.lookup x with
    | none => exact hL.mem_top _
    | some y =>
      cases l1 : a.tree.lookup x with
      | none => rw [l1, l2] at hx; simp [rel, leO, domainPO] at hx
      | some u =>
        rw [l1, l2] at hx; rw [l1] at m
        simp only [rel, leO, domainPO, if_true] at hx
        exact hL.leq_sound u y _ hx m
  · rw [leq_bottom_right true na nb] at h; cases h

theorem leq_refl (hL : Laws L mem) {a : Env V} (ha : Inv L a) : leq L a a = true := by
  rw [leq_eq]
  cases na : a.isBot
  · rw [leq_spec (ctx_sound hL) (fun x hx => hL.leq_refl x hx) ha ha na na]
    intro k
    cases l1 : a.tree.lookup k with
    | none => simp
    | some x => simp only [rel, leO, domainPO, if_true]; exact hL.leq_refl x (ha.1.val_of_lookup l1)
  · exact leq_bottom_left true na

theorem leq_of_bot {a : Env V} (h : a.isBot = true) (b : Env V) : leq L a b = true := by
  rw [leq_eq]; exact leq_bottom_left true h

theorem leq_top (hL : Laws L mem) {a : Env V} (ha : Inv L a) : leq L a (top : Env V) = true := by
  rw [leq_eq]
  cases na : a.isBot
  · rw [leq_spec (ctx_sound hL) (fun x hx => hL.leq_refl x hx) ha inv_top na rfl]
    intro k
    cases l1 : a.tree.lookup k with
    | none => simp [top, SepDom.top]
    | some x => simp [top, SepDom.top, rel, leO, domainPO]
  · exact leq_bottom_left true na

/-! ### `is_bottom`, `is_top` -/

/-- `is_bottom()` answers yes exactly on the values that describe no state -/
theorem isBottom_iff (hL : Laws L mem) {e : Env V} (he : Inv L e) :
    e.isBottom = true ↔ ∀ σ, ¬ γ L mem e σ := by
  constructor
  · intro h σ; exact not_γ_of_bot h σ
  · intro h
    cases ne : e.isBottom
    · exfalso
      have ne' : e.isBot = false := ne
      have hw : ∀ x, ∃ k, mem k (get L e x) := fun x => hL.nonbot_mem _ (get_not_bottom hL he ne' x)
      exact h (fun x => Classical.choose (hw x)) ⟨ne', fun x => Classical.choose_spec (hw x)⟩
    · rfl

/-- `is_top()` answers yes exactly on the values that describe every state -/
theorem isTop_iff (hL : Laws L mem) {e : Env V} (he : Inv L e) :
    e.isTop = true ↔ ∀ σ, γ L mem e σ := by
  constructor
  · intro h σ; exact γ_of_isTop hL he h σ
  · intro h
    have ne : e.isBot = false := (h (fun _ => 0)).1
    cases ht : e.tree with
    | empty => unfold isTop SepDom.isTop; simp [ne, ht, Tree.size]
    | leaf k v =>
      exfalso
      have hl : e.tree.lookup k = some v := by rw [ht]; simp [Tree.lookup]
      obtain ⟨n, hn⟩ := hL.nontop_out v (he.1.val_of_lookup hl)
      have := (h (fun _ => n)).2 k
      rw [get_eq, ne, hl] at this
      exact hn this
    | node p m l r =>
      exfalso
      obtain ⟨k1, hk1⟩ := he.1.exists_key (by rw [ht]; simp)
      obtain ⟨v, hl⟩ := (mem_keys_iff_lookup he.1).mp hk1
      obtain ⟨n, hn⟩ := hL.nontop_out v (he.1.val_of_lookup hl)
      have := (h (fun _ => n)).2 k1
      rw [get_eq, ne, hl] at this
      exact hn this

end Env
end XDom
end Crab
