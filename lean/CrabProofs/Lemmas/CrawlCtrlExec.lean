import CrabProofs.Lemmas.CrawlCtrlFix
import CrabProofs.Lemmas.TIRCrawlerExec

/-!
  Executions, control part (block level): the judgement `differCtrl` on kinds and outcome
  sequences (`differK`), the first divergence of two paths (`detDiv'`), what a block of statements
  does in two runs in lockstep (`runStmts_rel2`: stronger than `runStmts_rel`, it also says that
  a run that stops alone does not stop at the tracked assertion), and what the scheduler answers
  at a deterministic branch.
-/
namespace Crab
namespace TIR

/-! ### the judgement -/

def differK (k1 k2 : RunKind) (s1 s2 : List Bool) : Bool :=
  match k1, k2 with
  | .infeasible, _ => false
  | _, .infeasible => false
  | .complete, .complete => s1 != s2
  | .complete, .cut => conflict s1 s2 || decide (s2.length > s1.length)
  | .cut, .complete => conflict s1 s2 || decide (s1.length > s2.length)
  | .cut, .cut => conflict s1 s2

theorem differCtrl_eq (a : AId) (t1 t2 : Trace) :
    differCtrl a t1 t2 = differK (t1.kind a) (t2.kind a) (aSeq a t1.evs) (aSeq a t2.evs) := by
  unfold differCtrl differK
  rfl

theorem conflict_self (s : List Bool) : conflict s s = false := conflict_of_compat (compat_refl s)

theorem differK_same (k1 k2 : RunKind) (s : List Bool) : differK k1 k2 s s = false := by
  cases k1 <;> cases k2 <;> simp [differK, conflict_self]

theorem differK_prefix_l {k1 k2 : RunKind} {s1 s2 : List Bool} (h : s1 <+: s2) (hk : k1 ≠ .complete) :
    differK k1 k2 s1 s2 = false := by
  have hc : conflict s1 s2 = false := conflict_of_compat (Or.inl h)
  have hl := h.length_le
  cases k1 <;> cases k2 <;> simp [differK, hc] at hk ⊢
  omega

theorem differK_prefix_r {k1 k2 : RunKind} {s1 s2 : List Bool} (h : s2 <+: s1) (hk : k2 ≠ .complete) :
    differK k1 k2 s1 s2 = false := by
  have hc : conflict s1 s2 = false := conflict_of_compat (Or.inr h)
  have hl := h.length_le
  cases k1 <;> cases k2 <;> simp [differK, hc] at hk ⊢
  omega

theorem conflict_append_common (p : List Bool) (s1 s2 : List Bool) : conflict (p ++ s1) (p ++ s2) = conflict s1 s2 := by
  induction p with
  | nil => rfl
  | cons x r ih => simp [conflict, ih]

theorem differK_append (k1 k2 : RunKind) (p s1 s2 : List Bool) :
    differK k1 k2 (p ++ s1) (p ++ s2) = differK k1 k2 s1 s2 := by
  have hne : (p ++ s1 != p ++ s2) = (s1 != s2) := by
    cases h : (s1 != s2) with
    | true =>
      have : s1 ≠ s2 := by simpa using h
      simpa using this
    | false =>
      have : s1 = s2 := by simpa using h
      simp [this]
  cases k1 <;> cases k2 <;> simp [differK, conflict_append_common, hne]

/-! ### the first divergence -/

def detDiv' (P : Prog) (l : Label) (p1 p2 : List Label) (vs1 vs2 : List Visit) : Bool :=
  match firstDiff p1 p2 0 with
  | none => true
  | some j =>
    let d := if j == 0 then l else p1.getD (j - 1) l
    match vs1[j]?, vs2[j]? with
    | some v1, some v2 =>
      (feasibleSuccs P d v1.σ).length == 1 && (feasibleSuccs P d v2.σ).length == 1
    | _, _ => false

theorem detDivergence_eq (P : Prog) (l : Label) (t1 t2 : Trace) :
    detDivergence P l t1 t2 = detDiv' P l t1.path t2.path t1.visits t2.visits := rfl

theorem firstDiff_shift : ∀ (as bs : List Label) (k : Nat), firstDiff as bs (k + 1) = (firstDiff as bs k).map (· + 1)
  | [], _, _ => by simp [firstDiff]
  | _ :: _, [], _ => by simp [firstDiff]
  | a :: as, b :: bs, k => by
    simp only [firstDiff]
    split
    · exact firstDiff_shift as bs (k + 1)
    · rfl

theorem firstDiff_lt : ∀ (as bs : List Label) (k j : Nat), firstDiff as bs k = some j → k ≤ j ∧ j - k < as.length
  | [], _, _, _ => by simp [firstDiff]
  | _ :: _, [], _, _ => by simp [firstDiff]
  | a :: as, b :: bs, k, j => by
    simp only [firstDiff]
    split
    · intro h
      have := firstDiff_lt as bs (k + 1) j h
      simp only [List.length_cons]
      omega
    · intro h
      simp only [Option.some.injEq] at h
      subst h
      simp

theorem detDiv'_nil_left (P : Prog) (l : Label) (p2 : List Label) (vs1 vs2 : List Visit) :
    detDiv' P l [] p2 vs1 vs2 = true := by
  simp [detDiv', firstDiff]

theorem detDiv'_nil_right (P : Prog) (l : Label) (p1 : List Label) (vs1 vs2 : List Visit) :
    detDiv' P l p1 [] vs1 vs2 = true := by
  cases p1 <;> simp [detDiv', firstDiff]

theorem detDiv'_cons_same (P : Prog) (l l' : Label) (p1 p2 : List Label) (v1 v2 : Visit) (vs1 vs2 : List Visit) :
    detDiv' P l (l' :: p1) (l' :: p2) (v1 :: vs1) (v2 :: vs2) = detDiv' P l' p1 p2 vs1 vs2 := by
  unfold detDiv'
  simp only [firstDiff, beq_self_eq_true, if_true, Nat.zero_add]
  rw [firstDiff_shift p1 p2 0]
  cases hf : firstDiff p1 p2 0 with
  | none => rfl
  | some j =>
    simp only [Option.map_some, Nat.add_eq_zero_iff, Nat.succ_ne_self, and_false, beq_iff_eq,
      if_false, Nat.add_sub_cancel, List.getElem?_cons_succ]
    have hlt := (firstDiff_lt p1 p2 0 j hf).2
    simp only [Nat.sub_zero] at hlt
    have hd : (l' :: p1).getD j l = if j = 0 then l' else p1.getD (j - 1) l' := by
      cases j with
      | zero => simp
      | succ j0 =>
        have hj0 : j0 < p1.length := by omega
        simp [List.getD_eq_getElem?_getD, List.getElem?_eq_getElem hj0]
    rw [hd]

theorem detDiv'_cons_diff (P : Prog) (l l1 l2 : Label) (hne : l1 ≠ l2) (p1 p2 : List Label) (v1 v2 : Visit)
    (vs1 vs2 : List Visit) :
    detDiv' P l (l1 :: p1) (l2 :: p2) (v1 :: vs1) (v2 :: vs2) =
      ((feasibleSuccs P l v1.σ).length == 1 && (feasibleSuccs P l v2.σ).length == 1) := by
  have hb : (l1 == l2) = false := by simpa using hne
  simp [detDiv', firstDiff, hb]

/-! ### statements -/

theorem runStmts_nil (hv : Nat → Var → Int) (l : Label) (i : Nat) (σ : State) (nh : Nat) :
    runStmts hv l i [] σ nh = ([], .fall σ nh) := rfl

/-- a block that is left at its end contains no `unreachable` -/
theorem runStmts_fall_noUnreach (hv : Nat → Var → Int) (l : Label) :
    ∀ (ss : List Stmt) (i : Nat) (σ : State) (nh : Nat) (t : List TEv) (σ' : State) (n' : Nat),
      runStmts hv l i ss σ nh = (t, .fall σ' n') → noUnreach ss = true := by
  intro ss
  induction ss with
  | nil => intro _ _ _ _ _ _ _; rfl
  | cons s r ih =>
    intro i σ nh t σ' n' h
    cases hs : stepStmt s σ (hvVal hv nh s) with
    | cont σ1 ev =>
      rw [runStmts_cons_cont hs] at h
      simp only [Prod.mk.injEq] at h
      have hr : runStmts hv l (i + 1) r σ1 (hvNext nh s) =
          ((runStmts hv l (i + 1) r σ1 (hvNext nh s)).1, .fall σ' n') := by rw [← h.2]
      apply (noUnreach_cons s r).mpr
      refine ⟨?_, ih _ _ _ _ _ _ hr⟩
      cases s <;> simp [Stmt.isUnreachable, stepStmt] at hs ⊢
    | stop ev o =>
      rw [runStmts_cons_stop hs] at h
      simp at h

/-- a run of statements that stops with `failed` ends with the event of a false assertion -/
theorem runStmts_stop_failed (hv : Nat → Var → Int) (l : Label) :
    ∀ (ss : List Stmt) (i : Nat) (σ : State) (nh : Nat) (t : List TEv),
      runStmts hv l i ss σ nh = (t, .stop .failed) →
      ∃ t' k c, t = t' ++ [⟨l, k, ⟨true, c, false⟩⟩] := by
  intro ss
  induction ss with
  | nil => intro i σ nh t h; simp [runStmts] at h
  | cons s r ih =>
    intro i σ nh t h
    cases hs : stepStmt s σ (hvVal hv nh s) with
    | cont σ1 ev =>
      rw [runStmts_cons_cont hs] at h
      simp only [Prod.mk.injEq] at h
      have hr : runStmts hv l (i + 1) r σ1 (hvNext nh s) =
          ((runStmts hv l (i + 1) r σ1 (hvNext nh s)).1, .stop .failed) := by rw [← h.2]
      obtain ⟨t', k, c, ht⟩ := ih _ _ _ _ hr
      refine ⟨tagEv l i ev ++ t', k, c, ?_⟩
      rw [← h.1, ht, List.append_assoc]
    | stop ev o =>
      rw [runStmts_cons_stop hs] at h
      simp only [Prod.mk.injEq, BRes.stop.injEq] at h
      obtain ⟨h1, h2⟩ := h
      subst h2
      cases s with
      | assert c =>
        simp only [stepStmt] at hs
        split at hs
        · cases hs
        · simp only [StepRes.stop.injEq] at hs
          refine ⟨[], i, c, ?_⟩
          rw [← h1, ← hs.1]
          rfl
      | assume c =>
        simp only [stepStmt] at hs
        split at hs <;> simp at hs
      | bin op x p q =>
        simp only [stepStmt] at hs
        split at hs <;> simp at hs
      | assign x e => simp [stepStmt] at hs
      | havoc x => simp [stepStmt] at hs
      | select x c e1 e2 => simp [stepStmt] at hs
      | unreachable => simp [stepStmt] at hs

/-- the kind of a run that stopped inside its first block -/
def stopKind (a : AId) (t : List TEv) (o : Outcome) : RunKind := (⟨t, [], [], endOfStop t o⟩ : Trace).kind a

theorem stopKind_prepend (hv : Nat → Var → Int) (l : Label) (a : AId) (ss : List Stmt) (i : Nat) (σ : State)
    (nh : Nat) (t : List TEv) (o : Outcome) (h : runStmts hv l i ss σ nh = (t, .stop o)) (pre : List TEv) :
    stopKind a (pre ++ t) o = stopKind a t o := by
  cases o with
  | failed =>
    obtain ⟨t', k, c, ht⟩ := runStmts_stop_failed hv l ss i σ nh t h
    subst ht
    simp [stopKind, endOfStop, ← List.append_assoc, Trace.kind]
  | exit _ => rfl
  | blocked => rfl
  | divzero => rfl

theorem stop_untracked_kind (a : AId) (l : Label) (i : Nat) (s : Stmt) (σ : State) (v : Int) (ev : Option Event)
    (o : Outcome) (htr : tracked a l i s = false) (h : stepStmt s σ v = .stop ev o) :
    stopKind a (tagEv l i ev) o ≠ .complete := by
  cases s with
  | assert c =>
    simp only [stepStmt] at h
    split at h
    · cases h
    · simp only [StepRes.stop.injEq] at h
      rw [← h.1, ← h.2]
      simp only [tracked] at htr
      simp [stopKind, endOfStop, tagEv, Trace.kind, htr]
  | assume c =>
    simp only [stepStmt] at h
    split at h
    · cases h
    · simp only [StepRes.stop.injEq] at h
      rw [← h.2]
      simp [stopKind, endOfStop, Trace.kind]
  | bin op x p q =>
    simp only [stepStmt] at h
    split at h
    · cases h
    · simp only [StepRes.stop.injEq] at h
      rw [← h.2]
      simp [stopKind, endOfStop, Trace.kind]
  | unreachable =>
    simp only [stepStmt, StepRes.stop.injEq] at h
    rw [← h.2]
    simp [stopKind, endOfStop, Trace.kind]
  | assign x e => simp [stepStmt] at h
  | havoc x => simp [stepStmt] at h
  | select x c e1 e2 => simp [stepStmt] at h

/-! ### one block in lockstep, with the kinds of the stops -/

def BRel2 (P : Prog) (F : Label → Facts) (a : AId) (l : Label) : List TEv × BRes → List TEv × BRes → Prop
  | (t1, .fall σ1 n1), (t2, .fall σ2 n2) =>
    aSeq a t1 = aSeq a t2 ∧ n1 = n2 ∧ ∀ l', l' ∈ P.succsOf l → agreeOn ((F l').get a) σ1 σ2
  | (t1, .stop o1), (t2, .fall _ _) => aSeq a t1 <+: aSeq a t2 ∧ stopKind a t1 o1 ≠ .complete
  | (t1, .fall _ _), (t2, .stop o2) => aSeq a t2 <+: aSeq a t1 ∧ stopKind a t2 o2 ≠ .complete
  | (t1, .stop o1), (t2, .stop o2) =>
    aSeq a t1 = aSeq a t2 ∨ (aSeq a t1 <+: aSeq a t2 ∧ stopKind a t1 o1 ≠ .complete) ∨
      (aSeq a t2 <+: aSeq a t1 ∧ stopKind a t2 o2 ≠ .complete)

theorem BRel2_prepend {P : Prog} {F : Label → Facts} {a : AId} {l : Label} (pre1 pre2 : List TEv)
    (hp : aSeq a pre1 = aSeq a pre2) {t1 t2 : List TEv} {b1 b2 : BRes}
    (hk1 : ∀ o, b1 = .stop o → stopKind a (pre1 ++ t1) o = stopKind a t1 o)
    (hk2 : ∀ o, b2 = .stop o → stopKind a (pre2 ++ t2) o = stopKind a t2 o)
    (h : BRel2 P F a l (t1, b1) (t2, b2)) : BRel2 P F a l (pre1 ++ t1, b1) (pre2 ++ t2, b2) := by
  cases b1 with
  | fall σ1 n1 =>
    cases b2 with
    | fall σ2 n2 =>
      simp only [BRel2, aSeq_append] at h ⊢
      exact ⟨by rw [hp, h.1], h.2⟩
    | stop o2 =>
      simp only [BRel2, aSeq_append] at h ⊢
      rw [hk2 o2 rfl, hp]
      exact ⟨(List.prefix_append_right_inj _).mpr h.1, h.2⟩
  | stop o1 =>
    cases b2 with
    | fall σ2 n2 =>
      simp only [BRel2, aSeq_append] at h ⊢
      rw [hk1 o1 rfl, hp]
      exact ⟨(List.prefix_append_right_inj _).mpr h.1, h.2⟩
    | stop o2 =>
      simp only [BRel2, aSeq_append] at h ⊢
      rw [hk1 o1 rfl, hk2 o2 rfl, hp]
      rcases h with h | h | h
      · exact Or.inl (by rw [h])
      · exact Or.inr (Or.inl ⟨(List.prefix_append_right_inj _).mpr h.1, h.2⟩)
      · exact Or.inr (Or.inr ⟨(List.prefix_append_right_inj _).mpr h.1, h.2⟩)

theorem runStmts_rel2 (P : Prog) (F : Label → Facts) (a : AId) (hv : Nat → Var → Int) (l : Label) :
    ∀ (ss : List Stmt) (i : Nat) (σ σ' : State) (nh : Nat), BlockInv P F a l i ss σ σ' →
      BRel2 P F a l (runStmts hv l i ss σ nh) (runStmts hv l i ss σ' nh) := by
  intro ss
  induction ss with
  | nil =>
    intro i σ σ' nh h
    show BRel2 P F a l ([], .fall σ nh) ([], .fall σ' nh)
    refine ⟨rfl, rfl, ?_⟩
    intro l' hl'
    simpa [bwdData] using h.2 l' hl'
  | cons s r ih =>
    intro i σ σ' nh h
    -- both runs continue after `s`
    have hcont : ∀ σ1 σ1' e1 e2, stepStmt s σ (hvVal hv nh s) = .cont σ1 e1 →
        stepStmt s σ' (hvVal hv nh s) = .cont σ1' e2 → aSeq a (tagEv l i e1) = aSeq a (tagEv l i e2) →
        BRel2 P F a l (runStmts hv l i (s :: r) σ nh) (runStmts hv l i (s :: r) σ' nh) := by
      intro σ1 σ1' e1 e2 h1 h2 he
      rw [runStmts_cons_cont h1, runStmts_cons_cont h2]
      have := ih (i + 1) σ1 σ1' (hvNext nh s) (BlockInv_step h h1 h2)
      refine BRel2_prepend _ _ he ?_ ?_ this
      · intro o ho
        exact stopKind_prepend hv l a r (i + 1) σ1 (hvNext nh s) _ o (by rw [← ho]) _
      · intro o ho
        exact stopKind_prepend hv l a r (i + 1) σ1' (hvNext nh s) _ o (by rw [← ho]) _
    by_cases htr : tracked a l i s = true
    · cases s with
      | assert c =>
        simp only [tracked, Bool.and_eq_true, beq_iff_eq] at htr
        have hag : agreeOn c.vars σ σ' := by
          have := h.1 0 c (by simp) htr.1 (by simpa using htr.2)
          simpa [bwdData] using this
        have hvv : hvVal hv nh (Stmt.assert c) = 0 := rfl
        rcases step_tracked c σ σ' 0 hag with ⟨h1, h2⟩ | ⟨h1, h2⟩
        · exact hcont σ σ' _ _ (by rw [hvv]; exact h1) (by rw [hvv]; exact h2) rfl
        · rw [runStmts_cons_stop (by rw [hvv]; exact h1), runStmts_cons_stop (by rw [hvv]; exact h2)]
          exact Or.inl rfl
      | assign _ _ => simp [tracked] at htr
      | bin _ _ _ _ => simp [tracked] at htr
      | havoc _ => simp [tracked] at htr
      | assume _ => simp [tracked] at htr
      | select _ _ _ _ => simp [tracked] at htr
      | unreachable => simp [tracked] at htr
    · have htr' : tracked a l i s = false := by
        cases hh : tracked a l i s with
        | true => exact absurd hh htr
        | false => rfl
      have hu1 := aSeq_tagEv_untracked a l i s σ (hvVal hv nh s) htr'
      have hu2 := aSeq_tagEv_untracked a l i s σ' (hvVal hv nh s) htr'
      cases hs1 : stepStmt s σ (hvVal hv nh s) with
      | cont σ1 e1 =>
        cases hs2 : stepStmt s σ' (hvVal hv nh s) with
        | cont σ1' e2 => exact hcont σ1 σ1' e1 e2 hs1 hs2 (by rw [hu1.1 σ1 e1 hs1, hu2.1 σ1' e2 hs2])
        | stop e2 o2 =>
          rw [runStmts_cons_cont hs1, runStmts_cons_stop hs2]
          have hk := stop_untracked_kind a l i s σ' _ e2 o2 htr' hs2
          cases (runStmts hv l (i + 1) r σ1 (hvNext nh s)).2 with
          | fall _ _ => exact ⟨by rw [hu2.2 e2 o2 hs2]; exact nil_prefix _, hk⟩
          | stop _ => exact Or.inr (Or.inr ⟨by rw [hu2.2 e2 o2 hs2]; exact nil_prefix _, hk⟩)
      | stop e1 o1 =>
        have hk := stop_untracked_kind a l i s σ _ e1 o1 htr' hs1
        cases hs2 : stepStmt s σ' (hvVal hv nh s) with
        | cont σ1' e2 =>
          rw [runStmts_cons_stop hs1, runStmts_cons_cont hs2]
          cases (runStmts hv l (i + 1) r σ1' (hvNext nh s)).2 with
          | fall _ _ => exact ⟨by rw [hu1.2 e1 o1 hs1]; exact nil_prefix _, hk⟩
          | stop _ => exact Or.inr (Or.inl ⟨by rw [hu1.2 e1 o1 hs1]; exact nil_prefix _, hk⟩)
        | stop e2 o2 =>
          rw [runStmts_cons_stop hs1, runStmts_cons_stop hs2]
          exact Or.inl (by rw [hu1.2 e1 o1 hs1, hu2.2 e2 o2 hs2])

/-! ### the end of a block -/

theorem nextOf_goto {P : Prog} {ch : Chooser} {step : Nat} {cnt : Counts} {l l' : Label} {σ : State}
    (h : nextOf P ch step cnt l σ = .goto l') :
    l' ∈ P.succsOf l ∧ P.isExit l = false ∧ l' = ch step (cnt.get l) l σ (P.succsOf l) := by
  unfold nextOf at h
  by_cases hex : P.isExit l = true
  · simp [hex] at h
  · simp only [hex, Bool.false_eq_true, if_false] at h
    by_cases hh : hugeState P.nvars σ = true
    · simp [hh] at h
    · simp only [hh, Bool.false_eq_true, if_false] at h
      cases hsc : P.succsOf l with
      | nil => rw [hsc] at h; simp at h
      | cons x xs =>
        rw [hsc] at h
        simp only at h
        split at h
        · rename_i hc
          simp only [Next.goto.injEq] at h
          rw [h] at hc
          exact ⟨List.contains_iff_mem.mp hc, by simpa using hex, h.symm⟩
        · cases h

theorem nextOf_halt_goto {P : Prog} {ch : Chooser} {step : Nat} {cnt : Counts} {l l' : Label} {σ1 σ2 : State}
    {e : End} (h1 : nextOf P ch step cnt l σ1 = .halt e) (h2 : nextOf P ch step cnt l σ2 = .goto l') : e = .fuel := by
  obtain ⟨hm, hex, _⟩ := nextOf_goto h2
  unfold nextOf at h1
  simp only [hex, Bool.false_eq_true, if_false] at h1
  by_cases hh : hugeState P.nvars σ1 = true
  · simp only [hh, if_true, Next.halt.injEq] at h1; exact h1.symm
  · simp only [hh, Bool.false_eq_true, if_false] at h1
    cases hsc : P.succsOf l with
    | nil => rw [hsc] at hm; cases hm
    | cons x xs =>
      rw [hsc] at h1
      simp only at h1
      split at h1
      · cases h1
      · simp only [Next.halt.injEq] at h1; exact h1.symm

theorem nextOf_halt_exit {P : Prog} {ch : Chooser} {step : Nat} {cnt : Counts} {l : Label} {σ : State}
    (h : nextOf P ch step cnt l σ = .halt .exit) : P.isExit l = true := by
  unfold nextOf at h
  by_cases hex : P.isExit l = true
  · exact hex
  · simp only [hex, Bool.false_eq_true, if_false] at h
    by_cases hh : hugeState P.nvars σ = true
    · simp [hh] at h
    · simp only [hh, Bool.false_eq_true, if_false] at h
      cases hsc : P.succsOf l with
      | nil => rw [hsc] at h; simp at h
      | cons x xs =>
        rw [hsc] at h
        simp only at h
        split at h <;> simp at h

theorem nextOf_halt_sink {P : Prog} {ch : Chooser} {step : Nat} {cnt : Counts} {l : Label} {σ : State}
    (h : nextOf P ch step cnt l σ = .halt .sink) : P.isExit l = false ∧ P.succsOf l = [] := by
  unfold nextOf at h
  by_cases hex : P.isExit l = true
  · simp [hex] at h
  · simp only [hex, Bool.false_eq_true, if_false] at h
    by_cases hh : hugeState P.nvars σ = true
    · simp [hh] at h
    · simp only [hh, Bool.false_eq_true, if_false] at h
      cases hsc : P.succsOf l with
      | nil => exact ⟨by simpa using hex, rfl⟩
      | cons x xs =>
        rw [hsc] at h
        simp only at h
        split at h <;> simp at h

/-- at a deterministic branch the scheduler takes the one feasible successor -/
theorem sched_det (P : Prog) (prio : Label → Nat → Label → Nat) (step n : Nat) (l : Label) (σ : State)
    (h1 : (feasibleSuccs P l σ).length = 1) :
    guardOk P (schedChooser P prio step n l σ (P.succsOf l)) σ = true ∧
    ∀ t, t ∈ P.succsOf l → t ≠ schedChooser P prio step n l σ (P.succsOf l) → guardOk P t σ = false := by
  obtain ⟨z, hz⟩ : ∃ z, feasibleSuccs P l σ = [z] := by
    cases hf : feasibleSuccs P l σ with
    | nil => rw [hf] at h1; cases h1
    | cons z r =>
      cases r with
      | nil => exact ⟨z, rfl⟩
      | cons _ _ => rw [hf] at h1; simp at h1
  have hz' : (P.succsOf l).filter (fun l' => guardOk P l' σ) = [z] := hz
  have hch : schedChooser P prio step n l σ (P.succsOf l) = z := by
    simp [schedChooser, hz', bestBy]
  rw [hch]
  have hzm : z ∈ (P.succsOf l).filter (fun l' => guardOk P l' σ) := by rw [hz']; exact List.mem_cons_self
  refine ⟨(List.mem_filter.mp hzm).2, ?_⟩
  intro t ht htz
  cases hg : guardOk P t σ with
  | false => rfl
  | true =>
    have : t ∈ (P.succsOf l).filter (fun l' => guardOk P l' σ) := List.mem_filter.mpr ⟨ht, hg⟩
    rw [hz'] at this
    exact absurd (by simpa using this) htz

theorem guardOk_congr (P : Prog) (s : Label) (σ σ' : State) (h : agreeOn (guardVars P s) σ σ') :
    guardOk P s σ = guardOk P s σ' := by
  unfold guardOk
  unfold guardVars at h
  generalize (P.stmtsOf s).takeWhile (fun s => s.assumeCst.isSome) = L at h ⊢
  induction L with
  | nil => rfl
  | cons st r ih =>
    simp only [List.all_cons]
    have hr : agreeOn (r.flatMap (fun s => match s.assumeCst with | some c => c.vars | none => [])) σ σ' := by
      intro y hy
      apply h
      simp only [List.flatMap_cons]
      exact List.mem_append.mpr (Or.inr hy)
    rw [ih hr]
    cases hc : st.assumeCst with
    | none => rfl
    | some c =>
      simp only
      have : c.holds σ = c.holds σ' := by
        apply Cst.holds_congr
        intro y hy
        apply h
        simp only [List.flatMap_cons, hc]
        exact List.mem_append.mpr (Or.inl hy)
      rw [this]

end TIR
end Crab
