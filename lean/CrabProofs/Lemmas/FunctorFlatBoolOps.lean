import CrabProofs.Lemmas.FunctorFlatBool

/-!
Soundness of the Boolean operations of `flat_boolean_numerical_domain` (`assign_bool_cst`,
`assign_bool_var`, `apply_binary_bool`, `assume_bool`, `select_bool`) w.r.t. `FBN.γ`: the product
keeps the states and the invariant of the auxiliary components is re-established.
-/
set_option linter.unusedSectionVars false
set_option linter.unusedSimpArgs false

namespace Crab
namespace Dom
namespace Fct

variable {V : Type} [DecidableEq V] {K : CSig V}

namespace FBN
variable {N : BNDom V K}

/-! ### the flat Boolean transformers abstract the relations -/

theorem fb_forget1 (x : V) (P : CSt V → Bool → Prop) :
    (FB V).TSound (fun e => FEnv.forget1 e x) (RelB x P) := by
  rintro e s s' hg ⟨b, _, rfl⟩
  exact FEnv.forget1_sound hg x b

theorem fb_assignBoolVar (x y : V) (neg : Bool) :
    (FB V).TSound (fun e => FEnv.assignBoolVar e x y neg) (relBvar x y neg) := by
  rintro e s s' hg ⟨b, rfl, rfl⟩
  exact FEnv.assignBoolVar_sound hg x y neg

theorem fb_applyBinaryBool (op : BBin) (x y z : V) :
    (FB V).TSound (fun e => FEnv.applyBinaryBool op e x y z) (relBbin op x y z) := by
  rintro e s s' hg ⟨b, rfl, rfl⟩
  exact FEnv.applyBinaryBool_sound hg op x y z

theorem fb_assumeBool (x : V) (neg : Bool) :
    (FB V).TSound (fun e => FEnv.assumeBool e x neg) (relAssume x neg) := by
  rintro e s s' hg ⟨rfl, hx⟩
  exact FEnv.assumeBool_sound hg x neg hx

theorem fb_selectBool (lhs cond b1 b2 : V) :
    (FB V).TSound (fun e => FEnv.selectBool e lhs cond b1 b2) (relBsel lhs cond b1 b2) := by
  rintro e s s' hg ⟨b, rfl, rfl⟩
  exact FEnv.selectBool_sound hg lhs cond b1 b2

/-! ### `assign_bool_cst` -/

theorem evalCst_sound (c : K.C) {q : Prod2 (FB V) N.toLDom} {s : CSt V} (hq : q.γ s) (b : Bool)
    (hb : b = true ↔ K.holds c s.num) : BVal.γ (evalCst c q) b := by
  unfold evalCst
  split
  · rename_i he
    exact hb.2 (N.entails_sound _ _ _ he hq.2.2)
  · split
    · rename_i he
      have := (K.negate_holds c s.num).1 (N.entails_sound _ _ _ he hq.2.2)
      cases b
      · rfl
      · exact absurd (hb.1 rfl) this
    · trivial

theorem reduceNumCstToBool_sound (x : V) (c : K.C) {a : FBN N} {s : CSt V} {b : Bool}
    (hb : b = true ↔ K.holds c s.num) (hp : a.prod.γ (s.setB x b)) (hI : Inv a s) :
    γ (reduceNumCstToBool x c a) (s.setB x b) := by
  obtain ⟨hlb, hbb, hub, hL, hB⟩ := hI
  have hB' : BoolInvOf (forgetImpliedBool x (a.bools.del x)) (s.setB x b) := hB.setB_del' hbb x b
  have hbb' : (forgetImpliedBool x (a.bools.del x)).isBot = false := by
    rw [isBot_forgetImpliedBool, SEnv.isBot_del]; exact hbb
  have hnum : (s.setB x b).num = s.num := rfl
  have hbx : (s.setB x b).bool x = b := by simp [CSt.setB]
  unfold reduceNumCstToBool
  by_cases ht : K.isTaut c = true
  · simp only [ht, if_true]
    refine ⟨?_, ?_, hbb', hub, hL.setB_del hlb x b, hB'⟩
    · apply Prod2.onFirst_γ hp _ hp.2.2
      apply FEnv.set_same_sound hp.2.1
      rw [hbx, hb.2 (K.taut_holds c _ ht)]; rfl
    · show (a.lin.del x).isBot = false
      rw [SEnv.isBot_del]; exact hlb
  · by_cases hc : K.isContra c = true
    · simp only [ht, hc, if_true, if_false, Bool.false_eq_true]
      refine ⟨?_, ?_, hbb', hub, hL.setB_del hlb x b, hB'⟩
      · apply Prod2.onFirst_γ hp _ hp.2.2
        apply FEnv.set_same_sound hp.2.1
        have : b = false := by
          cases b
          · rfl
          · exact absurd (hb.1 rfl) (K.contra_holds c _ hc)
        rw [hbx, this]; rfl
      · show (a.lin.del x).isBot = false
        rw [SEnv.isBot_del]; exact hlb
    · simp only [ht, hc, if_false, Bool.false_eq_true]
      have hcan : a.prod.canonicalize = a.prod := Prod2.canonicalize_of_γ hp
      have hl0 : (a.lin.del x).isBot = false := by rw [SEnv.isBot_del]; exact hlb
      have hmb := markVars_isBot (K.vars c) (a.lin.del x, a.unch)
      have hl1 : (markVars (K.vars c) (a.lin.del x, a.unch)).1.isBot = false := by rw [hmb.1]; exact hl0
      refine ⟨?_, ?_, hbb', ?_, ?_, hB'⟩
      · show (Prod2.onFirst _ a.prod.canonicalize).γ _
        rw [hcan]
        apply Prod2.onFirst_γ hp _ hp.2.2
        apply FEnv.set_same_sound hp.2.1
        rw [hbx]
        exact evalCst_sound c hp b (by rw [hnum]; exact hb)
      · exact SEnv.isBot_set_fin hl1 x [c]
      · show (markVars (K.vars c) (a.lin.del x, a.unch)).2.isBot = false
        rw [hmb.2]; exact hub
      · -- the constraints that survive `mark_vars_as_unchanged` were usable before
        have hL1 : LinInvOf (markVars (K.vars c) (a.lin.del x, a.unch)).1
            (markVars (K.vars c) (a.lin.del x, a.unch)).2 (s.setB x b) := by
          apply (hL.setB_del hlb x b).mono
          intro k c' hc' hu'
          obtain ⟨h1, h2⟩ := markVars_spec (K.vars c) (a.lin.del x, a.unch) hl0 k c' hc'
          refine ⟨h1, ?_⟩
          rw [unchanged_iff] at hu' ⊢
          exact fun v hv => h2 v hv (hu' v hv)
        -- then `x` receives `{cst}`; the state does not change any more
        intro k c' hc' hu'
        rw [SEnv.mem_look_set_fin hl1] at hc'
        by_cases hk : k = x
        · simp only [hk, if_true, List.mem_singleton] at hc'
          subst hc'
          rw [hk, hbx, hnum]; exact hb
        · simp only [hk, if_false] at hc'
          exact hL1 k c' hc' hu'

theorem assignBoolCst_sound {f2 : N.B → N.B} {x : V} {c : K.C} (hf2 : N.TSound f2 (relBcst x c))
    {a : FBN N} {s s' : CSt V} (hg : γ a s) (hr : relBcst x c s s') : γ (assignBoolCst f2 x c a) s' := by
  have hp0 := Prod2.op_sound .boolOp (fb_forget1 x _) hf2 hg.1 hr
  obtain ⟨b, hb, rfl⟩ := hr
  unfold assignBoolCst
  rw [Prod2.isBottom_false_of_γ hg.1]
  simp only [Bool.false_eq_true, if_false]
  exact reduceNumCstToBool_sound x c hb hp0 hg.2

/-! ### `assign_bool_var` -/

theorem DSet.mem_of_elems {α : Type} [DecidableEq α] {v : DSet α} {c : α} {t : List α}
    (h : v.elems = c :: t) : v.mem c = true := by
  cases v with
  | all => simp [DSet.elems] at h
  | fin l => simp only [DSet.elems] at h; simp [DSet.mem, h]

theorem DSet.mem_elems {α : Type} [DecidableEq α] {v : DSet α} {c : α} (h : c ∈ v.elems) : v.mem c = true := by
  cases v with
  | all => rfl
  | fin l => simpa [DSet.mem, DSet.elems] using h

theorem propagateAssignBoolVar_inv {lin : SEnv V K.C} {u : DSet V} {s : CSt V} (hL : LinInvOf lin u s)
    (hl : lin.isBot = false) (x y : V) (neg : Bool) :
    (propagateAssignBoolVar lin x y neg).isBot = false ∧
      LinInvOf (propagateAssignBoolVar lin x y neg) u (s.setB x (s.bool y != neg)) := by
  unfold propagateAssignBoolVar
  cases neg with
  | false =>
    simp only [Bool.not_false, if_true, Bool.bne_false]
    refine ⟨SEnv.isBot_set hl x (SEnv.look_isBot hl y), ?_⟩
    exact hL.setB_set hl x _ (SEnv.look_isBot hl y) (fun c hc hu => hL y c hc hu)
  | true =>
    simp only [Bool.not_true, Bool.false_eq_true, if_false, Bool.bne_true]
    split
    · split
      · rename_i c t he
        refine ⟨SEnv.isBot_set_fin hl x _, ?_⟩
        apply hL.setB_set hl x _ (v := .fin [K.negate c]) rfl
        intro c' hc' hu'
        simp only [DSet.mem, List.contains_iff_mem, List.mem_singleton] at hc'
        subst hc'
        rw [unchanged_negate] at hu'
        have := hL y c (DSet.mem_of_elems he) hu'
        rw [K.negate_holds, ← this]
        cases s.bool y <;> simp
      · exact ⟨by rw [SEnv.isBot_del]; exact hl, hL.setB_del hl x _⟩
    · exact ⟨by rw [SEnv.isBot_del]; exact hl, hL.setB_del hl x _⟩

theorem setB_bool_of_ne (s : CSt V) {x k : V} (b : Bool) (h : k ≠ x) : (s.setB x b).bool k = s.bool k := by
  simp [CSt.setB, h]

theorem setB_bool_self (s : CSt V) (x : V) (b : Bool) : (s.setB x b).bool x = b := by simp [CSt.setB]

/-- after `x := b` where `b` holds only if `y` held before, `y` still holds when `x` does -/
theorem setB_implies_operand (s : CSt V) (x y : V) (b : Bool) (hb : b = true → s.bool y = true)
    (h : b = true) : (s.setB x b).bool y = true := by
  by_cases hy : y = x
  · subst hy; rw [setB_bool_self]; exact h
  · rw [setB_bool_of_ne s b hy]; exact hb h

/-- the members recorded for an operand `y` (after `forget_implied_bool(x)`) hold when `y` did -/
theorem operand_members {bs : SEnv V V} {s : CSt V} (hB : BoolInvOf bs s) (hb : bs.isBot = false)
    (x y k' : V) (b : Bool) (hk : ((forgetImpliedBool x bs).look y).mem k' = true) (hy : s.bool y = true) :
    (s.setB x b).bool k' = true := by
  rw [mem_forgetImpliedBool hb] at hk
  rw [setB_bool_of_ne s b hk.1]
  exact hB y k' hk.2 hy

theorem assignBoolVar_sound {f2 : N.B → N.B} {x y : V} {neg : Bool} (hf2 : N.TSound f2 (relBvar x y neg))
    {a : FBN N} {s s' : CSt V} (hg : γ a s) (hr : relBvar x y neg s s') :
    γ (assignBoolVar f2 x y neg a) s' := by
  have hp0 := Prod2.op_sound .boolOp (fb_assignBoolVar x y neg) hf2 hg.1 hr
  obtain ⟨b, rfl, rfl⟩ := hr
  obtain ⟨hp, hlb, hbb, hub, hL, hB⟩ := hg
  unfold assignBoolVar
  simp only [isBottom, Prod2.isBottom_false_of_γ hp, Bool.false_eq_true, if_false]
  have hpl := propagateAssignBoolVar_inv hL hlb x y neg
  have hb1 : (forgetImpliedBool x a.bools).isBot = false := by rw [isBot_forgetImpliedBool]; exact hbb
  refine ⟨hp0, hpl.1, ?_, hub, hpl.2, ?_⟩
  · show (if (!neg) = true then _ else _ : SEnv V V).isBot = false
    split
    · exact SEnv.isBot_set hb1 x (by rw [DSet.isBot_meet, SEnv.look_isBot hb1]; rfl)
    · rw [SEnv.isBot_del]; exact hb1
  · show BoolInvOf (if (!neg) = true then _ else _) _
    split
    · rename_i hn
      have hn' : neg = false := by simpa using hn
      subst hn'
      apply hB.setB_set hbb x _ (by rw [DSet.isBot_meet, SEnv.look_isBot hb1]; rfl)
      intro k' hk hbt
      simp only [Bool.bne_false] at hbt
      rw [DSet.mem_meet] at hk
      rcases hk with hk | hk
      · exact operand_members hB hbb x y k' _ hk hbt
      · have : k' = y := by simpa [DSet.mem] using hk
        subst this
        exact setB_implies_operand s x k' _ (by simp) (by simpa using hbt)
    · exact hB.setB_del hbb x _

/-! ### `apply_binary_bool` -/

theorem applyBinaryBool_sound {f2 : N.B → N.B} {op : BBin} {x y z : V}
    (hf2 : N.TSound f2 (relBbin op x y z)) {a : FBN N} {s s' : CSt V} (hg : γ a s)
    (hr : relBbin op x y z s s') : γ (applyBinaryBool f2 op x y z a) s' := by
  have hp0 := Prod2.op_sound .boolOp (fb_applyBinaryBool op x y z) hf2 hg.1 hr
  obtain ⟨b, rfl, rfl⟩ := hr
  obtain ⟨hp, hlb, hbb, hub, hL, hB⟩ := hg
  unfold applyBinaryBool
  simp only [isBottom, Prod2.isBottom_false_of_γ hp, Bool.false_eq_true, if_false]
  have hb1 : (forgetImpliedBool x a.bools).isBot = false := by rw [isBot_forgetImpliedBool]; exact hbb
  have hv : ∀ (y z : V), DSet.isBot (((((forgetImpliedBool x a.bools).look y).meet
      ((forgetImpliedBool x a.bools).look z)).meet (.fin [y])).meet (.fin [z])) = false := by
    intro y z
    rw [DSet.isBot_meet, DSet.isBot_meet, DSet.isBot_meet, SEnv.look_isBot hb1, SEnv.look_isBot hb1]
    rfl
  refine ⟨hp0, by rw [SEnv.isBot_del]; exact hlb, ?_, hub, hL.setB_del hlb x _, ?_⟩
  · show (if op = BBin.band then _ else _ : SEnv V V).isBot = false
    split
    · exact SEnv.isBot_set hb1 x (hv y z)
    · rw [SEnv.isBot_del]; exact hb1
  · show BoolInvOf (if op = BBin.band then _ else _) _
    split
    · rename_i hop
      subst hop
      apply hB.setB_set hbb x _ (hv y z)
      intro k' hk hbt
      simp only [BBin.eval, Bool.and_eq_true] at hbt
      simp only [DSet.mem_meet] at hk
      rcases hk with ((hk | hk) | hk) | hk
      · exact operand_members hB hbb x y k' _ hk hbt.1
      · exact operand_members hB hbb x z k' _ hk hbt.2
      · have : k' = y := by simpa [DSet.mem] using hk
        subst this
        exact setB_implies_operand s x k' _ (by simp [BBin.eval]; exact fun a _ => a) (by simpa [BBin.eval] using hbt)
      · have : k' = z := by simpa [DSet.mem] using hk
        subst this
        exact setB_implies_operand s x k' _ (by simp [BBin.eval]) (by simpa [BBin.eval] using hbt)
    · exact hB.setB_del hbb x _

end FBN

end Fct
end Dom
end Crab
