import CrabProofs.Lemmas.TIRLive

/-!
  What the boolean well-formedness check `Prog.wf` gives.
-/
namespace Crab
namespace TIR

theorem wf_parts {P : Prog} (h : P.wf = true) :
    nodupB P.labels = true ∧ P.labels.contains P.entry = true ∧
    (match P.exit with | some x => P.labels.contains x | none => true) = true ∧
    P.blocks.all (fun b =>
      nodupB b.succ && nodupB b.pred &&
      b.succ.all (fun l => (P.predsOf l).contains b.label && P.labels.contains l) &&
      b.pred.all (fun l => (P.succsOf l).contains b.label && P.labels.contains l)) = true := by
  unfold Prog.wf at h
  simp only [Bool.and_eq_true] at h
  exact ⟨h.1.1.1, h.1.1.2, h.1.2, h.2⟩

theorem block?_mem {P : Prog} {l : Label} {b : Block} (h : P.block? l = some b) :
    b ∈ P.blocks ∧ b.label = l := by
  unfold Prog.block? at h
  exact ⟨List.mem_of_find?_eq_some h, by simpa using List.find?_some h⟩

theorem wf_succ_labels {P : Prog} (h : P.wf = true) {l l' : Label} (hl : l' ∈ P.succsOf l) :
    l' ∈ P.labels := by
  have h4 := (wf_parts h).2.2.2
  unfold Prog.succsOf at hl
  cases hb : P.block? l with
  | none => rw [hb] at hl; simp at hl
  | some b =>
    rw [hb] at hl
    simp only at hl
    rw [List.all_eq_true] at h4
    have := h4 b (block?_mem hb).1
    simp only [Bool.and_eq_true, List.all_eq_true] at this
    have h5 := this.1.2 l' hl
    simpa using h5.2

theorem wf_succ_pred {P : Prog} (h : P.wf = true) {l l' : Label} (hl : l' ∈ P.succsOf l) :
    l ∈ P.predsOf l' := by
  have h4 := (wf_parts h).2.2.2
  unfold Prog.succsOf at hl
  cases hb : P.block? l with
  | none => rw [hb] at hl; simp at hl
  | some b =>
    rw [hb] at hl
    simp only at hl
    rw [List.all_eq_true] at h4
    have := h4 b (block?_mem hb).1
    simp only [Bool.and_eq_true, List.all_eq_true] at this
    have h5 := this.1.2 l' hl
    rw [(block?_mem hb).2] at h5
    simpa using h5.1

theorem wf_pred_succ {P : Prog} (h : P.wf = true) {l l' : Label} (hl : l' ∈ P.predsOf l) :
    l ∈ P.succsOf l' := by
  have h4 := (wf_parts h).2.2.2
  unfold Prog.predsOf at hl
  cases hb : P.block? l with
  | none => rw [hb] at hl; simp at hl
  | some b =>
    rw [hb] at hl
    simp only at hl
    rw [List.all_eq_true] at h4
    have := h4 b (block?_mem hb).1
    simp only [Bool.and_eq_true, List.all_eq_true] at this
    have h5 := this.2 l' hl
    rw [(block?_mem hb).2] at h5
    simpa using h5.1

theorem wf_exitPresent {P : Prog} (h : P.wf = true) : P.exitPresent := by
  intro l hl
  have h3 := (wf_parts h).2.2.1
  have : P.exit = some l := by simpa [Prog.isExit] using hl
  rw [this] at h3
  simpa using h3

theorem wf_entry {P : Prog} (h : P.wf = true) : P.entry ∈ P.labels := by
  simpa using (wf_parts h).2.1

end TIR
end Crab
