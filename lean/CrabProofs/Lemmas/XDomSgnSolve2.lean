import CrabProofs.Lemmas.XDomSgnSolve

/-!
  `sign_domain` (model `Crab.SDom`): the two lambdas of `solve_constraints`
  (`solve_strict_inequality`, `solve_inequality`) and the loops over `equal` / `not_equal`.
-/
namespace Crab
namespace SDom
open XDom Lin

namespace Env

theorem mem_meet_const {e : Env} {σ : State} (hg : e.γ σ) (v : Var) {s : Sign} (h : Sign.mem (σ v) s) :
    Sign.mem (σ v) (sop .meet (e.get v) s) := meet_sound (get_mem hg v) h

/-- the lambda `solve_strict_inequality` applied to a fact of a constraint `e < 0` -/
theorem solveStrict_spec {e : Env} (he : e.Inv) {σ : State} {ex : Expr} {t : Var × Int × Sign}
    (hf : Fact σ ex t) (hlt : ex.eval σ < 0) {isLess : Bool}
    (hs : (isLess = true ∧ 0 < t.2.1) ∨ (isLess = false ∧ t.2.1 < 0)) :
    (e.solveStrict t.1 t.2.2 isLess).Inv ∧ (e.γ σ → (e.solveStrict t.1 t.2.2 isLess).γ σ) := by
  obtain ⟨v, coef, res⟩ := t
  obtain ⟨_, hv, _, ρ, hρ, heq⟩ := hf
  simp only at hv hρ heq hs
  have m1 := mul_sign ρ coef
  have m2 := mul_sign coef (σ v)
  unfold solveStrict
  rcases hs with ⟨h1, h2⟩ | ⟨h1, h2⟩ <;> subst h1 <;> simp only [if_true, Bool.false_eq_true, if_false]
  · by_cases hz : res = .eqz
    · simp only [hz, if_true]
      refine ⟨set_inv he hv _, fun hg => set_sound_same he hg hv (mem_meet_const hg v ?_)⟩
      rw [hz] at hρ
      have h0 := mem_eqz.mp hρ
      exact mem_ltz.mpr (by omega)
    · simp only [hz, if_false]
      split
      · rename_i hcond
        refine ⟨inv_bot, fun hg => ?_⟩
        exfalso
        have hm := get_mem hg v
        have hp : 0 ≤ σ v := by
          rcases hcond.1 with h | h <;> rw [h] at hm
          · have := mem_gtz.mp hm; omega
          · exact mem_gez.mp hm
        have hr : ρ * coef ≤ 0 := by
          rcases hcond.2 with h | h <;> rw [h] at hρ
          · have := mem_ltz.mp hρ; omega
          · exact mem_lez.mp hρ
        omega
      · exact ⟨he, fun hg => hg⟩
  · by_cases hz : res = .eqz
    · simp only [hz, if_true]
      refine ⟨set_inv he hv _, fun hg => set_sound_same he hg hv (mem_meet_const hg v ?_)⟩
      rw [hz] at hρ
      have h0 := mem_eqz.mp hρ
      exact mem_gtz.mpr (by omega)
    · simp only [hz, if_false]
      split
      · rename_i hcond
        refine ⟨inv_bot, fun hg => ?_⟩
        exfalso
        have hm := get_mem hg v
        have hp : σ v ≤ 0 := by
          rcases hcond.2 with h | h <;> rw [h] at hm
          · have := mem_ltz.mp hm; omega
          · exact mem_lez.mp hm
        have hr : 0 ≤ ρ * coef := by
          rcases hcond.1 with h | h <;> rw [h] at hρ
          · have := mem_gtz.mp hρ; omega
          · exact mem_gez.mp hρ
        omega
      · exact ⟨he, fun hg => hg⟩

/-- the lambda `solve_inequality` applied to a fact of a constraint `e <= 0` -/
theorem solveIneq_spec {e : Env} (he : e.Inv) {σ : State} {ex : Expr} {t : Var × Int × Sign}
    (hf : Fact σ ex t) (hle : ex.eval σ ≤ 0) {isLessEq : Bool}
    (hs : (isLessEq = true ∧ 0 < t.2.1) ∨ (isLessEq = false ∧ t.2.1 < 0)) :
    (e.solveIneq t.1 t.2.2 isLessEq).Inv ∧ (e.γ σ → (e.solveIneq t.1 t.2.2 isLessEq).γ σ) := by
  obtain ⟨v, coef, res⟩ := t
  obtain ⟨_, hv, _, ρ, hρ, heq⟩ := hf
  simp only at hv hρ heq hs
  have m1 := mul_sign ρ coef
  have m2 := mul_sign coef (σ v)
  unfold solveIneq
  rcases hs with ⟨h1, h2⟩ | ⟨h1, h2⟩ <;> subst h1 <;> simp only [if_true, Bool.false_eq_true, if_false]
  · by_cases hz : res = .eqz
    · simp only [hz, if_true]
      refine ⟨set_inv he hv _, fun hg => set_sound_same he hg hv (mem_meet_const hg v ?_)⟩
      rw [hz] at hρ
      have h0 := mem_eqz.mp hρ
      exact mem_lez.mpr (by omega)
    · simp only [hz, if_false]
      split
      · rename_i hcond
        refine ⟨inv_bot, fun hg => ?_⟩
        exfalso
        have hm := get_mem hg v
        rw [hcond.1] at hm; rw [hcond.2] at hρ
        have := mem_gez.mp hm; have := mem_ltz.mp hρ
        omega
      · split
        · rename_i hcond
          refine ⟨inv_bot, fun hg => ?_⟩
          exfalso
          have hm := get_mem hg v
          rw [hcond.1] at hm
          have hp := mem_gtz.mp hm
          have hr : ρ * coef ≤ 0 := by
            rcases hcond.2 with h | h <;> rw [h] at hρ
            · have := mem_ltz.mp hρ; omega
            · exact mem_lez.mp hρ
          omega
        · exact ⟨he, fun hg => hg⟩
  · by_cases hz : res = .eqz
    · simp only [hz, if_true]
      refine ⟨set_inv he hv _, fun hg => set_sound_same he hg hv (mem_meet_const hg v ?_)⟩
      rw [hz] at hρ
      have h0 := mem_eqz.mp hρ
      exact mem_gez.mpr (by omega)
    · simp only [hz, if_false]
      split
      · rename_i hcond
        refine ⟨inv_bot, fun hg => ?_⟩
        exfalso
        have hm := get_mem hg v
        rw [hcond.2] at hm; rw [hcond.1] at hρ
        have := mem_ltz.mp hm; have := mem_gez.mp hρ
        omega
      · split
        · rename_i hcond
          refine ⟨inv_bot, fun hg => ?_⟩
          exfalso
          have hm := get_mem hg v
          rw [hcond.1] at hρ
          have hr := mem_gtz.mp hρ
          have hp : σ v ≤ 0 := by
            rcases hcond.2 with h | h <;> rw [h] at hm
            · have := mem_ltz.mp hm; omega
            · exact mem_lez.mp hm
          omega
        · exact ⟨he, fun hg => hg⟩

/-- folding a lambda over a vector of facts -/
theorem fold_spec {f : Env → Var × Int × Sign → Env} {σ : State} {P : Var × Int × Sign → Prop}
    (hstep : ∀ (e : Env) t, P t → e.Inv → (f e t).Inv ∧ (e.γ σ → (f e t).γ σ)) :
    ∀ (ts : List (Var × Int × Sign)) (e : Env), (∀ t ∈ ts, P t) → e.Inv →
      (ts.foldl f e).Inv ∧ (e.γ σ → (ts.foldl f e).γ σ) := by
  intro ts
  induction ts with
  | nil => intro e _ he; exact ⟨he, fun hg => hg⟩
  | cons t rest ih =>
    intro e hP he
    simp only [List.foldl_cons]
    obtain ⟨i1, s1⟩ := hstep e t (hP t List.mem_cons_self) he
    obtain ⟨i2, s2⟩ := ih (f e t) (fun q hq => hP q (List.mem_cons_of_mem _ hq)) i1
    exact ⟨i2, fun hg => s2 (s1 hg)⟩

/-- the loop over `equal` for a constraint `e == 0` -/
theorem eqLoop_spec {σ : State} {ex : Expr} (h0 : ex.eval σ = 0) :
    ∀ (ts : List (Var × Int × Sign)) (e : Env), (∀ t ∈ ts, Fact σ ex t) → e.Inv →
      (eqLoop ts e).2.Inv ∧ (e.γ σ → (eqLoop ts e).2.γ σ) := by
  intro ts
  induction ts with
  | nil => intro e _ he; exact ⟨he, fun hg => hg⟩
  | cons t rest ih =>
    intro e hP he
    obtain ⟨v, coef, res⟩ := t
    obtain ⟨hne, hv, _, ρ, hρ, heq⟩ := hP _ List.mem_cons_self
    simp only at hne hv hρ heq
    simp only [eqLoop]
    have hstep : e.γ σ → (e.set v (sop .meet (e.get v) res)).γ σ := by
      intro hg
      apply set_sound_same he hg hv (mem_meet_const hg v ?_)
      -- the pivot is the exact quotient: its sign is the sign of `ρ * coef`
      have e1 : ρ * coef = σ v * (coef * coef) := by
        have : ρ = coef * σ v := by omega
        rw [this, Int.mul_comm coef (σ v), Int.mul_assoc]
      have hsq : 0 < coef * coef := by
        have := mul_sign coef coef
        rcases Int.lt_or_gt_of_ne hne with h | h
        · exact this.2.2.2.1 h h
        · exact this.1 h h
      have hcls : Cls.of (ρ * coef) = Cls.of (σ v) := by
        rw [e1]
        have m := mul_sign (σ v) (coef * coef)
        rcases Cls.of_cases (σ v) with ⟨h, e2⟩ | ⟨h, e2⟩ | ⟨h, e2⟩ <;> rw [e2]
        · exact Cls.of_neg (m.2.2.1 h hsq)
        · rw [m.2.2.2.2.1 h]; exact Cls.of_zero
        · exact Cls.of_pos (m.1 h hsq)
      unfold Sign.mem at hρ ⊢
      rw [← hcls]; exact hρ
    split
    · exact ⟨set_inv he hv _, hstep⟩
    · obtain ⟨i2, s2⟩ := ih _ (fun q hq => hP q (List.mem_cons_of_mem _ hq)) (set_inv he hv _)
      exact ⟨i2, fun hg => s2 (hstep hg)⟩

/-- the loop over `not_equal` for a constraint `e != 0` -/
theorem neqLoop_spec {σ : State} {ex : Expr} (h0 : ex.eval σ ≠ 0) :
    ∀ (ts : List (Var × Int × Sign)) (e : Env), (∀ t ∈ ts, Fact σ ex t) → e.Inv →
      (neqLoop ts e).2.Inv ∧ (e.γ σ → (neqLoop ts e).2.γ σ) := by
  intro ts
  induction ts with
  | nil => intro e _ he; exact ⟨he, fun hg => hg⟩
  | cons t rest ih =>
    intro e hP he
    obtain ⟨v, coef, res⟩ := t
    obtain ⟨hne, hv, hnez, ρ, hρ, heq⟩ := hP _ List.mem_cons_self
    simp only at hne hv hnez hρ heq
    have hrest := fun q hq => hP q (List.mem_cons_of_mem _ hq)
    simp only [neqLoop]
    split
    · rename_i hz
      have hstep : e.γ σ → (e.set v (sop .meet (e.get v) .nez)).γ σ := by
        intro hg
        apply set_sound_same he hg hv (mem_meet_const hg v ?_)
        rw [hz] at hρ
        have h1 := mem_eqz.mp hρ
        have m1 := mul_sign ρ coef
        have m2 := mul_sign coef (σ v)
        exact mem_nez.mpr (by omega)
      split
      · exact ⟨set_inv he hv _, hstep⟩
      · obtain ⟨i2, s2⟩ := ih _ hrest (set_inv he hv _)
        exact ⟨i2, fun hg => s2 (hstep hg)⟩
    · exact ih e hrest he

end Env
end SDom
end Crab
