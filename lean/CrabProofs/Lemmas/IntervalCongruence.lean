import CrabModel.Scalar.IntervalCongruence
import CrabProofs.Lemmas.CongruenceOps
import CrabProofs.Lemmas.IntervalLattice

/-! `interval_congruence::reduce()` keeps exactly the common members of the interval and the
    congruence (Granger's reduction as coded). -/
namespace Crab
namespace IC
open Bound

theorem imod_spec {a m r : Int} (hm : 0 < m) (h : imod? a m = some r) : 0 ≤ r ∧ r < m ∧ m ∣ a - r := by
  unfold imod? at h
  have hm0 : m ≠ 0 := by omega
  simp only [hm0, if_false, Option.some.injEq] at h
  have h1 := Int.tmod_lt_of_pos a hm
  have h2 := Int.lt_tmod_of_pos a hm
  have h3 : m ∣ a - Int.tmod a m := by
    rw [Int.tmod_def]
    have : a - (a - m * a.tdiv m) = m * a.tdiv m := by omega
    rw [this]; exact Int.dvd_mul_right _ _
  split at h
  · subst h
    refine ⟨by omega, by omega, ?_⟩
    have : a - (a.tmod m + m) = (a - a.tmod m) - m := by omega
    rw [this]; exact Int.dvd_sub h3 (Int.dvd_refl m)
  · subst h; exact ⟨by omega, h1, h3⟩

theorem imod_isSome {a m : Int} (hm : m ≠ 0) : ∃ r, imod? a m = some r := by
  unfold imod?; simp [hm]

theorem iabs_pos {a : Int} (h : a ≠ 0) : 0 < Cong.iabs a := by unfold Cong.iabs; split <;> omega
theorem iabs_dvd {a x : Int} : Cong.iabs a ∣ x ↔ a ∣ x := by
  unfold Cong.iabs; split
  · exact Int.neg_dvd
  · exact Iff.rfl

/-- a multiple of `m > 0` that is greater than `-m` is non-negative -/
theorem nonneg_of_dvd_of_gt {m d : Int} (hm : 0 < m) (hd : m ∣ d) (hgt : -m < d) : 0 ≤ d := by
  obtain ⟨t, ht⟩ := hd
  apply Classical.byContradiction
  intro hneg
  have ht1 : t ≤ -1 := by
    apply Classical.byContradiction
    intro h
    have : 0 ≤ t := by omega
    have := Int.mul_nonneg (Int.le_of_lt hm) this
    omega
  have := Int.mul_le_mul_of_nonneg_left ht1 (Int.le_of_lt hm)
  omega

/-- `R(c,l)` is a member of the class, at least `l`, and below every member that is `≥ l` -/
theorem R_spec {c : Cong} {l x : Int} (ha : c.a ≠ 0) (h : R? c l = some x) :
    l ≤ x ∧ c.a ∣ x - c.b ∧ ∀ k, c.a ∣ k - c.b → l ≤ k → x ≤ k := by
  unfold R? at h
  obtain ⟨r, hr⟩ := imod_isSome (a := c.b - l) (by have := iabs_pos ha; omega : Cong.iabs c.a ≠ 0)
  rw [hr] at h; simp only [Option.map_some, Option.some.injEq] at h
  obtain ⟨r0, r1, r2⟩ := imod_spec (iabs_pos ha) hr
  subst h
  have hdx : c.a ∣ l + r - c.b := by
    have := iabs_dvd.mp r2
    have e : l + r - c.b = -(c.b - l - r) := by omega
    rw [e]; exact Int.dvd_neg.mpr this
  refine ⟨by omega, hdx, ?_⟩
  intro k hk hlk
  have hd : Cong.iabs c.a ∣ k - (l + r) := by
    apply iabs_dvd.mpr
    have e : k - (l + r) = (k - c.b) - (l + r - c.b) := by omega
    rw [e]; exact Int.dvd_sub hk hdx
  have := nonneg_of_dvd_of_gt (iabs_pos ha) hd (by omega)
  omega

/-- `L(c,u)` is a member of the class, at most `u`, and above every member that is `≤ u` -/
theorem L_spec {c : Cong} {u y : Int} (ha : c.a ≠ 0) (h : L? c u = some y) :
    y ≤ u ∧ c.a ∣ y - c.b ∧ ∀ k, c.a ∣ k - c.b → k ≤ u → k ≤ y := by
  unfold L? at h
  obtain ⟨r, hr⟩ := imod_isSome (a := u - c.b) (by have := iabs_pos ha; omega : Cong.iabs c.a ≠ 0)
  rw [hr] at h; simp only [Option.map_some, Option.some.injEq] at h
  obtain ⟨r0, r1, r2⟩ := imod_spec (iabs_pos ha) hr
  subst h
  have hdx : c.a ∣ u - r - c.b := by
    have := iabs_dvd.mp r2
    have e : u - r - c.b = u - c.b - r := by omega
    rw [e]; exact this
  refine ⟨by omega, hdx, ?_⟩
  intro k hk hku
  have hd : Cong.iabs c.a ∣ (u - r) - k := by
    apply iabs_dvd.mpr
    have e : (u - r) - k = (u - r - c.b) - (k - c.b) := by omega
    rw [e]; exact Int.dvd_sub hdx hk
  have := nonneg_of_dvd_of_gt (iabs_pos ha) hd (by omega)
  omega

theorem R_isSome {c : Cong} (ha : c.a ≠ 0) (l : Int) : ∃ x, R? c l = some x := by
  obtain ⟨r, hr⟩ := imod_isSome (a := c.b - l) (by have := iabs_pos ha; omega : Cong.iabs c.a ≠ 0)
  exact ⟨l + r, by simp [R?, hr]⟩
theorem L_isSome {c : Cong} (ha : c.a ≠ 0) (u : Int) : ∃ y, L? c u = some y := by
  obtain ⟨r, hr⟩ := imod_isSome (a := u - c.b) (by have := iabs_pos ha; omega : Cong.iabs c.a ≠ 0)
  exact ⟨u - r, by simp [L?, hr]⟩

theorem mem_fin_iff {k : Int} {i : Itv} {l u : Int} (hl : i.lb = fin l) (hu : i.ub = fin u) :
    Itv.mem k i ↔ l ≤ k ∧ k ≤ u := by
  simp [Itv.mem, hl, hu, Bound.le]


theorem leq_single_of_mem {k : Int} {i : Itv} (h : Itv.mem k i) : Itv.leq (Itv.single k) i = true := by
  have hib := Itv.isBottom_false_of_mem h
  have hs : (Itv.single k).isBottom = false := by simp [Itv.single, Itv.isBottom, Bound.gt, Bound.le]
  unfold Itv.leq
  rw [hs, hib]
  simp only [Bool.false_eq_true, if_false, Itv.single, Bool.and_eq_true]
  exact h

/-- **soundness of `reduce()`**: no common member of the interval and the congruence is lost -/
theorem reduce_sound {p q : IC} {k : Int} (hk : mem k p) (h : reduce p = some q) : mem k q := by
  obtain ⟨hi, hc⟩ := hk
  have hib := Itv.isBottom_false_of_mem hi
  have hcb : p.c.isBottom = false := hc.1
  unfold reduce at h
  simp only [hib, hcb, Bool.or_self, Bool.false_eq_true, if_false] at h
  split at h
  · split at h
    · rename_i n hn
      cases h
      exact ⟨hi, (Cong.mem_ofInt k n).mpr (Itv.mem_of_singleton? hn hi)⟩
    · cases h; exact ⟨hi, hc⟩
  · split at h
    · rename_i ha0
      have ek := Cong.eq_of_mem_cst hc ha0
      have hle : Itv.leq (Itv.single p.c.b) p.i = true := by rw [← ek]; exact leq_single_of_mem hi
      simp only [hle, Bool.not_true, Bool.false_eq_true, if_false, Option.some.injEq] at h
      subst h
      exact ⟨(Itv.mem_single k _).mpr ek, hc⟩
    · rename_i ha0
      split at h
      · rename_i l u hl hu
        obtain ⟨x, hx⟩ := R_isSome ha0 l
        obtain ⟨y, hy⟩ := L_isSome ha0 u
        rw [hx, hy] at h
        obtain ⟨_, _, hxk⟩ := R_spec ha0 hx
        obtain ⟨_, _, hyk⟩ := L_spec ha0 hy
        have hlu := (mem_fin_iff hl hu).mp hi
        have h1 := hxk k hc.2 hlu.1
        have h2 := hyk k hc.2 hlu.2
        simp only at h
        split at h
        · omega
        · split at h
          · cases h
            have : k = x := by omega
            exact ⟨(Itv.mem_single k x).mpr this, (Cong.mem_ofInt k x).mpr this⟩
          · cases h
            exact ⟨(Itv.mem_mk' k _ _).mpr ⟨by simp [Bound.le]; exact h1, by simp [Bound.le]; exact h2⟩, hc⟩
      · rename_i l hl hu
        obtain ⟨x, hx⟩ := R_isSome ha0 l
        rw [hx] at h
        obtain ⟨_, _, hxk⟩ := R_spec ha0 hx
        cases h
        have hlk : l ≤ k := by have := hi.1; rw [hl] at this; simpa [Bound.le] using this
        have h1 := hxk k hc.2 hlk
        exact ⟨(Itv.mem_mk' k _ _).mpr ⟨by simp [Bound.le]; exact h1, by simp [Bound.le]⟩, hc⟩
      · rename_i u hu hl
        obtain ⟨y, hy⟩ := L_isSome ha0 u
        rw [hy] at h
        obtain ⟨_, _, hyk⟩ := L_spec ha0 hy
        cases h
        have hku : k ≤ u := by have := hi.2; rw [hu] at this; simpa [Bound.le] using this
        have h2 := hyk k hc.2 hku
        exact ⟨(Itv.mem_mk' k _ _).mpr ⟨by simp [Bound.le], by simp [Bound.le]; exact h2⟩, hc⟩
      · cases h; exact ⟨hi, hc⟩

/-- `reduce()` never raises CRAB_ERROR (`mod` is only called with a non-zero modulus) -/
theorem reduce_defined (p : IC) : (reduce p).isSome = true := by
  unfold reduce
  generalize (if (p.i.isBottom || p.c.isBottom) = true then (⟨Itv.bot, Cong.bot⟩ : IC) else p) = p'
  simp only []
  split
  · split <;> rfl
  · split
    · split <;> rfl
    · rename_i ha0
      split
      · rename_i l u _ _
        obtain ⟨x, hx⟩ := R_isSome ha0 l
        obtain ⟨y, hy⟩ := L_isSome ha0 u
        rw [hx, hy]; simp only []
        split
        · rfl
        · split <;> rfl
      · rename_i l _ _
        obtain ⟨x, hx⟩ := R_isSome ha0 l
        rw [hx]; rfl
      · rename_i u _ _
        obtain ⟨y, hy⟩ := L_isSome ha0 u
        rw [hy]; rfl
      · rfl

/-- **exactness of `reduce()`**: it adds no member either -/
theorem reduce_exact {p q : IC} {k : Int} (hk : mem k q) (h : reduce p = some q) : mem k p := by
  unfold reduce at h
  by_cases hb : (p.i.isBottom || p.c.isBottom) = true
  · -- a bottom pair: the result is (bottom, bottom)
    simp only [hb, if_true] at h
    have e1 : Cong.bot.isTop = true := by decide
    have e2 : Itv.bot.singleton? = none := by decide
    simp only [e1, e2, if_true, Option.some.injEq] at h
    subst h
    exact absurd hk.1 (Itv.not_mem_bot k)
  · simp only [hb, Bool.false_eq_true, if_false] at h
    simp only [Bool.or_eq_true, not_or, Bool.not_eq_true] at hb
    obtain ⟨hib, hcb⟩ := hb
    have hcb' : p.c.isBot = false := hcb
    split at h
    · rename_i htop
      split at h
      · rename_i n hn
        cases h
        exact ⟨hk.1, Cong.mem_of_isTop hcb' htop⟩
      · cases h; exact hk
    · split at h
      · rename_i ha0
        split at h
        · cases h; exact absurd hk.1 (Itv.not_mem_bot k)
        · rename_i hle
          cases h
          simp only [Bool.not_eq_eq_eq_not, Bool.not_true, Bool.not_eq_false] at hle
          exact ⟨Itv.leq_sound hle hk.1, hk.2⟩
      · rename_i ha0
        split at h
        · rename_i l u hl hu
          obtain ⟨x, hx⟩ := R_isSome ha0 l
          obtain ⟨y, hy⟩ := L_isSome ha0 u
          rw [hx, hy] at h
          obtain ⟨hlx, hxc, _⟩ := R_spec ha0 hx
          obtain ⟨hyu, _, _⟩ := L_spec ha0 hy
          simp only at h
          split at h
          · cases h; exact absurd hk.1 (Itv.not_mem_bot k)
          · split at h
            · cases h
              have ek : k = x := (Itv.mem_single k x).mp hk.1
              refine ⟨(mem_fin_iff hl hu).mpr (by omega), hcb', ?_⟩
              rw [ek]; exact hxc
            · cases h
              have := (Itv.mem_mk' k _ _).mp hk.1
              simp only [Bound.le, decide_eq_true_eq] at this
              exact ⟨(mem_fin_iff hl hu).mpr (by omega), hk.2⟩
        · rename_i l hl hu
          obtain ⟨x, hx⟩ := R_isSome ha0 l
          rw [hx] at h
          obtain ⟨hlx, _, _⟩ := R_spec ha0 hx
          cases h
          have := (Itv.mem_mk' k _ _).mp hk.1
          simp only [Bound.le, decide_eq_true_eq] at this
          refine ⟨⟨by rw [hl]; simp [Bound.le]; omega, ?_⟩, hk.2⟩
          -- the upper bound is not finite and the interval is not bottom: it is +oo
          simp only [Itv.isBottom, Bound.gt, hl] at hib
          cases hub : p.i.ub with
          | pinf => rfl
          | ninf => rw [hub] at hib; simp [Bound.le] at hib
          | fin u => exact absurd hub (hu u)
        · rename_i u hu hl
          obtain ⟨y, hy⟩ := L_isSome ha0 u
          rw [hy] at h
          obtain ⟨hyu, _, _⟩ := L_spec ha0 hy
          cases h
          have := (Itv.mem_mk' k _ _).mp hk.1
          simp only [Bound.le, decide_eq_true_eq] at this
          refine ⟨⟨?_, by rw [hu]; simp [Bound.le]; omega⟩, hk.2⟩
          simp only [Itv.isBottom, Bound.gt, hu] at hib
          cases hlb : p.i.lb with
          | ninf => rfl
          | pinf => rw [hlb] at hib; simp [Bound.le] at hib
          | fin l => exact absurd hlb (hl l)
        · cases h; exact hk

end IC
end Crab
