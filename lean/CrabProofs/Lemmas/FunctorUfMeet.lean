import CrabProofs.Lemmas.FunctorUfClosure

/-!
`uf_domain`: `copy_term`, the pseudo-meet `operator&` and `operator+=` (equalities and
disequalities between two variables) are sound and keep term variables below `m_free_var`.
-/
namespace Crab
namespace Dom
namespace Fct
namespace Uf
set_option linter.unusedSectionVars false

variable {V F : Type} [DecidableEq V] [DecidableEq F] (I : F → List Int → Int)

/-! ### the loop "new map from variable to an acyclic term" -/

theorem rebuildGo_spec {choose : List (Term F) → Option (Term F)} (hch : ChooseOK choose) {pm : PMap F}
    {terms : List (Term F)} {n : Nat} (hpm : PMB n pm) (hterms : ∀ t ∈ terms, t.bounded n = true)
    (fuel : Nat) (skip : V → Bool) (s : St V) :
    (m : List (V × Term F)) → (st : BSt F) → (ρ : Nat → Int) → PV I ρ pm → CacheOK I st ρ → MapB n m →
    n ≤ st.next → Mod I ρ m s →
    ∃ ρ', Ext st.next ρ ρ' ∧ Mod I ρ' (rebuildGo choose pm terms fuel skip m st).1 s ∧
      MapB (rebuildGo choose pm terms fuel skip m st).2.next (rebuildGo choose pm terms fuel skip m st).1 ∧
      st.next ≤ (rebuildGo choose pm terms fuel skip m st).2.next
  | [], st, ρ, _, _, _, _, _ => by
    simp only [rebuildGo]
    exact ⟨ρ, Ext.refl _ _, fun p hp => by simp at hp, fun p hp => by simp at hp, Nat.le_refl _⟩
  | (v, t) :: rest, st, ρ, hpv, hc, hb, hn, hm => by
    have hbt : t.bounded n = true := hb (v, t) List.mem_cons_self
    have hbr : MapB n rest := fun p hp => hb p (List.mem_cons_of_mem _ hp)
    have hmr : Mod I ρ rest s := fun p hp => hm p (List.mem_cons_of_mem _ hp)
    have hv : s v = t.eval I ρ := hm (v, t) List.mem_cons_self
    simp only [rebuildGo]
    split
    · obtain ⟨ρ', b1, b2, b3, b4⟩ := rebuildGo_spec hch hpm hterms fuel skip s rest st ρ hpv hc hbr hn hmr
      refine ⟨ρ', b1, ?_, ?_, b4⟩
      · intro p hp
        rcases List.mem_cons.1 hp with rfl | hp
        · show s v = _
          rw [Term.eval_ext I b1 _ (Term.bounded_mono hn _ hbt)]; exact hv
        · exact b2 p hp
      · intro p hp
        rcases List.mem_cons.1 hp with rfl | hp
        · exact Term.bounded_mono (Nat.le_trans hn b4) _ hbt
        · exact b3 p hp
    · obtain ⟨ρ1, a1, a2, a3, a4, a5⟩ := dag_spec I hch hpm hterms fuel [] (pfindF pm t) st ρ hpv hc
        (pfind_bounded hpm _ t hbt) hn
      have hpv1 : PV I ρ1 pm := by
        intro e he
        have hb' := hpm e he
        rw [Term.eval_ext I a1 _ (Term.bounded_mono hn _ hb'.1),
          Term.eval_ext I a1 _ (Term.bounded_mono hn _ hb'.2)]
        exact hpv e he
      have hmr1 : Mod I ρ1 rest s := mod_ext a1 (mapB_mono hn hbr) hmr
      obtain ⟨ρ', b1, b2, b3, b4⟩ := rebuildGo_spec hch hpm hterms fuel skip s rest _ ρ1 hpv1 a2 hbr
        (Nat.le_trans hn a5) hmr1
      refine ⟨ρ', Ext.trans a1 b1 a5, ?_, ?_, Nat.le_trans a5 b4⟩
      · intro p hp
        rcases List.mem_cons.1 hp with rfl | hp
        · show s v = _
          rw [Term.eval_ext I b1 _ a3, a4]; unfold pfindF; rw [pfind_eval I hpv _ t]; exact hv
        · exact b2 p hp
      · intro p hp
        rcases List.mem_cons.1 hp with rfl | hp
        · exact Term.bounded_mono b4 _ a3
        · exact b3 p hp

/-! ### `copy_term` -/

/-- the fresh variables of the copy carry the values of the variables they stand for -/
def RenOK (ρb : Nat → Int) (st : CSt) (ρ : Nat → Int) : Prop :=
  ∀ e ∈ st.ren, e.2 < st.next ∧ ρ e.2 = ρb e.1

mutual
theorem copyT_spec (ρb : Nat → Int) : (t : Term F) → (st : CSt) → (ρ : Nat → Int) → RenOK ρb st ρ →
    ∃ ρ', Ext st.next ρ ρ' ∧ RenOK ρb (copyT t st).2 ρ' ∧ (copyT t st).1.bounded (copyT t st).2.next = true ∧
      (copyT t st).1.eval I ρ' = t.eval I ρb ∧ st.next ≤ (copyT t st).2.next
  | .var n, st, ρ, h => by
    simp only [copyT]
    split
    · rename_i m hl
      have := h _ (look_mem hl)
      exact ⟨ρ, Ext.refl _ _, h, by simp only [Term.bounded, decide_eq_true_eq]; exact this.1,
        by simp only [Term.eval]; exact this.2, Nat.le_refl _⟩
    · refine ⟨upd ρ st.next (ρb n), upd_ext _ _ _, ?_, by simp [Term.bounded], by simp [Term.eval, upd_self],
        by simp⟩
      intro e he
      rcases List.mem_cons.1 he with rfl | he
      · exact ⟨Nat.lt_succ_self _, by simp [upd_self]⟩
      · have := h e he
        exact ⟨Nat.lt_succ_of_lt this.1, by rw [upd_ext ρ st.next (ρb n) e.2 this.1]; exact this.2⟩
  | .const k, st, ρ, h => by
    simp only [copyT]
    exact ⟨ρ, Ext.refl _ _, h, by simp [Term.bounded], by simp [Term.eval], Nat.le_refl _⟩
  | .app f xs, st, ρ, h => by
    simp only [copyT]
    obtain ⟨ρ', a1, a2, a3, a4, a5⟩ := copyL_spec ρb xs st ρ h
    exact ⟨ρ', a1, a2, by simp only [Term.bounded]; exact a3, by simp only [Term.eval]; rw [a4], a5⟩
theorem copyL_spec (ρb : Nat → Int) : (xs : List (Term F)) → (st : CSt) → (ρ : Nat → Int) → RenOK ρb st ρ →
    ∃ ρ', Ext st.next ρ ρ' ∧ RenOK ρb (copyL xs st).2 ρ' ∧
      Term.boundedL (copyL xs st).2.next (copyL xs st).1 = true ∧
      Term.evalL I ρ' (copyL xs st).1 = Term.evalL I ρb xs ∧ st.next ≤ (copyL xs st).2.next
  | [], st, ρ, h => by simp only [copyL]; exact ⟨ρ, Ext.refl _ _, h, rfl, rfl, Nat.le_refl _⟩
  | x :: xs, st, ρ, h => by
    simp only [copyL]
    obtain ⟨ρ1, a1, a2, a3, a4, a5⟩ := copyT_spec ρb x st ρ h
    obtain ⟨ρ2, b1, b2, b3, b4, b5⟩ := copyL_spec ρb xs (copyT x st).2 ρ1 a2
    refine ⟨ρ2, Ext.trans a1 b1 a5, b2, ?_, ?_, Nat.le_trans a5 b5⟩
    · simp only [Term.boundedL, Bool.and_eq_true]; exact ⟨Term.bounded_mono b5 _ a3, b3⟩
    · simp only [Term.evalL]; rw [b4, Term.eval_ext I b1 _ a3, a4]
end

theorem copyMap_spec (ρb : Nat → Int) (s : St V) : (m : List (V × Term F)) → (st : CSt) → (ρ : Nat → Int) →
    RenOK ρb st ρ →
    ∃ ρ', Ext st.next ρ ρ' ∧ (Mod I ρb m s → Mod I ρ' (copyMap m st).1 s) ∧
      MapB (copyMap m st).2.next (copyMap m st).1 ∧ st.next ≤ (copyMap m st).2.next ∧
      (∀ v, look (copyMap m st).1 v = none ↔ look m v = none)
  | [], st, ρ, _ => by
    simp only [copyMap]
    exact ⟨ρ, Ext.refl _ _, fun _ p hp => by simp at hp, fun p hp => by simp at hp, Nat.le_refl _,
      fun _ => by trivial⟩
  | (v, t) :: rest, st, ρ, h => by
    simp only [copyMap]
    obtain ⟨ρ1, a1, a2, a3, a4, a5⟩ := copyT_spec I ρb t st ρ h
    obtain ⟨ρ2, b1, b2, b3, b4, b5⟩ := copyMap_spec ρb s rest (copyT t st).2 ρ1 a2
    refine ⟨ρ2, Ext.trans a1 b1 a5, ?_, ?_, Nat.le_trans a5 b4, ?_⟩
    · intro hm p hp
      rcases List.mem_cons.1 hp with rfl | hp
      · show s v = _
        rw [Term.eval_ext I b1 _ a3, a4]; exact hm (v, t) List.mem_cons_self
      · exact b2 (fun p hp => hm p (List.mem_cons_of_mem _ hp)) p hp
    · intro p hp
      rcases List.mem_cons.1 hp with rfl | hp
      · exact Term.bounded_mono b4 _ a3
      · exact b3 p hp
    · intro w
      by_cases he : v = w
      · subst he; simp [look]
      · rw [look_cons_ne _ _ he, look_cons_ne _ _ he]; exact b5 w

/-! ### `operator&` -/

theorem meetEqs_mem {am bm : List (V × Term F)} {e : Term F × Term F} (h : e ∈ meetEqs am bm) :
    ∃ v, (v, e.1) ∈ am ∧ (v, e.2) ∈ bm := by
  simp only [meetEqs, List.mem_filterMap] at h
  obtain ⟨p, hp, hq⟩ := h
  split at hq
  · rename_i ty hl
    cases hq
    exact ⟨p.1, hp, look_mem hl⟩
  · cases hq

theorem meet_spec {choose : List (Term F) → Option (Term F)} (hch : ChooseOK choose) (ua ub : UVal V F)
    (ha : ua.WF) (s : St V) (ρa ρb : Nat → Int) :
    MapB (rebuildGo choose (closure (meetEqs ua.map (copyMap ub.map ⟨ua.next, []⟩).1))
        (eqTerms (meetEqs ua.map (copyMap ub.map ⟨ua.next, []⟩).1))
        (mapSize ua.map + mapSize (copyMap ub.map ⟨ua.next, []⟩).1 + 1)
        (fun v => (look (copyMap ub.map ⟨ua.next, []⟩).1 v).isNone) ua.map
        ⟨(copyMap ub.map ⟨ua.next, []⟩).2.next, []⟩).2.next
      ((rebuildGo choose (closure (meetEqs ua.map (copyMap ub.map ⟨ua.next, []⟩).1))
        (eqTerms (meetEqs ua.map (copyMap ub.map ⟨ua.next, []⟩).1))
        (mapSize ua.map + mapSize (copyMap ub.map ⟨ua.next, []⟩).1 + 1)
        (fun v => (look (copyMap ub.map ⟨ua.next, []⟩).1 v).isNone) ua.map
        ⟨(copyMap ub.map ⟨ua.next, []⟩).2.next, []⟩).1 ++
        (copyMap ub.map ⟨ua.next, []⟩).1.filter (fun p => (look ua.map p.1).isNone)) ∧
    (Mod I ρa ua.map s → Mod I ρb ub.map s →
      ∃ ρ', Mod I ρ' ((rebuildGo choose (closure (meetEqs ua.map (copyMap ub.map ⟨ua.next, []⟩).1))
        (eqTerms (meetEqs ua.map (copyMap ub.map ⟨ua.next, []⟩).1))
        (mapSize ua.map + mapSize (copyMap ub.map ⟨ua.next, []⟩).1 + 1)
        (fun v => (look (copyMap ub.map ⟨ua.next, []⟩).1 v).isNone) ua.map
        ⟨(copyMap ub.map ⟨ua.next, []⟩).2.next, []⟩).1 ++
        (copyMap ub.map ⟨ua.next, []⟩).1.filter (fun p => (look ua.map p.1).isNone)) s) := by
  generalize hrc : copyMap ub.map ⟨ua.next, []⟩ = rc
  obtain ⟨ρ1, c1, c2, c3, c4, _⟩ := copyMap_spec I ρb s ub.map ⟨ua.next, []⟩ ρa (fun e he => by simp at he)
  rw [hrc] at c2 c3 c4
  have hc4 : ua.next ≤ rc.2.next := c4
  have haB : MapB rc.2.next ua.map := mapB_mono hc4 ha
  have heqB : ∀ e ∈ meetEqs ua.map rc.1, e.1.bounded rc.2.next = true ∧ e.2.bounded rc.2.next = true := by
    intro e he
    obtain ⟨v, h1, h2⟩ := meetEqs_mem he
    exact ⟨haB _ h1, c3 _ h2⟩
  constructor
  · obtain ⟨b1, b2⟩ := rebuildGo_bounded choose (closure (meetEqs ua.map rc.1)) (eqTerms (meetEqs ua.map rc.1))
      (mapSize ua.map + mapSize rc.1 + 1) (fun v => (look rc.1 v).isNone) ua.map ⟨rc.2.next, []⟩
      (fun e he => by simp at he) haB (Nat.le_refl _)
    intro p hp
    rcases List.mem_append.1 hp with hp | hp
    · exact b1 p hp
    · exact Term.bounded_mono b2 _ (c3 p (List.mem_filter.1 hp).1)
  · intro hma hmb
    have hma1 : Mod I ρ1 ua.map s := mod_ext c1 ha hma
    have hmb1 : Mod I ρ1 rc.1 s := c2 hmb
    have hcl := closure_ok I (ρ := ρ1) (n := rc.2.next) (meetEqs ua.map rc.1) (fun e he => by
      obtain ⟨v, h1, h2⟩ := meetEqs_mem he
      exact ⟨by rw [← hma1 _ h1, ← hmb1 _ h2], heqB e he⟩)
    obtain ⟨ρ2, d1, d2, _, d4⟩ := rebuildGo_spec I hch hcl.2 (eqTerms_bounded heqB)
      (mapSize ua.map + mapSize rc.1 + 1) (fun v => (look rc.1 v).isNone) s ua.map ⟨rc.2.next, []⟩ ρ1 hcl.1
      (fun e he => by simp at he) haB (Nat.le_refl _) hma1
    refine ⟨ρ2, ?_⟩
    intro p hp
    rcases List.mem_append.1 hp with hp | hp
    · exact d2 p hp
    · have hp' := (List.mem_filter.1 hp).1
      exact mod_ext d1 c3 hmb1 p hp'

theorem meet_sound {choose : List (Term F) → Option (Term F)} (hch : ChooseOK choose) {a b : UF V F}
    (ha : a.WF) (s : St V) (h1 : UF.γ I a s) (h2 : UF.γ I b s) : UF.γ I (UF.meet choose a b) s := by
  unfold UF.meet
  split
  · exact h1
  · split
    · exact h2
    · match a, b with
      | .bot, _ => exact absurd h1 id
      | .val ua, .bot => exact absurd h2 id
      | .val ua, .val ub =>
        obtain ⟨ρa, hma⟩ := h1
        obtain ⟨ρb, hmb⟩ := h2
        exact (meet_spec I hch ua ub ha s ρa ρb).2 hma hmb

theorem meet_wf {choose : List (Term F) → Option (Term F)} (hch : ChooseOK choose) {a b : UF V F}
    (ha : a.WF) (hb : b.WF) : (UF.meet choose a b).WF := by
  unfold UF.meet
  split
  · exact ha
  · split
    · exact hb
    · match a, b with
      | .bot, _ => trivial
      | .val ua, .bot => exact ha
      | .val ua, .val ub =>
        exact (meet_spec (fun (_ : F) _ => 0) hch ua ub ha (fun _ => 0) (fun _ => 0) (fun _ => 0)).1

/-! ### `operator+=` -/

theorem addCst_sound {choose : List (Term F) → Option (Term F)} (hch : ChooseOK choose) (c : UF.Cst V)
    {a : UF V F} (ha : a.WF) (s : St V) (hg : UF.γ I a s) (hc : c.holds s) :
    UF.γ I (UF.addCst choose c a) s := by
  match a with
  | .bot => exact absurd hg id
  | .val u =>
    obtain ⟨ρ, hm⟩ := hg
    match c with
    | .other => exact ⟨ρ, hm⟩
    | .ne x y =>
      simp only [UF.addCst]
      obtain ⟨ρ1, a1, a2, a3⟩ := termOfVar_spec I x ha hm
      have w1 := termOfVar_wf x ha
      obtain ⟨ρ2, b1, b2, b3⟩ := termOfVar_spec I y w1.1 a2
      split
      · rename_i he
        exfalso
        apply hc
        show s x = s y
        rw [← b3, ← he, Term.eval_ext I b1 _ w1.2, a3]
      · exact ⟨ρ2, b2⟩
    | .eq x y =>
      simp only [UF.addCst]
      obtain ⟨ρ1, a1, a2, a3⟩ := termOfVar_spec I x ha hm
      have w1 := termOfVar_wf x ha
      obtain ⟨ρ2, b1, b2, b3⟩ := termOfVar_spec I y w1.1 a2
      have w2 := termOfVar_wf y w1.1
      split
      · exact ⟨ρ2, b2⟩
      · have hx : (u.termOfVar x).1.eval I ρ2 = s x := by rw [Term.eval_ext I b1 _ w1.2, a3]
        have hbx : (u.termOfVar x).1.bounded ((u.termOfVar x).2.termOfVar y).2.next = true :=
          Term.bounded_mono (termOfVar_next _ y) _ w1.2
        have hcl := closure_ok I (ρ := ρ2) (n := ((u.termOfVar x).2.termOfVar y).2.next)
          [((u.termOfVar x).1, ((u.termOfVar x).2.termOfVar y).1)] (fun e he => by
            simp only [List.mem_singleton] at he
            subst he
            exact ⟨by rw [hx, b3]; exact hc, hbx, w2.2⟩)
        have hB : ∀ e ∈ [((u.termOfVar x).1, ((u.termOfVar x).2.termOfVar y).1)],
            e.1.bounded ((u.termOfVar x).2.termOfVar y).2.next = true ∧
            e.2.bounded ((u.termOfVar x).2.termOfVar y).2.next = true := by
          intro e he
          simp only [List.mem_singleton] at he
          subst he
          exact ⟨hbx, w2.2⟩
        obtain ⟨ρ3, _, d2, _, _⟩ := rebuildGo_spec I hch hcl.2 (eqTerms_bounded hB)
          (mapSize ((u.termOfVar x).2.termOfVar y).2.map + 1) (fun _ => false) s
          ((u.termOfVar x).2.termOfVar y).2.map ⟨((u.termOfVar x).2.termOfVar y).2.next, []⟩ ρ2 hcl.1
          (fun e he => by simp at he) w2.1 (Nat.le_refl _) b2
        exact ⟨ρ3, d2⟩

theorem addCst_wf (choose : List (Term F) → Option (Term F)) (c : UF.Cst V) {a : UF V F} (ha : a.WF) :
    (UF.addCst choose c a).WF := by
  match a with
  | .bot => trivial
  | .val u =>
    match c with
    | .other => exact ha
    | .ne x y =>
      simp only [UF.addCst]
      split
      · trivial
      · exact (termOfVar_wf y (termOfVar_wf x ha).1).1
    | .eq x y =>
      simp only [UF.addCst]
      have w2 := termOfVar_wf y (termOfVar_wf x ha).1
      split
      · exact w2.1
      · exact (rebuildGo_bounded choose _ _ _ _ _ _ (fun e he => by simp at he) w2.1 (Nat.le_refl _)).1

theorem addCsts_sound {choose : List (Term F) → Option (Term F)} (hch : ChooseOK choose) (cs : List (UF.Cst V))
    {a : UF V F} (ha : a.WF) (s : St V) (hg : UF.γ I a s) (hc : ∀ c ∈ cs, c.holds s) :
    UF.γ I (UF.addCsts choose cs a) s ∧ (UF.addCsts choose cs a).WF := by
  unfold UF.addCsts
  induction cs generalizing a with
  | nil => exact ⟨hg, ha⟩
  | cons c cs ih =>
    simp only [List.foldl_cons]
    exact ih (addCst_wf choose c ha) (addCst_sound I hch c ha s hg (hc c List.mem_cons_self))
      (fun c' hc' => hc c' (List.mem_cons_of_mem _ hc'))

theorem addCsts_wf (choose : List (Term F) → Option (Term F)) (cs : List (UF.Cst V)) {a : UF V F} (ha : a.WF) :
    (UF.addCsts choose cs a).WF := by
  unfold UF.addCsts
  induction cs generalizing a with
  | nil => exact ha
  | cons c cs ih => simp only [List.foldl_cons]; exact ih (addCst_wf choose c ha)

end Uf
end Fct
end Dom
end Crab
