import CrabProofs.Lemmas.FunctorVPartOps
import CrabProofs.Lemmas.FunctorHistory
import CrabProofs.Lemmas.Interval

/-!
`value_partitioning_domain` over an arbitrary base:
 * the guarded reading of a history (every `&`, `&&` that would take the element-wise branch on
   more than one partition is replaced by a sound dummy) and its agreement with the real run when
   `VP.histOk` holds;
 * the semantic condition under which the element-wise branch IS a lower bound (intervals cover
   the partitions and do not overlap: what the comment of the class promises);
 * reflexivity of `operator<=` on separated intervals.
-/
namespace Crab
namespace Dom
namespace Fct
namespace VP
set_option linter.unusedSectionVars false

variable {V S : Type} [DecidableEq V] {D : VDom V S}

/-! ### guarded `&`, `&&` -/

def meetG (a b : VP D) : VP D := if eltwise a b then setTop a else meet a b
def narrowG (a b : VP D) : VP D := if eltwise a b then setTop a else narrow a b

def Op.toStepG : Op D → Step (VP D) S
  | .meet d a b => .lower d a b meetG
  | .narrow d a b => .lower d a b narrowG
  | op => op.toStep

def toHistG (ops : List (Op D)) : List (Step (VP D) S) := ops.map Op.toStepG

theorem toStepG_cases (op : Op D) :
    (∃ d a b, op = .meet d a b) ∨ (∃ d a b, op = .narrow d a b) ∨ op.toStepG = op.toStep := by
  cases op with
  | meet d a b => exact Or.inl ⟨d, a, b, rfl⟩
  | narrow d a b => exact Or.inr (Or.inl ⟨d, a, b, rfl⟩)
  | _ => exact Or.inr (Or.inr rfl)

theorem zipLower_of_guard {g : D.B → D.B → D.B} (hg : LSound D g) {a b : VP D} (ha : Inv a)
    (c1 : (isBottom a || isTop b) = false) (c2 : (isTop a || isBottom b) = false)
    (he : eltwise a b = false) : ZipLower g a b := by
  by_cases hlen : a.parts.length ≤ 1
  · exact zipLower_of_short hg hlen
  · intro hv hs
    exfalso
    have hn : (a.var.isNone && b.var.isNone) = false := by
      cases hva : a.var with
      | none => exact absurd (Nat.le_of_eq (ha.2 hva)) hlen
      | some x => rfl
    have : eltwise a b = true := by
      unfold eltwise
      rw [c1, c2, hn, hs]
      simp only [Bool.not_false, Bool.true_and, Bool.and_true, Bool.and_eq_true, decide_eq_true_eq]
      exact ⟨hv, by omega⟩
    rw [he] at this; cases this

theorem meet_sound_guard {a b : VP D} (ha : Inv a) (hb : Inv b) (he : eltwise a b = false) (s : S)
    (h1 : γ a s) (h2 : γ b s) : γ (meet a b) s := by
  unfold meet
  split
  · exact h1
  · split
    · exact h2
    · rename_i c1 c2
      exact applyBin_lower _ lSound_meet ha hb
        (zipLower_of_guard lSound_meet ha (by simpa using c1) (by simpa using c2) he) s h1 h2

theorem narrow_sound_guard {a b : VP D} (ha : Inv a) (hb : Inv b) (he : eltwise a b = false) (s : S)
    (h1 : γ a s) (h2 : γ b s) : γ (narrow a b) s := by
  unfold narrow
  split
  · exact h1
  · split
    · exact h2
    · rename_i c1 c2
      exact applyBin_lower _ lSound_narrow ha hb
        (zipLower_of_guard lSound_narrow ha (by simpa using c1) (by simpa using c2) he) s h1 h2

theorem meetG_sound {a b : VP D} (ha : Inv a) (hb : Inv b) (s : S) (h1 : γ a s) (h2 : γ b s) :
    γ (meetG a b) s := by
  unfold meetG
  split
  · exact setTop_sound a s
  · rename_i he
    exact meet_sound_guard ha hb (by simpa using he) s h1 h2

theorem narrowG_sound {a b : VP D} (ha : Inv a) (hb : Inv b) (s : S) (h1 : γ a s) (h2 : γ b s) :
    γ (narrowG a b) s := by
  unfold narrowG
  split
  · exact setTop_sound a s
  · rename_i he
    exact narrow_sound_guard ha hb (by simpa using he) s h1 h2

theorem meetG_inv {a b : VP D} (ha : Inv a) (hb : Inv b) : Inv (meetG a b) := by
  unfold meetG; split
  · exact inv_single _ _
  · exact meet_inv ha hb

theorem narrowG_inv {a b : VP D} (ha : Inv a) (hb : Inv b) : Inv (narrowG a b) := by
  unfold narrowG; split
  · exact inv_single _ _
  · exact narrow_inv ha hb

/-- the real run and the guarded run agree as long as the guard never fires -/
theorem runHist_guard (ops : List (Op D)) (p : Pool (VP D)) (h : histOk p ops = true) :
    runHist p (toHist ops) = runHist p (toHistG ops) := by
  induction ops generalizing p with
  | nil => rfl
  | cons op ops ih =>
    simp only [histOk, Bool.and_eq_true] at h
    simp only [toHist, toHistG, List.map_cons, runHist, List.foldl_cons]
    have hstep : op.toStep.run p = op.toStepG.run p := by
      cases op with
      | meet d a b =>
        have h1 : eltwise (p a) (p b) = false := by simpa using h.1
        simp only [Op.toStep, Op.toStepG, Step.run, meetG, h1, Bool.false_eq_true, if_false]
      | narrow d a b =>
        have h1 : eltwise (p a) (p b) = false := by simpa using h.1
        simp only [Op.toStep, Op.toStepG, Step.run, narrowG, h1, Bool.false_eq_true, if_false]
      | _ => rfl
    rw [← hstep]
    exact ih _ h.2

theorem coll_guard (op : Op D) (c : CPool S) : op.toStep.coll c = op.toStepG.coll c := by
  cases op <;> rfl

theorem collHist_guard (ops : List (Op D)) (c : CPool S) :
    collHist c (toHist ops) = collHist c (toHistG ops) := by
  induction ops generalizing c with
  | nil => rfl
  | cons op ops ih =>
    simp only [toHist, toHistG, List.map_cons, collHist, List.foldl_cons]
    rw [coll_guard op c]
    exact ih _

/-! ### when the element-wise branch is a lower bound -/

/-- the interval of every partition covers the values of the partitioning variable in it -/
def KeySound (ev : S → V → Int) (a : VP D) : Prop :=
  ∀ x, a.var = some x → ∀ p ∈ a.parts, ∀ s, D.γ p.val s → Itv.mem (ev s x) p.key

/-- no two intervals of the vector share a value -/
def KeysDisjoint (l : List (Part D)) : Prop :=
  l.Pairwise (fun p q => ∀ k, ¬ (Itv.mem k p.key ∧ Itv.mem k q.key))

theorem mem_of_beq {i j : Itv} (h : Itv.beq i j = true) (k : Int) : Itv.mem k i ↔ Itv.mem k j := by
  unfold Itv.beq at h
  split at h
  · rename_i hb
    constructor
    · intro hm; exact absurd hm (Itv.not_mem_of_isBottom hb)
    · intro hm; exact absurd hm (Itv.not_mem_of_isBottom h)
  · simp only [Bool.and_eq_true, beq_iff_eq] at h
    have : i = j := by
      obtain ⟨l1, u1⟩ := i; obtain ⟨l2, u2⟩ := j
      simp only at h; rw [h.1, h.2]
    rw [this]

theorem sameKeys_mem {l1 l2 : List (Part D)} (hs : sameKeys l1 l2 = true) {q : Part D} (hq : q ∈ l2) :
    ∃ p ∈ l1, Itv.beq p.key q.key = true := by
  induction l1 generalizing l2 with
  | nil =>
    match l2 with
    | [] => simp at hq
    | _ :: _ => simp [sameKeys] at hs
  | cons p ps ih =>
    match l2 with
    | [] => simp at hq
    | q' :: qs =>
      simp only [sameKeys, Bool.and_eq_true] at hs
      rcases List.mem_cons.1 hq with rfl | hq
      · exact ⟨p, List.mem_cons_self, hs.1⟩
      · obtain ⟨p', hp', hb⟩ := ih hs.2 hq
        exact ⟨p', List.mem_cons_of_mem _ hp', hb⟩

theorem zip_lower_of_keys {g : D.B → D.B → D.B} (hg : LSound D g) (l1 l2 : List (Part D)) (s : S) (k : Int)
    (hs : sameKeys l1 l2 = true) (hd : KeysDisjoint l1)
    (h1 : ∀ p ∈ l1, D.γ p.val s → Itv.mem k p.key) (h2 : ∀ q ∈ l2, D.γ q.val s → Itv.mem k q.key)
    (g1 : γl l1 s) (g2 : γl l2 s) : γl (zipOp g l1 l2) s := by
  induction l1 generalizing l2 with
  | nil => exact absurd g1 (γl_nil s)
  | cons p ps ih =>
    match l2 with
    | [] => exact absurd g2 (γl_nil s)
    | q :: qs =>
      simp only [sameKeys, Bool.and_eq_true] at hs
      simp only [zipOp]
      have hd' := List.pairwise_cons.1 hd
      rcases (γl_cons p ps s).1 g1 with a1 | a1 <;> rcases (γl_cons q qs s).1 g2 with b1 | b1
      · exact (γl_cons _ _ s).2 (Or.inl (hg _ _ _ a1 b1))
      · exfalso
        obtain ⟨q', hq', hx⟩ := b1
        obtain ⟨p', hp', hb⟩ := sameKeys_mem hs.2 hq'
        have m1 := h1 p List.mem_cons_self a1
        have m2 := (mem_of_beq hb k).2 (h2 q' (List.mem_cons_of_mem _ hq') hx)
        exact hd'.1 p' hp' k ⟨m1, m2⟩
      · exfalso
        obtain ⟨p', hp', hx⟩ := a1
        have m1 := (mem_of_beq hs.1 k).2 (h2 q List.mem_cons_self b1)
        have m2 := h1 p' (List.mem_cons_of_mem _ hp') hx
        exact hd'.1 p' hp' k ⟨m1, m2⟩
      · exact (γl_cons _ _ s).2 (Or.inr (ih qs hs.2 hd'.2
          (fun p' hp' => h1 p' (List.mem_cons_of_mem _ hp'))
          (fun q' hq' => h2 q' (List.mem_cons_of_mem _ hq')) a1 b1))

theorem zipLower_of_keys (ev : S → V → Int) {g : D.B → D.B → D.B} (hg : LSound D g) {a b : VP D}
    (ha : Inv a) (ka : KeySound ev a) (kb : KeySound ev b) (hd : KeysDisjoint a.parts) :
    ZipLower g a b := by
  intro hv hs s g1 g2
  cases hva : a.var with
  | none => exact zipLower_of_short hg (Nat.le_of_eq (ha.2 hva)) hv hs s g1 g2
  | some x =>
    simp only [hasSame, Bool.and_eq_true] at hs
    exact zip_lower_of_keys hg _ _ s (ev s x) hs.2 hd (fun p hp => ka x hva p hp s)
      (fun q hq => kb x (hv ▸ hva) q hq s) g1 g2

/-- disjoint intervals: a value is in at most one of them (a decidable consequence) -/
theorem keysDisjoint_count {l : List (Part D)} (h : KeysDisjoint l) (k : Int) :
    (l.filter (fun p => decide (Itv.mem k p.key))).length ≤ 1 := by
  induction l with
  | nil => simp
  | cons p ps ih =>
    have hd := List.pairwise_cons.1 h
    by_cases hm : Itv.mem k p.key
    · have : ps.filter (fun p => decide (Itv.mem k p.key)) = [] := by
        apply List.filter_eq_nil_iff.2
        intro q hq hq'
        exact hd.1 q hq k ⟨hm, of_decide_eq_true hq'⟩
      simp [List.filter_cons, hm, this]
    · simp only [List.filter_cons, hm, decide_false, Bool.false_eq_true, if_false]
      exact ih hd.2

/-! ### the pinned-tree `update_partitions()` separates the intervals on at most two partitions only -/

theorem length_insertPart (p : Part D) (l : List (Part D)) : (insertPart p l).length = l.length + 1 := by
  induction l with
  | nil => rfl
  | cons q qs ih => simp only [insertPart]; split <;> simp [ih]

theorem length_sortParts (l : List (Part D)) : (sortParts l).length = l.length := by
  induction l with
  | nil => rfl
  | cons q qs ih => simp [sortParts, length_insertPart, ih]

theorem mergeAdjOld_short_disjoint (l : List (Part D)) (h : l.length ≤ 2) : KeysDisjoint (mergeAdjOld l) := by
  match l, h with
  | [], _ => exact List.Pairwise.nil
  | [p], _ => simp [mergeAdjOld, KeysDisjoint]
  | [a, b], _ =>
    simp only [mergeAdjOld]
    split
    · simp [KeysDisjoint]
    · rename_i hge
      simp only [KeysDisjoint, List.pairwise_cons, List.mem_singleton, forall_eq, List.not_mem_nil,
        false_imp_iff, implies_true, List.Pairwise.nil, and_true]
      rintro k ⟨⟨_, h2⟩, ⟨h3, _⟩⟩
      exact hge (Bound.le_trans h3 h2)

theorem refreshGo_flag_pos (x : V) (n : Nat) (l : List (Part D)) (hn : 0 < n) : (refreshGo x n l).2 = false := by
  induction l generalizing n with
  | nil => rfl
  | cons q qs ih =>
    simp only [refreshGo]
    split
    · split
      · exact ih (n + 1) (Nat.succ_pos _)
      · rename_i hc; exfalso; apply hc; omega
    · exact ih (n + 1) (Nat.succ_pos _)

/-- the early `return` leaves exactly one partition -/
theorem refreshGo_stop (x : V) (l : List (Part D)) (h : (refreshGo x 0 l).2 = true) :
    ∃ p, (refreshGo x 0 l).1 = [p] := by
  match l with
  | [] => simp [refreshGo] at h
  | p0 :: ps =>
    simp only [refreshGo] at h ⊢
    split
    · split
      · rename_i h1 h2
        simp only [h1, h2, if_true] at h
        rw [refreshGo_flag_pos x 1 ps (Nat.succ_pos _)] at h; cases h
      · exact ⟨_, rfl⟩
    · rename_i h1
      simp only [h1, Bool.false_eq_true, if_false] at h
      rw [refreshGo_flag_pos x 1 ps (Nat.succ_pos _)] at h; cases h

theorem updatePartsOld_some {a : VP D} {x : V} (hv : a.var = some x) :
    updatePartsOld a = if (refreshGo x 0 a.parts).2 then ⟨a.var, (refreshGo x 0 a.parts).1⟩
      else ⟨a.var, mergeAdjOld (sortParts (refreshGo x 0 a.parts).1)⟩ := by
  unfold updatePartsOld; rw [hv]

theorem updatePartsOld_short_disjoint {a : VP D} {x : V} (hv : a.var = some x)
    (h : (refreshGo x 0 a.parts).1.length ≤ 2) : KeysDisjoint (updatePartsOld a).parts := by
  rw [updatePartsOld_some hv]
  split
  · rename_i hstop
    obtain ⟨p, hp⟩ := refreshGo_stop x a.parts hstop
    show KeysDisjoint (refreshGo x 0 a.parts).1
    rw [hp]; simp [KeysDisjoint]
  · exact mergeAdjOld_short_disjoint _ (by rw [length_sortParts]; exact h)

/-! ### reflexivity of `operator<=` on separated intervals -/

/-- non-empty intervals, each strictly before the next -/
def keysSep : List (Part D) → Bool
  | [] => true
  | [p] => Bound.le p.key.lb p.key.ub
  | p :: q :: r => Bound.le p.key.lb p.key.ub && Bound.lt p.key.ub q.key.lb && keysSep (q :: r)

theorem leqOne_self (hr : D.LeqRefl) (p : Part D) (k : List (Part D) → Bool) (r : List (Part D))
    (hp : Bound.le p.key.lb p.key.ub = true) : leqOne p k (p :: r) = k (p :: r) := by
  have h1 : Bound.lt p.key.ub p.key.lb = false := by simp [Bound.lt, Bound.ge, hp]
  simp [leqOne, h1, Bound.le_refl, hr p.val]

theorem leqSame_refl (hr : D.LeqRefl) (l : List (Part D)) (h : keysSep l = true) : leqSame l l = true := by
  induction l with
  | nil => rfl
  | cons p ps ih =>
    match ps with
    | [] =>
      simp only [keysSep] at h
      simp only [leqSame]
      rw [leqOne_self hr p _ [] h]
    | q :: r =>
      simp only [keysSep, Bool.and_eq_true] at h
      obtain ⟨⟨hp, hlt⟩, hrest⟩ := h
      have hq : Bound.le q.key.lb q.key.ub = true := by
        cases r with
        | nil => simpa [keysSep] using hrest
        | cons _ _ => simp only [keysSep, Bool.and_eq_true] at hrest; exact hrest.1.1
      have hle : Bound.le p.key.ub q.key.lb = true :=
        Bound.not_le ((Bound.lt_iff _ _).1 hlt)
      have h1 : Bound.lt q.key.ub p.key.lb = false := by
        have : Bound.le p.key.lb q.key.ub = true := Bound.le_trans hp (Bound.le_trans hle hq)
        simp [Bound.lt, Bound.ge, this]
      have := ih hrest
      simp only [leqSame] at this ⊢
      rw [leqOne_self hr p _ _ hp]
      rw [show leqOne q (leqSame r) (p :: q :: r) = leqOne q (leqSame r) (q :: r) by
        simp [leqOne, h1, hlt]]
      exact this

end VP
end Fct
end Dom
end Crab
