import CrabProofs.Lemmas.PatriciaMerge
import CrabProofs.Lemmas.PatriciaIter
import CrabModel.Container.SeparateDomain

/-! `separate_domain` over an arbitrary value lattice: every operation keeps the tree
    well formed and acts pointwise on the bindings. -/
namespace Crab
open Patricia Patricia.Tree

variable {V : Type} {P : V → Prop}

/-- results do not depend on the oracles: two sound contexts give the same tree -/
theorem Patricia.merge_ctx_indep {c c' : Ctx V} {op : BinOp V} (hc : c.SoundOn P) (hc' : c'.SoundOn P)
    (hop : op.Pres P) (hid : op.Idem P) (l2r : Bool) {s t : Tree V} (hs : WF P s) (ht : WF P t) :
    merge c op l2r s t = merge c' op l2r s t := by
  have h1 := merge_ok hc hop hid l2r s t hs ht
  have h2 := merge_ok hc' hop hid l2r s t hs ht
  cases r1 : merge c op l2r s t with
  | none =>
    cases r2 : merge c' op l2r s t with
    | none => rfl
    | some r' =>
      rw [r1] at h1; rw [r2] at h2
      obtain ⟨k, hk⟩ := h1
      have := h2.2 k; rw [hk] at this; cases this
  | some r =>
    cases r2 : merge c' op l2r s t with
    | none =>
      rw [r1] at h1; rw [r2] at h2
      obtain ⟨k, hk⟩ := h2
      have := h1.2 k; rw [hk] at this; cases this
    | some r' =>
      rw [r1] at h1; rw [r2] at h2
      congr 1
      apply WF.ext h1.1 h2.1
      intro k
      have e1 := h1.2 k; have e2 := h2.2 k
      rw [e1] at e2; exact Option.some.inj e2

theorem Patricia.insert_ctx_indep {c c' : Ctx V} {op : BinOp V} (hc : c.SoundOn P) (hc' : c'.SoundOn P)
    (hop : op.Pres P) (l2r : Bool) {t : Tree V} (ht : WF P t) {k : Nat} {v : V} (hk : k < 2 ^ 64) (hv : P v) :
    insert c op l2r t k v = insert c' op l2r t k v := by
  have h1 := insert_spec (l2r := l2r) hc hop hk hv ht
  have h2 := insert_spec (l2r := l2r) hc' hop hk hv ht
  cases r1 : insert c op l2r t k v with
  | none =>
    cases r2 : insert c' op l2r t k v with
    | none => rfl
    | some r' =>
      rw [r1] at h1; rw [r2] at h2
      simp only [InsertOK] at h1 h2; rw [h1] at h2; cases h2.2.1
  | some r =>
    cases r2 : insert c' op l2r t k v with
    | none =>
      rw [r1] at h1; rw [r2] at h2
      simp only [InsertOK] at h1 h2; rw [h2] at h1; cases h1.2.1
    | some r' =>
      rw [r1] at h1; rw [r2] at h2
      congr 1
      apply WF.ext h1.1 h2.1
      intro k'
      by_cases e : k' = k
      · subst e
        have e1 := h1.2.1; have e2 := h2.2.1
        rw [e1] at e2; exact Option.some.inj e2
      · rw [h1.2.2 k' e, h2.2.2 k' e]

theorem Patricia.remove_ctx_indep {c c' : Ctx V} (hc : c.SoundOn P) (hc' : c'.SoundOn P)
    {t : Tree V} (ht : WF P t) {k : Nat} (hk : k < 2 ^ 64) : remove c t k = remove c' t k := by
  obtain ⟨w1, l1⟩ := remove_spec hc hk ht
  obtain ⟨w2, l2⟩ := remove_spec hc' hk ht
  exact WF.ext w1 w2 (fun k' => by rw [l1, l2])

theorem Patricia.compare_ctx_indep {c c' : Ctx V} (hc : c.SoundOn P) (hc' : c'.SoundOn P) (po : POrder V)
    (hrefl : ∀ x, P x → po.leq x x = true) (l2r : Bool) {s t : Tree V} (hs : WF P s) (ht : WF P t) :
    compare true c po l2r s t = compare true c' po l2r s t := by
  have h1 := compare_fixed_iff hc po hrefl l2r s t hs ht
  have h2 := compare_fixed_iff hc' po hrefl l2r s t hs ht
  cases r1 : compare true c po l2r s t <;> cases r2 : compare true c' po l2r s t <;> simp_all

namespace SepDom

/-- invariant of an environment: well-formed tree of stored values, empty when bottom -/
def Inv (P : V → Prop) (e : SepDom V) : Prop := WF P e.tree ∧ (e.isBot = true → e.tree = .empty)

theorem inv_top : Inv P (top : SepDom V) := ⟨trivial, fun _ => rfl⟩
theorem inv_bottom : Inv P (bottom : SepDom V) := ⟨trivial, fun _ => rfl⟩

section upper
variable {c : Ctx V} {L : Lattice V} {f : V → V → V}

theorem upperOp_pres (hpres : ∀ x y, P x → P y → L.isTop (f x y) = false → P (f x y)) :
    (upperOp L f).Pres P := by
  intro k x y z hx hy h
  simp only [upperOp] at h
  split at h
  · cases h
  · rename_i ht
    simp at h; subst h
    exact hpres x y hx hy (by simpa using ht)

theorem upperOp_idem (hidem : ∀ x, P x → f x x = x) (hnt : ∀ x, P x → L.isTop x = false) :
    (upperOp L f).Idem P := by
  intro k x hx
  simp [upperOp, hidem x hx, hnt x hx]

/-- join / widening of two non-bottom environments: the common keys are combined, a top
    result and the keys bound on one side only disappear -/
theorem upper_spec (hc : c.SoundOn P)
    (hpres : ∀ x y, P x → P y → L.isTop (f x y) = false → P (f x y))
    (hidem : ∀ x, P x → f x x = x) (hnt : ∀ x, P x → L.isTop x = false)
    {a b : SepDom V} (ha : Inv P a) (hb : Inv P b) (na : a.isBot = false) (nb : b.isBot = false) :
    Inv P (upper c L f a b) ∧ (upper c L f a b).isBot = false ∧
      ∀ k, (upper c L f a b).tree.lookup k =
        match a.tree.lookup k, b.tree.lookup k with
        | some x, some y => if L.isTop (f x y) then none else some (f x y)
        | _, _ => none := by
  have h := merge_ok hc (upperOp_pres hpres) (upperOp_idem hidem hnt) true a.tree b.tree ha.1 hb.1
  unfold upper mergeWith
  simp only [na, nb, Bool.false_eq_true, if_false]
  cases hres : merge c (upperOp L f) true a.tree b.tree with
  | none =>
    rw [hres] at h
    obtain ⟨k, hk⟩ := h
    obtain ⟨x, y, _, _, hbot⟩ := pw_eq_none hk
    simp only [app, upperOp, if_true] at hbot
    split at hbot <;> cases hbot
  | some r =>
    rw [hres] at h
    refine ⟨⟨h.1, fun hb => by cases hb⟩, rfl, fun k => ?_⟩
    have := h.2 k
    cases h1 : a.tree.lookup k <;> cases h2 : b.tree.lookup k <;> rw [h1, h2] at this <;>
      simp only [pw, upperOp, app, if_true] at this
    · simpa using this.symm
    · simpa using this.symm
    · simpa using this.symm
    · rename_i x y
      simp only
      split
      · rename_i ht; simp [ht] at this; exact this.symm
      · rename_i ht; simp [ht] at this; exact this.symm

end upper

section lower
variable {c : Ctx V} {L : Lattice V} {g : V → V → V}

theorem lowerOp_pres (hpres : ∀ x y, P x → P y → L.isBottom (g x y) = false → P (g x y)) :
    (lowerOp L g).Pres P := by
  intro k x y z hx hy h
  simp only [lowerOp] at h
  split at h
  · cases h
  · rename_i ht
    simp at h; subst h
    exact hpres x y hx hy (by simpa using ht)

theorem lowerOp_idem (hidem : ∀ x, P x → g x x = x) (hnb : ∀ x, P x → L.isBottom x = false) :
    (lowerOp L g).Idem P := by
  intro k x hx
  simp [lowerOp, hidem x hx, hnb x hx]

/-- meet / narrowing of two non-bottom environments: bottom exactly when some common key
    combines to bottom; otherwise common keys are combined and the others are kept -/
theorem lower_spec (hc : c.SoundOn P)
    (hpres : ∀ x y, P x → P y → L.isBottom (g x y) = false → P (g x y))
    (hidem : ∀ x, P x → g x x = x) (hnb : ∀ x, P x → L.isBottom x = false)
    {a b : SepDom V} (ha : Inv P a) (hb : Inv P b) (na : a.isBot = false) (nb : b.isBot = false) :
    Inv P (lower c L g a b) ∧
    ((lower c L g a b).isBot = true ↔
      ∃ k x y, a.tree.lookup k = some x ∧ b.tree.lookup k = some y ∧ L.isBottom (g x y) = true) ∧
    ((lower c L g a b).isBot = false →
      ∀ k, (lower c L g a b).tree.lookup k =
        match a.tree.lookup k, b.tree.lookup k with
        | some x, some y => some (g x y)
        | some x, none => some x
        | none, some y => some y
        | none, none => none) := by
  have h := merge_ok hc (lowerOp_pres hpres) (lowerOp_idem hidem hnb) true a.tree b.tree ha.1 hb.1
  unfold lower mergeWith
  simp only [na, nb, Bool.false_eq_true, Bool.or_self, if_false]
  cases hres : merge c (lowerOp L g) true a.tree b.tree with
  | none =>
    rw [hres] at h
    refine ⟨inv_bottom, ⟨fun _ => ?_, fun _ => rfl⟩, fun hf => by cases hf⟩
    obtain ⟨k, hk⟩ := h
    obtain ⟨x, y, hx, hy, hbot⟩ := pw_eq_none hk
    refine ⟨k, x, y, hx, hy, ?_⟩
    simp only [app, lowerOp, if_true] at hbot
    split at hbot
    · assumption
    · cases hbot
  | some r =>
    rw [hres] at h
    refine ⟨⟨h.1, fun hb => by cases hb⟩, ⟨fun hf => (by cases hf), ?_⟩, fun _ k => ?_⟩
    · rintro ⟨k, x, y, hx, hy, hbot⟩
      have := h.2 k
      rw [hx, hy] at this
      simp [pw, app, lowerOp, hbot] at this
    · have := h.2 k
      cases h1 : a.tree.lookup k <;> cases h2 : b.tree.lookup k <;> rw [h1, h2] at this <;>
        simp only [pw, lowerOp, app, if_true] at this
      · simpa using this.symm
      · simpa using this.symm
      · simpa using this.symm
      · rename_i x y
        simp only
        by_cases hbq : L.isBottom (g x y) = true
        · simp [hbq] at this
        · simp [hbq] at this; exact this.symm

end lower

/-! ### point updates -/

section point
variable {c : Ctx V} {L : Lattice V}

theorem forget_spec (hc : c.SoundOn P) {e : SepDom V} (he : Inv P e) {k : Nat} (hk : k < 2 ^ 64) :
    Inv P (forget c e k) ∧ (forget c e k).isBot = e.isBot ∧
      ∀ k', (forget c e k).tree.lookup k' = if k' = k then none else e.tree.lookup k' := by
  unfold forget
  cases hb : e.isBot
  · obtain ⟨w, l⟩ := remove_spec hc hk he.1
    exact ⟨⟨w, fun h => by cases h⟩, rfl, l⟩
  · simp only [if_true]
    refine ⟨he, hb, fun k' => ?_⟩
    rw [he.2 hb]; simp

/-- `set(k, v)` on a non-bottom environment with a value that is neither bottom nor top -/
theorem set_spec_stored (hc : c.SoundOn P) {e : SepDom V} (he : Inv P e) (ne : e.isBot = false)
    {k : Nat} {v : V} (hk : k < 2 ^ 64) (hv : P v) (h1 : L.isBottom v = false) (h2 : L.isTop v = false) :
    Inv P (set c L e k v) ∧ (set c L e k v).isBot = false ∧
      ∀ k', (set c L e k v).tree.lookup k' = if k' = k then some v else e.tree.lookup k' := by
  have e1 : set c L e k v = ⟨false, insertKV c e.tree k v⟩ := by unfold set; simp [ne, h1, h2]
  rw [e1]
  obtain ⟨w, l⟩ := insertKV_spec hc he.1 hk hv
  exact ⟨⟨w, fun h => by cases h⟩, rfl, l⟩

theorem set_spec_top (hc : c.SoundOn P) {e : SepDom V} (he : Inv P e) (ne : e.isBot = false)
    {k : Nat} {v : V} (hk : k < 2 ^ 64) (h1 : L.isBottom v = false) (h2 : L.isTop v = true) :
    Inv P (set c L e k v) ∧ (set c L e k v).isBot = false ∧
      ∀ k', (set c L e k v).tree.lookup k' = if k' = k then none else e.tree.lookup k' := by
  have e1 : set c L e k v = ⟨false, remove c e.tree k⟩ := by unfold set; simp [ne, h1, h2]
  rw [e1]
  obtain ⟨w, l⟩ := remove_spec hc hk he.1
  exact ⟨⟨w, fun h => by cases h⟩, rfl, l⟩

theorem set_bottom_val {e : SepDom V} (ne : e.isBot = false) {k : Nat} {v : V} (h1 : L.isBottom v = true) :
    set c L e k v = bottom := by
  unfold set; simp [ne, h1]

theorem set_of_bottom {e : SepDom V} (ne : e.isBot = true) {k : Nat} {v : V} : set c L e k v = e := by
  unfold set; simp [ne]

end point

/-! ### inclusion test -/

section order
variable {c : Ctx V} {L : Lattice V}

/-- the repaired `operator<=` on non-bottom environments is the pointwise order of the bindings -/
theorem leq_spec (hc : c.SoundOn P) (hrefl : ∀ x, P x → L.leq x x = true)
    {a b : SepDom V} (ha : Inv P a) (hb : Inv P b) (na : a.isBot = false) (nb : b.isBot = false) :
    leq true c L a b = true ↔ PwLe (domainPO L) true a.tree b.tree := by
  unfold leq leqTree
  simp only [na, nb, Bool.false_eq_true, if_false]
  exact compare_fixed_iff hc (domainPO L) hrefl true a.tree b.tree ha.1 hb.1

/-- the current `operator<=` never misses an inclusion -/
theorem leq_complete (fxd : Bool) (hc : c.SoundOn P) (hrefl : ∀ x, P x → L.leq x x = true)
    {a b : SepDom V} (ha : Inv P a) (hb : Inv P b) (na : a.isBot = false) (nb : b.isBot = false)
    (h : PwLe (domainPO L) true a.tree b.tree) : leq fxd c L a b = true := by
  have h1 := (leq_spec hc hrefl ha hb na nb).mpr h
  cases fxd
  · unfold leq leqTree at h1 ⊢
    simp only [na, nb, Bool.false_eq_true, if_false] at h1 ⊢
    exact compare_mono c _ true _ _ h1
  · exact h1

theorem leq_bottom_left (fxd : Bool) {a b : SepDom V} (na : a.isBot = true) : leq fxd c L a b = true := by
  unfold leq; simp [na]

theorem leq_bottom_right (fxd : Bool) {a b : SepDom V} (na : a.isBot = false) (nb : b.isBot = true) :
    leq fxd c L a b = false := by
  unfold leq; simp [na, nb]

end order

/-! ### rename, project -/

section rename
variable {c : Ctx V} {L : Lattice V}

/-- pointwise effect of one renaming step on "binding or default" -/
def rename1Spec (m : Nat → Option V) (k newK : Nat) : Nat → Option V :=
  fun k' =>
    if k = newK then m k'
    else match m k with
      | none => m k'
      | some v => if k' = k then none else if k' = newK then some v else m k'

theorem rename1_spec (hc : c.SoundOn P) (hnt : ∀ x, P x → L.isTop x = false) {t : Tree V} (ht : WF P t)
    {k newK : Nat} (hk : k < 2 ^ 64) (hn : newK < 2 ^ 64) :
    WF P (rename1 c L t k newK) ∧ ∀ k', (rename1 c L t k newK).lookup k' = rename1Spec t.lookup k newK k' := by
  unfold rename1 rename1Spec
  by_cases e : k = newK
  · simp [e, ht]
  · simp only [e, if_false]
    cases hl : t.lookup k with
    | none => exact ⟨ht, fun _ => rfl⟩
    | some v =>
      have hv := ht.val_of_lookup hl
      simp only [hnt v hv, Bool.not_false, if_true]
      obtain ⟨w1, l1⟩ := insertKV_spec hc ht hn hv
      obtain ⟨w2, l2⟩ := remove_spec hc hk w1
      refine ⟨w2, fun k' => ?_⟩
      rw [l2, l1]

theorem rename_fold_spec (hc : c.SoundOn P) (hnt : ∀ x, P x → L.isTop x = false) :
    ∀ (ps : List (Nat × Nat)) {t : Tree V}, WF P t → (∀ p ∈ ps, p.1 < 2 ^ 64 ∧ p.2 < 2 ^ 64) →
      WF P (ps.foldl (fun t p => rename1 c L t p.1 p.2) t) ∧
      ∀ k', (ps.foldl (fun t p => rename1 c L t p.1 p.2) t).lookup k' =
        ps.foldl (fun m p => rename1Spec m p.1 p.2) t.lookup k' := by
  intro ps
  induction ps with
  | nil => intro t ht _; exact ⟨ht, fun _ => rfl⟩
  | cons p ps ih =>
    intro t ht hb
    simp only [List.foldl_cons]
    have hp := hb p (by simp)
    obtain ⟨w1, l1⟩ := rename1_spec (L := L) hc hnt ht hp.1 hp.2
    obtain ⟨w2, l2⟩ := ih w1 (fun q hq => hb q (by simp [hq]))
    refine ⟨w2, fun k' => ?_⟩
    rw [l2]
    have : (rename1 c L t p.1 p.2).lookup = rename1Spec t.lookup p.1 p.2 := funext l1
    rw [this]

/-- `project(keys)`: whichever of the two strategies is chosen, exactly the bindings of
    the listed keys survive -/
theorem project_spec (hc : c.SoundOn P) (hnt : ∀ x, P x → L.isTop x = false)
    (hnb : ∀ x, P x → L.isBottom x = false) (htop : L.isTop L.top = true) (htopb : L.isBottom L.top = false)
    {e : SepDom V} (he : Inv P e) (ne : e.isBot = false) {keys : List Nat} (hkeys : ∀ k ∈ keys, k < 2 ^ 64) :
    Inv P (project c L e keys) ∧ (project c L e keys).isBot = false ∧
      ∀ k', (project c L e keys).tree.lookup k' = if k' ∈ keys then e.tree.lookup k' else none := by
  by_cases hT : e.isTop = true
  · have e0 : project c L e keys = e := by unfold project; simp [hT]
    rw [e0]
    refine ⟨he, ne, fun k' => ?_⟩
    have hsz : e.tree.size = 0 := by
      unfold isTop at hT
      simpa [ne] using hT
    have : e.tree = .empty := by
      cases ht : e.tree with
      | empty => rfl
      | leaf k v => rw [ht] at hsz; simp [Tree.size] at hsz
      | node p m l r =>
        exfalso
        rw [ht] at hsz
        have hw := he.1; rw [ht] at hw
        obtain ⟨⟨k1, hk1⟩, _⟩ := hw.node_keys
        have h0 : 0 < l.toList.length := by
          obtain ⟨v, hv⟩ := mem_keys_iff_toList.mp hk1
          exact List.length_pos_of_mem hv
        simp only [Tree.size] at hsz
        have := size_eq_length l
        omega
    simp [this]
  · unfold project
    simp only [ne, hT, Bool.false_or, Bool.false_eq_true, if_false, iterate_eq_toList he.1.ne,
      Option.getD_some]
    split
    · -- copy strategy
      have key : ∀ (ks : List Nat) (env : SepDom V), (∀ k ∈ ks, k < 2 ^ 64) → Inv P env → env.isBot = false →
          Inv P (ks.foldl (fun env k => set c L env k (atKey L e k)) env) ∧
          (ks.foldl (fun env k => set c L env k (atKey L e k)) env).isBot = false ∧
          ∀ k', (ks.foldl (fun env k => set c L env k (atKey L e k)) env).tree.lookup k' =
            if k' ∈ ks then e.tree.lookup k' else env.tree.lookup k' := by
        intro ks
        induction ks with
        | nil => intro env _ hi hb; exact ⟨hi, hb, fun _ => by simp⟩
        | cons k ks ih =>
          intro env hks hi hb
          simp only [List.foldl_cons]
          have hk := hks k (by simp)
          have step : Inv P (set c L env k (atKey L e k)) ∧ (set c L env k (atKey L e k)).isBot = false ∧
              ∀ k', (set c L env k (atKey L e k)).tree.lookup k' =
                if k' = k then e.tree.lookup k else env.tree.lookup k' := by
            unfold atKey
            simp only [ne, Bool.false_eq_true, if_false]
            cases hl : e.tree.lookup k with
            | none => exact set_spec_top hc hi hb hk htopb htop
            | some v =>
              have hv := he.1.val_of_lookup hl
              exact set_spec_stored hc hi hb hk hv (hnb v hv) (hnt v hv)
          obtain ⟨i1, b1, l1⟩ := step
          obtain ⟨i2, b2, l2⟩ := ih _ (fun q hq => hks q (by simp [hq])) i1 b1
          refine ⟨i2, b2, fun k' => ?_⟩
          rw [l2, l1]
          by_cases e1 : k' ∈ ks
          · simp [e1]
          · by_cases e2 : k' = k
            · subst e2; simp [e1]
            · simp [e1, e2]
      obtain ⟨i1, b1, l1⟩ := key keys top hkeys inv_top rfl
      refine ⟨i1, b1, fun k' => ?_⟩
      rw [l1]
      simp [top]
    · -- removal strategy
      have key : ∀ (ks : List Nat) (env : SepDom V), (∀ k ∈ ks, k < 2 ^ 64) → Inv P env → env.isBot = false →
          Inv P (ks.foldl (fun env k => forget c env k) env) ∧
          (ks.foldl (fun env k => forget c env k) env).isBot = false ∧
          ∀ k', (ks.foldl (fun env k => forget c env k) env).tree.lookup k' =
            if k' ∈ ks then none else env.tree.lookup k' := by
        intro ks
        induction ks with
        | nil => intro env _ hi hb; exact ⟨hi, hb, fun _ => by simp⟩
        | cons k ks ih =>
          intro env hks hi hb
          simp only [List.foldl_cons]
          obtain ⟨i1, b1, l1⟩ := forget_spec hc hi (hks k (by simp))
          obtain ⟨i2, b2, l2⟩ := ih _ (fun q hq => hks q (by simp [hq])) i1 (b1.trans hb)
          refine ⟨i2, b2, fun k' => ?_⟩
          rw [l2, l1]
          by_cases e1 : k' ∈ ks
          · simp [e1]
          · by_cases e2 : k' = k
            · subst e2; simp
            · simp [e1, e2]
      have hout : ∀ k ∈ (List.map Prod.fst e.tree.toList).filter (fun k => !keys.contains k), k < 2 ^ 64 := by
        intro k hk
        have := (List.mem_filter.mp hk).1
        exact he.1.key_lt this
      obtain ⟨i1, b1, l1⟩ := key _ e hout he ne
      refine ⟨i1, b1, fun k' => ?_⟩
      rw [l1]
      by_cases e1 : k' ∈ keys
      · simp [e1]
      · simp only [e1, if_false]
        by_cases e2 : k' ∈ e.tree.keys
        · have : k' ∈ (List.map Prod.fst e.tree.toList).filter (fun k => !keys.contains k) := by
            rw [List.mem_filter]; exact ⟨e2, by simpa using e1⟩
          rw [if_pos this]
        · have : e.tree.lookup k' = none := lookup_none_of_not_mem e2
          rw [this]; split <;> rfl

end rename

end SepDom
end Crab
