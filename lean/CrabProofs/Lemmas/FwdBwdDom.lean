import CrabModel.Analysis.FwdBwd

/-!
  Dominators of the forward+backward model (`CrabModel/Analysis/FwdBwd.lean`): the reachability
  closure is checked closed, hence contains every node reachable without the removed node;
  `sdomB` implies dominance; immediate dominators and the edges of `idomTree` are strict
  dominators; dominance is transitive; `dominates` (descent in the tree) implies dominance.
  Everything holds for every graph and every round bound (`reachAvoid` answers `none`, and
  `sdomB` `false`, when the bound is hit).
-/
namespace Crab
namespace Analysis

theorem closedB_mem (succs : Nat → List Nat) (avoid : Option Nat) (S : List Nat)
    (h : closedB succs avoid S = true) (x y : Nat) (hx : x ∈ S) (hy : y ∈ succs x)
    (hne : avoid ≠ some y) : y ∈ S := by
  unfold closedB at h
  rw [List.all_eq_true] at h
  have h1 := h x hx
  rw [List.all_eq_true] at h1
  have h2 := h1 y hy
  simp only [Bool.or_eq_true, beq_iff_eq, List.contains_eq_mem, decide_eq_true_eq] at h2
  rcases h2 with h2 | h2
  · exact absurd h2 hne
  · exact h2

theorem reachRound_mono (succs : Nat → List Nat) (avoid : Option Nat) (S : List Nat) (x : Nat)
    (hx : x ∈ S) : x ∈ reachRound succs avoid S := by
  unfold reachRound
  have inner : ∀ (ys : List Nat) (acc : List Nat), x ∈ acc →
      x ∈ ys.foldl (fun acc y => if acc.contains y || avoid == some y then acc else acc ++ [y]) acc := by
    intro ys
    induction ys with
    | nil => intro acc h; exact h
    | cons y ys ih =>
      intro acc h
      simp only [List.foldl_cons]
      apply ih
      split
      · exact h
      · exact List.mem_append_left _ h
  have outer : ∀ (xs : List Nat) (acc : List Nat), x ∈ acc →
      x ∈ xs.foldl (fun acc x => (succs x).foldl
        (fun acc y => if acc.contains y || avoid == some y then acc else acc ++ [y]) acc) acc := by
    intro xs
    induction xs with
    | nil => intro acc h; exact h
    | cons z zs ih =>
      intro acc h
      simp only [List.foldl_cons]
      exact ih _ (inner _ _ h)
  exact outer S S hx

theorem reachIter_mono (succs : Nat → List Nat) (avoid : Option Nat) (k : Nat) (S : List Nat) (x : Nat)
    (hx : x ∈ S) : x ∈ reachIter succs avoid k S := by
  induction k generalizing S with
  | zero => exact hx
  | succ k ih =>
    unfold reachIter
    simp only
    split
    · exact hx
    · exact ih _ (reachRound_mono succs avoid S x hx)

/-- the closure contains every node that a path avoiding the removed node leads to -/
theorem reachAvoid_sound (G : DGraph) (avoid : Option Nat) (S : List Nat)
    (h : reachAvoid G avoid = some S) (n : Nat) (l : List Nat) (hp : PathTo G n l)
    (hav : ∀ d, avoid = some d → d ∉ l) : n ∈ S := by
  unfold reachAvoid at h
  simp only at h
  by_cases hc : closedB G.succs avoid
      (reachIter G.succs avoid G.fuel (if avoid == some G.entry then [] else [G.entry])) = true
  · rw [if_pos hc] at h
    injection h with hS
    rw [← hS]
    induction hp with
    | entry =>
      -- the start set contains the entry unless it is the removed node; the rounds only add
      have hne : avoid ≠ some G.entry := fun he => hav G.entry he (by simp)
      have hstart : G.entry ∈ (if avoid == some G.entry then [] else [G.entry]) := by
        have : (avoid == some G.entry) = false := by
          cases hb : (avoid == some G.entry) with
          | false => rfl
          | true => exact absurd (by simpa using hb) hne
        simp [this]
      exact reachIter_mono G.succs avoid G.fuel _ _ hstart
    | step b m l' _ hm ih =>
      have hb : b ∈ reachIter G.succs avoid G.fuel (if avoid == some G.entry then [] else [G.entry]) :=
        ih (fun d hd hmem => hav d hd (List.mem_cons_of_mem _ hmem))
      exact closedB_mem G.succs avoid _ hc b m hb hm (fun he => hav m he (by simp))
  · rw [if_neg hc] at h
    cases h

/-- `sdomB` is sound: no path from the entry reaches `n` without passing through `d` -/
theorem sdomB_sound (G : DGraph) (d n : Nat) (h : sdomB G d n = true) : Dominates G d n := by
  unfold sdomB at h
  simp only [Bool.and_eq_true] at h
  obtain ⟨_, h2⟩ := h
  intro l hp
  cases hr : reachAvoid G (some d) with
  | none => rw [hr] at h2; cases h2
  | some S =>
    rw [hr] at h2
    simp only [List.contains_eq_mem, Bool.not_eq_true', decide_eq_false_iff_not] at h2
    by_cases hd : d ∈ l
    · exact hd
    · exfalso
      apply h2
      exact reachAvoid_sound G (some d) S hr n l hp (fun d' hd' => by injection hd' with e; rw [← e]; exact hd)

theorem sdomB_ne (G : DGraph) (d n : Nat) (h : sdomB G d n = true) : n ≠ d := by
  unfold sdomB at h
  simp only [Bool.and_eq_true, bne_iff_ne] at h
  exact h.1

/-- an initial segment of a path is a path -/
theorem pathTo_prefix (G : DGraph) (v : Nat) (l : List Nat) (hp : PathTo G v l) (w : Nat) (hw : w ∈ l) :
    ∃ l', PathTo G w l' ∧ ∀ x, x ∈ l' → x ∈ l := by
  induction hp with
  | entry =>
    simp only [List.mem_singleton] at hw
    subst hw
    exact ⟨[G.entry], PathTo.entry, fun x hx => hx⟩
  | step b m l' hp' hm ih =>
    simp only [List.mem_cons] at hw
    rcases hw with hw | hw
    · subst hw
      exact ⟨w :: l', PathTo.step b w l' hp' hm, fun x hx => hx⟩
    · obtain ⟨l2, h2, hsub⟩ := ih hw
      exact ⟨l2, h2, fun x hx => List.mem_cons_of_mem _ (hsub x hx)⟩

theorem pathTo_head (G : DGraph) (v : Nat) (l : List Nat) (hp : PathTo G v l) : v ∈ l := by
  cases hp <;> simp

theorem pathTo_entry_mem (G : DGraph) (v : Nat) (l : List Nat) (hp : PathTo G v l) : G.entry ∈ l := by
  induction hp with
  | entry => simp
  | step b m l' _ _ ih => exact List.mem_cons_of_mem _ ih

theorem dominates_refl (G : DGraph) (v : Nat) : Dominates G v v := fun l hp => pathTo_head G v l hp

theorem dominates_entry (G : DGraph) (v : Nat) : Dominates G G.entry v :=
  fun l hp => pathTo_entry_mem G v l hp

theorem dominates_trans (G : DGraph) (d w v : Nat) (h1 : Dominates G d w) (h2 : Dominates G w v) :
    Dominates G d v := by
  intro l hp
  obtain ⟨l', hp', hsub⟩ := pathTo_prefix G v l hp w (h2 l hp)
  exact hsub d (h1 l' hp')

/-- `idomOf` returns a strict dominator -/
theorem idomOf_sdom (G : DGraph) (R : List Nat) (n d : Nat) (h : idomOf G R n = some d) :
    sdomB G d n = true := by
  unfold idomOf at h
  have hm := List.mem_of_find?_eq_some h
  rw [List.mem_filter] at hm
  exact hm.2

/-- an edge of the tree: the parent is the immediate dominator of the child -/
theorem idomTree_edge (G : DGraph) (u : Nat) (cs : List Nat) (v : Nat)
    (h : (u, cs) ∈ idomTree G) (hv : v ∈ cs) : sdomB G u v = true := by
  unfold idomTree at h
  split at h
  · cases h
  · rename_i R _
    rw [List.mem_filter, List.mem_map] at h
    obtain ⟨⟨u', _, he⟩, _⟩ := h
    injection he with h1 h2
    subst h1
    rw [← h2, List.mem_filter] at hv
    have := hv.2
    simp only [beq_iff_eq] at this
    exact idomOf_sdom G R v u' this

theorem lookup_mem {α : Type} (l : List (Nat × α)) (k : Nat) (v : α) (h : l.lookup k = some v) :
    (k, v) ∈ l := by
  induction l with
  | nil => simp [List.lookup] at h
  | cons kv l ih =>
    obtain ⟨k', v'⟩ := kv
    unfold List.lookup at h
    split at h
    · rename_i heq
      simp only [beq_iff_eq] at heq
      injection h with h
      subst heq; subst h
      simp
    · exact List.mem_cons_of_mem _ (ih h)

/-- `dominates` on the tree computed by the model is sound (and strict), for every graph -/
theorem dominates_sound (G : DGraph) : ∀ (fuel u v : Nat), dominates (idomTree G) fuel u v = true →
    Dominates G u v := by
  intro fuel
  induction fuel with
  | zero => intro u v h; simp [dominates] at h
  | succ fuel ih =>
    intro u v h
    unfold dominates at h
    split at h
    · cases h
    · rename_i cs hl
      have hmem := lookup_mem _ _ _ hl
      simp only [Bool.or_eq_true, List.contains_eq_mem, decide_eq_true_eq, List.any_eq_true] at h
      rcases h with h | ⟨w, hw, hd⟩
      · exact sdomB_sound G u v (idomTree_edge G u cs v hmem h)
      · exact dominates_trans G u w v (sdomB_sound G u w (idomTree_edge G u cs w hmem hw)) (ih w v hd)

end Analysis
end Crab
