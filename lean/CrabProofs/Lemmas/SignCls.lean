import CrabModel.Scalar.Sign
import CrabProofs.Lemmas.ZNumBits

/-! The partition lemma behind the table proofs for `sign`: the class-level operation
    `SOp.clsOp` covers the concrete operation on all integers, and the lifting of the
    per-entry side condition `Sign.entryOk` to a statement about integers. -/
namespace Crab

namespace Cls
theorem of_neg {k : Int} (h : k < 0) : of k = neg := by simp [of, h]
theorem of_zero : of 0 = zero := by decide
theorem of_pos {k : Int} (h : 0 < k) : of k = pos := by
  unfold of; rw [if_neg (by omega), if_neg (by omega)]
theorem mem_all (c : Cls) : c ∈ all := by cases c <;> decide

/-- classification by cases, in the form used below -/
theorem of_cases (k : Int) : (k < 0 ∧ of k = neg) ∨ (k = 0 ∧ of k = zero) ∨ (0 < k ∧ of k = pos) := by
  by_cases h1 : k < 0
  · exact Or.inl ⟨h1, of_neg h1⟩
  · by_cases h2 : k = 0
    · exact Or.inr (Or.inl ⟨h2, by rw [h2]; exact of_zero⟩)
    · exact Or.inr (Or.inr ⟨by omega, of_pos (by omega)⟩)
end Cls

namespace SOp
open Cls

private theorem two_pow_pos' (n : Nat) : (0 : Int) < 2 ^ n := ZNum.two_pow_pos n

/-- sign of a truncated quotient -/
theorem tdiv_sign (a b : Int) :
    (0 ≤ a → 0 < b → 0 ≤ Int.tdiv a b) ∧ (a ≤ 0 → b < 0 → 0 ≤ Int.tdiv a b) ∧
    (a ≤ 0 → 0 < b → Int.tdiv a b ≤ 0) ∧ (0 ≤ a → b < 0 → Int.tdiv a b ≤ 0) := by
  refine ⟨fun h1 h2 => Int.tdiv_nonneg h1 (by omega), ?_, ?_, fun h1 h2 => Int.tdiv_nonpos_of_nonneg_of_nonpos h1 (by omega)⟩
  · intro h1 h2
    have := Int.tdiv_nonneg (a := -a) (b := -b) (by omega) (by omega)
    rw [Int.tdiv_neg, Int.neg_tdiv] at this; omega
  · intro h1 h2
    have := Int.tdiv_nonneg (a := -a) (b := b) (by omega) (by omega)
    rw [Int.neg_tdiv] at this; omega

/-- sign of a truncated remainder: that of the dividend, or zero -/
theorem tmod_sign (a b : Int) : (0 ≤ a → 0 ≤ Int.tmod a b) ∧ (a ≤ 0 → Int.tmod a b ≤ 0) := by
  refine ⟨fun h => Int.tmod_nonneg b h, ?_⟩
  intro h
  have := Int.tmod_nonneg (a := -a) b (by omega)
  rw [Int.neg_tmod] at this; omega

/-- closes `Cls.of r ∈ clsOp op (Cls.of a) (Cls.of b)` by the 27 sign cases, using the
    linear facts about `r` present in the context -/
syntax "cls_close " ident ident ident : tactic
macro_rules
  | `(tactic| cls_close $a $b $r) => `(tactic| (
      rcases Cls.of_cases $a with ⟨ha, ea⟩ | ⟨ha, ea⟩ | ⟨ha, ea⟩ <;>
      rcases Cls.of_cases $b with ⟨hb, eb⟩ | ⟨hb, eb⟩ | ⟨hb, eb⟩ <;>
      rcases Cls.of_cases $r with ⟨hr, er⟩ | ⟨hr, er⟩ | ⟨hr, er⟩ <;>
      rw [ea, eb, er] <;> first | decide | (exfalso; omega)))

/-- **partition lemma**: the class of a concrete result is among those predicted from the
    classes of the operands -/
theorem clsOp_sound (op : SOp) (a b r : Int) (h : op.conc a b = some r) :
    Cls.of r ∈ op.clsOp (Cls.of a) (Cls.of b) := by
  cases op <;> simp only [conc] at h
  case add => simp only [Option.some.injEq] at h; cls_close a b r
  case sub => simp only [Option.some.injEq] at h; cls_close a b r
  case mul =>
    simp only [Option.some.injEq] at h
    have m1 := @Int.mul_pos a b
    have m2 := @Int.mul_pos_of_neg_of_neg a b
    have m3 := @Int.mul_neg_of_pos_of_neg a b
    have m4 := @Int.mul_neg_of_neg_of_pos a b
    have z1 : a = 0 → a * b = 0 := fun h0 => by rw [h0, Int.zero_mul]
    have z2 : b = 0 → a * b = 0 := fun h0 => by rw [h0, Int.mul_zero]
    cls_close a b r
  case div =>
    split at h
    · cases h
    · simp only [Option.some.injEq] at h
      obtain ⟨d1, d2, d3, d4⟩ := tdiv_sign a b
      have z1 : a = 0 → Int.tdiv a b = 0 := fun h0 => by rw [h0, Int.zero_tdiv]
      cls_close a b r
  case srem =>
    split at h
    · cases h
    · simp only [Option.some.injEq] at h
      obtain ⟨d1, d2⟩ := tmod_sign a b
      have z1 : a = 0 → Int.tmod a b = 0 := fun h0 => by rw [h0, Int.zero_tmod]
      cls_close a b r
  case udiv =>
    split at h
    · rename_i hc
      simp only [Option.some.injEq] at h
      have d1 : 0 ≤ a / b := Int.ediv_nonneg hc.1 (by omega)
      have z1 : a = 0 → a / b = 0 := fun h0 => by rw [h0, Int.zero_ediv]
      cls_close a b r
    · cases h
  case urem =>
    split at h
    · rename_i hc
      simp only [Option.some.injEq] at h
      have d1 : 0 ≤ a % b := Int.emod_nonneg a (by omega)
      have z1 : a = 0 → a % b = 0 := fun h0 => by rw [h0, Int.zero_emod]
      cls_close a b r
    · cases h
  case and =>
    simp only [Option.some.injEq] at h
    have z1 : a = 0 → ZNum.land a b = 0 := fun h0 => by rw [h0]; exact ZNum.land_zero_left b
    have z2 : b = 0 → ZNum.land a b = 0 := fun h0 => by rw [h0]; exact ZNum.land_zero_right a
    cls_close a b r
  case or =>
    simp only [Option.some.injEq] at h
    have z1 : a = 0 → ZNum.lor a b = b := fun h0 => by rw [h0]; exact ZNum.lor_zero_left b
    have z2 : b = 0 → ZNum.lor a b = a := fun h0 => by rw [h0]; exact ZNum.lor_zero_right a
    cls_close a b r
  case xor =>
    simp only [Option.some.injEq] at h
    have z1 : a = 0 → ZNum.lxor a b = b := fun h0 => by rw [h0]; exact ZNum.lxor_zero_left b
    have z2 : b = 0 → ZNum.lxor a b = a := fun h0 => by rw [h0]; exact ZNum.lxor_zero_right a
    cls_close a b r
  case shl =>
    split at h
    · simp only [Option.some.injEq] at h
      have hp := two_pow_pos' b.toNat
      generalize (2 : Int) ^ b.toNat = p at h hp
      have m1 := @Int.mul_pos a p
      have m4 := @Int.mul_neg_of_neg_of_pos a p
      have z1 : a = 0 → a * p = 0 := fun h0 => by rw [h0, Int.zero_mul]
      cls_close a b r
    · cases h
  case ashr =>
    split at h
    · simp only [Option.some.injEq] at h
      have z2 : b = 0 → a / 2 ^ b.toNat = a := fun h0 => by rw [h0]; simp
      have hp := two_pow_pos' b.toNat
      generalize (2 : Int) ^ b.toNat = p at h hp z2
      have d1 : a < 0 → a / p < 0 := fun h0 => Int.ediv_neg_of_neg_of_pos h0 hp
      have d2 : 0 ≤ a → 0 ≤ a / p := fun h0 => Int.ediv_nonneg h0 (by omega)
      have z1 : a = 0 → a / p = 0 := fun h0 => by rw [h0, Int.zero_ediv]
      cls_close a b r
    · cases h
  case lshr =>
    split at h
    · simp only [Option.some.injEq] at h
      have z2 : b = 0 → a / 2 ^ b.toNat = a := fun h0 => by rw [h0]; simp
      have hp := two_pow_pos' b.toNat
      generalize (2 : Int) ^ b.toNat = p at h hp z2
      have d2 : 0 ≤ a → 0 ≤ a / p := fun h0 => Int.ediv_nonneg h0 (by omega)
      have z1 : a = 0 → a / p = 0 := fun h0 => by rw [h0, Int.zero_ediv]
      cls_close a b r
    · cases h
  case join => cases h
  case meet => cases h

end SOp

namespace Sign

theorem mem_iff (k : Int) (s : Sign) : mem k s ↔ s.has (Cls.of k) = true := Iff.rfl

/-- a successful lookup returns an entry of the generated table -/
theorem binop_mem {op : SOp} {x y res : Sign} (h : binop op x y = some res) :
    (op, x, y, some res) ∈ Gen.signTable := by
  unfold binop at h
  split at h
  · rename_i o' x' y' r hget
    split at h
    · rename_i hk
      obtain ⟨h1, h2, h3⟩ := hk
      subst h1; subst h2; subst h3; subst h
      exact List.mem_of_getElem? hget
    · cases h
  · cases h

/-- **lifting**: an entry that passes the class-level side condition is sound on all integers -/
theorem entryOk_sound {op : SOp} {x y res : Sign} (hok : entryOk op x y res = true)
    {a b r : Int} (hx : mem a x) (hy : mem b y) (hc : op.conc a b = some r) : mem r res := by
  have hcls := SOp.clsOp_sound op a b r hc
  have key : ∀ (hne : op ≠ .join ∧ op ≠ .meet), mem r res := by
    intro hne
    have hok' : Cls.all.all (fun ca => Cls.all.all (fun cb =>
        !(x.has ca && y.has cb) || (op.clsOp ca cb).all res.has)) = true := by
      cases op <;> first | exact hok | exact absurd rfl hne.1 | exact absurd rfl hne.2
    have h1 := List.all_eq_true.mp hok' (Cls.of a) (Cls.mem_all _)
    have h2 := List.all_eq_true.mp h1 (Cls.of b) (Cls.mem_all _)
    rw [(mem_iff a x).mp hx, (mem_iff b y).mp hy] at h2
    simp only [Bool.and_self, Bool.not_true, Bool.false_or] at h2
    exact List.all_eq_true.mp h2 _ hcls
  by_cases h1 : op = .join
  · subst h1; cases hc
  · by_cases h2 : op = .meet
    · subst h2; cases hc
    · exact key ⟨h1, h2⟩

theorem entryOk_join {x y res : Sign} (hok : entryOk .join x y res = true) {k : Int}
    (hk : mem k x ∨ mem k y) : mem k res := by
  have h1 := List.all_eq_true.mp hok (Cls.of k) (Cls.mem_all _)
  rcases hk with hk | hk
  · rw [(mem_iff k x).mp hk] at h1; exact (mem_iff k res).mpr (by simpa using h1)
  · rw [(mem_iff k y).mp hk] at h1; exact (mem_iff k res).mpr (by simpa using h1)

theorem entryOk_meet {x y res : Sign} (hok : entryOk .meet x y res = true) {k : Int}
    (hx : mem k x) (hy : mem k y) : mem k res := by
  have h1 := List.all_eq_true.mp hok (Cls.of k) (Cls.mem_all _)
  rw [(mem_iff k x).mp hx, (mem_iff k y).mp hy] at h1; exact (mem_iff k res).mpr (by simpa using h1)

end Sign
end Crab
