import CrabProofs.Lemmas.InterTD

/-!
  Phase 2 of C10, the semantic part: with the facts of `InterTD.lean` about the entry values,
  the frames of every analysed function stay inside its local collecting semantics entered with
  its entry value (`tdSpec`), jointly with the invariant of phase 1 on the same execution.
-/
namespace Crab.Inter
open Crab.Fix

variable {p : IProg}

/-- `seqOrderOK` as a proposition -/
def SeqFacts (p : IProg) (l : List (Nat × Bool)) : Prop :=
  (l.map (·.1)).Nodup ∧
  ∀ g, g < p.funs.size → ∀ h, h ∈ (p.fn g).callees → h ∈ l.map (·.1) →
    g ∈ l.map (·.1) ∧ ((h, true) ∈ l ∨ (l.map (·.1)).idxOf g < (l.map (·.1)).idxOf h)

theorem SeqFacts.of_bool {l : List (Nat × Bool)} (h : seqOrderOK p l = true) : SeqFacts p l := by
  simp only [seqOrderOK, Bool.and_eq_true, decide_eq_true_eq, List.all_eq_true, List.mem_range,
    Bool.or_eq_true, Bool.not_eq_true', List.contains_eq_mem, decide_eq_false_iff_not] at h
  refine ⟨h.1, ?_⟩
  intro g hg c hc hn
  rcases h.2 g hg c hc with h1 | h1
  · exact absurd hn h1
  · exact h1

/-- the callee of a call site is one of the callees of the function -/
theorem mem_callees {f : IFun} {b k h : Nat} {lhs args : List Var} (hk : k < (f.blk b).stmts.size)
    (hs : (f.blk b).stmts.getD k default = .call h lhs args) : h ∈ f.callees := by
  unfold IFun.callees
  rw [List.mem_flatMap]
  refine ⟨f.blk b, by simpa using getD_mem_of_lt _ _ _ (blk_stmts_lt hk), ?_⟩
  rw [List.mem_filterMap]
  refine ⟨(f.blk b).stmts.getD k default, ?_, by rw [hs]⟩
  simpa using getD_mem_of_lt _ _ default hk

theorem callsSeqOK_at (h : p.callsSeqOK = true) {g b k c : Nat} {lhs args : List Var} (hg : g < p.funs.size)
    (hk : k < ((p.fn g).blk b).stmts.size) (hs : ((p.fn g).blk b).stmts.getD k default = .call c lhs args) :
    SeqOK (p.fn c).ins args := by
  simp only [IProg.callsSeqOK, Array.all_eq_true_iff_forall_mem] at h
  have := h _ (getD_mem_of_lt _ _ _ hg) _ (getD_mem_of_lt _ _ _ (blk_stmts_lt hk)) _ (getD_mem_of_lt _ _ default hk)
  rw [hs] at this
  exact SeqOK.of_bool this

theorem mem_blockCtxs (TD : IDom) {BU : IDom} (call : Nat → List Var → List Var → TD.A → TD.A) (T : SumTable BU)
    {h : Nat} {lhs args : List Var} {sm : Summary BU} (hT : T h = some sm) :
    ∀ (ss : List IStmt) (a : TD.A) (k : Nat), k < ss.length → ss.getD k default = .call h lhs args →
      (h, tdCalleeCtx TD sm args ((ss.take k).foldl (execStmt TD call) a)) ∈ blockCtxs TD call T ss a
  | [], _, _, hk, _ => by simp at hk
  | s :: ss, a, 0, _, hs => by
    have : s = .call h lhs args := by simpa [List.getD] using hs
    subst this
    simp [blockCtxs, hT]
  | s :: ss, a, k + 1, hk, hs => by
    simp only [blockCtxs, List.take_succ_cons, List.foldl_cons]
    apply List.mem_append_right
    exact mem_blockCtxs TD call T hT ss _ k (by simpa using hk) (by simpa [List.getD] using hs)

theorem mem_funCtxs (TD : IDom) {BU : IDom} (call : Nat → List Var → List Var → TD.A → TD.A) (T : SumTable BU)
    {f : IFun} {b k h : Nat} {lhs args : List Var} {sm : Summary BU} (hT : T h = some sm)
    (hk : k < (f.blk b).stmts.size) (hs : (f.blk b).stmts.getD k default = .call h lhs args)
    (pre : Nat → TD.A) :
    (h, tdCalleeCtx TD sm args (execPrefix TD call (f.blk b) k (pre b))) ∈ funCtxs TD call T f pre := by
  unfold funCtxs
  rw [List.mem_flatMap]
  refine ⟨b, List.mem_range.mpr (blk_stmts_lt hk), ?_⟩
  apply mem_blockCtxs TD call T hT _ _ k (by simpa using hk)
  simpa [Array.getD_eq_getD_getElem?, List.getD] using hs

/-- the decomposition used for phase 2: covered = analysed; entered with a frame described by the
    entry value; calls described by the (final) summary table -/
def tdSpec (p : IProg) {BU TD : IDom} (T : SumTable BU) (R : TDState TD) : SimSpec where
  Cov := fun g => ∃ st, R.invs g = some st
  E := fun g env => env.size = p.nv ∧ ∀ e, R.entry g = some e → EnvIn TD.toAbsDom e env
  CR := fun _ => tableCR T

theorem SubG.envIn {D : IDom} {a b : D.A} (h : SubG D a b) {env : Env} (ha : EnvIn D.toAbsDom a env) :
    EnvIn D.toAbsDom b env := fun σ hσ => h σ (ha σ hσ)

theorem envIn_top (D : IDom) (env : Env) : EnvIn D.toAbsDom D.top env := fun σ _ => D.top_sound σ

section
variable (BU TD : IDom) (cv : Conv BU TD) (cfg : FixCfg) (T : SumTable BU) (init : TD.A)

/-- a covered function: its frames at `(b, k)` are described by the prefix transformer applied
    to the stored pre-invariant of the block -/
theorem td_at_sound (hP : ProgOK p) (hren : BU.toAbsDom.RenameSound) (hw : WtoHyp TD p cfg)
    (hT : TableDecl p T) {l : List (Nat × Bool)} {R : TDState TD}
    (hF : TDFacts BU TD cv p cfg T init l R) {g : Nat} (hg : g < p.funs.size) {st : Fix.St TD.A}
    (hst : R.invs g = some st) {b k : Nat} {env : Env} (hat : (tdSpec p T R).At p g b k env) :
    EnvIn TD.toAbsDom (execPrefix TD (tdCall BU TD cv p.nv T) ((p.fn g).blk b) k (st.pre b)) env ∧
    env.size = p.nv ∧ (k = ((p.fn g).blk b).stmts.size → EnvIn TD.toAbsDom (st.post b) env) := by
  obtain ⟨_, e, he, hsolve⟩ := hF.cov g st hst
  exact solve_sound TD cfg g (hP g hg) (tdCall_sound hP BU TD cv hren T hT) e ((tdSpec p T R).E g)
    (fun s hs => ⟨hs.1, hs.2 e he⟩) (hw g hg _ _) st hsolve b k env hat

/-- (c): the entry value of an analysed callee describes every frame a call creates -/
theorem td_entryOK (hP : ProgOK p) (hren : BU.toAbsDom.RenameSound) (hw : WtoHyp TD p cfg)
    (hT : TableDecl p T) (hseqok : p.callsSeqOK = true) {l : List (Nat × Bool)} {R : TDState TD}
    (hF : TDFacts BU TD cv p cfg T init l R) (hseq : SeqFacts p l) (ch : Choices)
    (hinit : ∀ gr rest, l = gr :: rest → InitOK p TD init gr.1 ch) : EntryOK p (tdSpec p T R) := by
  intro g h b k env lhs args env' hg hcovh hat hk hs hsz hsz' hm
  refine ⟨hsz', ?_⟩
  intro e he
  obtain ⟨sth, hsth⟩ := hcovh
  have hhn : h ∈ l.map (·.1) := (hF.cov h sth hsth).1
  have hcal : h ∈ (p.fn g).callees := mem_callees hk hs
  obtain ⟨hgn, hor⟩ := hseq.2 g hg h hcal hhn
  have hS := (hP g hg).stmts b k hk
  rw [hs] at hS
  obtain ⟨hhlt, hlnd, hll, hla⟩ := hS.2.2
  cases l with
  | nil => nomatch hhn
  | cons gr0 l2 =>
    by_cases hroot : h = gr0.1
    · -- the callee is the root: `init`
      have := hF.root gr0 l2 rfl
      rw [← hroot, he] at this
      cases this
      rcases hinit gr0 l2 rfl with hA | ⟨hm', hnc, _⟩
      · exact hA env' hsz'
      · rw [← hroot] at hm'
        rw [hm'] at hcal
        exact absurd hcal (hnc g hg)
    · obtain ⟨gr, hgr, hgr1⟩ := List.mem_map.mp hhn
      have hnr : ∀ gr0' rest, gr0 :: l2 = gr0' :: rest → gr.1 ≠ gr0'.1 := by
        intro gr0' rest he'
        cases he'
        rw [hgr1]; exact hroot
      cases hTh : T h with
      | none =>
        exact (hF.top gr hgr hnr e (by rw [hgr1]; exact he) (Or.inr (by rw [hgr1]; exact hTh))).envIn (envIn_top TD env')
      | some sm =>
        rcases hor with hrec | hidx
        · have hnr' : ∀ gr0' rest, gr0 :: l2 = gr0' :: rest → (h, true).1 ≠ gr0'.1 := by
            intro gr0' rest he'
            cases he'
            exact hroot
          exact (hF.top (h, true) hrec hnr' e he (Or.inl rfl)).envIn (envIn_top TD env')
        · -- the caller was analysed before: its stored context is below the entry value
          obtain ⟨stg, hstg⟩ := hF.covAll g hgn
          have hpre := (td_at_sound BU TD cv cfg T init hP hren hw hT hF hg hstg (hat ⟨stg, hstg⟩)).1
          have hmem := mem_funCtxs TD (tdCall BU TD cv p.nv T) T hTh hk hs stg.pre
          have hsub := hF.before g h hidx hhn stg e hstg he _ hmem
          apply hsub.envIn
          obtain ⟨hi, _⟩ := hT h sm hTh
          have hFh := hP h hhlt
          apply tdCalleeCtx_sound TD sm args _ env env' (by rw [hi]; exact hFh.ins_nodup)
            (by rw [hi]; exact callsSeqOK_at hseqok hg hk hs) (by rw [hi, hla]; exact Nat.le_refl _)
            (by rw [hi, hsz']; exact hFh.ins_lt) hpre
          rw [hi]; exact hm


/-- both invariants along an execution: phase 1 describes the returned calls, phase 2 the frames -/
theorem joint_run (hP : ProgOK p) (hren : BU.toAbsDom.RenameSound) (hwBU : WtoHyp BU p cfg)
    {Tg : Nat → SumTable BU} (hJ : Justified BU p cfg T Tg) {R : TDState TD}
    (hentry : EntryOK p (tdSpec p T R)) (ch : Choices) :
    ∀ (fuel : Nat) (c : Config), Inv p (buSpec p T Tg) c → Inv p (tdSpec p T R) c →
      Inv p (buSpec p T Tg) (runFrom p ch fuel c) ∧ Inv p (tdSpec p T R) (runFrom p ch fuel c)
  | 0, c, h1, h2 => ⟨h1, h2⟩
  | fuel + 1, c, h1, h2 => by
    unfold Crab.Inter.runFrom
    split
    · apply joint_run hP hren hwBU hJ hentry ch fuel
      · apply Inv.step hP (bu_entryOK T Tg) ch h1
        intro hfr gfr rest hst hpc hex _ s hs
        exact bu_retOK hP hren hwBU hJ c h1 hfr (gfr :: rest) hst hpc hex s (hJ.sub _ _ s hs)
      · apply Inv.step hP hentry ch h2
        intro hfr gfr rest hst hpc hex _
        exact bu_retOK hP hren hwBU hJ c h1 hfr (gfr :: rest) hst hpc hex
    · exact ⟨h1, h2⟩

/-- the initial configuration satisfies the invariant of phase 2 -/
theorem td_start (hP : ProgOK p) (hmain : p.main < p.funs.size) (hTm : T p.main = none)
    {l : List (Nat × Bool)} {R : TDState TD}
    (hF : TDFacts BU TD cv p cfg T init l R) (ch : Choices)
    (hinit : ∀ gr rest, l = gr :: rest → InitOK p TD init gr.1 ch) :
    Inv p (tdSpec p T R) (initConfig p ch) := by
  rw [initConfig_eq]
  apply Inv.start hP ch p.main [] hmain (Or.inr rfl)
  intro hcov
  refine ⟨mkFrame_env_size p ch 0 p.main [], ?_⟩
  intro e he
  obtain ⟨st, hst⟩ := hcov
  have hmn : p.main ∈ l.map (·.1) := (hF.cov _ st hst).1
  cases l with
  | nil => nomatch hmn
  | cons gr0 l2 =>
    by_cases hroot : p.main = gr0.1
    · have := hF.root gr0 l2 rfl
      rw [← hroot, he] at this
      cases this
      rcases hinit gr0 l2 rfl with hA | ⟨_, _, hB⟩
      · exact hA _ (mkFrame_env_size p ch 0 p.main [])
      · exact hB
    · obtain ⟨gr, hgr, hgr1⟩ := List.mem_map.mp hmn
      have hnr : ∀ gr0' rest, gr0 :: l2 = gr0' :: rest → gr.1 ≠ gr0'.1 := by
        intro gr0' rest he'
        cases he'
        rw [hgr1]; exact hroot
      exact (hF.top gr hgr hnr e (by rw [hgr1]; exact he) (Or.inr (by rw [hgr1]; exact hTm))).envIn
        (envIn_top TD _)

end

theorem SumHolds.gamma {D : IDom} {s : Summary D} {iv ov : List Int} (h : SumHolds s iv ov)
    (hl : iv.length = s.ins.length) (ρ : St) (hin : MatchVals s.ins iv ρ) (hout : MatchVals s.outs ov ρ) :
    D.γ s.sum ρ := by
  obtain ⟨ρ0, h1, h2, hlo, hρ⟩ := h
  apply hρ
  intro v hv
  rcases List.mem_append.mp hv with hv | hv
  · exact MatchVals.agree hl.symm h1 hin v hv
  · exact MatchVals.agree hlo.symm h2 hout v hv

theorem noEdges_callees (h : p.noEdges = true) {g : Nat} (hg : g < p.funs.size) : (p.fn g).callees = [] := by
  simp only [IProg.noEdges, List.all_eq_true, List.isEmpty_iff] at h
  exact h _ (Array.mem_toList_iff.mpr (getD_mem_of_lt _ _ _ hg))

/-- what a successful run of the model consists of -/
theorem analyze_cases {BU TD : IDom} {cv : Conv BU TD} {cfg : FixCfg} {comps : List (List Nat)}
    {init : TD.A} {extra : Nat → List (Nat × TD.A)} {res : BUResult BU TD}
    (hrun : analyze BU TD cv p cfg comps init extra = some res) (hord : orderOK p comps = true) :
    ∃ Tg l, Justified BU p cfg res.sums Tg ∧ SeqFacts p l ∧
      tdRun BU TD cv p cfg res.sums init extra l (TDState.empty TD) = some res.td ∧
      (∀ gr rest, l = gr :: rest → gr.1 = rootFn p comps) := by
  unfold analyze at hrun
  by_cases hne : p.noEdges = true
  · simp only [hne, if_true] at hrun
    cases hr : tdRun BU TD cv p cfg (fun _ => none) init extra [(p.main, false)] (TDState.empty TD) with
    | none => rw [hr] at hrun; cases hrun
    | some s =>
      rw [hr] at hrun
      simp only [Option.some.injEq] at hrun
      subst hrun
      refine ⟨fun _ _ => none, [(p.main, false)], Justified.empty BU p cfg, ⟨by simp, ?_⟩, hr, ?_⟩
      · intro g hg h hh
        rw [noEdges_callees hne hg] at hh
        nomatch hh
      · intro gr rest he
        cases he
        simp [rootFn, hne]
  · have hne' : p.noEdges = false := by simpa using hne
    rw [hne'] at hrun
    simp only [Bool.false_eq_true, if_false] at hrun
    cases hb : buPhase BU p cfg comps.flatten (fun _ => none) with
    | none => rw [hb] at hrun; cases hrun
    | some T =>
      rw [hb] at hrun
      simp only at hrun
      cases hr : tdRun BU TD cv p cfg T init extra (tdSeq p comps) (TDState.empty TD) with
      | none => rw [hr] at hrun; cases hrun
      | some s =>
        rw [hr] at hrun
        simp only [Option.some.injEq] at hrun
        subst hrun
        obtain ⟨Tg, hJ⟩ := Justified.phase _ _ T _ (Justified.empty BU p cfg) hb
        refine ⟨Tg, tdSeq p comps, hJ, SeqFacts.of_bool hord, hr, ?_⟩
        intro gr rest he
        simp [rootFn, hne', he]

/-- phase 2 on the executions from `main`: the entry values cover the calls and every frame of
    an analysed function stays inside its local collecting semantics -/
theorem td_core {BU TD : IDom} {cv : Conv BU TD} {cfg : FixCfg} {comps : List (List Nat)}
    {init : TD.A} {extra : Nat → List (Nat × TD.A)} {res : BUResult BU TD}
    (hP : ProgOK p) (hmain : p.main < p.funs.size) (hseqok : p.callsSeqOK = true)
    (hren : BU.toAbsDom.RenameSound) (hwBU : WtoHyp BU p cfg) (hwTD : WtoHyp TD p cfg)
    (hrun : analyze BU TD cv p cfg comps init extra = some res) (hord : orderOK p comps = true)
    (ch : Choices) (hinit : InitOK p TD init (rootFn p comps) ch) :
    ∃ l, TDFacts BU TD cv p cfg res.sums init l res.td ∧ TableDecl p res.sums ∧
      EntryOK p (tdSpec p res.sums res.td) ∧
      ∀ fuel, Inv p (tdSpec p res.sums res.td) (run p ch fuel) := by
  obtain ⟨Tg, l, hJ, hseq, hr, hroot⟩ := analyze_cases hrun hord
  have hF := tdRun_facts BU TD cv p cfg res.sums init extra l res.td hr hseq.1
  have hinit' : ∀ gr rest, l = gr :: rest → InitOK p TD init gr.1 ch := by
    intro gr rest he
    rw [hroot gr rest he]; exact hinit
  have hentry := td_entryOK BU TD cv cfg res.sums init hP hren hwTD hJ.decl hseqok hF hseq ch hinit'
  refine ⟨l, hF, hJ.decl, hentry, ?_⟩
  intro fuel
  have h0bu : Inv p (buSpec p res.sums Tg) (initConfig p ch) := by
    rw [initConfig_eq]
    exact Inv.start hP ch p.main [] hmain (Or.inr rfl) (fun _ => mkFrame_env_size p ch 0 p.main [])
  have h0td := td_start BU TD cv cfg res.sums init hP hmain hJ.notMain hF ch hinit'
  exact (joint_run BU TD cfg res.sums hP hren hwBU hJ hentry ch fuel _ h0bu h0td).2

/-! ### the driver's shape tag `[xshare]` (`crossShare`) covers the excluded case -/

theorem seqOKb_of_nocross : ∀ (ins args : List Var),
    (∀ j k, j < ins.length → k < args.length → j ≠ k → ins.getD j 0 ≠ args.getD k 0) → seqOKb ins args = true
  | [], _, _ => by cases ‹List Var› <;> rfl
  | _ :: _, [], _ => rfl
  | x :: xs, y :: ys, h => by
    simp only [seqOKb, Bool.and_eq_true, Bool.or_eq_true, beq_iff_eq, Bool.not_eq_true',
      List.contains_eq_mem, decide_eq_false_iff_not]
    refine ⟨Or.inr ?_, ?_⟩
    · intro hm
      obtain ⟨k, hk, he⟩ := List.mem_iff_getElem.mp hm
      have := h 0 (k + 1) (by simp) (by simpa using hk) (by omega)
      apply this
      simp [List.getD, List.getElem?_eq_getElem hk, he]
    · apply seqOKb_of_nocross xs ys
      intro j k hj hk hne
      have := h (j + 1) (k + 1) (by simpa using hj) (by simpa using hk) (by omega)
      simpa [List.getD] using this

theorem callsSeqOK_of_not_crossShare (p : IProg) (h : p.crossShare = false) : p.callsSeqOK = true := by
  simp only [IProg.callsSeqOK, Array.all_eq_true_iff_forall_mem]
  intro f hf b hb s hs
  cases s with
  | call c lhs args =>
    simp only
    apply seqOKb_of_nocross
    intro j k hj hk hne he
    have hx : p.crossShare = true := by
      simp only [IProg.crossShare, Array.any_eq_true']
      refine ⟨f, hf, b, hb, .call c lhs args, hs, ?_⟩
      simp only
      by_cases hc : c < p.funs.size
      · have : p.funs[c]? = some (p.fn c) := by
          simp [IProg.fn, Array.getD_eq_getD_getElem?, Array.getElem?_eq_getElem hc]
        rw [this]
        simp only [Bool.or_eq_true, List.any_eq_true, List.mem_range, Bool.and_eq_true, bne_iff_ne, ne_eq,
          beq_iff_eq]
        exact Or.inl ⟨k, hk, Or.inl ⟨j, hj, hne, he⟩⟩
      · exfalso
        have hd : p.fn c = default := by
          simp [IProg.fn, Array.getD_eq_getD_getElem?, Array.getElem?_eq_none (Nat.le_of_not_lt hc)]
        rw [hd] at hj
        exact Nat.not_lt_zero _ hj
    rw [h] at hx
    cases hx
  | _ => rfl

end Crab.Inter
