import CrabProofs.Lemmas.PatriciaSepDom
import CrabProofs.Lemmas.IntervalLattice

/-! The value lattice `ikos::interval<z_number>` satisfies what the environment theorems need:
    stored values (neither bottom nor top, proper bounds) are kept by the four lattice
    operations, the operations are idempotent, top is absorbing / neutral. -/
set_option linter.unusedSimpArgs false

namespace Crab
open Bound

/-- the values an interval environment stores -/
def StoredItv (i : Itv) : Prop := i.isTop = false ∧ i.isBottom = false ∧ i.WF

namespace Bound

theorem min_self (a : Bound) : min a a = a := by unfold min; split <;> rfl
theorem max_self (a : Bound) : max a a = a := by unfold max; split <;> rfl
theorem lt_irrefl (a : Bound) : lt a a = false := by simp [lt, ge, le_refl]
theorem le_ninf_iff {a : Bound} : le a ninf = true ↔ a = ninf := by cases a <;> simp
theorem pinf_le_iff {a : Bound} : le pinf a = true ↔ a = pinf := by cases a <;> simp
theorem min_ninf_left (b : Bound) : min ninf b = ninf := by simp [min]
theorem max_ninf_left (b : Bound) : max ninf b = b := by simp [max]
theorem min_pinf_left (b : Bound) : min pinf b = b := by
  unfold min; split
  · rename_i h; exact (pinf_le_iff.mp h).symm
  · rfl
theorem max_pinf_left (b : Bound) : max pinf b = pinf := by
  unfold max; split
  · rename_i h; exact pinf_le_iff.mp h
  · rfl
theorem min_ninf_right (a : Bound) : min a ninf = ninf := by
  unfold min; split
  · rename_i h; exact le_ninf_iff.mp h
  · rfl
theorem max_ninf_right (a : Bound) : max a ninf = a := by
  unfold max; split
  · rename_i h; exact (le_ninf_iff.mp h).symm
  · rfl
theorem min_pinf_right (a : Bound) : min a pinf = a := by simp [min]
theorem max_pinf_right (a : Bound) : max a pinf = pinf := by simp [max]

end Bound

namespace Itv

theorem le_of_not_isBottom {x : Itv} (h : x.isBottom = false) : Bound.le x.lb x.ub = true := by
  simpa [isBottom, Bound.gt] using h

theorem mk'_of_le {l u : Bound} (h : Bound.le l u = true) : mk' l u = ⟨l, u⟩ := by
  simp [mk', Bound.gt, h]

theorem mk'_self {x : Itv} (h : x.isBottom = false) : mk' x.lb x.ub = x := by
  rw [mk'_of_le (le_of_not_isBottom h)]

theorem isBottom_mk' (l u : Bound) : (mk' l u).isBottom = !(Bound.le l u) := by
  unfold mk'
  cases h : Bound.le l u
  · simp [Bound.gt, h, isBottom_bot]
  · simp [Bound.gt, h, isBottom]

theorem eq_top_of_isTop {z : Itv} (h : z.isTop = true) (hw : z.WF) : z = top := by
  obtain ⟨l, u⟩ := z
  obtain ⟨h1, h2⟩ := hw
  cases l <;> cases u <;> simp_all [isTop, Bound.isInfinite, top]

theorem isTop_top : top.isTop = true := by decide
theorem isBottom_top : top.isBottom = false := by decide

theorem StoredItv.lb_ub {x : Itv} (h : StoredItv x) : ¬ (x.lb = ninf ∧ x.ub = pinf) := by
  intro ⟨h1, h2⟩
  have := h.1
  simp [isTop, h1, h2, Bound.isInfinite] at this

/-! ### join -/

theorem join_eq {x y : Itv} (hx : x.isBottom = false) (hy : y.isBottom = false) :
    join x y = ⟨Bound.min x.lb y.lb, Bound.max x.ub y.ub⟩ := by
  unfold join
  simp only [hx, hy, Bool.false_eq_true, if_false]
  apply mk'_of_le
  exact Bound.le_trans (Bound.le_trans (Bound.min_le_left _ _) (le_of_not_isBottom hx)) (Bound.le_max_left _ _)

theorem join_pres {x y : Itv} (hx : StoredItv x) (hy : StoredItv y) (h : (join x y).isTop = false) :
    StoredItv (join x y) := by
  refine ⟨h, ?_, ?_⟩
  · rw [join_eq hx.2.1 hy.2.1]
    simp only [isBottom, Bound.gt, Bool.not_eq_false']
    exact Bound.le_trans (Bound.le_trans (Bound.min_le_left _ _) (le_of_not_isBottom hx.2.1)) (Bound.le_max_left _ _)
  · rw [join_eq hx.2.1 hy.2.1]
    constructor
    · rcases Bound.min_eq_or x.lb y.lb with e | e <;> simp only [e]
      · exact hx.2.2.1
      · exact hy.2.2.1
    · rcases Bound.max_eq_or x.ub y.ub with e | e <;> simp only [e]
      · exact hx.2.2.2
      · exact hy.2.2.2

theorem join_idem {x : Itv} (hx : StoredItv x) : join x x = x := by
  rw [join_eq hx.2.1 hx.2.1, Bound.min_self, Bound.max_self]

theorem join_top_left {y : Itv} (hy : y.isBottom = false) : join top y = top := by
  rw [join_eq isBottom_top hy]
  simp [top, Bound.min_ninf_left, Bound.max_pinf_left]

theorem join_top_right {x : Itv} (hx : x.isBottom = false) : join x top = top := by
  rw [join_eq hx isBottom_top]
  simp [top, Bound.min_ninf_right, Bound.max_pinf_right]

/-! ### widening -/

theorem widen_eq {x y : Itv} (hx : x.isBottom = false) (hy : y.isBottom = false) :
    widen x y = ⟨if Bound.lt y.lb x.lb then ninf else x.lb, if Bound.lt x.ub y.ub then pinf else x.ub⟩ := by
  unfold widen
  simp only [hx, hy, Bool.false_eq_true, if_false]
  apply mk'_of_le
  have h := le_of_not_isBottom hx
  split <;> split <;> simp [h]

theorem widen_pres {x y : Itv} (hx : StoredItv x) (hy : StoredItv y) (h : (widen x y).isTop = false) :
    StoredItv (widen x y) := by
  refine ⟨h, ?_, ?_⟩
  · rw [widen_eq hx.2.1 hy.2.1]
    have h := le_of_not_isBottom hx.2.1
    simp only [isBottom, Bound.gt, Bool.not_eq_false']
    split <;> split <;> simp [h]
  · rw [widen_eq hx.2.1 hy.2.1]
    constructor
    · simp only; split
      · simp
      · exact hx.2.2.1
    · simp only; split
      · simp
      · exact hx.2.2.2

theorem widen_idem {x : Itv} (hx : StoredItv x) : widen x x = x := by
  rw [widen_eq hx.2.1 hx.2.1, Bound.lt_irrefl, Bound.lt_irrefl]; rfl

theorem widen_top_left {y : Itv} (hy : y.isBottom = false) : widen top y = top := by
  rw [widen_eq isBottom_top hy]
  simp only [top, Itv.mk.injEq]
  exact ⟨ite_self _, ite_self _⟩

theorem widen_top_right {x : Itv} (hx : x.isBottom = false) (hw : x.WF) : widen x top = top := by
  rw [widen_eq hx isBottom_top]
  obtain ⟨l, u⟩ := x
  obtain ⟨h1, h2⟩ := hw
  cases l <;> cases u <;> simp_all [top, Bound.lt, Bound.ge]

/-! ### meet -/

theorem meet_eq {x y : Itv} (hx : x.isBottom = false) (hy : y.isBottom = false)
    (h : (meet x y).isBottom = false) : meet x y = ⟨Bound.max x.lb y.lb, Bound.min x.ub y.ub⟩ := by
  unfold meet at h ⊢
  simp only [hx, hy, Bool.or_self, Bool.false_eq_true, if_false] at h ⊢
  rw [isBottom_mk'] at h
  exact mk'_of_le (by simpa using h)

theorem meet_pres {x y : Itv} (hx : StoredItv x) (hy : StoredItv y) (h : (meet x y).isBottom = false) :
    StoredItv (meet x y) := by
  have e := meet_eq hx.2.1 hy.2.1 h
  have hwf : (meet x y).WF := by
    rw [e]
    constructor
    · rcases Bound.max_eq_or x.lb y.lb with e | e <;> simp only [e]
      · exact hx.2.2.1
      · exact hy.2.2.1
    · rcases Bound.min_eq_or x.ub y.ub with e | e <;> simp only [e]
      · exact hx.2.2.2
      · exact hy.2.2.2
  refine ⟨?_, h, hwf⟩
  cases ht : (meet x y).isTop
  · rfl
  · exfalso
    have := eq_top_of_isTop ht hwf
    rw [e] at this
    simp only [top, Itv.mk.injEq] at this
    obtain ⟨h1, h2⟩ := this
    -- max of the lower bounds is -oo, min of the upper bounds is +oo: x itself is top
    have a1 : x.lb = ninf := Bound.le_ninf_iff.mp (h1 ▸ Bound.le_max_left x.lb y.lb)
    have a2 : x.ub = pinf := Bound.pinf_le_iff.mp (h2 ▸ Bound.min_le_left x.ub y.ub)
    exact StoredItv.lb_ub hx ⟨a1, a2⟩

theorem meet_idem {x : Itv} (hx : StoredItv x) : meet x x = x := by
  unfold meet
  simp only [hx.2.1, Bool.or_self, Bool.false_eq_true, if_false, Bound.max_self, Bound.min_self]
  exact mk'_self hx.2.1

theorem meet_top_left {y : Itv} (hy : y.isBottom = false) : meet top y = y := by
  unfold meet
  simp only [isBottom_top, hy, Bool.or_self, Bool.false_eq_true, if_false, top, Bound.max_ninf_left,
    Bound.min_pinf_left]
  exact mk'_self hy

theorem meet_top_right {x : Itv} (hx : x.isBottom = false) : meet x top = x := by
  unfold meet
  simp only [isBottom_top, hx, Bool.or_self, Bool.false_eq_true, if_false, top, Bound.max_ninf_right,
    Bound.min_pinf_right]
  exact mk'_self hx

/-! ### narrowing -/

theorem narrow_eq {x y : Itv} (hx : x.isBottom = false) (hy : y.isBottom = false)
    (h : (narrow x y).isBottom = false) :
    narrow x y = ⟨if x.lb.isInfinite && y.lb.isFinite then y.lb else x.lb,
                  if x.ub.isInfinite && y.ub.isFinite then y.ub else x.ub⟩ := by
  unfold narrow at h ⊢
  simp only [hx, hy, Bool.or_self, Bool.false_eq_true, if_false] at h ⊢
  rw [isBottom_mk'] at h
  exact mk'_of_le (by simpa using h)

theorem narrow_pres {x y : Itv} (hx : StoredItv x) (hy : StoredItv y) (h : (narrow x y).isBottom = false) :
    StoredItv (narrow x y) := by
  have e := narrow_eq hx.2.1 hy.2.1 h
  obtain ⟨xl, xu⟩ := x
  obtain ⟨yl, yu⟩ := y
  obtain ⟨hx1, hx2, hx3, hx4⟩ := hx
  obtain ⟨hy1, hy2, hy3, hy4⟩ := hy
  refine ⟨?_, h, ?_⟩
  · rw [e]
    cases xl <;> cases xu <;> cases yl <;> cases yu <;>
      simp_all [isTop, Bound.isInfinite, Bound.isFinite]
  · rw [e]
    cases xl <;> cases xu <;> cases yl <;> cases yu <;>
      simp_all [Itv.WF, Bound.isInfinite, Bound.isFinite]

theorem narrow_idem {x : Itv} (hx : StoredItv x) : narrow x x = x := by
  unfold narrow
  simp only [hx.2.1, Bool.or_self, Bool.false_eq_true, if_false]
  have e1 : (x.lb.isInfinite && x.lb.isFinite) = false := by cases x.lb <;> rfl
  have e2 : (x.ub.isInfinite && x.ub.isFinite) = false := by cases x.ub <;> rfl
  simp only [e1, e2, Bool.false_eq_true, if_false]
  exact mk'_self hx.2.1

theorem narrow_top_left {y : Itv} (hy : StoredItv y) : narrow top y = y := by
  unfold narrow
  simp only [isBottom_top, hy.2.1, Bool.or_self, Bool.false_eq_true, if_false]
  obtain ⟨yl, yu⟩ := y
  obtain ⟨_, hb, h1, h2⟩ := hy
  have : mk' yl yu = ⟨yl, yu⟩ := mk'_self (x := ⟨yl, yu⟩) hb
  cases yl <;> cases yu <;> simp_all [top, Bound.isInfinite, Bound.isFinite]

theorem narrow_top_right {x : Itv} (hx : x.isBottom = false) : narrow x top = x := by
  unfold narrow
  simp only [isBottom_top, hx, Bool.or_self, Bool.false_eq_true, if_false, top, Bound.isFinite,
    Bound.isInfinite, Bool.not_true, Bool.and_false, Bool.false_eq_true, if_false]
  exact mk'_self hx

/-! ### order, equality -/

theorem leq_top_left {y : Itv} (hy : StoredItv y) : leq top y = false := by
  unfold leq
  simp only [isBottom_top, hy.2.1, Bool.false_eq_true, if_false, top]
  cases h : (Bound.le y.lb ninf && Bound.le pinf y.ub)
  · rfl
  · exfalso
    simp only [Bool.and_eq_true] at h
    exact StoredItv.lb_ub hy ⟨Bound.le_ninf_iff.mp h.1, Bound.pinf_le_iff.mp h.2⟩

theorem beq_sound {x y : Itv} (hy : y.isBottom = false) (h : beq x y = true) : x = y := by
  unfold beq at h
  split at h
  · rw [hy] at h; cases h
  · obtain ⟨xl, xu⟩ := x
    obtain ⟨yl, yu⟩ := y
    simp only [Bool.and_eq_true, beq_iff_eq] at h
    simp [h.1, h.2]

theorem isTop_false_of_stored {x : Itv} (h : StoredItv x) : itvLattice.isTop x = false := h.1
theorem isBottom_false_of_stored {x : Itv} (h : StoredItv x) : itvLattice.isBottom x = false := h.2.1

end Itv
end Crab
