import CrabProofs.Lemmas.FwdBwdSem

/-!
  The refinement loop of the forward+backward model: what `discharge` marks, what `refineAll`
  keeps, the loop invariant (`ErrCoverT` of the assumption table), the result of `runFB`.
-/
namespace Crab
namespace Analysis
open Crab.IR

variable {A : Type}

/-- no execution from `Init` that arrives at block `m` violates an assertion afterwards
    (in `m` or later) -/
def SafeBlock (p : Program) (Init : State → Prop) (m : Nat) : Prop :=
  ∀ σ l, Arrives p Init m σ l → ¬ FailsFrom p m σ

/-- the hypotheses about the domain and the two analyses under which the result is sound:
    `top`, `is_bottom`, `&&` are sound; the assumptions supplied by the caller hold on the
    error-reaching states; the forward pass run with assumptions that hold on the error-reaching
    states returns invariants that hold on them (C01, see `C02.refined_forward_sound`); the
    backward pass refined with such invariants returns at every block a value containing the
    states from which an assertion violation is reachable along an execution consistent with the
    invariants (the conclusion of `C11.bwd_precondition_sound`). -/
structure FBSound (γ : A → State → Prop) (x : FBCtx A) (p : Program) (Init : State → Prop) : Prop where
  top_sound : ∀ σ, γ x.ops.top σ
  isBottom_sound : ∀ a σ, x.ops.isBottom a = true → ¬ γ a σ
  meet_sound : ∀ a b σ, γ a σ → γ b σ → γ (x.ops.meet a b) σ
  asm_cover : ErrCoverT p Init γ x.assumptions
  fwd_cover : ∀ T, ErrCoverT p Init γ T → ErrCover p Init γ (x.fwd T)
  bwd_sound : ∀ T, ErrCoverT p Init γ T → ∀ n σ,
    CoFail p (fun n s => γ (x.fwd T n) s) n σ → γ (x.bwd (x.fwd T) n) σ

/-- a block whose table entry is bottom: nothing it dominates can fail -/
theorem botAt_dominates_safe (γ : A → State → Prop) (o : FBOps A) (p : Program) (Init : State → Prop)
    (hbot : ∀ a σ, o.isBottom a = true → ¬ γ a σ) (T : AsmTable A) (hT : ErrCoverT p Init γ T)
    (d m : Nat) (hb : botAt o T d = true) (hd : Dominates (progGraph p) d m) : SafeBlock p Init m := by
  intro σ l ha hf
  have hmem := hd l (arrives_path p Init m σ l ha)
  obtain ⟨σd, he⟩ := arrives_through p Init m σ l ha d hmem hf
  unfold botAt at hb
  cases hv : T d with
  | none => rw [hv] at hb; cases hb
  | some v =>
    rw [hv] at hb
    exact hbot v σd hb (hT d v σd hv he)

theorem dischargeFold_proved (dom : Nat → Nat → Bool) (bot : Nat → Bool) :
    ∀ (nodes : List Nat) (st : Pending) (kv : Nat × Nat),
      kv ∈ (nodes.foldl (dischargeStep dom bot) st).proved →
      kv ∈ st.proved ∨ (kv ∈ st.unproven ∧ ∃ n, n ∈ nodes ∧ bot n = true ∧ dom n kv.1 = true) := by
  intro nodes
  induction nodes with
  | nil => intro st kv h; exact Or.inl h
  | cons n ns ih =>
    intro st kv h
    simp only [List.foldl_cons] at h
    rcases ih _ kv h with h1 | ⟨h1, k, hk, hb, hd⟩
    · unfold dischargeStep at h1
      split at h1
      · rename_i hbn
        simp only [List.mem_append, List.mem_filter] at h1
        rcases h1 with h1 | ⟨h1, h2⟩
        · exact Or.inl h1
        · exact Or.inr ⟨h1, n, by simp, hbn, h2⟩
      · exact Or.inl h1
    · right
      refine ⟨?_, k, List.mem_cons_of_mem _ hk, hb, hd⟩
      unfold dischargeStep at h1
      split at h1
      · simp only [List.mem_filter] at h1; exact h1.1
      · exact h1

/-- what `discharge_assertions` marks: an assertion of the list it was given, located in a block
    that is a proper descendant, in the tree, of a block of the CFG whose entry is bottom — or
    any assertion of the list when there is no tree and the entry of the entry block is bottom -/
theorem discharge_proved (o : FBOps A) (tree : List (Nat × List Nat)) (nodes : List Nat) (entry : Nat)
    (asm : AsmTable A) (asserts : List (Nat × Nat)) (kv : Nat × Nat)
    (h : kv ∈ (discharge o tree nodes entry asm ⟨asserts, []⟩).proved) :
    kv ∈ asserts ∧
    ((∃ n, n ∈ nodes ∧ botAt o asm n = true ∧ dominates tree (tree.length + 1) n kv.1 = true) ∨
     (tree = [] ∧ botAt o asm entry = true)) := by
  unfold discharge at h
  split at h
  · simp at h
  · split at h
    · rcases dischargeFold_proved _ _ nodes _ kv h with h1 | ⟨h1, n, hn, hb, hd⟩
      · simp at h1
      · exact ⟨h1, Or.inl ⟨n, hn, hb, hd⟩⟩
    · rename_i ht
      split at h
      · rename_i hb
        simp only [List.nil_append] at h
        refine ⟨h, Or.inr ⟨?_, hb⟩⟩
        cases tree with
        | nil => rfl
        | cons _ _ => simp at ht
      · simp at h

/-! ### converse: everything that matches the rule is marked -/

theorem dischargeStep_proved_mono (dom : Nat → Nat → Bool) (bot : Nat → Bool) (st : Pending) (n : Nat)
    (kv : Nat × Nat) (h : kv ∈ st.proved) : kv ∈ (dischargeStep dom bot st n).proved := by
  unfold dischargeStep
  split
  · exact List.mem_append_left _ h
  · exact h

theorem dischargeFold_proved_mono (dom : Nat → Nat → Bool) (bot : Nat → Bool) :
    ∀ (nodes : List Nat) (st : Pending) (kv : Nat × Nat), kv ∈ st.proved →
      kv ∈ (nodes.foldl (dischargeStep dom bot) st).proved := by
  intro nodes
  induction nodes with
  | nil => intro st kv h; exact h
  | cons n ns ih =>
    intro st kv h
    simp only [List.foldl_cons]
    exact ih _ kv (dischargeStep_proved_mono dom bot st n kv h)

theorem dischargeFold_complete (dom : Nat → Nat → Bool) (bot : Nat → Bool) :
    ∀ (nodes : List Nat) (st : Pending) (kv : Nat × Nat), kv ∈ st.unproven →
      (∃ n, n ∈ nodes ∧ bot n = true ∧ dom n kv.1 = true) →
      kv ∈ (nodes.foldl (dischargeStep dom bot) st).proved := by
  intro nodes
  induction nodes with
  | nil => intro st kv _ ⟨n, hn, _⟩; simp at hn
  | cons n ns ih =>
    intro st kv hu ⟨k, hk, hb, hd⟩
    simp only [List.foldl_cons]
    by_cases hc : bot n = true ∧ dom n kv.1 = true
    · apply dischargeFold_proved_mono
      unfold dischargeStep
      rw [if_pos hc.1]
      exact List.mem_append_right _ (List.mem_filter.2 ⟨hu, hc.2⟩)
    · have hk' : k ∈ ns := by
        simp only [List.mem_cons] at hk
        rcases hk with hk | hk
        · subst hk; exact absurd ⟨hb, hd⟩ hc
        · exact hk
      apply ih _ kv _ ⟨k, hk', hb, hd⟩
      unfold dischargeStep
      split
      · rename_i hbn
        refine List.mem_filter.2 ⟨hu, ?_⟩
        cases hdn : dom n kv.1 with
        | false => rfl
        | true => exact absurd ⟨hbn, hdn⟩ hc
      · exact hu

/-- `discharge_assertions` marks EXACTLY: with a non-empty tree, the assertions located in a block
    that is a proper descendant in the tree of a block of the CFG whose table entry is bottom; with
    an empty tree, all assertions when the entry of the entry block is bottom, none otherwise -/
theorem discharge_exact (o : FBOps A) (tree : List (Nat × List Nat)) (nodes : List Nat) (entry : Nat)
    (asm : AsmTable A) (asserts : List (Nat × Nat)) (kv : Nat × Nat) :
    kv ∈ (discharge o tree nodes entry asm ⟨asserts, []⟩).proved ↔
    kv ∈ asserts ∧
    ((tree ≠ [] ∧ ∃ n, n ∈ nodes ∧ botAt o asm n = true ∧ dominates tree (tree.length + 1) n kv.1 = true) ∨
     (tree = [] ∧ botAt o asm entry = true)) := by
  constructor
  · intro h
    obtain ⟨h1, h2⟩ := discharge_proved o tree nodes entry asm asserts kv h
    refine ⟨h1, ?_⟩
    rcases h2 with ⟨n, hn, hb, hd⟩ | h2
    · left
      refine ⟨?_, n, hn, hb, hd⟩
      intro ht
      rw [ht] at hd
      simp [dominates, List.lookup] at hd
    · exact Or.inr h2
  · intro ⟨h1, h2⟩
    have hne : (⟨asserts, []⟩ : Pending).unproven.isEmpty = false := by
      cases asserts with
      | nil => simp at h1
      | cons _ _ => rfl
    unfold discharge
    rw [if_neg (by simp [hne])]
    rcases h2 with ⟨ht, hw⟩ | ⟨ht, hb⟩
    · have : (!tree.isEmpty) = true := by
        cases tree with
        | nil => exact absurd rfl ht
        | cons _ _ => rfl
      rw [if_pos this]
      exact dischargeFold_complete _ _ nodes _ kv h1 hw
    · subst ht
      simp only [List.isEmpty_nil, Bool.not_true, Bool.false_eq_true, if_false]
      rw [if_pos hb]
      simpa using h1

/-- `refine` keeps the invariant: meeting values that hold on the error-reaching states -/
theorem refineAll_cover (γ : A → State → Prop) (o : FBOps A) (p : Program) (Init : State → Prop)
    (hmeet : ∀ a b σ, γ a σ → γ b σ → γ (o.meet a b) σ) (nodes : List Nat) (old : AsmTable A)
    (bv : Nat → A) (hold : ErrCoverT p Init γ old) (hbv : ErrCover p Init γ bv) :
    ErrCoverT p Init γ (refineAll o nodes old bv).2 := by
  intro b a σ hb he
  simp only [refineAll] at hb
  split at hb
  · injection hb with hb
    rw [← hb]
    unfold refineNode
    cases ho : old b with
    | none => exact hbv b σ he
    | some ov => exact hmeet ov (bv b) σ (hold b ov σ ho he) (hbv b σ he)
  · cases hb

/-- the backward values computed from covering forward invariants cover the error-reaching
    states -/
theorem bwd_cover (γ : A → State → Prop) (x : FBCtx A) (p : Program) (Init : State → Prop)
    (hs : FBSound γ x p Init) (T : AsmTable A) (hT : ErrCoverT p Init γ T) :
    ErrCover p Init γ (x.bwd (x.fwd T)) :=
  fun b σ he => hs.bwd_sound T hT b σ (errArr_coFail p Init γ (x.fwd T) (hs.fwd_cover T hT) b σ he)

/-- a sound result: the invariants hold on the error-reaching states and the blocks of the
    discharged assertions cannot fail -/
def GoodResult (γ : A → State → Prop) (p : Program) (Init : State → Prop) (r : FBResult A) : Prop :=
  ErrCover p Init γ r.pre ∧ ∀ kv, kv ∈ r.proved → kv ∈ gatherAsserts p ∧ SafeBlock p Init kv.1

/-- one iteration keeps the loop invariant or ends with a sound result -/
theorem fbIter_spec (γ : A → State → Prop) (x : FBCtx A) (p : Program) (Init : State → Prop)
    (hs : FBSound γ x p Init) (hce : x.cfgEntry = p.entry) (tree : List (Nat × List Nat))
    (htree : tree = idomTree (progGraph p) ∨ tree = []) (onlyFwd : Bool) (iters : Nat)
    (asm : AsmTable A) (stored : Nat → A) (hasm : ErrCoverT p Init γ asm)
    (hst : ErrCover p Init γ stored) :
    match fbIter x p tree onlyFwd (gatherAsserts p) iters asm stored with
    | .done r => GoodResult γ p Init r
    | .again asm' stored' => ErrCoverT p Init γ asm' ∧ ErrCover p Init γ stored' := by
  have hF : ErrCover p Init γ (x.fwd asm) := hs.fwd_cover asm hasm
  have hst' : ErrCover p Init γ (if (!x.params.useRefined && iters == 1) = true then x.fwd asm else stored) := by
    split
    · exact hF
    · exact hst
  have hpre : ErrCover p Init γ (if x.params.useRefined = true then x.fwd asm
      else (if (!x.params.useRefined && iters == 1) = true then x.fwd asm else stored)) := by
    split
    · exact hF
    · exact hst'
  unfold fbIter
  simp only
  by_cases h1 : (onlyFwd || (gatherAsserts p).isEmpty) = true
  · rw [if_pos h1]
    exact ⟨hpre, fun kv h => by simp at h⟩
  · rw [if_neg h1]
    have hB := bwd_cover γ x p Init hs asm hasm
    have hnew := refineAll_cover γ x.ops p Init hs.meet_sound (blockIds p) asm _ hasm hB
    have hasm' : ErrCoverT p Init γ
        (if (refineAll x.ops (blockIds p) asm (x.bwd (x.fwd asm))).1 = true
          then (refineAll x.ops (blockIds p) asm (x.bwd (x.fwd asm))).2 else asm) := by
      split
      · exact hnew
      · exact hasm
    by_cases h2 : (!(refineAll x.ops (blockIds p) asm (x.bwd (x.fwd asm))).1 ||
        decide (iters > x.params.maxRefine)) = true
    · rw [if_pos h2]
      refine ⟨hpre, fun kv h => ?_⟩
      obtain ⟨hin, hcase⟩ := discharge_proved x.ops tree (blockIds p) x.cfgEntry _ _ kv h
      refine ⟨hin, ?_⟩
      rcases hcase with ⟨n, _, hb, hd⟩ | ⟨_, hb⟩
      · rcases htree with ht | ht
        · rw [ht] at hd
          exact botAt_dominates_safe γ x.ops p Init hs.isBottom_sound _ hasm' n kv.1 hb
            (dominates_sound (progGraph p) _ n kv.1 hd)
        · rw [ht] at hd; simp [dominates, List.lookup] at hd
      · rw [hce] at hb
        exact botAt_dominates_safe γ x.ops p Init hs.isBottom_sound _ hasm' p.entry kv.1 hb
          (dominates_entry (progGraph p) kv.1)
    · rw [if_neg h2]
      exact ⟨hasm', hst'⟩

theorem fbLoop_spec (γ : A → State → Prop) (x : FBCtx A) (p : Program) (Init : State → Prop)
    (hs : FBSound γ x p Init) (hce : x.cfgEntry = p.entry) (tree : List (Nat × List Nat))
    (htree : tree = idomTree (progGraph p) ∨ tree = []) (onlyFwd : Bool) :
    ∀ (left iters : Nat) (asm : AsmTable A) (stored : Nat → A), ErrCoverT p Init γ asm →
      ErrCover p Init γ stored →
      GoodResult γ p Init (fbLoop x p tree onlyFwd (gatherAsserts p) left iters asm stored) := by
  intro left
  induction left with
  | zero =>
    intro iters asm stored hasm hst
    have h := fbIter_spec γ x p Init hs hce tree htree onlyFwd iters asm stored hasm hst
    unfold fbLoop
    split
    · rename_i r hr; rw [hr] at h; exact h
    · rename_i a s hr; rw [hr] at h; exact ⟨h.2, fun kv hk => by simp at hk⟩
  | succ left ih =>
    intro iters asm stored hasm hst
    have h := fbIter_spec γ x p Init hs hce tree htree onlyFwd iters asm stored hasm hst
    unfold fbLoop
    split
    · rename_i r hr; rw [hr] at h; exact h
    · rename_i a s hr; rw [hr] at h; exact ih (iters + 1) a s h.1 h.2

/-- the result of `run` is sound -/
theorem runFB_good (γ : A → State → Prop) (x : FBCtx A) (p : Program) (Init : State → Prop)
    (hs : FBSound γ x p Init) (hce : x.cfgEntry = p.entry) : GoodResult γ p Init (runFB x p) := by
  unfold runFB
  simp only
  apply fbLoop_spec γ x p Init hs hce
  · split
    · exact Or.inl (by rw [hce]; rfl)
    · exact Or.inr rfl
  · exact hs.asm_cover
  · exact fun b σ _ => hs.top_sound σ

/-! ### without `use_refined_invariants` the stored invariants are those of the first pass -/

theorem fbIter_stored_first (x : FBCtx A) (p : Program) (tree : List (Nat × List Nat)) (onlyFwd : Bool)
    (asserts : List (Nat × Nat)) (hu : x.params.useRefined = false) (iters : Nat) (asm : AsmTable A)
    (stored : Nat → A)
    (h : (iters = 1 ∧ asm = x.assumptions) ∨ (1 < iters ∧ stored = x.fwd x.assumptions)) :
    match fbIter x p tree onlyFwd asserts iters asm stored with
    | .done r => r.pre = x.fwd x.assumptions
    | .again _ stored' => stored' = x.fwd x.assumptions := by
  have hst : (if (!x.params.useRefined && iters == 1) = true then x.fwd asm else stored) =
      x.fwd x.assumptions := by
    rcases h with ⟨h1, h2⟩ | ⟨h1, h2⟩
    · simp [hu, h1, h2]
    · have h3 : iters ≠ 1 := by omega
      simp [hu, h3, h2]
  rw [hu] at hst
  unfold fbIter
  simp only
  by_cases h1 : (onlyFwd || asserts.isEmpty) = true
  · rw [if_pos h1]
    simp only [hu, Bool.false_eq_true, if_false]
    exact hst
  · rw [if_neg h1]
    by_cases h2 : (!(refineAll x.ops (blockIds p) asm (x.bwd (x.fwd asm))).1 ||
        decide (iters > x.params.maxRefine)) = true
    · rw [if_pos h2]
      simp only [hu, Bool.false_eq_true, if_false]
      exact hst
    · rw [if_neg h2]
      simp only [hu]
      exact hst

theorem fbLoop_stored_first (x : FBCtx A) (p : Program) (tree : List (Nat × List Nat)) (onlyFwd : Bool)
    (asserts : List (Nat × Nat)) (hu : x.params.useRefined = false) :
    ∀ (left iters : Nat) (asm : AsmTable A) (stored : Nat → A),
      ((iters = 1 ∧ asm = x.assumptions) ∨ (1 < iters ∧ stored = x.fwd x.assumptions)) →
      (fbLoop x p tree onlyFwd asserts left iters asm stored).pre = x.fwd x.assumptions := by
  intro left
  induction left with
  | zero =>
    intro iters asm stored h
    have hi := fbIter_stored_first x p tree onlyFwd asserts hu iters asm stored h
    unfold fbLoop
    split
    · rename_i r hr; rw [hr] at hi; exact hi
    · rename_i a s hr; rw [hr] at hi; exact hi
  | succ left ih =>
    intro iters asm stored h
    have hi := fbIter_stored_first x p tree onlyFwd asserts hu iters asm stored h
    unfold fbLoop
    split
    · rename_i r hr; rw [hr] at hi; exact hi
    · rename_i a s hr
      rw [hr] at hi
      exact ih (iters + 1) a s (Or.inr ⟨by omega, hi⟩)

/-- `use_refined_invariants = false`: `get_pre` answers with the invariants of the first forward
    pass, run with the caller's assumptions -/
theorem runFB_pre_first (x : FBCtx A) (p : Program) (hu : x.params.useRefined = false) :
    (runFB x p).pre = x.fwd x.assumptions := by
  unfold runFB
  exact fbLoop_stored_first x p _ _ _ hu _ 1 _ _ (Or.inl ⟨rfl, rfl⟩)

/-- the iteration run when `iters > max_refine_iterations` leaves the loop: the fallback of
    `fbLoop` for `left = 0` is never taken from `runFB` (there `left + iters = maxRefine + 1`) -/
theorem fbIter_done_of_limit (x : FBCtx A) (p : Program) (tree : List (Nat × List Nat)) (onlyFwd : Bool)
    (asserts : List (Nat × Nat)) (iters : Nat) (asm : AsmTable A) (stored : Nat → A)
    (h : iters > x.params.maxRefine) :
    ∃ r, fbIter x p tree onlyFwd asserts iters asm stored = .done r := by
  unfold fbIter
  simp only
  by_cases h1 : (onlyFwd || asserts.isEmpty) = true
  · rw [if_pos h1]; exact ⟨_, rfl⟩
  · rw [if_neg h1]
    have h2 : (!(refineAll x.ops (blockIds p) asm (x.bwd (x.fwd asm))).1 ||
        decide (iters > x.params.maxRefine)) = true := by simp [h]
    rw [if_pos h2]; exact ⟨_, rfl⟩

end Analysis
end Crab
