import CrabModel.Transform.Dce
import CrabProofs.Lemmas.TIRLive

/-!
  One round of dead-code elimination with a live-out map that contains the specification
  liveness preserves executions:
    * `dce_forward`  : every execution of the original that does not end in a division by zero
                       is an execution of the result (same events, same outcome);
    * `dce_backward` : every execution of the result is an execution of the original, provided
                       the deleted statements cannot stop (`scanTotal`: no deleted division by
                       a variable or by the constant 0).
-/
namespace Crab
namespace TIR

/-! ### structure of a program whose blocks are mapped -/

def Prog.mapBlocks (P : Prog) (f : Block → Block) : Prog := { P with blocks := P.blocks.map f }

theorem mapBlocks_block? (P : Prog) (f : Block → Block) (hf : ∀ b, (f b).label = b.label) (l : Label) :
    (P.mapBlocks f).block? l = (P.block? l).map f := by
  unfold Prog.block? Prog.mapBlocks
  exact find_map_label P.blocks f hf l

theorem mapBlocks_succsOf (P : Prog) (f : Block → Block) (hf : ∀ b, (f b).label = b.label)
    (hs : ∀ b, (f b).succ = b.succ) (l : Label) : (P.mapBlocks f).succsOf l = P.succsOf l := by
  unfold Prog.succsOf
  rw [mapBlocks_block? P f hf l]
  cases P.block? l with
  | none => rfl
  | some b => simp [hs]

theorem mapBlocks_stmtsOf (P : Prog) (f : Block → Block) (hf : ∀ b, (f b).label = b.label)
    (g : Label → List Stmt → List Stmt) (hg : ∀ b, (f b).stmts = g b.label b.stmts) (hnil : ∀ l, g l [] = [])
    (l : Label) : (P.mapBlocks f).stmtsOf l = g l (P.stmtsOf l) := by
  unfold Prog.stmtsOf
  rw [mapBlocks_block? P f hf l]
  cases hb : P.block? l with
  | none => simp [hnil]
  | some b =>
    have : b.label = l := by
      unfold Prog.block? at hb
      simpa using List.find?_some hb
    simp [hg, this]

theorem mapBlocks_isExit (P : Prog) (f : Block → Block) (l : Label) :
    (P.mapBlocks f).isExit l = P.isExit l := rfl

theorem mapBlocks_outputs (P : Prog) (f : Block → Block) : (P.mapBlocks f).outputs = P.outputs := rfl

def dceF (L : LiveMap) (b : Block) : Block := { b with stmts := (dceScan b.stmts (L b.label)).1 }

theorem dceRound_eq (P : Prog) (L : LiveMap) : dceRound P L = P.mapBlocks (dceF L) := rfl

theorem dceRound_succsOf (P : Prog) (L : LiveMap) (l : Label) : (dceRound P L).succsOf l = P.succsOf l := by
  rw [dceRound_eq]; exact mapBlocks_succsOf P (dceF L) (fun _ => rfl) (fun _ => rfl) l

theorem dceRound_stmtsOf (P : Prog) (L : LiveMap) (l : Label) :
    (dceRound P L).stmtsOf l = (dceScan (P.stmtsOf l) (L l)).1 := by
  rw [dceRound_eq]
  exact mapBlocks_stmtsOf P (dceF L) (fun _ => rfl) (fun l s => (dceScan s (L l)).1) (fun _ => rfl) (fun _ => rfl) l

/-! ### the scan -/

theorem dceScan_snd_cons (s : Stmt) (rest : List Stmt) (S : VarSet) :
    (dceScan (s :: rest) S).2 = VarSet.diff (dceScan rest S).2 s.defs ++ s.uses := by
  simp only [dceScan]; split <;> rfl

theorem dceScan_fst_dead (s : Stmt) (rest : List Stmt) (S : VarSet)
    (h : s.isDeadFor (dceScan rest S).2 = true) : (dceScan (s :: rest) S).1 = (dceScan rest S).1 := by
  simp [dceScan, h]

theorem dceScan_fst_kept (s : Stmt) (rest : List Stmt) (S : VarSet)
    (h : s.isDeadFor (dceScan rest S).2 = false) : (dceScan (s :: rest) S).1 = s :: (dceScan rest S).1 := by
  simp [dceScan, h]

/-- a statement defines at most one variable -/
theorem defs_single (s : Stmt) : s.defs = [] ∨ ∃ d, s.defs = [d] := by
  cases s <;> simp [Stmt.defs]

/-- a deleted statement defines a variable, which is not live after it -/
theorem isDeadFor_spec {s : Stmt} {S : VarSet} (h : s.isDeadFor S = true) :
    ∃ d, s.defs = [d] ∧ d ∉ S := by
  simp only [Stmt.isDeadFor, includedDefs, Bool.and_eq_true, Bool.not_eq_eq_eq_not, Bool.not_true] at h
  rcases defs_single s with h0 | ⟨d, hd⟩
  · rw [h0] at h; simp at h
  · refine ⟨d, hd, ?_⟩
    rw [hd] at h
    simpa using h.2

section
variable (P : Prog) (L : LiveMap) (hL : ∀ l x, LiveAt P [] l x → x ∈ L l)
include hL

/-- the live set of the scan contains the specification liveness -/
theorem liveAt_sub_scan {stmts : List Stmt} {l : Label} {x : Var} (h : LiveAt P stmts l x) :
    x ∈ (dceScan stmts (L l)).2 := by
  induction h with
  | @here s rest l x hu => rw [dceScan_snd_cons]; simp [hu]
  | @later s rest l x _ hd _ ih =>
    rw [dceScan_snd_cons]
    exact List.mem_append.mpr (Or.inl (VarSet.mem_diff.mpr ⟨ih, hd⟩))
  | @goto l l' x hne hmem h' _ => exact hL l x (LiveAt.goto hne hmem h')
  | @out l x hx hm => exact hL l x (LiveAt.out hx hm)

/-- skipping a deleted statement keeps the states in agreement on what is live afterwards -/
theorem agree_after_dead {s : Stmt} {rest : List Stmt} {l : Label} {σ σ1 σ' : State} {hv : Int} {ev : Option Event}
    (hdead : s.isDeadFor (dceScan rest (L l)).2 = true)
    (hstep : stepStmt s σ hv = .cont σ1 ev)
    (hag : ∀ y, LiveAt P (s :: rest) l y → σ y = σ' y) :
    ∀ y, LiveAt P rest l y → σ1 y = σ' y := by
  intro y hy
  obtain ⟨d, hd, hdn⟩ := isDeadFor_spec hdead
  have hyS := liveAt_sub_scan P L hL hy
  have hyd : y ∉ s.defs := by
    rw [hd]; intro hc
    simp only [List.mem_singleton] at hc
    subst hc
    exact hdn hyS
  have hnu : s.isUnreachable = false := by
    cases hu : s.isUnreachable with
    | false => rfl
    | true => rw [defs_unreachable hu] at hd; cases hd
  rw [stepStmt_frame s σ σ1 hv ev hstep y hyd]
  exact hag y (LiveAt.later hnu hyd hy)

theorem dce_forward {stmts : List Stmt} {l : Label} {σ : State} {t : List Event} {o : Outcome}
    (h : Exec P stmts l σ t o) (ho : o ≠ .divzero) :
    ∀ σ' : State, (∀ y, LiveAt P stmts l y → σ y = σ' y) →
      Exec (dceRound P L) (dceScan stmts (L l)).1 l σ' t o := by
  induction h with
  | @exit l σ hex =>
    intro σ' hag
    have : P.outputs.map σ = P.outputs.map σ' := by
      apply List.map_congr_left
      intro y hy
      exact hag y (LiveAt.out hex hy)
    rw [this]
    exact Exec.exit (P := dceRound P L) hex
  | @goto l l' σ t o hex hmem _ ih =>
    intro σ' hag
    have h1 := ih ho σ' (fun y hy => hag y (LiveAt.goto hex hmem hy))
    rw [← dceRound_stmtsOf] at h1
    exact Exec.goto (P := dceRound P L) hex (by rw [dceRound_succsOf]; exact hmem) h1
  | @stuck l σ hex hs =>
    intro σ' _
    exact Exec.stuck (P := dceRound P L) hex (by rw [dceRound_succsOf]; exact hs)
  | @cont s rest l σ σ1 ev t o hv hstep _ ih =>
    intro σ' hag
    cases hdead : s.isDeadFor (dceScan rest (L l)).2 with
    | true =>
      rw [dceScan_fst_dead s rest (L l) hdead]
      obtain ⟨d, hd, _⟩ := isDeadFor_spec hdead
      have hev : ev = none := stepStmt_def_noevent s σ σ1 hv ev hstep (by rw [hd]; simp)
      subst hev
      simpa [evs] using ih ho σ' (agree_after_dead P L hL hdead hstep hag)
    | false =>
      rw [dceScan_fst_kept s rest (L l) hdead]
      have hrel := stepStmt_agree s σ σ' hv (fun y hy => hag y (LiveAt.here hy))
      rw [hstep] at hrel
      cases hs' : stepStmt s σ' hv with
      | stop e o' => rw [hs'] at hrel; exact absurd hrel (by simp [StepRes.Rel])
      | cont σ1' ev' =>
        rw [hs'] at hrel
        obtain ⟨hev, hst⟩ := hrel
        subst hev
        have hnu : s.isUnreachable = false := by
          cases hu : s.isUnreachable with
          | false => rfl
          | true => rw [stepStmt_unreachable σ hv hu] at hstep; cases hstep
        refine Exec.cont hv hs' (ih ho σ1' ?_)
        intro y hy
        apply hst
        by_cases hd : y ∈ s.defs
        · exact Or.inl hd
        · exact Or.inr (hag y (LiveAt.later hnu hd hy))
  | @stop s rest l σ ev o hv hstep =>
    intro σ' hag
    cases hdead : s.isDeadFor (dceScan rest (L l)).2 with
    | true =>
      obtain ⟨d, hd, _⟩ := isDeadFor_spec hdead
      have := (stepStmt_def_stop s σ hv ev o hstep (by rw [hd]; simp)).2
      exact absurd this ho
    | false =>
      rw [dceScan_fst_kept s rest (L l) hdead]
      have hrel := stepStmt_agree s σ σ' hv (fun y hy => hag y (LiveAt.here hy))
      rw [hstep] at hrel
      cases hs' : stepStmt s σ' hv with
      | cont σ1' ev' => rw [hs'] at hrel; exact absurd hrel (by simp [StepRes.Rel])
      | stop e o' =>
        rw [hs'] at hrel
        obtain ⟨hev, ho'⟩ := hrel
        subst hev; subst ho'
        exact Exec.stop hv hs'

end

/-- every statement the scan deletes is total (cannot stop) -/
def scanTotal : List Stmt → VarSet → Bool
  | [], _ => true
  | s :: rest, S => scanTotal rest S && (!s.isDeadFor (dceScan rest S).2 || s.total)

/-- in every block -/
def dceTotal (P : Prog) (L : LiveMap) : Bool := P.blocks.all (fun b => scanTotal b.stmts (L b.label))

theorem dceTotal_stmtsOf {P : Prog} {L : LiveMap} (h : dceTotal P L = true) (l : Label) :
    scanTotal (P.stmtsOf l) (L l) = true := by
  unfold Prog.stmtsOf
  cases hb : P.block? l with
  | none => rfl
  | some b =>
    simp only
    unfold dceTotal at h
    rw [List.all_eq_true] at h
    unfold Prog.block? at hb
    have hl : b.label = l := by simpa using List.find?_some hb
    have := h b (List.mem_of_find?_eq_some hb)
    rw [hl] at this
    exact this

section
variable (P : Prog) (L : LiveMap) (hL : ∀ l x, LiveAt P [] l x → x ∈ L l)
include hL

/-- run the original silently through the deleted statements in front of the next kept one -/
theorem advance (l : Label) (σ' : State) :
    ∀ (stmts : List Stmt) (σ : State), (∀ y, LiveAt P stmts l y → σ y = σ' y) →
      scanTotal stmts (L l) = true →
      ∃ (stmts2 : List Stmt) (σ2 : State),
        (∀ t o, Exec P stmts2 l σ2 t o → Exec P stmts l σ t o) ∧
        (dceScan stmts2 (L l)).1 = (dceScan stmts (L l)).1 ∧
        (∀ y, LiveAt P stmts2 l y → σ2 y = σ' y) ∧
        scanTotal stmts2 (L l) = true ∧
        (stmts2 = [] ∨ ∃ s r, stmts2 = s :: r ∧ s.isDeadFor (dceScan r (L l)).2 = false) := by
  intro stmts
  induction stmts with
  | nil => intro σ hag ht; exact ⟨[], σ, fun _ _ h => h, rfl, hag, ht, Or.inl rfl⟩
  | cons s rest ih =>
    intro σ hag ht
    simp only [scanTotal, Bool.and_eq_true, Bool.or_eq_true, Bool.not_eq_eq_eq_not, Bool.not_true] at ht
    cases hdead : s.isDeadFor (dceScan rest (L l)).2 with
    | false =>
      refine ⟨s :: rest, σ, fun _ _ h => h, rfl, hag, ?_, Or.inr ⟨s, rest, rfl, hdead⟩⟩
      simp [scanTotal, ht.1, hdead]
    | true =>
      have htot : s.total = true := by
        rcases ht.2 with h | h
        · rw [hdead] at h; cases h
        · exact h
      obtain ⟨σ1, hstep⟩ := stepStmt_total s σ 0 htot
      have hag1 := agree_after_dead P L hL hdead hstep hag
      obtain ⟨stmts2, σ2, h1, h2, h3, h4, h5⟩ := ih σ1 hag1 ht.1
      refine ⟨stmts2, σ2, ?_, ?_, h3, h4, h5⟩
      · intro t o he
        have := Exec.cont (P := P) (l := l) 0 hstep (h1 t o he)
        simpa [evs] using this
      · rw [h2, dceScan_fst_dead s rest (L l) hdead]

theorem dce_backward (htot : dceTotal P L = true)
    {ss : List Stmt} {l : Label} {σ' : State} {t : List Event} {o : Outcome}
    (h : Exec (dceRound P L) ss l σ' t o) :
    ∀ (stmts : List Stmt) (σ : State), ss = (dceScan stmts (L l)).1 →
      (∀ y, LiveAt P stmts l y → σ y = σ' y) → scanTotal stmts (L l) = true →
      Exec P stmts l σ t o := by
  induction h with
  | @exit l σ' hex =>
    intro stmts σ hss hag ht
    obtain ⟨stmts2, σ2, h1, h2, h3, _, h5⟩ := advance P L hL l σ' stmts σ hag ht
    apply h1
    rcases h5 with rfl | ⟨s, r, rfl, hk⟩
    · have : P.outputs.map σ' = P.outputs.map σ2 := by
        apply List.map_congr_left
        intro y hy
        exact (h3 y (LiveAt.out hex hy)).symm
      show Exec P [] l σ2 [] (Outcome.exit ((dceRound P L).outputs.map σ'))
      rw [show (dceRound P L).outputs = P.outputs from rfl, this]
      exact Exec.exit hex
    · rw [← h2, dceScan_fst_kept s r (L l) hk] at hss; cases hss
  | @goto l l' σ' t o hex hmem _ ih =>
    intro stmts σ hss hag ht
    obtain ⟨stmts2, σ2, h1, h2, h3, _, h5⟩ := advance P L hL l σ' stmts σ hag ht
    apply h1
    rcases h5 with rfl | ⟨s, r, rfl, hk⟩
    · rw [dceRound_succsOf] at hmem
      refine Exec.goto hex hmem (ih (P.stmtsOf l') σ2 (dceRound_stmtsOf P L l') ?_ (dceTotal_stmtsOf htot l'))
      intro y hy
      exact h3 y (LiveAt.goto hex hmem hy)
    · rw [← h2, dceScan_fst_kept s r (L l) hk] at hss; cases hss
  | @stuck l σ' hex hs =>
    intro stmts σ hss hag ht
    obtain ⟨stmts2, σ2, h1, h2, _, _, h5⟩ := advance P L hL l σ' stmts σ hag ht
    apply h1
    rcases h5 with rfl | ⟨s, r, rfl, hk⟩
    · rw [dceRound_succsOf] at hs
      exact Exec.stuck hex hs
    · rw [← h2, dceScan_fst_kept s r (L l) hk] at hss; cases hss
  | @cont s' rest' l σ' σ1' ev t o hv hstep _ ih =>
    intro stmts σ hss hag ht
    obtain ⟨stmts2, σ2, h1, h2, h3, h4, h5⟩ := advance P L hL l σ' stmts σ hag ht
    apply h1
    rcases h5 with rfl | ⟨s, r, rfl, hk⟩
    · rw [← h2] at hss; simp [dceScan] at hss
    · rw [← h2, dceScan_fst_kept s r (L l) hk] at hss
      simp only [List.cons.injEq] at hss
      obtain ⟨rfl, hrest⟩ := hss
      have hrel := stepStmt_agree s' σ2 σ' hv (fun y hy => h3 y (LiveAt.here hy))
      rw [hstep] at hrel
      cases hs2 : stepStmt s' σ2 hv with
      | stop e o' => rw [hs2] at hrel; exact absurd hrel (by simp [StepRes.Rel])
      | cont σ3 ev' =>
        rw [hs2] at hrel
        obtain ⟨hev, hst⟩ := hrel
        subst hev
        have hnu : s'.isUnreachable = false := by
          cases hu : s'.isUnreachable with
          | false => rfl
          | true => rw [stepStmt_unreachable σ' hv hu] at hstep; cases hstep
        have ht' : scanTotal r (L l) = true := by
          simp only [scanTotal, Bool.and_eq_true] at h4; exact h4.1
        refine Exec.cont hv hs2 (ih r σ3 hrest ?_ ht')
        intro y hy
        apply hst
        by_cases hd : y ∈ s'.defs
        · exact Or.inl hd
        · exact Or.inr (h3 y (LiveAt.later hnu hd hy))
  | @stop s' rest' l σ' ev o hv hstep =>
    intro stmts σ hss hag ht
    obtain ⟨stmts2, σ2, h1, h2, h3, _, h5⟩ := advance P L hL l σ' stmts σ hag ht
    apply h1
    rcases h5 with rfl | ⟨s, r, rfl, hk⟩
    · rw [← h2] at hss; simp [dceScan] at hss
    · rw [← h2, dceScan_fst_kept s r (L l) hk] at hss
      simp only [List.cons.injEq] at hss
      obtain ⟨rfl, _⟩ := hss
      have hrel := stepStmt_agree s' σ2 σ' hv (fun y hy => h3 y (LiveAt.here hy))
      rw [hstep] at hrel
      cases hs2 : stepStmt s' σ2 hv with
      | cont σ3 ev' => rw [hs2] at hrel; exact absurd hrel (by simp [StepRes.Rel])
      | stop e o' =>
        rw [hs2] at hrel
        obtain ⟨hev, ho'⟩ := hrel
        subst hev; subst ho'
        exact Exec.stop hv hs2

end

/-! ### the whole pass: invariants of a round and iteration -/

theorem dceScan_subset (stmts : List Stmt) (S : VarSet) : ∀ s, s ∈ (dceScan stmts S).1 → s ∈ stmts := by
  induction stmts with
  | nil => intro s h; simp [dceScan] at h
  | cons a rest ih =>
    intro s h
    cases hd : a.isDeadFor (dceScan rest S).2 with
    | true => rw [dceScan_fst_dead a rest S hd] at h; exact List.mem_cons_of_mem _ (ih s h)
    | false =>
      rw [dceScan_fst_kept a rest S hd] at h
      rcases List.mem_cons.mp h with rfl | h
      · exact List.mem_cons_self
      · exact List.mem_cons_of_mem _ (ih s h)

theorem dceRound_labels (P : Prog) (L : LiveMap) : (dceRound P L).labels = P.labels := by
  simp [dceRound, Prog.labels, List.map_map, Function.comp_def]

/-- every statement that defines a variable is total (no division by a variable or by 0) -/
def Prog.defsTotal (P : Prog) : Bool :=
  P.blocks.all (fun b => b.stmts.all (fun s => s.defs.isEmpty || s.total))

theorem scanTotal_of_all (stmts : List Stmt) (S : VarSet)
    (h : stmts.all (fun s => s.defs.isEmpty || s.total) = true) : scanTotal stmts S = true := by
  induction stmts with
  | nil => rfl
  | cons s rest ih =>
    simp only [List.all_cons, Bool.and_eq_true, Bool.or_eq_true] at h
    simp only [scanTotal, Bool.and_eq_true, Bool.or_eq_true, Bool.not_eq_eq_eq_not, Bool.not_true]
    refine ⟨ih (by simpa using h.2), ?_⟩
    cases hd : s.isDeadFor (dceScan rest S).2 with
    | false => exact Or.inl rfl
    | true =>
      right
      rcases h.1 with h1 | h1
      · obtain ⟨d, hdd, _⟩ := isDeadFor_spec hd
        rw [hdd] at h1; simp at h1
      · exact h1

theorem dceTotal_of_defsTotal (P : Prog) (L : LiveMap) (h : P.defsTotal = true) : dceTotal P L = true := by
  unfold dceTotal
  unfold Prog.defsTotal at h
  rw [List.all_eq_true] at h ⊢
  intro b hb
  exact scanTotal_of_all b.stmts (L b.label) (h b hb)

theorem dceRound_defsTotal (P : Prog) (L : LiveMap) (h : P.defsTotal = true) :
    (dceRound P L).defsTotal = true := by
  unfold Prog.defsTotal at h ⊢
  simp only [dceRound, List.all_map, List.all_eq_true, Function.comp_def] at h ⊢
  intro b hb s hs
  exact h b hb s (dceScan_subset b.stmts (L b.label) s hs)

theorem dceRound_noUnreachable (P : Prog) (L : LiveMap) (h : P.noUnreachable = true) :
    (dceRound P L).noUnreachable = true := by
  unfold Prog.noUnreachable at h ⊢
  simp only [dceRound, List.all_map, List.all_eq_true, Function.comp_def] at h ⊢
  intro b hb s hs
  exact h b hb s (dceScan_subset b.stmts (L b.label) s hs)

/-- what the pass needs of the CFG and of the variant of the liveness code -/
structure DceInv (v : Variant) (order : List Label) (P : Prog) : Prop where
  ord : ∀ l, l ∈ P.labels → l ∈ order
  succ : ∀ l l', l' ∈ P.succsOf l → l' ∈ P.labels
  exitP : P.exitPresent
  unr : v.unreachGen = true ∨ P.noUnreachable = true
  seed : seedOk v P order

theorem DceInv.round {v : Variant} {order : List Label} {P : Prog} (L : LiveMap) (h : DceInv v order P) :
    DceInv v order (dceRound P L) where
  ord := by rw [dceRound_labels]; exact h.ord
  succ := by intro l l' hl; rw [dceRound_succsOf] at hl; rw [dceRound_labels]; exact h.succ l l' hl
  exitP := by intro l hl; rw [dceRound_labels]; exact h.exitP l hl
  unr := by
    rcases h.unr with h1 | h1
    · exact Or.inl h1
    · exact Or.inr (dceRound_noUnreachable P L h1)
  seed := h.seed

/-- the coded liveness contains the specification liveness under `DceInv` -/
theorem coded_sound {v : Variant} {order : List Label} {P : Prog} (h : DceInv v order P) {L : LiveMap}
    (hc : codedLiveOut v P order = some L) : ∀ l x, LiveAt P [] l x → x ∈ L l := by
  intro l x hx
  have hsol := coded_isSpecSol v P order L hc h.ord h.succ h.unr h.seed
  simpa [specIn] using liveAt_sub_sol P L hsol h.exitP hx

theorem dceRound_exitBeh {v : Variant} {order : List Label} {P : Prog} (h : DceInv v order P) {L : LiveMap}
    (hc : codedLiveOut v P order = some L) (htot : P.defsTotal = true) (σ : State) (t : List Event) (outs : List Int) :
    ExitBeh P σ t outs ↔ ExitBeh (dceRound P L) σ t outs := by
  have hL := coded_sound h hc
  constructor
  · intro he
    have := dce_forward P L hL he (by simp) σ (fun _ _ => rfl)
    rw [← dceRound_stmtsOf] at this
    exact this
  · intro he
    exact dce_backward P L hL (dceTotal_of_defsTotal P L htot) he (P.stmtsOf P.entry) σ
      (dceRound_stmtsOf P L P.entry) (fun _ _ => rfl) (dceTotal_stmtsOf (dceTotal_of_defsTotal P L htot) P.entry)

theorem dce_exitBeh (v : Variant) (order : List Label) :
    ∀ (n : Nat) (P T : Prog), dce v order n P = some T → DceInv v order P → P.defsTotal = true →
      ∀ σ t outs, ExitBeh P σ t outs ↔ ExitBeh T σ t outs := by
  intro n
  induction n with
  | zero =>
    intro P T h _ _ σ t outs
    simp only [dce, Option.some.injEq] at h
    subst h; exact Iff.rfl
  | succ n ih =>
    intro P T h hinv htot σ t outs
    simp only [dce] at h
    cases hc : codedLiveOut v P order with
    | none => rw [hc] at h; cases h
    | some L =>
      rw [hc] at h
      simp only at h
      have h1 := dceRound_exitBeh hinv hc htot σ t outs
      split at h
      · exact h1.trans (ih _ T h (hinv.round L) (dceRound_defsTotal P L htot) σ t outs)
      · simp only [Option.some.injEq] at h
        subst h; exact h1

end TIR
end Crab
