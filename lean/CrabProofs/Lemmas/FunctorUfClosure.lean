import CrabProofs.Lemmas.FunctorUfLeq

/-!
`uf_domain`: the union-find of `congruence_closure_solver` only ever relates terms with the same
value, and `build_dag_term` returns, for the class of `t`, a term with the value of `t` (fresh
term variables get the value of the class they stand for).
-/
namespace Crab
namespace Dom
namespace Fct
namespace Uf
set_option linter.unusedSectionVars false

variable {V F : Type} [DecidableEq V] [DecidableEq F] (I : F → List Int → Int)

/-- `choose_non_var` returns one of the candidates -/
def ChooseOK (choose : List (Term F) → Option (Term F)) : Prop := ∀ l t, choose l = some t → t ∈ l

/-- every parent link relates terms with the same value -/
def PV (ρ : Nat → Int) (pm : PMap F) : Prop := ∀ e ∈ pm, e.1.eval I ρ = e.2.eval I ρ
/-- every term of the parent map is below `n` -/
def PMB (n : Nat) (pm : PMap F) : Prop := ∀ e ∈ pm, e.1.bounded n = true ∧ e.2.bounded n = true

theorem pfind_eval {ρ : Nat → Int} {pm : PMap F} (h : PV I ρ pm) (fuel : Nat) (t : Term F) :
    (pfind fuel pm t).eval I ρ = t.eval I ρ := by
  induction fuel generalizing t with
  | zero => rfl
  | succ n ih =>
    simp only [pfind]
    split
    · rfl
    · rename_i p hl
      split
      · rfl
      · rw [ih p]; exact (h _ (look_mem hl)).symm

theorem pfind_bounded {n : Nat} {pm : PMap F} (h : PMB n pm) (fuel : Nat) (t : Term F)
    (ht : t.bounded n = true) : (pfind fuel pm t).bounded n = true := by
  induction fuel generalizing t with
  | zero => exact ht
  | succ k ih =>
    simp only [pfind]
    split
    · exact ht
    · rename_i p hl
      split
      · exact ht
      · exact ih p (h _ (look_mem hl)).2

theorem pmerge_pv {ρ : Nat → Int} {pm : PMap F} (h : PV I ρ pm) (e : Term F × Term F)
    (he : e.1.eval I ρ = e.2.eval I ρ) : PV I ρ (pmerge pm e) := by
  unfold pmerge
  split
  · exact h
  · intro q hq
    rcases List.mem_cons.1 hq with rfl | hq
    · show e.1.eval I ρ = _
      rw [he]
      cases hl : look pm e.2 with
      | none => rfl
      | some p => exact h _ (look_mem hl)
    · exact h q (List.mem_filter.1 hq).1

theorem pmerge_pmb {n : Nat} {pm : PMap F} (h : PMB n pm) (e : Term F × Term F)
    (he : e.1.bounded n = true ∧ e.2.bounded n = true) : PMB n (pmerge pm e) := by
  unfold pmerge
  split
  · exact h
  · intro q hq
    rcases List.mem_cons.1 hq with rfl | hq
    · refine ⟨he.1, ?_⟩
      cases hl : look pm e.2 with
      | none => exact he.2
      | some p => exact (h _ (look_mem hl)).2
    · exact h q (List.mem_filter.1 hq).1

theorem foldl_pmerge {ρ : Nat → Int} {n : Nat} (eqs : List (Term F × Term F)) (pm : PMap F)
    (h1 : PV I ρ pm) (h2 : PMB n pm)
    (he : ∀ e ∈ eqs, e.1.eval I ρ = e.2.eval I ρ ∧ e.1.bounded n = true ∧ e.2.bounded n = true) :
    PV I ρ (eqs.foldl pmerge pm) ∧ PMB n (eqs.foldl pmerge pm) := by
  induction eqs generalizing pm with
  | nil => exact ⟨h1, h2⟩
  | cons e es ih =>
    simp only [List.foldl_cons]
    have := he e List.mem_cons_self
    exact ih _ (pmerge_pv I h1 e this.1) (pmerge_pmb h2 e this.2)
      (fun e' he' => he e' (List.mem_cons_of_mem _ he'))

theorem closure_ok {ρ : Nat → Int} {n : Nat} (eqs : List (Term F × Term F))
    (he : ∀ e ∈ eqs, e.1.eval I ρ = e.2.eval I ρ ∧ e.1.bounded n = true ∧ e.2.bounded n = true) :
    PV I ρ (closure eqs) ∧ PMB n (closure eqs) :=
  foldl_pmerge I eqs [] (fun e he => by simp at he) (fun e he => by simp at he) he

theorem eqTerms_bounded {n : Nat} {eqs : List (Term F × Term F)}
    (he : ∀ e ∈ eqs, e.1.bounded n = true ∧ e.2.bounded n = true) : ∀ t ∈ eqTerms eqs, t.bounded n = true := by
  intro t ht
  simp only [eqTerms, List.mem_flatMap, List.mem_cons, List.mem_nil_iff, or_false] at ht
  obtain ⟨e, he', h | h⟩ := ht
  · rw [h]; exact (he e he').1
  · rw [h]; exact (he e he').2

theorem members_eval {ρ : Nat → Int} {pm : PMap F} (h : PV I ρ pm) {terms : List (Term F)} {t x : Term F}
    (hx : x ∈ members pm terms t) : x.eval I ρ = t.eval I ρ := by
  simp only [members, List.mem_filter, decide_eq_true_eq] at hx
  have h1 := pfind_eval I h (pm.length + 1) x
  have h2 := pfind_eval I h (pm.length + 1) t
  unfold pfindF at hx
  rw [← h1, hx.2, h2]

/-! ### lists of terms -/

theorem evalL_append (ρ : Nat → Int) : (xs ys : List (Term F)) →
    Term.evalL I ρ (xs ++ ys) = Term.evalL I ρ xs ++ Term.evalL I ρ ys
  | [], ys => rfl
  | x :: xs, ys => by simp [Term.evalL, evalL_append ρ xs ys]

theorem boundedL_append (n : Nat) : (xs ys : List (Term F)) →
    Term.boundedL n (xs ++ ys) = (Term.boundedL n xs && Term.boundedL n ys)
  | [], ys => by simp [Term.boundedL]
  | x :: xs, ys => by simp [Term.boundedL, boundedL_append n xs ys, Bool.and_assoc]

theorem boundedL_mem {n : Nat} : (xs : List (Term F)) → Term.boundedL n xs = true → ∀ x ∈ xs, x.bounded n = true
  | [], _, x, hx => by simp at hx
  | y :: ys, h, x, hx => by
    simp only [Term.boundedL, Bool.and_eq_true] at h
    rcases List.mem_cons.1 hx with rfl | hx
    · exact h.1
    · exact boundedL_mem ys h.2 x hx

/-! ### `build_dag_term` -/

/-- the cache relates classes and terms with the same value -/
def CacheOK (st : BSt F) (ρ : Nat → Int) : Prop :=
  ∀ e ∈ st.cache, e.1.bounded st.next = true ∧ e.2.bounded st.next = true ∧ e.2.eval I ρ = e.1.eval I ρ

theorem CacheOK.ext {st : BSt F} {ρ ρ' : Nat → Int} (h : CacheOK I st ρ) (he : Ext st.next ρ ρ') {n' : Nat}
    (hn : st.next ≤ n') {c : List (Term F × Term F)} (hc : ∀ e ∈ c, e ∈ st.cache) :
    CacheOK I ⟨n', c⟩ ρ' := by
  intro e hm
  have := h e (hc e hm)
  exact ⟨Term.bounded_mono hn _ this.1, Term.bounded_mono hn _ this.2.1,
    by rw [Term.eval_ext I he _ this.2.1, Term.eval_ext I he _ this.1]; exact this.2.2⟩

/-- the result of one call: a bounded term with the value of `t` -/
def DagSpec (st : BSt F) (ρ : Nat → Int) (t : Term F) (r : Term F × BSt F) : Prop :=
  ∃ ρ', Ext st.next ρ ρ' ∧ CacheOK I r.2 ρ' ∧ r.1.bounded r.2.next = true ∧
    r.1.eval I ρ' = t.eval I ρ ∧ st.next ≤ r.2.next

theorem dag_fresh {st : BSt F} {ρ : Nat → Int} (hc : CacheOK I st ρ) (t : Term F) :
    DagSpec I st ρ t st.fresh := by
  refine ⟨upd ρ st.next (t.eval I ρ), upd_ext _ _ _, ?_, by simp [BSt.fresh, Term.bounded],
    by simp [BSt.fresh, Term.eval, upd_self], by simp [BSt.fresh]⟩
  exact hc.ext I (upd_ext _ _ _) (Nat.le_succ _) (fun e he => he)

theorem dag_fresh_cached {st : BSt F} {ρ : Nat → Int} (hc : CacheOK I st ρ) (t : Term F)
    (ht : t.bounded st.next = true) :
    DagSpec I st ρ t (.var st.next, ⟨st.next + 1, (t, .var st.next) :: st.cache⟩) := by
  refine ⟨upd ρ st.next (t.eval I ρ), upd_ext _ _ _, ?_, by simp [Term.bounded],
    by simp [Term.eval, upd_self], by simp⟩
  intro e he
  rcases List.mem_cons.1 he with rfl | he
  · refine ⟨Term.bounded_mono (Nat.le_succ _) _ ht, by simp [Term.bounded], ?_⟩
    simp only [Term.eval, upd_self]
    rw [Term.eval_ext I (upd_ext _ _ _) _ ht]
  · exact (hc.ext I (upd_ext ρ st.next _) (Nat.le_succ _) (fun e he => he)) e he

theorem dag_spec {choose : List (Term F) → Option (Term F)} (hch : ChooseOK choose) {pm : PMap F}
    {terms : List (Term F)} {n : Nat} (hpm : PMB n pm) (hterms : ∀ t ∈ terms, t.bounded n = true) :
    (fuel : Nat) → (stack : List (Term F)) → (t : Term F) → (st : BSt F) → (ρ : Nat → Int) →
    PV I ρ pm → CacheOK I st ρ → t.bounded n = true → n ≤ st.next →
    DagSpec I st ρ t (dag choose pm terms fuel stack t st)
  | 0, _, t, st, ρ, _, hc, _, _ => by simp only [dag]; exact dag_fresh I hc t
  | fuel + 1, stack, t, st, ρ, hpv, hc, ht, hn => by
    simp only [dag]
    split
    · rename_i r hl
      have := hc _ (look_mem hl)
      exact ⟨ρ, Ext.refl _ _, hc, this.2.1, this.2.2, Nat.le_refl _⟩
    · split
      · exact dag_fresh I hc t
      · split
        · rename_i f args hsel
          -- the chosen member has the value of the class and bounded arguments
          have hmem := hch _ _ hsel
          have hmem' : Term.app f args ∈ members pm terms t := (List.mem_filter.1 hmem).1
          have hval : (Term.app f args).eval I ρ = t.eval I ρ := members_eval I hpv hmem'
          have hbm : (Term.app f args).bounded n = true :=
            hterms _ (List.mem_filter.1 hmem').1
          simp only [Term.bounded] at hbm
          -- the loop over the arguments
          have key : ∀ (as : List (Term F)) (acc : List (Term F)) (st1 : BSt F) (ρ1 : Nat → Int),
              Term.boundedL n as = true → PV I ρ1 pm → CacheOK I st1 ρ1 → n ≤ st1.next →
              Term.boundedL st1.next acc = true →
              ∃ ρ', Ext st1.next ρ1 ρ' ∧
                CacheOK I (as.foldl (fun acc c =>
                  let x := dag choose pm terms fuel (t :: stack) (pfindF pm c) acc.2
                  (acc.1 ++ [x.1], x.2)) (acc, st1)).2 ρ' ∧
                Term.boundedL (as.foldl (fun acc c =>
                  let x := dag choose pm terms fuel (t :: stack) (pfindF pm c) acc.2
                  (acc.1 ++ [x.1], x.2)) (acc, st1)).2.next (as.foldl (fun acc c =>
                  let x := dag choose pm terms fuel (t :: stack) (pfindF pm c) acc.2
                  (acc.1 ++ [x.1], x.2)) (acc, st1)).1 = true ∧
                Term.evalL I ρ' (as.foldl (fun acc c =>
                  let x := dag choose pm terms fuel (t :: stack) (pfindF pm c) acc.2
                  (acc.1 ++ [x.1], x.2)) (acc, st1)).1 = Term.evalL I ρ1 acc ++ Term.evalL I ρ1 as ∧
                st1.next ≤ (as.foldl (fun acc c =>
                  let x := dag choose pm terms fuel (t :: stack) (pfindF pm c) acc.2
                  (acc.1 ++ [x.1], x.2)) (acc, st1)).2.next := by
            intro as
            induction as with
            | nil =>
              intro acc st1 ρ1 _ _ hc1 _ hacc
              exact ⟨ρ1, Ext.refl _ _, hc1, hacc, by simp [Term.evalL], Nat.le_refl _⟩
            | cons c cs ih =>
              intro acc st1 ρ1 hb hpv1 hc1 hn1 hacc
              simp only [Term.boundedL, Bool.and_eq_true] at hb
              simp only [List.foldl_cons]
              have hcb : (pfindF pm c).bounded n = true := pfind_bounded hpm _ c hb.1
              obtain ⟨ρ2, a1, a2, a3, a4, a5⟩ :=
                dag_spec hch hpm hterms fuel (t :: stack) (pfindF pm c) st1 ρ1 hpv1 hc1 hcb hn1
              have hpv2 : PV I ρ2 pm := by
                intro e he
                have hb' := hpm e he
                rw [Term.eval_ext I a1 _ (Term.bounded_mono hn1 _ hb'.1),
                  Term.eval_ext I a1 _ (Term.bounded_mono hn1 _ hb'.2)]
                exact hpv1 e he
              have hacc2 : Term.boundedL (dag choose pm terms fuel (t :: stack) (pfindF pm c) st1).2.next
                  (acc ++ [(dag choose pm terms fuel (t :: stack) (pfindF pm c) st1).1]) = true := by
                rw [boundedL_append]
                simp only [Term.boundedL, Bool.and_true, Bool.and_eq_true]
                exact ⟨Term.boundedL_mono a5 _ hacc, a3⟩
              obtain ⟨ρ3, b1, b2, b3, b4, b5⟩ := ih _ _ ρ2 hb.2 hpv2 a2 (Nat.le_trans hn1 a5) hacc2
              refine ⟨ρ3, Ext.trans a1 b1 a5, b2, b3, ?_, Nat.le_trans a5 b5⟩
              rw [b4, evalL_append]
              simp only [Term.evalL, List.append_assoc, List.singleton_append]
              rw [Term.evalL_ext I a1 _ hacc, a4]
              have : (pfindF pm c).eval I ρ1 = c.eval I ρ1 := pfind_eval I hpv1 _ c
              rw [this, Term.evalL_ext I a1 _ (Term.boundedL_mono hn1 _ hb.2)]
          obtain ⟨ρ', e1, e2, e3, e4, e5⟩ := key args [] st ρ hbm hpv hc hn rfl
          refine ⟨ρ', e1, ?_, by simp only [Term.bounded]; exact e3, ?_, e5⟩
          · intro e he
            rcases List.mem_cons.1 he with rfl | he
            · refine ⟨Term.bounded_mono (Nat.le_trans hn e5) _ ht, by simp only [Term.bounded]; exact e3, ?_⟩
              simp only [Term.eval]
              rw [e4, Term.eval_ext I e1 _ (Term.bounded_mono hn _ ht)]
              simp only [Term.evalL, List.nil_append]
              rw [← hval]; simp only [Term.eval]
            · exact e2 e he
          · simp only [Term.eval]
            rw [e4]
            simp only [Term.evalL, List.nil_append]
            rw [← hval]; simp only [Term.eval]
        · exact dag_fresh_cached I hc t (Term.bounded_mono hn _ ht)

/-! ### boundedness of the rebuilt terms (no semantic premise) -/

def CacheB (st : BSt F) : Prop := ∀ e ∈ st.cache, e.2.bounded st.next = true

theorem CacheB.mono {st : BSt F} (h : CacheB st) {n' : Nat} (hn : st.next ≤ n') : CacheB ⟨n', st.cache⟩ :=
  fun e he => Term.bounded_mono hn _ (h e he)

theorem dag_bounded (choose : List (Term F) → Option (Term F)) (pm : PMap F) (terms : List (Term F)) :
    (fuel : Nat) → (stack : List (Term F)) → (t : Term F) → (st : BSt F) → CacheB st →
    (dag choose pm terms fuel stack t st).1.bounded (dag choose pm terms fuel stack t st).2.next = true ∧
      CacheB (dag choose pm terms fuel stack t st).2 ∧ st.next ≤ (dag choose pm terms fuel stack t st).2.next
  | 0, _, t, st, hc => by
    simp only [dag, BSt.fresh]
    exact ⟨by simp [Term.bounded], hc.mono (Nat.le_succ _), Nat.le_succ _⟩
  | fuel + 1, stack, t, st, hc => by
    simp only [dag]
    split
    · rename_i r hl
      exact ⟨hc _ (look_mem hl), hc, Nat.le_refl _⟩
    · split
      · simp only [BSt.fresh]
        exact ⟨by simp [Term.bounded], hc.mono (Nat.le_succ _), Nat.le_succ _⟩
      · split
        · rename_i f args _
          have key : ∀ (as : List (Term F)) (acc : List (Term F)) (st1 : BSt F), CacheB st1 →
              Term.boundedL st1.next acc = true →
              Term.boundedL (as.foldl (fun acc c =>
                  let x := dag choose pm terms fuel (t :: stack) (pfindF pm c) acc.2
                  (acc.1 ++ [x.1], x.2)) (acc, st1)).2.next (as.foldl (fun acc c =>
                  let x := dag choose pm terms fuel (t :: stack) (pfindF pm c) acc.2
                  (acc.1 ++ [x.1], x.2)) (acc, st1)).1 = true ∧
                CacheB (as.foldl (fun acc c =>
                  let x := dag choose pm terms fuel (t :: stack) (pfindF pm c) acc.2
                  (acc.1 ++ [x.1], x.2)) (acc, st1)).2 ∧
                st1.next ≤ (as.foldl (fun acc c =>
                  let x := dag choose pm terms fuel (t :: stack) (pfindF pm c) acc.2
                  (acc.1 ++ [x.1], x.2)) (acc, st1)).2.next := by
            intro as
            induction as with
            | nil => intro acc st1 hc1 hacc; exact ⟨hacc, hc1, Nat.le_refl _⟩
            | cons c cs ih =>
              intro acc st1 hc1 hacc
              simp only [List.foldl_cons]
              obtain ⟨a1, a2, a3⟩ := dag_bounded choose pm terms fuel (t :: stack) (pfindF pm c) st1 hc1
              have hacc2 : Term.boundedL (dag choose pm terms fuel (t :: stack) (pfindF pm c) st1).2.next
                  (acc ++ [(dag choose pm terms fuel (t :: stack) (pfindF pm c) st1).1]) = true := by
                rw [boundedL_append]
                simp only [Term.boundedL, Bool.and_true, Bool.and_eq_true]
                exact ⟨Term.boundedL_mono a3 _ hacc, a1⟩
              obtain ⟨b1, b2, b3⟩ := ih _ _ a2 hacc2
              exact ⟨b1, b2, Nat.le_trans a3 b3⟩
          obtain ⟨e1, e2, e3⟩ := key args [] st hc rfl
          refine ⟨by simp only [Term.bounded]; exact e1, ?_, e3⟩
          intro e he
          rcases List.mem_cons.1 he with rfl | he
          · simp only [Term.bounded]; exact e1
          · exact e2 e he
        · refine ⟨by simp [Term.bounded], ?_, Nat.le_succ _⟩
          intro e he
          rcases List.mem_cons.1 he with rfl | he
          · simp [Term.bounded]
          · exact Term.bounded_mono (Nat.le_succ _) _ (hc e he)

theorem rebuildGo_bounded (choose : List (Term F) → Option (Term F)) (pm : PMap F) (terms : List (Term F))
    (fuel : Nat) (skip : V → Bool) {n : Nat} :
    (m : List (V × Term F)) → (st : BSt F) → CacheB st → MapB n m → n ≤ st.next →
    MapB (rebuildGo choose pm terms fuel skip m st).2.next (rebuildGo choose pm terms fuel skip m st).1 ∧
      st.next ≤ (rebuildGo choose pm terms fuel skip m st).2.next
  | [], st, _, _, _ => by
    simp only [rebuildGo]; exact ⟨fun p hp => by simp at hp, Nat.le_refl _⟩
  | (v, t) :: rest, st, hc, hb, hn => by
    have hbr : MapB n rest := fun p hp => hb p (List.mem_cons_of_mem _ hp)
    simp only [rebuildGo]
    split
    · obtain ⟨b1, b2⟩ := rebuildGo_bounded choose pm terms fuel skip rest st hc hbr hn
      refine ⟨?_, b2⟩
      intro p hp
      rcases List.mem_cons.1 hp with rfl | hp
      · exact Term.bounded_mono (Nat.le_trans hn b2) _ (hb (v, t) List.mem_cons_self)
      · exact b1 p hp
    · obtain ⟨a1, a2, a3⟩ := dag_bounded choose pm terms fuel [] (pfindF pm t) st hc
      obtain ⟨b1, b2⟩ := rebuildGo_bounded choose pm terms fuel skip rest _ a2 hbr (Nat.le_trans hn a3)
      refine ⟨?_, Nat.le_trans a3 b2⟩
      intro p hp
      rcases List.mem_cons.1 hp with rfl | hp
      · exact Term.bounded_mono b2 _ a1
      · exact b1 p hp

end Uf
end Fct
end Dom
end Crab
