import CrabProofs.Lemmas.FunctorVPartBin

/-!
`value_partitioning_domain` over an arbitrary base: the transformers (per-partition statements,
`operator+=` with its split of disequalities, `-=`/`forget`/`project`, `rename`, the two
intrinsics, `select`) are sound and keep the invariant.
-/
namespace Crab
namespace Dom
namespace Fct
namespace VP
set_option linter.unusedSectionVars false

variable {V S : Type} [DecidableEq V] {D : VDom V S}

theorem mapParts_sound {f : D.B → D.B} {r : S → S → Prop} (hf : D.TSound f r) (a : VP D) (s s' : S)
    (hg : γ a s) (hr : r s s') : γ (mapParts f a) s' := by
  obtain ⟨p, hp, hx⟩ := hg
  exact ⟨Part.app f p, List.mem_map.2 ⟨p, hp, rfl⟩, hf _ _ _ hx hr⟩

theorem mapParts_inv (f : D.B → D.B) {a : VP D} (h : Inv a) : Inv (mapParts f a) := by
  refine ⟨?_, fun hv => ?_⟩
  · show a.parts.map _ ≠ []
    intro he; exact h.1 (List.map_eq_nil_iff.1 he)
  · show (a.parts.map _).length = 1
    rw [List.length_map]; exact h.2 hv

theorem mapOp_sound {f : D.B → D.B} {r : S → S → Prop} (hf : D.TSound f r) (a : VP D) (s s' : S)
    (hg : γ a s) (hr : r s s') : γ (mapOp f a) s' := by
  unfold mapOp
  rw [isBottom_false_of_γ hg]
  exact mapParts_sound hf a s s' hg hr

theorem mapOp_inv (f : D.B → D.B) {a : VP D} (h : Inv a) : Inv (mapOp f a) := by
  unfold mapOp; split
  · exact mapParts_inv f h
  · exact h

theorem assignOp_sound (x : V) {f : D.B → D.B} {r : S → S → Prop} (hf : D.TSound f r) (a : VP D)
    (s s' : S) (hg : γ a s) (hr : r s s') : γ (assignOp x f a) s' := by
  unfold assignOp
  rw [isBottom_false_of_γ hg]
  simp only [Bool.not_false, if_true]
  split
  · exact updateParts_sound _ _ (mapParts_sound hf a s s' hg hr)
  · exact mapParts_sound hf a s s' hg hr

theorem assignOp_inv (x : V) (f : D.B → D.B) {a : VP D} (h : Inv a) : Inv (assignOp x f a) := by
  unfold assignOp; split
  · split
    · exact updateParts_inv (mapParts_inv f h)
    · exact mapParts_inv f h
  · exact h

/-! ### `operator+=` -/

theorem addCsts_sound_mem (f : D.B → D.B) (cx : V → Bool) (a : VP D) (s : S) {p : Part D}
    (hp : p ∈ a.parts) (hx' : D.γ (f p.val) s) : γ (addCsts f cx a) s := by
  have hmem : Part.app f p ∈ (a.parts.map (Part.app f)).filter (fun p => !D.isBot p.val) := by
    refine List.mem_filter.2 ⟨List.mem_map.2 ⟨p, hp, rfl⟩, ?_⟩
    show (!D.isBot (f p.val)) = true
    rw [D.isBot_false_of_γ hx']; rfl
  have hv : γ (⟨a.var, (a.parts.map (Part.app f)).filter (fun p => !D.isBot p.val)⟩ : VP D) s :=
    ⟨_, hmem, hx'⟩
  unfold addCsts
  simp only
  split
  · rename_i he
    rw [List.isEmpty_iff] at he
    rw [he] at hmem; simp at hmem
  · split
    · split
      · exact updateParts_sound _ _ hv
      · exact hv
    · exact hv

theorem addCsts_sound {f : D.B → D.B} {P : S → Prop} (hf : ∀ b s, D.γ b s → P s → D.γ (f b) s)
    (cx : V → Bool) (a : VP D) (s : S) (hg : γ a s) (hP : P s) : γ (addCsts f cx a) s := by
  obtain ⟨p, hp, hx⟩ := hg
  exact addCsts_sound_mem f cx a s hp (hf _ _ hx hP)

theorem addCsts_inv (f : D.B → D.B) (cx : V → Bool) {a : VP D} (h : Inv a) : Inv (addCsts f cx a) := by
  unfold addCsts
  simp only
  split
  · exact inv_single _ _
  · rename_i he
    have hne : (a.parts.map (Part.app f)).filter (fun p => !D.isBot p.val) ≠ [] := by
      intro h0; apply he; rw [h0]; rfl
    split
    · rename_i x hv
      split
      · exact updateParts_inv (inv_of_some (a := ⟨a.var, _⟩) hv hne)
      · exact inv_of_some (a := ⟨a.var, _⟩) hv hne
    · rename_i hv
      refine ⟨hne, fun _ => ?_⟩
      have h1 : ((a.parts.map (Part.app f)).filter (fun p => !D.isBot p.val)).length ≤ 1 := by
        have := List.length_filter_le (fun p : Part D => !D.isBot p.val) (a.parts.map (Part.app f))
        rw [List.length_map, h.2 hv] at this
        exact this
      have h2 : 0 < ((a.parts.map (Part.app f)).filter (fun p => !D.isBot p.val)).length :=
        List.length_pos_iff.2 hne
      show ((a.parts.map (Part.app f)).filter (fun p => !D.isBot p.val)).length = 1
      omega

theorem splitDiseq_inv {acc : VP D} (d : Diseq D) (h : Inv acc) : Inv (splitDiseq acc d) :=
  join_inv (addCsts_inv _ _ h) (addCsts_inv _ _ h)

theorem foldl_splitDiseq_inv (ds : List (Diseq D)) {acc : VP D} (h : Inv acc) :
    Inv (ds.foldl splitDiseq acc) := by
  induction ds generalizing acc with
  | nil => exact h
  | cons d ds ih => exact ih (splitDiseq_inv d h)

theorem foldl_splitDiseq_sound {P : S → Prop} (ds : List (Diseq D))
    (hd : ∀ d ∈ ds, ∀ b s, D.γ b s → P s → D.γ (d.lt b) s ∨ D.γ (d.gt b) s)
    {acc : VP D} (h : Inv acc) (s : S) (hg : γ acc s) (hP : P s) : γ (ds.foldl splitDiseq acc) s := by
  induction ds generalizing acc with
  | nil => exact hg
  | cons d ds ih =>
    simp only [List.foldl_cons]
    refine ih (fun d' hd' => hd d' (List.mem_cons_of_mem _ hd')) (splitDiseq_inv d h) ?_
    obtain ⟨p, hp, hx⟩ := hg
    apply join_sound (addCsts_inv _ _ h) (addCsts_inv _ _ h)
    rcases hd d List.mem_cons_self p.val s hx hP with h1 | h1
    · exact Or.inl (addCsts_sound_mem _ _ _ s hp h1)
    · exact Or.inr (addCsts_sound_mem _ _ _ s hp h1)

theorem addOp_sound {c : Csts D} {P : S → Prop} (hc : c.Sound P) {a : VP D} (h : Inv a) (s : S)
    (hg : γ a s) (hP : P s) : γ (addOp c a) s := by
  unfold addOp
  split
  · exact hg
  · split
    · rename_i hf; exact absurd hP (hc.1 hf s)
    · split
      · rename_i x hv
        exact foldl_splitDiseq_sound (c.dq x) (hc.2.2.2 x) (addCsts_inv _ _ h) s
          (addCsts_sound (hc.2.2.1 x) _ a s hg hP) hP
      · exact addCsts_sound hc.2.1 _ a s hg hP

theorem addOp_inv (c : Csts D) {a : VP D} (h : Inv a) : Inv (addOp c a) := by
  unfold addOp
  split
  · exact h
  · split
    · exact inv_single _ _
    · split
      · exact foldl_splitDiseq_inv _ (addCsts_inv _ _ h)
      · exact addCsts_inv _ _ h

/-- no state of `a` passes the filter when `+=` answers bottom -/
theorem addOp_bottom {c : Csts D} {P : S → Prop} (hc : c.Sound P) {a : VP D} (h : Inv a)
    (hb : isBottom (addOp c a) = true) (s : S) (hg : γ a s) : ¬ P s :=
  fun hP => not_γ_of_isBottom hb s (addOp_sound hc h s hg hP)

/-! ### `-=`, `forget`, `project`, `rename`, the intrinsics, `set_to_top/bottom` -/

theorem dropOp_sound (hit : V → Bool) {f : D.B → D.B} {r : S → S → Prop} (hf : D.TSound f r)
    {a : VP D} (h : Inv a) (s s' : S) (hg : γ a s) (hr : r s s') : γ (dropOp hit f a) s' := by
  unfold dropOp
  rw [isBottom_false_of_γ hg]
  simp only [Bool.not_false, if_true]
  split
  · split
    · exact mapParts_sound hf _ s s' (removeParts_sound h hg) hr
    · exact mapParts_sound hf a s s' hg hr
  · exact mapParts_sound hf a s s' hg hr

theorem dropOp_inv (hit : V → Bool) (f : D.B → D.B) {a : VP D} (h : Inv a) : Inv (dropOp hit f a) := by
  unfold dropOp; split
  · split
    · split
      · exact mapParts_inv f (removeParts_inv h)
      · exact mapParts_inv f h
    · exact mapParts_inv f h
  · exact h

theorem renameOp_sound (ren : V → V) {f : D.B → D.B} {r : S → S → Prop} (hf : D.TSound f r)
    (a : VP D) (s s' : S) (hg : γ a s) (hr : r s s') : γ (renameOp ren f a) s' := by
  unfold renameOp
  rw [isBottom_false_of_γ hg]
  exact mapParts_sound hf ⟨a.var.map ren, a.parts⟩ s s' hg hr

theorem renameOp_inv (ren : V → V) (f : D.B → D.B) {a : VP D} (h : Inv a) : Inv (renameOp ren f a) := by
  unfold renameOp; split
  · apply mapParts_inv
    refine ⟨h.1, fun hv => h.2 ?_⟩
    cases ha : a.var with
    | none => rfl
    | some x => have hv' : a.var.map ren = none := hv; rw [ha] at hv'; cases hv'
  · exact h

theorem vpStart_sound (x : V) (a : VP D) (s : S) (hg : γ a s) : γ (vpStart x a) s := by
  unfold vpStart
  split
  · exact hg
  · split
    · exact hg
    · exact updateParts_sound _ _ hg

theorem vpStart_inv (x : V) {a : VP D} (h : Inv a) : Inv (vpStart x a) := by
  unfold vpStart
  split
  · exact h
  · split
    · exact h
    · exact updateParts_inv (inv_of_some (a := ⟨some x, a.parts⟩) rfl h.1)

theorem vpEnd_sound (x : V) {a : VP D} (h : Inv a) (s : S) (hg : γ a s) : γ (vpEnd x a) s := by
  unfold vpEnd
  split
  · exact hg
  · split
    · exact removeParts_sound h hg
    · exact hg

theorem vpEnd_inv (x : V) {a : VP D} (h : Inv a) : Inv (vpEnd x a) := by
  unfold vpEnd
  split
  · exact h
  · split
    · exact removeParts_inv h
    · exact h

theorem setTop_sound (a : VP D) (s : S) : γ (setTop a) s :=
  ⟨Part.top, List.mem_singleton.2 rfl, D.top_sound s⟩

/-! ### `select` -/

theorem selectOp_sound (x : V) {cnd cneg : Csts D} {f1 f2 : D.B → D.B} {P : S → Prop}
    {r1 r2 : S → S → Prop} (h1 : cnd.Sound P) (h2 : cneg.Sound (fun s => ¬ P s))
    (hf1 : D.TSound f1 r1) (hf2 : D.TSound f2 r2) {a : VP D} (h : Inv a) (s s' : S) (hg : γ a s)
    (hr : (P s ∧ r1 s s') ∨ (¬ P s ∧ r2 s s')) : γ (selectOp x cnd cneg f1 f2 a) s' := by
  unfold selectOp
  rw [isBottom_false_of_γ hg]
  simp only [Bool.not_false, if_true]
  split
  · rename_i hb
    rcases hr with ⟨hP, _⟩ | ⟨_, hr⟩
    · exact absurd hP (addOp_bottom h1 h hb s hg)
    · exact assignOp_sound x hf2 a s s' hg hr
  · split
    · rename_i hb
      rcases hr with ⟨_, hr⟩ | ⟨hP, _⟩
      · exact assignOp_sound x hf1 a s s' hg hr
      · exact absurd hP (addOp_bottom h2 h hb s hg)
    · apply join_sound (assignOp_inv _ _ (addOp_inv _ h)) (assignOp_inv _ _ (addOp_inv _ h))
      rcases hr with ⟨hP, hr⟩ | ⟨hP, hr⟩
      · exact Or.inl (assignOp_sound x hf1 _ s s' (addOp_sound h1 h s hg hP) hr)
      · exact Or.inr (assignOp_sound x hf2 _ s s' (addOp_sound h2 h s hg hP) hr)

theorem selectOp_inv (x : V) (cnd cneg : Csts D) (f1 f2 : D.B → D.B) {a : VP D} (h : Inv a) :
    Inv (selectOp x cnd cneg f1 f2 a) := by
  unfold selectOp
  split
  · simp only
    split
    · exact assignOp_inv _ _ h
    · split
      · exact assignOp_inv _ _ h
      · exact join_inv (assignOp_inv _ _ (addOp_inv _ h)) (assignOp_inv _ _ (addOp_inv _ h))
  · exact h

/-! ### queries -/

theorem smashQuery_sound {R : Type} (q : D.B → R) (ok : R → S → Prop) (hq : ∀ b s, D.γ b s → ok (q b) s)
    (a : VP D) (s : S) (hg : γ a s) : ok (smashQuery q a) s := hq _ _ (mergeParts_sound hg)

theorem entails_sound (e : D.B → Bool) (C : S → Prop) (he : ∀ b s, e b = true → D.γ b s → C s)
    (a : VP D) (h : entails e a = true) (s : S) (hg : γ a s) : C s := by
  unfold entails at h
  rw [isBottom_false_of_γ hg] at h
  simp only [Bool.not_false, if_true] at h
  obtain ⟨p, hp, hx⟩ := hg
  exact he _ _ (List.all_eq_true.1 h p hp) hx

theorem toDisj_sound {R : Type} (q : D.B → R) (ok : R → S → Prop) (hq : ∀ b s, D.γ b s → ok (q b) s)
    (a : VP D) (s : S) (hg : γ a s) :
    ∃ l, toDisj q a = some l ∧ (l = [] ∨ ∃ c ∈ l, ok c s) := by
  unfold toDisj
  rw [isBottom_false_of_γ hg]
  simp only [Bool.false_eq_true, if_false]
  split
  · exact ⟨[], rfl, Or.inl rfl⟩
  · obtain ⟨p, hp, hx⟩ := hg
    exact ⟨_, rfl, Or.inr ⟨q p.val, List.mem_map.2 ⟨p, hp, rfl⟩, hq _ _ hx⟩⟩

end VP
end Fct
end Dom
end Crab
