import CrabProofs.Lemmas.DisIntervalWiden

/-! Remaining operations of `dis_interval` (`Crab.Dis`): public `normalize()`, `approx()`,
    `trim_interval`, the half lines. -/
namespace Crab
namespace Dis
open Bound

/-! ### public `normalize()` -/

theorem normalize_of_wf {x : Dis} (hx : WF x) : normalize x = x := by
  obtain ⟨s, l⟩ := x
  cases s <;> simp [normalize, isBottom, isTop]
  rw [normalizeList_of_wf hx.2.2]
  cases l with
  | nil => exact absurd rfl hx.1
  | cons a as => rfl

theorem normalize_mem_upper {x : Dis} (hx : EWF x) {k : Int} (h : mem k x) : mem k (normalize x) := by
  obtain ⟨s, l⟩ := x
  cases s <;> try (simpa [normalize, isBottom, isTop] using h)
  have e1 : (DisState.fin == DisState.bot) = false := rfl
  have e2 : (DisState.fin == DisState.top) = false := rfl
  simp only [normalize, isBottom, isTop, e1, e2, Bool.or_self, Bool.false_eq_true, if_false]
  by_cases h1 : l.length ≤ 1
  · have : normalizeList l = (l, false) := by simp [normalizeList, h1]
    rw [this]
    cases l with
    | nil => exact absurd h (memL_nil k)
    | cons a as => exact h
  · obtain ⟨_, _, hb, _, hm⟩ := normalizeList_spec l hx (by omega)
    cases hr : normalizeList l with
    | mk r isBot =>
      rw [hr] at hb hm
      simp only at hb hm
      cases isBot with
      | true =>
        obtain ⟨i, hi, hki⟩ := h
        exact absurd hki (Itv.not_mem_of_isBottom (hb rfl i hi))
      | false =>
        cases r with
        | nil => trivial
        | cons a as => exact (hm (by simp) k).mpr h

theorem normalize_mem_exact {x : Dis} (hx : EWF x) (hne : x.l ≠ []) {k : Int}
    (h : mem k (normalize x)) : mem k x := by
  obtain ⟨s, l⟩ := x
  cases s <;> try (simpa [normalize, isBottom, isTop] using h)
  have e1 : (DisState.fin == DisState.bot) = false := rfl
  have e2 : (DisState.fin == DisState.top) = false := rfl
  simp only [normalize, isBottom, isTop, e1, e2, Bool.or_self, Bool.false_eq_true, if_false] at h
  by_cases h1 : l.length ≤ 1
  · have : normalizeList l = (l, false) := by simp [normalizeList, h1]
    rw [this] at h
    cases l with
    | nil => exact absurd rfl hne
    | cons a as => exact h
  · obtain ⟨_, _, _, ht, hm⟩ := normalizeList_spec l hx (by omega)
    cases hr : normalizeList l with
    | mk r isBot =>
      rw [hr] at ht hm h
      simp only at ht hm h
      cases isBot with
      | true => exact absurd h (by simp [mem])
      | false =>
        cases r with
        | nil => exact ht rfl rfl k
        | cons a as => exact (hm (by simp) k).mp h

/-! ### `approx()` -/

theorem approx_sound {x : Dis} (hx : WF x) : ∃ i, approx x = some i ∧ ∀ k, mem k x → Itv.mem k i := by
  obtain ⟨s, l⟩ := x
  cases s
  · exact ⟨Itv.bot, rfl, fun k h => absurd h (by simp [mem])⟩
  · obtain ⟨a, as, rfl⟩ := List.exists_cons_of_ne_nil hx.1
    exact ⟨approxNE a as, rfl, fun k h => approxNE_mem hx.2.2 h⟩
  · exact ⟨Itv.top, rfl, fun k _ => Itv.mem_top k⟩

/-! ### every constructor yields vectors of intervals with `lb ≠ +oo`, `ub ≠ -oo` -/

theorem ewf_of_wf {x : Dis} (hx : WF x) : EWF x := by
  obtain ⟨s, l⟩ := x
  cases s
  · intro a ha; simp only [WF] at hx; simp [hx] at ha
  · exact wfList_wf hx.2.2
  · intro a ha; simp only [WF] at hx; simp [hx] at ha

theorem mkList_ewf {l : List Itv} (hl : ∀ i ∈ l, i.WF) : EWF (mkList l) := by
  by_cases h1 : l.length ≤ 1
  · have : normalizeList l = (l, false) := by simp [normalizeList, h1]
    unfold mkList
    rw [this]
    cases l with
    | nil => intro a ha; simp at ha
    | cons a as =>
      have : ¬ (a :: as).length ≥ maxDisjunctions := by
        simp only [List.length_cons, maxDisjunctions] at h1 ⊢; omega
      simp only [this, if_false]
      exact hl
  · obtain ⟨hw, _, _, _, _⟩ := normalizeList_spec l hl (by omega)
    unfold mkList
    cases hr : normalizeList l with
    | mk r isBot =>
      rw [hr] at hw
      cases isBot with
      | true => intro a ha; simp at ha
      | false =>
        cases r with
        | nil => intro a ha; simp at ha
        | cons a as =>
          simp only
          split
          · intro i hi
            simp at hi; subst hi
            exact approxNE_wf (wfList_wf hw)
          · exact wfList_wf hw

theorem ofItv_ewf {i : Itv} (hw : i.WF) : EWF (ofItv i) := by
  unfold ofItv
  split
  · intro a ha; simp at ha
  · split
    · intro a ha; simp at ha
    · intro a ha; simp at ha; subst ha; exact hw

theorem join_ewf {x y : Dis} (hx : EWF x) (hy : EWF y) : EWF (join x y) := by
  obtain ⟨sx, lx⟩ := x
  obtain ⟨sy, ly⟩ := y
  cases sx <;> cases sy <;> try (simp_all [join, isBottom, isTop]; done)
  rw [join_fin]
  cases hv : joinVec lx ly with
  | none => intro a ha; simp at ha
  | some v =>
    obtain ⟨h1, _, _⟩ := joinVec_spec Itv.WF (fun a b => Itv.wf_join) hx hy hv
    match v, h1 with
    | [], _ => intro a ha; simp at ha
    | [r], h1 =>
      simp only
      split
      · intro a ha; simp at ha
      · exact mkList_ewf h1
    | a :: b :: c, h1 => exact mkList_ewf h1

/-! ### `trim_interval` -/

theorem wf_mk_fin_left (c : Int) {u : Bound} (hu : u ≠ .ninf) : (Itv.mk' (.fin c) u).WF :=
  Itv.wf_mk' (by simp) hu
theorem wf_mk_fin_right {l : Bound} (c : Int) (hl : l ≠ .pinf) : (Itv.mk' l (.fin c)).WF :=
  Itv.wf_mk' hl (by simp)

/-- one step of the loop keeps what was collected and adds the members of `i` other than `c` -/
theorem trimStep_spec (c : Int) {res : Dis} {i : Itv} (hr : EWF res) (hi : i.WF) :
    EWF (trimStep c res i) ∧
    ∀ k, (mem k res ∨ (Itv.mem k i ∧ k ≠ c)) → mem k (trimStep c res i) := by
  have hlo : (Itv.mk' i.lb (.fin (c - 1))).WF := wf_mk_fin_right _ hi.1
  have hup : (Itv.mk' (.fin (c + 1)) i.ub).WF := wf_mk_fin_left _ hi.2
  unfold trimStep
  split
  · refine ⟨join_ewf hr (ofItv_ewf hi), ?_⟩
    intro k hk
    apply join_mem_upper hr (ofItv_ewf hi)
    rcases hk with hk | hk
    · exact Or.inl hk
    · exact Or.inr ((mem_ofItv hi k).mpr hk.1)
  · split
    · rename_i hl
      have hl : i.lb = .fin c := by simpa using hl
      refine ⟨join_ewf hr (ofItv_ewf hup), ?_⟩
      intro k hk
      apply join_mem_upper hr (ofItv_ewf hup)
      rcases hk with hk | ⟨hk, hne⟩
      · exact Or.inl hk
      · right
        rw [mem_ofItv hup, Itv.mem_mk']
        have := hk.1; rw [hl] at this
        exact ⟨by simp at this ⊢; omega, hk.2⟩
    · split
      · rename_i hu
        have hu : i.ub = .fin c := by simpa using hu
        refine ⟨join_ewf hr (ofItv_ewf hlo), ?_⟩
        intro k hk
        apply join_mem_upper hr (ofItv_ewf hlo)
        rcases hk with hk | ⟨hk, hne⟩
        · exact Or.inl hk
        · right
          rw [mem_ofItv hlo, Itv.mem_mk']
          have := hk.2; rw [hu] at this
          exact ⟨hk.1, by simp at this ⊢; omega⟩
      · have h1 := join_ewf hr (ofItv_ewf hlo)
        refine ⟨join_ewf h1 (ofItv_ewf hup), ?_⟩
        intro k hk
        apply join_mem_upper h1 (ofItv_ewf hup)
        rcases hk with hk | ⟨hk, hne⟩
        · exact Or.inl (join_mem_upper hr (ofItv_ewf hlo) (Or.inl hk))
        · rcases Int.lt_or_gt_of_ne hne with hlt | hgt
          · left
            apply join_mem_upper hr (ofItv_ewf hlo)
            right
            rw [mem_ofItv hlo, Itv.mem_mk']
            exact ⟨hk.1, by simp; omega⟩
          · right
            rw [mem_ofItv hup, Itv.mem_mk']
            exact ⟨by simp; omega, hk.2⟩

theorem foldl_trim_spec (c : Int) : ∀ (l : List Itv) (res : Dis), (∀ i ∈ l, i.WF) → EWF res →
    ∀ k, (mem k res ∨ (memL k l ∧ k ≠ c)) → mem k (l.foldl (trimStep c) res) := by
  intro l
  induction l with
  | nil =>
    intro res _ _ k hk
    rcases hk with hk | ⟨hk, _⟩
    · exact hk
    · exact absurd hk (memL_nil k)
  | cons i more ih =>
    intro res hl hr k hk
    obtain ⟨h1, h2⟩ := trimStep_spec c hr (hl i (by simp))
    simp only [List.foldl_cons]
    apply ih _ (fun j hj => hl j (List.mem_cons_of_mem _ hj)) h1
    rcases hk with hk | ⟨hk, hne⟩
    · exact Or.inl (h2 k (Or.inl hk))
    · rcases memL_cons.mp hk with hk | hk
      · exact Or.inl (h2 k (Or.inr ⟨hk, hne⟩))
      · exact Or.inr ⟨hk, hne⟩

/-- `trim_interval(x, y)` keeps every member of `x` unless `y` is the singleton of that member -/
theorem trim_sound {x y r : Dis} (hx : EWF x) (h : trim x y = some r) {k : Int} (hk : mem k x)
    (hne : singleton? y ≠ some (some k)) : mem k r := by
  unfold trim at h
  split at h
  · simp at h; subst h; exact hk
  · split at h
    · simp at h
    · simp at h; subst h; exact hk
    · rename_i c hc
      have hkc : k ≠ c := by intro e; subst e; exact hne hc
      split at h
      · simp at h; subst h
        have hlo : ((Itv.single (c - 1)).lowerHalfLine).WF := Itv.wf_lowerHalfLine (Itv.wf_single _)
        have hup : ((Itv.single (c + 1)).upperHalfLine).WF := Itv.wf_upperHalfLine (Itv.wf_single _)
        have hb : EWF bot := by intro a ha; simp [bot] at ha
        have h1 := join_ewf hb (ofItv_ewf hlo)
        apply join_mem_upper h1 (ofItv_ewf hup)
        rcases Int.lt_or_gt_of_ne hkc with hlt | hgt
        · left
          apply join_mem_upper hb (ofItv_ewf hlo)
          right
          rw [mem_ofItv hlo]
          simp only [Itv.lowerHalfLine, Itv.single, Itv.mem_mk']
          exact ⟨by simp, by simp; omega⟩
        · right
          rw [mem_ofItv hup]
          simp only [Itv.upperHalfLine, Itv.single, Itv.mem_mk']
          exact ⟨by simp; omega, by simp⟩
      · rename_i hnb hnt
        simp at h; subst h
        have hb : EWF bot := by intro a ha; simp [bot] at ha
        apply foldl_trim_spec c x.l bot hx hb
        right
        obtain ⟨s, l⟩ := x
        cases s <;> simp_all [isBottom, isTop, mem, memL]

end Dis
end Crab
