import CrabProofs.Lemmas.FunctorPowerset

/-!
Transformers of `powerset_domain` (pointwise application with the three post-passes of the code:
none, removal of bottom disjuncts, collapse to top) and the lower-bound property of the exact meet.
-/
namespace Crab
namespace Dom
namespace Fct

variable {S : Type}

namespace PSet
variable {D : LDom S}

theorem map_sound {f : D.B → D.B} {r : S → S → Prop} (hf : D.TSound f r) {ps : List D.B} {s s' : S}
    (hg : γ (ps : PSet D) s) (hr : r s s') : γ (ps.map f : PSet D) s' := by
  obtain ⟨d, hd, gd⟩ := hg
  exact ⟨f d, List.mem_map.2 ⟨d, hd, rfl⟩, hf d s s' gd hr⟩

theorem filter_sound {ps : List D.B} {s : S} (hg : γ (ps : PSet D) s) :
    γ (ps.filter (fun d => !D.isBot d) : PSet D) s := by
  obtain ⟨d, hd, gd⟩ := hg
  exact ⟨d, List.mem_filter.2 ⟨hd, by simp [D.isBot_false_of_γ gd]⟩, gd⟩

theorem mapOp_sound {f : D.B → D.B} {r : S → S → Prop} (hf : D.TSound f r) {ps : PSet D} {s s' : S}
    (hg : γ ps s) (hr : r s s') : γ (mapOp f ps) s' := by
  unfold mapOp
  rw [isBottom_false_of_γ hg]
  exact map_sound hf hg hr

theorem filterOp_sound {f : D.B → D.B} {r : S → S → Prop} (hf : D.TSound f r) {ps : PSet D} {s s' : S}
    (hg : γ ps s) (hr : r s s') : γ (filterOp f ps) s' := by
  unfold filterOp
  rw [isBottom_false_of_γ hg]
  exact filter_sound (map_sound hf hg hr)

theorem addOp_sound {f : D.B → D.B} {r : S → S → Prop} (hf : D.TSound f r) (isTrue isFalse : Bool)
    (hT : isTrue = true → ∀ s s', r s s' → s' = s) (hF : isFalse = true → ∀ s s', ¬ r s s')
    {ps : PSet D} {s s' : S} (hg : γ ps s) (hr : r s s') : γ (addOp isTrue isFalse f ps) s' := by
  unfold addOp
  rw [isBottom_false_of_γ hg]
  cases isTrue
  · cases isFalse
    · simp only [Bool.or_self, Bool.false_eq_true, if_false]
      exact filter_sound (map_sound hf hg hr)
    · exact absurd hr (hF rfl s s')
  · simp only [Bool.or_true, if_true]
    rw [hT rfl s s' hr]; exact hg

theorem forgetGo_some {f : D.B → D.B} : ∀ {ps r : List D.B}, forgetGo (D := D) f ps = some r → r = ps.map f
  | [], r, h => by simp [forgetGo] at h; simp [h]
  | d :: ds, r, h => by
    unfold forgetGo at h
    split at h
    · simp at h
    · split at h
      · simp at h
      · rename_i r' hr'
        simp only [Option.some.injEq] at h
        rw [← h, forgetGo_some hr']; rfl

/-- when the loop stops early some transformed disjunct was recognised as top -/
theorem forgetGo_none {f : D.B → D.B} : ∀ {ps : List D.B}, forgetGo (D := D) f ps = none →
    ∃ d ∈ ps, D.isTop (f d) = true
  | [], h => by simp [forgetGo] at h
  | d :: ds, h => by
    unfold forgetGo at h
    split at h
    · rename_i ht; exact ⟨d, by simp, ht⟩
    · split at h
      · rename_i hn
        obtain ⟨x, hx, ht⟩ := forgetGo_none hn
        exact ⟨x, List.mem_cons_of_mem _ hx, ht⟩
      · simp at h

theorem forgetOp_sound {f : D.B → D.B} {r : S → S → Prop} (hf : D.TSound f r) {ps : PSet D} {s s' : S}
    (hg : γ ps s) (hr : r s s') : γ (forgetOp f ps) s' := by
  unfold forgetOp
  rw [isBottom_false_of_γ hg]
  simp only [Bool.not_false, if_true]
  split
  · exact γ_top s'
  · rename_i r' hr'
    rw [forgetGo_some hr']
    exact map_sound hf hg hr

/-! ### `is_top`, lower bound of the exact meet -/

theorem meetPairs_lower (m : D.MeetLower) {a b : PSet D} {s : S} (h : γ (meetPairs a b) s) : γ a s ∧ γ b s := by
  obtain ⟨d, hd, gd⟩ := h
  unfold meetPairs at hd
  rw [List.mem_flatMap] at hd
  obtain ⟨x, hx, hd⟩ := hd
  rw [List.mem_filter] at hd
  obtain ⟨y, hy, rfl⟩ := List.mem_map.1 hd.1
  have := m x y s gd
  exact ⟨⟨x, hx, this.1⟩, ⟨y, hy, this.2⟩⟩

/-- the exact meet is a lower bound as long as its result is not smashed -/
theorem meetWith_lower (t : D.TopSound) (m : D.MeetLower) (P : PParams) {a b : PSet D}
    (hlen : (normalizeIfTop (meetPairs a b)).length ≤ P.maxDisjuncts) {s : S}
    (h : γ (meetWith P a b) s) : γ a s ∧ γ b s := by
  unfold meetWith at h
  split at h
  · exact absurd h (not_γ_bottom s)
  · split at h
    · rename_i ht; exact ⟨γ_of_isTop t ht s, h⟩
    · split at h
      · rename_i ht; exact ⟨h, γ_of_isTop t ht s⟩
      · unfold ofVec at h
        simp only at h
        rw [if_neg (by omega)] at h
        exact meetPairs_lower m (normalizeIfTop_lower t h)

end PSet
end Fct
end Dom
end Crab
