import CrabProofs.Lemmas.DisIntervalBasic

/-! `normalize` of `dis_interval` (`Crab.Dis.absorb`, `normLoop`, `normalizeList`, `mkList`): the
    result describes exactly the union of the intervals of the vector, and it is a normalised vector. -/
namespace Crab
namespace Dis
open Bound

/-- some interval of the vector contains `k` -/
def memL (k : Int) (l : List Itv) : Prop := ∃ i ∈ l, Itv.mem k i

theorem memL_cons {k : Int} {a : Itv} {l : List Itv} : memL k (a :: l) ↔ Itv.mem k a ∨ memL k l := by
  simp [memL]

theorem memL_nil (k : Int) : ¬ memL k [] := by simp [memL]

/-- what `absorb` leaves: the new vector and the interval to push, if any -/
def outMem (k : Int) (p : List Itv × Option Itv) : Prop :=
  memL k p.1 ∨ ∃ v, p.2 = some v ∧ Itv.mem k v

/-! ### `absorb` -/

theorem absorb_mem_iff (intv : Itv) (res : List Itv) (k : Int) :
    outMem k (absorb intv res) ↔ (Itv.mem k intv ∨ memL k res) := by
  induction res generalizing intv with
  | nil => simp [absorb, outMem, memL]
  | cons prev rest ih =>
    unfold absorb
    split
    · rename_i hm
      rw [ih, memL_cons]
      have hm' : overlap prev intv = true ∨ areConsecutive prev intv = true := by simpa using hm
      constructor
      · rintro (h | h)
        · rcases join_exact_of_merge hm' h with h | h
          · exact Or.inr (Or.inl h)
          · exact Or.inl h
        · exact Or.inr (Or.inr h)
      · rintro (h | h | h)
        · exact Or.inl (Itv.join_upper_right h)
        · exact Or.inl (Itv.join_upper_left h)
        · exact Or.inr h
    · split
      · rename_i hle
        simp only [outMem, memL_cons]
        constructor
        · rintro (h | ⟨v, hv, _⟩)
          · exact Or.inr h
          · simp at hv
        · rintro (h | h)
          · exact Or.inl (Or.inl (Itv.leq_sound hle h))
          · exact Or.inl h
      · simp only [outMem, memL_cons]
        constructor
        · rintro (h | ⟨v, hv, hk⟩)
          · exact Or.inr h
          · simp at hv; subst hv; exact Or.inl hk
        · rintro (h | h)
          · exact Or.inr ⟨intv, rfl, h⟩
          · exact Or.inl h

/-- the vector under construction, last element first: proper intervals, each one separated
    from the older ones by a gap -/
def Stack (res : List Itv) : Prop :=
  (∀ r ∈ res, proper r = true) ∧ res.Pairwise (fun newer older => gapOk older newer = true)

theorem stack_nil : Stack [] := ⟨by simp, List.Pairwise.nil⟩

theorem Stack.tail {a : Itv} {l : List Itv} (h : Stack (a :: l)) : Stack l :=
  ⟨fun r hr => h.1 r (List.mem_cons_of_mem _ hr), (List.pairwise_cons.mp h.2).2⟩

/-- older elements of a stack have smaller lower bounds -/
theorem Stack.lb_le {a : Itv} {l : List Itv} (h : Stack (a :: l)) {r : Itv} (hr : r ∈ l) :
    Bound.le r.lb a.lb = true := by
  have hg := (List.pairwise_cons.mp h.2).1 r hr
  have hr' := (proper_iff r).mp (h.1 r (List.mem_cons_of_mem _ hr))
  have ha' := (proper_iff a).mp (h.1 a (by simp))
  exact (gapOk_facts hr'.1 ha'.1 hg).2.2.2.2.1

/-- structure of the result of `absorb` on a stack: a suffix of the stack and, if an interval is
    to be pushed, it is not bottom, well formed, separated from the rest and starts no later than
    the absorbed interval -/
theorem absorb_struct (intv : Itv) (res : List Itv) (hs : Stack res)
    (hb : intv.isBottom = false) (hw : intv.WF) (hlb : ∀ r ∈ res, Bound.le r.lb intv.lb = true) :
    (absorb intv res).1 <:+ res ∧
    (∀ v, (absorb intv res).2 = some v →
      v.isBottom = false ∧ v.WF ∧ Bound.le v.lb intv.lb = true ∧
      ∀ r ∈ (absorb intv res).1, gapOk r v = true) ∧
    ((absorb intv res).2 = none → (absorb intv res).1 ≠ []) := by
  induction res generalizing intv with
  | nil =>
    simp only [absorb]
    refine ⟨List.suffix_refl _, ?_, by simp⟩
    intro v hv
    simp at hv; subst hv
    exact ⟨hb, hw, Bound.le_refl _, by simp⟩
  | cons prev rest ih =>
    have hp := (proper_iff prev).mp (hs.1 prev (by simp))
    unfold absorb
    split
    · -- merged with `prev`
      have hjb : (Itv.join prev intv).isBottom = false := join_isBottom hp.1
      have hjw : (Itv.join prev intv).WF := Itv.wf_join hp.2.2 hw
      have hjl : (Itv.join prev intv).lb = Bound.min prev.lb intv.lb := join_lb hp.1 hb
      have hlb' : ∀ r ∈ rest, Bound.le r.lb (Itv.join prev intv).lb = true := by
        intro r hr
        rw [hjl]
        exact Bound.le_min (hs.lb_le hr) (hlb r (List.mem_cons_of_mem _ hr))
      obtain ⟨h1, h2, h3⟩ := ih (Itv.join prev intv) hs.tail hjb hjw hlb'
      refine ⟨List.IsSuffix.trans h1 (List.suffix_cons _ _), ?_, h3⟩
      intro v hv
      obtain ⟨a, b, c, d⟩ := h2 v hv
      refine ⟨a, b, ?_, d⟩
      rw [hjl] at c
      exact Bound.le_trans c (Bound.min_le_right _ _)
    · rename_i hm
      have hm1 : overlap prev intv = false := by
        cases h : overlap prev intv <;> simp_all
      have hm2 : areConsecutive prev intv = false := by
        cases h : areConsecutive prev intv <;> simp_all
      split
      · exact ⟨List.suffix_refl _, by simp, by simp⟩
      · refine ⟨List.suffix_refl _, ?_, by simp⟩
        intro v hv
        simp at hv; subst hv
        have hg : gapOk prev intv = true :=
          sep_of_not_merge hp.1 hb hp.2.2 hw (hlb prev (by simp)) hm1 hm2
        refine ⟨hb, hw, Bound.le_refl _, ?_⟩
        intro r hr
        rcases List.mem_cons.mp hr with rfl | hr
        · exact hg
        · exact gapOk_trans hp.1 ((List.pairwise_cons.mp hs.2).1 r hr) hg

theorem Stack.of_suffix {l l' : List Itv} (h : Stack l) (hs : l' <:+ l) : Stack l' :=
  ⟨fun r hr => h.1 r (hs.subset hr), List.Pairwise.sublist hs.sublist h.2⟩

theorem mem_of_isTop {i : Itv} (ht : i.isTop = true) (hw : i.WF) (k : Int) : Itv.mem k i := by
  obtain ⟨l, u⟩ := i
  cases l <;> cases u <;> simp_all [Itv.isTop, Itv.WF, Itv.mem, Bound.isInfinite]

theorem not_mem_of_isBottom' {i : Itv} (hb : i.isBottom = true) (k : Int) : ¬ Itv.mem k i :=
  Itv.not_mem_of_isBottom hb

/-! ### the loop of `normalize` -/

/-- invariant of the loop: the rest of the sorted vector, the stack built so far, `prev` -/
structure NInv (l res : List Itv) (prev : Itv) : Prop where
  hl : ∀ i ∈ l, i.WF
  hsorted : LbSorted l
  hres : Stack res
  hrl : ∀ r ∈ res, ∀ i ∈ l, Bound.le r.lb i.lb = true
  hprev : (prev = Itv.top ∧ res = []) ∨ (∃ rest, res = prev :: rest)

/-- what the loop guarantees -/
def NPost (l res : List Itv) (b : Nat) : Option (List Itv × Nat) → Prop
  | none => ∀ k, memL k l ∨ memL k res
  | some (res', b') =>
    Stack res' ∧ (∀ k, memL k res' ↔ (memL k l ∨ memL k res)) ∧
    res'.length ≤ res.length + l.length ∧ b' ≤ b + l.length ∧
    (b' = b + l.length → ∀ i ∈ l, i.isBottom = true) ∧
    (res' = [] → res = [] ∧ b' = b + l.length)

theorem normLoop_spec (l : List Itv) : ∀ (res : List Itv) (prev : Itv) (b : Nat),
    NInv l res prev → NPost l res b (normLoop l res prev b) := by
  induction l with
  | nil =>
    intro res prev b inv
    simp only [normLoop, NPost]
    exact ⟨inv.hres, fun k => by simp [memL_nil], by simp, by simp, by simp, by simp⟩
  | cons intv more ih =>
    intro res prev b inv
    have hwi : intv.WF := inv.hl intv (by simp)
    have hsm : LbSorted more := (List.pairwise_cons.mp inv.hsorted).2
    have hlm : ∀ i ∈ more, i.WF := fun i hi => inv.hl i (List.mem_cons_of_mem _ hi)
    have hrlm : ∀ r ∈ res, ∀ i ∈ more, Bound.le r.lb i.lb = true :=
      fun r hr i hi => inv.hrl r hr i (List.mem_cons_of_mem _ hi)
    unfold normLoop
    split
    · -- a top interval
      rename_i ht
      intro k
      exact Or.inl (memL_cons.mpr (Or.inl (mem_of_isTop ht hwi k)))
    rename_i hnt
    have hnt : intv.isTop = false := by simpa using hnt
    split
    · -- duplicate of `prev`
      rename_i hdup
      rcases inv.hprev with ⟨hpt, _⟩ | ⟨rest, hres⟩
      · exfalso
        subst hpt
        obtain ⟨il, iu⟩ := intv
        simp [Itv.beq, Itv.top, Itv.isBottom, Bound.gt] at hdup
        simp [Itv.isTop, ← hdup.1, ← hdup.2, Bound.isInfinite] at hnt
      · have hpp := (proper_iff prev).mp (inv.hres.1 prev (by simp [hres]))
        have heq : intv = prev := by
          obtain ⟨pl, pu⟩ := prev
          obtain ⟨il, iu⟩ := intv
          simp [Itv.beq, hpp.1] at hdup
          simp [hdup.1, hdup.2]
        have h := ih res prev b ⟨hlm, hsm, inv.hres, hrlm, inv.hprev⟩
        cases hr : normLoop more res prev b with
        | none =>
          rw [hr] at h
          intro k
          rcases h k with h | h
          · exact Or.inl (memL_cons.mpr (Or.inr h))
          · exact Or.inr h
        | some p =>
          obtain ⟨res', b'⟩ := p
          rw [hr] at h
          obtain ⟨h1, h2, h3, h4, _, h6⟩ := h
          refine ⟨h1, ?_, by simp; omega, by simp; omega, ?_, ?_⟩
          · intro k
            rw [h2 k, memL_cons]
            constructor
            · rintro (h | h)
              · exact Or.inl (Or.inr h)
              · exact Or.inr h
            · rintro ((h | h) | h)
              · right; rw [hres, memL_cons]; left; rw [← heq]; exact h
              · exact Or.inl h
              · exact Or.inr h
          · intro he; simp at he; omega
          · intro he; have := (h6 he).1; simp [hres] at this
    rename_i hndup
    split
    · -- a bottom interval
      rename_i hbot
      have h := ih res prev (b + 1) ⟨hlm, hsm, inv.hres, hrlm, inv.hprev⟩
      cases hr : normLoop more res prev (b + 1) with
      | none =>
        rw [hr] at h
        intro k
        rcases h k with h | h
        · exact Or.inl (memL_cons.mpr (Or.inr h))
        · exact Or.inr h
      | some p =>
        obtain ⟨res', b'⟩ := p
        rw [hr] at h
        obtain ⟨h1, h2, h3, h4, h5, h6⟩ := h
        refine ⟨h1, ?_, by simp; omega, by simp; omega, ?_, ?_⟩
        · intro k
          rw [h2 k, memL_cons]
          constructor
          · rintro (h | h)
            · exact Or.inl (Or.inr h)
            · exact Or.inr h
          · rintro ((h | h) | h)
            · exact absurd h (Itv.not_mem_of_isBottom hbot)
            · exact Or.inl h
            · exact Or.inr h
        · intro he i hi
          rcases List.mem_cons.mp hi with rfl | hi
          · exact hbot
          · exact h5 (by simp at he; omega) i hi
        · intro he
          obtain ⟨a, c⟩ := h6 he
          exact ⟨a, by simp; omega⟩
    rename_i hnb
    have hnb : intv.isBottom = false := by simpa using hnb
    -- the `if` on `prev.is_top()` is the call of `absorb` in every reachable state
    have hif : (if (!prev.isTop) = true then absorb intv res else (res, some intv)) = absorb intv res := by
      split
      · rfl
      · rename_i hpt
        rcases inv.hprev with ⟨_, hres⟩ | ⟨rest, hres⟩
        · simp [hres, absorb]
        · have hpp := (proper_iff prev).mp (inv.hres.1 prev (by simp [hres]))
          simp [hpp.2.1] at hpt
    rw [hif]
    have hlb : ∀ r ∈ res, Bound.le r.lb intv.lb = true := fun r hr => inv.hrl r hr intv (by simp)
    obtain ⟨hs1, hs2, hs3⟩ := absorb_struct intv res inv.hres hnb hwi hlb
    have hmem := absorb_mem_iff intv res
    cases ha : absorb intv res with
    | mk res'' o =>
      rw [ha] at hs1 hs2 hs3 hmem
      simp only at hs1 hs2 hs3
      have hst'' : Stack res'' := inv.hres.of_suffix hs1
      have hlen'' : res''.length ≤ res.length := hs1.length_le
      cases o with
      | none =>
        simp only
        have hne : res'' ≠ [] := hs3 rfl
        obtain ⟨hd, tl, htl⟩ := List.exists_cons_of_ne_nil hne
        have h := ih res'' (res''.headD prev) b
          ⟨hlm, hsm, hst'', fun r hr => hrlm r (hs1.subset hr), Or.inr ⟨tl, by simp [htl]⟩⟩
        have hm : ∀ k, memL k res'' ↔ (Itv.mem k intv ∨ memL k res) := by
          intro k; rw [← hmem k]; simp [outMem]
        cases hr : normLoop more res'' (res''.headD prev) b with
        | none =>
          rw [hr] at h
          intro k
          rcases h k with h | h
          · exact Or.inl (memL_cons.mpr (Or.inr h))
          · rcases (hm k).mp h with h | h
            · exact Or.inl (memL_cons.mpr (Or.inl h))
            · exact Or.inr h
        | some p =>
          obtain ⟨res', b'⟩ := p
          rw [hr] at h
          obtain ⟨h1, h2, h3, h4, _, h6⟩ := h
          refine ⟨h1, ?_, by simp; omega, by simp; omega, ?_, ?_⟩
          · intro k
            rw [h2 k, hm k, memL_cons]
            constructor
            · rintro (h | h | h)
              · exact Or.inl (Or.inr h)
              · exact Or.inl (Or.inl h)
              · exact Or.inr h
            · rintro ((h | h) | h)
              · exact Or.inr (Or.inl h)
              · exact Or.inl h
              · exact Or.inr (Or.inr h)
          · intro he; simp at he; omega
          · intro he; exact absurd (h6 he).1 hne
      | some v =>
        simp only
        obtain ⟨hvb, hvw, hvl, hvg⟩ := hs2 v rfl
        have hm : ∀ k, (Itv.mem k v ∨ memL k res'') ↔ (Itv.mem k intv ∨ memL k res) := by
          intro k; rw [← hmem k]; simp [outMem, or_comm]
        split
        · rename_i hvt
          intro k
          rcases (hm k).mp (Or.inl (mem_of_isTop hvt hvw k)) with h | h
          · exact Or.inl (memL_cons.mpr (Or.inl h))
          · exact Or.inr h
        · rename_i hvt
          have hvt : v.isTop = false := by simpa using hvt
          have hstv : Stack (v :: res'') := by
            refine ⟨?_, List.pairwise_cons.mpr ⟨hvg, hst''.2⟩⟩
            intro r hr
            rcases List.mem_cons.mp hr with rfl | hr
            · exact (proper_iff _).mpr ⟨hvb, hvt, hvw⟩
            · exact hst''.1 r hr
          have hrl' : ∀ r ∈ v :: res'', ∀ i ∈ more, Bound.le r.lb i.lb = true := by
            intro r hr i hi
            rcases List.mem_cons.mp hr with rfl | hr
            · exact Bound.le_trans hvl ((List.pairwise_cons.mp inv.hsorted).1 i hi)
            · exact hrlm r (hs1.subset hr) i hi
          have h := ih (v :: res'') v b ⟨hlm, hsm, hstv, hrl', Or.inr ⟨res'', rfl⟩⟩
          cases hr : normLoop more (v :: res'') v b with
          | none =>
            rw [hr] at h
            intro k
            rcases h k with h | h
            · exact Or.inl (memL_cons.mpr (Or.inr h))
            · rcases (hm k).mp (memL_cons.mp h) with h | h
              · exact Or.inl (memL_cons.mpr (Or.inl h))
              · exact Or.inr h
          | some p =>
            obtain ⟨res', b'⟩ := p
            rw [hr] at h
            obtain ⟨h1, h2, h3, h4, _, h6⟩ := h
            refine ⟨h1, ?_, by simp at h3 ⊢; omega, by simp; omega, ?_, ?_⟩
            · intro k
              rw [h2 k, memL_cons (a := v), hm k, memL_cons]
              constructor
              · rintro (h | h | h)
                · exact Or.inl (Or.inr h)
                · exact Or.inl (Or.inl h)
                · exact Or.inr h
              · rintro ((h | h) | h)
                · exact Or.inr (Or.inl h)
                · exact Or.inl h
                · exact Or.inr (Or.inr h)
            · intro he; simp at he; omega
            · intro he; have := (h6 he).1; simp at this

end Dis
end Crab
