import CrabProofs.Lemmas.DbmIncrAssign3

/-!
  `GraphOps::repair_potential`: Dijkstra on the reduced costs from `jj`, restricted to the vertices
  whose potential has to drop.

  A potential `p` is a SOLUTION of the graph (`g.sat p`: `p d - p s ≤ w` for every edge
  `s → d` of weight `w`, i.e. every reduced cost `p s + w - p d` is non-negative).
  * `RInvX`: the loop invariant (finalised vertices are frozen, minimal, and their outgoing edges
    relaxed; every negative `dists[v]` is witnessed by a path `ii → jj ⇝ v`);
  * `pickMin_spec`: `removeMin` returns a minimal member of the heap.
-/
namespace Crab
namespace DbmIncr
open Dbm Zones

variable {n : Nat}

/-- the comparison step of `pickMin` -/
def pickStep (dists : Fin (n + 1) → Int) (heap : Fin (n + 1) → Bool)
    (best : Option (Fin (n + 1))) (u : Fin (n + 1)) : Option (Fin (n + 1)) :=
  if heap u then
    match best with
    | none => some u
    | some b => if dists u < dists b then some u else some b
  else best

theorem pickMin_aux (dists : Fin (n + 1) → Int) (heap : Fin (n + 1) → Bool) :
    ∀ (l : List (Fin (n + 1))) (best : Option (Fin (n + 1))) (S : Fin (n + 1) → Prop),
      (best = none → ∀ u, S u → heap u = false) →
      (∀ b, best = some b → heap b = true ∧ ∀ u, S u → heap u = true → dists b ≤ dists u) →
      ((l.foldl (pickStep dists heap) best = none → ∀ u, (S u ∨ u ∈ l) → heap u = false) ∧
       (∀ b, l.foldl (pickStep dists heap) best = some b →
          heap b = true ∧ ∀ u, (S u ∨ u ∈ l) → heap u = true → dists b ≤ dists u)) := by
  intro l
  induction l with
  | nil =>
    intro best S h1 h2
    refine ⟨fun hb u hu => h1 hb u (hu.elim id (fun h => by cases h)), fun b hb => ?_⟩
    obtain ⟨a, c⟩ := h2 b hb
    exact ⟨a, fun u hu => c u (hu.elim id (fun h => by cases h))⟩
  | cons x l ih =>
    intro best S h1 h2
    rw [List.foldl_cons]
    have key := ih (pickStep dists heap best x) (fun u => S u ∨ u = x) ?_ ?_
    · obtain ⟨k1, k2⟩ := key
      refine ⟨fun hb u hu => k1 hb u ?_, fun b hb => ?_⟩
      · rcases hu with hu | hu
        · exact Or.inl (Or.inl hu)
        · rcases List.mem_cons.1 hu with hu | hu
          · exact Or.inl (Or.inr hu)
          · exact Or.inr hu
      · obtain ⟨a, c⟩ := k2 b hb
        refine ⟨a, fun u hu => c u ?_⟩
        rcases hu with hu | hu
        · exact Or.inl (Or.inl hu)
        · rcases List.mem_cons.1 hu with hu | hu
          · exact Or.inl (Or.inr hu)
          · exact Or.inr hu
    · intro hb u hu
      unfold pickStep at hb
      cases hx : heap x with
      | false =>
        simp only [hx, Bool.false_eq_true, if_false] at hb
        rcases hu with hu | hu
        · exact h1 hb u hu
        · rw [hu]; exact hx
      | true =>
        simp only [hx, if_true] at hb
        cases best with
        | none => simp at hb
        | some b => simp only at hb; split at hb <;> cases hb
    · intro b hb
      unfold pickStep at hb
      cases hx : heap x with
      | false =>
        simp only [hx, Bool.false_eq_true, if_false] at hb
        obtain ⟨a, c⟩ := h2 b hb
        refine ⟨a, fun u hu hh => ?_⟩
        rcases hu with hu | hu
        · exact c u hu hh
        · rw [hu, hx] at hh; cases hh
      | true =>
        simp only [hx, if_true] at hb
        cases best with
        | none =>
          simp only [Option.some.injEq] at hb
          subst hb
          refine ⟨hx, fun u hu hh => ?_⟩
          rcases hu with hu | hu
          · have := h1 rfl u hu; rw [this] at hh; cases hh
          · rw [hu]; exact Int.le_refl _
        | some b0 =>
          simp only at hb
          obtain ⟨a, c⟩ := h2 b0 rfl
          by_cases hlt : dists x < dists b0
          · simp only [hlt, if_true, Option.some.injEq] at hb
            subst hb
            refine ⟨hx, fun u hu hh => ?_⟩
            rcases hu with hu | hu
            · have := c u hu hh; omega
            · rw [hu]; exact Int.le_refl _
          · simp only [hlt, if_false, Option.some.injEq] at hb
            subst hb
            refine ⟨a, fun u hu hh => ?_⟩
            rcases hu with hu | hu
            · exact c u hu hh
            · rw [hu]; omega

/-- `removeMin`: a minimal member of the heap, `none` iff the heap is empty -/
theorem pickMin_spec (vs : List (Fin (n + 1))) (hvs : ∀ v, v ∈ vs) (dists : Fin (n + 1) → Int)
    (heap : Fin (n + 1) → Bool) :
    (pickMin vs dists heap = none → ∀ u, heap u = false) ∧
    (∀ b, pickMin vs dists heap = some b →
      heap b = true ∧ ∀ u, heap u = true → dists b ≤ dists u) := by
  obtain ⟨k1, k2⟩ := pickMin_aux dists heap vs none (fun _ => False)
    (fun _ u hu => hu.elim) (fun b hb => by cases hb)
  refine ⟨fun hb u => k1 hb u (Or.inr (hvs u)), fun b hb => ?_⟩
  obtain ⟨a, c⟩ := k2 b hb
  exact ⟨a, fun u hh => c u (Or.inr (hvs u)) hh⟩

end DbmIncr
end Crab
