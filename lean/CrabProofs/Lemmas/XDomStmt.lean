import CrabProofs.Lemmas.XDomLin
import CrabModel.Dom.History

/-!
  The statements an operation history of a non-relational domain is made of (one call of the
  domain each), with their concrete meaning as a relation on integer valuations and the side
  conditions on their arguments (machine-indexed variables, canonical constraints).  The abstract
  execution is defined per domain (`CDom.exec`, `SDom.exec`).
-/
namespace Crab
namespace XDom
open Lin

inductive Stmt where
  | assign (x : Var) (e : Expr)
  | weakAssign (x : Var) (e : Expr)
  | arithVar (op : ArithOp) (x y z : Var)
  | arithCst (op : ArithOp) (x y : Var) (k : Int)
  | bitVar (op : BitOp) (x y z : Var)
  | bitCst (op : BitOp) (x y : Var) (k : Int)
  | assume (csts : Sys)
  | select (lhs : Var) (cond : Lin.Cst) (e1 e2 : Expr)
  | forget (x : Var)
  | havoc (vs : List Var)
  | project (vs : List Var)
  | expand (x nx : Var)
  | cast (zext : Bool) (bw : Nat) (dst src : Var)

namespace Stmt

/-- concrete meaning: the transition relation on states -/
def rel : Stmt → State → State → Prop
  | assign x e, s, s' => s' = upd s x (e.eval s)
  | weakAssign x e, s, s' => s' = s ∨ s' = upd s x (e.eval s)
  | arithVar op x y z, s, s' => ∃ c, op.conc (s y) (s z) = some c ∧ s' = upd s x c
  | arithCst op x y k, s, s' => ∃ c, op.conc (s y) k = some c ∧ s' = upd s x c
  | bitVar op x y z, s, s' => ∃ c, op.conc (s y) (s z) = some c ∧ s' = upd s x c
  | bitCst op x y k, s, s' => ∃ c, op.conc (s y) k = some c ∧ s' = upd s x c
  | assume csts, s, s' => Sys.sat csts s ∧ s' = s
  | select lhs c e1 e2, s, s' => s' = upd s lhs (if c.sat s then e1.eval s else e2.eval s)
  | forget x, s, s' => ∃ n, s' = upd s x n
  | havoc vs, s, s' => ∀ y, y ∉ vs → s' y = s y
  | project vs, s, s' => ∀ y, y ∈ vs → s' y = s y
  | expand x nx, s, s' => s' = upd s nx (s x)
  | cast z bw d src, s, s' => (z = true → s src ≤ 2 ^ bw - 1) ∧ s' = upd s d (s src)

/-- the arguments are in the form the classes `variable` / `linear_expression` maintain:
    variable indexes fit `index_t`, constraints are canonical -/
def Ok : Stmt → Prop
  | assign x _ => x < 2 ^ 64
  | weakAssign x _ => x < 2 ^ 64
  | arithVar _ x _ _ => x < 2 ^ 64
  | arithCst _ x _ _ => x < 2 ^ 64
  | bitVar _ x _ _ => x < 2 ^ 64
  | bitCst _ x _ _ => x < 2 ^ 64
  | assume csts => ∀ c ∈ csts, CstOk c
  | select lhs c _ _ => lhs < 2 ^ 64 ∧ CstOk c
  | forget x => x < 2 ^ 64
  | havoc vs => ∀ v ∈ vs, v < 2 ^ 64
  | project vs => ∀ v ∈ vs, v < 2 ^ 64
  | expand _ nx => nx < 2 ^ 64
  | cast _ _ d _ => d < 2 ^ 64

end Stmt
end XDom
end Crab
