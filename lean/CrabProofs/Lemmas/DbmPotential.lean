import CrabProofs.Lemmas.Dbm

/-!
  The potential (shortest-path) argument: every closed matrix has integer solutions, each finite
  entry is attained by a solution and infinite entries are unbounded.

  `potential m c v = min_u (c u + m u v)` (distance from a virtual source that reaches `u` at
  cost `c u`).  For a closed `m` it is finite and satisfies `pot b ≤ pot a + m a b`, so
  `v ↦ -pot v` is a solution.  With `c i = 0` and `c u = L` (large) elsewhere, the solution has
  `v i - v j = m i j` for every finite entry of row `i` and `v i - v j ≥ L - absSum m` otherwise.
-/
namespace Crab
namespace Dbm
namespace Mat
variable {N : Nat}

/-! ### finite minimum -/

theorem foldl_min_LE_init (l : List (Fin N)) (f : Fin N → W) (a : W) :
    W.LE (l.foldl (fun acc u => W.min acc (f u)) a) a := by
  induction l generalizing a with
  | nil => exact W.LE_refl a
  | cons u l ih => exact W.LE_trans (ih _) (W.min_LE_left _ _)

theorem foldl_min_LE_mem (l : List (Fin N)) (f : Fin N → W) (a : W) {u : Fin N} (hu : u ∈ l) :
    W.LE (l.foldl (fun acc u => W.min acc (f u)) a) (f u) := by
  induction l generalizing a with
  | nil => cases hu
  | cons w l ih =>
    rw [List.foldl_cons]
    rcases List.mem_cons.1 hu with rfl | hu
    · exact W.LE_trans (foldl_min_LE_init l f _) (W.min_LE_right _ _)
    · exact ih _ hu

theorem foldl_min_eq (l : List (Fin N)) (f : Fin N → W) (a : W) :
    l.foldl (fun acc u => W.min acc (f u)) a = a ∨ ∃ u, l.foldl (fun acc u => W.min acc (f u)) a = f u := by
  induction l generalizing a with
  | nil => exact Or.inl rfl
  | cons w l ih =>
    rw [List.foldl_cons]
    rcases ih (W.min a (f w)) with h | ⟨u, h⟩
    · rcases W.min_eq_or a (f w) with h2 | h2
      · left; rw [h, h2]
      · right; exact ⟨w, by rw [h, h2]⟩
    · exact Or.inr ⟨u, h⟩

theorem minOver_LE (f : Fin N → W) (u : Fin N) : W.LE (minOver f) (f u) :=
  foldl_min_LE_mem _ f none (List.mem_finRange u)

theorem minOver_eq (f : Fin N → W) : minOver f = none ∨ ∃ u, minOver f = f u :=
  foldl_min_eq _ f none

/-! ### bound on the finite entries -/

theorem le_sum_of_mem {l : List Int} (h : ∀ x ∈ l, 0 ≤ x) {a : Int} (ha : a ∈ l) : a ≤ l.sum := by
  induction l with
  | nil => cases ha
  | cons b l ih =>
    have hb : 0 ≤ b := h b (List.mem_cons_self ..)
    have hl : ∀ x ∈ l, 0 ≤ x := fun x hx => h x (List.mem_cons_of_mem _ hx)
    have hs : 0 ≤ l.sum := by
      clear ih ha
      induction l with
      | nil => simp
      | cons c l ih2 =>
        have := hl c (List.mem_cons_self ..)
        have := ih2 (fun x hx => h x (by simp at hx ⊢; rcases hx with rfl | hx <;> simp [*]))
          (fun x hx => hl x (List.mem_cons_of_mem _ hx))
        simp; omega
    rw [List.sum_cons]
    rcases List.mem_cons.1 ha with rfl | ha
    · omega
    · have := ih hl ha; omega

theorem wabs_nonneg (w : W) : 0 ≤ wabs w := by
  cases w <;> simp [wabs]; split <;> omega

theorem wabs_le_absSum (m : Mat N) (i j : Fin N) : wabs (m.get i j) ≤ absSum m := by
  unfold absSum
  have h1 : wabs (m.get i j) ≤ ((List.finRange N).map fun j => wabs (m.get i j)).sum := by
    apply le_sum_of_mem
    · intro x hx
      obtain ⟨b, _, rfl⟩ := List.mem_map.1 hx
      exact wabs_nonneg _
    · exact List.mem_map.2 ⟨j, List.mem_finRange j, rfl⟩
  have hrow : ∀ i : Fin N, 0 ≤ ((List.finRange N).map fun j => wabs (m.get i j)).sum := by
    intro i
    have : ∀ (l : List (Fin N)), 0 ≤ (l.map fun j => wabs (m.get i j)).sum := by
      intro l
      induction l with
      | nil => simp
      | cons c l ih => have := wabs_nonneg (m.get i c); simp; omega
    exact this _
  have h2 : ((List.finRange N).map fun j => wabs (m.get i j)).sum ≤
      ((List.finRange N).map fun i => ((List.finRange N).map fun j => wabs (m.get i j)).sum).sum := by
    apply le_sum_of_mem
    · intro x hx
      obtain ⟨b, _, rfl⟩ := List.mem_map.1 hx
      exact hrow b
    · exact List.mem_map.2 ⟨i, List.mem_finRange i, rfl⟩
  omega

theorem abs_le_absSum {m : Mat N} {i j : Fin N} {k : Int} (h : m.get i j = some k) :
    -absSum m ≤ k ∧ k ≤ absSum m := by
  have := wabs_le_absSum m i j
  rw [h] at this
  simp only [wabs] at this
  split at this <;> omega

theorem absSum_nonneg (m : Mat N) : 0 ≤ absSum m := by
  unfold absSum
  have : ∀ (l : List (Fin N)), 0 ≤ (l.map fun i => ((List.finRange N).map fun j => wabs (m.get i j)).sum).sum := by
    intro l
    induction l with
    | nil => simp
    | cons c l ih =>
      have : ∀ (l2 : List (Fin N)), 0 ≤ (l2.map fun j => wabs (m.get c j)).sum := by
        intro l2
        induction l2 with
        | nil => simp
        | cons d l2 ih2 => have := wabs_nonneg (m.get c d); simp; omega
      have := this (List.finRange N)
      simp; omega
  exact this _

/-! ### potentials of a closed matrix -/

theorem potential_le_self {m : Mat N} (hc : Closed m) (c : Fin N → Int) (v : Fin N) :
    W.LE (potential m c v) (some (c v)) := by
  have : W.LE (potential m c v) (W.add (some (c v)) (m.get v v)) :=
    minOver_LE (fun u => W.add (some (c u)) (m.get u v)) v
  have e : W.add (some (c v)) (m.get v v) = some (c v) := by rw [hc.diag v]; simp [W.add]
  rwa [e] at this

theorem potential_finite {m : Mat N} (hc : Closed m) (c : Fin N → Int) (v : Fin N) :
    ∃ p, potential m c v = some p := by
  obtain ⟨p, hp, _⟩ := potential_le_self hc c v _ rfl
  exact ⟨p, hp⟩

/-- the potential is attained at some source `u` -/
theorem potential_attained {m : Mat N} (hc : Closed m) (c : Fin N → Int) (v : Fin N) :
    ∃ u k, m.get u v = some k ∧ potential m c v = some (c u + k) := by
  obtain ⟨p, hp⟩ := potential_finite hc c v
  rcases minOver_eq (fun u => W.add (some (c u)) (m.get u v)) with h | ⟨u, h⟩
  · rw [potential, h] at hp; cases hp
  · rw [potential, h]
    rw [potential, h] at hp
    obtain ⟨x, y, hx, hy, rfl⟩ := W.add_some_iff.1 hp
    cases hx
    exact ⟨u, y, hy, by rw [hy]; rfl⟩

theorem potential_le_source {m : Mat N} (c : Fin N → Int) (u v : Fin N) :
    W.LE (potential m c v) (W.add (some (c u)) (m.get u v)) :=
  minOver_LE (fun u => W.add (some (c u)) (m.get u v)) u

/-- `pot b ≤ pot a + m a b` -/
theorem potential_tri {m : Mat N} (hc : Closed m) (c : Fin N → Int) (a b : Fin N) :
    W.LE (potential m c b) (W.add (potential m c a) (m.get a b)) := by
  obtain ⟨u, k, hk, hp⟩ := potential_attained hc c a
  rw [hp]
  have h1 := potential_le_source (m := m) c u b
  have h2 : W.LE (W.add (some (c u)) (m.get u b)) (W.add (some (c u)) (W.add (m.get u a) (m.get a b))) :=
    W.add_mono (W.LE_refl _) (hc.tri u b a)
  have h3 := W.LE_trans h1 h2
  rw [hk, ← W.add_assoc] at h3
  exact h3

/-- `v ↦ -potential v` solves every closed matrix -/
theorem solution_sat {m : Mat N} (hc : Closed m) (c : Fin N → Int) : m.sat (solution m c) := by
  intro a b k hk
  have h := potential_tri hc c a b
  obtain ⟨pa, hpa⟩ := potential_finite hc c a
  obtain ⟨pb, hpb⟩ := potential_finite hc c b
  rw [hpa, hpb, hk] at h
  have := W.LE_some_some.1 (by simpa [W.add] using h)
  simp only [solution, hpa, hpb, Option.getD_some]
  omega

/-- a closed matrix has a solution -/
theorem closed_sat {m : Mat N} (hc : Closed m) : ∃ v, m.sat v := ⟨_, solution_sat hc (fun _ => 0)⟩

/-! ### the witness of row `i` -/

theorem witness_sat {m : Mat N} (hc : Closed m) (i : Fin N) (L : Int) : m.sat (witness m i L) :=
  solution_sat hc _

theorem witness_pot_self {m : Mat N} (hc : Closed m) (i : Fin N) {L : Int} (hL : absSum m ≤ L) :
    potential m (fun u => if u = i then 0 else L) i = some 0 := by
  obtain ⟨u, k, hk, hp⟩ := potential_attained hc (fun u => if u = i then 0 else L) i
  have hle := potential_le_self hc (fun u => if u = i then 0 else L) i
  rw [hp] at hle ⊢
  have h1 := W.LE_some_some.1 hle
  simp only [if_true] at h1
  have hb := abs_le_absSum hk
  congr 1
  by_cases hu : u = i
  · subst hu
    rw [hc.diag u] at hk
    cases hk
    simp
  · simp only [hu, if_false] at h1 ⊢
    omega

/-- finite entries of row `i` are attained -/
theorem witness_finite {m : Mat N} (hc : Closed m) (i j : Fin N) {L d : Int}
    (hL : 2 * absSum m ≤ L) (hd : m.get i j = some d) :
    witness m i L i - witness m i L j = d := by
  have hE := absSum_nonneg m
  have h0 := witness_pot_self hc i (L := L) (by omega)
  obtain ⟨u, k, hk, hp⟩ := potential_attained hc (fun u => if u = i then 0 else L) j
  have hle := potential_le_source (m := m) (fun u => if u = i then 0 else L) i j
  rw [hp, hd] at hle
  simp only [if_true, W.add] at hle
  have h1 := W.LE_some_some.1 hle
  have hbk := abs_le_absSum hk
  have hbd := abs_le_absSum hd
  simp only [witness, solution, h0, hp, Option.getD_some]
  by_cases hu : u = i
  · subst hu
    rw [hd] at hk; cases hk
    simp
  · simp only [hu, if_false] at h1 ⊢
    omega

/-- infinite entries of row `i` are unbounded -/
theorem witness_infinite {m : Mat N} (hc : Closed m) (i j : Fin N) {L : Int}
    (hL : 2 * absSum m ≤ L) (hd : m.get i j = none) :
    L - absSum m ≤ witness m i L i - witness m i L j := by
  have hE := absSum_nonneg m
  have h0 := witness_pot_self hc i (L := L) (by omega)
  obtain ⟨u, k, hk, hp⟩ := potential_attained hc (fun u => if u = i then 0 else L) j
  have hbk := abs_le_absSum hk
  simp only [witness, solution, h0, hp, Option.getD_some]
  by_cases hu : u = i
  · subst hu
    rw [hd] at hk; cases hk
  · simp only [hu, if_false]
    omega

/-- **tightness of closed matrices**: every finite entry is attained by a solution, every
    infinite entry is unbounded over the solutions -/
theorem closed_is_tight {m : Mat N} (hc : Closed m) (i j : Fin N) :
    (∀ d, m.get i j = some d → ∃ v, m.sat v ∧ v i - v j = d) ∧
    (m.get i j = none → ∀ B : Int, ∃ v, m.sat v ∧ B < v i - v j) := by
  have hE := absSum_nonneg m
  constructor
  · intro d hd
    exact ⟨witness m i (2 * absSum m), witness_sat hc i _, witness_finite hc i j (Int.le_refl _) hd⟩
  · intro hd B
    obtain ⟨A, h1, h2⟩ : ∃ A : Int, B ≤ A ∧ 0 ≤ A := ⟨if B < 0 then -B else B, by split <;> omega, by split <;> omega⟩
    refine ⟨witness m i (2 * absSum m + A + 1), witness_sat hc i _, ?_⟩
    have := witness_infinite hc i j (L := 2 * absSum m + A + 1) (by omega) hd
    omega

end Mat
end Dbm
end Crab
