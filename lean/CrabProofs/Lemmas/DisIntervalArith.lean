import CrabProofs.Lemmas.DisIntervalLattice

/-! `apply_bin_op` / `apply_unary_op` of `dis_interval` (`Crab.Dis.applyBin`, `applyUn`, `scan`,
    `finish`) for an arbitrary interval operation: soundness, invariant, absence of CRAB_ERROR. -/
namespace Crab
namespace Dis
open Bound

/-- result of the scan of the interval results -/
theorem scan_spec : ∀ (rs : List (Option Itv)) (acc : List Itv) (res : List Itv),
    scan rs acc = some (some res) →
    none ∉ rs ∧ (∀ i, some i ∈ rs → i.isBottom = false → i ∈ res) ∧ (∀ i ∈ acc, i ∈ res) ∧
    (∀ i ∈ res, i ∈ acc ∨ (some i ∈ rs ∧ i.isBottom = false ∧ i.isTop = false)) ∧
    res.length ≤ acc.length + rs.length := by
  intro rs
  induction rs with
  | nil =>
    intro acc res h
    simp [scan] at h
    subst h
    simp
  | cons r more ih =>
    intro acc res h
    cases r with
    | none => simp [scan] at h
    | some i =>
      rw [scan] at h
      split at h
      · rename_i hb
        obtain ⟨h1, h2, h3, h4, h5⟩ := ih acc res h
        refine ⟨by simp [h1], ?_, h3, ?_, by simp; omega⟩
        · intro j hj hjb
          rcases List.mem_cons.mp hj with e | hj
          · simp at e; subst e; simp [hb] at hjb
          · exact h2 j hj hjb
        · intro j hj
          rcases h4 j hj with h | ⟨h, h'⟩
          · exact Or.inl h
          · exact Or.inr ⟨List.mem_cons_of_mem _ h, h'⟩
      · rename_i hb
        split at h
        · simp at h
        · rename_i ht
          obtain ⟨h1, h2, h3, h4, h5⟩ := ih (i :: acc) res h
          refine ⟨by simp [h1], ?_, fun j hj => h3 j (List.mem_cons_of_mem _ hj), ?_, by simp at h5 ⊢; omega⟩
          · intro j hj hjb
            rcases List.mem_cons.mp hj with e | hj
            · simp at e; subst e; exact h3 j (by simp)
            · exact h2 j hj hjb
          · intro j hj
            rcases h4 j hj with h | ⟨h, h'⟩
            · rcases List.mem_cons.mp h with rfl | h
              · exact Or.inr ⟨by simp, by simpa using hb, by simpa using ht⟩
              · exact Or.inl h
            · exact Or.inr ⟨List.mem_cons_of_mem _ h, h'⟩

theorem scan_none : ∀ (rs : List (Option Itv)) (acc : List Itv), scan rs acc = none → none ∈ rs := by
  intro rs
  induction rs with
  | nil => intro acc h; simp [scan] at h
  | cons r more ih =>
    intro acc h
    cases r with
    | none => simp
    | some i =>
      rw [scan] at h
      split at h
      · exact List.mem_cons_of_mem _ (ih _ h)
      · split at h
        · simp at h
        · exact List.mem_cons_of_mem _ (ih _ h)

/-- `finish (scan rs [])`: every non-bottom interval result is covered by the value -/
theorem finish_sound {rs : List (Option Itv)} {r : Dis} (hw : ∀ i, some i ∈ rs → i.WF)
    (h : finish (scan rs []) = some r) {i : Itv} (hi : some i ∈ rs) {c : Int} (hc : Itv.mem c i) :
    mem c r := by
  cases hs : scan rs [] with
  | none => simp [hs, finish] at h
  | some o =>
    cases o with
    | none => simp [hs, finish] at h; subst h; exact mem_top c
    | some res =>
      obtain ⟨_, h2, _, h4, _⟩ := scan_spec rs [] res hs
      have hin : i ∈ res := h2 i hi (Itv.isBottom_false_of_mem hc)
      cases res with
      | nil => simp at hin
      | cons a as =>
        simp [hs, finish] at h
        subst h
        refine mkList_mem_upper ?_ ⟨i, hin, hc⟩
        intro j hj
        rcases h4 j hj with h | ⟨h, _⟩
        · simp at h
        · exact hw j h

/-- the same for a result that may be CRAB_ERROR: then the scan stopped before (top) -/
theorem finish_sound' {rs : List (Option Itv)} {r : Dis} (hw : ∀ i, some i ∈ rs → i.WF)
    (h : finish (scan rs []) = some r) {o : Option Itv} (ho : o ∈ rs) {c : Int}
    (hc : ∀ v, o = some v → Itv.mem c v) : mem c r := by
  cases o with
  | some v => exact finish_sound hw h ho (hc v rfl)
  | none =>
    cases hs : scan rs [] with
    | none => simp [hs, finish] at h
    | some o =>
      cases o with
      | none => simp [hs, finish] at h; subst h; exact mem_top c
      | some res => exact absurd ho (scan_spec _ [] res hs).1

theorem finish_wf {rs : List (Option Itv)} {r : Dis} (hw : ∀ i, some i ∈ rs → i.WF)
    (hlen : rs.length < maxDisjunctions) (h : finish (scan rs []) = some r) : WF r := by
  cases hs : scan rs [] with
  | none => simp [hs, finish] at h
  | some o =>
    cases o with
    | none => simp [hs, finish] at h; subst h; simp [WF, top]
    | some res =>
      obtain ⟨_, _, _, h4, h5⟩ := scan_spec rs [] res hs
      cases res with
      | nil => simp [hs, finish] at h; subst h; simp [WF, bot]
      | cons a as =>
        simp [hs, finish] at h
        subst h
        have hall : ∀ j ∈ a :: as, j.isBottom = false ∧ j.isTop = false ∧ j.WF := by
          intro j hj
          rcases h4 j hj with h | ⟨h, h'⟩
          · simp at h
          · exact ⟨h'.1, h'.2, hw j h⟩
        refine mkList_wf (fun j hj => (hall j hj).2.2) ?_ (by simp only [List.length_nil, Nat.zero_add] at h5; omega)
        intro b hb
        exact (proper_iff b).mpr (hall b (by rw [hb]; simp))

theorem finish_defined {rs : List (Option Itv)} (h : none ∉ rs) : (finish (scan rs [])).isSome = true := by
  cases hs : scan rs [] with
  | none => exact absurd (scan_none rs [] hs) h
  | some o =>
    cases o with
    | none => rfl
    | some res => cases res <;> rfl

/-! ### binary operations -/

/-- the interval operation `op` over-approximates the relation `R` and keeps `lb ≠ +oo`, `ub ≠ -oo` -/
def OpSound (op : Itv → Itv → Option Itv) (R : Int → Int → Int → Prop) : Prop :=
  ∀ a b r, a.WF → b.WF → op a b = some r →
    r.WF ∧ ∀ i j c, Itv.mem i a → Itv.mem j b → R i j c → Itv.mem c r

theorem mem_pairs {op : Itv → Itv → Option Itv} {lx ly : List Itv} {o : Option Itv} :
    o ∈ lx.flatMap (fun a => ly.map (fun b => op a b)) ↔ ∃ a ∈ lx, ∃ b ∈ ly, op a b = o := by
  simp [List.mem_flatMap, List.mem_map]

theorem binOp_sound {op : Itv → Itv → Option Itv} {R : Int → Int → Int → Prop} (hop : OpSound op R)
    (sc : Bool) {x y r : Dis} (hx : EWF x) (hy : EWF y) (h : binOp op sc x y = some r)
    {i j c : Int} (hi : mem i x) (hj : mem j y) (hR : R i j c) : mem c r := by
  obtain ⟨sx, lx⟩ := x
  obtain ⟨sy, ly⟩ := y
  have e1 : (DisState.fin == DisState.bot) = false := rfl
  have e2 : (DisState.fin == DisState.top) = false := rfl
  have e3 : (DisState.top == DisState.bot) = false := rfl
  have e4 : (DisState.top == DisState.fin) = false := rfl
  cases sx <;> cases sy <;> try (simp [mem] at hi hj; done)
  · -- FINITE, FINITE
    have h' : finish (scan (lx.flatMap (fun a => ly.map (fun b => op a b))) []) = some r := by
      simpa [binOp, applyBin, isBottom, isTop, isFinite, e1, e2] using h
    obtain ⟨a, ha, hia⟩ := hi
    obtain ⟨b, hb, hjb⟩ := hj
    refine finish_sound' ?_ h' (mem_pairs.mpr ⟨a, ha, b, hb, rfl⟩) ?_
    · intro w hw
      obtain ⟨a', ha', b', hb', hw'⟩ := mem_pairs.mp hw
      exact (hop a' b' w (hx a' ha') (hy b' hb') hw').1
    · intro v hv
      exact (hop a b v (hx a ha) (hy b hb) hv).2 i j c hia hjb hR
  · -- FINITE, TOP
    cases sc with
    | true =>
      have : r = top := by simpa [binOp, applyBin, isBottom, isTop, isFinite, e1, e2, e3] using h.symm
      subst this; exact mem_top c
    | false =>
      have h' : finish (scan (lx.map (fun a => op a Itv.top)) []) = some r := by
        simpa [binOp, applyBin, isBottom, isTop, isFinite, e1, e2, e3, e4] using h
      obtain ⟨a, ha, hia⟩ := hi
      refine finish_sound' ?_ h' (List.mem_map.mpr ⟨a, ha, rfl⟩) ?_
      · intro w hw
        obtain ⟨a', ha', hw'⟩ := List.mem_map.mp hw
        exact (hop a' Itv.top w (hx a' ha') Itv.wf_top hw').1
      · intro v hv
        exact (hop a Itv.top v (hx a ha) Itv.wf_top hv).2 i j c hia (Itv.mem_top j) hR
  · -- TOP, FINITE
    cases sc with
    | true =>
      have : r = top := by simpa [binOp, applyBin, isBottom, isTop, isFinite, e1, e2, e3] using h.symm
      subst this; exact mem_top c
    | false =>
      have h' : finish (scan (ly.map (fun b => op Itv.top b)) []) = some r := by
        simpa [binOp, applyBin, isBottom, isTop, isFinite, e1, e2, e3, e4] using h
      obtain ⟨b, hb, hjb⟩ := hj
      refine finish_sound' ?_ h' (List.mem_map.mpr ⟨b, hb, rfl⟩) ?_
      · intro w hw
        obtain ⟨b', hb', hw'⟩ := List.mem_map.mp hw
        exact (hop Itv.top b' w Itv.wf_top (hy b' hb') hw').1
      · intro v hv
        exact (hop Itv.top b v Itv.wf_top (hy b hb) hv).2 i j c (Itv.mem_top i) hjb hR
  · -- TOP, TOP
    have : r = top := by simpa [binOp, applyBin, isBottom, isTop, e3] using h.symm
    subst this; exact mem_top c

theorem binOp_wf {op : Itv → Itv → Option Itv}
    (hop : ∀ a b r, a.WF → b.WF → op a b = some r → r.WF) (sc : Bool) {x y r : Dis}
    (hx : WF x) (hy : WF y) (hsmall : x.l.length * y.l.length < maxDisjunctions)
    (h : binOp op sc x y = some r) : WF r := by
  obtain ⟨sx, lx⟩ := x
  obtain ⟨sy, ly⟩ := y
  have e1 : (DisState.fin == DisState.bot) = false := rfl
  have e2 : (DisState.fin == DisState.top) = false := rfl
  have e3 : (DisState.top == DisState.bot) = false := rfl
  have e4 : (DisState.top == DisState.fin) = false := rfl
  have hbot : WF bot := by simp [WF, bot]
  have htop : WF top := by simp [WF, top]
  have ew : ∀ (l : List Itv), WFList l → ∀ a ∈ l, a.WF :=
    fun l hl a ha => ((proper_iff a).mp (hl.1 a ha)).2.2
  cases sx <;> cases sy <;>
    try (have : r = bot := by (simpa [binOp, applyBin, isBottom] using h.symm)
         subst this; exact hbot)
  · have h' : finish (scan (lx.flatMap (fun a => ly.map (fun b => op a b))) []) = some r := by
      simpa [binOp, applyBin, isBottom, isTop, isFinite, e1, e2] using h
    refine finish_wf ?_ (by rw [length_pairs]; exact hsmall) h'
    intro w hw
    obtain ⟨a', ha', b', hb', hw'⟩ := mem_pairs.mp hw
    exact hop a' b' w (ew lx hx.2.2 a' ha') (ew ly hy.2.2 b' hb') hw'
  · cases sc with
    | true =>
      have : r = top := by simpa [binOp, applyBin, isBottom, isTop, isFinite, e1, e2, e3] using h.symm
      subst this; exact htop
    | false =>
      have h' : finish (scan (lx.map (fun a => op a Itv.top)) []) = some r := by
        simpa [binOp, applyBin, isBottom, isTop, isFinite, e1, e2, e3, e4] using h
      refine finish_wf ?_ (by simpa using hx.2.1) h'
      intro w hw
      obtain ⟨a', ha', hw'⟩ := List.mem_map.mp hw
      exact hop a' Itv.top w (ew lx hx.2.2 a' ha') Itv.wf_top hw'
  · cases sc with
    | true =>
      have : r = top := by simpa [binOp, applyBin, isBottom, isTop, isFinite, e1, e2, e3] using h.symm
      subst this; exact htop
    | false =>
      have h' : finish (scan (ly.map (fun b => op Itv.top b)) []) = some r := by
        simpa [binOp, applyBin, isBottom, isTop, isFinite, e1, e2, e3, e4] using h
      refine finish_wf ?_ (by simpa using hy.2.1) h'
      intro w hw
      obtain ⟨b', hb', hw'⟩ := List.mem_map.mp hw
      exact hop Itv.top b' w Itv.wf_top (ew ly hy.2.2 b' hb') hw'
  · have : r = top := by simpa [binOp, applyBin, isBottom, isTop, e3] using h.symm
    subst this; exact htop

/-- no CRAB_ERROR when the interval operation has none on well-formed intervals -/
theorem binOp_defined {op : Itv → Itv → Option Itv}
    (hd : ∀ a b, a.WF → b.WF → (op a b).isSome = true) (sc : Bool) {x y : Dis}
    (hx : EWF x) (hy : EWF y) : (binOp op sc x y).isSome = true := by
  unfold binOp applyBin
  repeat' split
  all_goals first
    | rfl
    | (apply finish_defined
       intro hn
       first
         | (obtain ⟨a, ha, b, hb, hab⟩ := mem_pairs.mp hn
            have := hd a b (hx a ha) (hy b hb); simp [hab] at this)
         | (obtain ⟨a, ha, hab⟩ := List.mem_map.mp hn
            first
              | (have := hd a Itv.top (hx a ha) Itv.wf_top; simp [hab] at this)
              | (have := hd Itv.top a Itv.wf_top (hy a ha); simp [hab] at this)))

/-! ### unary operations -/

theorem unOp_sound {op : Itv → Itv} {R : Int → Int → Prop}
    (hop : ∀ a, a.WF → (op a).WF ∧ ∀ i c, Itv.mem i a → R i c → Itv.mem c (op a))
    {x r : Dis} (hx : EWF x) (h : unOp op x = some r) {i c : Int} (hi : mem i x) (hR : R i c) :
    mem c r := by
  obtain ⟨sx, lx⟩ := x
  have e1 : (DisState.fin == DisState.bot) = false := rfl
  have e2 : (DisState.fin == DisState.top) = false := rfl
  have e3 : (DisState.top == DisState.bot) = false := rfl
  cases sx
  · simp [mem] at hi
  · obtain ⟨a, ha, hia⟩ := hi
    have hne : lx.isEmpty = false := by cases lx <;> simp_all
    have h' : finish (scan (lx.map (fun a => some (op a))) []) = some r := by
      simpa [unOp, applyUn, isBottom, isTop, e1, e2, hne] using h
    refine finish_sound ?_ h' (List.mem_map.mpr ⟨a, ha, rfl⟩) ((hop a (hx a ha)).2 i c hia hR)
    intro w hw
    obtain ⟨a', ha', hw'⟩ := List.mem_map.mp hw
    simp at hw'; subst hw'
    exact (hop a' (hx a' ha')).1
  · have : r = top := by simpa [unOp, applyUn, isBottom, isTop, e3] using h.symm
    subst this; exact mem_top c

theorem unOp_wf {op : Itv → Itv} (hop : ∀ a, a.WF → (op a).WF) {x r : Dis} (hx : WF x)
    (h : unOp op x = some r) : WF r := by
  obtain ⟨sx, lx⟩ := x
  have e1 : (DisState.fin == DisState.bot) = false := rfl
  have e2 : (DisState.fin == DisState.top) = false := rfl
  have e3 : (DisState.top == DisState.bot) = false := rfl
  cases sx
  · have : r = bot := by simpa [unOp, isBottom] using h.symm
    subst this; simp [WF, bot]
  · have hne : lx.isEmpty = false := by
      have := hx.1; cases lx <;> simp_all
    have h' : finish (scan (lx.map (fun a => some (op a))) []) = some r := by
      simpa [unOp, applyUn, isBottom, isTop, e1, e2, hne] using h
    refine finish_wf ?_ (by simpa using hx.2.1) h'
    intro w hw
    obtain ⟨a', ha', hw'⟩ := List.mem_map.mp hw
    simp at hw'; subst hw'
    exact hop a' ((proper_iff a').mp (hx.2.2.1 a' ha')).2.2
  · have : r = top := by simpa [unOp, applyUn, isBottom, isTop, e3] using h.symm
    subst this; simp [WF, top]

theorem unOp_defined (op : Itv → Itv) {x : Dis} (hx : WF x) : (unOp op x).isSome = true := by
  obtain ⟨sx, lx⟩ := x
  cases sx
  · rfl
  · have hne : lx.isEmpty = false := by
      have := hx.1; cases lx <;> simp_all
    have e1 : (DisState.fin == DisState.bot) = false := rfl
    have e2 : (DisState.fin == DisState.top) = false := rfl
    simp only [unOp, applyUn, isBottom, isTop, e1, e2, hne, Bool.false_eq_true, if_false]
    apply finish_defined
    simp
  · rfl

end Dis
end Crab
