import CrabProofs.Lemmas.DbmIncrAssign

/-!
  `close_after_assign(g, potential, 0, delta); apply_delta(g, delta)` (the re-closure of the bounds
  at the end of `add_linear_leq` when `close_bounds_inline` is off, and the last step of
  `normalize()`): from a graph whose edges among the variables are closed (`VarNF`) it restores the
  split normal form, keeps the solutions and does not touch the edges among variables.
-/
namespace Crab
namespace DbmIncr
open Dbm Zones

variable {n : Nat}

theorem VarNF.tri_edge {g : Zone n} (hv : VarNF g) {a k b : Fin (n + 1)} (ha : a ≠ 0) (hk : k ≠ 0)
    (hb : b ≠ 0) (hab : a ≠ b) : W.LE (edge g a b) (W.add (edge g a k) (edge g k b)) := by
  have t := hv.vars.tri b a k
  have e : ¬ (b = a) := fun e => hab e.symm
  simp only [varPart_get, ha, hk, hb, or_false, if_false, e] at t
  by_cases hak : k = a
  · subst hak; rw [show edge g k k = none from hv.noLoop k]; simp
  by_cases hkb : b = k
  · subst hkb; rw [show edge g b b = none from hv.noLoop b]; simp
  simp only [hak, hkb, if_false] at t
  rw [W.add_comm] at t
  exact t

theorem VarNF.cyc_edge {g : Zone n} (hv : VarNF g) {a b : Fin (n + 1)} (ha : a ≠ 0) (hb : b ≠ 0)
    {x y : Int} (hx : edge g a b = some x) (hy : edge g b a = some y) : 0 ≤ x + y := by
  have t := hv.vars.tri a a b
  by_cases hab : a = b
  · subst hab; rw [show edge g a a = none from hv.noLoop a] at hx; cases hx
  have hba : ¬ (b = a) := fun e => hab e.symm
  simp only [varPart_get, ha, hb, or_false, if_false, hab, hba, if_true] at t
  simp only [edge] at hx hy
  rw [hx, hy] at t
  simp at t; omega

theorem closedWithout_fwd {g : Zone n} (hv : VarNF g) :
    ClosedWithout (fun s d => edge g s d) (0 : Fin (n + 1)) :=
  ⟨fun _ _ _ ha hk hb hab => hv.tri_edge ha hk hb hab,
   fun _ _ _ _ ha hb hx hy => hv.cyc_edge ha hb hx hy, fun a => hv.noLoop a⟩

theorem closedWithout_bwd {g : Zone n} (hv : VarNF g) :
    ClosedWithout (fun s d => edge g d s) (0 : Fin (n + 1)) := by
  refine ⟨?_, ?_, fun a => hv.noLoop a⟩
  · intro a k b ha hk hb hab
    have := hv.tri_edge (k := k) hb hk ha (fun e => hab e.symm)
    rw [W.add_comm] at this
    exact this
  · intro a b x y ha hb hx hy
    exact hv.cyc_edge hb ha hx hy

/-- the values of the search satisfy the triangle inequality with the edges of the graph -/
theorem caf_tri {succ : Fin (n + 1) → Fin (n + 1) → W} {v : Fin (n + 1)} {D : Fin (n + 1) → W}
    (hc : ClosedWithout succ v)
    (hlow : ∀ x k, x ≠ v → D x = some k → Low succ v x k)
    (hup1 : ∀ x, x ≠ v → W.LE (D x) (succ v x))
    (hup2 : ∀ d e, d ≠ v → W.LE (D e) (W.add (succ v d) (succ d e)))
    {d e : Fin (n + 1)} (hd : d ≠ v) (he : e ≠ v) (hde : d ≠ e) :
    W.LE (D e) (W.add (D d) (succ d e)) := by
  rcases hk : D d with _ | k
  · simp
  rcases hev : succ d e with _ | ev
  · simp
  rcases hlow d k hd hk with ⟨a, ha, hak⟩ | ⟨d', a, b, hd', ha, hb, hab⟩
  · have := hup2 d e hd
    rw [ha, hev] at this
    exact W.LE_trans this (by simp; omega)
  · by_cases hd'e : d' = e
    · subst hd'e
      have h1 := hup1 d' he
      rw [ha] at h1
      have := hc.cyc d' d b ev hd' hd hb hev
      exact W.LE_trans h1 (by simp; omega)
    · have t := hc.tri d' d e hd' hd he hd'e
      rw [hb, hev] at t
      have h2 := hup2 d' e hd'
      rw [ha] at h2
      rcases hz : succ d' e with _ | z
      · rw [hz] at t; simp at t
      · rw [hz] at t h2; simp at t h2
        exact W.LE_trans h2 (by simp; omega)

/-- the search is sound: its values are above the closure -/
theorem caf_above {g : Zone n} (hb : isBottom g = false) {x : Fin (n + 1)} {k : Int}
    (h : Low (fun s d => edge g s d) 0 x k) : W.LE (edge (close g) 0 x) (some k) := by
  have cT := Zones.close_closed hb
  rcases h with ⟨a, ha, hak⟩ | ⟨d, a, b, _, ha, hb', hab⟩ <;> dsimp only at ha
  · have := edge_close_LE g 0 x; rw [ha] at this
    exact W.LE_trans this (by simp; omega)
  · dsimp only at hb'
    have h1 := edge_close_LE g 0 d; rw [ha] at h1
    have h2 := edge_close_LE g d x; rw [hb'] at h2
    have t := cT.tri x 0 d
    rw [W.add_comm] at t
    have := W.LE_trans t (W.add_mono h1 h2)
    exact W.LE_trans this (by simp; omega)

theorem caf_above' {g : Zone n} (hb : isBottom g = false) {x : Fin (n + 1)} {k : Int}
    (h : Low (fun s d => edge g d s) 0 x k) : W.LE (edge (close g) x 0) (some k) := by
  have cT := Zones.close_closed hb
  rcases h with ⟨a, ha, hak⟩ | ⟨d, a, b, _, ha, hb', hab⟩ <;> dsimp only at ha
  · have := edge_close_LE g x 0; rw [ha] at this
    exact W.LE_trans this (by simp; omega)
  · dsimp only at hb'
    have h1 := edge_close_LE g d 0; rw [ha] at h1
    have h2 := edge_close_LE g x d; rw [hb'] at h2
    have t := cT.tri 0 x d
    have := W.LE_trans t (W.add_mono h1 h2)
    exact W.LE_trans this (by simp; omega)

/-- the edges of `closeAfterAssign .. g 0` -/
theorem closeAfterAssign_edges (adjF adjB vs : List (Fin (n + 1))) (hvs : ∀ x, x ∈ vs) (g : Zone n)
    (hl : NoSelfLoop g) :
    let df := cafFwd (fun s d => edge g s d) adjF vs 0
    let db := cafFwd (fun s d => edge g d s) adjB vs 0
    let r := closeAfterAssign adjF adjB vs g 0
    (∀ x, x ≠ 0 → edge r 0 x = match df x with | some k => some k | none => edge g 0 x) ∧
    (∀ x, x ≠ 0 → edge r x 0 = match db x with | some k => some k | none => edge g x 0) ∧
    (∀ s d, s ≠ 0 → d ≠ 0 → edge r s d = edge g s d) ∧ edge r 0 0 = none := by
  intro df db r
  -- membership in the two recorded lists
  have memF : ∀ e, e ∈ (vs.filterMap fun x => if x = 0 then none else (df x).map fun k => ((0 : Fin (n + 1)), x, k)) ↔
      e.1 = 0 ∧ e.2.1 ≠ 0 ∧ df e.2.1 = some e.2.2 := by
    intro e
    simp only [List.mem_filterMap]
    constructor
    · rintro ⟨x, _, hx⟩
      by_cases h0 : x = 0
      · simp [h0] at hx
      · simp only [h0, if_false, Option.map_eq_some_iff] at hx
        obtain ⟨k, hk, rfl⟩ := hx
        exact ⟨rfl, h0, hk⟩
    · rintro ⟨h1, h2, h3⟩
      refine ⟨e.2.1, hvs _, ?_⟩
      simp only [h2, if_false, h3, Option.map_some]
      rw [← h1]
  have memB : ∀ e, e ∈ (vs.filterMap fun x => if x = 0 then none else (db x).map fun k => (x, (0 : Fin (n + 1)), k)) ↔
      e.2.1 = 0 ∧ e.1 ≠ 0 ∧ db e.1 = some e.2.2 := by
    intro e
    simp only [List.mem_filterMap]
    constructor
    · rintro ⟨x, _, hx⟩
      by_cases h0 : x = 0
      · simp [h0] at hx
      · simp only [h0, if_false, Option.map_eq_some_iff] at hx
        obtain ⟨k, hk, rfl⟩ := hx
        exact ⟨rfl, h0, hk⟩
    · rintro ⟨h1, h2, h3⟩
      refine ⟨e.1, hvs _, ?_⟩
      simp only [h2, if_false, h3, Option.map_some]
      rw [← h1]
  have hr : r = applyDelta g
      ((vs.filterMap fun x => if x = 0 then none else (df x).map fun k => ((0 : Fin (n + 1)), x, k)) ++
       (vs.filterMap fun x => if x = 0 then none else (db x).map fun k => (x, (0 : Fin (n + 1)), k))) := rfl
  generalize (vs.filterMap fun x => if x = 0 then none else (df x).map fun k => ((0 : Fin (n + 1)), x, k)) = dF at memF hr
  generalize (vs.filterMap fun x => if x = 0 then none else (db x).map fun k => (x, (0 : Fin (n + 1)), k)) = dB at memB hr
  refine ⟨?_, ?_, ?_, ?_⟩
  · intro x hx
    rcases hk : df x with _ | k
    · rw [hr, edge_applyDelta _ g 0 x 0]
      · have : ¬ ∃ e ∈ dF ++ dB, e.1 = (0 : Fin (n + 1)) ∧ e.2.1 = x := by
          rintro ⟨e, he, h1, h2⟩
          rcases List.mem_append.1 he with he | he
          · have := (memF e).1 he; rw [h2, hk] at this; cases this.2.2
          · have := (memB e).1 he; exact hx (h2.symm.trans this.1)
        simp only [this, if_false]
      · intro e he h1 h2
        rcases List.mem_append.1 he with he | he
        · have := (memF e).1 he; rw [h2, hk] at this; cases this.2.2
        · have := (memB e).1 he; exact absurd (h2.symm.trans this.1) hx
    · rw [hr, edge_applyDelta _ g 0 x k]
      · have : ∃ e ∈ dF ++ dB, e.1 = (0 : Fin (n + 1)) ∧ e.2.1 = x :=
          ⟨(0, x, k), List.mem_append_left _ ((memF (0, x, k)).2 ⟨rfl, hx, hk⟩), rfl, rfl⟩
        simp only [this, if_true]
      · intro e he h1 h2
        rcases List.mem_append.1 he with he | he
        · have := (memF e).1 he; rw [h2, hk] at this; exact (Option.some.inj this.2.2).symm
        · have := (memB e).1 he; exact absurd (h2.symm.trans this.1) hx
  · intro x hx
    rcases hk : db x with _ | k
    · rw [hr, edge_applyDelta _ g x 0 0]
      · have : ¬ ∃ e ∈ dF ++ dB, e.1 = x ∧ e.2.1 = (0 : Fin (n + 1)) := by
          rintro ⟨e, he, h1, h2⟩
          rcases List.mem_append.1 he with he | he
          · have := (memF e).1 he; exact hx (h1.symm.trans this.1)
          · have := (memB e).1 he; rw [h1, hk] at this; cases this.2.2
        simp only [this, if_false]
      · intro e he h1 h2
        rcases List.mem_append.1 he with he | he
        · have := (memF e).1 he; exact absurd (h1.symm.trans this.1) hx
        · have := (memB e).1 he; rw [h1, hk] at this; cases this.2.2
    · rw [hr, edge_applyDelta _ g x 0 k]
      · have : ∃ e ∈ dF ++ dB, e.1 = x ∧ e.2.1 = (0 : Fin (n + 1)) :=
          ⟨(x, 0, k), List.mem_append_right _ ((memB (x, 0, k)).2 ⟨rfl, hx, hk⟩), rfl, rfl⟩
        simp only [this, if_true]
      · intro e he h1 h2
        rcases List.mem_append.1 he with he | he
        · have := (memF e).1 he; exact absurd (h1.symm.trans this.1) hx
        · have := (memB e).1 he; rw [h1, hk] at this; exact (Option.some.inj this.2.2).symm
  · intro s d hs hd
    rw [hr, edge_applyDelta _ g s d 0]
    · have : ¬ ∃ e ∈ dF ++ dB, e.1 = s ∧ e.2.1 = d := by
        rintro ⟨e, he, h1, h2⟩
        rcases List.mem_append.1 he with he | he
        · have := (memF e).1 he; exact hs (h1.symm.trans this.1)
        · have := (memB e).1 he; exact hd (h2.symm.trans this.1)
      simp only [this, if_false]
    · intro e he h1 h2
      rcases List.mem_append.1 he with he | he
      · have := (memF e).1 he; exact absurd (h1.symm.trans this.1) hs
      · have := (memB e).1 he; exact absurd (h2.symm.trans this.1) hd
  · rw [hr, edge_applyDelta _ g 0 0 0]
    · have : ¬ ∃ e ∈ dF ++ dB, e.1 = (0 : Fin (n + 1)) ∧ e.2.1 = (0 : Fin (n + 1)) := by
        rintro ⟨e, he, h1, h2⟩
        rcases List.mem_append.1 he with he | he
        · have := (memF e).1 he; exact this.2.1 h2
        · have := (memB e).1 he; exact this.2.1 h1
      simp only [this, if_false]
      exact hl 0
    · intro e he h1 h2
      rcases List.mem_append.1 he with he | he
      · have := (memF e).1 he; exact absurd h2 this.2.1
      · have := (memB e).1 he; exact absurd h1 this.2.1

end DbmIncr
end Crab
