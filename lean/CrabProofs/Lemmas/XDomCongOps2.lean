import CrabProofs.Lemmas.XDomCongOps
import CrabProofs.Lemmas.CongruenceBits

/-!
  `congruence_domain` (model `Crab.GDom`): `assign`, `weak_assign`, `apply`, `select`
  (`DEFAULT_SELECT`), casts, `entails`, `to_linear_constraint_system`, and the unguarded
  `-=` / `forget` / `project` / `rename` / `expand` of the class (equal to the guarded ones of
  `XDom.Env`: `separate_domain` tests bottom itself).
-/
namespace Crab
namespace GDom
open XDom Lin Cong

local notation "GL" => congLattice

/-- the `switch` of `apply(arith_operation_t, …)` over-approximates the concrete operation -/
theorem arithEval_sound (op : ArithOp) {yi zi : Cong} {a b c : Int} (ha : Cong.mem a yi)
    (hb : Cong.mem b zi) (hc : op.conc a b = some c) : Cong.mem c (arithEval op yi zi) := by
  cases op <;> simp only [ArithOp.conc] at hc <;> simp only [arithEval]
  · cases hc; exact Cong.add_sound ha hb
  · cases hc; exact Cong.sub_sound ha hb
  · cases hc; exact Cong.mul_sound ha hb
  · split at hc
    · cases hc
    · rename_i h0; cases hc; exact Cong.div_sound ha hb h0
  · exact Cong.mem_top _
  · split at hc
    · cases hc
    · rename_i h0; cases hc; exact Cong.srem_sound ha hb h0
  · exact Cong.mem_top _

/-- the `switch` of `apply(bitwise_operation_t, …)`; for `Shl` the class of the amounts must be
    in standard form with a modulus that fits a machine word (`C08.cg_shl_sound`: `1 << m_a` is
    `z_number::operator<<`, which shifts by `mpz_get_ui` of the amount — known finding F22) -/
theorem bitEval_sound (op : BitOp) {yi zi : Cong} {a b c : Int} (ha : Cong.mem a yi)
    (hb : Cong.mem b zi) (hc : op.conc a b = some c) (hz : op = .shl → WF zi ∧ zi.a < 2 ^ 64) :
    Cong.mem c (bitEval op yi zi) := by
  cases op <;> simp only [BitOp.conc] at hc <;> simp only [bitEval]
  · cases hc; exact Cong.and_sound ha hb
  · cases hc; exact Cong.or_sound ha hb
  · cases hc; exact Cong.xor_sound ha hb
  · split at hc
    · rename_i h0; cases hc
      exact C08.cg_shl_sound _ _ _ _ (hz rfl).1 (hz rfl).2 ha hb h0.1 h0.2
    · cases hc
  · split at hc
    · rename_i h0; cases hc; exact Cong.lshr_sound ha hb h0.2.1 h0.2.2
    · cases hc
  · split at hc
    · rename_i h0; cases hc; exact Cong.ashr_sound ha hb h0.1
    · cases hc

namespace Env

/-! ### the unguarded forwarders -/

theorem forget_eq (e : Env) (x : Var) : e.forget x = XDom.Env.forget GL e x := by
  unfold forget XDom.Env.forget SepDom.forget
  split <;> rfl

theorem forgetAll_eq (e : Env) (vs : List Var) : e.forgetAll vs = XDom.Env.forgetAll GL e vs := by
  unfold forgetAll XDom.Env.forgetAll
  have : (fun env v => forget env v) = (fun env v => XDom.Env.forget GL env v) := by
    funext env v; exact forget_eq env v
  rw [this]; rfl

theorem project_eq (e : Env) (vs : List Var) : e.project vs = XDom.Env.project GL e vs := by
  unfold project XDom.Env.project SepDom.project
  cases h : e.isBot <;> simp

theorem rename_eq (e : Env) (f t : List Var) : e.rename f t = XDom.Env.rename GL e f t := by
  unfold rename XDom.Env.rename SepDom.rename
  cases h : e.isBot <;> simp

theorem expand_eq (e : Env) (x nx : Var) : e.expand x nx = XDom.Env.expand GL e x nx := rfl

/-! ### `assign`, `weak_assign`, `apply` -/

theorem assign_inv {e : Env} (he : e.Inv) {x : Var} (hx : x < 2 ^ 64) (ex : Expr) : (e.assign x ex).Inv :=
  set_inv he hx (wf_eval e ex)

/-- `assign(x, e)` -/
theorem assign_sound {e : Env} (he : e.Inv) {σ : State} (hg : e.γ σ) {x : Var} (hx : x < 2 ^ 64) (ex : Expr) :
    (e.assign x ex).γ (upd σ x (ex.eval σ)) := set_sound he hg hx (wf_eval e ex) (eval_sound hg ex)

theorem weakAssign_inv {e : Env} (he : e.Inv) {x : Var} (hx : x < 2 ^ 64) (ex : Expr) : (e.weakAssign x ex).Inv :=
  XDom.Env.joinKey_inv congLaws he hx (wf_eval e ex)

/-- `weak_assign(x, e)`: both the old state and the updated state are described -/
theorem weakAssign_sound {e : Env} (he : e.Inv) {σ : State} (hg : e.γ σ) {x : Var} (hx : x < 2 ^ 64) (ex : Expr) :
    (e.weakAssign x ex).γ σ ∧ (e.weakAssign x ex).γ (upd σ x (ex.eval σ)) :=
  XDom.Env.joinKey_sound congLaws he hg hx (wf_eval e ex) (eval_sound hg ex)

theorem applyVar_inv {e : Env} (he : e.Inv) (op : ArithOp) {x : Var} (hx : x < 2 ^ 64) (y z : Var) :
    (e.applyVar op x y z).Inv := set_inv he hx (wf_arithEval op (get_wf he y) (get_wf he z))
theorem applyCst_inv {e : Env} (he : e.Inv) (op : ArithOp) {x : Var} (hx : x < 2 ^ 64) (y : Var) (k : Int) :
    (e.applyCst op x y k).Inv := set_inv he hx (wf_arithEval op (get_wf he y) (wf_ofInt k))
theorem applyBitVar_inv {e : Env} (he : e.Inv) (op : BitOp) {x : Var} (hx : x < 2 ^ 64) (y z : Var) :
    (e.applyBitVar op x y z).Inv := set_inv he hx (wf_bitEval op (get_wf he y) (get_wf he z))
theorem applyBitCst_inv {e : Env} (he : e.Inv) (op : BitOp) {x : Var} (hx : x < 2 ^ 64) (y : Var) (k : Int) :
    (e.applyBitCst op x y k).Inv := set_inv he hx (wf_bitEval op (get_wf he y) (wf_ofInt k))

theorem applyVar_sound {e : Env} (he : e.Inv) {σ : State} (hg : e.γ σ) (op : ArithOp) {x : Var}
    (hx : x < 2 ^ 64) (y z : Var) {c : Int} (hc : op.conc (σ y) (σ z) = some c) :
    (e.applyVar op x y z).γ (upd σ x c) :=
  set_sound he hg hx (wf_arithEval op (get_wf he y) (get_wf he z))
    (arithEval_sound op (get_mem hg y) (get_mem hg z) hc)

theorem applyCst_sound {e : Env} (he : e.Inv) {σ : State} (hg : e.γ σ) (op : ArithOp) {x : Var}
    (hx : x < 2 ^ 64) (y : Var) (k : Int) {c : Int} (hc : op.conc (σ y) k = some c) :
    (e.applyCst op x y k).γ (upd σ x c) :=
  set_sound he hg hx (wf_arithEval op (get_wf he y) (wf_ofInt k))
    (arithEval_sound op (get_mem hg y) ((Cong.mem_ofInt k k).2 rfl) hc)

/-- `apply(bitwise op, x, y, z)`: for `Shl` the modulus of the class of `z` must fit a machine word -/
theorem applyBitVar_sound {e : Env} (he : e.Inv) {σ : State} (hg : e.γ σ) (op : BitOp) {x : Var}
    (hx : x < 2 ^ 64) (y z : Var) {c : Int} (hc : op.conc (σ y) (σ z) = some c)
    (hz : op = .shl → (e.get z).a < 2 ^ 64) : (e.applyBitVar op x y z).γ (upd σ x c) :=
  set_sound he hg hx (wf_bitEval op (get_wf he y) (get_wf he z))
    (bitEval_sound op (get_mem hg y) (get_mem hg z) hc (fun h => ⟨get_wf he z, hz h⟩))

theorem applyBitCst_sound {e : Env} (he : e.Inv) {σ : State} (hg : e.γ σ) (op : BitOp) {x : Var}
    (hx : x < 2 ^ 64) (y : Var) (k : Int) {c : Int} (hc : op.conc (σ y) k = some c) :
    (e.applyBitCst op x y k).γ (upd σ x c) :=
  set_sound he hg hx (wf_bitEval op (get_wf he y) (wf_ofInt k))
    (bitEval_sound op (get_mem hg y) ((Cong.mem_ofInt k k).2 rfl) hc
      (fun _ => ⟨wf_ofInt k, by simp [Cong.ofInt]⟩))

/-! ### `select` -/

theorem select_inv {e : Env} (he : e.Inv) {lhs : Var} (hx : lhs < 2 ^ 64) {cond : Lin.Cst} (hc : CstOk cond)
    (e1 e2 : Expr) : (e.select lhs cond e1 e2).Inv := by
  unfold select
  split
  · exact he
  · simp only
    split
    · exact assign_inv he hx e2
    · split
      · exact assign_inv he hx e1
      · exact XDom.Env.upper_inv congLaws congLaws.join
          (assign_inv (add_inv he (single_ok hc)) hx e1)
          (assign_inv (add_inv he (single_ok (cstOk_negate hc))) hx e2)

/-- `select(lhs, cond, e1, e2)` (`DEFAULT_SELECT`) -/
theorem select_sound {e : Env} (he : e.Inv) {σ : State} (hg : e.γ σ) {lhs : Var} (hx : lhs < 2 ^ 64)
    {cond : Lin.Cst} (hc : CstOk cond) (e1 e2 : Expr) :
    (e.select lhs cond e1 e2).γ (upd σ lhs (if cond.sat σ then e1.eval σ else e2.eval σ)) := by
  unfold select
  simp only [hg.1, Bool.false_eq_true, if_false]
  split
  · rename_i hb
    have hn : ¬ cond.sat σ := fun hs =>
      not_γ_of_bot hb σ (add_sound he hg (single_ok hc) (sat_single hs))
    simp only [hn, if_false]
    exact assign_sound he hg hx e2
  · split
    · rename_i hb
      have hs : cond.sat σ := by
        apply Classical.byContradiction
        intro hn
        exact not_γ_of_bot hb σ (add_sound he hg (single_ok (cstOk_negate hc))
          (sat_single ((Lin.Cst.sat_negate cond σ).2 hn)))
      simp only [hs, if_true]
      exact assign_sound he hg hx e1
    · have i1 := add_inv he (single_ok hc)
      have i2 := add_inv he (single_ok (cstOk_negate hc))
      apply XDom.Env.upper_sound congLaws congLaws.join (assign_inv i1 hx e1) (assign_inv i2 hx e2)
      by_cases hs : cond.sat σ
      · simp only [hs, if_true]
        exact Or.inl (assign_sound i1 (add_sound he hg (single_ok hc) (sat_single hs)) hx e1)
      · simp only [hs, if_false]
        exact Or.inr (assign_sound i2 (add_sound he hg (single_ok (cstOk_negate hc))
          (sat_single ((Lin.Cst.sat_negate cond σ).2 hs))) hx e2)

/-! ### casts, `entails`, exported constraints -/

theorem intCast_inv {e : Env} (he : e.Inv) (zext : Bool) (bw : Nat) {dst : Var} (hd : dst < 2 ^ 64) (src : Var) :
    (e.intCast zext bw dst src).Inv := by
  unfold intCast
  split
  · exact add_inv (assign_inv he hd _) (single_ok (cstOk_var_subNum hd _ _))
  · exact assign_inv he hd _

/-- integer casts between integer variables (`assign`, plus `dst <= 2^bw - 1` for `zext`) -/
theorem intCast_sound {e : Env} (he : e.Inv) {σ : State} (hg : e.γ σ) (zext : Bool) (bw : Nat) {dst : Var}
    (hd : dst < 2 ^ 64) (src : Var) (hz : zext = true → σ src ≤ 2 ^ bw - 1) :
    (e.intCast zext bw dst src).γ (upd σ dst (σ src)) := by
  unfold intCast
  have h1 : (e.assign dst (Expr.var src)).γ (upd σ dst (σ src)) := by
    have := assign_sound he hg hd (Expr.var src)
    rwa [eval_var] at this
  split
  · rename_i hzx
    apply add_sound (assign_inv he hd _) h1 (single_ok (cstOk_var_subNum hd _ _))
    apply sat_single
    have := hz hzx
    simp only [Lin.Cst.sat]
    rw [Expr.eval_subNum, eval_var, upd_same]
    omega
  · exact h1

theorem entailFn_sound {e : Env} (he : e.Inv) {σ : State} (hg : e.γ σ) {c : Lin.Cst} (hc : CstOk c)
    (h : entailFn e c = true) : c.sat σ := by
  apply Classical.byContradiction
  intro hn
  exact not_γ_of_bot h σ (add_sound he hg (single_ok (cstOk_negate hc))
    (sat_single ((Lin.Cst.sat_negate c σ).2 hn)))

/-- `entails(cst)`: a yes answer holds in every state of `γ` -/
theorem entails_sound {e : Env} (he : e.Inv) {σ : State} (hg : e.γ σ) {c : Lin.Cst} (hc : CstOk c)
    (h : e.entails c = true) : c.sat σ := by
  unfold entails at h
  simp only [hg.1, Bool.false_eq_true, if_false] at h
  split at h
  · rename_i ht; exact Lin.Cst.sat_of_isTautology ht σ
  · split at h
    · cases h
    · split at h
      · rename_i hk
        rw [List.all_eq_true] at h
        obtain ⟨m1, m2⟩ := mem_eq_split c
        exact sat_of_eq_split hk (entailFn_sound he hg (cstOk_leq hc) (h _ m1))
          (entailFn_sound he hg (cstOk_scale_leq hc (-1)) (h _ m2))
      · exact entailFn_sound he hg hc h

theorem bindingCst_sound (k : Var) (v : Cong) (c : Lin.Cst) (h : bindingCst (k, v) = some c) (σ : State)
    (hm : Cong.mem (σ k) v) : c.sat σ := by
  unfold bindingCst at h
  simp only at h
  cases hs : v.singleton? with
  | none => rw [hs] at h; cases h
  | some n =>
    rw [hs] at h
    simp only [Option.some.injEq] at h
    subst h
    unfold Cong.singleton? at hs
    split at hs
    · rename_i hc
      simp only [Option.some.injEq] at hs
      have ha : v.a = 0 := by
        simp only [Bool.and_eq_true, beq_iff_eq] at hc; exact hc.2
      have := Cong.eq_of_mem_cst hm ha
      simp only [Lin.Cst.sat]
      rw [Expr.eval_subNum, eval_var]
      omega
    · cases hs

/-- `to_linear_constraint_system()` holds in every state of `γ` -/
theorem toCsts_sound {e : Env} (he : e.Inv) {σ : State} (hg : e.γ σ) : Sys.sat e.toCsts σ :=
  XDom.Env.exportCsts_sound bindingCst bindingCst_sound he hg

end Env
end GDom
end Crab
