import CrabProofs.Lemmas.DisIntervalMk

/-! `dis_interval::operator<=` (`Crab.Dis.leq`): sound for all values, reflexive, bottom / top, and
    complete on normalised values (the two-pointer loop relies on the sorted, gap-separated vectors). -/
namespace Crab
namespace Dis
open Bound

theorem dropWhile_eq_cons {α : Type} (p : α → Bool) : ∀ (l : List α) {o : α} {r : List α},
    l.dropWhile p = o :: r → p o = false ∧ ∃ pre, l = pre ++ o :: r := by
  intro l
  induction l with
  | nil => intro o r h; simp at h
  | cons a as ih =>
    intro o r h
    rw [List.dropWhile_cons] at h
    split at h
    · obtain ⟨h1, pre, h2⟩ := ih h
      exact ⟨h1, a :: pre, by simp [h2]⟩
    · rename_i hp
      simp at h
      obtain ⟨rfl, rfl⟩ := h
      exact ⟨by simpa using hp, [], rfl⟩

theorem dropWhile_eq_nil {α : Type} (p : α → Bool) {l : List α} (h : l.dropWhile p = []) :
    ∀ a ∈ l, p a = true := by
  induction l with
  | nil => simp
  | cons a as ih =>
    rw [List.dropWhile_cons] at h
    split at h
    · rename_i hp
      intro b hb
      rcases List.mem_cons.mp hb with rfl | hb
      · exact hp
      · exact ih h b hb
    · simp at h

theorem leqLoop_sound : ∀ (as os : List Itv), leqLoop as os = true →
    ∀ a ∈ as, ∃ o ∈ os, Itv.leq a o = true := by
  intro as
  induction as with
  | nil => intro os _ a ha; simp at ha
  | cons a as' ih =>
    intro os h b hb
    unfold leqLoop at h
    split at h
    · simp at h
    · rename_i o os' hd
      obtain ⟨hpo, pre, hpre⟩ := dropWhile_eq_cons _ os hd
      rcases List.mem_cons.mp hb with rfl | hb
      · exact ⟨o, by simp [hpre], by simpa using hpo⟩
      · obtain ⟨o', ho', hle⟩ := ih (o :: os') h b hb
        exact ⟨o', by rw [hpre]; exact List.mem_append_right _ ho', hle⟩

theorem leq_sound {x y : Dis} (h : leq x y = true) {k : Int} (hk : mem k x) : mem k y := by
  obtain ⟨sx, lx⟩ := x
  obtain ⟨sy, ly⟩ := y
  cases sx <;> cases sy <;> simp_all [leq, isBottom, isTop, mem]
  obtain ⟨a, ha, hka⟩ := hk
  obtain ⟨o, ho, hle⟩ := leqLoop_sound lx ly h a ha
  exact ⟨o, ho, Itv.leq_sound hle hka⟩

theorem leqLoop_refl_aux : ∀ (as pre : List Itv), leqLoop as (pre ++ as) = true := by
  intro as
  induction as with
  | nil => intro pre; simp [leqLoop]
  | cons a as' ih =>
    intro pre
    unfold leqLoop
    split
    · rename_i hd
      have := dropWhile_eq_nil _ hd a (by simp)
      simp [Itv.leq_refl] at this
    · rename_i o os' hd
      -- the loop stops at `a` at the latest: what is left ends with `as'`
      have hsuf : ∃ pre', o :: os' = pre' ++ as' := by
        clear ih
        induction pre with
        | nil =>
          simp [Itv.leq_refl] at hd
          exact ⟨[o], by simp [hd.2]⟩
        | cons p ps ihp =>
          simp only [List.cons_append, List.dropWhile_cons] at hd
          split at hd
          · exact ihp hd
          · simp at hd
            exact ⟨p :: ps ++ [a], by simp [← hd.1, ← hd.2]⟩
      obtain ⟨pre', hp'⟩ := hsuf
      rw [hp']
      exact ih pre'

theorem leq_refl (x : Dis) : leq x x = true := by
  obtain ⟨sx, lx⟩ := x
  cases sx <;> simp [leq, isBottom, isTop]
  exact leqLoop_refl_aux lx []

theorem bot_leq (x y : Dis) (h : x.isBottom = true) : leq x y = true := by simp [leq, h]
theorem leq_top (x y : Dis) (h : y.isTop = true) : leq x y = true := by simp [leq, h]

/-! ### completeness on normalised values -/

theorem exists_mem_of_proper {a : Itv} (h : proper a = true) : ∃ k, Itv.mem k a :=
  let hp := (proper_iff a).mp h
  Itv.exists_mem hp.2.2 hp.1

theorem wfList_rel {l : List Itv} (h : WFList l) {a b : Itv} (ha : a ∈ l) (hb : b ∈ l) :
    a = b ∨ gapOk a b = true ∨ gapOk b a = true := by
  induction l with
  | nil => simp at ha
  | cons c cs ih =>
    have hpw := List.pairwise_cons.mp h.2
    have hcs : WFList cs := ⟨fun x hx => h.1 x (List.mem_cons_of_mem _ hx), hpw.2⟩
    rcases List.mem_cons.mp ha with rfl | ha' <;> rcases List.mem_cons.mp hb with rfl | hb'
    · exact Or.inl rfl
    · exact Or.inr (Or.inl (hpw.1 b hb'))
    · exact Or.inr (Or.inr (hpw.1 a ha'))
    · exact ih hcs ha' hb'

theorem itv_convex {a : Itv} {j k m : Int} (hj : Itv.mem j a) (hk : Itv.mem k a) (h1 : j ≤ m)
    (h2 : m ≤ k) : Itv.mem m a := by
  obtain ⟨l, u⟩ := a
  cases l <;> cases u <;> simp_all [Itv.mem] <;> omega

/-- an interval covered by a normalised vector lies inside one of its intervals -/
theorem single_cover {os : List Itv} (hos : WFList os) {a o : Itv}
    (hcov : ∀ k, Itv.mem k a → memL k os) {k0 : Int} (h0a : Itv.mem k0 a) (ho : o ∈ os)
    (h0o : Itv.mem k0 o) {k : Int} (hk : Itv.mem k a) : Itv.mem k o := by
  apply Classical.byContradiction
  intro hno
  have hne : k ≠ k0 := fun e => hno (e ▸ h0o)
  rcases Int.lt_or_gt_of_ne hne with hlt | hgt
  · -- k < k0 : the lower bound of `o` is finite, above k
    obtain ⟨l, hl, hlk, hl0⟩ : ∃ l, o.lb = .fin l ∧ k < l ∧ l ≤ k0 := by
      obtain ⟨ol, ou⟩ := o
      cases ol <;> cases ou <;> simp_all [Itv.mem] <;> omega
    have hla : Itv.mem (l - 1) a := itv_convex hk h0a (by omega) (by omega)
    have hlo : Itv.mem l o :=
      ⟨by rw [hl]; exact Bound.le_refl _, Bound.le_trans (by simpa using hl0) h0o.2⟩
    obtain ⟨o', ho', hm'⟩ := hcov _ hla
    rcases wfList_rel hos ho ho' with rfl | hg | hg
    · obtain ⟨ol, ou⟩ := o
      simp_all [Itv.mem]; omega
    · have := gapOk_mem hg hlo hm'; omega
    · have := gapOk_mem hg hm' hlo; omega
  · obtain ⟨u, hu, huk, hu0⟩ : ∃ u, o.ub = .fin u ∧ u < k ∧ k0 ≤ u := by
      obtain ⟨ol, ou⟩ := o
      cases ol <;> cases ou <;> simp_all [Itv.mem] <;> omega
    have hua : Itv.mem (u + 1) a := itv_convex h0a hk (by omega) (by omega)
    have huo : Itv.mem u o :=
      ⟨Bound.le_trans h0o.1 (by simpa using hu0), by rw [hu]; exact Bound.le_refl _⟩
    obtain ⟨o', ho', hm'⟩ := hcov _ hua
    rcases wfList_rel hos ho ho' with rfl | hg | hg
    · obtain ⟨ol, ou⟩ := o
      simp_all [Itv.mem]; omega
    · have := gapOk_mem hg huo hm'; omega
    · have := gapOk_mem hg hm' huo; omega

theorem WFList.tail {a : Itv} {l : List Itv} (h : WFList (a :: l)) : WFList l :=
  ⟨fun x hx => h.1 x (List.mem_cons_of_mem _ hx), (List.pairwise_cons.mp h.2).2⟩

theorem WFList.of_append_right {p l : List Itv} (h : WFList (p ++ l)) : WFList l :=
  ⟨fun x hx => h.1 x (List.mem_append_right _ hx), (List.pairwise_append.mp h.2).2.1⟩

theorem leqLoop_complete : ∀ (as os : List Itv), WFList as → WFList os →
    (∀ k, memL k as → memL k os) → leqLoop as os = true := by
  intro as
  induction as with
  | nil => intro os _ _ _; simp [leqLoop]
  | cons a as' ih =>
    intro os has hos hsub
    have hpa := (proper_iff a).mp (has.1 a (by simp))
    obtain ⟨k0, h0a⟩ := exists_mem_of_proper (has.1 a (by simp))
    have hcov : ∀ k, Itv.mem k a → memL k os := fun k hk => hsub k ⟨a, by simp, hk⟩
    obtain ⟨o, ho, h0o⟩ := hcov k0 h0a
    have hle : Itv.leq a o = true :=
      Itv.leq_of_subset hpa.2.2 (fun k hk => single_cover hos hcov h0a ho h0o hk)
    unfold leqLoop
    split
    · rename_i hd
      have := dropWhile_eq_nil _ hd o ho
      simp [hle] at this
    · rename_i o1 os1 hd
      obtain ⟨hp1, pre, hpre⟩ := dropWhile_eq_cons _ os hd
      have hle1 : Itv.leq a o1 = true := by simpa using hp1
      have h0o1 : Itv.mem k0 o1 := Itv.leq_sound hle1 h0a
      have hos1 : WFList (o1 :: os1) := by rw [hpre] at hos; exact hos.of_append_right
      apply ih (o1 :: os1) has.tail hos1
      intro k hk
      obtain ⟨a', ha', hka'⟩ := hk
      have hgap : gapOk a a' = true := (List.pairwise_cons.mp has.2).1 a' ha'
      have hlt := gapOk_mem hgap h0a hka'
      obtain ⟨o', ho', hko'⟩ := hsub k ⟨a', List.mem_cons_of_mem _ ha', hka'⟩
      rw [hpre] at ho'
      rcases List.mem_append.mp ho' with hin | hin
      · -- an interval before `o1` cannot contain a number above `k0`
        exfalso
        rw [hpre] at hos
        have hg := (List.pairwise_append.mp hos.2).2.2 o' hin o1 (by simp)
        have := gapOk_mem hg hko' h0o1
        omega
      · exact ⟨o', hin, hko'⟩

/-- a normalised FINITE value misses some integer -/
theorem exists_not_mem {l : List Itv} (h : WFList l) (hne : l ≠ []) : ∃ k, ¬ memL k l := by
  cases l with
  | nil => exact absurd rfl hne
  | cons a as =>
    have hpa := (proper_iff a).mp (h.1 a (by simp))
    have hothers : ∀ b ∈ as, ∀ j k, Itv.mem j a → Itv.mem k b → j + 1 < k :=
      fun b hb j k hj hk => gapOk_mem ((List.pairwise_cons.mp h.2).1 b hb) hj hk
    obtain ⟨k0, hk0⟩ := exists_mem_of_proper (h.1 a (by simp))
    cases hl : a.lb with
    | fin l =>
      refine ⟨l - 1, ?_⟩
      rintro ⟨i, hi, hki⟩
      rcases List.mem_cons.mp hi with rfl | hi
      · simp [Itv.mem, hl] at hki; omega
      · have hl0 : l ≤ k0 := by have := hk0.1; rw [hl] at this; simpa using this
        have hla : Itv.mem l a :=
          ⟨by rw [hl]; exact Bound.le_refl _, Bound.le_trans (by simpa using hl0) hk0.2⟩
        have := hothers i hi l (l - 1) hla hki
        omega
    | ninf =>
      obtain ⟨u, hu⟩ : ∃ u, a.ub = .fin u := by
        obtain ⟨al, au⟩ := a
        cases au <;> simp_all [Itv.isTop, Itv.WF, Bound.isInfinite]
      refine ⟨u + 1, ?_⟩
      rintro ⟨i, hi, hki⟩
      have hua : Itv.mem u a := by simp [Itv.mem, hl, hu]
      rcases List.mem_cons.mp hi with rfl | hi
      · simp [Itv.mem, hu] at hki; omega
      · have := hothers i hi u (u + 1) hua hki
        omega
    | pinf => exact absurd hl hpa.2.2.1

theorem leq_complete {x y : Dis} (hx : WF x) (hy : WF y) (h : ∀ k, mem k x → mem k y) :
    leq x y = true := by
  obtain ⟨sx, lx⟩ := x
  obtain ⟨sy, ly⟩ := y
  cases sx <;> cases sy <;> simp [leq, isBottom, isTop]
  · -- FINITE ≤ BOT : the left value has a member
    obtain ⟨hne, _, hw⟩ := hx
    obtain ⟨a, as, rfl⟩ := List.exists_cons_of_ne_nil hne
    obtain ⟨k, hk⟩ := exists_mem_of_proper (hw.1 a (by simp))
    exact h k ⟨a, by simp, hk⟩
  · exact leqLoop_complete lx ly hx.2.2 hy.2.2 h
  · exact h 0 trivial
  · obtain ⟨k, hk⟩ := exists_not_mem hy.2.2 hy.1
    exact hk (h k trivial)

end Dis
end Crab
