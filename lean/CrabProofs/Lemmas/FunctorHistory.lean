import CrabModel.Dom.Functors.Base

/-!
History soundness relative to a pool invariant (`Step.SoundOn`, `Step.Preserves` of
`CrabModel/Dom/Functors/Base.lean`): the generalisation of `C03.history_sound` used by functors
whose laws hold on well-formed values only.
-/
namespace Crab
namespace Dom
namespace Fct

variable {A S : Type}

theorem Step.run_preserves (I : A → Prop) (st : Step A S) (hp : Step.Preserves I st) (p : Pool A)
    (h : ∀ i, I (p i)) : ∀ i, I ((st.run p) i) := by
  intro i
  cases st with
  | trans d t =>
    simp only [Step.run, Pool.set]; split
    · exact hp _ (h d)
    · exact h i
  | upper d a b g =>
    simp only [Step.run, Pool.set]; split
    · exact hp _ _ (h a) (h b)
    · exact h i
  | lower d a b g =>
    simp only [Step.run, Pool.set]; split
    · exact hp _ _ (h a) (h b)
    · exact h i
  | copy d s0 =>
    simp only [Step.run, Pool.set]; split
    · exact h s0
    · exact h i
  | setBot d bot =>
    simp only [Step.run, Pool.set]; split
    · exact hp
    · exact h i

theorem runHist_preserves (I : A → Prop) (hist : List (Step A S)) (hp : ∀ st ∈ hist, Step.Preserves I st)
    (p : Pool A) (h : ∀ i, I (p i)) : ∀ i, I ((runHist p hist) i) := by
  induction hist generalizing p with
  | nil => simpa [runHist] using h
  | cons st rest ih =>
    simp only [runHist, List.foldl_cons]
    exact ih (fun x hx => hp x (List.mem_cons_of_mem _ hx)) _
      (Step.run_preserves I st (hp st List.mem_cons_self) p h)

theorem step_sound_on (I : A → Prop) (γ : A → S → Prop) (st : Step A S) (hs : Step.SoundOn I γ st)
    (p : Pool A) (c : CPool S) (hI : ∀ i, I (p i)) (h : ∀ i s, c i s → γ (p i) s) :
    ∀ i s, (st.coll c) i s → γ ((st.run p) i) s := by
  intro i s hc
  cases st with
  | trans d t =>
    simp only [Step.coll, CPool.set, Step.run, Pool.set] at hc ⊢
    split
    · rename_i hi; simp only [hi, if_true] at hc
      obtain ⟨s0, h0, hr⟩ := hc
      exact hs _ _ _ (hI d) (h d s0 h0) hr
    · rename_i hi; simp only [hi, if_false] at hc; exact h i s hc
  | upper d a b g =>
    simp only [Step.coll, CPool.set, Step.run, Pool.set] at hc ⊢
    split
    · rename_i hi; simp only [hi, if_true] at hc
      exact hs _ _ _ (hI a) (hI b) (hc.elim (fun x => Or.inl (h a s x)) (fun x => Or.inr (h b s x)))
    · rename_i hi; simp only [hi, if_false] at hc; exact h i s hc
  | lower d a b g =>
    simp only [Step.coll, CPool.set, Step.run, Pool.set] at hc ⊢
    split
    · rename_i hi; simp only [hi, if_true] at hc
      exact hs _ _ _ (hI a) (hI b) (h a s hc.1) (h b s hc.2)
    · rename_i hi; simp only [hi, if_false] at hc; exact h i s hc
  | copy d s0 =>
    simp only [Step.coll, CPool.set, Step.run, Pool.set] at hc ⊢
    split
    · rename_i hi; simp only [hi, if_true] at hc; exact h s0 s hc
    · rename_i hi; simp only [hi, if_false] at hc; exact h i s hc
  | setBot d bot =>
    simp only [Step.coll, CPool.set, Step.run, Pool.set] at hc ⊢
    split
    · rename_i hi; simp only [hi, if_true] at hc
    · rename_i hi; simp only [hi, if_false] at hc; exact h i s hc

/-- history soundness for steps that are sound on, and preserve, an invariant of the pool -/
theorem history_sound_on (I : A → Prop) (γ : A → S → Prop) (hist : List (Step A S))
    (hs : ∀ st ∈ hist, Step.SoundOn I γ st) (hp : ∀ st ∈ hist, Step.Preserves I st)
    (p : Pool A) (c : CPool S) (hI : ∀ i, I (p i)) (h : ∀ i s, c i s → γ (p i) s) :
    ∀ i s, (collHist c hist) i s → γ ((runHist p hist) i) s := by
  induction hist generalizing p c with
  | nil => simpa [collHist, runHist] using h
  | cons st rest ih =>
    simp only [collHist, runHist, List.foldl_cons]
    exact ih (fun x hx => hs x (List.mem_cons_of_mem _ hx)) (fun x hx => hp x (List.mem_cons_of_mem _ hx)) _ _
      (Step.run_preserves I st (hp st List.mem_cons_self) p hI)
      (step_sound_on I γ st (hs st List.mem_cons_self) p c hI h)

end Fct
end Dom
end Crab
