import CrabProofs.Lemmas.XDomSgnSolve2

/-!
  `sign_domain` (model `Crab.SDom`): `solve_constraints` / `+=`, `assign`, `weak_assign`.
-/
namespace Crab
namespace SDom
open XDom Lin

local notation "SL" => signLattice

namespace Env

/-! ### the invariant alone (no state needed) -/

theorem solveStrict_inv {e : Env} (he : e.Inv) {v : Var} (hv : v < 2 ^ 64) (rhs : Sign) (b : Bool) :
    (e.solveStrict v rhs b).Inv := by
  unfold solveStrict
  cases b <;> simp only [if_true, Bool.false_eq_true, if_false] <;> split
  · exact set_inv he hv _
  · split
    · exact inv_bot
    · exact he
  · exact set_inv he hv _
  · split
    · exact inv_bot
    · exact he

theorem solveIneq_inv {e : Env} (he : e.Inv) {v : Var} (hv : v < 2 ^ 64) (rhs : Sign) (b : Bool) :
    (e.solveIneq v rhs b).Inv := by
  unfold solveIneq
  cases b <;> simp only [if_true, Bool.false_eq_true, if_false] <;> split
  · exact set_inv he hv _
  · split
    · exact inv_bot
    · split
      · exact inv_bot
      · exact he
  · exact set_inv he hv _
  · split
    · exact inv_bot
    · split
      · exact inv_bot
      · exact he

theorem fold_inv {f : Env → Var × Int × Sign → Env}
    (hstep : ∀ (e : Env) t, t.1 < 2 ^ 64 → e.Inv → (f e t).Inv) :
    ∀ (ts : List (Var × Int × Sign)) (e : Env), (∀ t ∈ ts, t.1 < 2 ^ 64) → e.Inv → (ts.foldl f e).Inv := by
  intro ts
  induction ts with
  | nil => intro e _ he; exact he
  | cons t rest ih =>
    intro e hP he
    simp only [List.foldl_cons]
    exact ih _ (fun q hq => hP q (List.mem_cons_of_mem _ hq)) (hstep e t (hP t List.mem_cons_self) he)

theorem eqLoop_inv : ∀ (ts : List (Var × Int × Sign)) (e : Env), (∀ t ∈ ts, t.1 < 2 ^ 64) → e.Inv →
    (eqLoop ts e).2.Inv := by
  intro ts
  induction ts with
  | nil => intro e _ he; exact he
  | cons t rest ih =>
    intro e hP he
    obtain ⟨v, coef, res⟩ := t
    have hv : v < 2 ^ 64 := hP _ List.mem_cons_self
    simp only [eqLoop]
    split
    · exact set_inv he hv _
    · exact ih _ (fun q hq => hP q (List.mem_cons_of_mem _ hq)) (set_inv he hv _)

theorem neqLoop_inv : ∀ (ts : List (Var × Int × Sign)) (e : Env), (∀ t ∈ ts, t.1 < 2 ^ 64) → e.Inv →
    (neqLoop ts e).2.Inv := by
  intro ts
  induction ts with
  | nil => intro e _ he; exact he
  | cons t rest ih =>
    intro e hP he
    obtain ⟨v, coef, res⟩ := t
    have hv : v < 2 ^ 64 := hP _ List.mem_cons_self
    have hrest := fun q hq => hP q (List.mem_cons_of_mem _ hq)
    simp only [neqLoop]
    split
    · split
      · exact set_inv he hv _
      · exact ih _ hrest (set_inv he hv _)
    · split
      · split
        · exact set_inv he hv _
        · exact ih _ hrest (set_inv he hv _)
      · exact ih _ hrest he

theorem extract_vars {e : Env} {ex : Expr} (hv : VarsLt ex) : ∀ t ∈ e.extract ex, t.1 < 2 ^ 64 := by
  intro t ht
  unfold extract at ht
  rw [List.mem_filterMap] at ht
  obtain ⟨p, hp, hpt⟩ := ht
  simp only at hpt
  split at hpt
  · cases hpt
  · split at hpt
    · simp only [Option.some.injEq] at hpt; subst hpt; exact hv _ hp
    · cases hpt

theorem solveOne_inv {e : Env} (he : e.Inv) {c : Lin.Cst} (hc : CstOk c) : (e.solveOne c).2.Inv := by
  have hx := extract_vars (e := e) hc.2
  unfold solveOne
  simp only
  cases c.kind <;> simp only
  · exact eqLoop_inv _ e hx he
  · exact neqLoop_inv _ e hx he
  · apply fold_inv (fun e t ht he => solveIneq_inv he ht _ _)
    · intro t ht; exact hx t (List.mem_filter.mp ht).1
    · apply fold_inv (fun e t ht he => solveIneq_inv he ht _ _) _ e _ he
      intro t ht; exact hx t (List.mem_filter.mp ht).1
  · apply fold_inv (fun e t ht he => solveStrict_inv he ht _ _)
    · intro t ht; exact hx t (List.mem_filter.mp ht).1
    · apply fold_inv (fun e t ht he => solveStrict_inv he ht _ _) _ e _ he
      intro t ht; exact hx t (List.mem_filter.mp ht).1

/-! ### soundness of the body of the loop -/

theorem filter_pos {σ : State} {ex : Expr} {xs : List (Var × Int × Sign)} (hf : ∀ t ∈ xs, Fact σ ex t) :
    ∀ t ∈ xs.filter (fun t => !decide (t.2.1 < 0)), Fact σ ex t ∧ 0 < t.2.1 := by
  intro t ht
  obtain ⟨h1, h2⟩ := List.mem_filter.mp ht
  have hF := hf t h1
  refine ⟨hF, ?_⟩
  have hne := hF.1
  simp only [Bool.not_eq_true', decide_eq_false_iff_not] at h2
  omega

theorem filter_neg {σ : State} {ex : Expr} {xs : List (Var × Int × Sign)} (hf : ∀ t ∈ xs, Fact σ ex t) :
    ∀ t ∈ xs.filter (fun t => decide (t.2.1 < 0)), Fact σ ex t ∧ t.2.1 < 0 := by
  intro t ht
  obtain ⟨h1, h2⟩ := List.mem_filter.mp ht
  exact ⟨hf t h1, by simpa using h2⟩

/-- the body of the loop of `solve_constraints` keeps every state that satisfies the constraint -/
theorem solveOne_sound {e : Env} (he : e.Inv) {σ : State} (hg : e.γ σ) {c : Lin.Cst} (hc : CstOk c)
    (hsat : c.sat σ) : (e.solveOne c).2.γ σ := by
  have hF := extract_facts hg hc.1 hc.2
  unfold Lin.Cst.sat at hsat
  unfold solveOne
  simp only
  cases hk : c.kind <;> rw [hk] at hsat <;> simp only at hsat ⊢
  · exact (eqLoop_spec hsat _ e hF he).2 hg
  · exact (neqLoop_spec hsat _ e hF he).2 hg
  · have s1 := fold_spec (σ := σ) (P := fun t => Fact σ c.expr t ∧ 0 < t.2.1)
      (f := fun e t => e.solveIneq t.1 t.2.2 true)
      (fun e t hP he => solveIneq_spec he hP.1 hsat (Or.inl ⟨rfl, hP.2⟩)) _ e (filter_pos hF) he
    have s2 := fold_spec (σ := σ) (P := fun t => Fact σ c.expr t ∧ t.2.1 < 0)
      (f := fun e t => e.solveIneq t.1 t.2.2 false)
      (fun e t hP he => solveIneq_spec he hP.1 hsat (Or.inr ⟨rfl, hP.2⟩)) _ _ (filter_neg hF) s1.1
    exact s2.2 (s1.2 hg)
  · have s1 := fold_spec (σ := σ) (P := fun t => Fact σ c.expr t ∧ 0 < t.2.1)
      (f := fun e t => e.solveStrict t.1 t.2.2 true)
      (fun e t hP he => solveStrict_spec he hP.1 hsat (Or.inl ⟨rfl, hP.2⟩)) _ e (filter_pos hF) he
    have s2 := fold_spec (σ := σ) (P := fun t => Fact σ c.expr t ∧ t.2.1 < 0)
      (f := fun e t => e.solveStrict t.1 t.2.2 false)
      (fun e t hP he => solveStrict_spec he hP.1 hsat (Or.inr ⟨rfl, hP.2⟩)) _ _ (filter_neg hF) s1.1
    exact s2.2 (s1.2 hg)

theorem solveLoop_spec : ∀ (csts : List Lin.Cst), (∀ c ∈ csts, CstOk c) → ∀ e : Env, e.Inv →
    (solveLoop csts e).Inv ∧ ∀ σ : State, Sys.sat csts σ → e.γ σ → (solveLoop csts e).γ σ := by
  intro csts
  induction csts with
  | nil => intro _ e he; exact ⟨he, fun _ _ hg => hg⟩
  | cons c rest ih =>
    intro hok e he
    have hc := hok c List.mem_cons_self
    have hrest : ∀ c' ∈ rest, CstOk c' := fun c' h => hok c' (List.mem_cons_of_mem _ h)
    simp only [solveLoop]
    split
    · obtain ⟨i, s⟩ := ih hrest e he
      exact ⟨i, fun σ hs hg => s σ (fun c' h => hs c' (List.mem_cons_of_mem _ h)) hg⟩
    · split
      · rename_i hcon
        refine ⟨inv_bot, fun σ hs _ => ?_⟩
        exact absurd (hs c List.mem_cons_self) (Lin.Cst.not_sat_of_isContradiction hcon σ)
      · have hi := solveOne_inv he hc
        split
        · rename_i e' heq
          rw [heq] at hi
          refine ⟨hi, fun σ hs hg => ?_⟩
          have := solveOne_sound he hg hc (hs c List.mem_cons_self)
          rw [heq] at this; exact this
        · rename_i e' heq
          rw [heq] at hi
          obtain ⟨i, s⟩ := ih hrest e' hi
          refine ⟨i, fun σ hs hg => s σ (fun c' h => hs c' (List.mem_cons_of_mem _ h)) ?_⟩
          have := solveOne_sound he hg hc (hs c List.mem_cons_self)
          rw [heq] at this; exact this

theorem add_inv {e : Env} (he : e.Inv) {csts : Sys} (hok : ∀ c ∈ csts, CstOk c) : (e.add csts).Inv := by
  unfold add
  split
  · exact he
  · exact (solveLoop_spec csts hok e he).1

/-- `operator+=(csts)`: every state of `γ` that satisfies the system is kept -/
theorem add_sound {e : Env} (he : e.Inv) {σ : State} (hg : e.γ σ) {csts : Sys} (hok : ∀ c ∈ csts, CstOk c)
    (hsat : Sys.sat csts σ) : (e.add csts).γ σ := by
  unfold add
  simp only [hg.1, Bool.false_eq_true, if_false]
  exact (solveLoop_spec csts hok e he).2 σ hsat hg

theorem single_ok {c : Lin.Cst} (h : CstOk c) : ∀ c' ∈ [c], CstOk c' := by
  intro c' hc'
  simp only [List.mem_cons, List.not_mem_nil, or_false] at hc'
  subst hc'; exact h

/-! ### `assign`, `weak_assign` -/

theorem assign_inv {e : Env} (he : e.Inv) {x : Var} (hx : x < 2 ^ 64) (ex : Expr) : (e.assign x ex).Inv := by
  unfold assign
  split
  · exact he
  · split <;> exact set_inv he hx _

/-- `assign(x, e)`, including the single-variable shortcut -/
theorem assign_sound {e : Env} (he : e.Inv) {σ : State} (hg : e.γ σ) {x : Var} (hx : x < 2 ^ 64) (ex : Expr) :
    (e.assign x ex).γ (upd σ x (ex.eval σ)) := by
  unfold assign
  simp only [hg.1, Bool.false_eq_true, if_false]
  split
  · rename_i v hv
    rw [getVariable_spec hv σ]
    exact set_sound he hg hx (get_mem hg v)
  · exact set_sound he hg hx (eval_sound hg ex)

theorem weakAssign_inv {e : Env} (he : e.Inv) {x : Var} (hx : x < 2 ^ 64) (ex : Expr) : (e.weakAssign x ex).Inv := by
  unfold weakAssign
  split
  · exact he
  · split <;> exact XDom.Env.joinKey_inv signLaws he hx trivial

/-- `weak_assign(x, e)`: both the old state and the updated state are described -/
theorem weakAssign_sound {e : Env} (he : e.Inv) {σ : State} (hg : e.γ σ) {x : Var} (hx : x < 2 ^ 64) (ex : Expr) :
    (e.weakAssign x ex).γ σ ∧ (e.weakAssign x ex).γ (upd σ x (ex.eval σ)) := by
  unfold weakAssign
  simp only [hg.1, Bool.false_eq_true, if_false]
  split
  · rename_i v hv
    rw [getVariable_spec hv σ]
    exact XDom.Env.joinKey_sound signLaws he hg hx trivial (get_mem hg v)
  · exact XDom.Env.joinKey_sound signLaws he hg hx trivial (eval_sound hg ex)

end Env
end SDom
end Crab
