import CrabModel.Dom.IntervalDomain
import CrabProofs.Lemmas.IntervalLattice
import CrabProofs.Lemmas.IntervalArith

/-!
  The environment of the interval domain (`Crab.IDom.Env`, model of `separate_domain`):
  lookup after insert / remove / merges, concretisation `γ`, soundness of `set`, `forget` and of
  the lattice operations.
-/
namespace Crab
namespace IDom
open Lin

namespace Map

theorem find_insert (m : Map) (k : Var) (v : Itv) (x : Var) :
    find (insert m k v) x = if x = k then some v else find m x := by
  induction m with
  | nil => simp [insert, find]
  | cons p rest ih =>
    obtain ⟨k', v'⟩ := p
    unfold insert
    split
    · rename_i h1; subst h1
      simp only [find]; split <;> rfl
    · split
      · simp only [find]
      · rename_i h1 h2
        simp only [find, ih]
        by_cases hx : x = k'
        · subst hx
          have : ¬ x = k := fun h => h1 h.symm
          simp [this]
        · simp [hx]

theorem find_remove (m : Map) (k x : Var) :
    find (remove m k) x = if x = k then none else find m x := by
  induction m with
  | nil => simp [remove, find]
  | cons p rest ih =>
    obtain ⟨k', v'⟩ := p
    unfold remove at ih ⊢
    simp only [List.filter]
    by_cases h1 : k' = k
    · subst h1
      simp only [bne_self_eq_false, ih, find]
      by_cases hx : x = k' <;> simp [hx]
    · have : (k' != k) = true := by simp [h1]
      simp only [this, find, ih]
      by_cases hx : x = k'
      · subst hx; simp [h1]
      · simp [hx]

theorem find_some_mem {m : Map} {k : Var} {v : Itv} (h : find m k = some v) : (k, v) ∈ m := by
  induction m with
  | nil => simp [find] at h
  | cons p rest ih =>
    obtain ⟨k', v'⟩ := p
    simp only [find] at h
    by_cases hk : k = k'
    · simp only [hk, if_true, Option.some.injEq] at h; subst hk; subst h; exact List.mem_cons_self
    · simp only [hk, if_false] at h; exact List.mem_cons_of_mem _ (ih h)

theorem find_none_of_not_key {m : Map} {k : Var} (h : ∀ p ∈ m, p.1 ≠ k) : find m k = none := by
  induction m with
  | nil => rfl
  | cons p rest ih =>
    obtain ⟨k', v'⟩ := p
    simp only [find]
    have h1 : k ≠ k' := fun e => h (k', v') List.mem_cons_self e.symm
    simp only [h1, if_false]
    exact ih (fun q hq => h q (List.mem_cons_of_mem _ hq))

theorem find_isSome_of_mem {m : Map} {k : Var} {v : Itv} (h : (k, v) ∈ m) : (find m k).isSome = true := by
  induction m with
  | nil => simp at h
  | cons p rest ih =>
    obtain ⟨k', v'⟩ := p
    simp only [find]
    by_cases hk : k = k'
    · simp [hk]
    · simp only [hk, if_false]
      rcases List.mem_cons.1 h with h | h
      · exact absurd (congrArg Prod.fst h) hk
      · exact ih h

/-- lookup in the result of a non-absorbing merge (meet, narrowing) -/
theorem find_mergeKeep (op : Itv → Itv → Itv) (a b : Map) (x : Var) :
    find (mergeKeep op a b) x =
      match find a x, find b x with
      | some u, some w => some (op u w)
      | some u, none => some u
      | none, some w => some w
      | none, none => none := by
  induction b with
  | nil => simp [mergeKeep, find]; cases find a x <;> rfl
  | cons p rest ih =>
    obtain ⟨k, w⟩ := p
    unfold mergeKeep at ih ⊢
    simp only [List.foldr_cons, find]
    by_cases hx : x = k
    · subst hx
      simp only [if_true]
      cases ha : find a x with
      | none => simp [find_insert]
      | some u => simp [find_insert]
    · simp only [hx, if_false]
      cases ha : find a k with
      | none => simp only [find_insert, hx, if_false]; exact ih
      | some u => simp only [find_insert, hx, if_false]; exact ih

/-- the invariant of the map: strictly increasing keys -/
def Sorted (m : Map) : Prop := m.Pairwise (fun p q => p.1 < q.1)

theorem find_none_of_lt {m : Map} {k : Var} (h : ∀ p ∈ m, k < p.1) : find m k = none := by
  induction m with
  | nil => rfl
  | cons p rest ih =>
    obtain ⟨k', v'⟩ := p
    simp only [find]
    have h1 : k ≠ k' := Nat.ne_of_lt (h (k', v') List.mem_cons_self)
    simp only [h1, if_false]
    exact ih (fun q hq => h q (List.mem_cons_of_mem _ hq))

theorem mem_iff_find {m : Map} (hs : Sorted m) (k : Var) (v : Itv) : (k, v) ∈ m ↔ find m k = some v := by
  induction m with
  | nil => simp [find]
  | cons p rest ih =>
    obtain ⟨k', v'⟩ := p
    have hs' := List.pairwise_cons.1 hs
    simp only [find, List.mem_cons]
    by_cases hk : k = k'
    · subst hk
      simp only [if_true, Option.some.injEq, Prod.mk.injEq, true_and]
      constructor
      · rintro (h | h)
        · exact h.symm
        · have := hs'.1 _ h; simp at this
      · intro h; exact Or.inl h.symm
    · simp only [hk, if_false, Prod.mk.injEq, false_and, false_or]
      exact ih hs'.2

theorem find_mergeAbs (op : Itv → Itv → Itv) {a : Map} (hs : Sorted a) (b : Map) (x : Var) :
    find (mergeAbs op a b) x =
      match find a x, find b x with
      | some u, some w => if (op u w).isTop then none else some (op u w)
      | _, _ => none := by
  induction a with
  | nil => simp [mergeAbs, find]
  | cons p rest ih =>
    obtain ⟨k, u⟩ := p
    have hs' := List.pairwise_cons.1 hs
    have ih := ih hs'.2
    unfold mergeAbs at ih ⊢
    simp only [List.filterMap_cons, find]
    by_cases hx : x = k
    · subst hx
      have hnone : find rest x = none := find_none_of_lt (fun p hp => hs'.1 p hp)
      simp only [if_true]
      cases hb : find b x with
      | none => simp only []; rw [ih, hb, hnone]
      | some w =>
        simp only []
        by_cases ht : (op u w).isTop = true
        · simp only [ht, if_true]; rw [ih, hb, hnone]
        · simp only [ht]; simp [find]
    · simp only [hx, if_false]
      cases hb : find b k with
      | none => simp only []; exact ih
      | some w =>
        simp only []
        by_cases ht : (op u w).isTop = true
        · simp only [ht, if_true]; exact ih
        · simp only [ht]; simp only [Bool.false_eq_true, if_false, find, hx]; exact ih

theorem insert_keys_subset {m : Map} {k : Var} {v : Itv} {p : Var × Itv} (h : p ∈ insert m k v) :
    p = (k, v) ∨ p ∈ m := by
  induction m with
  | nil => simp [insert] at h; exact Or.inl h
  | cons q rest ih =>
    obtain ⟨k', v'⟩ := q
    unfold insert at h
    split at h
    · rcases List.mem_cons.1 h with h | h
      · exact Or.inl h
      · exact Or.inr (List.mem_cons_of_mem _ h)
    · split at h
      · rcases List.mem_cons.1 h with h | h
        · exact Or.inl h
        · exact Or.inr h
      · rcases List.mem_cons.1 h with h | h
        · exact Or.inr (h ▸ List.mem_cons_self)
        · rcases ih h with h | h
          · exact Or.inl h
          · exact Or.inr (List.mem_cons_of_mem _ h)

theorem insert_sorted {m : Map} (hs : Sorted m) (k : Var) (v : Itv) : Sorted (insert m k v) := by
  induction m with
  | nil => simp [insert, Sorted]
  | cons q rest ih =>
    obtain ⟨k', v'⟩ := q
    have hs' := List.pairwise_cons.1 hs
    unfold insert
    split
    · rename_i h1; subst h1
      exact List.pairwise_cons.2 ⟨hs'.1, hs'.2⟩
    · split
      · rename_i h1 h2
        refine List.pairwise_cons.2 ⟨?_, hs⟩
        intro p hp
        rcases List.mem_cons.1 hp with hp | hp
        · subst hp; exact h2
        · exact Nat.lt_trans h2 (hs'.1 p hp)
      · rename_i h1 h2
        refine List.pairwise_cons.2 ⟨?_, ih hs'.2⟩
        intro p hp
        rcases insert_keys_subset hp with hp | hp
        · subst hp; exact Nat.lt_of_le_of_ne (Nat.le_of_not_lt h2) (fun e => h1 e.symm)
        · exact hs'.1 p hp

theorem remove_sorted {m : Map} (hs : Sorted m) (k : Var) : Sorted (remove m k) :=
  List.Pairwise.filter _ hs

theorem mergeAbs_sorted (op : Itv → Itv → Itv) {a : Map} (hs : Sorted a) (b : Map) : Sorted (mergeAbs op a b) := by
  unfold mergeAbs Sorted
  rw [List.pairwise_filterMap]
  refine List.Pairwise.imp ?_ hs
  intro p q hpq p' hp' q' hq'
  have e1 : p'.1 = p.1 := by
    revert hp'; cases find b p.1 <;> simp; intro _ h; rw [← h]
  have e2 : q'.1 = q.1 := by
    revert hq'; cases find b q.1 <;> simp; intro _ h; rw [← h]
  rw [e1, e2]; exact hpq

theorem mergeKeep_sorted (op : Itv → Itv → Itv) {a : Map} (hs : Sorted a) (b : Map) : Sorted (mergeKeep op a b) := by
  unfold mergeKeep
  induction b with
  | nil => exact hs
  | cons p rest ih =>
    simp only [List.foldr_cons]
    split <;> exact insert_sorted ih _ _


theorem mergeBot_false {op : Itv → Itv → Itv} {a b : Map} (h : mergeBot op a b = false)
    {x : Var} {u w : Itv} (ha : find a x = some u) (hb : find b x = some w) :
    (op u w).isBottom = false := by
  unfold mergeBot at h
  rw [List.any_eq_false] at h
  have := h (x, u) (find_some_mem ha)
  simp only [hb] at this
  simpa using this

theorem leq_iff (a b : Map) : leq a b = true ↔
    ∀ p ∈ b, ∃ u, find a p.1 = some u ∧ Itv.leq u p.2 = true := by
  unfold leq
  rw [List.all_eq_true]
  constructor
  · intro h p hp
    have := h p hp
    cases hf : find a p.1 with
    | none => simp [hf] at this
    | some u => simp only [hf] at this; exact ⟨u, rfl, this⟩
  · intro h p hp
    obtain ⟨u, hu, hl⟩ := h p hp
    simp [hu, hl]

end Map

/-! ### concretisation -/

/-- a concrete state: a value for every variable -/
abbrev State := Var → Int

/-- `σ[x ↦ n]` -/
def upd (σ : State) (x : Var) (n : Int) : State := fun y => if y = x then n else σ y

@[simp] theorem upd_same (σ : State) (x : Var) (n : Int) : upd σ x n x = n := by simp [upd]
theorem upd_other (σ : State) {x y : Var} (n : Int) (h : y ≠ x) : upd σ x n y = σ y := by simp [upd, h]

namespace Env

/-- `γ env σ := ¬bottom ∧ ∀ x, σ x ∈ env.at x` -/
def γ (e : Env) (σ : State) : Prop := e.bottom = false ∧ ∀ x, Itv.mem (σ x) (e.get x)

theorem not_γ_bottom {e : Env} (h : e.bottom = true) (σ : State) : ¬ γ e σ := by
  intro hg; rw [hg.1] at h; exact absurd h (by decide)

theorem not_γ_bot (σ : State) : ¬ γ bot σ := not_γ_bottom rfl σ

theorem γ_top (σ : State) : γ top σ := ⟨rfl, fun x => by simp [get, top, Map.find, Itv.mem_top]⟩

theorem get_of_not_bottom {e : Env} (h : e.bottom = false) (x : Var) :
    e.get x = match e.m.find x with | some v => v | none => Itv.top := by
  unfold get; rw [if_neg (by simp [h])]; cases e.m.find x <;> rfl

/-- `γ` only depends on the bindings -/
theorem γ_iff_of_not_bottom {e : Env} (h : e.bottom = false) (σ : State) :
    γ e σ ↔ ∀ x v, e.m.find x = some v → Itv.mem (σ x) v := by
  constructor
  · intro hg x v hv
    have := hg.2 x
    rw [get_of_not_bottom h, hv] at this
    exact this
  · intro hh
    refine ⟨h, fun x => ?_⟩
    rw [get_of_not_bottom h]
    cases hv : e.m.find x with
    | none => exact Itv.mem_top _
    | some v => exact hh x v hv

/-- lookup after `set` of a value that is not bottom, in an environment that is not bottom -/
theorem get_set_same {e : Env} (h : e.bottom = false) {v : Itv} (hv : v.isBottom = false) (k : Var)
    {n : Int} (hn : Itv.mem n v) : Itv.mem n ((e.set k v).get k) := by
  unfold set
  simp only [h, hv, Bool.false_eq_true, if_false]
  by_cases ht : v.isTop = true
  · simp only [ht, if_true, get, Map.find_remove, if_true]
    exact Itv.mem_top _
  · simp only [ht]
    simp [get, Map.find_insert, hn]

theorem get_set_other {e : Env} (h : e.bottom = false) {v : Itv} (hv : v.isBottom = false) {k x : Var}
    (hx : x ≠ k) : (e.set k v).get x = e.get x := by
  unfold set
  simp only [h, hv, Bool.false_eq_true, if_false]
  by_cases ht : v.isTop = true
  · simp [ht, get, h, Map.find_remove, hx]
  · simp [ht, get, h, Map.find_insert, hx]

theorem set_bottom_false {e : Env} (h : e.bottom = false) {v : Itv} (hv : v.isBottom = false) (k : Var) :
    (e.set k v).bottom = false := by
  unfold set
  simp only [h, hv, Bool.false_eq_true, if_false]
  split <;> rfl

/-- soundness of `set`: the variable receives any member of the new value -/
theorem set_sound {e : Env} {σ : State} (hg : γ e σ) {v : Itv} {n : Int} (hn : Itv.mem n v) (k : Var) :
    γ (e.set k v) (upd σ k n) := by
  have hv := Itv.isBottom_false_of_mem hn
  refine ⟨set_bottom_false hg.1 hv k, fun x => ?_⟩
  by_cases hx : x = k
  · subst hx; rw [upd_same]; exact get_set_same hg.1 hv x hn
  · rw [upd_other _ _ hx, get_set_other hg.1 hv hx]; exact hg.2 x

/-- `set` of a value that contains the current value of the variable keeps the state -/
theorem set_sound_same {e : Env} {σ : State} (hg : γ e σ) {v : Itv} {k : Var} (hn : Itv.mem (σ k) v) :
    γ (e.set k v) σ := by
  have := set_sound hg hn k
  have e' : upd σ k (σ k) = σ := by funext y; simp [upd]; intro h; rw [h]
  rwa [e'] at this

/-- soundness of `forget` (`operator-=`): the variable may take any value -/
theorem forget_sound {e : Env} {σ : State} (hg : γ e σ) (k : Var) (n : Int) :
    γ (e.forget k) (upd σ k n) := by
  unfold forget
  simp only [hg.1, Bool.false_eq_true, if_false]
  refine ⟨rfl, fun x => ?_⟩
  by_cases hx : x = k
  · subst hx; simp [get, Map.find_remove, Itv.mem_top]
  · rw [upd_other _ _ hx]
    have := hg.2 x
    simpa [get, hg.1, Map.find_remove, hx] using this

theorem forget_sound_same {e : Env} {σ : State} (hg : γ e σ) (k : Var) : γ (e.forget k) σ := by
  have := forget_sound hg k (σ k)
  have e' : upd σ k (σ k) = σ := by funext y; simp [upd]; intro h; rw [h]
  rwa [e'] at this

/-! ### lattice operations -/

theorem leq_sound {a b : Env} (h : leq a b = true) {σ : State} (hg : γ a σ) : γ b σ := by
  unfold leq at h
  simp only [hg.1, Bool.false_eq_true, if_false] at h
  cases hb : b.bottom with
  | true => simp [hb] at h
  | false =>
    simp only [hb, Bool.false_eq_true, if_false] at h
    rw [Map.leq_iff] at h
    rw [γ_iff_of_not_bottom hb]
    intro x v hv
    obtain ⟨u, hu, hl⟩ := h (x, v) (Map.find_some_mem hv)
    exact Itv.leq_sound hl ((γ_iff_of_not_bottom hg.1 σ).1 hg x u hu)

theorem bot_leq (b : Env) : leq bot b = true := by simp [leq, bot]
theorem leq_of_bottom {a : Env} (h : a.bottom = true) (b : Env) : leq a b = true := by simp [leq, h]
theorem leq_top (a : Env) : leq a top = true := by
  unfold leq; split
  · rfl
  · simp [top, Map.leq]

end Env

end IDom
end Crab
