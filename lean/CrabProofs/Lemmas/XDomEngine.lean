import CrabProofs.Lemmas.XDomStmt
import CrabModel.Fix.Semantics

/-!
  The contract of the fixpoint engine (`Crab.Fix.Sem`) for a domain given by its per-operation
  soundness laws: blocks are lists of admissible statements of `XDom.Stmt`, the block transformer
  is the composition of the abstract executions, the concrete step the composition of the
  relations.  Instantiated for the constant, sign and congruence domains in
  `Props/C01XDom.lean`.
-/
namespace Crab
namespace XDom
open Lin

/-- a domain as the engine sees it: values with a concretisation, the lattice operations, and a
    sound abstract execution of the admissible statements -/
structure EngDom where
  A : Type
  γ : A → State → Prop
  ops : Fix.Ops A
  /-- the statements the domain executes (side conditions on their arguments) -/
  Adm : Stmt → Prop
  exec : (st : Stmt) → Adm st → A → A
  exec_sound : ∀ st (h : Adm st) a s s', γ a s → st.rel s s' → γ (exec st h a) s'
  join_left : ∀ a b s, γ a s → γ (ops.join a b) s
  join_right : ∀ a b s, γ b s → γ (ops.join a b) s
  widen_left : ∀ a b s, γ a s → γ (ops.widen a b) s
  widen_right : ∀ a b s, γ b s → γ (ops.widen a b) s
  meet_sound : ∀ a b s, γ a s → γ b s → γ (ops.meet a b) s
  narrow_sound : ∀ a b s, γ a s → γ b s → γ (ops.narrow a b) s
  leq_sound : ∀ a b s, ops.leq a b = true → γ a s → γ b s

namespace EngDom
variable (D : EngDom)

/-- an admissible statement -/
def AStmt := { st : Stmt // D.Adm st }

/-- the block transformer: the statements of the block in order -/
def execBlock (b : List D.AStmt) (a : D.A) : D.A := b.foldl (fun a st => D.exec st.1 st.2 a) a

/-- the composition of the relations of the statements -/
def BlockRel : List D.AStmt → State → State → Prop
  | [], s, s' => s' = s
  | st :: rest, s, s' => ∃ t, st.1.rel s t ∧ BlockRel rest t s'

theorem execBlock_sound : ∀ (b : List D.AStmt) (a : D.A) (s s' : State),
    D.γ a s → D.BlockRel b s s' → D.γ (D.execBlock b a) s' := by
  intro b
  induction b with
  | nil => intro a s s' hg hr; simp only [BlockRel] at hr; subst hr; exact hg
  | cons st rest ih =>
    intro a s s' hg hr
    obtain ⟨t, h1, h2⟩ := hr
    simp only [execBlock, List.foldl_cons]
    exact ih _ t s' (D.exec_sound st.1 st.2 a s t hg h1) h2

/-- a context of the iterator whose value type is the domain and whose block transformers are
    blocks of admissible statements -/
def mkCtx (prog : Nat → List D.AStmt) (preds : Nat → List Nat) (nesting : Nat → Option (List Nat))
    (entry : Nat) (init : D.A) (assumptions : Option (List (Nat × D.A))) (delay descending : Nat) :
    Fix.Ctx D.A :=
  { ops := D.ops, analyze := fun n a => D.execBlock (prog n) a, preds := preds, nesting := nesting,
    entry := entry, init := init, assumptions := assumptions, delay := delay, descending := descending }

/-- the soundness contract `Crab.Fix.Sem` holds -/
def sem (prog : Nat → List D.AStmt) (preds : Nat → List Nat) (nesting : Nat → Option (List Nat))
    (entry : Nat) (init : D.A) (assumptions : Option (List (Nat × D.A))) (delay descending : Nat) :
    Fix.Sem (D.mkCtx prog preds nesting entry init assumptions delay descending) State where
  γ := D.γ
  step := fun n s s' => D.BlockRel (prog n) s s'
  analyze_sound := fun n a s s' hg hr => D.execBlock_sound (prog n) a s s' hg hr
  join_left := D.join_left
  join_right := D.join_right
  widen_left := D.widen_left
  widen_right := D.widen_right
  meet_sound := D.meet_sound
  narrow_sound := D.narrow_sound
  leq_sound := D.leq_sound

end EngDom
end XDom
end Crab
