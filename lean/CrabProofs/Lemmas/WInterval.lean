import CrabProofs.Lemmas.WrapInt
import CrabModel.Scalar.WInterval

/-!
  Lemmas about the model `Crab.WInt` of `wrapped_interval<z_number>`: circular distance,
  membership, soundness of the order, join, meet, `+`, `-`, unary `-`.
-/
namespace Crab
namespace WInt
open WrapInt

/-- clockwise distance from `s` to `v` on the circle of `M` points -/
def D (M s v : Nat) : Nat := if s ≤ v then v - s else v + M - s

theorem D_spec (M s v : Nat) : (s ≤ v ∧ D M s v = v - s) ∨ (v < s ∧ D M s v = v + M - s) := by
  unfold D; split
  · left; exact ⟨by assumption, rfl⟩
  · right; exact ⟨by omega, rfl⟩

theorem mod_small_or (x M : Nat) (_hM : 0 < M) (h : x < 2 * M) :
    (x < M ∧ x % M = x) ∨ (M ≤ x ∧ x % M = x - M) := by
  by_cases hx : x < M
  · left; exact ⟨hx, Nat.mod_eq_of_lt hx⟩
  · right
    refine ⟨by omega, ?_⟩
    rw [Nat.mod_eq_sub_mod (by omega)]
    exact Nat.mod_eq_of_lt (by omega)

/-- `(a - b).n` for reduced operands of width `w` -/
theorem red_sub_eq {w : Nat} (hw : w ≤ 64) {a b : Nat} (ha : a < 2 ^ w) (hb : b < 2 ^ w) :
    red w ((a + 2 ^ 64 - b % 2 ^ 64) % 2 ^ 64) = D (2 ^ w) b a := by
  have hb64 : b < 2 ^ 64 := Nat.lt_of_lt_of_le hb (pow_le_64 hw)
  rw [red_mod hw, Nat.mod_eq_of_lt hb64, pow64_split hw,
    sub_mod_lemma _ _ _ _ (Nat.pow_pos (by decide)) (Nat.le_of_lt hb)]
  have hM : 0 < 2 ^ w := Nat.pow_pos (by decide)
  rcases mod_small_or (2 ^ w - b + a) (2 ^ w) hM (by omega) with ⟨h1, h2⟩ | ⟨h1, h2⟩ <;>
  rcases D_spec (2 ^ w) b a with ⟨h3, h4⟩ | ⟨h3, h4⟩ <;> omega

theorem red_add_eq {w : Nat} (hw : w ≤ 64) (a b : Nat) :
    red w ((a + b) % 2 ^ 64) = (a + b) % 2 ^ w := red_mod hw _


/-- the interval of width `w` with raw end points `s`, `e` -/
abbrev W (w s e : Nat) (b : Bool) : WInt := ⟨⟨w, s⟩, ⟨w, e⟩, b⟩

theorem isTop_W {w : Nat} (hw : w ≤ 64) {s e : Nat} (hs : s < 2 ^ w) (he : e < 2 ^ w) :
    (W w s e false).isTop = decide (D (2 ^ w) s e = 2 ^ w - 1) := by
  simp only [isTop, subT, umaxT, Bool.not_false, Bool.true_and, red_sub_eq hw he hs]
  rw [Bool.eq_iff_iff]; simp

theorem at_W {w : Nat} (hw : w ≤ 64) {s e v : Nat} (hs : s < 2 ^ w) (he : e < 2 ^ w) (hv : v < 2 ^ w) :
    (W w s e false).at ⟨w, v⟩ =
      (decide (D (2 ^ w) s e = 2 ^ w - 1) || decide (D (2 ^ w) s v ≤ D (2 ^ w) s e)) := by
  unfold WInt.at
  rw [isTop_W hw hs he]
  simp only [Bool.false_eq_true, if_false, subT, red_sub_eq hw hv hs, red_sub_eq hw he hs]
  by_cases h : D (2 ^ w) s e = 2 ^ w - 1 <;> simp [h]

/-- mathematical membership of a value of width `w` -/
def mem (w v : Nat) (x : WInt) : Prop :=
  x.isBottom = false ∧
    (x.isTop = true ∨
      (x.start.width = w ∧ D (2 ^ w) (x.start.n) v ≤ D (2 ^ w) (x.start.n) (x.stop.n)))

theorem mem_W {w : Nat} (hw : w ≤ 64) {s e v : Nat} (hs : s < 2 ^ w) (he : e < 2 ^ w) :
    mem w v (W w s e false) ↔
      (D (2 ^ w) s e = 2 ^ w - 1 ∨ D (2 ^ w) s v ≤ D (2 ^ w) s e) := by
  simp [mem, isTop_W hw hs he]

theorem leq_W_sound {w : Nat} (hw : w ≤ 64) {s1 e1 s2 e2 v : Nat}
    (h1 : s1 < 2 ^ w) (h2 : e1 < 2 ^ w) (h3 : s2 < 2 ^ w) (h4 : e2 < 2 ^ w) (hv : v < 2 ^ w)
    (hl : (W w s1 e1 false).leq (W w s2 e2 false) = true) (hm : mem w v (W w s1 e1 false)) :
    mem w v (W w s2 e2 false) := by
  rw [mem_W hw h1 h2] at hm
  rw [mem_W hw h3 h4]
  unfold leq at hl
  rw [isTop_W hw h1 h2, isTop_W hw h3 h4, at_W hw h3 h4 h1, at_W hw h3 h4 h2, at_W hw h1 h2 h3,
    at_W hw h1 h2 h4] at hl
  generalize 2 ^ w = M at *
  have a1 := D_spec M s2 s1; have a2 := D_spec M s2 e2; have a3 := D_spec M s2 e1
  have a4 := D_spec M s1 s2; have a5 := D_spec M s1 e1; have a6 := D_spec M s1 e2
  have a7 := D_spec M s1 v; have a8 := D_spec M s2 v
  split at hl
  · simp at *; omega
  · split at hl
    · cases hl
    · split at hl
      · simp at *; omega
      · simp at *; omega


/-- Prop form of `is_top` and `at` on a proper shape -/
def T (M s e : Nat) : Prop := D M s e = M - 1
def A (M s e v : Nat) : Prop := D M s e = M - 1 ∨ D M s v ≤ D M s e

theorem at_W_iff {w : Nat} (hw : w ≤ 64) {s e v : Nat} (hs : s < 2 ^ w) (he : e < 2 ^ w) (hv : v < 2 ^ w) :
    (W w s e false).at ⟨w, v⟩ = true ↔ A (2 ^ w) s e v := by
  rw [at_W hw hs he hv]; simp [A]

theorem leq_W_iff {w : Nat} (hw : w ≤ 64) {s1 e1 s2 e2 : Nat}
    (h1 : s1 < 2 ^ w) (h2 : e1 < 2 ^ w) (h3 : s2 < 2 ^ w) (h4 : e2 < 2 ^ w) :
    (W w s1 e1 false).leq (W w s2 e2 false) = true ↔
      (T (2 ^ w) s2 e2 ∨ (¬ T (2 ^ w) s1 e1 ∧ ((s1 = s2 ∧ e1 = e2) ∨
        (A (2 ^ w) s2 e2 s1 ∧ A (2 ^ w) s2 e2 e1 ∧ (¬ A (2 ^ w) s1 e1 s2 ∨ ¬ A (2 ^ w) s1 e1 e2))))) := by
  unfold leq
  rw [isTop_W hw h1 h2, isTop_W hw h3 h4, at_W hw h3 h4 h1, at_W hw h3 h4 h2, at_W hw h1 h2 h3,
    at_W hw h1 h2 h4]
  unfold T A
  by_cases t2 : D (2 ^ w) s2 e2 = 2 ^ w - 1
  · simp [t2]
  · by_cases t1 : D (2 ^ w) s1 e1 = 2 ^ w - 1
    · simp [t1, t2]
    · by_cases hs : s1 = s2 ∧ e1 = e2
      · simp [t2, hs]
      · simp [t1, t2, hs]
        exact ⟨fun ⟨⟨a, b⟩, c⟩ => ⟨a, b, c⟩, fun ⟨a, b, c⟩ => ⟨⟨a, b⟩, c⟩⟩

theorem mem_top (w v : Nat) : mem w v top := by
  refine ⟨rfl, Or.inl ?_⟩; decide

theorem D_lt {M s v : Nat} (hs : s < M) (hv : v < M) : D M s v < M := by
  rcases D_spec M s v with ⟨a, b⟩ | ⟨a, b⟩ <;> omega

theorem D_self (M s : Nat) : D M s s = 0 := by simp [D]

/-- rotation invariance of the clockwise distance -/
theorem D_rot {M a s v : Nat} (ha : a < M) (hs : s < M) (hv : v < M) :
    D M s v = D M (D M a s) (D M a v) := by
  rcases D_spec M s v with ⟨x1, y1⟩ | ⟨x1, y1⟩ <;>
  rcases D_spec M a s with ⟨x2, y2⟩ | ⟨x2, y2⟩ <;>
  rcases D_spec M a v with ⟨x3, y3⟩ | ⟨x3, y3⟩ <;>
  rcases D_spec M (D M a s) (D M a v) with ⟨x4, y4⟩ | ⟨x4, y4⟩ <;> omega


/-! join, in coordinates relative to the start of the left operand:
    `o, l1, q, p` are the positions of `y.start, x.stop, y.stop, v` -/
theorem join_B2 (M o l1 q p : Nat) (ho : o < M) (hl : l1 < M) (hq : q < M) (hp : p < M)
   (hm : (l1 = M - 1 ∨ p ≤ l1) ∨ (D M o q = M - 1 ∨ D M o p ≤ D M o q))
   (nB1 : ¬ ((D M o q = M - 1 ∨ D M o 0 ≤ D M o q) ∧ (D M o q = M - 1 ∨ D M o l1 ≤ D M o q) ∧
             (l1 = M - 1 ∨ o ≤ l1) ∧ (l1 = M - 1 ∨ q ≤ l1)))
   (c1 : D M o q = M - 1 ∨ D M o l1 ≤ D M o q) (c2 : l1 = M - 1 ∨ o ≤ l1) :
   q = M - 1 ∨ p ≤ q := by
  have a1 := D_spec M o q; have a2 := D_spec M o 0; have a3 := D_spec M o l1
  have a4 := D_spec M o p
  omega

theorem join_B3 (M o l1 q p : Nat) (ho : o < M) (hl : l1 < M) (hq : q < M) (hp : p < M)
   (hm : (l1 = M - 1 ∨ p ≤ l1) ∨ (D M o q = M - 1 ∨ D M o p ≤ D M o q))
   (nB1 : ¬ ((D M o q = M - 1 ∨ D M o 0 ≤ D M o q) ∧ (D M o q = M - 1 ∨ D M o l1 ≤ D M o q) ∧
             (l1 = M - 1 ∨ o ≤ l1) ∧ (l1 = M - 1 ∨ q ≤ l1)))
   (c1 : l1 = M - 1 ∨ q ≤ l1) (c2 : D M o q = M - 1 ∨ D M o 0 ≤ D M o q) :
   D M o l1 = M - 1 ∨ D M o p ≤ D M o l1 := by
  have a1 := D_spec M o q; have a2 := D_spec M o 0; have a3 := D_spec M o l1
  have a4 := D_spec M o p
  omega

theorem join_B45 (M o l1 q p : Nat) (ho : o < M) (hl : l1 < M) (hq : q < M) (hp : p < M)
   (hm : (l1 = M - 1 ∨ p ≤ l1) ∨ (D M o q = M - 1 ∨ D M o p ≤ D M o q))
   (nB2 : ¬ ((D M o q = M - 1 ∨ D M o l1 ≤ D M o q) ∧ (l1 = M - 1 ∨ o ≤ l1)))
   (nB3 : ¬ ((l1 = M - 1 ∨ q ≤ l1) ∧ (D M o q = M - 1 ∨ D M o 0 ≤ D M o q)))
   (nT2 : ¬ D M o q = M - 1) (nT1 : ¬ l1 = M - 1)
   (nL1 : ¬ ((D M o q = M - 1 ∨ D M o 0 ≤ D M o q) ∧ (D M o q = M - 1 ∨ D M o l1 ≤ D M o q) ∧
          (¬ (l1 = M - 1 ∨ o ≤ l1) ∨ ¬ (l1 = M - 1 ∨ q ≤ l1))))
   (nL2 : ¬ ((l1 = M - 1 ∨ o ≤ l1) ∧ (l1 = M - 1 ∨ q ≤ l1) ∧
          (¬ (D M o q = M - 1 ∨ D M o 0 ≤ D M o q) ∨ ¬ (D M o q = M - 1 ∨ D M o l1 ≤ D M o q)))) :
   (q = M - 1 ∨ p ≤ q) ∧ (D M o l1 = M - 1 ∨ D M o p ≤ D M o l1) := by
  have a1 := D_spec M o q; have a2 := D_spec M o 0; have a3 := D_spec M o l1
  have a4 := D_spec M o p
  constructor <;> omega

theorem join_W_upper {w : Nat} (hw : w ≤ 64) {s1 e1 s2 e2 v : Nat}
    (h1 : s1 < 2 ^ w) (h2 : e1 < 2 ^ w) (h3 : s2 < 2 ^ w) (h4 : e2 < 2 ^ w) (hv : v < 2 ^ w)
    (hm : mem w v (W w s1 e1 false) ∨ mem w v (W w s2 e2 false)) :
    mem w v ((W w s1 e1 false).join (W w s2 e2 false)) := by
  unfold join
  by_cases hL1 : (W w s1 e1 false).leq (W w s2 e2 false) = true
  · rw [if_pos hL1]
    rcases hm with hm | hm
    · exact leq_W_sound hw h1 h2 h3 h4 hv hL1 hm
    · exact hm
  rw [if_neg hL1]
  by_cases hL2 : (W w s2 e2 false).leq (W w s1 e1 false) = true
  · rw [if_pos hL2]
    rcases hm with hm | hm
    · exact hm
    · exact leq_W_sound hw h3 h4 h1 h2 hv hL2 hm
  rw [if_neg hL2]
  rw [leq_W_iff hw h1 h2 h3 h4] at hL1
  rw [leq_W_iff hw h3 h4 h1 h2] at hL2
  rw [mem_W hw h1 h2, mem_W hw h3 h4] at hm
  rw [at_W hw h3 h4 h1, at_W hw h3 h4 h2, at_W hw h1 h2 h3, at_W hw h1 h2 h4]
  simp only [Bool.or_eq_true, Bool.and_eq_true, decide_eq_true_eq]
  unfold T A at hL1 hL2
  have r1 := mem_W (v := v) hw h1 h4
  have r2 := mem_W (v := v) hw h3 h2
  generalize 2 ^ w = M at *
  -- positions relative to s1
  have q1 : D M s2 e2 = D M (D M s1 s2) (D M s1 e2) := D_rot h1 h3 h4
  have q2 : D M s2 s1 = D M (D M s1 s2) 0 := by rw [D_rot h1 h3 h1, D_self]
  have q3 : D M s2 e1 = D M (D M s1 s2) (D M s1 e1) := D_rot h1 h3 h2
  have q4 : D M s2 v = D M (D M s1 s2) (D M s1 v) := D_rot h1 h3 hv
  have b1 := D_lt h1 h3; have b2 := D_lt h1 h2; have b3 := D_lt h1 h4; have b4 := D_lt h1 hv
  simp only [q1, q2, q3, q4] at hm hL1 hL2 r2 ⊢
  have nT2 : ¬ D M (D M s1 s2) (D M s1 e2) = M - 1 := fun h => hL1 (Or.inl h)
  have nT1 : ¬ D M s1 e1 = M - 1 := fun h => hL2 (Or.inl h)
  split
  · exact mem_top w v
  · next c1 =>
    have nB1 := fun (h : _ ∧ _ ∧ _ ∧ _) => c1 ⟨⟨⟨h.1, h.2.1⟩, h.2.2.1⟩, h.2.2.2⟩
    split
    · next c2 =>
      show mem w v (W w s1 e2 false)
      rw [r1]
      exact join_B2 M _ _ _ _ b1 b2 b3 b4 hm nB1 c2.1 c2.2
    · next c2 =>
      split
      · next c3 =>
        show mem w v (W w s2 e1 false)
        rw [r2]
        exact join_B3 M _ _ _ _ b1 b2 b3 b4 hm nB1 c3.1 c3.2
      · next c3 =>
        have core := join_B45 M _ _ _ _ b1 b2 b3 b4 hm c2 c3
          nT2 nT1
          (fun h => hL1 (Or.inr ⟨nT1, Or.inr h⟩))
          (fun h => hL2 (Or.inr ⟨nT2, Or.inr h⟩))
        split
        · show mem w v (W w s1 e2 false)
          rw [r1]; exact core.1
        · show mem w v (W w s2 e1 false)
          rw [r2]; exact core.2


theorem meet_core (M o l1 q p : Nat) (ho : o < M) (hl : l1 < M) (hq : q < M) (hp : p < M)
   (hx : l1 = M - 1 ∨ p ≤ l1) (hy : D M o q = M - 1 ∨ D M o p ≤ D M o q) :
   ((D M o q = M - 1 ∨ D M o 0 ≤ D M o q) → ¬ (l1 = M - 1 ∨ o ≤ l1) → ¬ (D M o q = M - 1 ∨ D M o l1 ≤ D M o q) →
      (q = M - 1 ∨ p ≤ q)) ∧
   (¬ (D M o q = M - 1 ∨ D M o 0 ≤ D M o q) → (l1 = M - 1 ∨ o ≤ l1) → ¬ (l1 = M - 1 ∨ q ≤ l1) →
      (D M o l1 = M - 1 ∨ D M o p ≤ D M o l1)) ∧
   (¬ (D M o q = M - 1 ∨ D M o 0 ≤ D M o q) → ¬ (l1 = M - 1 ∨ o ≤ l1) → False) := by
  have a1 := D_spec M o q; have a2 := D_spec M o 0; have a3 := D_spec M o l1
  have a4 := D_spec M o p
  refine ⟨?_, ?_, ?_⟩ <;> omega

theorem meet_W_sound {w : Nat} (hw : w ≤ 64) {s1 e1 s2 e2 v : Nat}
    (h1 : s1 < 2 ^ w) (h2 : e1 < 2 ^ w) (h3 : s2 < 2 ^ w) (h4 : e2 < 2 ^ w) (hv : v < 2 ^ w)
    (hx : mem w v (W w s1 e1 false)) (hy : mem w v (W w s2 e2 false)) :
    mem w v ((W w s1 e1 false).meet (W w s2 e2 false)) := by
  unfold meet
  split
  · exact hx
  split
  · exact hy
  have hx' := hx; have hy' := hy
  rw [mem_W hw h1 h2] at hx'
  rw [mem_W hw h3 h4] at hy'
  rw [at_W hw h3 h4 h1, at_W hw h3 h4 h2, at_W hw h1 h2 h3, at_W hw h1 h2 h4]
  simp only [Bool.or_eq_true, decide_eq_true_eq]
  have r1 := mem_W (v := v) hw h1 h4
  have r2 := mem_W (v := v) hw h3 h2
  generalize 2 ^ w = M at *
  have q1 : D M s2 e2 = D M (D M s1 s2) (D M s1 e2) := D_rot h1 h3 h4
  have q2 : D M s2 s1 = D M (D M s1 s2) 0 := by rw [D_rot h1 h3 h1, D_self]
  have q3 : D M s2 e1 = D M (D M s1 s2) (D M s1 e1) := D_rot h1 h3 h2
  have q4 : D M s2 v = D M (D M s1 s2) (D M s1 v) := D_rot h1 h3 hv
  have b1 := D_lt h1 h3; have b2 := D_lt h1 h2; have b3 := D_lt h1 h4; have b4 := D_lt h1 hv
  simp only [q1, q2, q3, q4] at hx' hy' r2 ⊢
  have core := meet_core M (D M s1 s2) (D M s1 e1) (D M s1 e2) (D M s1 v) b1 b2 b3 b4 hx' hy'
  split
  · next c1 =>
    split
    · split
      · exact hx
      · exact hy
    · next c2 =>
      split
      · exact hx
      · next c3 =>
        show mem w v (W w s1 e2 false)
        rw [r1]; exact core.1 c1 c2 c3
  · next c1 =>
    split
    · next c2 =>
      split
      · exact hy
      · next c3 =>
        show mem w v (W w s2 e1 false)
        rw [r2]; exact core.2.1 c1 c2 c3
    · next c2 => exact absurd (core.2.2 c1 c2) id

/-! ### arithmetic: cores on the circle of `M` points -/
theorem notop_core (M sz ysz : Nat) (hM : 2 ≤ M) (h1 : sz < M) (h2 : ysz < M)
    (hn : ¬ (((ysz + sz) % M + 1) % M ≤ ysz)) : sz + ysz + 1 < M := by
  have a := mod_small_or (ysz + sz) M (by omega) (by omega)
  have b := mod_small_or ((ysz + sz) % M + 1) M (by omega)
    (by have := Nat.mod_lt (ysz + sz) (show 0 < M by omega); omega)
  omega

theorem add_core (M s1 e1 s2 e2 a b : Nat) (h1 : s1 < M) (h2 : e1 < M) (h3 : s2 < M) (h4 : e2 < M)
    (ha : a < M) (hb : b < M)
    (hx : D M s1 a ≤ D M s1 e1) (hy : D M s2 b ≤ D M s2 e2)
    (hn : D M s1 e1 + D M s2 e2 + 1 < M) :
    D M ((s1 + s2) % M) ((a + b) % M) ≤ D M ((s1 + s2) % M) ((e1 + e2) % M) := by
  have a1 := D_spec M s1 a; have a2 := D_spec M s1 e1; have a3 := D_spec M s2 b
  have a4 := D_spec M s2 e2
  have m1 := mod_small_or (s1 + s2) M (by omega) (by omega)
  have m2 := mod_small_or (a + b) M (by omega) (by omega)
  have m3 := mod_small_or (e1 + e2) M (by omega) (by omega)
  have a8 := D_spec M ((s1 + s2) % M) ((a + b) % M)
  have a9 := D_spec M ((s1 + s2) % M) ((e1 + e2) % M)
  omega


theorem neg_core (M s e v : Nat) (hs : s < M) (he : e < M) (hv : v < M)
    (h : D M s v ≤ D M s e) :
    D M (D M e 0) (D M v 0) ≤ D M (D M e 0) (D M s 0) := by
  have a1 := D_spec M s v; have a2 := D_spec M s e; have a3 := D_spec M e 0
  have a4 := D_spec M v 0; have a5 := D_spec M s 0
  have a6 := D_spec M (D M e 0) (D M v 0); have a7 := D_spec M (D M e 0) (D M s 0)
  omega

theorem sub_core (M s1 e1 s2 e2 a b : Nat) (h1 : s1 < M) (h2 : e1 < M) (h3 : s2 < M) (h4 : e2 < M)
    (ha : a < M) (hb : b < M)
    (hx : D M s1 a ≤ D M s1 e1) (hy : D M s2 b ≤ D M s2 e2)
    (hn : D M s1 e1 + D M s2 e2 + 1 < M) :
    D M (D M e2 s1) (D M b a) ≤ D M (D M e2 s1) (D M s2 e1) := by
  have a1 := D_spec M s1 a; have a2 := D_spec M s1 e1; have a3 := D_spec M s2 b
  have a4 := D_spec M s2 e2; have a5 := D_spec M e2 s1; have a6 := D_spec M b a
  have a7 := D_spec M s2 e1
  have a8 := D_spec M (D M e2 s1) (D M b a); have a9 := D_spec M (D M e2 s1) (D M s2 e1)
  omega

/-! ### arithmetic on the model -/

theorem one_n {w : Nat} (h1 : 1 ≤ w) : (if w < 64 then 1 % 2 ^ w else 1) = 1 := by
  split
  · exact Nat.mod_eq_of_lt (Nat.one_lt_two_pow (by omega))
  · rfl

theorem two_le_pow {w : Nat} (h1 : 1 ≤ w) : 2 ≤ 2 ^ w := by
  have := Nat.pow_le_pow_right (by decide : 0 < 2) h1
  simpa using this

theorem add_W_sound {w : Nat} (h1w : 1 ≤ w) (hw : w ≤ 64) {s1 e1 s2 e2 a b : Nat}
    (h1 : s1 < 2 ^ w) (h2 : e1 < 2 ^ w) (h3 : s2 < 2 ^ w) (h4 : e2 < 2 ^ w)
    (ha : a < 2 ^ w) (hb : b < 2 ^ w)
    (hx : mem w a (W w s1 e1 false)) (hy : mem w b (W w s2 e2 false)) :
    mem w ((a + b) % 2 ^ w) ((W w s1 e1 false).add (W w s2 e2 false)) := by
  rw [mem_W hw h1 h2] at hx
  rw [mem_W hw h3 h4] at hy
  unfold add
  simp only [Bool.or_self, Bool.false_eq_true, if_false, isTop_W hw h1 h2, isTop_W hw h3 h4,
    Bool.or_eq_true, decide_eq_true_eq]
  split
  · exact mem_top w _
  · next nt =>
    have nt1 : ¬ D (2 ^ w) s1 e1 = 2 ^ w - 1 := fun h => nt (Or.inl h)
    have nt2 : ¬ D (2 ^ w) s2 e2 = 2 ^ w - 1 := fun h => nt (Or.inr h)
    have hx' : D (2 ^ w) s1 a ≤ D (2 ^ w) s1 e1 := by rcases hx with h | h; exact absurd h nt1; exact h
    have hy' : D (2 ^ w) s2 b ≤ D (2 ^ w) s2 e2 := by rcases hy with h | h; exact absurd h nt2; exact h
    simp only [subT, addT, ofNatT, red_sub_eq hw h2 h1, red_sub_eq hw h4 h3, red_mod hw, one_n h1w]
    have hlt1 := D_lt h1 h2
    have hlt2 := D_lt h3 h4
    split
    · exact mem_top w _
    · next hn =>
      have hn' := notop_core (2 ^ w) _ _ (two_le_pow h1w) hlt1 hlt2 hn
      show mem w ((a + b) % 2 ^ w) (W w ((s1 + s2) % 2 ^ w) ((e1 + e2) % 2 ^ w) false)
      rw [mem_W hw (Nat.mod_lt _ (Nat.pow_pos (by decide))) (Nat.mod_lt _ (Nat.pow_pos (by decide)))]
      right
      exact add_core (2 ^ w) s1 e1 s2 e2 a b h1 h2 h3 h4 ha hb hx' hy' hn'


theorem sub_W_sound {w : Nat} (h1w : 1 ≤ w) (hw : w ≤ 64) {s1 e1 s2 e2 a b : Nat}
    (h1 : s1 < 2 ^ w) (h2 : e1 < 2 ^ w) (h3 : s2 < 2 ^ w) (h4 : e2 < 2 ^ w)
    (ha : a < 2 ^ w) (hb : b < 2 ^ w)
    (hx : mem w a (W w s1 e1 false)) (hy : mem w b (W w s2 e2 false)) :
    mem w (D (2 ^ w) b a) ((W w s1 e1 false).sub (W w s2 e2 false)) := by
  rw [mem_W hw h1 h2] at hx
  rw [mem_W hw h3 h4] at hy
  unfold sub
  simp only [Bool.or_self, Bool.false_eq_true, if_false, isTop_W hw h1 h2, isTop_W hw h3 h4,
    Bool.or_eq_true, decide_eq_true_eq]
  split
  · exact mem_top w _
  · next nt =>
    have nt1 : ¬ D (2 ^ w) s1 e1 = 2 ^ w - 1 := fun h => nt (Or.inl h)
    have nt2 : ¬ D (2 ^ w) s2 e2 = 2 ^ w - 1 := fun h => nt (Or.inr h)
    have hx' : D (2 ^ w) s1 a ≤ D (2 ^ w) s1 e1 := by rcases hx with h | h; exact absurd h nt1; exact h
    have hy' : D (2 ^ w) s2 b ≤ D (2 ^ w) s2 e2 := by rcases hy with h | h; exact absurd h nt2; exact h
    simp only [subT, addT, ofNatT, red_sub_eq hw h2 h1, red_sub_eq hw h4 h3, red_sub_eq hw h1 h4,
      red_sub_eq hw h2 h3, red_mod hw, one_n h1w]
    have hlt1 := D_lt h1 h2
    have hlt2 := D_lt h3 h4
    split
    · exact mem_top w _
    · next hn =>
      have hn' := notop_core (2 ^ w) _ _ (two_le_pow h1w) hlt1 hlt2 hn
      show mem w (D (2 ^ w) b a) (W w (D (2 ^ w) e2 s1) (D (2 ^ w) s2 e1) false)
      rw [mem_W hw (D_lt h4 h1) (D_lt h3 h2)]
      right
      exact sub_core (2 ^ w) s1 e1 s2 e2 a b h1 h2 h3 h4 ha hb hx' hy' hn'

theorem red_neg_eq {w : Nat} (hw : w ≤ 64) {a : Nat} (ha : a < 2 ^ w) :
    red w ((2 ^ 64 - a % 2 ^ 64) % 2 ^ 64) = D (2 ^ w) a 0 := by
  have := red_sub_eq hw (Nat.pow_pos (by decide) : 0 < 2 ^ w) ha
  simpa using this

theorem neg_W_sound {w : Nat} (hw : w ≤ 64) {s e v : Nat}
    (hs : s < 2 ^ w) (he : e < 2 ^ w) (hv : v < 2 ^ w)
    (hx : mem w v (W w s e false)) :
    mem w (D (2 ^ w) v 0) ((W w s e false).neg) := by
  rw [mem_W hw hs he] at hx
  unfold neg
  simp only [Bool.false_eq_true, if_false, isTop_W hw hs he, decide_eq_true_eq]
  split
  · exact mem_top w _
  · next nt =>
    have hx' : D (2 ^ w) s v ≤ D (2 ^ w) s e := by rcases hx with h | h; exact absurd h nt; exact h
    simp only [WrapInt.neg, red_neg_eq hw hs, red_neg_eq hw he]
    have hM : 0 < 2 ^ w := Nat.pow_pos (by decide)
    show mem w (D (2 ^ w) v 0) (W w (D (2 ^ w) e 0) (D (2 ^ w) s 0) false)
    rw [mem_W hw (D_lt he hM) (D_lt hs hM)]
    right
    exact neg_core (2 ^ w) s e v hs he hv hx'


/-! ### statement layer: shapes, membership of bit-vectors -/

/-- bottom, or both end points reduced wrapints of width `w` -/
def Shape (w : Nat) (x : WInt) : Prop :=
  x.isBottom = true ∨
    (x.start.width = w ∧ x.stop.width = w ∧ x.start.n < 2 ^ w ∧ x.stop.n < 2 ^ w)

instance (w : Nat) (x : WInt) : Decidable (Shape w x) := by unfold Shape; exact inferInstance
instance (w v : Nat) (x : WInt) : Decidable (mem w v x) := by unfold mem; exact inferInstance

/-- `v ∈ γ(x)` for a bit-vector -/
def memBV {w : Nat} (v : BitVec w) (x : WInt) : Prop := mem w v.toNat x
instance {w : Nat} (v : BitVec w) (x : WInt) : Decidable (memBV v x) := by unfold memBV; exact inferInstance

theorem shape_cases {w : Nat} {x : WInt} (hx : Shape w x) (hb : x.isBottom = false) :
    ∃ s e, s < 2 ^ w ∧ e < 2 ^ w ∧ x = W w s e false := by
  rcases hx with h | ⟨a, b, c, d⟩
  · rw [hb] at h; cases h
  · obtain ⟨⟨w1, s⟩, ⟨w2, e⟩, bt⟩ := x
    simp only at a b c d hb
    subst a b hb
    exact ⟨s, e, c, d, rfl⟩

theorem D_eq_mod {M s v : Nat} (hs : s < M) (hv : v < M) : D M s v = (v + M - s) % M := by
  rcases D_spec M s v with ⟨a, b⟩ | ⟨a, b⟩
  · rcases mod_small_or (v + M - s) M (by omega) (by omega) with ⟨c, d⟩ | ⟨c, d⟩ <;> omega
  · rcases mod_small_or (v + M - s) M (by omega) (by omega) with ⟨c, d⟩ | ⟨c, d⟩ <;> omega

theorem bv_sub_toNat_D {w : Nat} (a b : BitVec w) : (a - b).toNat = D (2 ^ w) b.toNat a.toNat := by
  rw [BitVec.toNat_sub, D_eq_mod b.isLt a.isLt]
  congr 1; have := b.isLt; omega

theorem bv_neg_toNat_D {w : Nat} (a : BitVec w) : (-a).toNat = D (2 ^ w) a.toNat 0 := by
  rw [BitVec.toNat_neg, D_eq_mod a.isLt (Nat.pow_pos (by decide))]
  congr 1; omega

theorem mem_bottom_false {w v : Nat} {x : WInt} (h : x.isBottom = true) : ¬ mem w v x := by
  intro hm; rw [hm.1] at h; cases h

theorem leq_sound {w : Nat} (hw : w ≤ 64) {x y : WInt} (hx : Shape w x) (hy : Shape w y)
    {v : Nat} (hv : v < 2 ^ w) (hl : x.leq y = true) (hm : mem w v x) : mem w v y := by
  obtain ⟨s1, e1, h1, h2, rfl⟩ := shape_cases hx hm.1
  cases hyb : y.isBottom
  · obtain ⟨s2, e2, h3, h4, rfl⟩ := shape_cases hy hyb
    exact leq_W_sound hw h1 h2 h3 h4 hv hl hm
  · unfold leq at hl
    have : y.isTop = false := by simp [isTop, hyb]
    simp [hyb, this] at hl

theorem join_upper {w : Nat} (hw : w ≤ 64) {x y : WInt} (hx : Shape w x) (hy : Shape w y)
    {v : Nat} (hv : v < 2 ^ w) (hm : mem w v x ∨ mem w v y) : mem w v (x.join y) := by
  cases hxb : x.isBottom
  · obtain ⟨s1, e1, h1, h2, rfl⟩ := shape_cases hx hxb
    cases hyb : y.isBottom
    · obtain ⟨s2, e2, h3, h4, rfl⟩ := shape_cases hy hyb
      exact join_W_upper hw h1 h2 h3 h4 hv hm
    · have hm' : mem w v (W w s1 e1 false) := by
        rcases hm with h | h
        · exact h
        · exact absurd h (mem_bottom_false hyb)
      have yt : y.isTop = false := by simp [isTop, hyb]
      have l1 : (W w s1 e1 false).leq y = false := by simp [leq, hyb, yt]
      have l2 : y.leq (W w s1 e1 false) = true := by simp [leq, hyb]
      simp only [join, l1, l2, Bool.false_eq_true, if_false, if_true]
      exact hm'
  · have hm' : mem w v y := by
      rcases hm with h | h
      · exact absurd h (mem_bottom_false hxb)
      · exact h
    have l1 : x.leq y = true := by simp [leq, hxb]
    simp only [join, l1, if_true]
    exact hm'

theorem meet_sound {w : Nat} (hw : w ≤ 64) {x y : WInt} (hx : Shape w x) (hy : Shape w y)
    {v : Nat} (hv : v < 2 ^ w) (h1 : mem w v x) (h2 : mem w v y) : mem w v (x.meet y) := by
  obtain ⟨s1, e1, a1, a2, rfl⟩ := shape_cases hx h1.1
  obtain ⟨s2, e2, a3, a4, rfl⟩ := shape_cases hy h2.1
  exact meet_W_sound hw a1 a2 a3 a4 hv h1 h2


/-! ### widening -/

theorem shape_W {w s e : Nat} (hs : s < 2 ^ w) (he : e < 2 ^ w) : Shape w (W w s e false) :=
  Or.inr ⟨rfl, rfl, hs, he⟩

theorem shape_mk2 {w : Nat} {a b : WrapInt} (ha : a.width = w) (hb : b.width = w)
    (han : a.n < 2 ^ w) (hbn : b.n < 2 ^ w) : Shape w (mk2 a b) :=
  Or.inr ⟨ha, hb, han, hbn⟩

theorem addT_lt {w : Nat} (hw : w ≤ 64) (a b : WrapInt) (ha : a.width = w) : (addT a b).n < 2 ^ w := by
  subst ha; exact red_mod_lt hw _
theorem subT_lt {w : Nat} (hw : w ≤ 64) (a b : WrapInt) (ha : a.width = w) : (subT a b).n < 2 ^ w := by
  subst ha; exact red_mod_lt hw _

theorem join_bottom_left {x y : WInt} (hx : x.isBottom = true) : x.join y = y := by
  have l1 : x.leq y = true := by simp [leq, hx]
  simp [join, l1]

theorem join_bottom_right {x y : WInt} (hx : x.isBottom = false) (hy : y.isBottom = true) :
    x.join y = x := by
  have yt : y.isTop = false := by simp [isTop, hy]
  have l1 : x.leq y = false := by simp [leq, hx, hy, yt]
  have l2 : y.leq x = true := by simp [leq, hy]
  simp [join, l1, l2]

/-- the join of two intervals of width `w` is `top()` or again of width `w` -/
theorem join_shape {w : Nat} {x y : WInt} (hx : Shape w x) (hy : Shape w y) :
    x.join y = top ∨ Shape w (x.join y) := by
  cases hxb : x.isBottom
  · cases hyb : y.isBottom
    · obtain ⟨s1, e1, h1, h2, rfl⟩ := shape_cases hx hxb
      obtain ⟨s2, e2, h3, h4, rfl⟩ := shape_cases hy hyb
      unfold join
      split
      · exact Or.inr hy
      split
      · exact Or.inr hx
      split
      · exact Or.inl rfl
      split
      · exact Or.inr (shape_W h1 h4)
      split
      · exact Or.inr (shape_W h3 h2)
      dsimp only
      split
      · exact Or.inr (shape_W h1 h4)
      · exact Or.inr (shape_W h3 h2)
    · rw [join_bottom_right hxb hyb]; exact Or.inr hx
  · rw [join_bottom_left hxb]; exact Or.inr hy

theorem join_top_left_isTop (z : WInt) : (top.join z).isTop = true := by
  unfold join
  by_cases hz : z.isTop = true
  · have l1 : top.leq z = true := by simp [leq, hz]
    simp [l1, hz]
  · have hz' : z.isTop = false := by simpa using hz
    have tt : top.isTop = true := by decide
    have tb : top.isBottom = false := rfl
    have l1 : top.leq z = false := by simp [leq, hz', tb, tt]
    have l2 : z.leq top = true := by simp [leq, tt]
    simp [l1, l2, tt]

theorem isTop_not_bottom {x : WInt} (h : x.isTop = true) : x.isBottom = false := by
  unfold isTop at h
  cases hb : x.isBottom
  · rfl
  · simp [hb] at h

theorem mem_of_isTop {w v : Nat} {x : WInt} (h : x.isTop = true) : mem w v x :=
  ⟨isTop_not_bottom h, Or.inl h⟩

/-- joining on the right keeps the members of the left operand -/
theorem mem_join_left {w : Nat} (hw : w ≤ 64) {j z : WInt} (hj : j = top ∨ Shape w j) (hz : Shape w z)
    {v : Nat} (hv : v < 2 ^ w) (hm : mem w v j) : mem w v (j.join z) := by
  rcases hj with rfl | hj
  · exact mem_of_isTop (join_top_left_isTop z)
  · exact join_upper hw hj hz hv (Or.inl hm)

theorem widen_sound {w : Nat} (hw : w ≤ 64) {x y : WInt} (hx : Shape w x) (hy : Shape w y)
    {v : Nat} (hv : v < 2 ^ w) (hm : mem w v x ∨ mem w v y) : mem w v (x.widen y) := by
  unfold widen
  cases hxb : x.isBottom
  · cases hyb : y.isBottom
    · obtain ⟨s1, e1, h1, h2, rfl⟩ := shape_cases hx hxb
      obtain ⟨s2, e2, h3, h4, rfl⟩ := shape_cases hy hyb
      simp only [Bool.false_eq_true, if_false]
      split
      · exact mem_top w v
      split
      · next hl =>
        rcases hm with h | h
        · exact h
        · exact leq_sound hw hy hx hv hl h
      split
      · exact mem_top w v
      have hj : mem w v ((W w s1 e1 false).join (W w s2 e2 false)) := join_upper hw hx hy hv hm
      have sj := join_shape hx hy
      have r8 : ∀ k, (ofNatT k w).width = w := fun _ => rfl
      split
      · refine mem_join_left hw sj ?_ hv hj
        exact shape_mk2 rfl rfl h1 (addT_lt hw _ _ rfl)
      split
      · refine mem_join_left hw sj ?_ hv hj
        exact shape_mk2 rfl rfl (subT_lt hw _ _ rfl) h2
      split
      · next hl =>
        have hy' : mem w v (W w s2 e2 false) := by
          rcases hm with h | h
          · exact leq_sound hw hx hy hv hl h
          · exact h
        refine join_upper hw hy ?_ hv (Or.inl hy')
        exact shape_mk2 rfl rfl h3 (addT_lt hw _ _ rfl)
      · exact mem_top w v
    · simp only [Bool.false_eq_true, if_false, if_true]
      rcases hm with h | h
      · exact h
      · exact absurd h (mem_bottom_false hyb)
  · simp only [if_true]
    rcases hm with h | h
    · exact absurd h (mem_bottom_false hxb)
    · exact h



/-! ### unsigned division -/

theorem mem_ord_iff {w : Nat} (hw : w ≤ 64) {a b v : Nat} (hab : a ≤ b) (hb : b < 2 ^ w) (hv : v < 2 ^ w) :
    mem w v (W w a b false) ↔ a ≤ v ∧ v ≤ b := by
  rw [mem_W hw (by omega) hb]
  have s1 := D_spec (2 ^ w) a b; have s2 := D_spec (2 ^ w) a v
  generalize 2 ^ w = M at *
  omega

/-- good accumulator of the loops: `top()` or of width `w` -/
def Good (w : Nat) (x : WInt) : Prop := x = top ∨ Shape w x

theorem join_good {w : Nat} {res q : WInt} (hr : Good w res) (hq : Shape w q) : Good w (res.join q) := by
  rcases hr with rfl | hr
  · -- top.join q is q (when q is top) or top
    unfold join
    by_cases hz : q.isTop = true
    · have l1 : top.leq q = true := by simp [leq, hz]
      simp [l1]; exact Or.inr hq
    · have hz' : q.isTop = false := by simpa using hz
      have tt : top.isTop = true := by decide
      have tb : top.isBottom = false := rfl
      have l1 : top.leq q = false := by simp [leq, hz', tb, tt]
      have l2 : q.leq top = true := by simp [leq, tt]
      simp [l1, l2]; exact Or.inl rfl
  · exact join_shape hr hq

theorem mem_join_right {w : Nat} (hw : w ≤ 64) {res q : WInt} (hr : Good w res) (hq : Shape w q)
    {v : Nat} (hv : v < 2 ^ w) (hm : mem w v q) : mem w v (res.join q) := by
  rcases hr with rfl | hr
  · exact mem_of_isTop (join_top_left_isTop q)
  · exact join_upper hw hr hq hv (Or.inr hm)

/-- every element is an interval of width `w` (no condition on the end points) -/
def AllW (w : Nat) (l : List WInt) : Prop := ∀ p ∈ l, ∃ a b, p = W w a b false

theorem udiv_wrap {w : Nat} {a b : Nat} (hb : b ≠ 0) (ha : a < 2 ^ w) :
    WrapInt.udiv ⟨w, a⟩ ⟨w, b⟩ = some ⟨w, a / b⟩ := by
  have hz : (⟨w, b⟩ : WrapInt).isZero = false := by simp [isZero, hb]
  simp only [WrapInt.udiv, if_true, hz, Bool.false_eq_true, if_false]
  rw [red_small (Nat.lt_of_le_of_lt (Nat.div_le_self _ _) ha)]

/-- `unsigned_div` of a piece by a divisor piece: shape of the answer -/
theorem unsignedDiv_shape {w : Nat} {s e c d : Nat} (hs : s < 2 ^ w) (he : e < 2 ^ w) {q : WInt}
    (h : unsignedDiv? (W w s e false) (W w c d false) = some q) :
    q = W w (s / d) (e / c) false ∧ d ≠ 0 ∧ c ≠ 0 := by
  unfold unsignedDiv? at h
  by_cases hd : d = 0
  · subst hd; simp [WrapInt.udiv, isZero] at h
  by_cases hc : c = 0
  · subst hc; simp [WrapInt.udiv, isZero] at h
  simp only [udiv_wrap hd hs, udiv_wrap hc he] at h
  injection h with h
  exact ⟨h.symm, hd, hc⟩

theorem unsignedDiv_sound {w : Nat} (hw : w ≤ 64) {s e c d a b : Nat} (he : e < 2 ^ w)
    (hc : 1 ≤ c)
    (ha : s ≤ a ∧ a ≤ e) (hb : c ≤ b ∧ b ≤ d) :
    mem w (a / b) (W w (s / d) (e / c) false) := by
  have h1 : s / d ≤ a / b := Nat.div_le_div ha.1 hb.2 (by omega)
  have h2 : a / b ≤ e / c := Nat.div_le_div ha.2 hb.1 (by omega)
  have h3 : e / c < 2 ^ w := Nat.lt_of_le_of_lt (Nat.div_le_self _ _) he
  rw [mem_ord_iff hw (by omega) h3 (by omega)]
  exact ⟨h1, h2⟩

theorem unsignedDiv_q_shape {w : Nat} {s e : Nat} (hs : s < 2 ^ w) (he : e < 2 ^ w) {d' q : WInt}
    (hd : ∃ c d, d' = W w c d false) (h : unsignedDiv? (W w s e false) d' = some q) : Shape w q := by
  obtain ⟨c, d, rfl⟩ := hd
  obtain ⟨rfl, _, _⟩ := unsignedDiv_shape hs he h
  exact shape_W (Nat.lt_of_le_of_lt (Nat.div_le_self _ _) hs) (Nat.lt_of_le_of_lt (Nat.div_le_self _ _) he)

/-- innermost loop: the result is good, keeps the members of the accumulator and contains every
    quotient interval -/
theorem udivDs_spec {w : Nat} (hw : w ≤ 64) {s e : Nat} (hs : s < 2 ^ w) (he : e < 2 ^ w) :
    ∀ (ds : List WInt) (res r : WInt), AllW w ds → Good w res →
      udivDs (W w s e false) ds res = some r →
      Good w r ∧ (∀ v, v < 2 ^ w → mem w v res → mem w v r) ∧
      (∀ d' ∈ ds, ∃ q, unsignedDiv? (W w s e false) d' = some q ∧
          ∀ v, v < 2 ^ w → mem w v q → mem w v r) := by
  intro ds
  induction ds with
  | nil =>
    intro res r _ hg h
    simp only [udivDs, Option.some.injEq] at h
    subst h
    exact ⟨hg, fun _ _ h => h, fun d' hd => by cases hd⟩
  | cons d ds ih =>
    intro res r hall hg h
    unfold udivDs at h
    cases hq : unsignedDiv? (W w s e false) d with
    | none => rw [hq] at h; cases h
    | some q =>
      rw [hq] at h
      simp only at h
      have hdW := hall d (List.mem_cons_self ..)
      have hqs : Shape w q := unsignedDiv_q_shape hs he hdW hq
      have hg' : Good w (res.join q) := join_good hg hqs
      have hall' : AllW w ds := fun p hp => hall p (List.mem_cons_of_mem _ hp)
      obtain ⟨g, mono, each⟩ := ih (res.join q) r hall' hg' h
      refine ⟨g, ?_, ?_⟩
      · intro v hv hm
        apply mono v hv
        rcases hg with rfl | hg
        · exact mem_of_isTop (join_top_left_isTop q)
        · exact join_upper hw hg hqs hv (Or.inl hm)
      · intro d' hd'
        rcases List.mem_cons.mp hd' with rfl | hd'
        · exact ⟨q, hq, fun v hv hm => mono v hv (mem_join_right hw hg hqs hv hm)⟩
        · exact each d' hd'

theorem ofNatT_zero_n (w : Nat) : (ofNatT 0 w).n = 0 := by
  unfold ofNatT; split <;> simp

theorem ofNatT_one_n {w : Nat} (h1 : 1 ≤ w) : (ofNatT 1 w).n = 1 := one_n h1

theorem ofNatT_zero (w : Nat) : ofNatT 0 w = ⟨w, 0⟩ := by
  unfold ofNatT; split <;> simp
theorem ofNatT_one {w : Nat} (h1 : 1 ≤ w) : ofNatT 1 w = ⟨w, 1⟩ := by
  unfold ofNatT; rw [one_n h1]

theorem trim_allW {w c d : Nat} {ds : List WInt}
    (h : trimZero? (W w c d false) = some ds) : AllW w ds := by
  unfold trimZero? at h
  simp only at h
  split at h
  · cases h
  · next w' hw' =>
    have : w' = w := by
      unfold getBitwidth? at hw'
      simp only [Bool.false_eq_true, if_false] at hw'
      split at hw'
      · cases hw'
      · injection hw' with h; exact h.symm
    subst this
    split at h
    · split at h
      · injection h with h; subst h
        intro p hp; simp only [List.mem_singleton] at hp; subst hp; exact ⟨_, _, rfl⟩
      · split at h
        · injection h with h; subst h
          intro p hp; simp only [List.mem_singleton] at hp; subst hp; exact ⟨_, _, rfl⟩
        · split at h
          · injection h with h; subst h
            intro p hp
            simp only [List.mem_cons, List.mem_nil_iff, or_false] at hp
            rcases hp with rfl | rfl <;> exact ⟨_, _, rfl⟩
          · injection h with h; subst h
            intro p hp; simp only [List.mem_singleton] at hp; subst hp; exact ⟨_, _, rfl⟩
    · injection h with h; subst h
      intro p hp; cases hp

theorem trim_cover {w : Nat} (h1w : 1 ≤ w) (hw : w ≤ 64) {c d b : Nat} (hcd : c ≤ d) (hd : d < 2 ^ w)
    {ds : List WInt} (h : trimZero? (W w c d false) = some ds) (hb1 : 1 ≤ b) (hb : c ≤ b ∧ b ≤ d) :
    ∃ c' d', W w c' d' false ∈ ds ∧ 1 ≤ c' ∧ c' ≤ b ∧ b ≤ d' := by
  have hbM : b < 2 ^ w := by omega
  have hmem : mem w b (W w c d false) := (mem_ord_iff hw hcd hd hbM).mpr hb
  unfold trimZero? at h
  simp only at h
  split at h
  · cases h
  · next w' hw' =>
    have : w' = w := by
      unfold getBitwidth? at hw'
      simp only [Bool.false_eq_true, if_false] at hw'
      split at hw'
      · cases hw'
      · injection hw' with h; exact h.symm
    subst this
    have hz : (single (ofNatT 0 w')) = W w' 0 0 false := by
      rw [ofNatT_zero]; rfl
    split at h
    · simp only [ofNatT_zero_n, beq_iff_eq] at h
      split at h
      · next hc0 =>
        injection h with h; subst h
        refine ⟨1, d, ?_, Nat.le_refl 1, hb1, hb.2⟩
        simp only [List.mem_singleton]
        show W w' 1 d false = mk2 (ofNatT 1 w') ⟨w', d⟩
        rw [ofNatT_one h1w]; rfl
      · next hc0 =>
        split at h
        · next hd0 => omega
        · split at h
          · next hat =>
            -- `at zero` is impossible for 1 ≤ c ≤ d < M unless top
            exfalso
            have hc0' : c ≠ 0 := hc0
            rw [ofNatT_zero] at hat
            have := (at_W_iff hw (by omega : c < 2 ^ w') hd (Nat.pow_pos (by decide) : 0 < 2 ^ w')).mp hat
            unfold A at this
            have s1 := D_spec (2 ^ w') c d; have s2 := D_spec (2 ^ w') c 0
            generalize 2 ^ w' = M at *
            omega
          · injection h with h; subst h
            have hc0' : c ≠ 0 := hc0
            exact ⟨c, d, List.mem_singleton.mpr rfl, by omega, hb.1, hb.2⟩
    · next heq =>
      -- the piece equals the singleton 0: it has no member ≥ 1
      exfalso
      simp only [Bool.not_eq_true', Bool.not_eq_false] at heq
      rw [hz] at heq
      unfold WInt.eq at heq
      have hl : (W w' c d false).leq (W w' 0 0 false) = true := by
        rcases Bool.and_eq_true_iff.mp heq with ⟨a, _⟩; exact a
      have h0 : (0:Nat) < 2 ^ w' := Nat.pow_pos (by decide)
      have := leq_W_sound hw (by omega : c < 2 ^ w') hd h0 h0 hbM hl hmem
      rw [mem_ord_iff hw (Nat.le_refl 0) h0 hbM] at this
      omega

/-- middle loop -/
theorem udivYs_spec {w : Nat} (hw : w ≤ 64) {s e : Nat} (hs : s < 2 ^ w) (he : e < 2 ^ w) :
    ∀ (ys : List WInt) (res r : WInt), AllW w ys → Good w res →
      udivYs (W w s e false) ys res = some r →
      Good w r ∧ (∀ v, v < 2 ^ w → mem w v res → mem w v r) ∧
      (∀ cj ∈ ys, ∃ ds, trimZero? cj = some ds ∧ ∀ d' ∈ ds, ∃ q,
          unsignedDiv? (W w s e false) d' = some q ∧ ∀ v, v < 2 ^ w → mem w v q → mem w v r) := by
  intro ys
  induction ys with
  | nil =>
    intro res r _ hg h
    simp only [udivYs, Option.some.injEq] at h
    subst h
    exact ⟨hg, fun _ _ h => h, fun cj hc => by cases hc⟩
  | cons cj ys ih =>
    intro res r hall hg h
    unfold udivYs at h
    cases hds : trimZero? cj with
    | none => rw [hds] at h; cases h
    | some ds =>
      rw [hds] at h
      simp only at h
      cases hr1 : udivDs (W w s e false) ds res with
      | none => rw [hr1] at h; cases h
      | some res' =>
        rw [hr1] at h
        simp only at h
        obtain ⟨c, d, rfl⟩ := hall cj (List.mem_cons_self ..)
        obtain ⟨g1, mono1, each1⟩ := udivDs_spec hw hs he ds res res' (trim_allW hds) hg hr1
        have hall' : AllW w ys := fun p hp => hall p (List.mem_cons_of_mem _ hp)
        obtain ⟨g, mono, each⟩ := ih res' r hall' g1 h
        refine ⟨g, fun v hv hm => mono v hv (mono1 v hv hm), ?_⟩
        intro cj' hcj'
        rcases List.mem_cons.mp hcj' with rfl | hcj'
        · refine ⟨ds, hds, fun d' hd' => ?_⟩
          obtain ⟨q, hq, hqm⟩ := each1 d' hd'
          exact ⟨q, hq, fun v hv hm => mono v hv (hqm v hv hm)⟩
        · exact each cj' hcj'

/-- every element is an interval of width `w` with reduced end points -/
def AllWB (w : Nat) (l : List WInt) : Prop :=
  ∀ p ∈ l, ∃ a b, p = W w a b false ∧ a < 2 ^ w ∧ b < 2 ^ w

/-- outer loop -/
theorem udivXs_spec {w : Nat} (hw : w ≤ 64) (ycuts : List WInt) (hy : AllW w ycuts) :
    ∀ (xs : List WInt) (res r : WInt), AllWB w xs → Good w res →
      udivXs ycuts xs res = some r →
      Good w r ∧ (∀ v, v < 2 ^ w → mem w v res → mem w v r) ∧
      (∀ ci ∈ xs, ∀ cj ∈ ycuts, ∃ ds, trimZero? cj = some ds ∧ ∀ d' ∈ ds, ∃ q,
          unsignedDiv? ci d' = some q ∧ ∀ v, v < 2 ^ w → mem w v q → mem w v r) := by
  intro xs
  induction xs with
  | nil =>
    intro res r _ hg h
    simp only [udivXs, Option.some.injEq] at h
    subst h
    exact ⟨hg, fun _ _ h => h, fun ci hc => by cases hc⟩
  | cons ci xs ih =>
    intro res r hall hg h
    unfold udivXs at h
    obtain ⟨s, e, rfl, hs, he⟩ := hall ci (List.mem_cons_self ..)
    cases hr1 : udivYs (W w s e false) ycuts res with
    | none => rw [hr1] at h; cases h
    | some res' =>
      rw [hr1] at h
      simp only at h
      obtain ⟨g1, mono1, each1⟩ := udivYs_spec hw hs he ycuts res res' hy hg hr1
      have hall' : AllWB w xs := fun p hp => hall p (List.mem_cons_of_mem _ hp)
      obtain ⟨g, mono, each⟩ := ih res' r hall' g1 h
      refine ⟨g, fun v hv hm => mono v hv (mono1 v hv hm), ?_⟩
      intro ci' hci' cj hcj
      rcases List.mem_cons.mp hci' with rfl | hci'
      · obtain ⟨ds, hds, hall⟩ := each1 cj hcj
        refine ⟨ds, hds, fun d' hd' => ?_⟩
        obtain ⟨q, hq, hqm⟩ := hall d' hd'
        exact ⟨q, hq, fun v hv hm => mono v hv (hqm v hv hm)⟩
      · exact each ci' hci' cj hcj

/-- `unsigned_split` of a proper interval: the pieces do not cross the south pole and cover it -/
theorem usplit_spec {w : Nat} (h1w : 1 ≤ w) (hw : w ≤ 64) {s e : Nat} (hs : s < 2 ^ w) (he : e < 2 ^ w)
    {l : List WInt} (h : unsignedSplit? (W w s e false) = some l) :
    (∀ p ∈ l, ∃ a b, p = W w a b false ∧ a ≤ b ∧ b < 2 ^ w) ∧
    (∀ v, v < 2 ^ w → mem w v (W w s e false) → ∃ a b, W w a b false ∈ l ∧ a ≤ v ∧ v ≤ b) := by
  have hM : 2 ≤ 2 ^ w := two_le_pow h1w
  unfold unsignedSplit? at h
  simp only [Bool.false_eq_true, if_false] at h
  split at h
  · cases h
  · next b hb =>
    have hbw : b = w ∧ (W w s e false).isTop = false := by
      unfold getBitwidth? at hb
      simp only [Bool.false_eq_true, if_false] at hb
      split at hb
      · cases hb
      · next ht => injection hb with hb; exact ⟨hb.symm, by simpa using ht⟩
    obtain ⟨rfl, hnt⟩ := hbw
    rw [isTop_W hw hs he] at hnt
    have hnt' : ¬ D (2 ^ b) s e = 2 ^ b - 1 := by simpa using hnt
    split at h
    · -- crosses the south pole: [s, 2^w-1] and [0, e]
      injection h with h; subst h
      constructor
      · intro p hp
        simp only [List.mem_cons, List.mem_nil_iff, or_false] at hp
        rcases hp with rfl | rfl
        · exact ⟨s, 2 ^ b - 1, rfl, by omega, by omega⟩
        · exact ⟨0, e, rfl, Nat.zero_le _, he⟩
      · intro v hv hm
        rw [mem_W hw hs he] at hm
        have s1 := D_spec (2 ^ b) s e; have s2 := D_spec (2 ^ b) s v
        by_cases hsv : s ≤ v
        · refine ⟨s, 2 ^ b - 1, List.mem_cons_self .., hsv, by omega⟩
        · refine ⟨0, e, List.mem_cons_of_mem _ (List.mem_cons_self ..), Nat.zero_le _, ?_⟩
          generalize 2 ^ b = M at *
          omega
    · next hl =>
      injection h with h; subst h
      have hl' : ¬ (unsignedLimit b).leq (W b s e false) = true := hl
      have hlim : unsignedLimit b = W b (2 ^ b - 1) 0 false := rfl
      rw [hlim, leq_W_iff hw (by omega) (by omega) hs he] at hl'
      unfold T A at hl'
      have s1 := D_spec (2 ^ b) s e; have s2 := D_spec (2 ^ b) (2 ^ b - 1) 0
      have s3 := D_spec (2 ^ b) s (2 ^ b - 1); have s4 := D_spec (2 ^ b) s 0
      have s5 := D_spec (2 ^ b) (2 ^ b - 1) s; have s6 := D_spec (2 ^ b) (2 ^ b - 1) e
      have hse : s ≤ e := by
        generalize 2 ^ b = M at *
        omega
      constructor
      · intro p hp
        simp only [List.mem_singleton] at hp
        subst hp
        exact ⟨s, e, rfl, hse, he⟩
      · intro v hv hm
        rw [mem_ord_iff hw hse he hv] at hm
        exact ⟨s, e, List.mem_singleton.mpr rfl, hm.1, hm.2⟩

/-- `UDiv` over-approximates the unsigned quotients -/
theorem udiv_sound {w : Nat} (h1w : 1 ≤ w) (hw : w ≤ 64) {x y r : WInt} (hx : Shape w x) (hy : Shape w y)
    (h : x.udiv y = some r) {a b : Nat} (ha : a < 2 ^ w) (hb : b < 2 ^ w) (hb1 : 1 ≤ b)
    (hma : mem w a x) (hmb : mem w b y) : mem w (a / b) r := by
  obtain ⟨s1, e1, h1, h2, rfl⟩ := shape_cases hx hma.1
  obtain ⟨s2, e2, h3, h4, rfl⟩ := shape_cases hy hmb.1
  unfold udiv at h
  simp only [Bool.or_self, Bool.false_eq_true, if_false] at h
  split at h
  · injection h with h; subst h; exact mem_top w _
  · cases hc1 : unsignedSplit? (W w s1 e1 false) with
    | none => rw [hc1] at h; cases h
    | some cuts =>
      cases hc2 : unsignedSplit? (W w s2 e2 false) with
      | none => rw [hc1, hc2] at h; cases h
      | some ycuts =>
        rw [hc1, hc2] at h
        simp only at h
        obtain ⟨ord1, cov1⟩ := usplit_spec h1w hw h1 h2 hc1
        obtain ⟨ord2, cov2⟩ := usplit_spec h1w hw h3 h4 hc2
        have allx : AllWB w cuts := fun p hp => by
          obtain ⟨a', b', rfl, hab, hb'⟩ := ord1 p hp
          exact ⟨a', b', rfl, by omega, hb'⟩
        have ally : AllW w ycuts := fun p hp => by
          obtain ⟨a', b', rfl, _, _⟩ := ord2 p hp
          exact ⟨a', b', rfl⟩
        obtain ⟨_, _, each⟩ := udivXs_spec hw ycuts ally cuts bottom r allx (Or.inr (Or.inl rfl)) h
        obtain ⟨sa, ea, hci, ha1, ha2⟩ := cov1 a ha hma
        obtain ⟨c, d, hcj, hb2, hb3⟩ := cov2 b hb hmb
        obtain ⟨_, _, hcjeq, hcd, hd⟩ := ord2 _ hcj
        obtain ⟨_, _, hcieq, hsea, hea⟩ := ord1 _ hci
        have e1' := congrArg (fun p : WInt => (p.start.n, p.stop.n)) hcjeq
        have e2' := congrArg (fun p : WInt => (p.start.n, p.stop.n)) hcieq
        simp only [Prod.mk.injEq] at e1' e2'
        obtain ⟨rfl, rfl⟩ := e1'
        obtain ⟨rfl, rfl⟩ := e2'
        obtain ⟨ds, hds, hall⟩ := each _ hci _ hcj
        obtain ⟨c', d', hd'mem, hc'1, hc'b, hbd'⟩ := trim_cover h1w hw hcd hd hds hb1 ⟨hb2, hb3⟩
        obtain ⟨q, hq, hqm⟩ := hall _ hd'mem
        obtain ⟨rfl, _, _⟩ := unsignedDiv_shape (by omega : sa < 2 ^ w) hea hq
        apply hqm (a / b) (Nat.lt_of_le_of_lt (Nat.div_le_self _ _) ha)
        exact unsignedDiv_sound hw hea hc'1 ⟨ha1, ha2⟩ ⟨hc'b, hbd'⟩

end WInt
end Crab
