import CrabProofs.Lemmas.IntervalLattice

/-! The widening of `Crab.Itv` (`interval::operator||`): stationarity on covered arguments and
    the chain condition (every strict widening step lowers a natural-number measure). -/
namespace Crab
namespace Itv
open Bound

/-- when the new value is already covered, widening gives nothing above the old value -/
theorem widen_stationary {x y : Itv} (h : leq y x = true) : leq (widen x y) x = true := by
  unfold widen
  split
  · exact h
  · split
    · exact leq_refl x
    · rename_i hx hy
      unfold leq at h
      simp [hx, hy] at h
      have e1 : Bound.lt y.lb x.lb = false := by simp [Bound.lt, Bound.ge, h.1]
      have e2 : Bound.lt x.ub y.ub = false := by simp [Bound.lt, Bound.ge, h.2]
      simp only [e1, e2, Bool.false_eq_true, if_false]
      have : mk' x.lb x.ub = x := by
        unfold mk'; simp [isBottom] at hx; simp [hx]
      rw [this]; exact leq_refl x

/-- 3 for bottom, otherwise the number of bounds that are not yet at their infinite limit -/
def wmeasure (x : Itv) : Nat :=
  if x.isBottom then 3
  else (if x.lb = ninf then 0 else 1) + (if x.ub = pinf then 0 else 1)

theorem wmeasure_le_two {x : Itv} (h : x.isBottom = false) : wmeasure x ≤ 2 := by
  unfold wmeasure; simp [h]; split <;> split <;> omega

/-- a widening step with an argument that is not covered strictly lowers the measure -/
theorem widen_measure {x y : Itv} (h : leq y x = false) : wmeasure (widen x y) < wmeasure x := by
  have hy : y.isBottom = false := by
    cases hb : y.isBottom
    · rfl
    · rw [leq_of_isBottom hb] at h; exact absurd h (by decide)
  unfold widen
  split
  · rename_i hx
    have := wmeasure_le_two hy
    have e : wmeasure x = 3 := by simp [wmeasure, hx]
    rw [e]; omega
  · rename_i hx
    simp only [hy, Bool.false_eq_true, if_false]
    unfold leq at h
    simp [hy, hx] at h
    obtain ⟨xl, xu⟩ := x
    obtain ⟨yl, yu⟩ := y
    simp only at h ⊢
    simp [isBottom, Bound.gt] at hx hy
    cases xl <;> cases xu <;> cases yl <;> cases yu <;>
      simp_all [wmeasure, mk', isBottom, Bound.gt, Bound.lt, Bound.ge] <;>
      (repeat' split) <;> simp_all <;> omega

/-- the strict widening steps form a well-founded relation: no infinite sequence
    `x₀, x₁ = x₀ ∇ y₀, x₂ = x₁ ∇ y₁, …` with every `yᵢ` not below `xᵢ` -/
theorem widen_wf : WellFounded (fun x' x : Itv => ∃ y, leq y x = false ∧ x' = widen x y) := by
  apply Subrelation.wf (r := InvImage (· < ·) wmeasure)
  · intro x' x ⟨y, hy, e⟩
    subst e
    exact widen_measure hy
  · exact InvImage.wf wmeasure Nat.lt_wfRel.wf

end Itv
end Crab
