import CrabProofs.Lemmas.XDomLin
import CrabProofs.Lemmas.XDomStmt
import CrabProofs.Props.C08Cong
import CrabModel.Dom.CongruenceDomain

/-!
  `congruence_domain` (model `Crab.GDom`), scalar level: every operation of `congruence<z_number>`
  the domain stores the result of returns a value in standard form (`Cong.WF`), and the value
  lattice satisfies `XDom.Laws` for the representation invariant `Cong.WF`.
-/
namespace Crab
namespace GDom
open XDom Lin Cong

local notation "GL" => congLattice

/-- the representation invariant of `congruence`: the standard form established by `normalize()` -/
instance : GoodVal Cong := ⟨Cong.WF⟩

/-! ### standard form of the results -/

theorem wf_top : WF Cong.top := by decide
theorem wf_bot : WF Cong.bot := by decide
theorem wf_ofInt (n : Int) : WF (ofInt n) := by simp [WF, ofInt]

theorem wf_join {x o : Cong} (hx : WF x) (ho : WF o) : WF (Cong.join x o) := by
  unfold Cong.join
  split
  · exact ho
  · split
    · exact hx
    · split
      · exact wf_top
      · exact wf_mk' _ _

theorem wf_meet {x o : Cong} (hx : WF x) (ho : WF o) : WF (Cong.meet x o) := by
  unfold Cong.meet
  split
  · exact wf_bot
  · split
    · split
      · exact hx
      · exact wf_bot
    · split
      · split
        · exact hx
        · exact wf_bot
      · split
        · split
          · exact ho
          · exact wf_bot
        · simp only
          split
          · exact wf_mk' _ _
          · exact wf_bot

theorem wf_narrow {x o : Cong} (hx : WF x) (ho : WF o) : WF (Cong.narrow x o) := by
  unfold Cong.narrow; split
  · exact ho
  · exact hx

theorem wf_add (x o : Cong) : WF (Cong.add x o) := by
  unfold Cong.add
  split
  · exact wf_bot
  · split
    · exact wf_top
    · exact wf_mk' _ _

theorem wf_sub (x o : Cong) : WF (Cong.sub x o) := by
  unfold Cong.sub
  split
  · exact wf_bot
  · split
    · exact wf_top
    · exact wf_mk' _ _

theorem wf_mul (x o : Cong) : WF (Cong.mul x o) := by
  unfold Cong.mul
  split
  · exact wf_bot
  · split
    · exact wf_top
    · exact wf_mk' _ _

theorem wf_div {x : Cong} (hx : WF x) (o : Cong) : WF (Cong.div x o) := by
  unfold Cong.div
  split
  · exact wf_bot
  · split
    · exact wf_bot
    · split
      · exact wf_top
      · split
        · split
          · exact wf_ofInt _
          · split
            · exact wf_mk' _ _
            · exact wf_top
        · split
          · exact hx
          · exact wf_top

theorem wf_srem (x o : Cong) : WF (Cong.srem x o) := by
  unfold Cong.srem
  split
  · exact wf_bot
  · split
    · exact wf_bot
    · split
      · exact wf_top
      · split
        · exact wf_ofInt _
        · split
          · exact wf_ofInt _
          · exact wf_mk' _ _

theorem wf_and {x o : Cong} (hx : WF x) (ho : WF o) : WF (Cong.and x o) := by
  unfold Cong.and
  split
  · exact wf_bot
  · split
    · exact wf_top
    · split
      · exact wf_ofInt _
      · split
        · exact ho
        · split
          · exact hx
          · split
            · exact wf_ofInt _
            · exact wf_top

theorem wf_or {x o : Cong} (hx : WF x) (ho : WF o) : WF (Cong.or x o) := by
  unfold Cong.or
  split
  · exact wf_bot
  · split
    · exact wf_top
    · split
      · exact wf_ofInt _
      · split
        · exact ho
        · split
          · exact hx
          · split
            · exact wf_ofInt _
            · exact wf_top

theorem wf_xor {x o : Cong} (hx : WF x) (ho : WF o) : WF (Cong.xor x o) := by
  unfold Cong.xor
  split
  · exact wf_bot
  · split
    · exact wf_top
    · split
      · exact ho
      · split
        · exact hx
        · split
          · exact wf_ofInt _
          · exact wf_top

theorem wf_shl (x o : Cong) : WF (Cong.shl x o) := by
  unfold Cong.shl
  split
  · exact wf_bot
  · split
    · exact wf_top
    · split
      · split
        · exact wf_bot
        · exact wf_mk' _ _
      · exact wf_mk' _ _

theorem wf_ashr (x o : Cong) : WF (Cong.ashr x o) := by
  unfold Cong.ashr
  split
  · exact wf_bot
  · split
    · exact wf_top
    · split
      · exact wf_bot
      · split
        · split
          · exact wf_ofInt _
          · exact wf_top
        · exact wf_top

theorem wf_lshr (x o : Cong) : WF (Cong.lshr x o) := by
  unfold Cong.lshr
  split
  · exact wf_bot
  · split
    · exact wf_top
    · split
      · exact wf_bot
      · split
        · split
          · exact wf_ofInt _
          · exact wf_top
        · exact wf_top

/-- the results of the two `switch`es of `apply` are in standard form -/
theorem wf_arithEval (op : ArithOp) {y z : Cong} (hy : WF y) (_hz : WF z) : WF (arithEval op y z) := by
  cases op <;> simp only [arithEval]
  · exact wf_add _ _
  · exact wf_sub _ _
  · exact wf_mul _ _
  · exact wf_div hy _
  · exact wf_top
  · exact wf_srem _ _
  · exact wf_top

theorem wf_bitEval (op : BitOp) {y z : Cong} (hy : WF y) (hz : WF z) : WF (bitEval op y z) := by
  cases op <;> simp only [bitEval]
  · exact wf_and hy hz
  · exact wf_or hy hz
  · exact wf_xor hy hz
  · exact wf_shl _ _
  · exact wf_lshr _ _
  · exact wf_ashr _ _

end GDom
end Crab
