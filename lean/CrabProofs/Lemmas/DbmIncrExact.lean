import CrabProofs.Lemmas.DbmIncrUb
import CrabProofs.Lemmas.ZonesExact

/-!
  Exactness of `close_over_edge` (immediate form): the graph `g` is in normal form, the caller has
  relaxed the edge `ii → jj` to `w` (`G = updEdge g ii w jj`) and `G` has a solution; then

  * `closeOverEdgeI_var` (both settings of `close_bounds_inline`, `VarNF g`): the edges among the
    variables of the result are exactly the closure of the variable subgraph of `G`, nothing
    unsound is written, without `close_bounds_inline` the bounds are untouched;
  * `closeOverEdgeI_full` (`close_bounds_inline`, `SplitNF g`): the result is in split normal
    form and has the solutions of `G`.
-/
namespace Crab
namespace DbmIncr
open Dbm Zones

variable {n : Nat}

theorem Ref_of_closed {Tf Tv : Zone n} (hf : Mat.Closed Tf) (hv : Mat.Closed Tv) : Ref Tf Tv := by
  constructor
  · intro a k b
    have := hf.tri b a k
    rw [W.add_comm] at this
    exact this
  · intro a k b _ _ _
    have := hv.tri b a k
    rw [W.add_comm] at this
    exact this

theorem edge_close_LE (G : Zone n) (a b : Fin (n + 1)) : W.LE (edge (close G) a b) (edge G a b) :=
  Zones.close_LE G b a

/-- a solution of a consistent graph -/
theorem exists_sat_of_not_bottom {G : Zone n} (h : isBottom G = false) : ∃ v, G.sat v := by
  obtain ⟨v, hv⟩ := Mat.closed_sat (Zones.close_closed h)
  exact ⟨v, (Mat.fw_sat G v).1 hv⟩

theorem sat_edge {G : Zone n} {v : Fin (n + 1) → Int} (h : G.sat v) {a b : Fin (n + 1)} {k : Int}
    (hk : edge G a b = some k) : v b - v a ≤ k := h b a k hk

section
variable (g : Zone n) (ii jj : Fin (n + 1)) (w : Int)

/-- the weight of `ii → jj` after `g.update_edge(ii, w, jj, min_op)` -/
theorem edge_upd_new : ∃ c, edge (updEdge g ii w jj) ii jj = some c ∧ c ≤ w ∧
    (∀ k, edge g ii jj = some k → c ≤ k) := by
  rw [updEdge_eq_relax, edge_relax_self]
  rcases edge g ii jj with _ | k
  · exact ⟨w, by simp, Int.le_refl _, fun k hk => by cases hk⟩
  · refine ⟨min k w, by simp, by omega, fun k' hk' => by cases hk'; omega⟩

theorem edge_upd_old {a b : Fin (n + 1)} (h : ¬ (a = ii ∧ b = jj)) :
    edge (updEdge g ii w jj) a b = edge g a b := by
  rw [updEdge_eq_relax, edge_relax_ne _ _ h]

theorem upd_dec : Dec (updEdge g ii w jj) g := by
  rw [updEdge_eq_relax]; exact relax_dec _ _ _ _

theorem varPart_upd (hi : ii ≠ 0) (hj : jj ≠ 0) (hij : ii ≠ jj) :
    varPart (updEdge g ii w jj) = (varPart g).addEdge jj ii w := by
  apply Mat.ext_get
  intro a b
  rw [updEdge_eq_relax]
  simp only [varPart_get, relax, Mat.addEdge, Mat.get_ofFn]
  by_cases hab : a = jj ∧ b = ii
  · obtain ⟨rfl, rfl⟩ := hab
    have : ¬ (a = b) := fun e => hij e.symm
    simp [this, hi, hj]
  · simp only [hab, if_false]

end

variable {g : Zone n} {ii jj : Fin (n + 1)} {w : Int}

theorem noLoop_upd (hl : NoSelfLoop g) (hij : ii ≠ jj) : ∀ a, edge (updEdge g ii w jj) a a = none := by
  intro a
  rw [edge_upd_old _ _ _ _ (fun e => hij (e.1.symm.trans e.2))]
  exact hl a

theorem varClosedExcept_upd (hv : VarNF g) : VarClosedExcept (updEdge g ii w jj) ii jj := by
  intro a k b ha hk hb hab h1 h2
  rw [edge_upd_old _ _ _ _ h1, edge_upd_old _ _ _ _ h2]
  refine W.LE_trans (upd_dec g ii jj w a b) ?_
  have t := hv.vars.tri b a k
  simp only [varPart_get, ha, hk, hb, false_or, or_false, if_false] at t
  have e : ¬ (b = a) := fun e => hab e.symm
  simp only [e, if_false] at t
  by_cases hak : k = a
  · subst hak
    rw [show edge g k k = none from hv.noLoop k]
    simp
  by_cases hkb : b = k
  · subst hkb
    rw [show edge g b b = none from hv.noLoop b]
    simp
  simp only [hak, hkb, if_false] at t
  rw [W.add_comm] at t
  exact t

theorem bndClosedExcept_upd (hs : SplitNF g) (hi : ii ≠ 0) (hj : jj ≠ 0) :
    BndClosedExcept (updEdge g ii w jj) ii jj := by
  constructor
  · intro k b hk hb h1
    rw [edge_upd_old _ _ _ _ h1, edge_upd_old _ _ _ _ (fun e => hi e.1.symm),
      edge_upd_old _ _ _ _ (fun e => hi e.1.symm)]
    have t := hs.tri b 0 k hk
    simp only [zdiag_get, hb, if_false] at t
    have e : ¬ (k = (0 : Fin (n + 1))) := hk
    simp only [e, if_false] at t
    by_cases hkb : b = k
    · subst hkb
      rw [show edge g b b = none from hs.noLoop b]; simp
    simp only [hkb, if_false] at t
    rw [W.add_comm] at t
    exact t
  · intro a k ha hk h1
    rw [edge_upd_old _ _ _ _ h1, edge_upd_old _ _ _ _ (fun e => hj e.2.symm),
      edge_upd_old _ _ _ _ (fun e => hj e.2.symm)]
    have t := hs.tri 0 a k hk
    have e0 : ¬ ((0 : Fin (n + 1)) = a) := fun e => ha e.symm
    have e1 : ¬ ((0 : Fin (n + 1)) = k) := fun e => hk e.symm
    simp only [zdiag_get, e0, e1, if_false] at t
    by_cases hak : k = a
    · subst hak
      rw [show edge g k k = none from hs.noLoop k]; simp
    simp only [hak, if_false] at t
    rw [W.add_comm] at t
    exact t

/-- `close_over_edge` on the edges among the variables (both settings of `close_bounds_inline`) -/
theorem closeOverEdgeI_var (inl : Bool) (vs : List (Fin (n + 1))) (hvs : ∀ v, v ∈ vs)
    (hv : VarNF g) (hi : ii ≠ 0) (hj : jj ≠ 0) (hij : ii ≠ jj)
    (hb : isBottom (updEdge g ii w jj) = false) :
    let G := updEdge g ii w jj
    let r := closeOverEdgeI inl vs G ii jj
    VarNF r ∧ (∀ a b, (varPart r).get a b = (close (varPart G)).get a b) ∧
      Dec r G ∧ (∀ a b, W.LE (edge (close G) a b) (edge r a b)) ∧
      (inl = false → ∀ x, edge r 0 x = edge G 0 x ∧ edge r x 0 = edge G x 0) ∧
      ∃ c S1 S2, edge G ii jj = some c ∧ c ≤ w ∧
        COEFacts inl G (close G) (Mat.addClose (varPart g) jj ii w) ii jj c r S1 S2 := by
  intro G r
  obtain ⟨c, hc, hcw, _⟩ := edge_upd_new g ii jj w
  obtain ⟨v, hsat⟩ := exists_sat_of_not_bottom hb
  have hn : ∀ x, edge G jj ii = some x → 0 ≤ x + c := by
    intro x hx
    have h1 := sat_edge hsat hx
    have h2 := sat_edge hsat hc
    omega
  -- the reference matrices
  have hnV : ∀ x, (varPart g).get ii jj = some x → 0 ≤ w + x := by
    intro x hx
    have e : ¬ (ii = jj) := hij
    simp only [varPart_get, e, hi, hj, false_or, if_false] at hx
    have : edge G jj ii = some x := by
      rw [edge_upd_old _ _ _ _ (fun e => hij e.1.symm)]; exact hx
    have := hn x this
    omega
  have cTv := Mat.addClose_closed hv.vars jj ii w hnV
  obtain ⟨_, eTv⟩ := Mat.addClose_eq_fw hv.vars jj ii w hnV
  rw [← varPart_upd g ii jj w hi hj hij] at eTv
  have cTf := Zones.close_closed hb
  have hr : Ref (close G) (Mat.addClose (varPart g) jj ii w) := Ref_of_closed cTf cTv
  have h0 : Snd G (close G) (Mat.addClose (varPart g) jj ii w) G := by
    refine ⟨Dec.refl _, edge_close_LE G, ?_, noLoop_upd hv.noLoop hij⟩
    intro a b ha hb'
    rw [show edge (Mat.addClose (varPart g) jj ii w) a b = edge (close (varPart G)) a b from
      (eTv b a).symm]
    refine W.LE_trans (edge_close_LE (varPart G) a b) ?_
    simp only [edge, varPart_get, ha, hb', false_or, if_false]
    by_cases hab : b = a
    · subst hab
      rw [show G.get b b = none from noLoop_upd hv.noLoop hij b]; exact W.LE_none _
    · simp only [hab, if_false]; exact W.LE_refl _
  obtain ⟨S1, S2, f⟩ := closeOverEdgeI_facts (inl := inl) hr h0 hi hj hij hc vs hvs
  have hVC := varClosedExcept_upd (ii := ii) (jj := jj) (w := w) hv
  -- entries among variables: exact
  have hex : ∀ s d, s ≠ 0 → d ≠ 0 → s ≠ d →
      edge r s d = edge (Mat.addClose (varPart g) jj ii w) s d := by
    intro s d hs hd hsd
    apply W.LE_antisymm
    · simp only [edge, Mat.addClose, Mat.get_ofFn]
      apply W.LE_min
      · have e : ¬ (d = s) := fun e => hsd e.symm
        simp only [varPart_get, e, hs, hd, false_or, if_false]
        exact Dec.trans f.snd.dec (upd_dec g ii jj w) s d
      · have e1 : (varPart g).get d jj = (if d = jj then some 0 else edge G jj d) := by
          simp only [varPart_get, hd, hj, false_or]
          by_cases h : d = jj
          · simp [h]
          · simp only [h, if_false]
            rw [edge_upd_old _ _ _ _ (fun e => hij e.1.symm)]; rfl
        have e2 : (varPart g).get ii s = (if s = ii then some 0 else edge G s ii) := by
          simp only [varPart_get, hs, hi, false_or]
          by_cases h : s = ii
          · simp [h]
          · have h' : ¬ (ii = s) := fun e => h e.symm
            simp only [h, h', if_false]
            rw [edge_upd_old _ _ _ _ (fun e => hij e.2)]; rfl
        rcases hy : (varPart g).get d jj with _ | y
        · simp
        rcases hx : (varPart g).get ii s with _ | x
        · simp
        have := f.var_ub hi hj hij hc hVC hn hs hd hsd (e2 ▸ hx) (e1 ▸ hy)
        exact W.LE_trans this (by simp; omega)
    · exact f.snd.abV s d hs hd
  have hvp : ∀ a b, (varPart r).get a b = (Mat.addClose (varPart g) jj ii w).get a b := by
    intro a b
    simp only [varPart_get]
    by_cases hab : a = b
    · subst hab; simp only [if_true]; exact (cTv.diag a).symm
    simp only [hab, if_false]
    by_cases h0' : a = 0 ∨ b = 0
    · simp only [h0', if_true, Mat.addClose, Mat.get_ofFn, varPart_get, hab, if_false]
      rcases h0' with h0' | h0'
      · subst h0'
        have : ¬ ((0 : Fin (n + 1)) = jj) := fun e => hj e.symm
        simp [this]
      · subst h0'
        have : ¬ (ii = (0 : Fin (n + 1))) := hi
        simp [this]
    · simp only [h0', if_false]
      have ha : a ≠ 0 := fun e => h0' (Or.inl e)
      have hb' : b ≠ 0 := fun e => h0' (Or.inr e)
      exact hex b a hb' ha (fun e => hab e.symm)
  refine ⟨⟨fun a => f.snd.noLoop a, ?_⟩, ?_, f.snd.dec, f.snd.abF, f.bnd, c, S1, S2, hc, hcw, f⟩
  · rw [show varPart r = Mat.addClose (varPart g) jj ii w from Mat.ext_get hvp]
    exact cTv
  · intro a b; rw [hvp]; exact (eTv a b).symm

/-- `close_over_edge` under `close_bounds_inline`: the split normal form is restored and the
    solutions are those of the graph with the new edge -/
theorem closeOverEdgeI_full (vs : List (Fin (n + 1))) (hvs : ∀ v, v ∈ vs)
    (hs : SplitNF g) (hi : ii ≠ 0) (hj : jj ≠ 0) (hij : ii ≠ jj)
    (hb : isBottom (updEdge g ii w jj) = false) :
    let G := updEdge g ii w jj
    let r := closeOverEdgeI true vs G ii jj
    SplitNF r ∧ ∀ v, r.sat v ↔ G.sat v := by
  intro G r
  obtain ⟨hvr, hvp, hdec, habove, _, c, S1, S2, hc, hcw, f⟩ :=
    closeOverEdgeI_var true vs hvs hs.varNF hi hj hij hb
  obtain ⟨v, hsat⟩ := exists_sat_of_not_bottom hb
  have hgsat : g.sat v := Mat.sat_of_LE (fun a b => upd_dec g ii jj w b a) hsat
  have hn : ∀ x, edge G jj ii = some x → 0 ≤ x + c := by
    intro x hx
    have h1 := sat_edge hsat hx
    have h2 := sat_edge hsat hc
    omega
  have hn0 : ∀ x y, edge G 0 ii = some x → edge G jj 0 = some y → 0 ≤ x + c + y := by
    intro x y hx hy
    have h1 := sat_edge hsat hx
    have h2 := sat_edge hsat hc
    have h3 := sat_edge hsat hy
    omega
  have hB := bndClosedExcept_upd (w := w) hs hi hj
  -- the closure of `G` by the one-edge formula on the reading of `g`
  have hnF : ∀ y, (fullOf g).get ii jj = some y → 0 ≤ w + y := by
    intro y hy
    have h1 := ((fullOf_sat hs.noLoop v).2 hgsat) ii jj y hy
    have h2 := sat_edge hsat hc
    omega
  have hGeq : G = g.addEdge jj ii w := by
    show updEdge g ii w jj = _
    rw [updEdge_eq_relax]; rfl
  obtain ⟨_, eTf⟩ := Mat.fw_eq_of_closed (m := G)
    (Mat.addClose_closed hs.closed_fullOf jj ii w hnF)
    (fun v => by rw [Mat.addClose_sat hs.closed_fullOf, fullOf_sat hs.noLoop, hGeq, Mat.addEdge_sat])
  have eG0 : ∀ x, edge g 0 x = edge G 0 x := fun x =>
    (edge_upd_old g ii jj w (fun e => hi e.1.symm)).symm
  have eG1 : ∀ x, edge g x 0 = edge G x 0 := fun x =>
    (edge_upd_old g ii jj w (fun e => hj e.2.symm)).symm
  -- bounds: exact
  have hout : ∀ d, d ≠ 0 → edge r 0 d = edge (close G) 0 d := by
    intro d hd
    apply W.LE_antisymm _ (habove 0 d)
    rw [show edge (close G) 0 d = (Mat.addClose (fullOf g) jj ii w).get d 0 from eTf d 0]
    simp only [Mat.addClose, Mat.get_ofFn]
    have e0 : (fullOf g).get d 0 = edge G 0 d := by
      simp only [fullOf_get, hd, if_false, splitW, or_true, if_true]; exact eG0 d
    have e1 : (fullOf g).get ii 0 = edge G 0 ii := by
      simp only [fullOf_get, hi, if_false, splitW, or_true, if_true]; exact eG0 ii
    have e2 : (fullOf g).get d jj = (if d = jj then some 0
        else W.min (edge G jj d) (W.add (edge G jj 0) (edge G 0 d))) := by
      simp only [fullOf_get, splitW, hd, hj, false_or, if_false]
      by_cases h : d = jj
      · simp [h]
      · simp only [h, if_false]
        rw [W.add_comm, ← eG0, ← eG1, edge_upd_old _ _ _ _ (fun e => hij e.1.symm)]; rfl
    apply W.LE_min
    · rw [e0]; exact hdec 0 d
    · rcases hy : (fullOf g).get d jj with _ | y
      · simp
      rcases hx : (fullOf g).get ii 0 with _ | x
      · simp
      have := f.out_ub hi hB hn hn0 hd (e1 ▸ hx) (e2 ▸ hy)
      exact W.LE_trans this (by simp; omega)
  have hin : ∀ s, s ≠ 0 → edge r s 0 = edge (close G) s 0 := by
    intro s hs'
    apply W.LE_antisymm _ (habove s 0)
    rw [show edge (close G) s 0 = (Mat.addClose (fullOf g) jj ii w).get 0 s from eTf 0 s]
    simp only [Mat.addClose, Mat.get_ofFn]
    have hs0 : ¬ ((0 : Fin (n + 1)) = s) := fun e => hs' e.symm
    have hj0 : ¬ ((0 : Fin (n + 1)) = jj) := fun e => hj e.symm
    have e0 : (fullOf g).get 0 s = edge G s 0 := by
      simp only [fullOf_get, hs0, if_false, splitW, true_or, if_true]; exact eG1 s
    have e1 : (fullOf g).get 0 jj = edge G jj 0 := by
      simp only [fullOf_get, hj0, if_false, splitW, true_or, if_true]; exact eG1 jj
    have e2 : (fullOf g).get ii s = (if s = ii then some 0
        else W.min (edge G s ii) (W.add (edge G s 0) (edge G 0 ii))) := by
      simp only [fullOf_get, splitW, hs', hi, false_or, if_false]
      by_cases h : s = ii
      · simp [h]
      · have h' : ¬ (ii = s) := fun e => h e.symm
        simp only [h, h', if_false]
        rw [W.add_comm, ← eG0, ← eG1, edge_upd_old _ _ _ _ (fun e => hij e.2)]; rfl
    apply W.LE_min
    · rw [e0]; exact hdec s 0
    · rcases hy : (fullOf g).get 0 jj with _ | y
      · simp
      rcases hx : (fullOf g).get ii s with _ | x
      · simp
      have := f.in_ub hj hB hn hn0 hs' (e2 ▸ hx) (e1 ▸ hy)
      exact W.LE_trans this (by simp; omega)
  have cTf := Zones.close_closed hb
  refine ⟨⟨hvr.noLoop, ?_⟩, ?_⟩
  · -- triangle inequality through every variable vertex
    intro i j k hk
    simp only [zdiag_get]
    have triF : W.LE ((close G).get i j) (W.add ((close G).get i k) ((close G).get k j)) := cTf.tri i j k
    have ab : ∀ a b, W.LE ((close G).get a b) (r.get a b) := fun a b => habove b a
    by_cases hik : i = k
    · subst hik
      simp only [if_true]
      rw [W.zero_add]; exact W.LE_refl _
    by_cases hkj : k = j
    · subst hkj
      simp only [if_true]
      rw [W.add_zero]; exact W.LE_refl _
    simp only [hik, hkj, if_false]
    by_cases hij' : i = j
    · subst hij'
      simp only [if_true]
      have := W.LE_trans triF (W.add_mono (ab i k) (ab k i))
      rw [cTf.diag] at this
      exact this
    simp only [hij', if_false]
    by_cases hi0 : i = 0
    · subst hi0
      have hj0 : j ≠ 0 := fun e => hij' e.symm
      rw [show r.get 0 j = (close G).get 0 j from hin j hj0]
      exact W.LE_trans triF (W.add_mono (ab 0 k) (ab k j))
    by_cases hj0 : j = 0
    · subst hj0
      rw [show r.get i 0 = (close G).get i 0 from hout i hi0]
      exact W.LE_trans triF (W.add_mono (ab i k) (ab k 0))
    have t := hvr.vars.tri i j k
    simp only [varPart_get, hik, hkj, hij', hi0, hj0, hk, false_or, or_false, if_false] at t
    exact t
  · intro v
    constructor
    · exact Mat.sat_of_LE (fun a b => hdec b a)
    · intro h
      exact Mat.sat_of_LE (fun a b => habove b a) ((Mat.fw_sat G v).2 h)

end DbmIncr
end Crab
