import CrabProofs.Lemmas.WtoStepC

/-! Popping the root of a component: the generic part (what remains true for the frames below). -/
namespace Crab
namespace Wto

theorem DoneNow.mono {st0 : St} {W W' : List WtoC} (hsub : ∀ x ∈ flattenL W, x ∈ flattenL W') {y : Nat}
    (h : DoneNow st0 W y) : DoneNow st0 W' y := by
  rcases h with h | h
  · exact Or.inl (hsub y h)
  · exact Or.inr h

/-- a frame below the popped one keeps its invariant: the popped nodes are now placed, and all the
    witnesses it refers to are below it on the stack -/
theorem FrameOK.after_pop {g : Graph} {num0 : Nat} {dnf dnf' : Nat → Nat} {ln : List Nat}
    {D D' : Nat → Prop} {top S : List Nat} {q : GF}
    (h : FrameOK g num0 dnf ln D (top ++ S) q)
    (hseg : ∀ x ∈ q.seg, x ∈ S)
    (hsorted : (top ++ S).Pairwise (fun a b => dnf a > dnf b))
    (hdn : ∀ y ∈ S, dnf' y = dnf y) (hD : ∀ y, D y → D' y) (htop : ∀ y ∈ top, D' y) :
    FrameOK g num0 dnf' ln D' S q := by
  have hgt : ∀ a ∈ top, ∀ b ∈ S, dnf a > dnf b := (List.pairwise_append.1 hsorted).2.2
  have hnodeS : q.f.node ∈ S := hseg _ (node_mem_seg q)
  have hnode : dnf' q.f.node = dnf q.f.node := hdn _ hnodeS
  -- a witness with a dfn not above some node of S is in S
  have hwit : ∀ z ∈ top ++ S, ∀ b ∈ S, dnf z ≤ dnf b → z ∈ S := by
    intro z hz b hb hle
    rcases List.mem_append.1 hz with hz | hz
    · have := hgt z hz b hb; omega
    · exact hz
  refine ⟨h.succ_eq, h.min_gt, by rw [hnode]; exact h.min_le, ?_, ?_, ?_, ?_, ?_, ?_⟩
  · intro y hy
    rcases h.ex_node y hy with hd | ⟨hyS, hle⟩
    · exact Or.inl (hD y hd)
    · rcases List.mem_append.1 hyS with hy1 | hy1
      · exact Or.inl (htop y hy1)
      · exact Or.inr ⟨hy1, by rw [hdn y hy1]; exact hle⟩
  · intro x hx y hy
    rcases h.ex_above x hx y hy with hd | ⟨hyS, hle⟩
    · exact Or.inl (hD y hd)
    · rcases List.mem_append.1 hyS with hy1 | hy1
      · exact Or.inl (htop y hy1)
      · exact Or.inr ⟨hy1, by rw [hdn y hy1]; exact hle⟩
  · rcases h.min_wit with he | ⟨z, hz, hzS, hzd⟩
    · exact Or.inl (by rw [hnode]; exact he)
    · have hzS' : z ∈ S := hwit z hzS _ hnodeS (by rw [hzd]; exact h.min_le)
      exact Or.inr ⟨z, hz, hzS', by rw [hdn z hzS']; exact hzd⟩
  · intro x hx
    obtain ⟨z, hz, hzS, h1, h2⟩ := h.above_wit x hx
    have hxS : x ∈ S := hseg x (above_sub_seg hx)
    have hzS' : z ∈ S := hwit z hzS x hxS (by omega)
    exact ⟨z, hz, hzS', by rw [hdn z hzS']; exact h1, by rw [hdn z hzS', hdn x hxS]; exact h2⟩
  · intro hd
    rcases h.self_loop hd with h1 | h1
    · exact Or.inl h1
    · exact Or.inr (by rw [hnode]; exact h1)
  · intro x hx
    obtain ⟨r, hr, h1, h2⟩ := h.parent x hx
    exact ⟨r, hr, by rw [hdn r (hseg r hr), hdn x (hseg x (above_sub_seg hx))]; exact h1, h2⟩

/-- generic root pop: the segment of the top frame leaves the stack and is placed (in `W'`) -/
theorem Inv.pop_root {g : Graph} {K : Nat → Prop} {st0 : St} {part0 : List WtoC} {v : Nat}
    {p : GF} {gs : List GF} {ln : List Nat} {part part' : List WtoC} {st st' : St} {W W' : List WtoC}
    (h : Inv g K st0 part0 v (p :: gs) ln part st W)
    (hpart : part' = W' ++ part0)
    (hstack : st'.stack = stk gs ++ st0.stack)
    (hsize : st'.dfn.size = st.dfn.size) (hnum : st.num ≤ st'.num)
    (hmem : ∀ x, x ∈ flattenL W' ↔ (x ∈ p.seg ∨ x ∈ flattenL W))
    (hnodup : (flattenL W').Nodup)
    (hdW : ∀ x ∈ flattenL W', getDfn st'.dfn x = .inf)
    (hdO : ∀ x, x ∉ flattenL W' → getDfn st'.dfn x = getDfn st.dfn x)
    (hedges : ∀ x ∈ flattenL W', ∀ y ∈ g.succ x, getDfn st0.dfn y = .inf ∨ EdgeOK W' x y) :
    Inv g K st0 part0 v gs ln part' st' W' := by
  have hsorted := h.sorted
  rw [stk_cons] at hsorted
  have hnd := sorted_nodup hsorted
  have hdisj_seg : ∀ x ∈ stk gs, x ∉ p.seg := by
    intro x hx hxs
    exact (List.nodup_append.1 hnd).2.2 x hxs x hx rfl
  have hnotW' : ∀ x ∈ stk gs, x ∉ flattenL W' := by
    intro x hx hxW
    rcases (hmem x).1 hxW with h1 | h1
    · exact hdisj_seg x hx h1
    · exact h.disj x h1 (by rw [stk_cons]; exact List.mem_append_right _ hx)
  have hdn : ∀ y ∈ stk gs, dn st'.dfn y = dn st.dfn y := by
    intro y hy
    simp only [dn, hdO y (hnotW' y hy)]
  refine ⟨hpart, hstack, by rw [hsize]; exact h.size_eq, Nat.le_trans h.num_ge hnum, hdW, ?_, ?_, ?_,
    hnodup, ?_, ?_, ?_, hedges, ?_, h.chain.tail, ?_⟩
  · intro x hx
    obtain ⟨k, hk, hk1, hk2⟩ := h.dfn_stk x (by rw [stk_cons]; exact List.mem_append_right _ hx)
    exact ⟨k, by rw [hdO x (hnotW' x hx)]; exact hk, hk1, Nat.le_trans hk2 hnum⟩
  · intro x hxW hxS
    rw [hdO x hxW]
    apply h.dfn_other x (fun hw => hxW ((hmem x).2 (Or.inr hw)))
    rw [stk_cons]
    intro hx
    rcases List.mem_append.1 hx with h1 | h1
    · exact hxW ((hmem x).2 (Or.inl h1))
    · exact hxS h1
  · apply List.Pairwise.imp_of_mem _ (List.pairwise_append.1 hsorted).2.1
    intro a b ha hb hab
    rw [hdn a ha, hdn b hb]; exact hab
  · intro x hx
    rcases (hmem x).1 hx with h1 | h1
    · exact h.stk_K x (by rw [stk_cons]; exact List.mem_append_left _ h1)
    · exact h.W_K x h1
  · intro x hx
    exact h.stk_K x (by rw [stk_cons]; exact List.mem_append_right _ hx)
  · intro x hx hxS
    exact hnotW' x hxS hx
  · intro q hq
    have hqf := h.frames q (List.mem_cons_of_mem _ hq)
    rw [stk_cons] at hqf
    exact hqf.after_pop (fun x hx => mem_stk_of_mem hq hx) hsorted hdn
      (fun y hd => DoneNow.mono (fun x hx => (hmem x).2 (Or.inr hx)) hd)
      (fun y hy => Or.inl ((hmem y).2 (Or.inl hy)))
  · rcases h.root_in with hv | hv
    · rw [stk_cons] at hv
      rcases List.mem_append.1 hv with h1 | h1
      · exact Or.inr ((hmem v).2 (Or.inl h1))
      · exact Or.inl h1
    · exact Or.inr ((hmem v).2 (Or.inr hv))

end Wto
end Crab
