import CrabProofs.Lemmas.ArraySmashItvRefine
import CrabProofs.Lemmas.IDomFrame

/-!
  The invariants that make `operator&` of `array_smashing<interval_domain>` sound:
   * `SizesOk`: every recorded size of an array is the element size of that array (holds when
     `array_assign` is only used between arrays of the same element size);
   * `ND` (no dangling summary): the summary of an array whose size is not recorded, and every
     temporary `a.smashed.copy`, is unbound in the base environment.  (This is the invariant the
     join of the pinned tree broke; it holds for the repaired join.)
  and their preservation by every operation of the exact model.
-/
namespace Crab
namespace Dom
namespace SmashItv
open Crab.Dom.Arr Crab.IDom

def SizesOk (esz : Nat → Nat) (st : St) : Prop := ∀ a k, st.sizes.constSize a = some k → k = esz a

def ND (st : St) : Prop :=
  ∀ a, (st.sizes.constSize a = none → st.base.Unbound (enc (.smashed a))) ∧ st.base.Unbound (enc (.copy a))

def Inv2 (esz : Nat → Nat) (st : St) : Prop := Inv st ∧ SizesOk esz st ∧ ND st

theorem enc_ne {v w : Smash.Var} (h : v ≠ w) : enc v ≠ enc w := fun e => h (enc_inj e)

theorem sm_ne_prog (a x : Nat) : enc (.smashed a) ≠ enc (.prog x) := enc_ne (by intro h; cases h)
theorem cp_ne_prog (a x : Nat) : enc (.copy a) ≠ enc (.prog x) := enc_ne (by intro h; cases h)
theorem sm_ne_cp (a b : Nat) : enc (.smashed a) ≠ enc (.copy b) := enc_ne (by intro h; cases h)
theorem cp_ne_sm (a b : Nat) : enc (.copy a) ≠ enc (.smashed b) := enc_ne (by intro h; cases h)
theorem sm_ne_sm {a b : Nat} (h : a ≠ b) : enc (.smashed a) ≠ enc (.smashed b) :=
  enc_ne (fun e => h (Smash.Var.smashed.inj e))
theorem cp_ne_cp {a b : Nat} (h : a ≠ b) : enc (.copy a) ≠ enc (.copy b) :=
  enc_ne (fun e => h (Smash.Var.copy.inj e))

/-! ### recorded sizes after each operation of the size environment -/

theorem cs_set {z : SzEnv} (hz : z.bottom = false) (a k b : Nat) :
    (z.set a k).constSize b = if b = a then some k else z.constSize b :=
  congrFun (absSz_set hz a k) b

theorem cs_remove {z : SzEnv} (hz : z.bottom = false) (a b : Nat) :
    (z.remove a).constSize b = if b = a then none else z.constSize b :=
  congrFun (absSz_remove hz a) b

theorem cs_join {a b : SzEnv} (ha : a.bottom = false) (hb : b.bottom = false) (x : Nat) :
    (SzEnv.join a b).constSize x = if a.constSize x = b.constSize x then a.constSize x else none :=
  congrFun (absSz_join ha hb) x

theorem cs_find {z : SzEnv} (hz : z.bottom = false) (x : Nat) : z.constSize x = z.m.find x := by
  simp [SzEnv.constSize, hz]

theorem cs_of_equalSize {z : SzEnv} (hz : z.bottom = false) {a k : Nat} (h : z.equalSize a k = true) :
    z.constSize a = some k := (equalSize_iff hz a k).1 h

theorem meet_sizes {a b : SzEnv} (ha : a.bottom = false) (hb : b.bottom = false)
    (hok : ∀ x v1 v2, a.m.find x = some v1 → b.m.find x = some v2 → v1 = v2) :
    (SzEnv.meet a b).bottom = false ∧
    ∀ x, (SzEnv.meet a b).constSize x = (match a.m.find x with | some v => some v | none => b.m.find x) := by
  have e : SzEnv.meet a b = ⟨false, SzMap.build (SzMap.keys a.m ++ SzMap.keys b.m) (fun k =>
      match a.m.find k with
      | some v => some v
      | none => b.m.find k)⟩ := by
    unfold SzEnv.meet
    simp only [ha, hb, Bool.or_self, Bool.false_eq_true, if_false]
    split
    · rename_i hc
      exfalso
      rw [List.any_eq_true] at hc
      obtain ⟨k, _, hk⟩ := hc
      cases h1 : a.m.find k with
      | none => simp [h1] at hk
      | some v1 =>
        cases h2 : b.m.find k with
        | none => simp [h1, h2] at hk
        | some v2 => simp [h1, h2, hok k v1 v2 h1 h2] at hk
    · rfl
  rw [e]
  refine ⟨rfl, fun x => ?_⟩
  simp only [SzEnv.constSize, Bool.false_eq_true, if_false, find_build, List.mem_append, mem_keys_iff]
  cases h1 : a.m.find x with
  | some v => simp
  | none =>
    cases h2 : b.m.find x with
    | none => simp
    | some w => simp

/-! ### `SizesOk` -/

variable {esz : Nat → Nat}

theorem sizesOk_top : SizesOk esz St.top := by
  intro a k h; simp [St.top, SzEnv.top, SzEnv.constSize, SzMap.find] at h

theorem sizesOk_set {st : St} (hI : Inv st) (h : SizesOk esz st) (a : Nat) (b : IDom.Env) :
    SizesOk esz ⟨st.sizes.set a (esz a), b⟩ := by
  intro x k hx
  simp only [cs_set hI.1] at hx
  split at hx
  · rename_i hxa; subst hxa; exact (Option.some.inj hx).symm
  · exact h x k hx

theorem sizesOk_arrayStore {st : St} (hI : Inv st) (h : SizesOk esz st) (a : Nat) (val : SLin) (strong : Bool) :
    SizesOk esz (st.arrayStore (esz a) a val strong) := by
  unfold St.arrayStore
  cases strong with
  | true => simp only [if_true]; split <;> exact sizesOk_set hI h a _
  | false => simp only [Bool.false_eq_true, if_false]; split <;> exact h

theorem sizesOk_arrayAssign {st : St} (hI : Inv st) (h : SizesOk esz st) (lhs rhs : Nat) (hsz : esz lhs = esz rhs) :
    SizesOk esz (st.arrayAssign lhs rhs) := by
  unfold St.arrayAssign
  split
  · exact h
  · split
    · rename_i k hk
      intro x v hx
      simp only [cs_set hI.1] at hx
      split at hx
      · rename_i hxl; subst hxl
        rw [← Option.some.inj hx, hsz]; exact h rhs k hk
      · exact h x v hx
    · split
      · intro x v hx
        simp only [cs_remove hI.1] at hx
        split at hx
        · simp at hx
        · exact h x v hx
      · exact h

theorem sizesOk_join {a b : St} (ha : Inv a) (hb : Inv b) (h1 : SizesOk esz a) (h2 : SizesOk esz b) :
    SizesOk esz (St.join a b) ∧ SizesOk esz (St.widen a b) := by
  have hj : ∀ base, SizesOk esz ⟨SzEnv.join a.sizes b.sizes, base⟩ := by
    intro base x k hx
    simp only [cs_join ha.1 hb.1] at hx
    split at hx
    · exact h1 x k hx
    · simp at hx
  constructor
  · unfold St.join; split
    · exact h2
    · split
      · exact h1
      · exact hj _
  · unfold St.widen; split
    · exact h2
    · split
      · exact h1
      · exact hj _

theorem sizes_agree {a b : St} (ha : Inv a) (hb : Inv b) (h1 : SizesOk esz a) (h2 : SizesOk esz b) :
    ∀ x v1 v2, a.sizes.m.find x = some v1 → b.sizes.m.find x = some v2 → v1 = v2 := by
  intro x v1 v2 e1 e2
  rw [h1 x v1 (by rw [cs_find ha.1]; exact e1), h2 x v2 (by rw [cs_find hb.1]; exact e2)]

/-- recorded sizes of a meet (under `SizesOk` no two sizes of one array differ) -/
theorem cs_meet {a b : St} (ha : Inv a) (hb : Inv b) (h1 : SizesOk esz a) (h2 : SizesOk esz b) (x : Nat) :
    (St.meet a b).sizes.constSize x =
      (match a.sizes.constSize x with | some v => some v | none => b.sizes.constSize x) := by
  rw [cs_find ha.1, cs_find hb.1]
  exact (meet_sizes ha.1 hb.1 (sizes_agree ha hb h1 h2)).2 x

theorem inv_meet {a b : St} (ha : Inv a) (hb : Inv b) (h1 : SizesOk esz a) (h2 : SizesOk esz b) :
    Inv (St.meet a b) :=
  ⟨(meet_sizes ha.1 hb.1 (sizes_agree ha hb h1 h2)).1, Env.lowerWith_sorted _ ha.2 b.base⟩

theorem sizesOk_meet {a b : St} (ha : Inv a) (hb : Inv b) (h1 : SizesOk esz a) (h2 : SizesOk esz b) :
    SizesOk esz (St.meet a b) := by
  intro x k hx
  rw [cs_meet ha hb h1 h2] at hx
  cases hc : a.sizes.constSize x with
  | some v => rw [hc] at hx; exact h1 x k (by rw [hc]; exact hx)
  | none => rw [hc] at hx; exact h2 x k hx

end SmashItv
end Dom
end Crab
