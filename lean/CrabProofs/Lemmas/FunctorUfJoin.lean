import CrabProofs.Lemmas.FunctorUfOps

/-!
`uf_domain`: `generalize` (anti-unification with the memo `g_map`) and `operator|` are upper
bounds.  The proof is done once for an abstract "value of the pair" `sv tx ty` that commutes with
constants and applications; it is instantiated with the value of the left term under the left
valuation and with the value of the right term under the right valuation.
-/
namespace Crab
namespace Dom
namespace Fct
namespace Uf
set_option linter.unusedSectionVars false

variable {V F : Type} [DecidableEq V] [DecidableEq F] (I : F → List Int → Int)

/-- what the generalisation of the pair `(tx, ty)` has to evaluate to -/
structure SV (sv : Term F → Term F → Int) : Prop where
  const : ∀ k, sv (.const k) (.const k) = k
  app : ∀ f xs ys, xs.length = ys.length → sv (.app f xs) (.app f ys) = I f (List.zipWith sv xs ys)

/-- the memo is explained by the valuation `ρ` of the output table -/
def GOK (sv : Term F → Term F → Int) (n : Nat) (memo : List ((Term F × Term F) × Term F)) (ρ : Nat → Int) : Prop :=
  ∀ e ∈ memo, e.2.bounded n = true ∧ e.2.eval I ρ = sv e.1.1 e.1.2

theorem GOK.ext {sv : Term F → Term F → Int} {n n' : Nat} {memo : List ((Term F × Term F) × Term F)}
    {ρ ρ' : Nat → Int} (h : GOK I sv n memo ρ) (he : Ext n ρ ρ') (hn : n ≤ n') : GOK I sv n' memo ρ' :=
  fun e he' => ⟨Term.bounded_mono hn _ (h e he').1, by rw [Term.eval_ext I he _ (h e he').1]; exact (h e he').2⟩

theorem gok_fresh {sv : Term F → Term F → Int} {st : GSt F} {ρ : Nat → Int} (h : GOK I sv st.next st.memo ρ)
    (k : Term F × Term F) :
    ∃ ρ', Ext st.next ρ ρ' ∧ GOK I sv (st.fresh k).2.next (st.fresh k).2.memo ρ' ∧
      (st.fresh k).1.bounded (st.fresh k).2.next = true ∧ (st.fresh k).1.eval I ρ' = sv k.1 k.2 ∧
      st.next ≤ (st.fresh k).2.next := by
  refine ⟨upd ρ st.next (sv k.1 k.2), upd_ext _ _ _, ?_, by simp [GSt.fresh, Term.bounded],
    by simp [GSt.fresh, Term.eval, upd_self], by simp [GSt.fresh]⟩
  intro e he
  rcases List.mem_cons.1 he with rfl | he
  · exact ⟨by simp [GSt.fresh, Term.bounded], by simp [GSt.fresh, Term.eval, upd_self]⟩
  · exact (h.ext I (upd_ext _ _ _) (Nat.le_succ _)) e he

/-- the specification of one call -/
def GenSpec (sv : Term F → Term F → Int) (st : GSt F) (ρ : Nat → Int) (r : Term F × GSt F) (val : Int) : Prop :=
  ∃ ρ', Ext st.next ρ ρ' ∧ GOK I sv r.2.next r.2.memo ρ' ∧ r.1.bounded r.2.next = true ∧
    r.1.eval I ρ' = val ∧ st.next ≤ r.2.next

theorem genSpec_hit {sv : Term F → Term F → Int} {st : GSt F} {ρ : Nat → Int} (h : GOK I sv st.next st.memo ρ)
    {k : Term F × Term F} {r : Term F} (hl : look st.memo k = some r) : GenSpec I sv st ρ (r, st) (sv k.1 k.2) := by
  have := h _ (look_mem hl)
  exact ⟨ρ, Ext.refl _ _, h, this.1, this.2, Nat.le_refl _⟩

mutual
theorem gen_spec {sv : Term F → Term F → Int} (hsv : SV I sv) :
    (tx ty : Term F) → (st : GSt F) → (ρ : Nat → Int) → GOK I sv st.next st.memo ρ →
    GenSpec I sv st ρ (gen tx ty st) (sv tx ty)
  | .var a, ty, st, ρ, h => by
    simp only [gen]
    split
    · rename_i r hl; exact genSpec_hit I h hl
    · exact gok_fresh I h (.var a, ty)
  | .const a, ty, st, ρ, h => by
    simp only [gen]
    split
    · rename_i r hl; exact genSpec_hit I h hl
    · split
      · rename_i he
        subst he
        refine ⟨ρ, Ext.refl _ _, ?_, by simp [Term.bounded], by simp [Term.eval, hsv.const], Nat.le_refl _⟩
        intro e he
        rcases List.mem_cons.1 he with rfl | he
        · exact ⟨by simp [Term.bounded], by simp [Term.eval, hsv.const]⟩
        · exact h e he
      · exact gok_fresh I h (.const a, ty)
  | .app f xs, ty, st, ρ, h => by
    simp only [gen]
    split
    · rename_i r hl; exact genSpec_hit I h hl
    · split
      · rename_i g ys _
        split
        · rename_i hc
          obtain ⟨rfl, hlen⟩ := hc
          obtain ⟨ρ', e1, e2, e3, e4, e5⟩ := genL_spec hsv xs ys st ρ h
          refine ⟨ρ', e1, ?_, by simp only [Term.bounded]; exact e3, ?_, e5⟩
          · intro e he
            rcases List.mem_cons.1 he with rfl | he
            · exact ⟨by simp only [Term.bounded]; exact e3, by simp only [Term.eval]; rw [e4, hsv.app f xs ys hlen]⟩
            · exact e2 e he
          · simp only [Term.eval]; rw [e4, hsv.app f xs ys hlen]
        · exact gok_fresh I h (.app f xs, .app g ys)
      · exact gok_fresh I h (.app f xs, _)
theorem genL_spec {sv : Term F → Term F → Int} (hsv : SV I sv) :
    (xs ys : List (Term F)) → (st : GSt F) → (ρ : Nat → Int) → GOK I sv st.next st.memo ρ →
    ∃ ρ', Ext st.next ρ ρ' ∧ GOK I sv (genL xs ys st).2.next (genL xs ys st).2.memo ρ' ∧
      Term.boundedL (genL xs ys st).2.next (genL xs ys st).1 = true ∧
      Term.evalL I ρ' (genL xs ys st).1 = List.zipWith sv xs ys ∧ st.next ≤ (genL xs ys st).2.next
  | [], ys, st, ρ, h => by
    simp only [genL]; exact ⟨ρ, Ext.refl _ _, h, rfl, by simp [Term.evalL], Nat.le_refl _⟩
  | x :: xs, [], st, ρ, h => by
    simp only [genL]; exact ⟨ρ, Ext.refl _ _, h, rfl, by simp [Term.evalL], Nat.le_refl _⟩
  | x :: xs, y :: ys, st, ρ, h => by
    simp only [genL]
    obtain ⟨ρ1, a1, a2, a3, a4, a5⟩ := gen_spec hsv x y st ρ h
    obtain ⟨ρ2, b1, b2, b3, b4, b5⟩ := genL_spec hsv xs ys (gen x y st).2 ρ1 a2
    refine ⟨ρ2, Ext.trans a1 b1 a5, b2, ?_, ?_, Nat.le_trans a5 b5⟩
    · simp only [Term.boundedL, Bool.and_eq_true]
      exact ⟨Term.bounded_mono b5 _ a3, b3⟩
    · simp only [Term.evalL, List.zipWith_cons_cons]
      rw [b4, Term.eval_ext I b1 _ a3, a4]
end

/-! ### the loop of `operator|` -/

/-- every pair the loop generalises has the value of its variable -/
def PairsOK (sv : Term F → Term F → Int) (s : St V) : List (V × Term F) → UVal V F → Prop
  | [], _ => True
  | (v, tx) :: rest, right => sv tx (right.termOfVar v).1 = s v ∧ PairsOK sv s rest (right.termOfVar v).2

theorem joinGo_spec {sv : Term F → Term F → Int} (hsv : SV I sv) (s : St V) :
    (m : List (V × Term F)) → (right : UVal V F) → (st : GSt F) → (ρ : Nat → Int) →
    PairsOK sv s m right → GOK I sv st.next st.memo ρ →
    ∃ ρ', Ext st.next ρ ρ' ∧ GOK I sv (joinGo m right st).2.next (joinGo m right st).2.memo ρ' ∧
      Mod I ρ' (joinGo m right st).1 s ∧ MapB (joinGo m right st).2.next (joinGo m right st).1 ∧
      st.next ≤ (joinGo m right st).2.next
  | [], right, st, ρ, _, h => by
    simp only [joinGo]
    exact ⟨ρ, Ext.refl _ _, h, fun p hp => by simp at hp, fun p hp => by simp at hp, Nat.le_refl _⟩
  | (v, tx) :: rest, right, st, ρ, hp, h => by
    simp only [joinGo]
    obtain ⟨ρ1, a1, a2, a3, a4, a5⟩ := gen_spec I hsv tx (right.termOfVar v).1 st ρ h
    obtain ⟨ρ2, b1, b2, b3, b4, b5⟩ := joinGo_spec hsv s rest (right.termOfVar v).2 _ ρ1 hp.2 a2
    refine ⟨ρ2, Ext.trans a1 b1 a5, b2, ?_, ?_, Nat.le_trans a5 b5⟩
    · intro p hp'
      rcases List.mem_cons.1 hp' with rfl | hp'
      · show s v = _
        rw [Term.eval_ext I b1 _ a3, a4, hp.1]
      · exact b3 p hp'
    · intro p hp'
      rcases List.mem_cons.1 hp' with rfl | hp'
      · exact Term.bounded_mono b5 _ a3
      · exact b4 p hp'

/-! ### the two instances -/

theorem zipWith_left (g : Term F → Int) : (xs ys : List (Term F)) → xs.length = ys.length →
    List.zipWith (fun x _ => g x) xs ys = xs.map g
  | [], [], _ => rfl
  | x :: xs, y :: ys, h => by
    simp only [List.length_cons, Nat.add_right_cancel_iff] at h
    simp [zipWith_left g xs ys h]
  | [], _ :: _, h => by simp at h
  | _ :: _, [], h => by simp at h

theorem zipWith_right (g : Term F → Int) : (xs ys : List (Term F)) → xs.length = ys.length →
    List.zipWith (fun _ y => g y) xs ys = ys.map g
  | [], [], _ => rfl
  | x :: xs, y :: ys, h => by
    simp only [List.length_cons, Nat.add_right_cancel_iff] at h
    simp [zipWith_right g xs ys h]
  | [], _ :: _, h => by simp at h
  | _ :: _, [], h => by simp at h

theorem evalL_eq_map (ρ : Nat → Int) : (ts : List (Term F)) → Term.evalL I ρ ts = ts.map (Term.eval I ρ)
  | [] => rfl
  | t :: ts => by simp [Term.evalL, evalL_eq_map ρ ts]

theorem sv_left (ρ : Nat → Int) : SV I (fun tx _ => Term.eval I ρ tx) where
  const := fun k => by simp [Term.eval]
  app := fun f xs ys h => by simp only [Term.eval]; rw [zipWith_left _ xs ys h, evalL_eq_map]

theorem sv_right (ρ : Nat → Int) : SV I (fun (_ : Term F) ty => Term.eval I ρ ty) where
  const := fun k => by simp [Term.eval]
  app := fun f xs ys h => by simp only [Term.eval]; rw [zipWith_right _ xs ys h, evalL_eq_map]

theorem pairsOK_left {ρ : Nat → Int} {s : St V} : (m : List (V × Term F)) → (right : UVal V F) →
    Mod I ρ m s → PairsOK (fun tx _ => Term.eval I ρ tx) s m right
  | [], _, _ => trivial
  | (v, tx) :: rest, right, hm =>
    ⟨(hm (v, tx) List.mem_cons_self).symm,
      pairsOK_left rest _ (fun p hp => hm p (List.mem_cons_of_mem _ hp))⟩

/-- the fresh variables `right.term_of_var` allocates along the loop can all be valued at once -/
theorem pairsOK_right {s : St V} : (m : List (V × Term F)) → (right : UVal V F) → right.WF →
    (ρ : Nat → Int) → Mod I ρ right.map s →
    ∃ ρ', Ext right.next ρ ρ' ∧ PairsOK (fun (_ : Term F) ty => Term.eval I ρ' ty) s m right
  | [], right, _, ρ, _ => ⟨ρ, Ext.refl _ _, trivial⟩
  | (v, tx) :: rest, right, hw, ρ, hm => by
    obtain ⟨ρ1, a1, a2, a3⟩ := termOfVar_spec I v hw hm
    have w1 := termOfVar_wf v hw
    obtain ⟨ρ2, b1, b2⟩ := pairsOK_right rest (right.termOfVar v).2 w1.1 ρ1 a2
    refine ⟨ρ2, Ext.trans a1 b1 (termOfVar_next right v), ?_, b2⟩
    show Term.eval I ρ2 (right.termOfVar v).1 = s v
    rw [Term.eval_ext I b1 _ w1.2, a3]

theorem join_sound {a b : UF V F} (hb : b.WF) (s : St V) (h : UF.γ I a s ∨ UF.γ I b s) :
    UF.γ I (UF.join a b) s := by
  unfold UF.join
  split
  · rename_i hc
    simp only [Bool.or_eq_true] at hc
    rcases hc with hc | hc
    · rcases h with h | h
      · exact absurd h (not_γ_of_isBottom I hc s)
      · exact h
    · exact γ_of_isTop I hc s
  · split
    · rename_i hc
      simp only [Bool.or_eq_true] at hc
      rcases hc with hc | hc
      · rcases h with h | h
        · exact h
        · exact absurd h (not_γ_of_isBottom I hc s)
      · exact γ_of_isTop I hc s
    · match a, b with
      | .bot, _ => simp [UF.isBottom] at *
      | .val ua, .bot => simp [UF.isBottom] at *
      | .val ua, .val ub =>
        simp only
        rcases h with ⟨ρ, hm⟩ | ⟨ρ, hm⟩
        · obtain ⟨ρ', _, _, h3, _⟩ := joinGo_spec I (sv_left I ρ) s ua.map ub ⟨[], 0⟩ (fun _ => 0)
            (pairsOK_left I ua.map ub hm) (fun e he => by simp at he)
          exact ⟨ρ', h3⟩
        · obtain ⟨ρb, _, hp⟩ := pairsOK_right I ua.map ub hb ρ hm
          obtain ⟨ρ', _, _, h3, _⟩ := joinGo_spec I (sv_right I ρb) s ua.map ub ⟨[], 0⟩ (fun _ => 0)
            hp (fun e he => by simp at he)
          exact ⟨ρ', h3⟩

/-- boundedness of the result needs no semantic premise (instance of `gen_spec` at a dummy
    interpretation) -/
theorem joinGo_bounded {sv : Term F → Term F → Int} (hsv : SV I sv) :
    (m : List (V × Term F)) → (right : UVal V F) → (st : GSt F) → (ρ : Nat → Int) →
    GOK I sv st.next st.memo ρ →
    ∃ ρ', GOK I sv (joinGo m right st).2.next (joinGo m right st).2.memo ρ' ∧
      MapB (joinGo m right st).2.next (joinGo m right st).1 ∧ st.next ≤ (joinGo m right st).2.next
  | [], right, st, ρ, h => by
    simp only [joinGo]
    exact ⟨ρ, h, fun p hp => by simp at hp, Nat.le_refl _⟩
  | (v, tx) :: rest, right, st, ρ, h => by
    simp only [joinGo]
    obtain ⟨ρ1, _, a2, a3, _, a5⟩ := gen_spec I hsv tx (right.termOfVar v).1 st ρ h
    obtain ⟨ρ2, b2, b4, b5⟩ := joinGo_bounded hsv rest (right.termOfVar v).2 _ ρ1 a2
    refine ⟨ρ2, b2, ?_, Nat.le_trans a5 b5⟩
    intro p hp'
    rcases List.mem_cons.1 hp' with rfl | hp'
    · exact Term.bounded_mono b5 _ a3
    · exact b4 p hp'

theorem join_wf {a b : UF V F} (ha : a.WF) (hb : b.WF) : (UF.join a b).WF := by
  unfold UF.join
  split
  · exact hb
  · split
    · exact ha
    · match a, b with
      | .bot, _ => trivial
      | .val ua, .bot => exact ha
      | .val ua, .val ub =>
        simp only
        obtain ⟨_, _, h4, _⟩ := joinGo_bounded (fun (_ : F) _ => 0) (sv_left _ (fun _ => 0)) ua.map ub ⟨[], 0⟩
          (fun _ => 0) (fun e he => by simp at he)
        exact h4

end Uf
end Fct
end Dom
end Crab
