import CrabModel.Dom.RegionSmash
import CrabProofs.Lemmas.Interval

/-!
  A non-trivial instance of the base-domain interface `Rgn.Base`: constant propagation over the
  ghost variables (`GVar → Option Int`, `none` = unknown).  It shows that the laws the
  `RegionSmash` theorems assume are satisfiable by a real (non-relational) domain and serves as
  the base of the `ref_make` counterexample about the address of the assigned reference.
-/
namespace Crab
namespace Rgn

abbrev CB := GVar → Option Int

namespace CB

def set (b : CB) (x : GVar) (v : Option Int) : CB := fun y => if y = x then v else b y
def γ (b : CB) (ρ : Val) : Prop := ∀ x k, b x = some k → ρ x = k
def join (a b : CB) : CB := fun x => if a x = b x then a x else none

theorem γ_set {b : CB} {ρ : Val} (x : GVar) (v : Option Int) (k : Int) (h : γ b ρ) (hv : ∀ k', v = some k' → k = k') :
    γ (b.set x v) (ρ.set x k) := by
  intro y k' hy
  simp only [set, Val.set] at hy ⊢
  by_cases hyx : y = x
  · simp only [hyx, if_true] at hy ⊢; exact hv k' hy
  · simp only [hyx, if_false] at hy ⊢; exact h y k' hy

theorem γ_join_left {a b : CB} {ρ : Val} (h : γ a ρ) : γ (join a b) ρ := by
  intro x k hx
  simp only [join] at hx
  split at hx
  · exact h x k hx
  · cases hx

theorem γ_join_right {a b : CB} {ρ : Val} (h : γ b ρ) : γ (join a b) ρ := by
  intro x k hx
  simp only [join] at hx
  split at hx
  · rename_i he; rw [he] at hx; exact h x k hx
  · cases hx

end CB

/-- constant propagation as a base domain of the region functor -/
def cstBase : Base CB where
  γ := CB.γ
  assign := fun x y b => b.set x (b y)
  assignC := fun x k b => b.set x (some k)
  assignAdd := fun x y k b => b.set x ((b y).map (· + k))
  weakAssign := fun x y b => CB.join b (b.set x (b y))
  weakAssignC := fun x k b => CB.join b (b.set x (some k))
  forget := fun x b => b.set x none
  expand := fun x y b => b.set y (b x)
  join := CB.join
  widen := CB.join
  toItv := fun b x => match b x with | some k => Itv.single k | none => Itv.top
  assign_sound := by
    intro b ρ x y h
    exact CB.γ_set x (b y) (ρ y) h (fun k' hk => h y k' hk)
  assignC_sound := by
    intro b ρ x k h
    exact CB.γ_set x (some k) k h (fun k' hk => by cases hk; rfl)
  assignAdd_sound := by
    intro b ρ x y k h
    refine CB.γ_set x _ _ h ?_
    intro k' hk
    cases hy : b y with
    | none => rw [hy] at hk; cases hk
    | some ky => rw [hy] at hk; simp at hk; rw [h y ky hy]; exact hk
  weakAssign_keep := fun _ _ h => CB.γ_join_left h
  weakAssign_sound := by
    intro b ρ x y h
    exact CB.γ_join_right (CB.γ_set x (b y) (ρ y) h (fun k' hk => h y k' hk))
  weakAssignC_keep := fun _ _ h => CB.γ_join_left h
  weakAssignC_sound := by
    intro b ρ x k h
    exact CB.γ_join_right (CB.γ_set x (some k) k h (fun k' hk => by cases hk; rfl))
  forget_sound := by
    intro b ρ x k h
    exact CB.γ_set x none k h (fun k' hk => by cases hk)
  expand_sound := by
    intro b ρ x y k h1 h2
    refine CB.γ_set y (b x) k h1 ?_
    intro k' hk
    have := h2 x k' hk
    simp only [Val.set, if_true] at this
    exact this
  join_left := CB.γ_join_left
  join_right := CB.γ_join_right
  widen_left := CB.γ_join_left
  widen_right := CB.γ_join_right
  toItv_sound := by
    intro b ρ x h
    cases hx : b x with
    | none => exact Itv.mem_top _
    | some k => simp only []; rw [h x k hx]; exact (Itv.mem_single k k).2 rfl

end Rgn
end Crab
