import CrabProofs.Lemmas.DisIntervalChain

/-! The strict decrease of `Dis.wmeasure` on a widening step (`Crab.Dis.widen`) between normalised
    values with `y ⋢ x`. -/
namespace Crab
namespace Dis
open Bound

theorem wmeasure_lt_of_single {S x : Dis} (hsub : ∀ k, mem k x → mem k S) (hxm : ∃ k, mem k x)
    (hx : x.st = .fin) (hx2 : 2 ≤ x.l.length) (hS1 : S.st = .fin → S.l.length = 1) :
    wmeasure S < wmeasure x := by
  obtain ⟨k, hk⟩ := hxm
  have hr := rank_mono hsub
  obtain ⟨ss, sl⟩ := S
  obtain ⟨xs, xl⟩ := x
  simp only at hx hx2 hS1; subst hx
  cases ss
  · exact absurd (hsub k hk) (by simp [mem])
  · have := hS1 rfl
    simp [wmeasure, this, hx2]; omega
  · simp only [wmeasure]; omega

theorem wmeasure_lt_of_rank {S x : Dis} (hsub : ∀ k, mem k x → mem k S) (hxm : ∃ k, mem k x)
    (hx : x.st = .fin) (hr : rank S < rank x) : wmeasure S < wmeasure x := by
  obtain ⟨k, hk⟩ := hxm
  obtain ⟨ss, sl⟩ := S
  obtain ⟨xs, xl⟩ := x
  simp only at hx; subst hx
  cases ss
  · exact absurd (hsub k hk) (by simp [mem])
  · simp only [wmeasure]; split <;> split <;> omega
  · simp only [wmeasure]; omega

theorem lt_right_fin {p q : Bound} (h : Bound.lt p q = true) (hq : q ≠ .pinf) : ∃ l, q = .fin l := by
  cases p <;> cases q <;> simp_all [Bound.lt, Bound.ge]

theorem lt_left_fin {p q : Bound} (h : Bound.lt p q = true) (hp : p ≠ .ninf) : ∃ u, p = .fin u := by
  cases p <;> cases q <;> simp_all [Bound.lt, Bound.ge]

theorem leqLoop_single {l : List Itv} {a : Itv} (h : ∀ i ∈ l, Itv.leq i a = true) :
    leqLoop l [a] = true := by
  induction l with
  | nil => simp [leqLoop]
  | cons i is ih =>
    unfold leqLoop
    simp [h i (by simp)]
    exact ih (fun j hj => h j (List.mem_cons_of_mem _ hj))

/-- a single interval widened with an interval that it does not cover -/
theorem widen_measure_single {a b : Itv} (ha : proper a = true) (hbw : b.WF)
    (hle : Itv.leq b a = false) : wmeasure (ofItv (Itv.widen a b)) < wmeasure ⟨.fin, [a]⟩ := by
  have hpa := (proper_iff a).mp ha
  obtain ⟨hbb, hc⟩ := itv_leq_false hpa.1 hle
  have hww : (Itv.widen a b).WF := Itv.wf_widen hpa.2.2 hbw
  have hwl : WFList [a] := ⟨by simpa using ha, by simp⟩
  have hsub : ∀ k, mem k (⟨.fin, [a]⟩ : Dis) → mem k (ofItv (Itv.widen a b)) := by
    intro k hk
    rw [mem_ofItv hww]
    simp [mem] at hk
    exact Itv.widen_upper_left hk
  have hwS : ∀ k, Itv.mem k (Itv.widen a b) → mem k (ofItv (Itv.widen a b)) :=
    fun _ hk => (mem_ofItv hww _).mpr hk
  have hxm : ∃ k, mem k (⟨.fin, [a]⟩ : Dis) := by
    obtain ⟨k, hk⟩ := exists_mem_of_proper ha
    exact ⟨k, a, by simp, hk⟩
  apply wmeasure_lt_of_rank hsub hxm rfl
  rcases hc with hc | hc
  · obtain ⟨l, hl⟩ := lt_right_fin hc hpa.2.2.1
    refine rank_drop_below hsub (not_boundedBelow hww ?_ hwS) (boundedBelow_of_first hwl hl)
    rw [itv_widen_eq hpa.1 hbb]; simp [hc]
  · obtain ⟨u, hu⟩ := lt_left_fin hc hpa.2.2.2
    refine rank_drop_above hsub (not_boundedAbove hww ?_ hwS)
      (boundedAbove_of_last hwl (by simp) (by simpa using hu))
    rw [itv_widen_eq hpa.1 hbb]; simp [hc]

/-- the hull of a normalised vector: from the first lower bound to the last upper bound -/
theorem leq_approxNE {a : Itv} {as : List Itv} (h : WFList (a :: as)) {i : Itv} (hi : i ∈ a :: as) :
    Itv.leq i (approxNE a as) = true :=
  Itv.leq_of_subset ((proper_iff i).mp (h.1 i hi)).2.2 (fun _ hk => approxNE_mem h ⟨i, hi, hk⟩)

/-- a value of two or more intervals widened to one interval -/
theorem widen_measure_hull {x : Dis} (hx : WF x) (hst : x.st = .fin) (h2 : 2 ≤ x.l.length)
    {w : Itv} (hw : w.WF) (hsub : ∀ k, mem k x → Itv.mem k w) : wmeasure (ofItv w) < wmeasure x := by
  have hxm : ∃ k, mem k x := by
    obtain ⟨s, l⟩ := x
    simp only at hst; subst hst
    obtain ⟨hne, _, hwl⟩ := hx
    obtain ⟨a, as, rfl⟩ := List.exists_cons_of_ne_nil hne
    obtain ⟨k, hk⟩ := exists_mem_of_proper (hwl.1 a (by simp))
    exact ⟨k, a, by simp, hk⟩
  refine wmeasure_lt_of_single (fun k hk => (mem_ofItv hw k).mpr (hsub k hk)) hxm hst h2 ?_
  intro hf
  unfold ofItv at hf ⊢
  split
  · rename_i ht; simp [ht] at hf
  · split
    · rename_i _ hb; simp [*] at hf
    · rfl

end Dis
end Crab
