import CrabProofs.Lemmas.BwdSound

/-!
  The executable semantics agrees with the relations: a choice stream accepted by `replay`
  is an execution in the sense of `CoReach` (so every witness the driver reports is a member of
  the set the theorems speak about).
-/
namespace Crab
namespace Bwd

theorem runStmtsFrom_done (ss : List Stmt) : ∀ (i : Nat) (σ σ' : State) (cs cs' : List Int),
    runStmtsFrom i ss σ cs = .done σ' cs' → StmtsStep ss σ σ' := by
  induction ss with
  | nil =>
    intro i σ σ' cs cs' h
    simp only [runStmtsFrom, BlockRes.done.injEq] at h
    exact h.1.symm
  | cons s ss ih =>
    intro i σ σ' cs cs' h
    simp only [runStmtsFrom] at h
    split at h
    · rename_i σ1 hstep
      exact ⟨σ1, ⟨_, hstep⟩, ih _ _ _ _ _ h⟩
    · cases h
    · cases h

theorem runStmtsFrom_fail (ss : List Stmt) : ∀ (i : Nat) (σ : State) (cs : List Int) (j : Nat),
    runStmtsFrom i ss σ cs = .fail j → StmtsFail ss σ := by
  induction ss with
  | nil => intro i σ cs j h; simp [runStmtsFrom] at h
  | cons s ss ih =>
    intro i σ cs j h
    simp only [runStmtsFrom] at h
    split at h
    · rename_i σ1 hstep
      exact Or.inr ⟨σ1, ⟨_, hstep⟩, ih _ _ _ _ h⟩
    · cases h
    · rename_i hstep
      exact Or.inl ⟨_, hstep⟩

/-- a replayed witness is a co-reachability derivation -/
theorem replay_coReach (p : Prog) (invOk : Nat → State → Bool) (errAt : Nat → Nat → Bool)
    (fin : State → Bool) (err : Bool) (herr : ∀ n i, errAt n i = true → err = true) :
    ∀ (fuel n : Nat) (σ : State) (cs : List Int), replay p invOk errAt fin fuel n σ cs = true →
      CoReach p (fun n σ => invOk n σ = true) err (fun σ => fin σ = true) n σ := by
  intro fuel
  induction fuel with
  | zero => intro n σ cs h; simp [replay] at h
  | succ fuel ih =>
    intro n σ cs h
    simp only [replay, Bool.and_eq_true] at h
    obtain ⟨hinv, h⟩ := h
    split at h
    · rename_i i hr
      exact CoReach.fail n σ (herr n i h) hinv (runStmtsFrom_fail _ _ _ _ _ hr)
    · cases h
    · rename_i σ' cs' hr
      have hrun := runStmtsFrom_done _ _ _ _ _ _ hr
      simp only [Bool.or_eq_true, Bool.and_eq_true, beq_iff_eq] at h
      rcases h with ⟨hn, hf⟩ | h
      · subst hn; exact CoReach.exit σ σ' hinv hrun hf
      · split at h
        · cases h
        · rename_i k cs''
          split at h
          · rename_i m hm
            have hmem : m ∈ (p.block n).succs := List.mem_of_getElem? hm
            exact CoReach.flow n m σ σ' hinv hmem hrun (ih m σ' cs'' h)
          · cases h

end Bwd
end Crab
