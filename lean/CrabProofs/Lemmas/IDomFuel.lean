import CrabModel.Dom.IntervalDomain

/-!
  The `do … while (!m_refined_variables.empty() && m_op_count <= m_max_op)` loop of
  `solve_large_system` is modelled with fuel `m_max_op + 1`.  This file proves that this fuel is
  never exhausted: every iteration that goes on has inserted a variable in the (freshly cleared)
  set of refined variables, which only happens together with `++m_op_count`, so the counter
  passes `m_max_op` after at most `m_max_op + 1` iterations; the result is the same with any
  larger fuel.
-/
namespace Crab
namespace IDom
open Lin

/-- progress relation between two solver states: the counter never decreases and the set of refined
    variables only changes when the counter increases -/
def Prog (a b : SolverSt) : Prop := a.ops ≤ b.ops ∧ (b.refined = a.refined ∨ a.ops < b.ops)

theorem Prog.refl (a : SolverSt) : Prog a a := ⟨Nat.le_refl _, Or.inl rfl⟩

theorem Prog.trans {a b c : SolverSt} (h1 : Prog a b) (h2 : Prog b c) : Prog a c := by
  refine ⟨Nat.le_trans h1.1 h2.1, ?_⟩
  rcases h1.2 with e1 | l1
  · rcases h2.2 with e2 | l2
    · exact Or.inl (e2.trans e1)
    · exact Or.inr (Nat.lt_of_le_of_lt h1.1 l2)
  · exact Or.inr (Nat.lt_of_lt_of_le l1 h2.1)

theorem refine_prog (st : SolverSt) (v : Var) (i : Itv) : Prog st (refine st v i).2 := by
  unfold refine
  simp only []
  split
  · exact Prog.refl st
  · split
    · exact ⟨Nat.le_succ _, Or.inr (Nat.lt_succ_self _)⟩
    · exact Prog.refl st

theorem residualLoop_ops (env : Env) (pivot : Var) : ∀ (ts : List (Var × Int)) (r : Itv) (n : Nat),
    n ≤ (residualLoop env pivot ts r n).2 := by
  intro ts
  induction ts with
  | nil => intro r n; exact Nat.le_refl n
  | cons p rest ih =>
    obtain ⟨v, c⟩ := p
    intro r n
    unfold residualLoop
    split
    · exact ih r n
    · simp only []
      split
      · exact Nat.le_succ n
      · exact Nat.le_trans (Nat.le_succ n) (ih _ _)

theorem propagateTerm_prog (c : Cst) (st : SolverSt) (pivot : Var) (coef : Int) :
    Prog st (propagateTerm c st pivot coef).2 := by
  have hro := residualLoop_ops st.env pivot c.expr.terms (Itv.single c.constant) st.ops
  unfold propagateTerm
  simp only []
  unfold computeResidual
  generalize residualLoop st.env pivot c.expr.terms (Itv.single c.constant) st.ops = ro at hro
  generalize (if (!ro.1.isTop) = true then divT ro.1 (Itv.single coef) else Itv.top) = rhs
  have h0 : Prog st ⟨st.env, st.refined, ro.2⟩ := ⟨hro, Or.inl rfl⟩
  cases c.kind with
  | eq => exact h0.trans (refine_prog _ _ _)
  | leq =>
    simp only []
    by_cases hc : coef > 0
    · simp only [hc, if_true]; exact h0.trans (refine_prog _ _ _)
    · simp only [hc]; exact h0.trans (refine_prog _ _ _)
  | lt => exact h0
  | neq =>
    simp only []
    by_cases h1 : (!Itv.beq (Itv.mul rhs (Itv.single coef)) ro.1) = true
    · simp only [h1, if_true]; exact h0
    · simp only [h1]
      by_cases h2 : (Itv.trim (st.env.get pivot) rhs).isBottom = true
      · simp only [h2, if_true]; exact h0
      · simp only [h2]
        by_cases h3 : (!Itv.beq (st.env.get pivot) (Itv.trim (st.env.get pivot) rhs)) = true
        · simp only [h3, if_true]
          exact ⟨Nat.le_succ_of_le hro, Or.inr (Nat.lt_succ_of_le hro)⟩
        · simp only [h3]
          exact ⟨Nat.le_succ_of_le hro, Or.inr (Nat.lt_succ_of_le hro)⟩

theorem propagateLoop_prog (c : Cst) : ∀ (ts : List (Var × Int)) (st : SolverSt),
    Prog st (propagateLoop c ts st).2 := by
  intro ts
  induction ts with
  | nil => intro st; exact Prog.refl st
  | cons p rest ih =>
    obtain ⟨v, k⟩ := p
    intro st
    have h1 := propagateTerm_prog c st v k
    unfold propagateLoop
    generalize propagateTerm c st v k = r at h1
    obtain ⟨b, st'⟩ := r
    cases b
    · exact h1.trans (ih st')
    · exact h1

theorem propagateAll_prog : ∀ (tbl : List Cst) (st : SolverSt), Prog st (propagateAll tbl st).2 := by
  intro tbl
  induction tbl with
  | nil => intro st; exact Prog.refl st
  | cons c rest ih =>
    intro st
    have h1 := propagateLoop_prog c c.expr.terms st
    unfold propagateAll propagate
    generalize propagateLoop c c.expr.terms st = r at h1
    obtain ⟨b, st'⟩ := r
    cases b
    · exact h1.trans (ih st')
    · exact h1

/-- one more unit of fuel changes nothing once the fuel covers the remaining operation budget -/
theorem solveLargeLoop_succ (tbl : List Cst) (maxOp : Nat) : ∀ (fuel : Nat) (st : SolverSt),
    maxOp + 1 ≤ fuel + st.ops → solveLargeLoop tbl maxOp (fuel + 1) st = solveLargeLoop tbl maxOp fuel st := by
  intro fuel
  induction fuel with
  | zero =>
    intro st h
    have hp := propagateAll_prog (st.refined.flatMap (trigger tbl)) ⟨st.env, [], st.ops⟩
    unfold solveLargeLoop
    simp only []
    generalize propagateAll (st.refined.flatMap (trigger tbl)) ⟨st.env, [], st.ops⟩ = r at hp
    obtain ⟨b, st'⟩ := r
    cases b
    · simp only []
      have : ¬ st'.ops ≤ maxOp := by have := hp.1; simp only at this; omega
      simp [this]
    · rfl
  | succ n ih =>
    intro st h
    have hp := propagateAll_prog (st.refined.flatMap (trigger tbl)) ⟨st.env, [], st.ops⟩
    rw [solveLargeLoop.eq_def tbl maxOp (n + 1 + 1), solveLargeLoop.eq_def tbl maxOp (n + 1)]
    simp only []
    generalize propagateAll (st.refined.flatMap (trigger tbl)) ⟨st.env, [], st.ops⟩ = r at hp
    obtain ⟨b, st'⟩ := r
    cases b
    · simp only []
      by_cases hc : (!st'.refined.isEmpty && decide (st'.ops ≤ maxOp)) = true
      · simp only [hc, if_true]
        apply ih
        -- the set of refined variables was cleared and is not empty: the counter has increased
        have hne : st'.refined ≠ [] := by
          intro e; rw [e] at hc; simp at hc
        rcases hp.2 with e | l
        · exact absurd e hne
        · simp only at l; omega
      · simp only [hc]; rfl
    · rfl

/-- the result of the loop does not depend on the fuel beyond `m_max_op + 1` -/
theorem solveLargeLoop_fuel (tbl : List Cst) (maxOp : Nat) (st : SolverSt) (k : Nat) :
    solveLargeLoop tbl maxOp (maxOp + 1 + k) st = solveLargeLoop tbl maxOp (maxOp + 1) st := by
  induction k with
  | zero => rfl
  | succ j ih =>
    rw [← ih]
    exact solveLargeLoop_succ tbl maxOp (maxOp + 1 + j) st (by omega)

end IDom
end Crab
