import CrabProofs.Lemmas.FunctorUf

/-!
`uf_domain`: the statement transformers are sound and keep the term variables below `m_free_var`.
-/
namespace Crab
namespace Dom
namespace Fct
namespace Uf
set_option linter.unusedSectionVars false

variable {V F : Type} [DecidableEq V] [DecidableEq F] (I : F → List Int → Int)

theorem γ_top (s : St V) : UF.γ I (UF.top : UF V F) s := ⟨fun _ => 0, fun p hp => by simp at hp⟩

theorem wf_top : (UF.top : UF V F).WF := fun p hp => by simp at hp

theorem γ_of_isTop {a : UF V F} (h : UF.isTop a = true) (s : St V) : UF.γ I a s := by
  match a with
  | .bot => simp [UF.isTop] at h
  | .val u =>
    simp only [UF.isTop, List.isEmpty_iff] at h
    exact ⟨fun _ => 0, fun p hp => by rw [h] at hp; simp at hp⟩

theorem not_γ_of_isBottom {a : UF V F} (h : UF.isBottom a = true) (s : St V) : ¬ UF.γ I a s := by
  match a with
  | .bot => exact fun h => h
  | .val u => simp [UF.isBottom] at h

/-! ### `x := e` -/

theorem assign_sound (x : V) (e : Exp V F) {a : UF V F} (hw : a.WF) (s : St V) (hg : UF.γ I a s) :
    UF.γ I (UF.assign x e a) (s.set x (e.eval I s)) := by
  match a with
  | .bot => exact hg
  | .val u =>
    obtain ⟨ρ, hm⟩ := hg
    obtain ⟨ρ', _, h2, h3⟩ := build_spec I e hw hm
    refine ⟨ρ', ?_⟩
    intro p hp
    rcases List.mem_cons.1 hp with rfl | hp
    · simp [St.set, h3]
    · have := mem_erase hp
      simp only [St.set, this.2, if_false]
      exact h2 p this.1

theorem assign_wf (x : V) (e : Exp V F) {a : UF V F} (hw : a.WF) : (UF.assign x e a).WF := by
  match a with
  | .bot => trivial
  | .val u =>
    have h := build_wf e hw
    intro p hp
    rcases List.mem_cons.1 hp with rfl | hp
    · exact h.2.1
    · exact h.1 p (mem_erase hp).1

/-! ### `-=`, `forget`, `project` -/

theorem mod_filter {ρ : Nat → Int} {m : List (V × Term F)} {s s' : St V} (keep : V × Term F → Bool)
    (hm : Mod I ρ m s) (h : ∀ p ∈ m, keep p = true → s' p.1 = s p.1) : Mod I ρ (m.filter keep) s' := by
  intro p hp
  have := List.mem_filter.1 hp
  rw [h p this.1 this.2]; exact hm p this.1

theorem forgetVar_sound (x : V) {a : UF V F} (s : St V) (k : Int) (hg : UF.γ I a s) :
    UF.γ I (UF.forgetVar x a) (s.set x k) := by
  match a with
  | .bot => exact hg
  | .val u =>
    obtain ⟨ρ, hm⟩ := hg
    refine ⟨ρ, mod_filter I _ hm ?_⟩
    intro p _ hk
    have : p.1 ≠ x := by simpa using hk
    simp [St.set, this]

theorem forgetVar_wf (x : V) {a : UF V F} (hw : a.WF) : (UF.forgetVar x a).WF := by
  match a with
  | .bot => trivial
  | .val u => exact mapB_erase x hw

theorem foldl_forgetVar (xs : List V) (u : UVal V F) :
    xs.foldl (fun acc x => UF.forgetVar x acc) (.val u) =
      .val ⟨u.next, u.map.filter (fun p => decide (p.1 ∉ xs))⟩ := by
  induction xs generalizing u with
  | nil =>
    obtain ⟨n, m⟩ := u
    simp only [List.foldl_nil, List.not_mem_nil, not_false_eq_true, decide_true]
    rw [List.filter_eq_self.2 (fun _ _ => rfl)]
  | cons x xs ih =>
    rw [List.foldl_cons]
    show xs.foldl _ (UF.val ⟨u.next, UVal.erase u.map x⟩) = _
    rw [ih]
    have : (UVal.erase u.map x).filter (fun p => decide (p.1 ∉ xs)) =
        u.map.filter (fun p => decide (p.1 ∉ x :: xs)) := by
      simp only [UVal.erase, List.filter_filter]
      apply List.filter_congr
      intro p _
      by_cases h1 : p.1 = x <;> by_cases h2 : p.1 ∈ xs <;> simp [h1, h2]
    rw [this]

theorem forget_sound (xs : List V) {a : UF V F} (s s' : St V) (hg : UF.γ I a s)
    (h : ∀ v, v ∉ xs → s' v = s v) : UF.γ I (UF.forget xs a) s' := by
  unfold UF.forget
  split
  · rename_i hc
    simp only [Bool.or_eq_true] at hc
    rcases hc with hc | hc
    · exact absurd hg (not_γ_of_isBottom I hc s)
    · exact γ_of_isTop I hc s'
  · match a with
    | .bot => exact absurd hg id
    | .val u =>
      rw [foldl_forgetVar]
      obtain ⟨ρ, hm⟩ := hg
      refine ⟨ρ, mod_filter I _ hm ?_⟩
      intro p _ hk
      exact h p.1 (by simpa using hk)

theorem forget_wf (xs : List V) {a : UF V F} (hw : a.WF) : (UF.forget xs a).WF := by
  unfold UF.forget
  split
  · exact hw
  · match a with
    | .bot => simp [UF.isBottom] at *
    | .val u =>
      rw [foldl_forgetVar]
      intro p hp
      exact hw p (List.mem_filter.1 hp).1

theorem project_sound (xs : List V) {a : UF V F} (s s' : St V) (hg : UF.γ I a s)
    (h : ∀ v, v ∈ xs → s' v = s v) : UF.γ I (UF.project xs a) s' := by
  unfold UF.project
  split
  · rename_i hc
    simp only [Bool.or_eq_true] at hc
    rcases hc with hc | hc
    · exact absurd hg (not_γ_of_isBottom I hc s)
    · exact γ_of_isTop I hc s'
  · rename_i hc
    split
    · exact γ_top I s'
    · match a with
      | .bot => exact absurd hg id
      | .val u =>
        simp only [UF.forget, hc, Bool.false_eq_true, if_false]
        rw [foldl_forgetVar]
        obtain ⟨ρ, hm⟩ := hg
        refine ⟨ρ, mod_filter I _ hm ?_⟩
        intro p hp hk
        apply h
        have hk' : p.1 ∉ (u.map.map (·.1)).filter (fun v => !xs.contains v) := by simpa using hk
        simp only [List.mem_filter, List.mem_map, Bool.not_eq_true', not_and, Bool.not_eq_false] at hk'
        have := hk' ⟨p, hp, rfl⟩
        simpa using this

theorem project_wf (xs : List V) {a : UF V F} (hw : a.WF) : (UF.project xs a).WF := by
  unfold UF.project
  split
  · exact hw
  · split
    · exact wf_top
    · match a with
      | .bot => trivial
      | .val u => exact forget_wf _ hw

/-! ### `rename`, `expand` -/

theorem renameOne_sound {u u' : UVal V F} {p : V × V} (h : UF.renameOne u p = some u') {ρ : Nat → Int}
    {s s' : St V} (hm : Mod I ρ u.map s) (hr : UF.Ren1 p s s') : Mod I ρ u'.map s' := by
  unfold UF.renameOne at h
  unfold UF.Ren1 at hr
  split at h
  · rename_i he
    cases h
    rw [if_pos he] at hr; rw [hr]; exact hm
  · rename_i hne
    rw [if_neg hne] at hr
    split at h
    · cases h
    · rename_i hn
      have hn' : look u.map p.2 = none := by
        cases hl : look u.map p.2 with
        | none => rfl
        | some t => rw [hl] at hn; simp at hn
      have hk := look_none hn'
      split at h
      · rename_i t ht
        cases h
        intro q hq
        rcases List.mem_cons.1 hq with rfl | hq
        · show s' p.2 = _
          rw [hr.1]; exact hm _ (look_mem ht)
        · have := mem_erase hq
          rw [hr.2 q.1 this.2 (hk q this.1)]
          exact hm q this.1
      · rename_i hl
        cases h
        intro q hq
        rw [hr.2 q.1 (look_none hl q hq) (hk q hq)]
        exact hm q hq

theorem renameOne_wf {u u' : UVal V F} {p : V × V} (h : UF.renameOne u p = some u') (hw : u.WF) : u'.WF := by
  unfold UF.renameOne at h
  split at h
  · cases h; exact hw
  · split at h
    · cases h
    · split at h
      · rename_i t ht
        cases h
        intro q hq
        rcases List.mem_cons.1 hq with rfl | hq
        · exact hw (p.1, t) (look_mem ht)
        · exact hw q (mem_erase hq).1
      · cases h; exact hw

theorem renameGo_sound (ps : List (V × V)) {u u' : UVal V F} (h : UF.renameGo ps u = some u')
    {ρ : Nat → Int} {s s' : St V} (hm : Mod I ρ u.map s) (hr : UF.RenRel ps s s') : Mod I ρ u'.map s' := by
  induction ps generalizing u s with
  | nil => simp only [UF.renameGo] at h; cases h; rw [show s' = s from hr]; exact hm
  | cons p ps ih =>
    simp only [UF.renameGo] at h
    obtain ⟨s1, h1, h2⟩ := hr
    split at h
    · rename_i u1 hu1
      exact ih h (renameOne_sound I hu1 hm h1) h2
    · cases h

theorem renameGo_wf (ps : List (V × V)) {u u' : UVal V F} (h : UF.renameGo ps u = some u') (hw : u.WF) :
    u'.WF := by
  induction ps generalizing u with
  | nil => simp only [UF.renameGo] at h; cases h; exact hw
  | cons p ps ih =>
    simp only [UF.renameGo] at h
    split at h
    · rename_i u1 hu1; exact ih h (renameOne_wf hu1 hw)
    · cases h

theorem rename_sound (ps : List (V × V)) {a a' : UF V F} (h : UF.rename ps a = some a') (s s' : St V)
    (hg : UF.γ I a s) (hr : UF.RenRel ps s s') : UF.γ I a' s' := by
  unfold UF.rename at h
  split at h
  · rename_i hc
    cases h
    simp only [Bool.or_eq_true] at hc
    rcases hc with hc | hc
    · exact γ_of_isTop I hc s'
    · exact absurd hg (not_γ_of_isBottom I hc s)
  · match a with
    | .bot => exact absurd hg id
    | .val u =>
      simp only [Option.map_eq_some_iff] at h
      obtain ⟨u', hu', rfl⟩ := h
      obtain ⟨ρ, hm⟩ := hg
      exact ⟨ρ, renameGo_sound I ps hu' hm hr⟩

theorem rename_wf (ps : List (V × V)) {a a' : UF V F} (h : UF.rename ps a = some a') (hw : a.WF) : a'.WF := by
  unfold UF.rename at h
  split at h
  · cases h; exact hw
  · match a with
    | .bot => cases h; trivial
    | .val u =>
      simp only [Option.map_eq_some_iff] at h
      obtain ⟨u', hu', rfl⟩ := h
      exact renameGo_wf ps hu' hw

theorem expand_sound (x y : V) {a : UF V F} (hw : a.WF) (s : St V) (hg : UF.γ I a s) :
    UF.γ I (UF.expand x y a) (s.set y (s x)) := by
  unfold UF.expand
  split
  · rename_i hc
    simp only [Bool.or_eq_true] at hc
    rcases hc with hc | hc
    · exact absurd hg (not_γ_of_isBottom I hc s)
    · exact γ_of_isTop I hc _
  · exact assign_sound I y (.var x) hw s hg

theorem expand_wf (x y : V) {a : UF V F} (hw : a.WF) : (UF.expand x y a).WF := by
  unfold UF.expand
  split
  · exact hw
  · exact assign_wf y _ hw

/-- two variables with the same term are equal in every state of the value: what
    `to_linear_constraint_system()` exports -/
theorem equalities_sound {a : UF V F} {x y : V} (h : (x, y) ∈ UF.equalities a) (s : St V)
    (hg : UF.γ I a s) : s x = s y := by
  match a with
  | .bot => exact absurd hg id
  | .val u =>
    obtain ⟨ρ, hm⟩ := hg
    simp only [UF.equalities, List.mem_flatMap, List.mem_map, List.mem_filter, Bool.and_eq_true,
      decide_eq_true_eq, Prod.mk.injEq] at h
    obtain ⟨p, hp, q, ⟨hq, he, _⟩, rfl, rfl⟩ := h
    rw [hm p hp, hm q hq, he]

end Uf
end Fct
end Dom
end Crab
